(** SkeletonDict.v — property C09, clause "a skeleton rebuilt from its own dictionary equals it".

    [Skeleton.from_dict(sk.to_dict(), graph_class=type(g))] is modelled twice in the
    development: as a list of mutator calls ([Skeleton.sk_from_dict], Skeleton.v) and on JSON
    trees ([Serial.skeleton_from_dict] applied to [Serial.skeleton_to_dict], Serial.v).  This
    file proves, for EVERY state satisfying [Inv] and both graph classes:

    - [sk_rebuild_dict]: the rebuild succeeds (in particular the validating [add_edge] never
      refuses an undirected edge) and yields a state satisfying [Inv] whose skeleton has the
      same nodes with the same variable types (and the same metadata up to the re-derivation of
      the reserved time-series tags), EXACTLY the same undirected edges with their metadata
      ([Skeleton.sk_edges g' = Skeleton.sk_edges g]), and is equal to the original one according
      to [Skeleton.__eq__] ([Equality.skeleton_eqb k false g g' = Ok true], the boolean
      [Skeleton.sk_eqb] included); with unchanged metadata ([Plain], or a tag-stable
      time-series state) also deeply equal ([sk_rebuild_dict_deep]);
    - [sk_rebuild_dict_statement_proved]: the statement left open in SkeletonProofs.v;
    - [skeleton_from_dict_models_agree]: the two models compute the same state, so all of the
      above holds of the JSON-tree model as well ([sk_rebuild_json]). *)
From CG Require Import Base Digraph Graph GraphObs GraphInv GraphInvProofs GraphAcyclicProofs
  GraphAtomicLemmas Matrix MatrixProofs Skeleton SkeletonProofs Serial SerialProofs Equality
  EqualityProofs SubGraph SubGraphProofs.

Section SkDict.
  Variable parse : name -> option (name * Z).
  Variable fmt : name -> Z -> option name.
  Notation Inv := (Inv parse).
  Notation retag := (retag parse).
  Notation retag3 := (retag3 parse).
  Notation built_node := (built_node parse).

  Definition node_op (n : node) : op := OAddNodeObj (nid n) (nvt n) (nmeta n).
  Definition edge_op (g : graph) (e : edge) : op :=
    OAddEdge (esrc e, attr_of g (esrc e)) (edst e, attr_of g (edst e)) Und (Some (emeta e)) true.

  Lemma sk_dict_ops_eq g :
    sk_dict_ops g = map node_op (nodes_sorted g) ++ map (edge_op g) (Skeleton.sk_edges g).
  Proof. reflexivity. Qed.

  Lemma run_all_err k ops x :
    fold_left (fun acc o => bind acc (fun g' => fst (run_op parse fmt k g' o))) ops (Err x) = Err x.
  Proof. induction ops as [|o ops IH]; [reflexivity|exact IH]. Qed.

  Lemma run_all_app k ops1 ops2 g :
    run_all parse fmt k (ops1 ++ ops2) g
    = match run_all parse fmt k ops1 g with
      | Ok g1 => run_all parse fmt k ops2 g1
      | Err x => Err x
      end.
  Proof.
    unfold run_all. rewrite fold_left_app.
    destruct (fold_left _ ops1 (Ok g)) as [g1|x]; [reflexivity|apply run_all_err].
  Qed.

  Lemma run_all_cons k o ops g :
    run_all parse fmt k (o :: ops) g
    = match fst (run_op parse fmt k g o) with
      | Ok g1 => run_all parse fmt k ops g1
      | Err x => Err x
      end.
  Proof.
    unfold run_all. cbn [fold_left bind].
    destruct (fst (run_op parse fmt k g o)) as [g1|x]; [reflexivity|apply run_all_err].
  Qed.

  Lemma run_all_inv k : forall ops g g', Inv k g -> run_all parse fmt k ops g = Ok g' -> Inv k g'.
  Proof.
    induction ops as [|o ops IH]; intros g g' HI H.
    - injection H as <-. exact HI.
    - rewrite run_all_cons in H. destruct (fst (run_op parse fmt k g o)) as [g1|x] eqn:E; [|discriminate].
      eapply IH; [|exact H]. eapply inv_run_op_ok; eassumption.
  Qed.

  (** * Stage 1: the nodes *)

  Lemma add_obj_ok k g n :
    ~ In (nid n) (node_ids g) -> (k = TS -> parse (nid n) <> None) ->
    exists g', fst (run_op parse fmt k g (node_op n)) = Ok g'
      /\ gnodes g' = gnodes g ++ [built_node k (node3 n)]
      /\ gsrc g' = gsrc g /\ gdst g' = gdst g /\ gmeta g' = gmeta g.
  Proof.
    intros Hni Hp. apply at_node_exists_false in Hni.
    unfold node_op. cbn [run_op]. unfold lift, add_node_obj. rewrite Hni.
    unfold SerialProofs.built_node, SerialProofs.retag, node3, id3, mk_node. cbn [fst snd].
    destruct k; cbn [bind idx_add].
    - eexists. split; [reflexivity|]. cbn. auto.
    - destruct (parse (nid n)) as [[v l]|] eqn:P; [|exfalso; apply (Hp eq_refl); reflexivity].
      cbn [bind]. unfold idx_add. cbn [nmeta nid]. rewrite meta_lag_set_tags, meta_var_set_tags.
      eexists. split; [reflexivity|]. cbn. auto.
  Qed.

  Lemma run_all_nodes k : forall ns g0,
    NoDup (map nid ns) ->
    (forall n, In n ns -> ~ In (nid n) (node_ids g0)) ->
    (k = TS -> forall n, In n ns -> parse (nid n) <> None) ->
    exists g', run_all parse fmt k (map node_op ns) g0 = Ok g'
      /\ gnodes g' = gnodes g0 ++ map (fun n => built_node k (node3 n)) ns
      /\ gsrc g' = gsrc g0 /\ gdst g' = gdst g0 /\ gmeta g' = gmeta g0.
  Proof.
    induction ns as [|n ns IH]; intros g0 HND Hni Hp.
    - exists g0. cbn [map]. rewrite app_nil_r. auto.
    - cbn [map] in HND. inversion HND as [|? ? Hnot HND']; subst.
      destruct (add_obj_ok k g0 n (Hni n (or_introl eq_refl)) (fun E => Hp E n (or_introl eq_refl)))
        as (g1 & E1 & N1 & S1 & D1 & M1).
      cbn [map]. rewrite run_all_cons, E1.
      destruct (IH g1 HND') as (g' & E' & N' & S' & D' & M').
      + intros n' Hn'. unfold node_ids. rewrite N1, map_app, in_app_iff. cbn [map In].
        intros [H|[H|[]]].
        * apply (Hni n' (or_intror Hn')). exact H.
        * apply Hnot. unfold SerialProofs.built_node, node3, id3 in H. cbn in H. rewrite H.
          apply in_map, Hn'.
      + intros E n' Hn'. apply (Hp E n' (or_intror Hn')).
      + exists g'. split; [exact E'|]. rewrite N', N1, <- app_assoc, S', S1, D', D1, M', M1. auto.
  Qed.

  (** * Stage 2: the undirected edges, added with validation *)

  Definition und_of (e : edge) : edge := {| esrc := esrc e; edst := edst e; ety := Und; emeta := emeta e |}.

  Lemma add_und_ok k h s d m a b :
    s <> d -> node_exists h s = true -> node_exists h d = true ->
    edge_at h s d = None -> edge_at h d s = None ->
    (k = TS -> exists ls ld, node_lag h s = Some ls /\ node_lag h d = Some ld /\ (ls <= ld)%Z) ->
    (forall n, In n (gnodes h) -> ninb n = []) ->
    fst (run_op parse fmt k h (OAddEdge (s, a) (d, b) Und (Some m) true))
    = Ok (insert_edge h {| esrc := s; edst := d; ety := Und; emeta := m |}).
  Proof.
    intros Hne Hs Hd Hsd Hds Hlag Hno.
    cbn [run_op]. unfold add_edge, add_edge_try. cbn [fst snd].
    apply name_eqb_neq in Hne. rewrite Hne, Hsd.
    unfold add_endpoint. cbn [fst snd]. rewrite Hs, Hd.
    assert (Hor : orient k h s d Und = Ok (s, d)).
    { unfold orient. destruct k; [reflexivity|].
      destruct (Hlag eq_refl) as (ls & ld & -> & -> & Hle).
      destruct (Z.ltb_spec ld ls); [lia|reflexivity]. }
    rewrite Hor. unfold set_edge. rewrite Hsd, Hds.
    rewrite (depends_no_inbound (insert_edge h {| esrc := s; edst := d; ety := Und; emeta := m |}) d).
    - reflexivity.
    - exact Hno.
    - apply at_node_exists_in in Hd. exact Hd.
  Qed.

  Lemma run_all_edges k g L : forall es done h,
    EdgesBuilt L [] done h ->
    (forall n, In n (gnodes h) -> ninb n = []) ->
    NoDup (map edge_key (done ++ es)) ->
    (forall e e', In e (done ++ es) -> In e' (done ++ es) -> edge_key e' <> (edst e, esrc e)) ->
    (forall e, In e es -> In (esrc e) (map id3 L) /\ In (edst e) (map id3 L)) ->
    (k = TS -> forall e, In e es -> exists ls ld,
        lag3 L (esrc e) = Some ls /\ lag3 L (edst e) = Some ld /\ (ls <= ld)%Z) ->
    exists h', run_all parse fmt k (map (edge_op g) es) h = Ok h'
      /\ EdgesBuilt L [] (done ++ map und_of es) h'
      /\ (forall n, In n (gnodes h') -> ninb n = []).
  Proof.
    induction es as [|e es IH]; intros done h HB Hno HND Hnr Hep Hlag.
    - exists h. cbn [map]. rewrite app_nil_r. auto.
    - pose proof HB as (HL & Hs & Hd & Hm).
      assert (Hine : In e (done ++ e :: es)) by (apply in_or_app; right; left; reflexivity).
      assert (Hkey : ~ In (edge_key e) (map edge_key done)).
      { rewrite map_app in HND. cbn [map] in HND. apply NoDup_remove_2 in HND.
        intros H. apply HND, in_or_app. left; exact H. }
      assert (Hrev : ~ In (edst e, esrc e) (map edge_key done)).
      { intros H. apply in_map_iff in H. destruct H as (e' & Ek & Hin').
        apply (Hnr e e' Hine); [apply in_or_app; left; exact Hin'|exact Ek]. }
      assert (Hloop : esrc e <> edst e).
      { intros E. apply (Hnr e e Hine Hine). unfold edge_key. rewrite E. reflexivity. }
      destruct (Hep e (or_introl eq_refl)) as [He1 He2].
      assert (Hxs : node_exists h (esrc e) = true).
      { apply at_node_exists_in. unfold node_ids. rewrite <- map_id3_node3, HL. exact He1. }
      assert (Hxd : node_exists h (edst e) = true).
      { apply at_node_exists_in. unfold node_ids. rewrite <- map_id3_node3, HL. exact He2. }
      assert (Hsd : edge_at h (esrc e) (edst e) = None).
      { unfold edge_at. rewrite Hs. apply MatrixProofs.find_edge_none. exact Hkey. }
      assert (Hds : edge_at h (edst e) (esrc e) = None).
      { unfold edge_at. rewrite Hs. apply MatrixProofs.find_edge_none. exact Hrev. }
      assert (Hlg : k = TS -> exists ls ld, node_lag h (esrc e) = Some ls
                                      /\ node_lag h (edst e) = Some ld /\ (ls <= ld)%Z).
      { intros Ek. rewrite !node_lag_find3, HL. apply (Hlag Ek e (or_introl eq_refl)). }
      cbn [map]. rewrite run_all_cons. unfold edge_op at 1.
      rewrite (add_und_ok k h (esrc e) (edst e) (emeta e) _ _ Hloop Hxs Hxd Hsd Hds Hlg Hno).
      fold (und_of e).
      assert (Hsplit : done ++ e :: es = (done ++ [e]) ++ es) by (rewrite <- app_assoc; reflexivity).
      destruct (IH (done ++ [und_of e]) (insert_edge h (und_of e))) as (h' & E' & HB' & Hno').
      + apply edges_built_insert. exact HB.
      + intros n Hn. apply Hno. exact Hn.
      + rewrite <- app_assoc. cbn [app]. rewrite !map_app in *. cbn [map] in *. exact HND.
      + intros e1 e2 H1 H2.
        assert (Hconv : forall x, In x ((done ++ [und_of e]) ++ es) ->
                  exists x', In x' (done ++ e :: es) /\ edge_key x' = edge_key x /\ esrc x' = esrc x /\ edst x' = edst x).
        { intros x Hx. rewrite <- app_assoc in Hx. apply in_app_or in Hx. destruct Hx as [Hx|[Hx|Hx]].
          - exists x. split; [apply in_or_app; left; exact Hx|auto].
          - subst x. exists e. split; [exact Hine|]. cbn. auto.
          - exists x. split; [apply in_or_app; right; right; exact Hx|auto]. }
        destruct (Hconv e1 H1) as (x1 & X1 & _ & S1 & D1). destruct (Hconv e2 H2) as (x2 & X2 & K2 & _ & _).
        rewrite <- K2, <- S1, <- D1. apply Hnr; assumption.
      + intros e' He'. apply Hep. right; exact He'.
      + intros Ek e' He'. apply (Hlag Ek). right; exact He'.
      + exists h'. split; [exact E'|]. split; [|exact Hno'].
        cbn [map]. rewrite <- app_assoc in HB'. exact HB'.
  Qed.

  (** * The rebuilt state *)

  Lemma und_of_retype e : und_of (retype_und e) = retype_und e.
  Proof. reflexivity. Qed.

  Lemma edge_op_retype g e : edge_op g (retype_und e) = edge_op g e.
  Proof. reflexivity. Qed.

  Lemma sorted_key_map (f : edge -> edge) l :
    (forall e, edge_key (f e) = edge_key e) ->
    StronglySorted (Base.le pair_leb_e) l -> StronglySorted (Base.le pair_leb_e) (map f l).
  Proof.
    intros Hf. induction 1 as [|x l Hs IH Hall]; simpl; constructor; [exact IH|].
    rewrite Forall_forall in *. intros y Hy. apply in_map_iff in Hy. destruct Hy as (z & <- & Hz).
    specialize (Hall z Hz). unfold Base.le, pair_leb_e in *. rewrite !Hf. exact Hall.
  Qed.

  Lemma sk_edges_sorted g : StronglySorted (Base.le pair_leb_e) (Skeleton.sk_edges g).
  Proof. unfold Skeleton.sk_edges. apply sorted_key_map; [reflexivity|apply sorted_edges_sorted]. Qed.

  Lemma v_node_names_v_nodes g : v_node_names g = map id3 (v_nodes g).
  Proof. unfold v_node_names, v_nodes. rewrite map_map. reflexivity. Qed.

  (** what [sk_from_dict] builds, stated on the concrete state *)
  Lemma sk_from_dict_built k g :
    Inv k g ->
    exists g', sk_from_dict parse fmt k g = Ok g'
      /\ Inv k g'
      /\ EdgesBuilt (map (retag3 k) (v_nodes g)) [] (Skeleton.sk_edges g) g'
      /\ (forall n, In n (gnodes g') -> ninb n = []).
  Proof.
    intros HI. unfold sk_from_dict. rewrite sk_dict_ops_eq, run_all_app.
    destruct (run_all_nodes k (nodes_sorted g) (empty_graph [])) as (g1 & E1 & N1 & S1 & D1 & M1).
    { apply nodes_sorted_nodup, (inv_nodup_nodes HI). }
    { intros n _ []. }
    { intros Ek n Hn. apply nodes_sorted_in in Hn.
      destruct (ts_nodeok (inv_ts HI Ek) n Hn) as (v & l & P & _). congruence. }
    rewrite E1. cbn [empty_graph gnodes gsrc gdst gmeta app] in N1, S1, D1, M1.
    set (L := map (retag3 k) (v_nodes g)).
    assert (HL : map node3 (gnodes g1) = L).
    { rewrite N1. unfold L, v_nodes. rewrite !map_map. apply map_ext. intros n. reflexivity. }
    assert (Hno1 : forall n, In n (gnodes g1) -> ninb n = []).
    { intros n Hn. rewrite N1 in Hn. apply in_map_iff in Hn. destruct Hn as (n0 & <- & _). reflexivity. }
    destruct (sk_edges_spec HI) as (Hkeys & Hund & Hnd & _ & Hchar).
    assert (Hids : forall id, In id (map id3 L) <-> In id (node_ids g)).
    { intros id. unfold L. rewrite map_id3_retag3. apply v_nodes_ids. }
    destruct (run_all_edges k g L (Skeleton.sk_edges g) [] g1) as (g' & E' & HB' & Hno').
    - unfold EdgesBuilt. auto.
    - exact Hno1.
    - cbn [app]. exact Hnd.
    - cbn [app]. intros e e' He He' Ek. apply Hchar in He, He'.
      destruct He as (e0 & He0 & ->). destruct He' as (e0' & He0' & ->).
      rewrite edge_key_retype in Ek. cbn [retype_und esrc edst] in Ek.
      apply (inv_noreverse HI e0 He0). rewrite <- Ek. apply in_map. exact He0'.
    - intros e He. apply Hchar in He. destruct He as (e0 & He0 & ->). cbn [retype_und esrc edst].
      rewrite !Hids. apply (inv_endpoints HI e0 He0).
    - intros Ek e He. apply Hchar in He. destruct He as (e0 & He0 & ->). cbn [retype_und esrc edst].
      subst k. destruct (inv_endpoints HI e0 He0) as [H1 H2].
      exists (lagp parse (esrc e0)), (lagp parse (edst e0)). unfold L.
      split; [apply lag3_retag3; [exact H1|apply (inv_nodup_nodes HI)|apply (node_parses parse TS g _ HI H1 eq_refl)]|].
      split; [apply lag3_retag3; [exact H2|apply (inv_nodup_nodes HI)|apply (node_parses parse TS g _ HI H2 eq_refl)]|].
      apply (edge_lagp parse TS g e0 HI He0 eq_refl).
    - exists g'. split; [exact E'|].
      assert (HI1 : Inv k g1) by (eapply run_all_inv; [apply (inv_empty parse)|exact E1]).
      split; [eapply run_all_inv; [exact HI1|exact E']|]. split; [|exact Hno'].
      cbn [app] in HB'. replace (map und_of (Skeleton.sk_edges g)) with (Skeleton.sk_edges g) in HB'; [exact HB'|].
      unfold Skeleton.sk_edges. rewrite map_map. apply map_ext. intros e. reflexivity.
  Qed.

  Lemma sk_eqb_of_views g h :
    v_node_names h = v_node_names g -> Skeleton.sk_edges h = Skeleton.sk_edges g -> sk_eqb g h = true.
  Proof.
    intros Hn He. unfold sk_eqb, sk_edge_pairs. rewrite Hn, He, !Nat.eqb_refl. cbn [andb].
    assert (H1 : forallb (fun n => mem n (v_node_names g)) (v_node_names g) = true).
    { apply forallb_forall. intros n Hin. apply mem_in. exact Hin. }
    assert (H2 : forall l : list (name * name), forallb (fun p => existsb (unordered_eqb p) l) l = true).
    { intros l. apply forallb_forall. intros p Hp. apply existsb_exists. exists p. split; [exact Hp|].
      unfold unordered_eqb. destruct (pair_eqb_spec p p); [reflexivity|congruence]. }
    rewrite H1, H2. reflexivity.
  Qed.

  Lemma pair_leb_total' p q : pair_leb p q = true \/ pair_leb q p = true.
  Proof. apply pair_leb_total. Qed.

  Lemma map_sk_pair_retype l : map sk_pair (map retype_und l) = map sk_pair l.
  Proof. rewrite map_map. apply map_ext. intros e. reflexivity. Qed.

  Lemma map_sk_dedge_retype l : map sk_dedge (map retype_und l) = map sk_dedge l.
  Proof. rewrite map_map. apply map_ext. intros e. reflexivity. Qed.

  Lemma sk_pair_cases e :
    (sk_pair e = (esrc e, edst e)) \/ (sk_pair e = (edst e, esrc e)).
  Proof. unfold sk_pair. destruct (name_leb (esrc e) (edst e)); auto. Qed.

  Lemma sk_pair_nodup k g : Inv k g -> NoDup (map sk_pair (gsrc g)).
  Proof.
    intros HI. apply NoDup_map_inj_on.
    - eapply NoDup_of_map. apply (inv_nodup_keys HI).
    - intros x y Hx Hy E.
      assert (Hk : edge_key x = edge_key y \/ edge_key y = (edst x, esrc x)).
      { unfold edge_key. destruct (sk_pair_cases x) as [Ex|Ex], (sk_pair_cases y) as [Ey|Ey];
          rewrite Ex, Ey in E; injection E as E1 E2; [left|right|right|left]; congruence. }
      destruct Hk as [Hk|Hk].
      + apply (NoDup_map_inj_in edge_key (gsrc g)); [apply (inv_nodup_keys HI)|exact Hx|exact Hy|exact Hk].
      + exfalso. apply (inv_noreverse HI x Hx). rewrite <- Hk. apply in_map. exact Hy.
  Qed.

  (** C09: the skeleton rebuilt from its own dictionary, with the graph's own class *)
  Theorem sk_rebuild_dict k g :
    Inv k g ->
    exists g', sk_from_dict parse fmt k g = Ok g'
      /\ Inv k g'
      /\ same_skeleton g g'
      /\ v_node_names g' = v_node_names g
      /\ v_nodes g' = map (retag3 k) (v_nodes g)
      /\ map (fun t : name * vtype * meta => (id3 t, snd (fst t))) (v_nodes g')
         = map (fun t : name * vtype * meta => (id3 t, snd (fst t))) (v_nodes g)
      /\ Skeleton.sk_edges g' = Skeleton.sk_edges g
      /\ sk_eqb g g' = true
      /\ skeleton_eqb k false g g' = Ok true.
  Proof.
    intros HI. destruct (sk_from_dict_built k g HI) as (g' & E & HI' & (HL & Hs & Hd & Hm) & Hno).
    assert (Vn : v_nodes g' = map (retag3 k) (v_nodes g)).
    { rewrite (v_nodes_isort g'), HL. apply isort_sorted_id, (retag3_sorted parse), v_nodes_sorted. }
    assert (Vnames : v_node_names g' = v_node_names g).
    { rewrite !v_node_names_v_nodes, Vn. apply map_id3_retag3. }
    assert (Ve : v_edges g' = Skeleton.sk_edges g).
    { unfold v_edges, sorted_edges. rewrite Hs. apply isort_sorted_id, sk_edges_sorted. }
    assert (Vsk : Skeleton.sk_edges g' = Skeleton.sk_edges g).
    { unfold Skeleton.sk_edges at 1. rewrite Ve. unfold Skeleton.sk_edges. rewrite map_map.
      apply map_ext. intros e. reflexivity. }
    destruct (sk_edges_spec HI) as (Hkeys & Hund & _ & _ & _).
    exists g'. split; [exact E|]. split; [exact HI'|]. split; [|split; [exact Vnames|split; [exact Vn|split; [|split; [exact Vsk|split]]]]].
    - split; [|split].
      + intros x. rewrite <- !v_node_names_in, Vnames. tauto.
      + intros s d. unfold adjacent, edge_keys. rewrite Hs, !Hkeys. tauto.
      + intros e He. rewrite Hs in He. apply Hund, He.
    - rewrite Vn, map_map. apply map_ext. intros t. reflexivity.
    - apply sk_eqb_of_views; assumption.
    - apply (skeleton_eq_char HI HI'). unfold canon_skel. rewrite Vnames. f_equal.
      rewrite Hs. unfold Skeleton.sk_edges. rewrite map_sk_pair_retype.
      apply (isort_perm_eq pair_leb pair_leb_total' pair_leb_trans pair_leb_antisym).
      apply Permutation_map. apply sorted_edges_perm_gsrc.
  Qed.

  (** ... and deeply equal when re-deriving the tags changes no metadata: always for the plain
      class, and for every tag-stable time-series state *)
  Theorem sk_rebuild_dict_deep k g :
    Inv k g -> (k = TS -> TagsStable g) ->
    exists g', sk_from_dict parse fmt k g = Ok g' /\ Inv k g'
      /\ v_nodes g' = v_nodes g
      /\ Skeleton.sk_edges g' = Skeleton.sk_edges g
      /\ skeleton_eqb k true g g' = Ok true.
  Proof.
    intros HI HT. destruct (sk_from_dict_built k g HI) as (g' & E & HI' & (HL & Hs & Hd & Hm) & Hno).
    destruct (sk_rebuild_dict k g HI) as (g'' & E'' & _ & _ & _ & Vn & _ & Vsk & _).
    assert (g'' = g') by congruence. subst g''.
    rewrite (retag3_v_nodes HI HT) in Vn.
    exists g'. split; [exact E|]. split; [exact HI'|]. split; [exact Vn|]. split; [exact Vsk|].
    apply (skeleton_deep_eq_char HI HI'). unfold canon_skel_deep. f_equal.
    - assert (Hc : forall h, map canon_node (nodes_sorted h)
                             = map (fun t : name * vtype * meta => (id3 t, snd (fst t), meta_norm (snd t))) (v_nodes h)).
      { intros h. unfold v_nodes. rewrite map_map. apply map_ext. intros n. reflexivity. }
      rewrite !Hc, Vn. reflexivity.
    - rewrite Hs. unfold Skeleton.sk_edges. rewrite map_sk_dedge_retype.
      apply (@isort_perm_eq_key _ _ (fun a : (name * name) * meta => fst a) pair_leb
               pair_leb_total' pair_leb_trans pair_leb_antisym).
      + rewrite map_map. apply (sk_pair_nodup k g HI).
      + apply Permutation_map, sorted_edges_perm_gsrc.
  Qed.

  (** the statement left open in SkeletonProofs.v (its three hypotheses are theorems) *)
  Theorem sk_rebuild_dict_same_skeleton k g :
    Inv k g -> exists g', sk_from_dict parse fmt k g = Ok g' /\ same_skeleton g g'.
  Proof.
    intros HI. destruct (sk_rebuild_dict k g HI) as (g' & E & _ & S & _). exists g'. auto.
  Qed.
End SkDict.

Theorem sk_rebuild_dict_statement_proved : sk_rebuild_dict_statement.
Proof. intros parse fmt k g _ _ _ HI. apply sk_rebuild_dict_same_skeleton, HI. Qed.


(** * The JSON-tree model of Serial.v computes the same state *)
Section SkDictJson.
  Variable parse : name -> option (name * Z).
  Variable fmt : name -> Z -> option name.
  Notation Inv := (Inv parse).
  Notation retag := (retag parse).

  Lemma add_node_obj_retag k h id vt m :
    add_node_obj parse k h id vt (retag k id m) = add_node_obj parse k h id vt m.
  Proof.
    unfold add_node_obj. destruct (node_exists h id); [reflexivity|].
    unfold mk_node, SerialProofs.retag. destruct k; [reflexivity|].
    destruct (parse id) as [[v l]|]; [rewrite set_tags_idem; reflexivity|reflexivity].
  Qed.

  Lemma add_endpoint_retag k h id vt m :
    add_endpoint parse k h (id, Some (vt, retag k id m)) = add_endpoint parse k h (id, Some (vt, m)).
  Proof.
    unfold add_endpoint. cbn [fst snd]. destruct (node_exists h id); [reflexivity|].
    apply add_node_obj_retag.
  Qed.

  Lemma add_edge_retag k h s vs ms d vd md ty m v :
    add_edge parse k h (s, Some (vs, retag k s ms)) (d, Some (vd, retag k d md)) ty m v
    = add_edge parse k h (s, Some (vs, ms)) (d, Some (vd, md)) ty m v.
  Proof.
    assert (T : add_edge_try parse k h (s, Some (vs, retag k s ms)) (d, Some (vd, retag k d md)) ty m v
                = add_edge_try parse k h (s, Some (vs, ms)) (d, Some (vd, md)) ty m v).
    { unfold add_edge_try. cbn [fst snd]. destruct (name_eqb s d); [reflexivity|].
      rewrite add_endpoint_retag. destruct (add_endpoint parse k h (s, Some (vs, ms))) as [g1|]; [|reflexivity].
      rewrite add_endpoint_retag. reflexivity. }
    unfold add_edge. rewrite T. reflexivity.
  Qed.

  Lemma node_step_agree k acc n :
    (k = TS -> parse (nid n) <> None) ->
    add_node_step parse fmt k acc (node_json k true n)
    = bind acc (fun g' => fst (run_op parse fmt k g' (node_op n))).
  Proof.
    intros Hp. destruct acc as [h|x]; [|reflexivity]. unfold add_node_step. cbn [bind].
    rewrite decode_node_json. unfold node_op. destruct k; [reflexivity|].
    destruct (parse (nid n)) as [[v l]|] eqn:P; [|exfalso; apply (Hp eq_refl); reflexivity].
    cbn [bind run_op]. unfold lift.
    replace (set_tags v l (nmeta n)) with (retag TS (nid n) (nmeta n))
      by (unfold SerialProofs.retag; rewrite P; reflexivity).
    rewrite add_node_obj_retag. reflexivity.
  Qed.

  Lemma edge_step_agree k g acc e :
    Inv k g -> In e (gsrc g) ->
    add_edge_step parse fmt k true acc (edge_json k g true (Some Und) e)
    = bind acc (fun h => fst (run_op parse fmt k h (edge_op g e))).
  Proof.
    intros HI He. destruct acc as [h|x]; [|reflexivity]. unfold add_edge_step. cbn [bind].
    destruct (inv_endpoints HI e He) as [Hs Hd].
    destruct (get_node_in g _ Hs) as (ns & Gs & Ins & Es).
    destruct (get_node_in g _ Hd) as (nd & Gd & Ind & Ed).
    rewrite (decode_edge_json parse k k g (Some Und) e Gs Gd), !decode_node_json.
    unfold edge_op, attr_of. rewrite Gs, Gd. destruct k.
    - cbn. rewrite Es, Ed. reflexivity.
    - pose proof (inv_ts HI eq_refl) as HT.
      destruct (ts_nodeok HT ns Ins) as (vs & ls & Ps & Vs & Ls).
      destruct (ts_nodeok HT nd Ind) as (vd & ld & Pd & Vd & Ld).
      rewrite Ps, Pd. cbn [bind]. unfold ts_endpoint. rewrite Ps, Pd. cbn [bind].
      destruct (ts_time HT e He) as (ls' & ld' & Ns & Nd & Hle).
      unfold node_lag in Ns, Nd. rewrite Gs in Ns. rewrite Gd in Nd.
      assert (ls' = ls) by congruence. assert (ld' = ld) by congruence. subst ls' ld'.
      destruct (Z.ltb_spec ld ls); [lia|]. cbn [ep ty_of bind run_op].
      replace (set_tags vs ls (nmeta ns)) with (retag TS (nid ns) (nmeta ns))
        by (unfold SerialProofs.retag; rewrite Ps; reflexivity).
      replace (set_tags vd ld (nmeta nd)) with (retag TS (nid nd) (nmeta nd))
        by (unfold SerialProofs.retag; rewrite Pd; reflexivity).
      rewrite add_edge_retag, Es, Ed. reflexivity.
  Qed.

  Notation step_all k := (fun acc o => bind acc (fun g' => fst (run_op parse fmt k g' o))).

  Lemma fold_nodes_agree k : forall ns acc,
    (k = TS -> forall n, In n ns -> parse (nid n) <> None) ->
    fold_left (add_node_step parse fmt k) (map (node_json k true) ns) acc
    = fold_left (step_all k) (map node_op ns) acc.
  Proof.
    induction ns as [|n ns IH]; intros acc Hp; [reflexivity|]. cbn [map fold_left].
    rewrite (node_step_agree k acc n (fun E => Hp E n (or_introl eq_refl))).
    apply IH. intros E n' Hn'. apply (Hp E n' (or_intror Hn')).
  Qed.

  Lemma fold_edges_agree k g : forall es acc,
    Inv k g -> (forall e, In e es -> In e (gsrc g)) ->
    fold_left (add_edge_step parse fmt k true) (map (edge_json k g true (Some Und)) es) acc
    = fold_left (step_all k) (map (edge_op g) es) acc.
  Proof.
    induction es as [|e es IH]; intros acc HI Hin; [reflexivity|]. cbn [map fold_left].
    rewrite (edge_step_agree k g acc e HI (Hin e (or_introl eq_refl))).
    apply IH; [exact HI|]. intros e' He'. apply Hin. right; exact He'.
  Qed.

  (** [Skeleton.from_dict(sk.to_dict())] on JSON trees (Serial.v) and as a list of mutator calls
      (Skeleton.v) are the same computation on every state satisfying the invariant *)
  Theorem skeleton_from_dict_models_agree k g :
    Inv k g ->
    exists j, skeleton_to_dict k g true = Ok j
              /\ skeleton_from_dict parse fmt k j = sk_from_dict parse fmt k g.
  Proof.
    intros HI. exists (dict_json k g true (Some Und) false). split; [apply (skeleton_to_dict_inv true HI)|].
    unfold skeleton_from_dict. rewrite from_dict_dict_json.
    unfold sk_from_dict, run_all. rewrite sk_dict_ops_eq, fold_left_app.
    rewrite (fold_nodes_agree k (nodes_sorted g)).
    2:{ intros Ek n Hn. apply nodes_sorted_in in Hn.
        destruct (ts_nodeok (inv_ts HI Ek) n Hn) as (v & l & P & _). congruence. }
    assert (Hops : map (edge_op g) (Skeleton.sk_edges g) = map (edge_op g) (sorted_edges g)).
    { unfold Skeleton.sk_edges. rewrite map_map. apply map_ext. intros e. reflexivity. }
    rewrite Hops.
    destruct (fold_left (step_all k) (map node_op (nodes_sorted g)) (Ok (empty_graph []))) as [g1|x];
      cbn [bind].
    - apply fold_edges_agree; [exact HI|]. intros e He. apply sorted_edges_in, He.
    - symmetry. apply run_all_err.
  Qed.

  (** hence the results about [sk_from_dict] hold of the JSON-tree model *)
  Corollary sk_rebuild_json k g :
    Inv k g ->
    exists j g', skeleton_to_dict k g true = Ok j /\ skeleton_from_dict parse fmt k j = Ok g'
      /\ Inv k g' /\ same_skeleton g g'
      /\ v_nodes g' = map (retag3 parse k) (v_nodes g)
      /\ Skeleton.sk_edges g' = Skeleton.sk_edges g
      /\ skeleton_eqb k false g g' = Ok true.
  Proof.
    intros HI. destruct (skeleton_from_dict_models_agree k g HI) as (j & Hj & Hagree).
    destruct (sk_rebuild_dict parse fmt k g HI) as (g' & E & HI' & S & _ & Vn & _ & Vsk & _ & Heq).
    exists j, g'. rewrite Hagree. auto 10.
  Qed.
End SkDictJson.

(** * Examples: the rebuilt skeleton observed on the implementation
      ([Skeleton.from_dict(g.skeleton.to_dict(), graph_class=type(g))], then the nodes, edges and
      node order of the graph behind it; in all three cases [rebuilt == g.skeleton] is True,
      shallow and deep, and so is [g.skeleton.copy() == g.skeleton]) *)
From CG Require Import Names.

Module SkeletonDictExamples.
  Import SubGraphExamples.
  Local Open Scope N_scope.

  (* gA: rebuilt == original: True, deep: True, reverse: True, class CausalGraph; copy(): True *)
  Example gA_sk_rebuild :
    V (sk_from_dict parse fmt Plain gA)
    = Ok ([(na, VBin, [(kk, JInt 1)]); (nb, VUnspec, []); (nc, VUnspec, []); (nd, VUnspec, []); (ne, VUnspec, []); (nz, VUnspec, [])],
          [(na, nb, Und, [(kw, JInt 2)]); (na, nc, Und, []); (nb, nc, Und, []); (nc, nd, Und, []); (ne, nc, Und, [])],
          [], [na; nb; nc; nd; ne; nz]).
  Proof. vm_compute. reflexivity. Qed.
  (* gM: rebuilt == original: True, deep: True, reverse: True, class CausalGraph; copy(): True *)
  Example gM_sk_rebuild :
    V (sk_from_dict parse fmt Plain gM)
    = Ok ([(na, VUnspec, []); (nb, VUnspec, []); (nc, VUnspec, []); (nd, VUnspec, []); (ne, VUnspec, [])],
          [(na, nb, Und, []); (na, nd, Und, []); (nb, nc, Und, []); (nd, nb, Und, []); (ne, na, Und, []); (ne, nb, Und, [])],
          [], [na; nb; nc; nd; ne]).
  Proof. vm_compute. reflexivity. Qed.
  (* gT: rebuilt == original: True, deep: True, reverse: True, class TimeSeriesCausalGraph; copy(): True *)
  Example gT_sk_rebuild :
    V (sk_from_dict parse fmt TS gT)
    = Ok ([(nq, VUnspec, [(k_time_lag, JInt 0); (k_variable_name, JStr nq)]); (x0, VCont, [(kk, JInt 1); (k_time_lag, JInt 0); (k_variable_name, JStr x0)]); (x1, VUnspec, [(k_time_lag, JInt (-1)); (k_variable_name, JStr x0)]); (y0, VUnspec, [(k_time_lag, JInt 0); (k_variable_name, JStr y0)]); (y1, VUnspec, [(k_time_lag, JInt (-1)); (k_variable_name, JStr y0)])],
          [(x0, y0, Und, []); (x1, x0, Und, [(kw, JInt 2)]); (y1, x0, Und, []); (y1, y0, Und, [])],
          [], [nq; x0; x1; y0; y1]).
  Proof. vm_compute. reflexivity. Qed.

  (** non-vacuity: the theorems apply to these states (plain with mixed edge types, time series) *)
  Example gM_sk_rebuild_thm :
    exists g', sk_from_dict parse fmt Plain gM = Ok g' /\ same_skeleton gM g'
               /\ Skeleton.sk_edges g' = Skeleton.sk_edges gM
               /\ skeleton_eqb Plain false gM g' = Ok true.
  Proof.
    destruct (sk_rebuild_dict parse fmt Plain gM gM_inv) as (g' & E & _ & S & _ & _ & _ & Vsk & _ & Heq).
    exists g'. auto.
  Qed.

  Example gT_sk_rebuild_thm :
    exists g', sk_from_dict parse fmt TS gT = Ok g' /\ Inv parse TS g' /\ v_nodes g' = v_nodes gT
               /\ skeleton_eqb TS true gT g' = Ok true.
  Proof.
    destruct (sk_rebuild_dict_deep parse fmt TS gT gT_inv (fun _ => gT_tags_stable)) as (g' & E & HI & Vn & _ & Heq).
    exists g'. auto.
  Qed.

  Example gT_sk_rebuild_json :
    exists j g', skeleton_to_dict TS gT true = Ok j /\ skeleton_from_dict parse fmt TS j = Ok g'
                 /\ skeleton_eqb TS false gT g' = Ok true.
  Proof.
    destruct (sk_rebuild_json parse fmt TS gT gT_inv) as (j & g' & A & B & _ & _ & _ & _ & C).
    exists j, g'. auto.
  Qed.

  Example sk_eqb_computed :
    (exists g', sk_from_dict parse fmt Plain gA = Ok g' /\ sk_eqb gA g' = true
                /\ skeleton_eqb Plain false gA g' = Ok true /\ skeleton_eqb Plain true gA g' = Ok true)
    /\ (exists g', sk_from_dict parse fmt TS gT = Ok g' /\ sk_eqb gT g' = true
                   /\ skeleton_eqb TS false gT g' = Ok true /\ skeleton_eqb TS true gT g' = Ok true).
  Proof. split; eexists; (split; [vm_compute; reflexivity|]); repeat split; vm_compute; reflexivity. Qed.
End SkeletonDictExamples.
