(** MutGenRollbackProofs.v -- the functions GENERATED from the Python source (MutGenRollback.v) equal the
    hand-written model (Graph.v): same result, same error value, same state left behind; then the
    failure-atomicity theorems of the hand model (GraphAtomicProofs.v, property C03) transfer to the generated
    code.  Imports only the generated file MutGenRollback.v (plus the model and its proofs). *)
From CG Require Import Base Digraph Graph GraphObs GraphInv GraphAcyclicLemmas GraphAtomicLemmas
  GraphAtomicProofs PyRtMut MutGenRollback.
From Coq Require Import Permutation.

(** * Conversions *)
Lemma mut_res_fst_exc {R} (o : pymut R) e : fst o = Exc e -> fst (mut_res o) = Err e.
Proof. destruct o as [[r|x] g]; simpl; intros H; [discriminate|]. inversion H. reflexivity. Qed.

Lemma mut_res_snd {R} (o : pymut R) : snd (mut_res o) = snd o.
Proof. destruct o as [[r|x] g]; reflexivity. Qed.

Lemma mut_res_ok {R} (o : pymut R) g' : fst (mut_res o) = Ok g' -> mut_res o = (Ok g', g').
Proof. destruct o as [[r|x] g]; simpl; intros H; [|discriminate]. inversion H. reflexivity. Qed.

(** * change_edge_type / replace_edge: equal for ALL graphs and arguments, no premise *)
Section Eq.
  Variable parse : name -> option (name * Z).
  Variable k : kind.

  Theorem gen_change_edge_type_eq g s d ty :
    mut_res (gen_change_edge_type parse k g s d ty) = change_edge_type parse k g s d ty.
  Proof.
    unfold gen_change_edge_type, change_edge_type, py_identifier_from, mu_pure, py_get_edge,
      py_edge_type, py_edge_meta.
    destruct (edge_at g s d) as [e|]; [|reflexivity].
    destruct (etype_eqb (ety e) ty); simpl; [reflexivity|].
    unfold py_delete_edge.
    destruct (delete_edge g s d (Some (ety e))) as [g1|x]; simpl; [|reflexivity].
    unfold py_add_edge, of_model.
    destruct (add_edge parse k g1 (str_ep s) (str_ep d) ty (Some (emeta e)) true) as [[g2|x] gl]; simpl;
      [reflexivity|].
    destruct (add_edge parse k gl (str_ep s) (str_ep d) (ety e) (Some (emeta e)) false) as [[g3|y] gl'];
      reflexivity.
  Qed.

  Theorem gen_replace_edge_eq g s d s' d' oty om :
    mut_res (gen_replace_edge parse k g s d s' d' oty om) = replace_edge parse k g s d s' d' oty om.
  Proof.
    unfold gen_replace_edge, replace_edge, py_identifier_from, mu_pure, py_get_edge, py_edge_exists,
      py_edge_type, py_edge_meta, py_opt_default.
    destruct (edge_at g s d) as [e|]; simpl; [|reflexivity].
    destruct (edge_at g s' d') as [e'|]; simpl; [reflexivity|].
    unfold py_delete_edge.
    destruct (delete_edge g s d None) as [g1|x]; simpl; [|reflexivity].
    unfold py_add_edge, of_model.
    destruct (add_edge parse k g1 (str_ep s') (str_ep d')
                (match oty with Some t => t | None => ety e end)
                (Some (match om with Some x => x | None => emeta e end)) true) as [[g2|x] gl]; simpl;
      [reflexivity|].
    destruct (add_edge parse k gl (str_ep s) (str_ep d) (ety e) (Some (emeta e)) false) as [[g3|y] gl'];
      reflexivity.
  Qed.
End Eq.

(** * delete_node *)
Definition del_step (acc : res graph) (e : edge) : res graph :=
  bind acc (fun g' => delete_edge g' (esrc e) (edst e) None).

Lemma del_fold_err es x : fold_left del_step es (Err x) = Err x.
Proof. induction es as [|a es IH]; simpl; [reflexivity|exact IH]. Qed.

(** the translated loop against the model's fold: same outcome (the state left behind by a failing
    iteration is whatever the loop had reached) *)
Definition loop_body (p : name * name) (g : graph) : pymut unit :=
  mu_bind (py_delete_edge g (fst p) (snd p) None) (fun _ g' => mu_ret g' tt).

Lemma loop_body_spec e g :
  loop_body (py_edge_pair e) g
  = match delete_edge g (esrc e) (edst e) None with Ok g' => (Ret tt, g') | Err x => (Exc x, g) end.
Proof.
  unfold loop_body, py_delete_edge, py_edge_pair. simpl.
  destruct (delete_edge g (esrc e) (edst e) None); reflexivity.
Qed.

Lemma gen_loop_fold {R} (kont : graph -> pymut R) es : forall g0,
  exists gl,
    match fold_left del_step es (Ok g0) with
    | Ok g2 => mu_for (map py_edge_pair es) g0 loop_body kont = kont g2
    | Err x => mu_for (map py_edge_pair es) g0 loop_body kont = (Exc x, gl)
    end.
Proof.
  induction es as [|a es IH]; intros g0.
  - exists g0. reflexivity.
  - cbn [map mu_for fold_left]. rewrite loop_body_spec. unfold del_step at 2. cbn [bind].
    destruct (delete_edge g0 (esrc a) (edst a) None) as [g1|x].
    + apply IH.
    + exists g0. rewrite del_fold_err. reflexivity.
Qed.

Lemma del_fold_ids es : forall g0 g2,
  fold_left del_step es (Ok g0) = Ok g2 -> node_ids g2 = node_ids g0.
Proof.
  induction es as [|a es IH]; intros g0 g2; simpl.
  - intros H. inversion H. reflexivity.
  - destruct (delete_edge g0 (esrc a) (edst a) None) as [g1|x] eqn:E.
    + intros H. rewrite (IH _ _ H). eapply delete_edge_ids. exact E.
    + rewrite del_fold_err. discriminate.
Qed.

(** result: for ALL graphs (plain class; the time-series override is [gen_delete_node_ts] below) *)
Theorem gen_delete_node_res g id :
  fst (mut_res (gen_delete_node g id)) = delete_node Plain g id.
Proof.
  unfold gen_delete_node, delete_node, py_identifier_from, mu_pure, py_get_node.
  destruct (get_node g id) as [n|] eqn:En; [|reflexivity].
  simpl idx_remove. cbn [bind]. unfold py_edges.
  match goal with
  | |- fst (mut_res (mu_for (map _ ?es) g ?body ?kont)) = _ =>
      destruct (gen_loop_fold kont es g) as [gl HL];
      change (mu_for (map _ es) g body kont) with (mu_for (map py_edge_pair es) g loop_body kont)
  end.
  fold del_step.
  change (filter (fun e : edge => name_eqb id (esrc e) || name_eqb id (edst e)) (sorted_edges g))
    with (filter (fun v_edge : edge => py_in_pair id (py_edge_pair v_edge)) (sorted_edges g)).
  match type of HL with
  | match ?F with _ => _ end => destruct F as [g2|x] eqn:EF
  end.
  - rewrite HL. unfold py_nodes_pop.
    assert (HN : node_exists g2 id = true).
    { apply at_node_exists_in. rewrite (del_fold_ids _ _ _ EF). apply at_node_exists_in.
      unfold node_exists. rewrite En. reflexivity. }
    rewrite HN. reflexivity.
  - rewrite HL. reflexivity.
Qed.

(** result AND leftover state, under the invariant GraphAtomicProofs.v assumes (a failing delete_node fails
    before touching anything) *)
Theorem gen_delete_node_eq parse g id :
  Inv parse Plain g ->
  mut_res (gen_delete_node g id) = lift g (delete_node Plain g id).
Proof.
  intros I. pose proof (gen_delete_node_res g id) as HR.
  destruct (delete_node Plain g id) as [g'|e] eqn:E; simpl.
  - apply mut_res_ok. exact HR.
  - destruct (at_delete_node_err parse Plain g id e I E) as [-> HN].
    unfold gen_delete_node, py_identifier_from, mu_pure, py_get_node.
    unfold node_exists in HN. destruct (get_node g id); [discriminate|reflexivity].
Qed.

(** the time-series override (TimeSeriesCausalGraph.delete_node: get_node, _remove_node_from_cache,
    super().delete_node): the model's delete_node is the index upkeep followed by the generated base method *)
Theorem gen_delete_node_ts kd g id :
  delete_node kd g id
  = match get_node g id with
    | None => Err EKey
    | Some n => bind (idx_remove kd g n) (fun g1 => fst (mut_res (gen_delete_node g1 id)))
    end.
Proof.
  destruct (get_node g id) as [n|] eqn:En.
  - destruct (idx_remove kd g n) as [g1|x] eqn:E1.
    + simpl. rewrite gen_delete_node_res. unfold delete_node. rewrite En, E1. simpl.
      assert (HG : gnodes g1 = gnodes g).
      { unfold idx_remove in E1. destruct kd.
        - inversion E1. reflexivity.
        - destruct (meta_lag (nmeta n)) as [zl|]; [|discriminate].
          destruct (meta_var (nmeta n)) as [vv|]; [|discriminate].
          destruct (remove_first_pair Z.eqb zl (nid n) (glag g)); [|discriminate].
          destruct (remove_first_pair name_eqb vv (nid n) (gvar g)); [|discriminate].
          inversion E1. reflexivity. }
      unfold get_node. rewrite HG. unfold get_node in En. rewrite En. reflexivity.
    + unfold delete_node. rewrite En, E1. reflexivity.
  - unfold delete_node. rewrite En. reflexivity.
Qed.

(** * delete_edge: result and leftover state, under the invariant (the rows for list.remove / dict.pop raise
    when the entry is absent, which the invariant excludes: the by-destination index mirrors the by-source index
    and a -> edge is in the inbound / outbound lists of its endpoints) *)
Lemma etype_eqb_sym a b : etype_eqb a b = etype_eqb b a.
Proof. destruct a, b; reflexivity. Qed.

Lemma inv_in_inb parse k g s d em nd :
  Inv parse k g -> In {| esrc := s; edst := d; ety := Dir; emeta := em |} (gsrc g) ->
  get_node g d = Some nd -> In s (ninb nd).
Proof.
  intros I Hin Hd. destruct (get_node_some _ _ _ Hd) as [Hn Hid].
  apply (Permutation_in _ (Permutation_sym (inv_inb I nd Hn))).
  unfold dir_into. rewrite Hid.
  change s with (esrc {| esrc := s; edst := d; ety := Dir; emeta := em |}). apply in_map.
  apply filter_In. split; [exact Hin|]. simpl. apply name_eqb_refl.
Qed.

Lemma inv_in_outb parse k g s d em ns :
  Inv parse k g -> In {| esrc := s; edst := d; ety := Dir; emeta := em |} (gsrc g) ->
  get_node g s = Some ns -> In d (noutb ns).
Proof.
  intros I Hin Hs. destruct (get_node_some _ _ _ Hs) as [Hn Hid].
  apply (Permutation_in _ (Permutation_sym (inv_outb I ns Hn))).
  unfold dir_from. rewrite Hid.
  change d with (edst {| esrc := s; edst := d; ety := Dir; emeta := em |}). apply in_map.
  apply filter_In. split; [exact Hin|]. simpl. apply name_eqb_refl.
Qed.

Lemma inv_dst_entry parse k g s d e :
  Inv parse k g -> find_edge s d (gsrc g) = Some e -> exists e', find_edge s d (gdst g) = Some e'.
Proof.
  intros I H. destruct (find_edge_some _ _ _ _ H) as (Hin & Hs & Hd).
  apply find_edge_in.
  apply (Permutation_in _ (Permutation_sym (inv_mirror I))) in Hin.
  replace (s, d) with (edge_key e) by (unfold edge_key; rewrite Hs, Hd; reflexivity).
  apply in_map. exact Hin.
Qed.

Theorem gen_delete_edge_eq parse k g s d oty :
  Inv parse k g ->
  mut_res (gen_delete_edge g s d oty) = lift g (delete_edge g s d oty).
Proof.
  intros I.
  unfold gen_delete_edge, delete_edge, py_identifier_from, py_isinstance_str, py_get_nodes, py_len, node_exists.
  destruct (get_node g s) as [ns|] eqn:Es; simpl; [|reflexivity].
  destruct (get_node g d) as [nd|] eqn:Ed; simpl; [|reflexivity].
  unfold py_get_edges_sd.
  destruct (edge_at g s d) as [e|] eqn:Ee; simpl; [|destruct oty; reflexivity].
  unfold edge_at in Ee.
  destruct (find_edge_some _ _ _ _ Ee) as (Hin & Hs & Hd).
  destruct (inv_dst_entry _ _ _ _ _ _ I Ee) as [e' Ee'].
  destruct e as [es ed et em]. simpl in Hs, Hd. subst es ed.
  assert (T : forall v : bool,
    mut_res
      (if negb (Nat.eqb (length [{| esrc := s; edst := d; ety := et; emeta := em |}]) 1)
       then (if v then mu_raise g EEdgeMissing else mu_raise g EEdgeMissing)
       else
         mu_pure g (py_list_first [{| esrc := s; edst := d; ety := et; emeta := em |}]) (fun v_edge =>
         mu_bind (if etype_eqb (py_edge_type v_edge) Dir
                  then mu_bind (py_delete_inbound g v_edge) (fun _ v_self =>
                       mu_bind (py_delete_outbound v_self v_edge) (fun _ v_self0 => mu_ret v_self0 tt))
                  else mu_ret g tt) (fun _ v_self =>
         mu_bind (py_src_pop v_self s d) (fun _ v_self0 =>
         mu_bind (py_dst_pop v_self0 d s) (fun _ v_self1 =>
         mu_bind (py_clean_empty v_self1) (fun _ v_self2 => mu_ret v_self2 tt))))))
    = lift g (Ok {| gnodes :=
                      if etype_eqb et Dir
                      then update_node (fun n => {| nid := nid n; nvt := nvt n; nmeta := nmeta n;
                                                    ninb := ninb n; noutb := remove_first d (noutb n) |}) s
                             (update_node (fun n => {| nid := nid n; nvt := nvt n; nmeta := nmeta n;
                                                       ninb := remove_first s (ninb n); noutb := noutb n |}) d
                                (gnodes g))
                      else gnodes g;
                    gsrc := drop_edge s d (gsrc g); gdst := drop_edge s d (gdst g);
                    gmeta := gmeta g; glag := glag g; gvar := gvar g |})).
  { intros v. cbn [length Nat.eqb negb py_list_first mu_pure py_edge_type ety].
    destruct (etype_eqb_spec et Dir) as [->|Hnd].
    - pose proof (inv_in_inb _ _ _ _ _ _ _ I Hin Ed) as Hi. apply mem_in in Hi.
      unfold py_delete_inbound. cbn [edst esrc]. rewrite Ed, Hi. cbn [mu_bind].
      unfold py_delete_outbound. cbn [edst esrc]. unfold get_node, set_nodes. cbn [gnodes].
      rewrite find_node_update by (intros; reflexivity).
      unfold get_node in Es. rewrite Es.
      pose proof (inv_in_outb _ _ _ _ _ _ _ I Hin Es) as Ho. apply mem_in in Ho.
      assert (HO : mem d (noutb (if name_eqb d (nid ns)
                                 then {| nid := nid ns; nvt := nvt ns; nmeta := nmeta ns;
                                         ninb := remove_first s (ninb ns); noutb := noutb ns |}
                                 else ns)) = true).
      { destruct (name_eqb d (nid ns)); exact Ho. }
      rewrite HO. cbn [mu_bind mu_ret].
      unfold py_src_pop. cbn [gsrc]. rewrite Ee. cbn [mu_bind].
      unfold py_dst_pop. cbn [gdst]. rewrite Ee'. cbn [mu_bind py_clean_empty mu_ret]. reflexivity.
    - cbn [mu_bind mu_ret].
      unfold py_src_pop. rewrite Ee. cbn [mu_bind].
      unfold py_dst_pop. cbn [gdst]. rewrite Ee'. cbn [mu_bind py_clean_empty mu_ret]. reflexivity. }
  destruct oty as [t|]; simpl.
  - rewrite (etype_eqb_sym t et). destruct (etype_eqb et t); simpl; [|reflexivity]. apply (T false).
  - apply (T true).
Qed.

(** a failing generated delete_edge leaves the state literally unchanged *)
Theorem gen_delete_edge_failed_exact :
  forall parse k g s d oty e,
    Inv parse k g -> fst (gen_delete_edge g s d oty) = Exc e -> snd (gen_delete_edge g s d oty) = g.
Proof.
  intros parse k g s d oty e I H.
  pose proof (gen_delete_edge_eq parse k g s d oty I) as Q.
  rewrite <- mut_res_snd. rewrite Q.
  pose proof (mut_res_fst_exc _ _ H) as F. rewrite Q in F.
  destruct (delete_edge g s d oty); simpl in *; [discriminate|reflexivity].
Qed.

Theorem gen_delete_edge_failed_noop :
  forall parse k g s d oty e pool lags vars,
    Inv parse k g -> fst (gen_delete_edge g s d oty) = Exc e ->
    observe parse k (snd (gen_delete_edge g s d oty)) pool lags vars = observe parse k g pool lags vars.
Proof. intros. erewrite gen_delete_edge_failed_exact; eauto. Qed.

(** the API row [py_delete_edge] the other three generated methods call IS the generated delete_edge *)
Theorem py_delete_edge_is_gen parse k g s d oty :
  Inv parse k g -> mut_res (py_delete_edge g s d oty) = mut_res (gen_delete_edge g s d oty).
Proof.
  intros I. rewrite (gen_delete_edge_eq parse k g s d oty I). unfold py_delete_edge.
  destruct (delete_edge g s d oty); reflexivity.
Qed.

(** * Transfer of the atomicity theorems (C03) to the generated code *)
Theorem gen_change_edge_type_failed_noop :
  forall parse (fmt : name -> Z -> option name) k g s d ty e pool lags vars,
    Inv parse k g ->
    fst (gen_change_edge_type parse k g s d ty) = Exc e ->
    observe parse k (snd (gen_change_edge_type parse k g s d ty)) pool lags vars
    = observe parse k g pool lags vars.
Proof.
  intros parse fmt k g s d ty e pool lags vars I H.
  pose proof (failed_step_noop parse fmt k g (OChangeEdgeType s d ty) e pool lags vars I eq_refl) as T.
  unfold outcome, step in T. cbn [run_op] in T.
  rewrite <- gen_change_edge_type_eq in T. rewrite mut_res_snd in T. apply T.
  rewrite (mut_res_fst_exc _ _ H). reflexivity.
Qed.

Theorem gen_replace_edge_failed_noop :
  forall parse (fmt : name -> Z -> option name) k g s d s' d' oty om e pool lags vars,
    Inv parse k g ->
    fst (gen_replace_edge parse k g s d s' d' oty om) = Exc e ->
    observe parse k (snd (gen_replace_edge parse k g s d s' d' oty om)) pool lags vars
    = observe parse k g pool lags vars.
Proof.
  intros parse fmt k g s d s' d' oty om e pool lags vars I H.
  pose proof (failed_step_noop parse fmt k g (OReplaceEdge s d s' d' oty om) e pool lags vars I eq_refl) as T.
  unfold outcome, step in T. cbn [run_op] in T.
  rewrite <- gen_replace_edge_eq in T. rewrite mut_res_snd in T. apply T.
  rewrite (mut_res_fst_exc _ _ H). reflexivity.
Qed.

(** a failing generated delete_node leaves the state LITERALLY unchanged (hence observably) *)
Theorem gen_delete_node_failed_exact :
  forall parse g id e,
    Inv parse Plain g -> fst (gen_delete_node g id) = Exc e -> snd (gen_delete_node g id) = g.
Proof.
  intros parse g id e I H.
  pose proof (gen_delete_node_eq parse g id I) as Q.
  rewrite <- mut_res_snd. rewrite Q.
  pose proof (mut_res_fst_exc _ _ H) as F. rewrite Q in F.
  destruct (delete_node Plain g id); simpl in *; [discriminate|reflexivity].
Qed.

Theorem gen_delete_node_failed_noop :
  forall parse g id e pool lags vars,
    Inv parse Plain g -> fst (gen_delete_node g id) = Exc e ->
    observe parse Plain (snd (gen_delete_node g id)) pool lags vars = observe parse Plain g pool lags vars.
Proof. intros. erewrite gen_delete_node_failed_exact; eauto. Qed.

(** the generated functions ARE the steps of the history semantics the properties quantify over *)
Theorem gen_run_op_eq parse fmt k g :
  (forall s d ty, mut_res (gen_change_edge_type parse k g s d ty) = run_op parse fmt k g (OChangeEdgeType s d ty))
  /\ (forall s d s' d' oty om,
        mut_res (gen_replace_edge parse k g s d s' d' oty om) = run_op parse fmt k g (OReplaceEdge s d s' d' oty om))
  /\ (Inv parse Plain g -> forall id,
        mut_res (gen_delete_node g id) = run_op parse fmt Plain g (ODeleteNode id)).
Proof.
  split; [|split]; intros; cbn [run_op].
  - apply gen_change_edge_type_eq.
  - apply gen_replace_edge_eq.
  - apply gen_delete_node_eq with (parse := parse). assumption.
Qed.

Theorem gen_run_op_delete_edge_eq parse fmt k g s d oty :
  Inv parse k g -> mut_res (gen_delete_edge g s d oty) = run_op parse fmt k g (ODeleteEdge s d oty).
Proof. intros I. cbn [run_op]. apply gen_delete_edge_eq with (parse := parse) (k := k). exact I. Qed.

Print Assumptions gen_run_op_delete_edge_eq.
Print Assumptions gen_change_edge_type_eq.
Print Assumptions gen_replace_edge_eq.
Print Assumptions gen_delete_node_res.
Print Assumptions gen_delete_node_eq.
Print Assumptions gen_delete_node_ts.
Print Assumptions gen_change_edge_type_failed_noop.
Print Assumptions gen_replace_edge_failed_noop.
Print Assumptions gen_delete_node_failed_exact.
Print Assumptions gen_delete_node_failed_noop.
Print Assumptions gen_run_op_eq.
Print Assumptions gen_delete_edge_eq.
Print Assumptions gen_delete_edge_failed_exact.
Print Assumptions gen_delete_edge_failed_noop.
Print Assumptions py_delete_edge_is_gen.
