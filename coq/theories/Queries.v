(** Queries.v — executable models of the structural queries of [CausalGraph]
    (cai_causal_graph/causal_graph.py) on the directed part of a graph.

    DEFINITIONS ONLY; the proofs are in QueriesProofs.v.  Generic in the vertex type.

    Conventions.  A [digraph] lists its arcs in insertion order, so [children g x] is the list
    of destinations of [x._outbound_edges] and [parents g x] the list of sources of
    [x._inbound_edges], both in the order Python iterates over them (only directed edges are
    registered as inbound / outbound edges by [CausalGraph._set_edge]).  networkx routines
    ([ancestors], [descendants], [all_simple_paths], [all_topological_sorts]) are modelled by
    their textbook specification: the results agree as SETS, the enumeration order is not
    modelled.  Loops that Python runs unboundedly take explicit fuel and return [None] when it
    runs out. *)
From CG Require Import Base Digraph.
Set Implicit Arguments.

Section Queries.
  Variable A : Type.
  Variable eqb : A -> A -> bool.

  Notation digraph := (digraph A).
  Notation memb := (memb eqb).
  Notation children := (children eqb).
  Notation parents := (parents eqb).

  (** * [get_ancestors], [get_descendants], [is_ancestor], [is_descendant],
        [get_common_ancestors], [get_common_descendants] *)

  Definition get_descendants (g : digraph) (x : A) : list A := desc eqb g x.
  Definition get_ancestors (g : digraph) (x : A) : list A := anc eqb g x.

  (** [descendant_node_set.issubset(self.get_descendants(ancestor_node))] *)
  Definition is_ancestor (g : digraph) (a : A) (ds : list A) : bool := subsetb eqb ds (desc eqb g a).
  Definition is_descendant (g : digraph) (d : A) (ans : list A) : bool := subsetb eqb ans (anc eqb g d).

  Definition common_anc (g : digraph) (a b : A) : list A := inter eqb (anc eqb g a) (anc eqb g b).
  Definition common_desc (g : digraph) (a b : A) : list A := inter eqb (desc eqb g a) (desc eqb g b).

  (** * [_assert_node_does_not_depend_on_itself]

      {[
        checked = set(); to_check = [identifier]
        while len(to_check) > 0:
            current = to_check.pop()
            if current == identifier and len(checked) > 0: raise AssertionError
            if current not in checked:
                checked.add(current)
                for edge in nodes[current].get_inbound_edges(): to_check.append(edge.source.identifier)
      ]}

      [stack] is [to_check] read from its END (the head of [stack] is what [pop()] returns), so
      appending the parents [p1 .. pk] in order puts [rev [p1 .. pk]] in front.  One unit of
      fuel per evaluation of the [while] condition.  [Some true] = AssertionError raised,
      [Some false] = loop ended normally, [None] = out of fuel. *)
  Fixpoint dep_loop (fuel : nat) (g : digraph) (v : A) (checked stack : list A) : option bool :=
    match fuel with
    | O => None
    | S f =>
        match stack with
        | [] => Some false
        | cur :: rest =>
            if eqb cur v && negb (Nat.eqb (length checked) 0) then Some true
            else if memb cur checked then dep_loop f g v checked rest
            else dep_loop f g v (cur :: checked) (rev (parents g cur) ++ rest)
        end
    end.

  Definition depends_on_itself (fuel : nat) (g : digraph) (v : A) : option bool :=
    dep_loop fuel g v [] [v].

  (** * [get_all_causal_paths] = [networkx.all_simple_paths] (and [[]] when source = destination)

      [paths_from f g b visited x]: the vertex lists [l] (without [x] itself) of the simple
      directed paths [x :: l] ending in [b] that avoid [visited]; depth-first, children in
      adjacency order (duplicates in the adjacency collapsed: a networkx DiGraph has no parallel
      edges). *)
  Fixpoint paths_from (fuel : nat) (g : digraph) (b : A) (visited : list A) (x : A) : list (list A) :=
    match fuel with
    | O => []
    | S f =>
        flat_map
          (fun c =>
             if memb c visited then []
             else if eqb c b then [[c]]
             else map (cons c) (paths_from f g b (c :: visited) c))
          (union eqb (children g x) [])
    end.

  Definition all_paths (g : digraph) (a b : A) : list (list A) :=
    if eqb a b then [] else map (cons a) (paths_from (length (verts g)) g b [a] a).

  (** * [get_nodes_between]: the memoised recursion [_has_causal_path_inner], threading the
        [seen_nodes] dictionary explicitly (newest entry first; no key is ever set twice in a
        terminating run, so the dictionary order is unobservable in the returned SET). *)
  Fixpoint lookupb (x : A) (seen : list (A * bool)) : option bool :=
    match seen with
    | [] => None
    | (k, r) :: seen' => if eqb x k then Some r else lookupb x seen'
    end.

  (** [[_has_causal_path_inner(child, end) for child in start_children]] followed by [any]: every
      child is evaluated (no short circuit), left to right. *)
  Fixpoint nb_children (rec : list (A * bool) -> A -> option (bool * list (A * bool)))
           (cs : list A) (seen : list (A * bool)) (any : bool) : option (bool * list (A * bool)) :=
    match cs with
    | [] => Some (any, seen)
    | c :: cs' =>
        match rec seen c with
        | None => None
        | Some (r, seen') => nb_children rec cs' seen' (any || r)
        end
    end.

  Fixpoint nb_inner (fuel : nat) (g : digraph) (b : A) (seen : list (A * bool)) (x : A)
    : option (bool * list (A * bool)) :=
    match fuel with
    | O => None
    | S f =>
        match lookupb x seen with
        | Some r => Some (r, seen)                               (* cached *)
        | None =>
            if eqb x b then Some (true, (x, true) :: seen)        (* start == end *)
            else
              match children g x with
              | [] => Some (false, (x, false) :: seen)            (* is_sink_node() *)
              | cs =>
                  match nb_children (nb_inner f g b) cs seen false with
                  | None => None
                  | Some (has, seen') => Some (has, (x, has) :: seen')
                  end
              end
        end
    end.

  Definition nodes_between (fuel : nat) (g : digraph) (a b : A) : option (list A) :=
    match nb_inner fuel g b [] a with
    | None => None
    | Some (false, _) => Some []
    | Some (true, seen) => Some (map fst (filter snd seen))
    end.

  (** * [directed_path_exists]: recursive DFS without a visited set.
      {[
        children = [...get_outbound_edges()]
        if destination in children: return True
        for child in children:
            if self.directed_path_exists(child, destination): return True
        return False
      ]} *)
  Fixpoint dpe_children (rec : A -> option bool) (cs : list A) : option bool :=
    match cs with
    | [] => Some false
    | c :: cs' =>
        match rec c with
        | None => None
        | Some true => Some true
        | Some false => dpe_children rec cs'
        end
    end.

  Fixpoint dpe (fuel : nat) (g : digraph) (b : A) (x : A) : option bool :=
    match fuel with
    | O => None
    | S f =>
        if memb b (children g x) then Some true
        else dpe_children (dpe f g b) (children g x)
    end.

  Definition directed_path_exists (fuel : nat) (g : digraph) (a b : A) : option bool := dpe fuel g b a.

  (** * Topological orders *)

  (** No arc from a later (or the same) position to an earlier one. *)
  Fixpoint fwdb (g : digraph) (l : list A) : bool :=
    match l with
    | [] => true
    | x :: l' => forallb (fun y => negb (has_arc eqb g y x)) (x :: l') && fwdb g l'
    end.

  Fixpoint distinctb (l : list A) : bool :=
    match l with
    | [] => true
    | x :: l' => negb (memb x l') && distinctb l'
    end.

  (** [l] enumerates the vertices exactly once and every arc goes forward. *)
  Definition is_topo (g : digraph) (l : list A) : bool :=
    distinctb l && seteqb eqb l (verts g) && fwdb g l.

  Definition removeb (x : A) (l : list A) : list A := filter (fun y => negb (eqb y x)) l.

  Definition is_source_in (g : digraph) (rem : list A) (x : A) : bool :=
    forallb (fun p => negb (memb p rem)) (parents g x).

  (** All topological orders: repeatedly pick any vertex of the remaining set that has no
      parent in the remaining set. *)
  Fixpoint topo_from (fuel : nat) (g : digraph) (rem : list A) : list (list A) :=
    match rem with
    | [] => [[]]
    | _ :: _ =>
        match fuel with
        | O => []
        | S f =>
            flat_map
              (fun x => if is_source_in g rem x
                        then map (cons x) (topo_from f g (removeb x rem)) else [])
              rem
        end
    end.

  Definition all_topo (g : digraph) : list (list A) := topo_from (length (verts g)) g (verts g).

  (** Time-series variant: [_get_time_topological_order] keeps an order iff no element has a
      strictly larger time lag than its successor. *)
  Fixpoint lags_sorted (lag : A -> Z) (l : list A) : bool :=
    match l with
    | [] => true
    | x :: l' =>
        match l' with
        | [] => true
        | y :: _ => negb (Z.ltb (lag y) (lag x)) && lags_sorted lag l'
        end
    end.

  Definition all_time_topo (g : digraph) (lag : A -> Z) : list (list A) :=
    filter (lags_sorted lag) (all_topo g).
End Queries.

(** Renaming of vertices. *)
Definition map_graph (A B : Type) (f : A -> B) (g : digraph A) : digraph B :=
  {| verts := map f (verts g); arcs := map (fun e => (f (fst e), f (snd e))) (arcs g) |}.
