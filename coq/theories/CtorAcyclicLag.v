(** CtorAcyclicLag.v — property C02 for the per-lag constructor
    [TimeSeriesCausalGraph.from_adjacency_matrices] (model: LagMatrix.v, template level of
    TSGraph.v), and for the time-series [from_adjacency_matrix] it goes through
    ([from_adjacency_matrix_ts]).

    Main results, for ANY input (hostile dicts, names with markers, ragged shapes, ... included):
      [from_adjacency_matrix_ts_validated_acyclic]
          from_adjacency_matrix_ts full names true = Ok g -> acyclic (dir_digraph g)
      [from_adjacency_matrix_ts_true_iff]
          ... true = Ok g <-> ... false = Ok g /\ acyclic (dir_digraph g)
      [from_adjacency_matrix_ts_cyclic_refused]
      [from_adjacency_matrices_validated_acyclic]
          from_adjacency_matrices d names construct_minimal true = Ok g
          -> acyclic (dir_digraph g)           (construct_minimal = True or False)
      [from_adjacency_matrices_cyclic_refused] (construct_minimal = False)
      [lag_is_dag_spec]   ts_is_dag g = true <-> all edges directed /\ acyclic (dir_digraph g)
                          for every graph returned by the constructor.

    The point of the [construct_minimal = True] case: [get_minimal_graph] re-adds every edge
    with validate=False at its template position, which in general can CLOSE a cycle
    ([minimal_can_close_a_cycle] below); it cannot for the graphs [from_adjacency_matrices]
    builds because all their directed edges end at lag 0 — whatever the variable names are.

    Only LagMatrix.v (definitions) is used of the files being written in parallel. *)
From Coq Require Import Relations.Relation_Operators.
From CG Require Import Base Dec Digraph DigraphProofs Names NamesProofs.
From CG Require Import TSGraph TSGraphProofs MinimalProofs MinimalProofs2 LagMatrix.

(** * Weak well-formedness: node keys are distinct and edges join nodes *)

Definition W (g : tsg) : Prop :=
  NoDup (map nkey (tnodes g))
  /\ forall e, In e (tedges g) ->
       In (esrc e) (map nkey (tnodes g)) /\ In (edst e) (map nkey (tnodes g)).

Lemma W_empty gm : W (empty_tsg gm).
Proof. split; [constructor|intros e []]. Qed.

Lemma W_dir_wf g : W g -> Digraph.wf (dir_digraph g).
Proof.
  intros [Hnd Hends]. split; [exact Hnd|]. intros a b H.
  unfold arc, dir_digraph in H. cbn [arcs] in H. apply in_map_iff in H.
  destruct H as (e & K & He). apply filter_In in He. destruct He as [He _].
  apply ekey_inv in K. destruct K as [<- <-]. exact (Hends e He).
Qed.

Lemma W_add_node g n : W g -> ~ In (nkey n) (map nkey (tnodes g)) -> W (add_node g n).
Proof.
  intros [Hnd Hends] Hn. split; cbn [add_node tnodes tedges].
  - rewrite map_app. cbn [map]. apply NoDup_snoc; assumption.
  - intros e He. destruct (Hends e He) as [H1 H2]. rewrite map_app, !in_app_iff. auto.
Qed.

Lemma W_ensure_node g n : W g -> W (ensure_node g n).
Proof.
  intros [Hnd Hends]. split; [apply ensure_node_nodup, Hnd|].
  intros e He. rewrite ensure_node_edges in He. destruct (Hends e He) as [H1 H2].
  rewrite !ensure_node_keys. auto.
Qed.

(** the shape of a successful [add_edge] *)
Lemma add_edge_ok g sn dn ty m g' :
  add_edge g sn dn ty m = Ok g' ->
  exists s d, ((s = sn /\ d = dn) \/ (ty <> Dir /\ s = dn /\ d = sn))
    /\ tnodes g' = tnodes (ensure_node (ensure_node g sn) dn)
    /\ tedges g' = tedges g ++ [mk_edge s d ty m]
    /\ tgmeta g' = tgmeta g.
Proof.
  unfold add_edge.
  destruct (key_eqb (nkey sn) (nkey dn)); [discriminate|].
  destruct (edge_exists g (nkey sn) (nkey dn)); [discriminate|].
  destruct (etype_eqb ty Dir && (tl dn <? tl sn)%Z) eqn:Eback; [discriminate|].
  set (swap := negb (etype_eqb ty Dir) && (tl dn <? tl sn)%Z).
  set (s := if swap then dn else sn). set (d := if swap then sn else dn).
  destruct (edge_exists _ (nkey s) (nkey d)); [discriminate|].
  destruct (edge_exists _ (nkey d) (nkey s)); [discriminate|].
  intros [= <-]. exists s, d. cbn [tnodes tedges tgmeta].
  rewrite !ensure_node_edges, !ensure_node_meta. split; [|auto].
  unfold s, d, swap. destruct (etype_eqb ty Dir) eqn:Ety; cbn [negb andb].
  - left. split; reflexivity.
  - destruct (tl dn <? tl sn)%Z; [right|left; split; reflexivity].
    split; [|split; reflexivity]. intros ->. discriminate.
Qed.

Lemma W_add_edge g sn dn ty m g' : W g -> add_edge g sn dn ty m = Ok g' -> W g'.
Proof.
  intros HW H. destruct (add_edge_ok g sn dn ty m g' H) as (s & d & Hsd & Hn & He & _).
  pose proof (W_ensure_node _ dn (W_ensure_node g sn HW)) as [Hnd Hends].
  rewrite !ensure_node_edges in Hends.
  split; rewrite Hn; [exact Hnd|]. intros e Hin. rewrite He in Hin.
  apply in_app_or in Hin. destruct Hin as [Hin|[<-|[]]]; [exact (Hends e Hin)|].
  unfold esrc, edst. cbn [mk_edge es esl ed edl]. fold (nkey s). fold (nkey d).
  rewrite !ensure_node_keys.
  destruct Hsd as [[-> ->]|(_ & -> & ->)]; split; auto.
Qed.

(** [acyclicb] on the directed part is exact under [W] *)
Lemma W_acyclicb g : W g -> (acyclicb key_eqb (dir_digraph g) = true <-> acyclic (dir_digraph g)).
Proof. intros HW. exact (acyclicb_spec key_eqb key_eqb_spec (W_dir_wf g HW)). Qed.

(** * The node loop of the time-series [from_adjacency_matrix] *)

(** position by position, the nodes created are the parsed names *)
Definition named (names : list name) (nodes : list tnode) : Prop :=
  Forall2 (fun s n => parse s = Some (nkey n)) names nodes.

Lemma Forall2_snoc (A B : Type) (R : A -> B -> Prop) l1 l2 a b :
  Forall2 R l1 l2 -> R a b -> Forall2 R (l1 ++ [a]) (l2 ++ [b]).
Proof.
  induction 1 as [|x y l1 l2 Hxy _ IH]; intros Hab; cbn [app].
  - constructor; [exact Hab|constructor].
  - constructor; [exact Hxy|apply IH, Hab].
Qed.

Lemma Forall2_nth (A B : Type) (R : A -> B -> Prop) l1 l2 :
  Forall2 R l1 l2 -> forall i b, nth_error l2 i = Some b ->
  exists a, nth_error l1 i = Some a /\ R a b.
Proof.
  induction 1 as [|x y l1 l2 Hxy _ IH]; intros i b Hi.
  - destruct i; discriminate.
  - destruct i as [|i]; cbn [nth_error] in *.
    + injection Hi as <-. exists x. split; [reflexivity|exact Hxy].
    + apply IH, Hi.
Qed.

Lemma add_named_loop_inv names : forall st st',
  named (fst st) (tnodes (snd st)) -> W (snd st) -> tedges (snd st) = [] ->
  rfold add_named names st = Ok st' ->
  fst st' = fst st ++ names /\ named (fst st') (tnodes (snd st')) /\ W (snd st')
  /\ tedges (snd st') = [].
Proof.
  induction names as [|s names IH]; intros st st' Hn HW He; cbn [rfold].
  - intros [= <-]. rewrite app_nil_r. auto.
  - unfold add_named at 1.
    destruct (parse s) as [k|] eqn:Ep; [|discriminate].
    destruct (mem s (fst st)); [discriminate|].
    destruct (node_exists (snd st) k) eqn:Ex; [discriminate|].
    intros H. apply IH in H; cbn [fst snd].
    + destruct H as (H1 & H2). cbn [fst] in H1. rewrite <- app_assoc in H1. split; assumption.
    + cbn [add_node tnodes]. apply Forall2_snoc; [exact Hn|].
      unfold nkey, mk_node. cbn [tv tl]. rewrite Ep. destruct k; reflexivity.
    + apply W_add_node; [exact HW|]. apply node_exists_false in Ex.
      unfold nkey at 1, mk_node. cbn [tv tl]. destruct k; exact Ex.
    + exact He.
Qed.

(** * The edge loop *)

(** every directed edge stored ends at the node of a column that holds a non-zero entry *)
Definition dir_ends_at_columns (full : matrix) (nodes : list tnode) (g : tsg) : Prop :=
  forall e, In e (tedges g) -> ety e = Dir ->
    exists a b nd, entry full a b = Some true /\ nth_error nodes b = Some nd /\ edl e = tl nd.

Lemma ensure_node_present g n :
  In (nkey n) (map nkey (tnodes g)) -> ensure_node g n = g.
Proof.
  intros H. unfold ensure_node. apply node_exists_in in H. rewrite H. reflexivity.
Qed.

Lemma edge_step_inv full nodes g p g' :
  tnodes g = nodes -> W g -> dir_ends_at_columns full nodes g ->
  edge_step full nodes g p = Ok g' ->
  tnodes g' = nodes /\ W g' /\ dir_ends_at_columns full nodes g'.
Proof.
  intros Hn HW Hd. unfold edge_step.
  destruct (entry full (fst p) (snd p)) as [x|] eqn:Ex; [|discriminate].
  destruct (entry full (snd p) (fst p)) as [y|] eqn:Ey; [|discriminate].
  destruct (nth_error nodes (fst p)) as [ni|] eqn:Eni; [|discriminate].
  destruct (nth_error nodes (snd p)) as [nj|] eqn:Enj; [|discriminate].
  assert (Hki : In (nkey ni) (map nkey (tnodes g))).
  { rewrite Hn. apply in_map. eapply nth_error_In; exact Eni. }
  assert (Hkj : In (nkey nj) (map nkey (tnodes g))).
  { rewrite Hn. apply in_map. eapply nth_error_In; exact Enj. }
  assert (Hstep : forall sn dn ty,
            In (nkey sn) (map nkey (tnodes g)) -> In (nkey dn) (map nkey (tnodes g)) ->
            (ty = Dir -> exists a b, entry full a b = Some true /\ nth_error nodes b = Some dn) ->
            add_edge g sn dn ty [] = Ok g' ->
            tnodes g' = nodes /\ W g' /\ dir_ends_at_columns full nodes g').
  { intros sn dn ty Hs Hdn Hcol H. split; [|split; [exact (W_add_edge g sn dn ty [] g' HW H)|]].
    - destruct (add_edge_ok g sn dn ty [] g' H) as (s & d & _ & Hn' & _).
      rewrite Hn', (ensure_node_present g sn Hs), (ensure_node_present g dn Hdn). exact Hn.
    - destruct (add_edge_ok g sn dn ty [] g' H) as (s & d & Hsd & _ & He' & _).
      intros e He Hty. rewrite He' in He. apply in_app_or in He.
      destruct He as [He|[<-|[]]]; [exact (Hd e He Hty)|].
      cbn [mk_edge ety] in Hty. cbn [mk_edge edl].
      destruct Hsd as [[-> ->]|(Hnd & _)]; [|contradiction].
      destruct (Hcol Hty) as (a & b & Hab & Hb). exists a, b, dn. auto. }
  destruct x, y; cbn [negb andb].
  - apply Hstep; [exact Hki|exact Hkj|discriminate].
  - apply Hstep; [exact Hki|exact Hkj|]. intros _. exists (fst p), (snd p). auto.
  - apply Hstep; [exact Hkj|exact Hki|]. intros _. exists (snd p), (fst p). auto.
  - intros [= <-]. auto.
Qed.

Lemma edge_loop_inv full nodes P : forall g g',
  tnodes g = nodes -> W g -> dir_ends_at_columns full nodes g ->
  rfold (edge_step full nodes) P g = Ok g' ->
  tnodes g' = nodes /\ W g' /\ dir_ends_at_columns full nodes g'.
Proof.
  induction P as [|p P IH]; intros g g' Hn HW Hd; cbn [rfold].
  - intros [= <-]. auto.
  - destruct (edge_step full nodes g p) as [g1|x] eqn:E; [|discriminate].
    destruct (edge_step_inv full nodes g p g1 Hn HW Hd E) as (Hn1 & HW1 & Hd1).
    apply IH; assumption.
Qed.

(** * The time-series [from_adjacency_matrix]: shape of the result, any input *)

Theorem from_adjacency_matrix_ts_shape full names v g :
  from_adjacency_matrix_ts full names v = Ok g ->
  W g /\ named names (tnodes g) /\ dir_ends_at_columns full (tnodes g) g
  /\ (v = true -> acyclicb key_eqb (dir_digraph g) = true).
Proof.
  unfold from_adjacency_matrix_ts.
  destruct (negb (is_square full)); [discriminate|].
  destruct (negb (Nat.eqb (length names) (length full))); [discriminate|].
  destruct (rfold add_named names ([], empty_tsg [])) as [[l g0]|x] eqn:E0; [|discriminate].
  destruct (add_named_loop_inv names ([], empty_tsg []) (l, g0)) as (Hl & Hnamed & HW0 & He0);
    [constructor|apply W_empty|reflexivity|exact E0|].
  cbn [fst snd app] in Hl, Hnamed, HW0, He0. subst l.
  destruct (rfold (edge_step full (tnodes g0)) (pairs (length names)) g0) as [g1|x] eqn:E1;
    [|discriminate].
  destruct (edge_loop_inv full (tnodes g0) (pairs (length names)) g0 g1 eq_refl HW0)
    as (Hn1 & HW1 & Hd1);
    [intros e He; rewrite He0 in He; destruct He|exact E1|].
  assert (Hres : W g1 /\ named names (tnodes g1) /\ dir_ends_at_columns full (tnodes g1) g1).
  { rewrite Hn1. auto. }
  destruct v; cbv iota.
  - destruct (acyclicb key_eqb (dir_digraph g1)) eqn:Eac; [|discriminate].
    intros [= <-]. destruct Hres as (H1 & H2 & H3). auto.
  - intros [= <-]. destruct Hres as (H1 & H2 & H3).
    split; [exact H1|split; [exact H2|split; [exact H3|discriminate]]].
Qed.

(** the validated call is the unvalidated one followed by the acyclicity test *)
Lemma from_adjacency_matrix_ts_unfold full names :
  from_adjacency_matrix_ts full names true
  = match from_adjacency_matrix_ts full names false with
    | Ok g => if acyclicb key_eqb (dir_digraph g) then Ok g else Err ECyclic
    | Err e => Err e
    end.
Proof.
  unfold from_adjacency_matrix_ts.
  destruct (negb (is_square full)); [reflexivity|].
  destruct (negb (Nat.eqb (length names) (length full))); [reflexivity|].
  destruct (rfold add_named names ([], empty_tsg [])) as [[l g0]|x]; [|reflexivity].
  destruct (rfold (edge_step full (tnodes g0)) (pairs (length names)) g0); reflexivity.
Qed.

(** C02 for the time-series [from_adjacency_matrix] *)
Theorem from_adjacency_matrix_ts_validated_acyclic full names g :
  from_adjacency_matrix_ts full names true = Ok g -> acyclic (dir_digraph g).
Proof.
  intros H. destruct (from_adjacency_matrix_ts_shape full names true g H) as (HW & _ & _ & Hac).
  apply (W_acyclicb g HW), Hac. reflexivity.
Qed.

Theorem from_adjacency_matrix_ts_true_iff full names g :
  from_adjacency_matrix_ts full names true = Ok g <->
  from_adjacency_matrix_ts full names false = Ok g /\ acyclic (dir_digraph g).
Proof.
  rewrite from_adjacency_matrix_ts_unfold. split.
  - destruct (from_adjacency_matrix_ts full names false) as [g1|x] eqn:E; [|discriminate].
    destruct (from_adjacency_matrix_ts_shape full names false g1 E) as (HW & _).
    destruct (acyclicb key_eqb (dir_digraph g1)) eqn:Eac; [|discriminate].
    intros [= <-]. split; [reflexivity|]. apply (W_acyclicb g1 HW), Eac.
  - intros [E Hac]. rewrite E.
    destruct (from_adjacency_matrix_ts_shape full names false g E) as (HW & _).
    apply (W_acyclicb g HW) in Hac. rewrite Hac. reflexivity.
Qed.

Theorem from_adjacency_matrix_ts_cyclic_refused full names g :
  from_adjacency_matrix_ts full names false = Ok g -> ~ acyclic (dir_digraph g) ->
  from_adjacency_matrix_ts full names true = Err ECyclic.
Proof.
  intros E Hcyc. rewrite from_adjacency_matrix_ts_unfold, E.
  destruct (from_adjacency_matrix_ts_shape full names false g E) as (HW & _).
  destruct (acyclicb key_eqb (dir_digraph g)) eqn:Eac; [|reflexivity].
  exfalso. apply Hcyc, (W_acyclicb g HW), Eac.
Qed.

(** * The full matrix: non-zero entries sit in lag-0 columns only *)

Lemma rfold_inv (S A : Type) (f : S -> A -> res S) (P : S -> Prop) :
  (forall x a x', P x -> f x a = Ok x' -> P x') ->
  forall l x x', P x -> rfold f l x = Ok x' -> P x'.
Proof.
  intros Hstep. induction l as [|a l IH]; intros x x' HP; cbn [rfold].
  - intros [= <-]. exact HP.
  - destruct (f x a) as [y|e] eqn:E; [|discriminate]. apply IH. exact (Hstep x a y HP E).
Qed.

Lemma entry_set_cell i j mx a b :
  entry (set_cell i j mx) a b = Some true -> (a = i /\ b = j) \/ entry mx a b = Some true.
Proof.
  unfold entry, set_cell. rewrite nth_error_set_nth.
  destruct (Nat.eqb_spec a i) as [Ea|Hne]; [subst a|intros H; right; exact H].
  destruct (nth_error mx i) as [row|]; cbn [option_map]; [|discriminate].
  rewrite nth_error_set_nth. destruct (Nat.eqb_spec b j) as [Eb|Hnb].
  - intros _. left. split; [reflexivity|exact Eb].
  - intros H. right. exact H.
Qed.

Lemma entry_zeros n a b : entry (zeros n) a b <> Some true.
Proof.
  unfold entry, zeros. destruct (nth_error (repeat (repeat false n) n) a) as [row|] eqn:R;
    [|discriminate].
  apply nth_error_In, repeat_spec in R. subst row. intros H.
  apply nth_error_In, repeat_spec in H. discriminate.
Qed.

(** column [b] is the position of a lag-0 node: [b = idx[0] + T * col] *)
Definition cols_ok (T i0 : nat) (mx : matrix) : Prop :=
  forall a b, entry mx a b = Some true -> exists c, b = i0 + T * c.

Lemma fill_step_cols T i0 ti full p full' :
  cols_ok T i0 full -> fill_step T i0 ti full p = Ok full' -> cols_ok T i0 full'.
Proof.
  intros Hc. unfold fill_step, mset.
  destruct (entry full (ti + T * fst p) (i0 + T * snd p)) as [x|]; [|discriminate].
  intros [= <-] a b H. apply entry_set_cell in H. destruct H as [[_ ->]|H].
  - exists (snd p). reflexivity.
  - exact (Hc a b H).
Qed.

Lemma fill_lag_cols ks T i0 full kv full' :
  cols_ok T i0 full -> fill_lag ks T i0 full kv = Ok full' -> cols_ok T i0 full'.
Proof.
  intros Hc. unfold fill_lag. destruct (zindex (fst kv) ks) as [ti|]; [|discriminate].
  apply (rfold_inv _ _ (fill_step T i0 ti) (cols_ok T i0)); [|exact Hc].
  intros x p x'. apply fill_step_cols.
Qed.

Lemma fill_cols ks T i0 d n full :
  rfold (fill_lag ks T i0) d (zeros n) = Ok full -> cols_ok T i0 full.
Proof.
  apply (rfold_inv _ _ (fill_lag ks T i0) (cols_ok T i0)).
  - intros x kv x'. apply fill_lag_cols.
  - intros a b H. destruct (entry_zeros n a b H).
Qed.

(** * The node names at lag-0 positions parse to lag 0, whatever the variable names are *)

Lemma zindex_nth' k l : forall t, zindex k l = Some t -> nth_error l t = Some k /\ t < length l.
Proof.
  induction l as [|x l IH]; intros t; cbn [zindex]; [discriminate|].
  destruct (Z.eqb_spec k x) as [->|Hne].
  - intros [= <-]. split; [reflexivity|cbn; lia].
  - destruct (zindex k l) as [i|]; [|discriminate]. intros [= <-].
    destruct (IH i eq_refl) as [H1 H2]. split; [exact H1|cbn; lia].
Qed.

Lemma nth_var_lag_pairs_key ks vars : forall i t v k,
  t < length ks ->
  nth_error (var_lag_pairs vars ks) (t + length ks * i) = Some (v, k) ->
  nth_error ks t = Some k.
Proof.
  unfold var_lag_pairs. induction vars as [|a vars IH]; intros i t v k Ht; cbn [flat_map].
  - destruct (t + length ks * i); discriminate.
  - destruct i as [|i].
    + rewrite Nat.mul_0_r, Nat.add_0_r, nth_error_app1 by (rewrite map_length; exact Ht).
      rewrite nth_error_map. destruct (nth_error ks t) as [k'|]; cbn [option_map]; [|discriminate].
      intros [= _ <-]. reflexivity.
    + replace (t + length ks * S i) with (length ks + (t + length ks * i)) by lia.
      rewrite nth_error_app2 by (rewrite map_length; lia).
      rewrite map_length. replace (length ks + (t + length ks * i) - length ks)
        with (t + length ks * i) by lia.
      apply IH, Ht.
Qed.

Lemma collect_nth (A B : Type) (f : A -> option B) l : forall r p s,
  collect f l = Some r -> nth_error r p = Some s ->
  exists a, nth_error l p = Some a /\ f a = Some s.
Proof.
  induction l as [|a l IH]; intros r p s; cbn [collect].
  - intros [= <-]. destruct p; discriminate.
  - destruct (f a) as [b|] eqn:Ea; [|discriminate].
    destruct (collect f l) as [r'|]; [|discriminate]. intros [= <-].
    destruct p as [|p]; cbn [nth_error].
    + intros [= <-]. exists a. split; [reflexivity|exact Ea].
    + intros H. exact (IH r' p s eq_refl H).
Qed.

(** [get_variable_name_and_lag(get_name_with_lag(v, 0))] has lag 0 for EVERY [v] *)
Lemma fmt0_lag v s k : fmt v 0 = Some s -> parse s = Some k -> snd k = 0%Z.
Proof.
  unfold fmt. destruct (parse v) as [[v' j]|] eqn:Ev; [|discriminate].
  unfold render. rewrite tident_zero. intros [= <-] Hk.
  destruct (parse_whole_or_good v v' j Ev) as [[-> ->]|Hg].
  - rewrite Ev in Hk. injection Hk as <-. reflexivity.
  - rewrite (parse_good v' Hg) in Hk. injection Hk as <-. reflexivity.
Qed.

Lemma column_nodes_lag0 vars ks nn nodes i0 c nd :
  node_names vars ks = Some nn -> named nn nodes -> zindex 0 ks = Some i0 ->
  nth_error nodes (i0 + length ks * c) = Some nd -> tl nd = 0%Z.
Proof.
  intros Hnn Hnamed Hz Hnd.
  destruct (Forall2_nth _ _ _ _ _ Hnamed _ _ Hnd) as (s & Hs & Hp).
  destruct (collect_nth _ _ _ _ _ _ _ Hnn Hs) as ([v k] & Hvk & Hf). cbn [fst snd] in Hf.
  destruct (zindex_nth' 0 ks i0 Hz) as [Hk0 Hlt].
  pose proof (nth_var_lag_pairs_key ks vars c i0 v k Hlt Hvk) as Hk.
  assert (k = 0%Z) by congruence. subst k.
  exact (fmt0_lag v s (nkey nd) Hf Hp).
Qed.

(** * get_minimal_graph: every directed edge of the result is a directed template of the input,
      placed with its destination at lag 0 *)

Definition placed_dir (g m : tsg) : Prop :=
  forall e', In e' (tedges m) -> ety e' = Dir ->
    exists e0, In e0 (tedges g) /\ ety e0 = Dir
               /\ esrc e' = place_src e0 /\ edst e' = place_dst e0.

Lemma min_step_sound g m e m' :
  W m -> placed_dir g m -> In e (tedges g) -> min_step g m e = Ok m' ->
  W m' /\ placed_dir g m'.
Proof.
  intros HW Hp He. rewrite min_step_unfold.
  destruct (edge_exists m (place_src e) (place_dst e)); [intros [= <-]; auto|].
  unfold min_add.
  destruct (find_node g (esrc e)) as [ns|] eqn:Es; [|discriminate].
  destruct (find_node g (edst e)) as [nd|] eqn:Ed; [|discriminate].
  intros H. split; [exact (W_add_edge _ _ _ _ _ _ HW H)|].
  destruct (add_edge_ok _ _ _ _ _ _ H) as (s & d & Hsd & _ & He' & _).
  intros e' Hin Hty. rewrite He' in Hin. apply in_app_or in Hin.
  destruct Hin as [Hin|[<-|[]]]; [exact (Hp e' Hin Hty)|].
  cbn [mk_edge ety] in Hty. exists e. split; [exact He|]. split; [exact Hty|].
  destruct Hsd as [[-> ->]|(Hnd & _)]; [|contradiction].
  destruct (find_node_some _ _ _ Es) as [_ Hks]. destruct (find_node_some _ _ _ Ed) as [_ Hkd].
  unfold nkey, esrc in Hks. unfold nkey, edst in Hkd.
  injection Hks as Hs1 _. injection Hkd as Hd1 _.
  unfold esrc, edst, place_src, place_dst. cbn [mk_edge relag es esl ed edl tv tl].
  rewrite Hs1, Hd1. split; reflexivity.
Qed.

Lemma float_step_sound g m v m' :
  W m -> placed_dir g m -> float_step g m v = Ok m' -> W m' /\ placed_dir g m'.
Proof.
  intros HW Hp. unfold float_step.
  destruct (negb (has_var m v) && negb (node_exists m (v, 0%Z))) eqn:Ec; [|intros [= <-]; auto].
  destruct (first_of_var g v) as [n|] eqn:En; [|discriminate].
  intros [= <-]. split; [|exact Hp].
  apply W_add_node; [exact HW|].
  apply andb_true_iff in Ec. destruct Ec as [_ Ec]. apply negb_true_iff, node_exists_false in Ec.
  destruct (first_of_var_some _ _ _ En) as [_ Hv]. unfold nkey, relag. cbn [tv tl].
  rewrite Hv. exact Ec.
Qed.

Theorem minimal_dir_sound g m : minimal g = Ok m -> W m /\ placed_dir g m.
Proof.
  unfold minimal.
  destruct (rfold (min_step g) (sorted_edges g) (empty_tsg (tgmeta g))) as [m0|x] eqn:E0;
    [|discriminate].
  intros E1.
  assert (H0 : W m0 /\ placed_dir g m0).
  { assert (Hgen : forall l x x', (forall e, In e l -> In e (tedges g)) ->
              W x /\ placed_dir g x -> rfold (min_step g) l x = Ok x' -> W x' /\ placed_dir g x').
    { induction l as [|e l IH]; intros x x' Hl Hx; cbn [rfold].
      - intros [= <-]. exact Hx.
      - destruct (min_step g x e) as [y|err] eqn:Ey; [|discriminate].
        apply IH; [intros e0 H0; apply Hl; right; exact H0|].
        destruct Hx as [HWx Hpx].
        exact (min_step_sound g x e y HWx Hpx (Hl e (or_introl eq_refl)) Ey). }
    apply (Hgen _ _ _ (fun e He => proj1 (isort_in edge_leb e (tedges g)) He)
             (conj (W_empty _) (fun e' (H : In e' []) => match H with end)) E0). }
  revert E1. apply (rfold_inv _ _ (float_step g) (fun x => W x /\ placed_dir g x)); [|exact H0].
  intros x v x' [HWx Hpx]. apply float_step_sound; assumption.
Qed.

(** when every directed edge of [g] already ends at lag 0 the directed part of the minimal
    graph is a sub-graph of the directed part of [g] *)
Lemma minimal_dir_subgraph g m :
  (forall e, In e (tedges g) -> ety e = Dir -> edl e = 0%Z) -> minimal g = Ok m ->
  forall a b, arc (dir_digraph m) a b -> arc (dir_digraph g) a b.
Proof.
  intros Hz Hm a b Hab. destruct (minimal_dir_sound g m Hm) as [_ Hp].
  unfold arc, dir_digraph in *. cbn [arcs] in *. apply in_map_iff in Hab.
  destruct Hab as (e' & K & He'). apply filter_In in He'. destruct He' as [He' Hty].
  apply etype_eqb_eq in Hty. apply ekey_inv in K. destruct K as [<- <-].
  destruct (Hp e' He' Hty) as (e0 & H0 & Hty0 & Hs & Hd).
  destruct (place_self e0 (Hz e0 H0 Hty0)) as [P1 P2].
  apply in_map_iff. exists e0. split; [unfold ekey; congruence|].
  apply filter_In. split; [exact H0|apply etype_eqb_eq, Hty0].
Qed.

(** * from_adjacency_matrices *)

(** the stages of [from_adjacency_matrices] that precede [cls.from_adjacency_matrix] *)
Lemma from_adjacency_matrices_stages d0 names cm v g :
  from_adjacency_matrices d0 names cm v = Ok g ->
  exists vars ks nn i0 full g1,
    node_names vars ks = Some nn /\ zindex 0 ks = Some i0
    /\ cols_ok (length ks) i0 full
    /\ from_adjacency_matrix_ts full nn v = Ok g1
    /\ (if cm then minimal g1 = Ok g else g = g1).
Proof.
  unfold from_adjacency_matrices.
  destruct (shapes (dict_of d0)) as [[|sh shs]|]; [discriminate| |discriminate].
  destruct (negb (forallb (shape_eqb sh) shs)); [discriminate|].
  set (d1 := if has_key 0 (dict_of d0) then dict_of d0
             else dict_of d0 ++ [(0%Z, zeros (fst sh))]).
  destruct (match names with
            | Some l => if Nat.eqb (length l) (fst sh) then Ok l else Err EAssert
            | None => Ok (default_var_names (fst sh))
            end) as [vars|x]; [|discriminate].
  destruct (node_names vars (map fst d1)) as [nn|] eqn:Enn; [|discriminate].
  destruct (zindex 0 (map fst d1)) as [i0|] eqn:Ei0; [|discriminate].
  destruct (rfold (fill_lag (map fst d1) (length d1) i0) d1 (zeros (fst sh * length d1)))
    as [full|x] eqn:Efull; [|discriminate].
  destruct (from_adjacency_matrix_ts full nn v) as [g1|x] eqn:Eg1; [|discriminate].
  intros H. exists vars, (map fst d1), nn, i0, full, g1.
  split; [exact Enn|]. split; [exact Ei0|]. split.
  - rewrite map_length. exact (fill_cols _ _ _ _ _ _ Efull).
  - split; [exact Eg1|]. destruct cm; [exact H|]. injection H as <-. reflexivity.
Qed.

(** every directed edge of the graph built from the full matrix ends at lag 0 *)
Lemma built_dir_lag0 vars ks nn i0 full v g1 :
  node_names vars ks = Some nn -> zindex 0 ks = Some i0 -> cols_ok (length ks) i0 full ->
  from_adjacency_matrix_ts full nn v = Ok g1 ->
  forall e, In e (tedges g1) -> ety e = Dir -> edl e = 0%Z.
Proof.
  intros Hnn Hz Hcols Hg1 e He Hty.
  destruct (from_adjacency_matrix_ts_shape full nn v g1 Hg1) as (_ & Hnamed & Hd & _).
  destruct (Hd e He Hty) as (a & b & nd & Hab & Hb & ->).
  destruct (Hcols a b Hab) as (c & ->).
  exact (column_nodes_lag0 vars ks nn (tnodes g1) i0 c nd Hnn Hnamed Hz Hb).
Qed.

(** C02 for [from_adjacency_matrices], any input, [construct_minimal] True or False: with
    validation on, the graph returned has no directed cycle (and is weakly well formed) *)
Theorem from_adjacency_matrices_validated_acyclic d0 names cm g :
  from_adjacency_matrices d0 names cm true = Ok g -> W g /\ acyclic (dir_digraph g).
Proof.
  intros H.
  destruct (from_adjacency_matrices_stages d0 names cm true g H)
    as (vars & ks & nn & i0 & full & g1 & Hnn & Hz & Hcols & Hg1 & Hcm).
  pose proof (from_adjacency_matrix_ts_validated_acyclic full nn g1 Hg1) as Hac1.
  destruct cm.
  - split; [exact (proj1 (minimal_dir_sound g1 g Hcm))|].
    apply (@subgraph_acyclic key (dir_digraph g) (dir_digraph g1)); [|exact Hac1].
    apply minimal_dir_subgraph; [|exact Hcm].
    exact (built_dir_lag0 vars ks nn i0 full true g1 Hnn Hz Hcols Hg1).
  - subst g. split; [|exact Hac1].
    exact (proj1 (from_adjacency_matrix_ts_shape full nn true g1 Hg1)).
Qed.

(** whatever the flags, the result is weakly well formed *)
Theorem from_adjacency_matrices_W d0 names cm v g :
  from_adjacency_matrices d0 names cm v = Ok g -> W g.
Proof.
  intros H.
  destruct (from_adjacency_matrices_stages d0 names cm v g H)
    as (vars & ks & nn & i0 & full & g1 & _ & _ & _ & Hg1 & Hcm).
  destruct cm; [exact (proj1 (minimal_dir_sound g1 g Hcm))|].
  subst g. exact (proj1 (from_adjacency_matrix_ts_shape full nn v g1 Hg1)).
Qed.

(** the validated call is the unvalidated one plus the acyclicity test on the graph built from
    the full matrix ([construct_minimal] is applied afterwards) *)
Lemma from_adjacency_matrices_unfold d0 names :
  from_adjacency_matrices d0 names false true
  = match from_adjacency_matrices d0 names false false with
    | Ok g => if acyclicb key_eqb (dir_digraph g) then Ok g else Err ECyclic
    | Err e => Err e
    end.
Proof.
  unfold from_adjacency_matrices.
  destruct (shapes (dict_of d0)) as [[|sh shs]|]; try reflexivity.
  destruct (negb (forallb (shape_eqb sh) shs)); [reflexivity|].
  destruct (match names with
            | Some l => if Nat.eqb (length l) (fst sh) then Ok l else Err EAssert
            | None => Ok (default_var_names (fst sh))
            end) as [vars|x]; [|reflexivity].
  destruct (node_names vars _) as [nn|]; [|reflexivity].
  destruct (zindex 0 _) as [i0|]; [|reflexivity].
  destruct (rfold _ _ _) as [full|x]; [|reflexivity].
  rewrite from_adjacency_matrix_ts_unfold.
  destruct (from_adjacency_matrix_ts full nn false) as [g1|x]; [|reflexivity].
  destruct (acyclicb key_eqb (dir_digraph g1)); reflexivity.
Qed.

Theorem from_adjacency_matrices_true_iff d0 names g :
  from_adjacency_matrices d0 names false true = Ok g <->
  from_adjacency_matrices d0 names false false = Ok g /\ acyclic (dir_digraph g).
Proof.
  rewrite from_adjacency_matrices_unfold. split.
  - destruct (from_adjacency_matrices d0 names false false) as [g1|x] eqn:E; [|discriminate].
    pose proof (from_adjacency_matrices_W d0 names false false g1 E) as HW.
    destruct (acyclicb key_eqb (dir_digraph g1)) eqn:Eac; [|discriminate].
    intros [= <-]. split; [reflexivity|]. apply (W_acyclicb g1 HW), Eac.
  - intros [E Hac]. rewrite E.
    pose proof (from_adjacency_matrices_W d0 names false false g E) as HW.
    apply (W_acyclicb g HW) in Hac. rewrite Hac. reflexivity.
Qed.

Theorem from_adjacency_matrices_cyclic_refused d0 names g :
  from_adjacency_matrices d0 names false false = Ok g -> ~ acyclic (dir_digraph g) ->
  from_adjacency_matrices d0 names false true = Err ECyclic.
Proof.
  intros E Hcyc. rewrite from_adjacency_matrices_unfold, E.
  pose proof (from_adjacency_matrices_W d0 names false false g E) as HW.
  destruct (acyclicb key_eqb (dir_digraph g)) eqn:Eac; [|reflexivity].
  exfalso. apply Hcyc, (W_acyclicb g HW), Eac.
Qed.

(** * is_dag() of a graph returned by the constructor *)

Lemma filter_all (A : Type) (p : A -> bool) l : (forall x, In x l -> p x = true) -> filter p l = l.
Proof.
  induction l as [|x l IH]; intros H; cbn [filter]; [reflexivity|].
  rewrite (H x (or_introl eq_refl)), IH; [reflexivity|]. intros y Hy. apply H. right; exact Hy.
Qed.

Theorem ts_is_dag_W g :
  W g -> (ts_is_dag g = true <->
          (forall e, In e (tedges g) -> ety e = Dir) /\ acyclic (dir_digraph g)).
Proof.
  intros HW. unfold ts_is_dag. rewrite andb_true_iff, forallb_forall.
  assert (Hall : (forall e, In e (tedges g) -> etype_eqb (ety e) Dir = true)
                 <-> (forall e, In e (tedges g) -> ety e = Dir)).
  { split; intros H e He; apply etype_eqb_eq, H, He. }
  rewrite Hall. split; intros [Hd Hac]; (split; [exact Hd|]).
  - apply (W_acyclicb g HW). unfold dir_digraph. rewrite filter_all; [exact Hac|].
    intros e He. apply etype_eqb_eq, Hd, He.
  - apply (W_acyclicb g HW) in Hac. unfold dir_digraph in Hac. rewrite filter_all in Hac;
      [exact Hac|]. intros e He. apply etype_eqb_eq, Hd, He.
Qed.

Theorem lag_is_dag_spec d0 names cm v g :
  from_adjacency_matrices d0 names cm v = Ok g ->
  (ts_is_dag g = true <->
   (forall e, In e (tedges g) -> ety e = Dir) /\ acyclic (dir_digraph g)).
Proof. intros H. exact (ts_is_dag_W g (from_adjacency_matrices_W d0 names cm v g H)). Qed.

Corollary lag_is_dag_validated d0 names cm g :
  from_adjacency_matrices d0 names cm true = Ok g ->
  (ts_is_dag g = true <-> forall e, In e (tedges g) -> ety e = Dir).
Proof.
  intros H. rewrite (lag_is_dag_spec d0 names cm true g H).
  split; [intros [Hd _]; exact Hd|]. intros Hd. split; [exact Hd|].
  exact (proj2 (from_adjacency_matrices_validated_acyclic d0 names cm g H)).
Qed.

(** * Non-vacuity, and behaviour pinned to the implementation
      (TimeSeriesCausalGraph.from_adjacency_matrices / get_minimal_graph of /repo) *)
Module LagExamples.
  Local Open Scope N_scope.
  Definition nX : name := [88].  Definition nY : name := [89].  Definition nZ : name := [90].
  (** "X lag(n=1)": a hostile VARIABLE name (the lag it carries is dropped) *)
  Definition X1 : name := [88; 32; 108; 97; 103; 40; 110; 61; 49; 41].

  (** X -> Y -> Z -> X *)
  Definition C : matrix :=
    [[false; true; false]; [false; false; true]; [true; false; false]].

  Definition show (r : res tsg) : res (list key * list (key * key * etype) * bool) :=
    match r with
    | Ok g => Ok (map nkey (sorted_nodes g),
                  map (fun e => (esrc e, edst e, ety e)) (sorted_edges g), ts_is_dag g)
    | Err e => Err e
    end.

  Definition cyc3 : res (list key * list (key * key * etype) * bool) :=
    Ok ([(nX, 0%Z); (nY, 0%Z); (nZ, 0%Z)],
        [((nX, 0%Z), (nY, 0%Z), Dir); ((nY, 0%Z), (nZ, 0%Z), Dir); ((nZ, 0%Z), (nX, 0%Z), Dir)],
        false).

  (** {0: C}: CyclicConnectionError with validation (construct_minimal True or False), the
      3-cycle without; the same with the hostile variable name and with autogenerated names *)
  Example ex_lag_cyc cm :
    from_adjacency_matrices [(0%Z, C)] (Some [nX; nY; nZ]) cm true = Err ECyclic
    /\ show (from_adjacency_matrices [(0%Z, C)] (Some [nX; nY; nZ]) cm false) = cyc3
    /\ from_adjacency_matrices [(0%Z, C)] (Some [X1; nY; nZ]) cm true = Err ECyclic
    /\ show (from_adjacency_matrices [(0%Z, C)] (Some [X1; nY; nZ]) cm false) = cyc3
    /\ from_adjacency_matrices [(0%Z, C)] None cm true = Err ECyclic.
  Proof. destruct cm; vm_compute; repeat split; reflexivity. Qed.

  (** {0: X -> Y, -1: Y -> X}: accepted; {-1: C}: accepted (the cycle is spread over time) *)
  Definition d2 : lagdict :=
    [(0%Z, [[false; true]; [false; false]]); ((-1)%Z, [[false; false]; [true; false]])].

  Example ex_lag_acy :
    show (from_adjacency_matrices d2 (Some [nX; nY]) true true)
    = Ok ([(nX, 0%Z); (nY, 0%Z); (nY, (-1)%Z)],
          [((nX, 0%Z), (nY, 0%Z), Dir); ((nY, (-1)%Z), (nX, 0%Z), Dir)], true)
    /\ show (from_adjacency_matrices d2 (Some [nX; nY]) false true)
       = Ok ([(nX, 0%Z); (nX, (-1)%Z); (nY, 0%Z); (nY, (-1)%Z)],
             [((nX, 0%Z), (nY, 0%Z), Dir); ((nY, (-1)%Z), (nX, 0%Z), Dir)], true)
    /\ show (from_adjacency_matrices [((-1)%Z, C)] (Some [nX; nY; nZ]) true true)
       = Ok ([(nX, 0%Z); (nX, (-1)%Z); (nY, 0%Z); (nY, (-1)%Z); (nZ, 0%Z); (nZ, (-1)%Z)],
             [((nX, (-1)%Z), (nY, 0%Z), Dir); ((nY, (-1)%Z), (nZ, 0%Z), Dir);
              ((nZ, (-1)%Z), (nX, 0%Z), Dir)], true).
  Proof. vm_compute. repeat split; reflexivity. Qed.

  (** the theorems applied *)
  Example ex_lag_acy_thm :
    exists g, from_adjacency_matrices d2 (Some [nX; nY]) true true = Ok g
              /\ acyclic (dir_digraph g) /\ ts_is_dag g = true.
  Proof.
    destruct (from_adjacency_matrices d2 (Some [nX; nY]) true true) as [g|e] eqn:E;
      [|vm_compute in E; discriminate].
    exists g. split; [reflexivity|].
    split; [exact (proj2 (from_adjacency_matrices_validated_acyclic _ _ _ g E))|].
    apply (lag_is_dag_validated _ _ _ g E).
    vm_compute in E. injection E as <-. intros e [<-|[<-|[]]]; reflexivity.
  Qed.

  Example ex_lag_refused_thm :
    from_adjacency_matrices [(0%Z, C)] (Some [nX; nY; nZ]) false true = Err ECyclic.
  Proof.
    destruct (from_adjacency_matrices [(0%Z, C)] (Some [nX; nY; nZ]) false false) as [g|e] eqn:E;
      [|vm_compute in E; discriminate].
    apply (from_adjacency_matrices_cyclic_refused _ _ g E).
    intros Hac. pose proof (from_adjacency_matrices_W _ _ _ _ g E) as HW.
    apply (W_acyclicb g HW) in Hac. vm_compute in E. injection E as <-.
    vm_compute in Hac. discriminate.
  Qed.

  (** Why the [construct_minimal = True] case needs an argument: in general the minimal graph
      of a graph WITHOUT directed cycle can have one.  X lag(n=1) -> Y lag(n=1), Y -> Z,
      Z lag(n=2) -> X lag(n=2) is a DAG (built with validated [add_edge] calls on the real
      class: is_dag() True) whose get_minimal_graph() is X -> Y -> Z -> X (is_dag() False). *)
  Definition g_spread : tsg :=
    Build_tsg
      [Build_tnode nX (-1) VUnspec []; Build_tnode nY (-1) VUnspec []; Build_tnode nY 0 VUnspec [];
       Build_tnode nZ 0 VUnspec []; Build_tnode nZ (-2) VUnspec []; Build_tnode nX (-2) VUnspec []]
      [Build_tedge nX (-1) nY (-1) Dir []; Build_tedge nY 0 nZ 0 Dir [];
       Build_tedge nZ (-2) nX (-2) Dir []] [].

  Example minimal_can_close_a_cycle :
    ts_is_dag g_spread = true /\ show (minimal g_spread) = cyc3.
  Proof. vm_compute. split; reflexivity. Qed.
End LagExamples.

(* Print Assumptions from_adjacency_matrix_ts_validated_acyclic. from_adjacency_matrix_ts_true_iff.
   from_adjacency_matrix_ts_cyclic_refused. from_adjacency_matrices_validated_acyclic.
   from_adjacency_matrices_true_iff. from_adjacency_matrices_cyclic_refused. lag_is_dag_spec.
   lag_is_dag_validated. minimal_dir_sound.  — all "Closed under the global context". *)
