(** BridgeProofs.v — the three executable models are tied to EACH OTHER (PROOFS ONLY).

    Part A  Graph -> Digraph : on every state satisfying [Inv] (hence on every reachable state,
            GraphInvProofs.inv_run) the directed part [dgraph g] is a well-formed [digraph name];
            after a validated history it is acyclic; the read views get_parents / get_children /
            get_neighbors / is_dag of the concrete state ARE the Digraph notions on [dgraph g].
            So the premises [wf] / [acyclic] of the query, d-separation, identification and
            Markov theorems are dischargeable on reachable states: one representative theorem of
            each family is instantiated.
    Part B  Graph (time-series class) -> TSGraph : [to_tsg] is total on reachable time-series
            states, its result is [TSGraphProofs.wf] when the node names are [spelled]
            (REFUTED without that hypothesis), the identifier TSGraph computes with [tident] is
            the real identifier, the sorted views agree, and [TSGraph.minimal] meets C14 there.
    Part D  Provenance of node identifiers ([run_within]): the hypothesis on the names of a
            STATE follows from a checkable hypothesis on the CALLS of the history
            ([canonical_run], [canonical_history_bridge]).
    Part C  Non-vacuity: a concrete history (3 variables, lags -2..0, 5 edges). *)
From Coq Require Import Relations.Relation_Operators.
From CG Require Import Base Dec Digraph DigraphProofs Graph GraphObs GraphInv GraphInvProofs
  GraphAcyclicProofs Names NamesProofs Queries QueriesProofs DSep DSepProofs Markov MarkovProofs
  Identify IdentifyProofs Bridge.
From CG Require TSGraph TSGraphProofs MinimalProofs ExtendProofs SummaryProofs StationaryProofs.
Set Implicit Arguments.

(** * Part A.  Graph -> Digraph *)

(** ** The per-node views as lists: [parents] / [children] of [dgraph g] are literally the
       by-source scans [dir_into] / [dir_from] (same elements, same order). *)

Lemma parents_of_edges (es : list edge) (n : name) :
  map fst (filter (fun a : name * name => name_eqb (snd a) n)
             (map edge_key (filter (fun e => etype_eqb (ety e) Dir) es)))
  = map esrc (filter (fun e => etype_eqb (ety e) Dir && name_eqb n (edst e)) es).
Proof.
  induction es as [|e es IH]; cbn [filter map]; [reflexivity|].
  destruct (etype_eqb (ety e) Dir); cbn [filter map andb]; [|exact IH].
  unfold edge_key at 1; cbn [snd]. rewrite (name_eqb_sym (edst e) n).
  destruct (name_eqb n (edst e)); cbn [map fst]; [f_equal|]; exact IH.
Qed.

Lemma children_of_edges (es : list edge) (n : name) :
  map snd (filter (fun a : name * name => name_eqb (fst a) n)
             (map edge_key (filter (fun e => etype_eqb (ety e) Dir) es)))
  = map edst (filter (fun e => etype_eqb (ety e) Dir && name_eqb n (esrc e)) es).
Proof.
  induction es as [|e es IH]; cbn [filter map]; [reflexivity|].
  destruct (etype_eqb (ety e) Dir); cbn [filter map andb]; [|exact IH].
  unfold edge_key at 1; cbn [fst]. rewrite (name_eqb_sym (esrc e) n).
  destruct (name_eqb n (esrc e)); cbn [map snd]; [f_equal|]; exact IH.
Qed.

Lemma parents_dgraph g n : parents name_eqb (dgraph g) n = dir_into g n.
Proof. unfold parents, dgraph, dir_into; cbn [arcs]. apply parents_of_edges. Qed.

Lemma children_dgraph g n : children name_eqb (dgraph g) n = dir_from g n.
Proof. unfold children, dgraph, dir_from; cbn [arcs]. apply children_of_edges. Qed.

(** An edge of any type stored between [n] and [x], in either orientation. *)
Definition incident (g : graph) (n x : name) : Prop :=
  exists e, In e (gsrc g) /\ ((esrc e = n /\ edst e = x) \/ (esrc e = x /\ edst e = n)).

Lemma in_mgraph g a b t :
  In (a, b, t) (mgraph g) <-> exists e, In e (gsrc g) /\ esrc e = a /\ edst e = b /\ ety e = t.
Proof.
  unfold mgraph. rewrite in_map_iff. split.
  - intros (e & E & He). injection E as E1 E2 E3. exists e. auto.
  - intros (e & He & E1 & E2 & E3). exists e. split; [congruence|exact He].
Qed.

Lemma incident_mg_adjacent g n x : incident g n x <-> mg_adjacent (mgraph g) n x.
Proof.
  unfold incident, mg_adjacent. split.
  - intros (e & He & [[E1 E2]|[E1 E2]]); exists (ety e); [left|right];
      apply in_mgraph; exists e; auto.
  - intros (t & [H|H]); apply in_mgraph in H; destruct H as (e & He & E1 & E2 & _);
      exists e; split; auto.
Qed.

Section GraphToDigraph.
  Variable parse : name -> option (name * Z).
  Variable fmt : name -> Z -> option name.

  Lemma inv_sinv k g : Inv parse k g -> SInv g.
  Proof. intros HI. exact (proj1 (proj1 (inv_split parse k g) HI)). Qed.

  (** ** Well-formedness and acyclicity of the directed part *)

  Theorem reachable_dgraph_wf k g : Inv parse k g -> wf (dgraph g).
  Proof. intros HI. apply dgraph_wf, (inv_sinv HI). Qed.

  (** ... in particular after ANY history from the empty graph *)
  Theorem reachable_wf k ops m : wf (dgraph (run parse fmt k ops (empty_graph m))).
  Proof. apply (reachable_dgraph_wf (k := k)), inv_run. Qed.

  Theorem reachable_validated_dag k ops m :
    forallb validated ops = true ->
    let g := run parse fmt k ops (empty_graph m) in
    wf (dgraph g) /\ acyclic (dgraph g).
  Proof.
    intros Hv g. split; [apply reachable_wf|].
    exact (acyclic_run parse fmt k ops m Hv).
  Qed.

  (** ** get_parents / get_children *)

  Theorem parents_bridge k g n :
    Inv parse k g -> In n (node_ids g) ->
    v_parents g n = Ok (sort_names (parents name_eqb (dgraph g) n)).
  Proof.
    intros HI Hn. rewrite parents_dgraph.
    destruct (views_agree parse k g n HI) as (_ & H & _). exact (proj1 (H Hn)).
  Qed.

  Theorem children_bridge k g n :
    Inv parse k g -> In n (node_ids g) ->
    v_children g n = Ok (sort_names (children name_eqb (dgraph g) n)).
  Proof.
    intros HI Hn. rewrite children_dgraph.
    destruct (views_agree parse k g n HI) as (_ & H & _). exact (proj2 (H Hn)).
  Qed.

  (** membership form: what get_parents returns is exactly the set of [p] with an arc [p -> n] *)
  Corollary parents_bridge_in k g n l :
    Inv parse k g -> v_parents g n = Ok l ->
    In n (node_ids g) /\ forall p, In p l <-> In p (parents name_eqb (dgraph g) n).
  Proof.
    intros HI Hv.
    assert (Hn : In n (node_ids g)).
    { apply node_exists_in. unfold node_exists, v_parents in *.
      destruct (get_node g n); [reflexivity|discriminate]. }
    split; [exact Hn|]. rewrite (parents_bridge n HI Hn) in Hv. injection Hv as <-.
    intros p. apply sort_names_in.
  Qed.

  Corollary parents_bridge_arc k g n l :
    Inv parse k g -> v_parents g n = Ok l -> forall p, In p l <-> arc (dgraph g) p n.
  Proof.
    intros HI Hv p. rewrite (proj2 (parents_bridge_in n HI Hv) p).
    apply (parents_in name_eqb name_eqb_spec).
  Qed.

  Corollary children_bridge_in k g n l :
    Inv parse k g -> v_children g n = Ok l ->
    In n (node_ids g) /\ forall c, In c l <-> In c (children name_eqb (dgraph g) n).
  Proof.
    intros HI Hv.
    assert (Hn : In n (node_ids g)).
    { apply node_exists_in. unfold node_exists, v_children in *.
      destruct (get_node g n); [reflexivity|discriminate]. }
    split; [exact Hn|]. rewrite (children_bridge n HI Hn) in Hv. injection Hv as <-.
    intros c. apply sort_names_in.
  Qed.

  Corollary children_bridge_arc k g n l :
    Inv parse k g -> v_children g n = Ok l -> forall c, In c l <-> arc (dgraph g) n c.
  Proof.
    intros HI Hv c. rewrite (proj2 (children_bridge_in n HI Hv) c).
    apply (children_in name_eqb name_eqb_spec).
  Qed.

  (** the views raise exactly for the names that are not vertices of [dgraph g] *)
  Theorem parents_children_err g n :
    ~ In n (verts (dgraph g)) -> v_parents g n = Err EAssert /\ v_children g n = Err EAssert.
  Proof.
    cbn [dgraph verts]. intros Hn. apply node_exists_false in Hn.
    unfold node_exists, v_parents, v_children in *.
    destruct (get_node g n); [discriminate|split; reflexivity].
  Qed.

  (** ** get_neighbors (every edge type counts) *)

  Theorem neighbors_bridge k g n :
    Inv parse k g -> In n (node_ids g) ->
    exists l, v_neighbors g n = Ok l /\ forall x, In x l <-> incident g n x.
  Proof.
    intros HI Hn. unfold v_neighbors. apply node_exists_in in Hn. rewrite Hn.
    eexists. split; [reflexivity|]. intros x.
    rewrite sort_names_in, dedup_in, filter_In, in_app_iff, !in_map_iff.
    unfold v_edges_from, v_edges_into, edges_from, edges_into, incident. split.
    - intros [[(e & E & He)|(e & E & He)] _]; apply isort_in, filter_In in He;
        destruct He as [He Hk]; apply name_eqb_eq in Hk.
      + exists e. split; [exact He|left; auto].
      + exists e. split; [|right; auto].
        apply (Permutation_in e (inv_mirror HI)), He.
    - intros (e & He & Hc). split.
      + destruct Hc as [[E1 E2]|[E1 E2]]; [left|right]; exists e; (split; [assumption|]);
          apply isort_in, filter_In.
        * split; [exact He|]. apply name_eqb_eq. auto.
        * split; [|apply name_eqb_eq; auto].
          apply (Permutation_in e (Permutation_sym (inv_mirror HI))), He.
      + apply negb_true_iff, name_eqb_neq. pose proof (inv_noloop HI e He) as Hl.
        destruct Hc as [[E1 E2]|[E1 E2]]; congruence.
  Qed.

  (** ... it is the skeleton Markov boundary (Markov.mg_neighbors) of the mixed graph *)
  Corollary neighbors_bridge_mg k g n :
    Inv parse k g -> In n (node_ids g) ->
    exists l, v_neighbors g n = Ok l
              /\ forall x, In x l <-> In x (skeleton_markov_boundary name_eqb (mgraph g) n).
  Proof.
    intros HI Hn. destruct (neighbors_bridge n HI Hn) as (l & E & H). exists l. split; [exact E|].
    intros x. rewrite (H x), (skeleton_mb_spec name_eqb name_eqb_spec), <- incident_mg_adjacent.
    split; [|intros [_ Hi]; exact Hi]. intros Hi. split; [|exact Hi].
    destruct Hi as (e & He & Hc). pose proof (inv_noloop HI e He) as Hl.
    destruct Hc as [[E1 E2]|[E1 E2]]; congruence.
  Qed.

  (** ... and, on a fully directed graph, adjacency in [dgraph g] (DSep.adj) *)
  Corollary neighbors_bridge_directed k g n :
    Inv parse k g -> In n (node_ids g) -> (forall e, In e (gsrc g) -> ety e = Dir) ->
    exists l, v_neighbors g n = Ok l /\ forall x, In x l <-> adj (dgraph g) n x.
  Proof.
    intros HI Hn Hd. destruct (neighbors_bridge n HI Hn) as (l & E & H). exists l. split; [exact E|].
    intros x. rewrite (H x). unfold adj, incident. rewrite !arc_dgraph. split.
    - intros (e & He & [[E1 E2]|[E1 E2]]); [left|right]; exists e; auto.
    - intros [(e & He & _ & E1 & E2)|(e & He & _ & E1 & E2)]; exists e; auto.
  Qed.

  (** ** is_dag *)

  Theorem is_dag_model_bridge k g :
    Inv parse k g ->
    (is_dag_model g = true <-> (forall e, In e (gsrc g) -> ety e = Dir) /\ acyclic (dgraph g)).
  Proof. intros HI. exact (is_dag_spec parse k g HI). Qed.

  (** a validated history that only ever stored directed edges is a DAG for [is_dag()] *)
  Corollary reachable_is_dag k ops m :
    forallb validated ops = true ->
    let g := run parse fmt k ops (empty_graph m) in
    (forall e, In e (gsrc g) -> ety e = Dir) -> is_dag_model g = true.
  Proof.
    intros Hv g Hd. apply (is_dag_model_bridge (k := k)); [apply inv_run|].
    split; [exact Hd|exact (acyclic_run parse fmt k ops m Hv)].
  Qed.

  (** ** The mixed graph satisfies the premise [mg_wf] of the collider theorems *)

  Theorem reachable_mgraph_wf k g : Inv parse k g -> mg_wf (mgraph g).
  Proof.
    intros HI. split.
    - intros a b t H. apply in_mgraph in H. destruct H as (e & He & <- & <- & _).
      exact (inv_noloop HI e He).
    - intros a b t a' b' t' H H'. apply in_mgraph in H, H'.
      destruct H as (e & He & E1 & E2 & E3), H' as (e' & He' & E1' & E2' & E3').
      intros [[Ea Eb]|[Ea Eb]].
      + assert (e = e').
        { apply (nodup_map_inj edge_key (gsrc g)); try assumption.
          - exact (inv_nodup_keys HI).
          - unfold edge_key. congruence. }
        subst e'. congruence.
      + exfalso. apply (inv_noreverse HI e He).
        unfold edge_keys. apply in_map_iff. exists e'. split; [|exact He'].
        unfold edge_key. congruence.
  Qed.

  (** * One representative theorem of each downstream family, on reachable states *)

  (** Queries: get_descendants / get_ancestors are the strict descendants / ancestors *)
  Theorem reachable_descendants_correct k ops m x y :
    let g := run parse fmt k ops (empty_graph m) in
    (In y (get_descendants name_eqb (dgraph g) x) <-> path (dgraph g) x y)
    /\ (In y (get_ancestors name_eqb (dgraph g) x) <-> path (dgraph g) y x).
  Proof.
    intros g. split.
    - apply (get_descendants_spec name_eqb name_eqb_spec), reachable_wf.
    - apply (get_ancestors_spec name_eqb name_eqb_spec), reachable_wf.
  Qed.

  (** Queries on a validated history: get_nodes_between never runs out of fuel and returns
      exactly the vertices on a directed path from [a] to [b] *)
  Theorem reachable_nodes_between_correct k ops m a b :
    forallb validated ops = true ->
    let g := dgraph (run parse fmt k ops (empty_graph m)) in
    exists S, nodes_between name_eqb (length (verts g) + 1) g a b = Some S /\
      (forall v, In v S <-> ((v = a \/ path g a v) /\ (v = b \/ path g v b))) /\
      (~ (a = b \/ path g a b) -> S = []) /\ NoDup S.
  Proof.
    intros Hv g. destruct (reachable_validated_dag k ops m Hv) as [Hwf Hac].
    apply (nodes_between_correct_fuel name_eqb name_eqb_spec); [exact Hwf|exact Hac|lia].
  Qed.

  (** d-separation: the executable checker decides the textbook definition *)
  Theorem reachable_dsepb_correct k ops m X Y Z :
    let g := dgraph (run parse fmt k ops (empty_graph m)) in
    dsepb name_eqb g X Y Z = true <-> dsep g X Y Z.
  Proof. intros g. apply (dsepb_correct name_eqb name_eqb_spec), reachable_wf. Qed.

  (** Markov boundary: on a validated history it shields its node from every other node, and
      the executable d-separation checker confirms it *)
  Theorem reachable_markov_boundary_shields k ops m a w :
    forallb validated ops = true ->
    let g := dgraph (run parse fmt k ops (empty_graph m)) in
    w <> a -> ~ In w (markov_boundary name_eqb g a) ->
    dsep g [a] [w] (markov_boundary name_eqb g a)
    /\ dsepb name_eqb g [a] [w] (markov_boundary name_eqb g a) = true.
  Proof.
    intros Hv g Hwa Hw. destruct (reachable_validated_dag k ops m Hv) as [Hwf Hac].
    assert (H : dsep g [a] [w] (markov_boundary name_eqb g a))
      by (apply (mb_shields name_eqb name_eqb_spec); assumption).
    split; [exact H|]. apply (dsepb_correct name_eqb name_eqb_spec); assumption.
  Qed.

  (** Identification: identify_confounders terminates on a validated history and only returns
      strict common ancestors *)
  Theorem reachable_confounders_common_ancestors k ops m x y :
    forallb validated ops = true ->
    let g := dgraph (run parse fmt k ops (empty_graph m)) in
    exists Z, confounders name_eqb g x y = Some Z
              /\ forall z, In z Z -> path g z x /\ path g z y.
  Proof.
    intros Hv g. destruct (reachable_validated_dag k ops m Hv) as [Hwf Hac].
    destruct (confounders_some name_eqb name_eqb_spec x y Hwf Hac) as (Z & E).
    exists Z. split; [exact E|].
    exact (conf_common_ancestors name_eqb name_eqb_spec x y Hwf E).
  Qed.

  (** Colliders: identify_colliders on the mixed graph of ANY reachable state *)
  Theorem reachable_colliders_spec k ops m n :
    let g := run parse fmt k ops (empty_graph m) in
    In n (colliders name_eqb (mgraph g) (v_node_names g)) <->
    In n (node_ids g)
    /\ exists m1 m2, m1 <> m2 /\ arrow_into (mgraph g) m1 n /\ arrow_into (mgraph g) m2 n.
  Proof.
    intros g.
    assert (Hm : mg_wf (mgraph g)) by (apply (reachable_mgraph_wf (k := k)), inv_run).
    rewrite (colliders_spec name_eqb name_eqb_spec (v_node_names g) n Hm).
    unfold v_node_names, nodes_sorted, node_ids.
    rewrite !in_map_iff.
    split; intros [(x & E & Hx) H]; (split; [|exact H]); exists x; (split; [exact E|]).
    - apply isort_in in Hx; exact Hx.
    - apply isort_in; exact Hx.
  Qed.
End GraphToDigraph.

(** * Part B.  Graph (time-series class) -> TSGraph *)

Local Notation kident := TSGraph.kident.
Local Notation nkey := TSGraph.nkey.
Local Notation tnodes := TSGraph.tnodes.
Local Notation tedges := TSGraph.tedges.
Local Notation twf := TSGraphProofs.wf.

(** ** List helpers *)

Lemma all_some_Forall2 (A B : Type) (f : A -> option B) (l : list A) : forall r,
  all_some (map f l) = Some r <-> Forall2 (fun x y => f x = Some y) l r.
Proof.
  induction l as [|x l IH]; intros r; cbn [map all_some].
  - split; [intros [= <-]; constructor|intros H; inversion H; reflexivity].
  - destruct (f x) as [y|] eqn:E.
    + destruct (all_some (map f l)) as [r'|] eqn:E'.
      * split.
        -- intros [= <-]. constructor; [exact E|apply IH; reflexivity].
        -- intros H. inversion H as [|x0 y0 l0 r0 Hy Hr]; subst.
           rewrite E in Hy. injection Hy as <-. apply IH in Hr. injection Hr as <-. reflexivity.
      * split; [discriminate|]. intros H. inversion H as [|x0 y0 l0 r0 Hy Hr]; subst.
        apply IH in Hr. discriminate.
    + split; [discriminate|]. intros H. inversion H as [|x0 y0 l0 r0 Hy Hr]; subst. congruence.
Qed.

Lemma all_some_total (A B : Type) (f : A -> option B) (l : list A) :
  (forall x, In x l -> exists y, f x = Some y) -> exists r, all_some (map f l) = Some r.
Proof.
  induction l as [|x l IH]; intros H; cbn [map all_some]; [eauto|].
  destruct (H x (or_introl eq_refl)) as (y & ->).
  destruct IH as (r & ->); [intros z Hz; apply H; right; exact Hz|]. eauto.
Qed.

Lemma Forall2_map_eq (A B C : Type) (R : A -> B -> Prop) (f : A -> C) (h : B -> C) l l' :
  Forall2 R l l' -> (forall x y, In x l -> In y l' -> R x y -> h y = f x) -> map h l' = map f l.
Proof.
  induction 1 as [|a b l l' Hab HF IH]; intros H; cbn [map]; [reflexivity|]. f_equal.
  - apply H; [left; reflexivity|left; reflexivity|exact Hab].
  - apply IH. intros x y Hx Hy. apply H; right; assumption.
Qed.

(** insertion sort by a key commutes with taking the key *)
Lemma insert_map (A B : Type) (f : A -> B) (leb : B -> B -> bool) x l :
  map f (insert (fun a b => leb (f a) (f b)) x l) = insert leb (f x) (map f l).
Proof.
  induction l as [|y l IH]; cbn [insert map]; [reflexivity|].
  destruct (leb (f x) (f y)); cbn [map]; [reflexivity|]. f_equal. exact IH.
Qed.

Lemma isort_map (A B : Type) (f : A -> B) (leb : B -> B -> bool) l :
  map f (isort (fun a b => leb (f a) (f b)) l) = isort leb (map f l).
Proof.
  induction l as [|x l IH]; cbn [isort map]; [reflexivity|].
  rewrite insert_map, IH. reflexivity.
Qed.

(** ** Shape of [to_tsg] *)

Lemma to_tnode_some n tn :
  to_tnode n = Some tn ->
  tag_key n = Some (nkey tn) /\ TSGraph.tvt tn = nvt n /\ TSGraph.tm tn = user_meta (nmeta n).
Proof.
  unfold to_tnode. destruct (tag_key n) as [[v l]|]; [|discriminate].
  intros [= <-]. repeat split; reflexivity.
Qed.

Lemma to_tedge_some g e te :
  to_tedge g e = Some te ->
  key_of g (esrc e) = Some (TSGraph.esrc te) /\ key_of g (edst e) = Some (TSGraph.edst te)
  /\ TSGraph.ety te = ety e /\ TSGraph.em te = emeta e.
Proof.
  unfold to_tedge. destruct (key_of g (esrc e)) as [[sv sl]|]; [|discriminate].
  destruct (key_of g (edst e)) as [[dv dl]|]; [|discriminate].
  intros [= <-]. repeat split; reflexivity.
Qed.

Lemma to_tsg_inv g t :
  to_tsg g = Some t ->
  Forall2 (fun n tn => to_tnode n = Some tn) (gnodes g) (tnodes t)
  /\ Forall2 (fun e te => to_tedge g e = Some te) (gsrc g) (tedges t)
  /\ TSGraph.tgmeta t = gmeta g.
Proof.
  unfold to_tsg.
  destruct (all_some (map to_tnode (gnodes g))) as [ns|] eqn:En; [|discriminate].
  destruct (all_some (map (to_tedge g) (gsrc g))) as [es|] eqn:Ee; [|discriminate].
  intros [= <-]. cbn [TSGraph.tnodes TSGraph.tedges TSGraph.tgmeta].
  split; [apply all_some_Forall2, En|]. split; [apply all_some_Forall2, Ee|reflexivity].
Qed.

Lemma key_of_lag g id v l : key_of g id = Some (v, l) -> node_lag g id = Some l.
Proof.
  unfold key_of, node_lag, tag_key. destruct (get_node g id) as [n|]; [|discriminate].
  destruct (meta_var (nmeta n)); [|discriminate].
  destruct (meta_lag (nmeta n)); [|discriminate]. intros [= _ ->]. reflexivity.
Qed.

(** ** Totality, for any codec: on a reachable time-series state no tag is missing *)

Section Total.
  Variable parse : name -> option (name * Z).
  Variable fmt : name -> Z -> option name.

  (** the tags of a node are the parse of its identifier *)
  Lemma tag_key_parse g n :
    Inv parse TS g -> In n (gnodes g) ->
    tag_key n = parse (nid n) /\ exists key, parse (nid n) = Some key.
  Proof.
    intros HI Hn. destruct (ts_nodeok (inv_ts HI eq_refl) n Hn) as (v & l & Hp & Hv & Hl).
    unfold tag_key. rewrite Hv, Hl, Hp. split; [reflexivity|eauto].
  Qed.

  Lemma key_of_parse g id :
    Inv parse TS g -> In id (node_ids g) ->
    key_of g id = parse id /\ exists key, parse id = Some key.
  Proof.
    intros HI Hid. destruct (find_node_in _ _ Hid) as (n & Hn).
    unfold key_of, get_node. rewrite Hn. apply find_node_some in Hn. destruct Hn as [Hin <-].
    exact (tag_key_parse n HI Hin).
  Qed.

  Theorem to_tsg_total g : Inv parse TS g -> exists t, to_tsg g = Some t.
  Proof.
    intros HI. unfold to_tsg.
    destruct (all_some_total to_tnode (gnodes g)) as (ns & ->).
    { intros n Hn. destruct (tag_key_parse n HI Hn) as (E & ([v l] & Hk)).
      unfold to_tnode. rewrite E, Hk. eauto. }
    destruct (all_some_total (to_tedge g) (gsrc g)) as (es & ->).
    { intros e He. destruct (inv_endpoints HI e He) as [Hs Hd].
      destruct (key_of_parse _ HI Hs) as (Es & ([sv sl] & Hks)).
      destruct (key_of_parse _ HI Hd) as (Ed & ([dv dl] & Hkd)).
      unfold to_tedge. rewrite Es, Hks, Ed, Hkd. eauto. }
    eauto.
  Qed.

  (** every state reachable from the empty time-series graph has a TSGraph image *)
  Corollary reachable_to_tsg_total ops m :
    exists t, to_tsg (run parse fmt TS ops (empty_graph m)) = Some t.
  Proof. apply to_tsg_total, inv_run. Qed.
End Total.

(** ** Spelled and canonical names (codec of Names.v from here on) *)

Lemma spelled_kident id key : spelled id = true -> parse id = Some key -> kident key = id.
Proof.
  unfold spelled. intros H E. rewrite E in H. destruct key as [v k].
  apply name_eqb_eq in H. unfold TSGraph.kident. cbn [fst snd]. symmetry. exact H.
Qed.

(** conversely, [kident key = id] for the key [id] parses to MEANS spelled *)
Lemma kident_spelled id key : parse id = Some key -> kident key = id -> spelled id = true.
Proof.
  unfold spelled. intros E H. rewrite E. destruct key as [v k].
  unfold TSGraph.kident in H. cbn [fst snd] in H. apply name_eqb_eq. symmetry. exact H.
Qed.

Lemma canonical_spelled id : canonical id = true -> spelled id = true.
Proof.
  unfold canonical, spelled, render. destruct (parse id) as [[v k]|]; [|discriminate].
  intros H. apply andb_true_iff in H. exact (proj2 H).
Qed.

(** names produced by get_name_with_lag from a good variable name are canonical, hence spelled *)
Lemma spelled_tident v k : good v = true -> spelled (tident v k) = true.
Proof. intros Hg. apply canonical_spelled, canonical_tident, Hg. Qed.

Lemma spelled_fmt v k id : good v = true -> fmt v k = Some id -> spelled id = true.
Proof. intros Hg E. rewrite (fmt_good v k Hg) in E. injection E as <-. apply spelled_tident, Hg. Qed.

Lemma canonical_names_spelled g : canonical_names g -> spelled_names g.
Proof. intros H n Hn. apply canonical_spelled, H, Hn. Qed.

Lemma spelled_names_b_spec g : spelled_names_b g = true <-> spelled_names g.
Proof. unfold spelled_names_b, spelled_names. apply forallb_forall. Qed.

Lemma canonical_names_b_spec g : canonical_names_b g = true <-> canonical_names g.
Proof. unfold canonical_names_b, canonical_names. apply forallb_forall. Qed.

Lemma spelled_node_id g id : spelled_names g -> In id (node_ids g) -> spelled id = true.
Proof. intros HS Hid. apply in_map_iff in Hid. destruct Hid as (n & <- & Hn). exact (HS n Hn). Qed.

(** ** The image is keyed by the PARSE of the identifiers (no hypothesis on the names) *)

Theorem to_tsg_parse g t :
  Inv parse TS g -> to_tsg g = Some t ->
  Forall2 (fun n tn => parse (nid n) = Some (nkey tn) /\ TSGraph.tvt tn = nvt n
                       /\ TSGraph.tm tn = user_meta (nmeta n)) (gnodes g) (tnodes t)
  /\ Forall2 (fun e te => parse (esrc e) = Some (TSGraph.esrc te)
                          /\ parse (edst e) = Some (TSGraph.edst te)
                          /\ TSGraph.ety te = ety e /\ TSGraph.em te = emeta e
                          /\ node_lag g (esrc e) = Some (TSGraph.esl te)
                          /\ node_lag g (edst e) = Some (TSGraph.edl te))
       (gsrc g) (tedges t)
  /\ TSGraph.tgmeta t = gmeta g.
Proof.
  intros HI Ht. destruct (to_tsg_inv g Ht) as (Fn & Fe & Hm).
  split; [|split; [|exact Hm]].
  - eapply Forall2_impl_in; [|exact Fn]. cbv beta. intros n tn Hn _ E.
    destruct (to_tnode_some n E) as (Hk & Hvt & Hum).
    destruct (tag_key_parse n HI Hn) as (Ep & _). rewrite Ep in Hk. auto.
  - eapply Forall2_impl_in; [|exact Fe]. cbv beta. intros e te He _ E.
    destruct (to_tedge_some g e E) as (Hs & Hd & Hty & Hem).
    pose proof (key_of_lag g (esrc e) Hs) as Ls. pose proof (key_of_lag g (edst e) Hd) as Ld.
    destruct (inv_endpoints HI e He) as [Is Id].
    destruct (key_of_parse _ HI Is) as (Es & _). destruct (key_of_parse _ HI Id) as (Ed & _).
    rewrite Es in Hs. rewrite Ed in Hd. repeat split; assumption.
Qed.

Lemma node_image g t n :
  Inv parse TS g -> to_tsg g = Some t -> In n (gnodes g) ->
  exists tn, In tn (tnodes t) /\ parse (nid n) = Some (nkey tn).
Proof.
  intros HI Ht Hn. destruct (to_tsg_parse HI Ht) as (Fn & _).
  destruct (Forall2_in_l _ _ _ _ Fn Hn) as (tn & Htn & Hp & _). eauto.
Qed.

Lemma node_preimage g t tn :
  Inv parse TS g -> to_tsg g = Some t -> In tn (tnodes t) ->
  exists n, In n (gnodes g) /\ parse (nid n) = Some (nkey tn).
Proof.
  intros HI Ht Hn. destruct (to_tsg_parse HI Ht) as (Fn & _).
  destruct (Forall2_in_r _ _ _ _ Fn Hn) as (n & Hin & Hp & _). eauto.
Qed.

Lemma edge_preimage g t te :
  Inv parse TS g -> to_tsg g = Some t -> In te (tedges t) ->
  exists e, In e (gsrc g)
            /\ parse (esrc e) = Some (TSGraph.esrc te) /\ parse (edst e) = Some (TSGraph.edst te)
            /\ TSGraph.ety te = ety e
            /\ node_lag g (esrc e) = Some (TSGraph.esl te)
            /\ node_lag g (edst e) = Some (TSGraph.edl te).
Proof.
  intros HI Ht Hte. destruct (to_tsg_parse HI Ht) as (_ & Fe & _).
  destruct (Forall2_in_r _ _ _ _ Fe Hte) as (e & He & Hs & Hd & Hty & _ & Ls & Ld).
  exists e. repeat split; assumption.
Qed.

(** ** With spelled names the identifier TSGraph computes ([kident] = [tident] of the key) is the
       real identifier, for nodes and for the endpoints of edges *)

Theorem to_tsg_ident g t :
  Inv parse TS g -> spelled_names g -> to_tsg g = Some t ->
  Forall2 (fun n tn => kident (nkey tn) = nid n) (gnodes g) (tnodes t)
  /\ Forall2 (fun e te => TSGraph.edge_ids te = edge_key e) (gsrc g) (tedges t).
Proof.
  intros HI HS Ht. destruct (to_tsg_parse HI Ht) as (Fn & Fe & _). split.
  - eapply Forall2_impl_in; [|exact Fn]. cbv beta. intros n tn Hn _ (Hp & _).
    eapply spelled_kident; [apply HS, Hn|exact Hp].
  - eapply Forall2_impl_in; [|exact Fe]. cbv beta. intros e te He _ (Hs & Hd & _).
    destruct (inv_endpoints HI e He) as [Is Id].
    unfold TSGraph.edge_ids, edge_key. f_equal.
    + eapply spelled_kident; [eapply spelled_node_id; [exact HS|exact Is]|exact Hs].
    + eapply spelled_kident; [eapply spelled_node_id; [exact HS|exact Id]|exact Hd].
Qed.

Corollary to_tsg_node_ids g t :
  Inv parse TS g -> spelled_names g -> to_tsg g = Some t ->
  map kident (map nkey (tnodes t)) = node_ids g.
Proof.
  intros HI HS Ht. destruct (to_tsg_ident HI HS Ht) as (Fn & _).
  rewrite map_map. unfold node_ids.
  eapply Forall2_map_eq; [exact Fn|]. cbv beta. intros n tn _ _ E. exact E.
Qed.

Corollary to_tsg_edge_ids g t :
  Inv parse TS g -> spelled_names g -> to_tsg g = Some t ->
  map TSGraph.edge_ids (tedges t) = edge_keys g.
Proof.
  intros HI HS Ht. destruct (to_tsg_ident HI HS Ht) as (_ & Fe).
  unfold edge_keys. eapply Forall2_map_eq; [exact Fe|]. cbv beta. intros e te _ _ E. exact E.
Qed.

(** the hypothesis is exactly what is needed: the computed identifiers are the real ones ONLY
    when every node name is spelled *)
Lemma Forall2_with_map_eq (A B C : Type) (R : A -> B -> Prop) (f : A -> C) (h : B -> C) l l' :
  Forall2 R l l' -> map h l' = map f l -> Forall2 (fun x y => R x y /\ h y = f x) l l'.
Proof.
  induction 1 as [|a b l l' Hab HF IH]; cbn [map]; intros E; constructor.
  - split; [exact Hab|]. injection E as E1 _. exact E1.
  - apply IH. injection E as _ E2. exact E2.
Qed.

Theorem to_tsg_ident_iff g t :
  Inv parse TS g -> to_tsg g = Some t ->
  (spelled_names g <-> map kident (map nkey (tnodes t)) = node_ids g).
Proof.
  intros HI Ht. split; [intros HS; exact (to_tsg_node_ids HI HS Ht)|].
  intros E n Hn. destruct (to_tsg_parse HI Ht) as (Fn & _).
  rewrite map_map in E. unfold node_ids in E.
  pose proof (@Forall2_with_map_eq _ _ _ _ nid (fun tn => kident (nkey tn)) _ _ Fn E) as F.
  destruct (Forall2_in_l _ _ _ _ F Hn) as (tn & _ & (Hp & _) & Hk).
  eapply kident_spelled; [exact Hp|exact Hk].
Qed.

(** ** Well-formedness of the image *)

Theorem to_tsg_wf g t :
  Inv parse TS g -> spelled_names g -> to_tsg g = Some t -> twf t.
Proof.
  intros HI HS Ht.
  assert (Hid : forall e te, In e (gsrc g) ->
            parse (esrc e) = Some (TSGraph.esrc te) -> parse (edst e) = Some (TSGraph.edst te) ->
            kident (TSGraph.esrc te) = esrc e /\ kident (TSGraph.edst te) = edst e).
  { intros e te He Hs Hd. destruct (inv_endpoints HI e He) as [Is Id]. split.
    - eapply spelled_kident; [eapply spelled_node_id; [exact HS|exact Is]|exact Hs].
    - eapply spelled_kident; [eapply spelled_node_id; [exact HS|exact Id]|exact Hd]. }
  constructor.
  - (* node keys are unique: distinct identifiers have distinct keys *)
    apply (TSGraphProofs.NoDup_of_map _ _ kident).
    rewrite (to_tsg_node_ids HI HS Ht). exact (inv_nodup_nodes HI).
  - (* edge keys are unique *)
    apply (TSGraphProofs.NoDup_of_map _ _ (fun p : TSGraph.key * TSGraph.key =>
                                            (kident (fst p), kident (snd p)))).
    rewrite map_map.
    assert (E : map (fun te => (kident (fst (TSGraph.ekey te)), kident (snd (TSGraph.ekey te))))
                  (tedges t) = edge_keys g) by exact (to_tsg_edge_ids HI HS Ht).
    rewrite E. exact (inv_nodup_keys HI).
  - (* no reversed pair *)
    intros te1 te2 H1 H2 E1 E2.
    destruct (edge_preimage _ HI Ht H1) as (e1 & He1 & S1 & D1 & _).
    destruct (edge_preimage _ HI Ht H2) as (e2 & He2 & S2 & D2 & _).
    destruct (Hid e1 te1 He1 S1 D1) as [Ks1 Kd1]. destruct (Hid e2 te2 He2 S2 D2) as [Ks2 Kd2].
    apply (inv_noreverse HI e2 He2). unfold edge_keys. apply in_map_iff.
    exists e1. split; [|exact He1]. unfold edge_key. f_equal; congruence.
  - (* endpoints are nodes *)
    intros te Hte. destruct (edge_preimage _ HI Ht Hte) as (e & He & S & D & _).
    destruct (inv_endpoints HI e He) as [Is Id].
    apply in_map_iff in Is. destruct Is as (ns & Ens & Hns).
    apply in_map_iff in Id. destruct Id as (nd & End & Hnd).
    destruct (node_image _ HI Ht Hns) as (tns & Htns & Hps).
    destruct (node_image _ HI Ht Hnd) as (tnd & Htnd & Hpd).
    rewrite Ens, S in Hps. rewrite End, D in Hpd.
    assert (Ks : nkey tns = TSGraph.esrc te) by congruence.
    assert (Kd : nkey tnd = TSGraph.edst te) by congruence.
    split; apply in_map_iff; [exists tns|exists tnd]; split; assumption.
  - (* no edge backwards in time *)
    intros te Hte. destruct (edge_preimage _ HI Ht Hte) as (e & He & _ & _ & _ & Ls & Ld).
    destruct (ts_time (inv_ts HI eq_refl) e He) as (ls & ld & L1 & L2 & Hle).
    rewrite Ls in L1. rewrite Ld in L2. injection L1 as <-. injection L2 as <-. exact Hle.
Qed.

Corollary to_tsg_wf_canonical g t :
  Inv parse TS g -> canonical_names g -> to_tsg g = Some t -> twf t.
Proof. intros HI HC. apply to_tsg_wf; [exact HI|apply canonical_names_spelled, HC]. Qed.

(** the parts of [wf] that hold whatever the names are *)
Theorem to_tsg_wf_partial g t :
  Inv parse TS g -> to_tsg g = Some t ->
  (forall te, In te (tedges t) ->
     In (TSGraph.esrc te) (map nkey (tnodes t)) /\ In (TSGraph.edst te) (map nkey (tnodes t)))
  /\ (forall te, In te (tedges t) -> (TSGraph.esl te <= TSGraph.edl te)%Z).
Proof.
  intros HI Ht. split.
  - intros te Hte. destruct (edge_preimage _ HI Ht Hte) as (e & He & S & D & _).
    destruct (inv_endpoints HI e He) as [Is Id].
    apply in_map_iff in Is. destruct Is as (ns & Ens & Hns).
    apply in_map_iff in Id. destruct Id as (nd & End & Hnd).
    destruct (node_image _ HI Ht Hns) as (tns & Htns & Hps).
    destruct (node_image _ HI Ht Hnd) as (tnd & Htnd & Hpd).
    rewrite Ens, S in Hps. rewrite End, D in Hpd.
    assert (Ks : nkey tns = TSGraph.esrc te) by congruence.
    assert (Kd : nkey tnd = TSGraph.edst te) by congruence.
    split; apply in_map_iff; [exists tns|exists tnd]; split; assumption.
  - intros te Hte. destruct (edge_preimage _ HI Ht Hte) as (e & He & _ & _ & _ & Ls & Ld).
    destruct (ts_time (inv_ts HI eq_refl) e He) as (ls & ld & L1 & L2 & Hle).
    rewrite Ls in L1. rewrite Ld in L2. injection L1 as <-. injection L2 as <-. exact Hle.
Qed.

(** WITHOUT the hypothesis on the names the image need not be well formed: 'X lag(n=1)' and
    'X lag(n=1)\n' are two distinct node identifiers that the codec gives the same
    (variable_name, time_lag) = ('X', -1), so the key (X, -1) occurs twice.  The Python class
    accepts both nodes (checked on the real code: both report variable_name 'X', time_lag -1). *)
Definition nm_X_lag1 : name := [88; 32; 108; 97; 103; 40; 110; 61; 49; 41]%N.       (* "X lag(n=1)"   *)
Definition nm_X_lag1_nl : name := [88; 32; 108; 97; 103; 40; 110; 61; 49; 41; 10]%N. (* "X lag(n=1)\n" *)
Definition unspelled_ops : list op :=
  [OAddNode nm_X_lag1 VUnspec None; OAddNode nm_X_lag1_nl VUnspec None].

Definition to_tsg_wf_any_names_statement : Prop :=
  forall g t, Inv parse TS g -> to_tsg g = Some t -> twf t.

Theorem to_tsg_wf_any_names_refuted :
  exists g t, Inv parse TS g /\ to_tsg g = Some t /\ ~ twf t.
Proof.
  exists (run parse fmt TS unspelled_ops (empty_graph [])). eexists.
  split; [apply inv_run|]. split; [vm_compute; reflexivity|].
  intros W. apply TSGraphProofs.wf_b_spec in W. vm_compute in W. discriminate.
Qed.

Corollary to_tsg_wf_any_names_false : ~ to_tsg_wf_any_names_statement.
Proof.
  intros H. destruct to_tsg_wf_any_names_refuted as (g & t & HI & Ht & Hn). exact (Hn (H g t HI Ht)).
Qed.

(** ** The sorted views agree: get_nodes() / get_edges() order *)

Theorem sorted_nodes_agree g t :
  Inv parse TS g -> spelled_names g -> to_tsg g = Some t ->
  map kident (map nkey (TSGraph.sorted_nodes t)) = v_node_names g.
Proof.
  intros HI HS Ht. rewrite map_map. unfold TSGraph.sorted_nodes, v_node_names, nodes_sorted.
  change TSGraph.node_leb
    with (fun a b => name_leb ((fun tn => kident (nkey tn)) a) ((fun tn => kident (nkey tn)) b)).
  rewrite (isort_map (fun tn => kident (nkey tn)) name_leb).
  change node_leb with (fun a b : node => name_leb (nid a) (nid b)).
  rewrite (isort_map nid name_leb).
  f_equal. rewrite <- map_map. exact (to_tsg_node_ids HI HS Ht).
Qed.

Theorem sorted_edges_agree g t :
  Inv parse TS g -> spelled_names g -> to_tsg g = Some t ->
  map TSGraph.edge_ids (TSGraph.sorted_edges t) = map edge_key (v_edges g).
Proof.
  intros HI HS Ht. unfold TSGraph.sorted_edges, v_edges, sorted_edges.
  change TSGraph.edge_leb with (fun a b => pair_leb (TSGraph.edge_ids a) (TSGraph.edge_ids b)).
  rewrite (isort_map TSGraph.edge_ids pair_leb).
  change pair_leb_e with (fun a b : edge => pair_leb (edge_key a) (edge_key b)).
  rewrite (isort_map edge_key pair_leb).
  f_equal. exact (to_tsg_edge_ids HI HS Ht).
Qed.

(** the i-th sorted node / edge of the image carries the attributes of the i-th sorted node /
    edge of the state (the pairing by position is the pairing by identifier) *)
Theorem sorted_nodes_attrs g t tn :
  Inv parse TS g -> spelled_names g -> to_tsg g = Some t -> In tn (tnodes t) ->
  exists n, get_node g (kident (nkey tn)) = Some n
            /\ TSGraph.tvt tn = nvt n /\ TSGraph.tm tn = user_meta (nmeta n)
            /\ meta_var (nmeta n) = Some (TSGraph.tv tn) /\ meta_lag (nmeta n) = Some (TSGraph.tl tn).
Proof.
  intros HI HS Ht Htn. destruct (to_tsg_parse HI Ht) as (Fn & _).
  destruct (Forall2_in_r _ _ _ _ Fn Htn) as (n & Hn & Hp & Hvt & Hm).
  assert (Hk : kident (nkey tn) = nid n) by (eapply spelled_kident; [apply HS, Hn|exact Hp]).
  exists n. rewrite Hk. split.
  - apply find_node_unique; [exact (inv_nodup_nodes HI)|exact Hn].
  - split; [exact Hvt|]. split; [exact Hm|].
    destruct (ts_nodeok (inv_ts HI eq_refl) n Hn) as (v & l & Hp' & Hv & Hl).
    rewrite Hp in Hp'. unfold TSGraph.nkey in Hp'. injection Hp' as <- <-. auto.
Qed.

(** ** Corollaries: the C14 / C15 theorems of the TSGraph model apply to reachable states *)

Theorem reachable_minimal_ok g t :
  Inv parse TS g -> spelled_names g -> to_tsg g = Some t -> MinimalProofs.no_mutual0 t ->
  exists m, TSGraph.minimal t = Ok m /\ MinimalProofs.c14_spec t m /\ twf m
            /\ TSGraph.c14_check t m = true.
Proof.
  intros HI HS Ht Hmu.
  destruct (MinimalProofs.minimal_spec t (to_tsg_wf HI HS Ht) Hmu) as (m & E & S & W).
  exists m. split; [exact E|]. split; [exact S|]. split; [exact W|].
  apply MinimalProofs.c14_check_spec. exact S.
Qed.

(** [consistent] = well formed (now a THEOREM for reachable states with spelled names) + the two
    conditions on the template set, which are genuine hypotheses about the graph built *)
Theorem reachable_consistent_iff g t :
  Inv parse TS g -> spelled_names g -> to_tsg g = Some t ->
  (MinimalProofs.consistent t <-> MinimalProofs.no_type_clash t /\ MinimalProofs.no_mutual0 t).
Proof.
  intros HI HS Ht. unfold MinimalProofs.consistent. pose proof (to_tsg_wf HI HS Ht). tauto.
Qed.

Corollary reachable_minimal_ok_consistent g t :
  Inv parse TS g -> spelled_names g -> to_tsg g = Some t -> MinimalProofs.consistent t ->
  exists m, TSGraph.minimal t = Ok m /\ MinimalProofs.c14_spec t m /\ twf m
            /\ TSGraph.c14_check t m = true /\ TSGraph.is_minimal m = Ok true.
Proof.
  intros HI HS Ht HC. destruct HC as (W & HC1 & Hmu).
  destruct (reachable_minimal_ok HI HS Ht Hmu) as (m & E & S & Wm & Hc).
  exists m. split; [exact E|]. split; [exact S|]. split; [exact Wm|]. split; [exact Hc|].
  apply (MinimalProofs.minimal_is_minimal t m); [|exact E].
  split; [exact W|]. split; assumption.
Qed.

(** the same, quantified over histories: any history on the time-series class that leaves only
    spelled names *)
Theorem reachable_history_minimal ops m0 :
  let g := run parse fmt TS ops (empty_graph m0) in
  spelled_names g ->
  exists t, to_tsg g = Some t /\ twf t
            /\ (MinimalProofs.no_mutual0 t ->
                exists m, TSGraph.minimal t = Ok m /\ MinimalProofs.c14_spec t m /\ twf m).
Proof.
  intros g HS. assert (HI : Inv parse TS g) by apply inv_run.
  destruct (to_tsg_total HI) as (t & Ht). exists t. split; [exact Ht|].
  split; [exact (to_tsg_wf HI HS Ht)|]. intros Hmu.
  destruct (reachable_minimal_ok HI HS Ht Hmu) as (m & E & S & W & _). eauto.
Qed.

(** ** is_dag agrees across the two models (needed by get_summary_graph / is_stationary_graph) *)

Lemma Forall2_forallb (A B : Type) (R : A -> B -> Prop) (p : A -> bool) (q : B -> bool) l l' :
  Forall2 R l l' -> (forall x y, R x y -> p x = q y) -> forallb p l = forallb q l'.
Proof.
  induction 1 as [|a b l l' Hab HF IH]; intros H; cbn [forallb]; [reflexivity|].
  rewrite (H a b Hab), (IH H). reflexivity.
Qed.

Lemma ts_digraph_wf t : twf t -> wf (TSGraph.ts_digraph t).
Proof.
  intros W. split; cbn [TSGraph.ts_digraph verts arcs].
  - exact (TSGraphProofs.wf_nodes t W).
  - intros a b Hab. unfold arc in Hab. cbn [TSGraph.ts_digraph arcs] in Hab.
    apply in_map_iff in Hab. destruct Hab as (te & E & Hte).
    destruct (TSGraphProofs.wf_ends t W te Hte) as [H1 H2].
    unfold TSGraph.ekey in E. injection E as <- <-. split; assumption.
Qed.

(** a path between keys is a path between the identifiers they spell (directed edges only) *)
Lemma ts_path_to_dgraph g t :
  Inv parse TS g -> spelled_names g -> to_tsg g = Some t ->
  (forall e, In e (gsrc g) -> ety e = Dir) ->
  forall a b, path (TSGraph.ts_digraph t) a b -> path (dgraph g) (kident a) (kident b).
Proof.
  intros HI HS Ht Hd a b Hp. induction Hp as [a b Hab|a b c _ IH1 _ IH2].
  - apply t_step. unfold arc in Hab. cbn [TSGraph.ts_digraph arcs] in Hab.
    apply in_map_iff in Hab. destruct Hab as (te & E & Hte).
    destruct (edge_preimage _ HI Ht Hte) as (e & He & S & D & _).
    destruct (inv_endpoints HI e He) as [Is Id].
    unfold TSGraph.ekey in E. injection E as <- <-.
    apply arc_dgraph. exists e. split; [exact He|]. split; [exact (Hd e He)|]. split; symmetry.
    + eapply spelled_kident; [eapply spelled_node_id; [exact HS|exact Is]|exact S].
    + eapply spelled_kident; [eapply spelled_node_id; [exact HS|exact Id]|exact D].
  - eapply t_trans; eassumption.
Qed.

(** a path between identifiers is a path between their parses (any names) *)
Lemma dgraph_path_to_ts g t :
  Inv parse TS g -> to_tsg g = Some t ->
  forall x y, path (dgraph g) x y ->
  exists a b, parse x = Some a /\ parse y = Some b /\ path (TSGraph.ts_digraph t) a b.
Proof.
  intros HI Ht x y Hp. induction Hp as [x y Hxy|x y z _ IH1 _ IH2].
  - apply arc_dgraph in Hxy. destruct Hxy as (e & He & _ & <- & <-).
    destruct (to_tsg_parse HI Ht) as (_ & Fe & _).
    destruct (Forall2_in_l _ _ _ _ Fe He) as (te & Hte & S & D & _).
    exists (TSGraph.esrc te), (TSGraph.edst te). split; [exact S|]. split; [exact D|].
    apply t_step. unfold arc. cbn [TSGraph.ts_digraph arcs]. apply in_map_iff.
    exists te. split; [reflexivity|exact Hte].
  - destruct IH1 as (a & b & Pa & Pb & P1). destruct IH2 as (b' & c & Pb' & Pc & P2).
    assert (b' = b) by congruence. subst b'.
    exists a, c. split; [exact Pa|]. split; [exact Pc|]. eapply t_trans; eassumption.
Qed.

Theorem ts_is_dag_bridge g t :
  Inv parse TS g -> spelled_names g -> to_tsg g = Some t ->
  TSGraph.ts_is_dag t = is_dag_model g.
Proof.
  intros HI HS Ht. unfold TSGraph.ts_is_dag, is_dag_model.
  destruct (to_tsg_parse HI Ht) as (_ & Fe & _).
  assert (Ed : forallb (fun te => etype_eqb (TSGraph.ety te) Dir) (tedges t)
               = forallb (fun e => etype_eqb (ety e) Dir) (gsrc g)).
  { symmetry. eapply Forall2_forallb; [exact Fe|]. cbv beta.
    intros e te (_ & _ & Hty & _). rewrite Hty. reflexivity. }
  rewrite Ed. destruct (forallb (fun e => etype_eqb (ety e) Dir) (gsrc g)) eqn:Hall;
    cbn [andb]; [|reflexivity].
  assert (Hd : forall e, In e (gsrc g) -> ety e = Dir).
  { intros e He. rewrite forallb_forall in Hall. specialize (Hall e He).
    destruct (etype_eqb_spec (ety e) Dir); [assumption|discriminate]. }
  pose proof (ts_digraph_wf (to_tsg_wf HI HS Ht)) as Wt.
  pose proof (reachable_dgraph_wf HI) as Wg.
  pose proof (acyclicb_spec TSGraph.key_eqb TSGraphProofs.key_eqb_spec Wt) as St.
  pose proof (acyclicb_spec name_eqb name_eqb_spec Wg) as Sg.
  assert (Hiff : acyclic (TSGraph.ts_digraph t) <-> acyclic (dgraph g)).
  { split.
    - intros Hac v Hp. destruct (dgraph_path_to_ts HI Ht Hp) as (a & b & Pa & Pb & P).
      assert (b = a) by congruence. subst b. exact (Hac a P).
    - intros Hac a Hp. exact (Hac _ (ts_path_to_dgraph HI HS Ht Hd Hp)). }
  destruct (acyclicb TSGraph.key_eqb (TSGraph.ts_digraph t)) eqn:Bt,
           (acyclicb name_eqb (dgraph g)) eqn:Bg; try reflexivity; exfalso.
  - assert (X : false = true) by (apply Sg, Hiff, St; reflexivity). discriminate.
  - assert (X : false = true) by (apply St, Hiff, Sg; reflexivity). discriminate.
Qed.

(** get_summary_graph (C17) on a reachable time-series state that [is_dag()] accepts; the
    premise [endpoints_ok] holds whatever the names are, [spelled_names] is only used to
    transport [is_dag] *)
Theorem reachable_summary_ok g t :
  Inv parse TS g -> spelled_names g -> to_tsg g = Some t -> is_dag_model g = true ->
  exists sg, TSGraph.summary t = Ok sg /\ SummaryProofs.c17_spec t sg
             /\ TSGraph.c17_check t sg = true.
Proof.
  intros HI HS Ht Hdag.
  destruct (SummaryProofs.summary_ok t) as (sg & E & S).
  - exact (proj1 (to_tsg_wf_partial HI Ht)).
  - rewrite (ts_is_dag_bridge HI HS Ht). exact Hdag.
  - exists sg. split; [exact E|]. split; [exact S|]. apply SummaryProofs.c17_check_spec. exact S.
Qed.

(** extend_graph (C15) never fails on a reachable state with a consistent template set *)
Theorem reachable_extend_ok g t b f iap :
  Inv parse TS g -> spelled_names g -> to_tsg g = Some t ->
  MinimalProofs.no_type_clash t -> MinimalProofs.no_mutual0 t ->
  TSGraph.neg_opt b = false -> TSGraph.neg_opt f = false ->
  exists x, TSGraph.extend t b f iap = Ok x.
Proof.
  intros HI HS Ht H1 H2 Hb Hf. apply ExtendProofs.extend_ok; [|exact Hb|exact Hf].
  split; [exact (to_tsg_wf HI HS Ht)|]. split; assumption.
Qed.

(** get_stationary_graph (C16) on a reachable state whose latest lag is 0 *)
Theorem reachable_stationary_ok g t lo :
  Inv parse TS g -> spelled_names g -> to_tsg g = Some t ->
  MinimalProofs.no_type_clash t -> MinimalProofs.no_mutual0 t -> StationaryProofs.window0 t lo ->
  exists m s, TSGraph.minimal t = Ok m /\ TSGraph.stationary t = Ok s
              /\ ExtendProofs.c15_spec m (Some (- lo)%Z) (Some 0%Z) false s /\ twf s.
Proof.
  intros HI HS Ht H1 H2 HW.
  assert (C : MinimalProofs.consistent t).
  { split; [exact (to_tsg_wf HI HS Ht)|]. split; assumption. }
  destruct (MinimalProofs.minimal_ok t C) as (m & E).
  destruct (StationaryProofs.stat_spec t m lo C HW E) as (s & Es & Sp & Ws).
  exists m, s. auto.
Qed.

(** ** Time-respecting topological orders exist on validated time-series histories
       (Queries.time_topo_exists; its premise "no arc goes back in time" is the TimeOK field) *)
Section TimeTopo.
  Variable prs : name -> option (name * Z).
  Variable fm : name -> Z -> option name.

  (** [lag_fn] never uses its default on a node: it is the node's time_lag tag *)
  Lemma lag_fn_node g id :
    Inv prs TS g -> In id (node_ids g) -> node_lag g id = Some (lag_fn g id).
  Proof.
    intros HI Hid. destruct (find_node_in _ _ Hid) as (n & Hn).
    unfold lag_fn, node_lag, get_node. rewrite Hn. apply find_node_some in Hn.
    destruct (ts_nodeok (inv_ts HI eq_refl) n (proj1 Hn)) as (v & l & _ & _ & Hl).
    rewrite Hl. reflexivity.
  Qed.

  Lemma arcs_forward_in_time g a b :
    Inv prs TS g -> arc (dgraph g) a b -> (lag_fn g a <= lag_fn g b)%Z.
  Proof.
    intros HI Hab. apply arc_dgraph in Hab. destruct Hab as (e & He & _ & <- & <-).
    destruct (ts_time (inv_ts HI eq_refl) e He) as (ls & ld & L1 & L2 & Hle).
    unfold lag_fn. rewrite L1, L2. exact Hle.
  Qed.

  Theorem reachable_time_topo_exists ops m0 :
    forallb validated ops = true ->
    let g := run prs fm TS ops (empty_graph m0) in
    exists l, is_topo name_eqb (dgraph g) l = true /\ lags_sorted (lag_fn g) l = true
              /\ In l (all_time_topo name_eqb (dgraph g) (lag_fn g)).
  Proof.
    intros Hv g. destruct (reachable_validated_dag prs fm TS ops m0 Hv) as [Hwf Hac].
    assert (HI : Inv prs TS g) by apply inv_run.
    destruct (time_topo_exists name_eqb name_eqb_spec (lag_fn g) Hwf Hac) as (l & Hl & Hs).
    { intros a b Hab. exact (arcs_forward_in_time a b HI Hab). }
    exists l. split; [exact Hl|]. split; [exact Hs|].
    unfold all_time_topo. apply filter_In. split; [|exact Hs].
    apply (all_topo_spec name_eqb name_eqb_spec l Hwf). exact Hl.
  Qed.
End TimeTopo.

(** * Part D.  Provenance of node identifiers: a property of the names an operation can add
      ([Bridge.op_ids]) is a property of every node of every reachable state.  Hence the
      hypothesis [spelled_names] of Part B follows from a hypothesis on the INPUTS. *)

Lemma pairwise_in (l : list name) p : In p (pairwise l) -> In (fst p) l /\ In (snd p) l.
Proof.
  induction l as [|a l IH]; cbn [pairwise]; [intros []|].
  destruct l as [|b l']; [intros []|]. intros [<-|Hp].
  - cbn [fst snd]. split; [left; reflexivity|right; left; reflexivity].
  - destruct (IH Hp) as [H1 H2]. split; right; assumption.
Qed.

Lemma delete_edge_ids g s d oty g' : delete_edge g s d oty = Ok g' -> node_ids g' = node_ids g.
Proof.
  intros H. destruct (delete_edge_ok _ _ _ _ _ H) as (e & _ & _ & _ & ->).
  unfold node_ids. cbn [gnodes]. apply ids_if_upd2.
Qed.

Lemma del_edges_ids es : forall g1 g2, del_edges es (Ok g1) = Ok g2 -> node_ids g2 = node_ids g1.
Proof.
  induction es as [|e es IH]; intros g1 g2 H.
  - injection H as <-. reflexivity.
  - unfold del_edges in H. cbn [fold_left bind] in H.
    destruct (delete_edge g1 (esrc e) (edst e) None) as [g1'|x] eqn:E.
    + fold (del_edges es (Ok g1')) in H. rewrite (IH _ _ H). exact (@delete_edge_ids _ _ _ _ _ E).
    + fold (del_edges es (Err x)) in H. rewrite del_edges_err in H. discriminate.
Qed.

Lemma delete_node_ids k g id g' : delete_node k g id = Ok g' -> incl (node_ids g') (node_ids g).
Proof.
  unfold delete_node. destruct (get_node g id) as [n|]; [|discriminate].
  destruct (idx_remove k g n) as [g1|] eqn:E1; cbn [bind]; [|discriminate].
  match goal with |- bind ?X _ = _ -> _ => destruct X as [g2|] eqn:E2 end;
    cbn [bind]; [|discriminate].
  intros [= <-]. destruct (idx_remove_graph _ _ _ _ E1) as (Gn & _).
  pose proof (@del_edges_ids _ _ _ E2) as E. unfold node_ids in *. cbn [gnodes].
  rewrite Gn in E. rewrite <- E. intros x Hx. apply in_map_iff in Hx.
  destruct Hx as (n' & <- & Hn'). apply filter_In in Hn'. apply in_map. exact (proj1 Hn').
Qed.

Lemma set_edge_ids g s d ty m v g' : set_edge g s d ty m v = Ok g' -> node_ids g' = node_ids g.
Proof.
  intros H. apply set_edge_ok in H. destruct H as (_ & _ & ->). apply node_ids_insert_edge.
Qed.

Lemma update_const_ids (n' : node) id ns :
  nid n' = id -> map nid (update_node (fun _ => n') id ns) = map nid ns.
Proof.
  intros E. unfold update_node. rewrite map_map. apply map_ext. intros x.
  destruct (name_eqb_spec id (nid x)) as [Ex|_]; [congruence|reflexivity].
Qed.

Section Provenance.
  Variable parse : name -> option (name * Z).
  Variable fmt : name -> Z -> option name.
  Variable S : name -> Prop.

  Definition Within (g : graph) : Prop := forall id, In id (node_ids g) -> S id.

  (** (outcome, state left behind): both within [S] *)
  Definition W (r : res graph * graph) : Prop :=
    Within (snd r) /\ forall g, fst r = Ok g -> Within g.

  Lemma within_ids g g' : node_ids g' = node_ids g -> Within g -> Within g'.
  Proof. intros E H id Hid. apply H. rewrite <- E. exact Hid. Qed.

  Lemma within_incl g g' : incl (node_ids g') (node_ids g) -> Within g -> Within g'.
  Proof. intros E H id Hid. apply H, E, Hid. Qed.

  Lemma within_snoc g g' id : node_ids g' = node_ids g ++ [id] -> Within g -> S id -> Within g'.
  Proof.
    intros E H Hs x Hx. rewrite E in Hx. apply in_app_iff in Hx.
    destruct Hx as [Hx|[<-|[]]]; [apply H, Hx|exact Hs].
  Qed.

  Lemma w_ok g : Within g -> W (Ok g, g).
  Proof. intros H. split; cbn [fst snd]; [exact H|]. intros g' [= <-]. exact H. Qed.

  Lemma w_err x g : Within g -> W (Err x, g).
  Proof. intros H. split; cbn [fst snd]; [exact H|discriminate]. Qed.

  Lemma w_lift g r : Within g -> (forall g', r = Ok g' -> Within g') -> W (lift g r).
  Proof.
    intros H Hr. destruct r as [g'|x]; cbn [lift]; [apply w_ok, Hr; reflexivity|apply w_err, H].
  Qed.

  (** ** node creation *)

  Lemma add_node_id_ids k g id vt m g' :
    add_node_id parse k g id vt m = Ok g' -> node_ids g' = node_ids g ++ [id].
  Proof.
    intros H. apply add_node_id_facts in H. destruct H as (_ & n & Hid & _ & _ & _ & Hp).
    apply idx_add_push_facts in Hp. destruct Hp as (En & _).
    unfold node_ids. rewrite En, map_app. cbn [map]. rewrite Hid. reflexivity.
  Qed.

  Lemma add_node_obj_ids k g id vt m g' :
    add_node_obj parse k g id vt m = Ok g' -> node_ids g' = node_ids g ++ [id].
  Proof.
    intros H. apply add_node_obj_facts in H. destruct H as (_ & n & Hid & _ & _ & _ & Hp).
    apply idx_add_push_facts in Hp. destruct Hp as (En & _).
    unfold node_ids. rewrite En, map_app. cbn [map]. rewrite Hid. reflexivity.
  Qed.

  Lemma within_add_endpoint k g p g' :
    Within g -> S (fst p) -> add_endpoint parse k g p = Ok g' -> Within g'.
  Proof.
    intros HW Hs. unfold add_endpoint. destruct (node_exists g (fst p)).
    - intros [= <-]. exact HW.
    - destruct (snd p) as [[vt m]|]; intros H.
      + eapply within_snoc; [eapply add_node_obj_ids; exact H|exact HW|exact Hs].
      + eapply within_snoc; [eapply add_node_id_ids; exact H|exact HW|exact Hs].
  Qed.

  (** ** add_edge *)

  Lemma w_add_edge_try k g sp dp ty m v :
    Within g -> S (fst sp) -> S (fst dp) -> W (add_edge_try parse k g sp dp ty m v).
  Proof.
    intros HW Hs Hd. unfold add_edge_try. cbv zeta.
    destruct (name_eqb (fst sp) (fst dp)); [apply w_err, HW|].
    destruct (add_endpoint parse k g sp) as [g1|x] eqn:E1; [|apply w_err, HW].
    assert (HW1 : Within g1) by (eapply within_add_endpoint; [exact HW|exact Hs|exact E1]).
    destruct (add_endpoint parse k g1 dp) as [g2|x] eqn:E2; [|apply w_err, HW1].
    assert (HW2 : Within g2) by (eapply within_add_endpoint; [exact HW1|exact Hd|exact E2]).
    destruct (match edge_at g (fst sp) (fst dp) with Some _ => true | None => false end);
      [apply w_err, HW2|].
    destruct (orient k g2 (fst sp) (fst dp) ty) as [[s' d']|x]; [|apply w_err, HW2].
    destruct (set_edge g2 s' d' ty _ v) as [g3|x] eqn:Es; [|apply w_err, HW2].
    apply w_ok. eapply within_ids; [eapply set_edge_ids; exact Es|exact HW2].
  Qed.

  Lemma cleanup_within k l : forall gl,
    Within gl ->
    Within (fold_left (fun acc id =>
              if node_exists acc id then
                match delete_node k acc id with Ok a => a | Err _ => acc end
              else acc) l gl).
  Proof.
    induction l as [|id l IH]; intros gl HW; cbn [fold_left]; [exact HW|].
    apply IH. destruct (node_exists gl id); [|exact HW].
    destruct (delete_node k gl id) as [a|x] eqn:Ed; [|exact HW].
    eapply within_incl; [eapply delete_node_ids; exact Ed|exact HW].
  Qed.

  Lemma w_add_edge k g sp dp ty m v :
    Within g -> S (fst sp) -> S (fst dp) -> W (add_edge parse k g sp dp ty m v).
  Proof.
    intros HW Hs Hd. unfold add_edge. cbv zeta.
    destruct (@w_add_edge_try k g sp dp ty m v HW Hs Hd) as [G1 G2].
    destruct (add_edge_try parse k g sp dp ty m v) as [[g'|x] gl]; cbn [fst snd] in *.
    - apply w_ok, G2. reflexivity.
    - apply w_err, cleanup_within, G1.
  Qed.

  Lemma w_add_or_restore k g1 sp dp ty m sp0 dp0 ty0 m0 :
    Within g1 -> S (fst sp) -> S (fst dp) -> S (fst sp0) -> S (fst dp0) ->
    W (match add_edge parse k g1 sp dp ty m true with
       | (Ok g2, _) => (Ok g2, g2)
       | (Err x, g2) =>
           match add_edge parse k g2 sp0 dp0 ty0 m0 false with
           | (Ok g3, _) => (Err x, g3)
           | (Err y, g3) => (Err y, g3)
           end
       end).
  Proof.
    intros HW Hs Hd Hs0 Hd0. destruct (@w_add_edge k g1 sp dp ty m true HW Hs Hd) as [A B].
    destruct (add_edge parse k g1 sp dp ty m true) as [[g2|x] g2']; cbn [fst snd] in *.
    - apply w_ok, B. reflexivity.
    - destruct (@w_add_edge k g2' sp0 dp0 ty0 m0 false A Hs0 Hd0) as [C D].
      destruct (add_edge parse k g2' sp0 dp0 ty0 m0 false) as [[g3|y] g3']; cbn [fst snd] in *.
      + apply w_err, D. reflexivity.
      + apply w_err, C.
  Qed.

  Lemma deleted_edge_ends g s d oty g1 :
    Within g -> delete_edge g s d oty = Ok g1 -> Within g1 /\ S s /\ S d.
  Proof.
    intros HW Hd. destruct (delete_edge_ok _ _ _ _ _ Hd) as (e & Hs & Hdd & _ & _).
    split; [eapply within_ids; [eapply delete_edge_ids; exact Hd|exact HW]|].
    split; apply HW, node_exists_in; assumption.
  Qed.

  Lemma w_change_edge_type k g s d ty : Within g -> W (change_edge_type parse k g s d ty).
  Proof.
    intros HW. unfold change_edge_type.
    destruct (edge_at g s d) as [e|]; [|apply w_err, HW].
    destruct (etype_eqb (ety e) ty); [apply w_ok, HW|].
    destruct (delete_edge g s d (Some (ety e))) as [g1|x] eqn:Ed; [|apply w_err, HW].
    destruct (@deleted_edge_ends _ _ _ _ _ HW Ed) as (HW1 & Hs & Hd).
    apply w_add_or_restore; assumption.
  Qed.

  Lemma w_replace_edge k g s d s' d' oty om :
    Within g -> S s' -> S d' -> W (replace_edge parse k g s d s' d' oty om).
  Proof.
    intros HW Hs' Hd'. unfold replace_edge.
    destruct (edge_at g s d) as [e|]; [|apply w_err, HW].
    destruct (edge_at g s' d'); [apply w_err, HW|]. cbv zeta.
    destruct (delete_edge g s d None) as [g1|x] eqn:Ed; [|apply w_err, HW].
    destruct (@deleted_edge_ends _ _ _ _ _ HW Ed) as (HW1 & Hs & Hd).
    apply w_add_or_restore; assumption.
  Qed.

  (** ** folds *)

  Lemma w_fold (X : Type) (F : graph -> X -> res graph * graph) (Q : X -> Prop) :
    (forall g x, Within g -> Q x -> W (F g x)) ->
    forall xs acc, Forall Q xs -> W acc -> W (fold_left (okstep F) xs acc).
  Proof.
    intros HF. induction xs as [|x xs IH]; intros acc HQ HG; cbn [fold_left]; [exact HG|].
    inversion HQ as [|x0 xs0 Hx Hxs]; subst. apply IH; [exact Hxs|].
    destruct acc as [[g'|e] gl]; cbn [okstep].
    - apply HF; [apply (proj2 HG); reflexivity|exact Hx].
    - exact HG.
  Qed.

  Lemma w_seq_edges k g (calls : list (endpoint * endpoint * etype * meta)) :
    Within g ->
    Forall (fun c => S (fst (fst (fst (fst c)))) /\ S (fst (snd (fst (fst c))))) calls ->
    W (seq_edges parse k g calls).
  Proof.
    intros HW HQ. unfold seq_edges.
    apply (@w_fold _ (fun g' (c : endpoint * endpoint * etype * meta) =>
                     let '(sp, dp, ty, m) := c in add_edge parse k g' sp dp ty (Some m) true)
                  (fun c => S (fst (fst (fst (fst c)))) /\ S (fst (snd (fst (fst c)))))).
    - intros g' [[[sp dp] ty] m] HW' [Hs Hd]. cbn [fst snd] in Hs, Hd. apply w_add_edge; assumption.
    - exact HQ.
    - apply w_ok, HW.
  Qed.

  Lemma w_add_nodes_from k g ids : Within g -> Forall S ids -> W (add_nodes_from parse k g ids).
  Proof.
    intros HW HQ. unfold add_nodes_from.
    apply (@w_fold _ (fun g' id => lift g' (add_node_id parse k g' id VUnspec None)) S).
    - intros g' id HW' Hs. apply w_lift; [exact HW'|].
      intros g'' Hadd. eapply within_snoc; [eapply add_node_id_ids; exact Hadd|exact HW'|exact Hs].
    - exact HQ.
    - apply w_ok, HW.
  Qed.

  Lemma w_add_edges_from k g pairs v :
    Within g -> Forall (fun p : name * name => S (fst p) /\ S (snd p)) pairs ->
    W (add_edges_from parse k g pairs v).
  Proof.
    intros HW HQ. unfold add_edges_from.
    apply (@w_fold _ (fun g' (p : name * name) =>
                     add_edge parse k g' (str_ep (fst p)) (str_ep (snd p)) Dir None v)
                  (fun p => S (fst p) /\ S (snd p))).
    - intros g' p HW' [Hs Hd]. apply w_add_edge; assumption.
    - exact HQ.
    - apply w_ok, HW.
  Qed.

  Lemma w_add_path k g path v : Within g -> Forall S path -> W (add_path parse k g path v).
  Proof.
    intros HW HQ. unfold add_path. destruct path as [|a path]; [apply w_err, HW|].
    apply (@w_fold _ (fun g' (p : name * name) =>
                     match edge_at g' (fst p) (snd p) with
                     | Some _ => (Ok g', g')
                     | None => add_edge parse k g' (str_ep (fst p)) (str_ep (snd p)) Dir None v
                     end)
                  (fun p => S (fst p) /\ S (snd p))).
    - intros g' p HW' [Hs Hd]. destruct (edge_at g' (fst p) (snd p)); [apply w_ok, HW'|].
      apply w_add_edge; assumption.
    - apply Forall_forall. intros p Hp. apply pairwise_in in Hp.
      rewrite Forall_forall in HQ. split; apply HQ; tauto.
    - apply w_ok, HW.
  Qed.

  Lemma w_add_paths k g paths :
    Within g -> Forall (Forall S) paths -> W (add_paths parse k g paths).
  Proof.
    intros HW HQ. unfold add_paths. destruct paths as [|a paths]; [apply w_err, HW|].
    apply (@w_fold _ (fun g' p => add_path parse k g' p true) (Forall S)).
    - intros g' p HW' Hp. apply w_add_path; assumption.
    - exact HQ.
    - apply w_ok, HW.
  Qed.

  (** ** replace_node *)

  Lemma w_replace_node_base k g id new_id vt m :
    Inv parse k g -> Within g -> (forall x, new_id = Some x -> S x) ->
    W (replace_node_base parse k g id new_id vt m).
  Proof.
    intros HI HW Hnew. unfold replace_node_base.
    destruct (get_node g id) as [n|] eqn:En; [|apply w_err, HW].
    destruct new_id as [id'|].
    - destruct (node_exists g id'); [apply w_err, HW|]. cbv zeta.
      destruct (add_node_id parse k g id' _ _) as [g1|x] eqn:E1; [|apply w_err, HW].
      assert (HI1 : Inv parse k g1) by (eapply inv_add_node_id; eassumption).
      assert (Hs' : S id') by (apply Hnew; reflexivity).
      assert (HW1 : Within g1) by (eapply within_snoc; [eapply add_node_id_ids; exact E1|exact HW|exact Hs']).
      assert (Hend : forall e, In e (gsrc g1) -> S (esrc e) /\ S (edst e)).
      { intros e He. destruct (inv_endpoints HI1 e He) as [A B]. split; apply HW1; assumption. }
      match goal with |- W (match seq_edges parse k g1 ?cs with _ => _ end) =>
        assert (HQ : Forall (fun c : endpoint * endpoint * etype * meta =>
                      S (fst (fst (fst (fst c)))) /\ S (fst (snd (fst (fst c))))) cs) end.
      { apply Forall_app. split; apply Forall_forall; intros c Hc; apply in_map_iff in Hc;
          destruct Hc as (e & <- & He); cbn [fst snd str_ep]; unfold edges_into, edges_from in He;
          apply isort_in, filter_In in He; destruct He as [He _].
        - apply (Permutation_in e (inv_mirror HI1)) in He. split; [apply (Hend e He)|exact Hs'].
        - split; [exact Hs'|apply (Hend e He)]. }
      match goal with |- W (match seq_edges parse k g1 ?cs with _ => _ end) =>
        destruct (@w_seq_edges k g1 cs HW1 HQ) as [A B];
        destruct (seq_edges parse k g1 cs) as [[g2|x] g2'] end; cbn [fst snd] in *.
      + assert (HW2 : Within g2) by (apply B; reflexivity).
        destruct (delete_node k g2 id) as [g3|x] eqn:Ed; [|apply w_err, HW2].
        apply w_ok. eapply within_incl; [eapply delete_node_ids; exact Ed|exact HW2].
      + destruct (delete_node k g2' id') as [g3|y] eqn:Ed; [|apply w_err, A].
        apply w_err. eapply within_incl; [eapply delete_node_ids; exact Ed|exact A].
    - cbv zeta. apply w_ok. eapply within_ids; [|exact HW].
      unfold node_ids. cbn [gnodes]. apply update_const_ids. cbn [nid].
      apply find_node_some in En. exact (proj2 En).
  Qed.

  Lemma w_replace_node k g id new_id lag var vt m :
    Inv parse k g -> Within g ->
    Forall S (match new_id with Some x => [x] | None => relag_ids parse fmt id lag var end) ->
    W (replace_node parse fmt k g id new_id lag var vt m).
  Proof.
    intros HI HW HQ. unfold replace_node. destruct k.
    - destruct lag, var; try (apply w_err, HW).
      apply w_replace_node_base; [exact HI|exact HW|].
      intros x ->. inversion HQ; assumption.
    - cbv zeta.
      match goal with |- W (match ?X with Ok _ => _ | Err _ => _ end) =>
        destruct X as [nid'|x] eqn:Enid end; [|apply w_err, HW].
      match goal with |- W (match ?X with Ok _ => _ | Err _ => _ end) =>
        destruct X as [m'|x] eqn:Em end; [|apply w_err, HW].
      apply w_replace_node_base; [exact HI|exact HW|].
      intros x ->. destruct new_id as [y|].
      + destruct lag, var; try discriminate. injection Enid as <-. inversion HQ; assumption.
      + unfold relag_ids, fmt_ids in HQ.
        destruct lag as [l0|], var as [v0|]; try discriminate;
          (destruct (parse id) as [[dv dl]|]; [|discriminate]);
          match type of Enid with match fmt ?a ?b with _ => _ end = _ =>
            destruct (fmt a b) as [z|]; [|discriminate] end;
          injection Enid as <-; inversion HQ; assumption.
  Qed.

  (** ** every operation *)

  Theorem w_run_op k g o :
    Inv parse k g -> Within g -> Forall S (op_ids parse fmt o) -> W (run_op parse fmt k g o).
  Proof.
    intros HI HW HQ. destruct o; cbn [run_op op_ids] in *.
    - apply w_lift; [exact HW|]. intros g' H.
      eapply within_snoc; [eapply add_node_id_ids; exact H|exact HW|inversion HQ; assumption].
    - apply w_lift; [exact HW|]. intros g' H.
      eapply within_snoc; [eapply add_node_obj_ids; exact H|exact HW|inversion HQ; assumption].
    - apply w_lift; [exact HW|]. intros g' H. unfold add_node_vl in H. destruct k; [discriminate|].
      unfold fmt_ids in HQ. destruct (fmt v l) as [id|]; [|discriminate].
      eapply within_snoc; [eapply add_node_id_ids; exact H|exact HW|inversion HQ; assumption].
    - apply w_add_nodes_from; assumption.
    - unfold add_fully_connected. apply w_add_edges_from; [exact HW|].
      apply Forall_forall. intros p Hp. apply in_flat_map in Hp. destruct Hp as (i & Hi & Hp).
      apply in_map_iff in Hp. destruct Hp as (o & <- & Ho). cbn [fst snd].
      rewrite Forall_forall in HQ. split; apply HQ, in_app_iff; [left|right]; assumption.
    - apply w_lift; [exact HW|]. intros g' H. eapply within_incl; [eapply delete_node_ids; exact H|exact HW].
    - apply w_replace_node; assumption.
    - apply w_add_edge; [exact HW| |]; rewrite Forall_forall in HQ; apply HQ; cbn; auto.
    - apply w_add_edges_from; [exact HW|]. apply Forall_forall. intros p Hp.
      rewrite Forall_forall in HQ. split; apply HQ, in_flat_map; exists p; cbn; auto.
    - apply w_add_path; assumption.
    - apply w_add_paths; [exact HW|]. apply Forall_forall. intros p Hp. apply Forall_forall.
      intros x Hx. rewrite Forall_forall in HQ. apply HQ, in_concat. exists p. auto.
    - unfold add_time_edge. destruct k; [apply w_err, HW|]. unfold fmt_ids in HQ.
      destruct (fmt sv st) as [s|]; [|apply w_err, HW].
      destruct (fmt dv dt) as [d|]; [|apply w_err, HW].
      cbn [app] in HQ. rewrite Forall_forall in HQ.
      apply w_add_edge; [exact HW| |]; apply HQ; cbn; auto.
    - apply w_lift; [exact HW|]. intros g' H. eapply within_ids; [eapply delete_edge_ids; exact H|exact HW].
    - apply w_change_edge_type, HW.
    - rewrite Forall_forall in HQ. apply w_replace_edge; [exact HW| |]; apply HQ; cbn; auto.
  Qed.

  Theorem step_within k g o :
    Inv parse k g -> Within g -> Forall S (op_ids parse fmt o) -> Within (step parse fmt k g o).
  Proof. intros HI HW HQ. unfold step. exact (proj1 (@w_run_op k g o HI HW HQ)). Qed.

  Theorem run_within k ops : forall g,
    Inv parse k g -> Within g -> Forall (fun o => Forall S (op_ids parse fmt o)) ops ->
    Within (run parse fmt k ops g).
  Proof.
    unfold run. induction ops as [|o ops IH]; intros g HI HW HQ; cbn [fold_left]; [exact HW|].
    inversion HQ as [|o0 ops0 Ho Hops]; subst.
    apply IH; [apply inv_step, HI|apply step_within; assumption|exact Hops].
  Qed.

  Corollary reachable_within k ops m :
    Forall (fun o => Forall S (op_ids parse fmt o)) ops ->
    Within (run parse fmt k ops (empty_graph m)).
  Proof.
    intros HQ. apply run_within; [apply inv_init| |exact HQ]. intros id [].
  Qed.
End Provenance.

(** ** The Names.v codec: a history that only mentions canonical identifiers and good variable
       names ([Bridge.op_canonical_b], a directly checkable condition on the CALLS) reaches only
       states whose node names are canonical *)

Lemma fmt_ids_canonical v l :
  good v = true -> Forall (fun id => canonical id = true) (fmt_ids fmt v l).
Proof.
  intros Hg. unfold fmt_ids. rewrite (fmt_good v l Hg).
  constructor; [apply canonical_tident, Hg|constructor].
Qed.

Lemma forallb_Forall (A : Type) (p : A -> bool) l :
  forallb p l = true -> Forall (fun x => p x = true) l.
Proof. intros H. apply Forall_forall. apply forallb_forall. exact H. Qed.

Lemma op_canonical_ids o :
  op_canonical_b o = true -> Forall (fun id => canonical id = true) (op_ids parse fmt o).
Proof.
  destruct o; cbn [op_canonical_b op_ids]; intros H.
  - constructor; [exact H|constructor].
  - constructor; [exact H|constructor].
  - apply fmt_ids_canonical, H.
  - apply forallb_Forall, H.
  - apply andb_true_iff in H. destruct H as [H1 H2].
    apply Forall_app. split; apply forallb_Forall; assumption.
  - constructor.
  - destruct new_id as [x|]; [constructor; [exact H|constructor]|].
    unfold relag_ids. destruct var as [v0|].
    + destruct lag; (destruct (parse id) as [[dv dl]|]; [apply fmt_ids_canonical, H|constructor]).
    + destruct lag as [l0|]; [|constructor].
      destruct (canonical_inv id H) as (v & k & Hg & _ & Hp). rewrite Hp.
      apply fmt_ids_canonical, Hg.
  - apply andb_true_iff in H. destruct H as [H1 H2].
    constructor; [exact H1|]. constructor; [exact H2|constructor].
  - apply Forall_forall. intros x Hx. apply in_flat_map in Hx. destruct Hx as (p & Hp & Hx).
    rewrite forallb_forall in H. specialize (H p Hp). apply andb_true_iff in H.
    destruct H as [H1 H2]. destruct Hx as [<-|[<-|[]]]; assumption.
  - apply forallb_Forall, H.
  - apply Forall_forall. intros x Hx. apply in_concat in Hx. destruct Hx as (p & Hp & Hx).
    rewrite forallb_forall in H. specialize (H p Hp). rewrite forallb_forall in H. exact (H x Hx).
  - apply andb_true_iff in H. destruct H as [H1 H2].
    apply Forall_app. split; apply fmt_ids_canonical; assumption.
  - constructor.
  - constructor.
  - apply andb_true_iff in H. destruct H as [H1 H2].
    constructor; [exact H1|]. constructor; [exact H2|constructor].
Qed.

Theorem canonical_run k ops m :
  forallb op_canonical_b ops = true -> canonical_names (run parse fmt k ops (empty_graph m)).
Proof.
  intros H n Hn.
  apply (@reachable_within parse fmt (fun id => canonical id = true) k ops m).
  - apply Forall_forall. intros o Ho. apply op_canonical_ids.
    rewrite forallb_forall in H. exact (H o Ho).
  - unfold node_ids. apply in_map, Hn.
Qed.

(** The end-to-end statement, with hypotheses on the INPUTS only: every history of calls on a
    TimeSeriesCausalGraph that mentions only canonical identifiers / good variable names leaves
    a state whose TSGraph image exists, is well formed, names its nodes and edges by the real
    identifiers in the real get_nodes() / get_edges() order, has the same is_dag(), and on
    which get_minimal_graph meets C14 (the condition on the template set is a genuine
    hypothesis: it is decided by [consistent_b]). *)
Theorem canonical_history_bridge ops m :
  forallb op_canonical_b ops = true ->
  let g := run parse fmt TS ops (empty_graph m) in
  exists t, to_tsg g = Some t /\ twf t
    /\ map kident (map nkey (tnodes t)) = node_ids g
    /\ map kident (map nkey (TSGraph.sorted_nodes t)) = v_node_names g
    /\ map TSGraph.edge_ids (TSGraph.sorted_edges t) = map edge_key (v_edges g)
    /\ TSGraph.ts_is_dag t = is_dag_model g
    /\ (MinimalProofs.no_mutual0 t ->
        exists m', TSGraph.minimal t = Ok m' /\ MinimalProofs.c14_spec t m' /\ twf m'
                   /\ TSGraph.c14_check t m' = true).
Proof.
  intros Hc g. assert (HI : Inv parse TS g) by apply inv_run.
  assert (HS : spelled_names g) by (apply canonical_names_spelled, canonical_run, Hc).
  destruct (to_tsg_total HI) as (t & Ht). exists t.
  split; [exact Ht|]. split; [exact (to_tsg_wf HI HS Ht)|].
  split; [exact (to_tsg_node_ids HI HS Ht)|]. split; [exact (sorted_nodes_agree HI HS Ht)|].
  split; [exact (sorted_edges_agree HI HS Ht)|]. split; [exact (ts_is_dag_bridge HI HS Ht)|].
  intros Hmu. exact (reachable_minimal_ok HI HS Ht Hmu).
Qed.

(** with default validation and directed edges only, get_summary_graph meets C17 *)
Theorem canonical_history_summary ops m :
  forallb op_canonical_b ops = true -> forallb validated ops = true ->
  let g := run parse fmt TS ops (empty_graph m) in
  (forall e, In e (gsrc g) -> ety e = Dir) ->
  exists t sg, to_tsg g = Some t /\ TSGraph.summary t = Ok sg /\ SummaryProofs.c17_spec t sg.
Proof.
  intros Hc Hv g Hd. assert (HI : Inv parse TS g) by apply inv_run.
  assert (HS : spelled_names g) by (apply canonical_names_spelled, canonical_run, Hc).
  destruct (to_tsg_total HI) as (t & Ht).
  destruct (reachable_summary_ok HI HS Ht) as (sg & E & Sp & _).
  { exact (reachable_is_dag parse fmt TS ops m Hv Hd). }
  exists t, sg. auto.
Qed.

(** * Part C.  Non-vacuity: one concrete history through all three models

    Python (TimeSeriesCausalGraph(meta={'g': 1})), outcome of every call in brackets:
      add_node(variable_name='Z', time_lag=0, variable_type=CONTINUOUS, meta={'a': 1})   [ok]
      add_time_edge('X', -1, 'X', 0)                                                    [ok]
      add_time_edge('X', -1, 'Y', 0)                                                    [ok]
      add_time_edge('Y', -2, 'X', -1, meta={'b': 'u'})                                  [ok]
      add_edge('X', 'Y')                                                                [ok]
      add_edge('Y', 'X lag(n=1)')                    [ValueError: backwards in time]
      add_edge('Y', 'X')                             [ReverseEdgeExistsError]
      add_time_edge('Z', -1, 'Y', 0)                                                    [ok]
      add_edge('Y', 'Y lag(n=2)', edge_type='--')    [ok, stored as 'Y lag(n=2)' -- 'Y']
      delete_edge('Y lag(n=2)', 'Y')                                                    [ok]
    3 variables, lags -2..0, 6 nodes, 5 directed edges.  Every value below marked "Python" was
    observed on the real library on this history. *)
Definition bx_X : name := [88]%N.
Definition bx_Y : name := [89]%N.
Definition bx_Z : name := [90]%N.
Definition bx_X1 : name := Eval vm_compute in tident bx_X (-1).   (* "X lag(n=1)" *)
Definition bx_Y2 : name := Eval vm_compute in tident bx_Y (-2).   (* "Y lag(n=2)" *)
Definition bx_Z1 : name := Eval vm_compute in tident bx_Z (-1).   (* "Z lag(n=1)" *)

Definition bx_hist : list op :=
  [ OAddNodeVL bx_Z 0 VCont (Some [([97]%N, JInt 1)]);
    OAddTimeEdge bx_X (-1) bx_X 0 None true;
    OAddTimeEdge bx_X (-1) bx_Y 0 None true;
    OAddTimeEdge bx_Y (-2) bx_X (-1) (Some [([98]%N, JStr [117]%N)]) true;
    OAddEdge (str_ep bx_X) (str_ep bx_Y) Dir None true;
    OAddEdge (str_ep bx_Y) (str_ep bx_X1) Dir None true;
    OAddEdge (str_ep bx_Y) (str_ep bx_X) Dir None true;
    OAddTimeEdge bx_Z (-1) bx_Y 0 None true;
    OAddEdge (str_ep bx_Y) (str_ep bx_Y2) Und None true;
    ODeleteEdge bx_Y2 bx_Y None ].

Definition bx_gm : meta := [([103]%N, JInt 1)].
Definition bx_g : graph := Eval vm_compute in run parse fmt TS bx_hist (empty_graph bx_gm).

Example bx_g_reach : bx_g = run parse fmt TS bx_hist (empty_graph bx_gm).
Proof. vm_compute. reflexivity. Qed.

Fixpoint bx_outcomes (g : graph) (ops : list op) : list (option err) :=
  match ops with
  | [] => []
  | o :: r => outcome parse fmt TS g o :: bx_outcomes (step parse fmt TS g o) r
  end.

(* Python: the outcomes listed above *)
Example bx_history_outcomes :
  bx_outcomes (empty_graph bx_gm) bx_hist
  = [None; None; None; None; None; Some EValue; Some EReverse; None; None; None].
Proof. vm_compute. reflexivity. Qed.

(* Python: list(g._nodes_by_identifier), g.get_node_names(), g.get_edges() *)
Example bx_g_shape :
  node_ids bx_g = [bx_Z; bx_X1; bx_X; bx_Y; bx_Y2; bx_Z1]
  /\ v_node_names bx_g = [bx_X; bx_X1; bx_Y; bx_Y2; bx_Z; bx_Z1]
  /\ map (fun e => (esrc e, edst e, ety e)) (v_edges bx_g)
     = [(bx_X, bx_Y, Dir); (bx_X1, bx_X, Dir); (bx_X1, bx_Y, Dir); (bx_Y2, bx_X1, Dir);
        (bx_Z1, bx_Y, Dir)].
Proof. vm_compute. repeat split; reflexivity. Qed.

Example bx_validated : forallb validated bx_hist = true.
Proof. vm_compute. reflexivity. Qed.

Example bx_inv : Inv parse TS bx_g.
Proof. rewrite bx_g_reach. apply inv_run. Qed.

(** the hypothesis on names: every node name of the state is canonical, hence spelled *)
Example bx_canonical : canonical_names bx_g.
Proof. apply canonical_names_b_spec. vm_compute. reflexivity. Qed.

Example bx_spelled : spelled_names bx_g.
Proof. exact (canonical_names_spelled bx_canonical). Qed.

(** ... and this follows from the calls alone (Part D), without looking at the state *)
Example bx_hist_canonical : forallb op_canonical_b bx_hist = true.
Proof. vm_compute. reflexivity. Qed.

Example bx_canonical_by_theorem : canonical_names bx_g.
Proof. rewrite bx_g_reach. exact (canonical_run TS bx_hist bx_gm bx_hist_canonical). Qed.

Example unspelled_ops_not_canonical : forallb op_canonical_b unspelled_ops = false.
Proof. vm_compute. reflexivity. Qed.

(** ** Part A on the example *)

Example bx_dag : wf (dgraph bx_g) /\ acyclic (dgraph bx_g).
Proof. rewrite bx_g_reach. exact (reachable_validated_dag parse fmt TS bx_hist bx_gm bx_validated). Qed.

(* Python: sorted(get_parents('Y')), get_children('X lag(n=1)'), get_neighbors('X'), is_dag() *)
Example bx_views :
  v_parents bx_g bx_Y = Ok [bx_X; bx_X1; bx_Z1]
  /\ v_children bx_g bx_X1 = Ok [bx_X; bx_Y]
  /\ v_neighbors bx_g bx_X = Ok [bx_X1; bx_Y]
  /\ is_dag_model bx_g = true.
Proof. vm_compute. repeat split; reflexivity. Qed.

(** the bridge theorems say the same through [dgraph] *)
Example bx_parents_bridge :
  v_parents bx_g bx_Y = Ok (sort_names (parents name_eqb (dgraph bx_g) bx_Y))
  /\ v_children bx_g bx_X1 = Ok (sort_names (children name_eqb (dgraph bx_g) bx_X1)).
Proof.
  split; [apply (parents_bridge (parse := parse) (k := TS))
         |apply (children_bridge (parse := parse) (k := TS))];
    try exact bx_inv; vm_compute; tauto.
Qed.

Example bx_is_dag_bridge :
  (forall e, In e (gsrc bx_g) -> ety e = Dir) /\ acyclic (dgraph bx_g).
Proof. apply (is_dag_model_bridge bx_inv). vm_compute. reflexivity. Qed.

(* Python: sorted(get_descendants('X lag(n=1)')) = ['X', 'Y'];
           is_d_separated('Y lag(n=2)', 'Y', {'X lag(n=1)'}) = True, with set() = False;
           sorted(identify_confounders(g, 'X', 'Y')) = ['X lag(n=1)'];
           sorted(identify_markov_boundary(g, 'X')) = ['X lag(n=1)', 'Y', 'Z lag(n=1)'];
           identify_colliders(g) = ['Y'];
           get_topological_order(respect_time_ordering=True)
             = ['Y lag(n=2)', 'X lag(n=1)', 'Z lag(n=1)', 'X', 'Y', 'Z'] *)
Example bx_downstream_values :
  sort_names (get_descendants name_eqb (dgraph bx_g) bx_X1) = [bx_X; bx_Y]
  /\ dsepb name_eqb (dgraph bx_g) [bx_Y2] [bx_Y] [bx_X1] = true
  /\ dsepb name_eqb (dgraph bx_g) [bx_Y2] [bx_Y] [] = false
  /\ confounders name_eqb (dgraph bx_g) bx_X bx_Y = Some [bx_X1]
  /\ sort_names (markov_boundary name_eqb (dgraph bx_g) bx_X) = [bx_X1; bx_Y; bx_Z1]
  /\ colliders name_eqb (mgraph bx_g) (v_node_names bx_g) = [bx_Y]
  /\ is_topo name_eqb (dgraph bx_g) [bx_Y2; bx_X1; bx_Z1; bx_X; bx_Y; bx_Z] = true
  /\ lags_sorted (lag_fn bx_g) [bx_Y2; bx_X1; bx_Z1; bx_X; bx_Y; bx_Z] = true.
Proof. vm_compute. repeat split; reflexivity. Qed.

(** the corollaries apply: the computed answers above MEAN what the theorems say *)
Example bx_descendants_applies y :
  In y (get_descendants name_eqb (dgraph bx_g) bx_X1) <-> path (dgraph bx_g) bx_X1 y.
Proof.
  rewrite bx_g_reach.
  exact (proj1 (reachable_descendants_correct parse fmt TS bx_hist bx_gm bx_X1 y)).
Qed.

Example bx_dsep_applies : dsep (dgraph bx_g) [bx_Y2] [bx_Y] [bx_X1].
Proof.
  rewrite bx_g_reach. apply (reachable_dsepb_correct parse fmt TS bx_hist bx_gm).
  vm_compute. reflexivity.
Qed.

Example bx_markov_applies :
  dsep (dgraph bx_g) [bx_X] [bx_Y2] (markov_boundary name_eqb (dgraph bx_g) bx_X).
Proof.
  rewrite bx_g_reach.
  apply (reachable_markov_boundary_shields parse fmt TS bx_hist bx_gm (a := bx_X) (w := bx_Y2) bx_validated).
  - discriminate.
  - vm_compute. intros H. repeat (destruct H as [H|H]; [discriminate|]). exact H.
Qed.

Example bx_confounders_applies :
  path (dgraph bx_g) bx_X1 bx_X /\ path (dgraph bx_g) bx_X1 bx_Y.
Proof.
  pose proof (reachable_confounders_common_ancestors parse fmt TS bx_hist bx_gm bx_X bx_Y
                bx_validated) as H.
  cbv zeta in H. rewrite <- bx_g_reach in H. destruct H as (Z & E & H).
  apply H. assert (E' : confounders name_eqb (dgraph bx_g) bx_X bx_Y = Some [bx_X1])
    by (vm_compute; reflexivity).
  rewrite E' in E. injection E as <-. left. reflexivity.
Qed.

Example bx_time_topo_applies :
  exists l, is_topo name_eqb (dgraph bx_g) l = true /\ lags_sorted (lag_fn bx_g) l = true
            /\ In l (all_time_topo name_eqb (dgraph bx_g) (lag_fn bx_g)).
Proof. rewrite bx_g_reach. exact (reachable_time_topo_exists parse fmt bx_hist bx_gm bx_validated). Qed.

Example bx_mgraph_wf : mg_wf (mgraph bx_g).
Proof. exact (reachable_mgraph_wf bx_inv). Qed.

(* Python: identify_colliders(g) = ['Y'] *)
Example bx_colliders_applies :
  exists m1 m2, m1 <> m2 /\ arrow_into (mgraph bx_g) m1 bx_Y /\ arrow_into (mgraph bx_g) m2 bx_Y.
Proof.
  assert (H : In bx_Y (colliders name_eqb (mgraph bx_g) (v_node_names bx_g)))
    by (vm_compute; left; reflexivity).
  pose proof (proj1 (reachable_colliders_spec parse fmt TS bx_hist bx_gm bx_Y)) as C.
  cbv zeta in C. rewrite <- bx_g_reach in C. exact (proj2 (C H)).
Qed.

(* Python: get_neighbors('X') = ['X lag(n=1)', 'Y'] *)
Example bx_neighbors_applies : forall x, In x [bx_X1; bx_Y] <-> incident bx_g bx_X x.
Proof.
  destruct (@neighbors_bridge parse TS bx_g bx_X bx_inv) as (l & E & H).
  { vm_compute. tauto. }
  assert (E' : v_neighbors bx_g bx_X = Ok [bx_X1; bx_Y]) by (vm_compute; reflexivity).
  rewrite E' in E. injection E as <-. exact H.
Qed.

(* Python: sorted ids of get_nodes_between('Y lag(n=2)', 'Y') = ['X', 'X lag(n=1)', 'Y', 'Y lag(n=2)'] *)
Example bx_nodes_between_value :
  option_map sort_names (nodes_between name_eqb 7 (dgraph bx_g) bx_Y2 bx_Y)
  = Some [bx_X; bx_X1; bx_Y; bx_Y2].
Proof. vm_compute. reflexivity. Qed.

Example bx_nodes_between_applies :
  exists S, nodes_between name_eqb (length (verts (dgraph bx_g)) + 1) (dgraph bx_g) bx_Y2 bx_Y = Some S
    /\ (forall v, In v S <-> ((v = bx_Y2 \/ path (dgraph bx_g) bx_Y2 v)
                              /\ (v = bx_Y \/ path (dgraph bx_g) v bx_Y))).
Proof.
  pose proof (reachable_nodes_between_correct parse fmt TS bx_hist bx_gm bx_Y2 bx_Y bx_validated) as H.
  cbv zeta in H. rewrite <- bx_g_reach in H. destruct H as (S & E & H & _). exists S. auto.
Qed.

(** the same bridge on the plain class (GraphAcyclicProofs.ex_chain: a -> b -> c); a plain
    state has no reserved tags, so it has no TSGraph image *)
Example plain_bridge :
  wf (dgraph (ex_chain Plain)) /\ acyclic (dgraph (ex_chain Plain))
  /\ v_parents (ex_chain Plain) nb = Ok (sort_names (parents name_eqb (dgraph (ex_chain Plain)) nb))
  /\ to_tsg (ex_chain Plain) = None.
Proof.
  split; [|split; [|split]].
  - apply (reachable_wf parse fmt Plain).
  - apply (reachable_validated_dag parse fmt Plain
             [ex_add na nb Dir true; ex_add nb nc Dir true] []). reflexivity.
  - apply (@parents_bridge parse Plain); [apply inv_run|]. vm_compute. tauto.
  - vm_compute. reflexivity.
Qed.

(** ** Part B on the example *)

Definition bx_t : TSGraph.tsg :=
  Eval vm_compute in match to_tsg bx_g with Some t => t | None => TSGraph.empty_tsg [] end.

Example bx_to_tsg : to_tsg bx_g = Some bx_t.
Proof. vm_compute. reflexivity. Qed.

(* Python: what harness/tsprops.py [cq_tsg] extracts from the same graph (nodes in dict order,
   edges in get_edges() order) *)
Definition bx_py_t : TSGraph.tsg :=
  TSGraphProofs.Gr
    [TSGraphProofs.Nd [90]%N 0%Z VCont [([97]%N, JInt 1)]; TSGraphProofs.Nd [88]%N (-1)%Z VUnspec [];
     TSGraphProofs.Nd [88]%N 0%Z VUnspec []; TSGraphProofs.Nd [89]%N 0%Z VUnspec [];
     TSGraphProofs.Nd [89]%N (-2)%Z VUnspec []; TSGraphProofs.Nd [90]%N (-1)%Z VUnspec []]
    [TSGraphProofs.Ed [88]%N 0%Z [89]%N 0%Z Dir []; TSGraphProofs.Ed [88]%N (-1)%Z [88]%N 0%Z Dir [];
     TSGraphProofs.Ed [88]%N (-1)%Z [89]%N 0%Z Dir [];
     TSGraphProofs.Ed [89]%N (-2)%Z [88]%N (-1)%Z Dir [([98]%N, JStr [117]%N)];
     TSGraphProofs.Ed [90]%N (-1)%Z [89]%N 0%Z Dir []]
    [([103]%N, JInt 1)].

Example bx_to_tsg_is_python : TSGraphProofs.tsg_exact bx_t bx_py_t = true.
Proof. vm_compute. reflexivity. Qed.

Example bx_t_checks : TSGraph.wf_b bx_t = true /\ TSGraph.consistent_b bx_t = true.
Proof. vm_compute. split; reflexivity. Qed.

(** the theorem gives the same without computing [wf_b] *)
Example bx_t_wf : twf bx_t.
Proof. exact (to_tsg_wf bx_inv bx_spelled bx_to_tsg). Qed.

Example bx_t_consistent : MinimalProofs.consistent bx_t.
Proof. apply MinimalProofs.consistent_b_spec. vm_compute. reflexivity. Qed.

Example bx_ident :
  map kident (map nkey (tnodes bx_t)) = node_ids bx_g
  /\ map kident (map nkey (TSGraph.sorted_nodes bx_t)) = v_node_names bx_g
  /\ map TSGraph.edge_ids (TSGraph.sorted_edges bx_t) = map edge_key (v_edges bx_g).
Proof.
  split; [exact (to_tsg_node_ids bx_inv bx_spelled bx_to_tsg)|].
  split; [exact (sorted_nodes_agree bx_inv bx_spelled bx_to_tsg)
         |exact (sorted_edges_agree bx_inv bx_spelled bx_to_tsg)].
Qed.

(* Python: get_minimal_graph() of the same graph; the lag-0 node 'Z' (CONTINUOUS, meta a=1) is
   NOT kept because the variable Z is touched by the edge 'Z lag(n=1)' -> 'Y' *)
Definition bx_py_m : TSGraph.tsg :=
  TSGraphProofs.Gr
    [TSGraphProofs.Nd [88]%N 0%Z VUnspec []; TSGraphProofs.Nd [89]%N 0%Z VUnspec [];
     TSGraphProofs.Nd [88]%N (-1)%Z VUnspec []; TSGraphProofs.Nd [89]%N (-1)%Z VUnspec [];
     TSGraphProofs.Nd [90]%N (-1)%Z VUnspec []]
    [TSGraphProofs.Ed [88]%N 0%Z [89]%N 0%Z Dir []; TSGraphProofs.Ed [88]%N (-1)%Z [88]%N 0%Z Dir [];
     TSGraphProofs.Ed [88]%N (-1)%Z [89]%N 0%Z Dir [];
     TSGraphProofs.Ed [89]%N (-1)%Z [88]%N 0%Z Dir [([98]%N, JStr [117]%N)];
     TSGraphProofs.Ed [90]%N (-1)%Z [89]%N 0%Z Dir []]
    [([103]%N, JInt 1)].

Example bx_minimal_is_python :
  TSGraphProofs.res_exact (TSGraph.minimal bx_t) (Ok bx_py_m) = true
  /\ TSGraph.is_minimal bx_t = Ok false.
Proof. vm_compute. split; reflexivity. Qed.

Example bx_minimal_applies :
  exists m, TSGraph.minimal bx_t = Ok m /\ MinimalProofs.c14_spec bx_t m /\ twf m
            /\ TSGraph.c14_check bx_t m = true /\ TSGraph.is_minimal m = Ok true.
Proof. exact (reachable_minimal_ok_consistent bx_inv bx_spelled bx_to_tsg bx_t_consistent). Qed.

Example bx_ts_is_dag : TSGraph.ts_is_dag bx_t = true.
Proof. rewrite (ts_is_dag_bridge bx_inv bx_spelled bx_to_tsg). vm_compute. reflexivity. Qed.

(* Python: get_summary_graph(): nodes ['X','Y','Z'], edges X <> Y (X -> Y at lags 0 and 1,
   Y -> X at lag 1) and Z -> Y *)
Example bx_summary_applies :
  exists sg, TSGraph.summary bx_t = Ok sg /\ SummaryProofs.c17_spec bx_t sg
             /\ TSGraph.c17_check bx_t sg = true.
Proof.
  apply (reachable_summary_ok bx_inv bx_spelled bx_to_tsg). vm_compute. reflexivity.
Qed.

Example bx_summary_value :
  match TSGraph.summary bx_t with
  | Ok sg => sort_names (map TSGraph.pn (TSGraph.pnodes sg)) = [bx_X; bx_Y; bx_Z]
             /\ map (fun e => (TSGraph.ps e, TSGraph.pd e, TSGraph.pty e)) (TSGraph.pedges sg)
                = [(bx_X, bx_Y, Bi); (bx_Z, bx_Y, Dir)]
  | Err _ => False
  end.
Proof. vm_compute. split; reflexivity. Qed.

Example bx_extend_applies :
  exists x, TSGraph.extend bx_t (Some 2%Z) (Some 1%Z) false = Ok x.
Proof.
  destruct bx_t_consistent as (_ & H1 & H2).
  apply (reachable_extend_ok (Some 2%Z) (Some 1%Z) false bx_inv bx_spelled bx_to_tsg H1 H2);
    reflexivity.
Qed.

(** the end-to-end theorems of Part D apply to the history *)
Example bx_history_bridge_applies :
  exists t, to_tsg bx_g = Some t /\ twf t
    /\ map kident (map nkey (TSGraph.sorted_nodes t)) = v_node_names bx_g
    /\ TSGraph.ts_is_dag t = is_dag_model bx_g.
Proof.
  destruct (canonical_history_bridge bx_hist bx_gm bx_hist_canonical)
    as (t & Ht & W & _ & Hn & _ & Hd & _).
  rewrite <- bx_g_reach in *. exists t. auto.
Qed.

Example bx_history_summary_applies :
  exists t sg, to_tsg bx_g = Some t /\ TSGraph.summary t = Ok sg /\ SummaryProofs.c17_spec t sg.
Proof.
  rewrite bx_g_reach. apply (canonical_history_summary bx_hist bx_gm bx_hist_canonical bx_validated).
  rewrite <- bx_g_reach. exact (proj1 bx_is_dag_bridge).
Qed.

Example bx_stationary_applies :
  exists m s, TSGraph.minimal bx_t = Ok m /\ TSGraph.stationary bx_t = Ok s
              /\ ExtendProofs.c15_spec m (Some 2%Z) (Some 0%Z) false s /\ twf s.
Proof.
  destruct bx_t_consistent as (_ & H1 & H2).
  apply (@reachable_stationary_ok bx_g bx_t (-2)%Z bx_inv bx_spelled bx_to_tsg H1 H2).
  vm_compute. split; reflexivity.
Qed.

(** ** Where the key-level model and the implementation part ways: an unspelled name

    Python: g = TimeSeriesCausalGraph(); g.add_edge('X lag(n=01)', 'Y').  The node is stored
    under the identifier 'X lag(n=01)' with variable_name 'X', time_lag -1.
    g.get_minimal_graph() has the node 'X lag(n=1)' instead, so g.is_minimal_graph() is False,
    although the graph is its own minimal graph up to the spelling.  On keys the model answers
    [Ok true]: the TSGraph theorems describe the implementation only under [spelled_names]. *)
Definition nm_X_lag01 : name := [88; 32; 108; 97; 103; 40; 110; 61; 48; 49; 41]%N.   (* "X lag(n=01)" *)
Example unspelled_is_minimal_diverges :
  let g := run parse fmt TS [OAddEdge (str_ep nm_X_lag01) (str_ep bx_Y) Dir None true]
             (empty_graph []) in
  spelled_names_b g = false
  /\ option_map TSGraph.is_minimal (to_tsg g) = Some (Ok true)
  /\ option_map (fun t => map kident (map nkey (tnodes t))) (to_tsg g) = Some [bx_X1; bx_Y]
  /\ node_ids g = [nm_X_lag01; bx_Y].
Proof. vm_compute. repeat split; reflexivity. Qed.
