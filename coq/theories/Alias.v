(** Alias.v — identity model of the COPY DISCIPLINE of cai-causal-graph (property C06).

    Object identity lives in the Python runtime; what this file carries is which operation
    allocates a new container and which one hands out (or keeps) an existing one.

    * [loc] is the identity (Python [id()]) of a mutable container.
    * A metadata value is two-level, [mref]: the identity of the dict itself ([outer]) and the
      identities of the mutable values nested in it ([inner]).  That is exactly enough to tell
      ALIAS (same outer), SHALLOW COPY ([m.copy()]: new outer, same inner) and DEEP COPY
      ([deepcopy(m)]: new outer, new inner) apart.
    * The heap allocator is a counter ([s_next]); a fresh identity is the counter value.
    * The state is ONE source graph (its metadata containers, cache cells, index lists) plus the
      list of every export / derived graph handed out so far (passive holder lists) plus a
      write log (how often each identity has been written through).

    The semantics of every export / derived-graph operation is DEFINED from the table
    [copy_discipline] through the single generic function [export_with]; the table was measured
    on the live Python objects by [id()] (script and results in the report of this file's
    author; the correspondence harness re-measures it).  Self-contained: no dependency on
    Graph.v. *)
From CG Require Import Base.
From Coq Require Import String.
(* [String] shadows [length] and [++]-related names; this file means the list ones. *)
Local Notation length := List.length (only parsing).

(** * Identities, metadata references, holders *)

Definition loc := nat.

Record mref := { outer : loc; inner : list loc }.

(** Kinds of holders (purely descriptive tags). *)
Definition K_GRAPH : N := 0.   (* graph-level holder: graph metadata, caches, index lists *)
Definition K_NODE : N := 1.
Definition K_EDGE : N := 2.

Record holder := { h_kind : N; h_meta : list mref; h_cells : list loc }.

Definition holder_outer (h : holder) : list loc := map outer (h_meta h) ++ h_cells h.
Definition holder_inner (h : holder) : list loc := flat_map inner (h_meta h).

Definition reach_outer (hs : list holder) : list loc := flat_map holder_outer hs.
Definition reach_inner (hs : list holder) : list loc := flat_map holder_inner hs.
(** All outer + cell + inner identities of a holder set. *)
Definition reach (hs : list holder) : list loc := reach_outer hs ++ reach_inner hs.

(** * The source graph *)

Record graph := {
  g_meta : mref;                 (* CausalGraph.meta *)
  g_nodes : list mref;           (* node.meta, one per node *)
  g_edges : list mref;           (* edge.meta, one per edge *)
  g_nx : option loc;             (* _networkx cache (None = not filled) *)
  g_adj : option loc;            (* _adjacency cache *)
  g_variables : option loc;      (* _variables cache (time-series graphs) *)
  g_lag_lists : list loc;        (* _lag_to_nodes[l], one list object per lag *)
  g_var_lists : list loc         (* _variable_name_to_nodes[v], one list object per variable *)
}.

Definition opt (o : option loc) : list loc := match o with Some l => [l] | None => [] end.

Definition g_cells (g : graph) : list loc :=
  opt (g_nx g) ++ opt (g_adj g) ++ opt (g_variables g) ++ g_lag_lists g ++ g_var_lists g.

Definition node_holder (m : mref) : holder := {| h_kind := K_NODE; h_meta := [m]; h_cells := [] |}.
Definition edge_holder (m : mref) : holder := {| h_kind := K_EDGE; h_meta := [m]; h_cells := [] |}.

(** The holder view of the source graph.  Node and edge OBJECTS handed out by
    [get_node]/[get_nodes]/[get_edge]/… are the graph's own objects (that is how the API
    works): they are these holders, not exports. *)
Definition graph_holders (g : graph) : list holder :=
  {| h_kind := K_GRAPH; h_meta := [g_meta g]; h_cells := g_cells g |}
    :: map node_holder (g_nodes g) ++ map edge_holder (g_edges g).

Definition g_outer (g : graph) : list loc :=
  outer (g_meta g) :: map outer (g_nodes g) ++ map outer (g_edges g) ++ g_cells g.
Definition g_inner (g : graph) : list loc :=
  inner (g_meta g) ++ flat_map inner (g_nodes g) ++ flat_map inner (g_edges g).

(** * Exports and the system state *)

Record export := {
  e_kind : N;
  e_shallow : bool;            (* produced with a "shallow" level: may share NESTED values *)
  e_holders : list holder
}.

Definition e_outer (e : export) : list loc := reach_outer (e_holders e).
Definition e_inner (e : export) : list loc := reach_inner (e_holders e).
Definition e_reach (e : export) : list loc := reach (e_holders e).

Record state := {
  s_next : loc;                (* the allocator: every identity in use is < s_next *)
  s_graph : graph;
  s_exports : list export;     (* in the order they were handed out *)
  s_log : list loc             (* write log: one entry per write through an identity *)
}.

Definition exports_outer (es : list export) : list loc := flat_map e_outer es.
Definition exports_inner (es : list export) : list loc := flat_map e_inner es.
(** Nested identities of the exports made by deep copies / of those made by shallow copies. *)
Definition exports_inner_deep (es : list export) : list loc :=
  flat_map (fun e => if e_shallow e then [] else e_inner e) es.
Definition exports_inner_shallow (es : list export) : list loc :=
  flat_map (fun e => if e_shallow e then e_inner e else []) es.

Definition all_outer (s : state) : list loc := g_outer (s_graph s) ++ exports_outer (s_exports s).
Definition all_inner (s : state) : list loc := g_inner (s_graph s) ++ exports_inner (s_exports s).
Definition all_locs (s : state) : list loc := all_outer s ++ all_inner s.
(** Everything except the nested values of shallow exports. *)
Definition strict_locs (s : state) : list loc :=
  all_outer s ++ g_inner (s_graph s) ++ exports_inner_deep (s_exports s).

(** * Separation *)

(** The allocator invariant. *)
Definition Bounded (s : state) : Prop := forall l, In l (all_locs s) -> l < s_next s.

(** [Sep]: no identity is reachable twice — neither from two different owners (the graph, export
    1, export 2, …), nor from two different nodes / edges / cells of one owner. *)
Definition Sep (s : state) : Prop := Bounded s /\ NoDup (all_locs s).

(** The same at the container level only (dicts, lists, arrays, networkx objects). *)
Definition SepOuter (s : state) : Prop := Bounded s /\ NoDup (all_outer s).

(** [Sep] with the ONE carve-out: a nested value of an export made by a SHALLOW copy may
    coincide with a nested value of the graph (and hence of another shallow export) — with
    nothing else: not with a container, not with anything inside a deep export. *)
Definition Sep' (s : state) : Prop :=
  Bounded s /\ NoDup (strict_locs s) /\
  (forall l, In l (exports_inner_shallow (s_exports s)) -> In l (strict_locs s) ->
             In l (g_inner (s_graph s))).

(** * Copy levels and the measured table *)

Inductive level :=
| LNone      (* the result carries nothing of that sort *)
| LHandle    (* the result lists the graph's own Node / Edge objects (API handles): the export
                owns only the list container *)
| LAlias     (* the very same container *)
| LShallow   (* new container, same nested values ([dict.copy()]) *)
| LDeep.     (* new container, new nested values ([deepcopy]) *)

Definition level_eqb (a b : level) : bool :=
  match a, b with
  | LNone, LNone | LHandle, LHandle | LAlias, LAlias | LShallow, LShallow | LDeep, LDeep => true
  | _, _ => false
  end.

Open Scope string_scope.

(** Unknown words are read as the WORST level, so that a typo can never make a theorem true. *)
Definition level_of_string (w : string) : level :=
  if String.eqb w "none" then LNone
  else if String.eqb w "handle" then LHandle
  else if String.eqb w "shallow" then LShallow
  else if String.eqb w "deep" then LDeep
  else LAlias.

(** (operation, level of node + edge metadata, level of graph metadata / cells), as measured by
    [id()] on graphs whose graph, node and edge metadata is [{'a': [1, {'b': 2}]}]. *)
Definition copy_discipline : list (string * string * string) :=
  [ ("to_networkx",                          "none",    "deep");
    ("adjacency_matrix",                     "none",    "deep");
    ("to_numpy",                             "none",    "deep");
    ("to_dict",                              "shallow", "shallow");
    ("variables",                            "none",    "deep");
    ("get_nodes_at_lag",                     "handle",  "deep");
    ("get_nodes_for_variable_name",          "handle",  "deep");
    ("get_node_names",                       "none",    "deep");
    ("copy",                                 "deep",    "deep");
    ("get_minimal_graph",                    "deep",    "deep");
    ("extend_graph",                         "deep",    "deep");
    ("get_stationary_graph",                 "deep",    "deep");
    ("get_summary_graph",                    "deep",    "deep");
    ("get_ancestral_graph",                  "deep",    "deep");
    ("get_descendant_graph",                 "deep",    "deep");
    ("get_parents_graph",                    "deep",    "deep");
    ("get_children_graph",                   "deep",    "deep");
    ("from_causal_graph",                    "deep",    "deep");
    ("CausalGraph.from_dict(ts.to_dict())",  "deep",    "deep") ].

Fixpoint find_row (w : string) (t : list (string * string * string))
  : option (string * string) :=
  match t with
  | [] => None
  | (n, a, b) :: t' => if String.eqb w n then Some (a, b) else find_row w t'
  end.

Close Scope string_scope.

(** * Operations *)

(** Which part of the source graph a derived graph is built from (decided by the graph
    structure, which this model does not carry): indices into [g_nodes] / [g_edges] (an index
    may occur several times — [extend_graph] copies one node once per lag; an out-of-range index
    selects nothing), the number of nodes created from scratch ([add_node(name)]) and the number
    of index lists the derived graph owns. *)
Record shape := { sh_nodes : list nat; sh_edges : list nat; sh_fresh_nodes : nat; sh_cells : nat }.

Inductive xop :=
| ExportNx                                      (* to_networkx() *)
| ExportAdj (with_names : bool)                 (* adjacency_matrix / to_numpy() *)
| ExportDict (endpoints : list nat)             (* to_dict(); node dicts repeated inside edge dicts *)
| ExportVariables                               (* variables *)
| ExportNodesAtLag (by_variable : bool) (i : nat) (* get_nodes_at_lag / get_nodes_for_variable_name *)
| ExportNames                                   (* get_node_names() *)
| Copy                                          (* copy(), copy.copy, copy.deepcopy *)
| Minimal (sh : shape)
| Extend (sh : shape)
| Stationary (sh : shape)
| Summary (sh : shape)
| SubGraph (descendant : bool) (sh : shape)     (* get_ancestral_graph / get_descendant_graph *)
| ParentsGraph (children : bool) (sh : shape)   (* get_parents_graph / get_children_graph *)
| ClassConvert (to_plain : bool).               (* from_causal_graph(plain) / CausalGraph.from_dict(ts.to_dict()) *)

(** Mutations of the source graph.  New nodes / edges get identities that are new to the
    system: [add_node(meta=m)] shallow-copies [m]; [add_edge(meta=m)] makes the caller's dict
    the edge's dict — the caller's object then IS graph state, still not an export. *)
Inductive gmut :=
| GAddNode (n_inner : nat) (new_lag_list new_var_list : bool)
| GAddEdge (n_inner : nat)
| GDelNode (i : nat)
| GDelEdge (i : nat)
| GReplaceNode (i : nat)        (* replace_node(old, new): Node(new, meta=old.meta) = new dict,
                                   SAME nested values; the old node is deleted *)
| GDropIndexList (var : bool) (i : nat)   (* an index list that became empty is deleted *)
| GWriteAll.                    (* writes through node / edge handles: g.get_node(x).meta[...] ... *)

Inductive op :=
| X (x : xop)
| MutateGraphMeta (new_inner : nat)   (* g.meta[k] = <new mutable value> *)
| MutateGraph (m : gmut)
| MutateExport (i : nat)              (* writes through EVERY identity reachable from export i *)
| MutateExportOuter (i : nat).        (* writes to the containers of export i only *)

Coercion X : xop >-> op.

Open Scope string_scope.
Definition row_of (x : xop) : string :=
  match x with
  | ExportNx => "to_networkx"
  | ExportAdj false => "adjacency_matrix"
  | ExportAdj true => "to_numpy"
  | ExportDict _ => "to_dict"
  | ExportVariables => "variables"
  | ExportNodesAtLag false _ => "get_nodes_at_lag"
  | ExportNodesAtLag true _ => "get_nodes_for_variable_name"
  | ExportNames => "get_node_names"
  | Copy => "copy"
  | Minimal _ => "get_minimal_graph"
  | Extend _ => "extend_graph"
  | Stationary _ => "get_stationary_graph"
  | Summary _ => "get_summary_graph"
  | SubGraph false _ => "get_ancestral_graph"
  | SubGraph true _ => "get_descendant_graph"
  | ParentsGraph false _ => "get_parents_graph"
  | ParentsGraph true _ => "get_children_graph"
  | ClassConvert false => "from_causal_graph"
  | ClassConvert true => "CausalGraph.from_dict(ts.to_dict())"
  end.
Close Scope string_scope.

(** (node level, edge level, graph-metadata / cell level) of an operation, READ FROM THE TABLE.
    A missing row is read as the worst level. *)
Definition levels_of (x : xop) : level * level * level :=
  match find_row (row_of x) copy_discipline with
  | Some (a, b) => (level_of_string a, level_of_string a, level_of_string b)
  | None => (LAlias, LAlias, LAlias)
  end.

Definition kind_of (x : xop) : N :=
  match x with
  | ExportNx => 10 | ExportAdj false => 11 | ExportAdj true => 12 | ExportDict _ => 13
  | ExportVariables => 14 | ExportNodesAtLag false _ => 15 | ExportNodesAtLag true _ => 16
  | ExportNames => 17 | Copy => 20 | Minimal _ => 21 | Extend _ => 22 | Stationary _ => 23
  | Summary _ => 24 | SubGraph false _ => 25 | SubGraph true _ => 26
  | ParentsGraph false _ => 27 | ParentsGraph true _ => 28
  | ClassConvert false => 29 | ClassConvert true => 30
  end%N.

(** * Allocation *)

Definition copy_mref (lv : level) (n : loc) (m : mref) : list mref * loc :=
  match lv with
  | LNone | LHandle => ([], n)
  | LAlias => ([m], n)
  | LShallow => ([{| outer := n; inner := inner m |}], S n)
  | LDeep => ([{| outer := n; inner := seq (S n) (length (inner m)) |}], S n + length (inner m))
  end.

Fixpoint copy_mrefs (lv : level) (n : loc) (ms : list mref) : list mref * loc :=
  match ms with
  | [] => ([], n)
  | m :: ms' =>
      let '(a, n1) := copy_mref lv n m in
      let '(b, n2) := copy_mrefs lv n1 ms' in
      (a ++ b, n2)
  end.

(** Cells (cache objects, lists, arrays): [src] are the graph's cells the result is a copy of,
    [extra] further containers that exist only in the result. *)
Definition copy_cells (lv : level) (n : loc) (src : list loc) (extra : nat) : list loc * loc :=
  match lv with
  | LNone | LHandle => ([], n)
  | LAlias => (src, n)
  | LShallow | LDeep => (seq n (length src + extra), n + (length src + extra))
  end.

Definition fresh_mrefs (n : loc) (k : nat) : list mref :=
  map (fun l => {| outer := l; inner := [] |}) (seq n k).

Definition sel (ms : list mref) (idx : list nat) : list mref :=
  flat_map (fun i => match nth_error ms i with Some m => [m] | None => [] end) idx.

Definition is_shallow (lv : level) : bool := level_eqb lv LShallow.

(** THE generic export: copy the given graph metadata, cells, node metadata and edge metadata
    at the given levels, allocate [fresh_nodes] brand-new nodes, and hand the result out.  The
    source graph is not touched. *)
Definition export_with (kind : N) (nl el gl : level) (ns es gm : list mref) (src_cells : list loc)
    (extra_cells fresh_nodes : nat) (s : state) : state :=
  let n0 := s_next s in
  let '(gm', n1) := copy_mrefs gl n0 gm in
  let '(cs', n2) := copy_cells gl n1 src_cells extra_cells in
  let '(ns', n3) := copy_mrefs nl n2 ns in
  let '(es', n4) := copy_mrefs el n3 es in
  let fn := fresh_mrefs n4 fresh_nodes in
  {| s_next := n4 + fresh_nodes;
     s_graph := s_graph s;
     s_exports := s_exports s ++
       [ {| e_kind := kind;
            e_shallow := is_shallow nl || is_shallow el || is_shallow gl;
            e_holders := {| h_kind := kind; h_meta := gm'; h_cells := cs' |}
                           :: map node_holder (ns' ++ fn) ++ map edge_holder es' |} ];
     s_log := s_log s |}.

(** * Cache filling (the only effect an export operation has on the source graph) *)

Definition fill_opt (c : option loc) (n : loc) : option loc * loc :=
  match c with Some l => (Some l, n) | None => (Some n, S n) end.

(** Which caches the operation fills when they are empty: (_networkx, _adjacency, _variables).
    Measured: ancestral / descendant graphs and the summary graph call [to_networkx] (through
    [get_ancestors] / [is_dag]); minimal / extended / stationary graphs read [variables]. *)
Definition fills (x : xop) : bool * bool * bool :=
  match x with
  | ExportNx | Summary _ | SubGraph _ _ => (true, false, false)
  | ExportAdj _ => (false, true, false)
  | ExportVariables | Minimal _ | Extend _ | Stationary _ => (false, false, true)
  | _ => (false, false, false)
  end.

Definition with_caches (g : graph) (nx adj vars : option loc) : graph :=
  {| g_meta := g_meta g; g_nodes := g_nodes g; g_edges := g_edges g;
     g_nx := nx; g_adj := adj; g_variables := vars;
     g_lag_lists := g_lag_lists g; g_var_lists := g_var_lists g |}.

Definition fill_caches (f : bool * bool * bool) (s : state) : state :=
  let '(fnx, fadj, fvar) := f in
  let g := s_graph s in
  let n0 := s_next s in
  let '(nx, n1) := if fnx then fill_opt (g_nx g) n0 else (g_nx g, n0) in
  let '(adj, n2) := if fadj then fill_opt (g_adj g) n1 else (g_adj g, n1) in
  let '(vars, n3) := if fvar then fill_opt (g_variables g) n2 else (g_variables g, n2) in
  {| s_next := n3; s_graph := with_caches g nx adj vars;
     s_exports := s_exports s; s_log := s_log s |}.

(** * What each operation copies *)

Definition nth_cell (l : list loc) (i : nat) : list loc :=
  match nth_error l i with Some c => [c] | None => [] end.

Definition x_nodes (x : xop) (g : graph) : list mref :=
  match x with
  | ExportDict ep => g_nodes g ++ sel (g_nodes g) ep
  | Copy | ClassConvert _ => g_nodes g
  | Minimal sh | Extend sh | Stationary sh | Summary sh | SubGraph _ sh | ParentsGraph _ sh =>
      sel (g_nodes g) (sh_nodes sh)
  | _ => []
  end.

Definition x_edges (x : xop) (g : graph) : list mref :=
  match x with
  | ExportDict _ | Copy | ClassConvert _ => g_edges g
  | Minimal sh | Extend sh | Stationary sh | Summary sh | SubGraph _ sh | ParentsGraph _ sh =>
      sel (g_edges g) (sh_edges sh)
  | _ => []
  end.

Definition x_gmeta (x : xop) (g : graph) : list mref :=
  match x with
  | ExportDict _ | Copy | ClassConvert _
  | Minimal _ | Extend _ | Stationary _ | Summary _ | SubGraph _ _ | ParentsGraph _ _ => [g_meta g]
  | _ => []
  end.

(** The graph cells the result is a copy of (after the cache has been filled). *)
Definition x_src_cells (x : xop) (g : graph) : list loc :=
  match x with
  | ExportNx => opt (g_nx g)
  | ExportAdj _ => opt (g_adj g)
  | ExportVariables => opt (g_variables g)
  | ExportNodesAtLag false i => nth_cell (g_lag_lists g) i
  | ExportNodesAtLag true i => nth_cell (g_var_lists g) i
  | Copy => g_lag_lists g ++ g_var_lists g
  | _ => []
  end.

(** Containers that exist only in the result (indicative counts). *)
Definition x_extra (x : xop) (g : graph) : nat :=
  match x with
  | ExportAdj true => 1                                    (* the list of names *)
  | ExportDict ep => 3 + length (g_nodes g) + length (g_edges g) + length ep
  | ExportNodesAtLag false i => 1 - length (nth_cell (g_lag_lists g) i)   (* list([]) *)
  | ExportNodesAtLag true i => 1 - length (nth_cell (g_var_lists g) i)
  | ExportNames => 1
  | Minimal sh | Extend sh | Stationary sh | Summary sh | SubGraph _ sh | ParentsGraph _ sh =>
      sh_cells sh
  | ClassConvert false => 2
  | _ => 0
  end.

Definition x_fresh (x : xop) : nat :=
  match x with Summary sh => sh_fresh_nodes sh | _ => 0 end.

Definition step_export (s : state) (x : xop) : state :=
  let s1 := fill_caches (fills x) s in
  let g := s_graph s1 in
  let '(nl, el, gl) := levels_of x in
  export_with (kind_of x) nl el gl (x_nodes x g) (x_edges x g) (x_gmeta x g)
              (x_src_cells x g) (x_extra x g) (x_fresh x) s1.

(** * Mutations *)

Definition remove_nth {A} (i : nat) (l : list A) : list A := firstn i l ++ skipn (S i) l.

Definition fresh_mref (n : loc) (k : nat) : mref := {| outer := n; inner := seq (S n) k |}.

Definition set_nodes (g : graph) (ns : list mref) : graph :=
  {| g_meta := g_meta g; g_nodes := ns; g_edges := g_edges g;
     g_nx := None; g_adj := None; g_variables := None;
     g_lag_lists := g_lag_lists g; g_var_lists := g_var_lists g |}.
Definition set_edges (g : graph) (es : list mref) : graph :=
  {| g_meta := g_meta g; g_nodes := g_nodes g; g_edges := es;
     g_nx := None; g_adj := None; g_variables := None;
     g_lag_lists := g_lag_lists g; g_var_lists := g_var_lists g |}.
Definition set_lists (g : graph) (ll vl : list loc) : graph :=
  {| g_meta := g_meta g; g_nodes := g_nodes g; g_edges := g_edges g;
     g_nx := None; g_adj := None; g_variables := None;
     g_lag_lists := ll; g_var_lists := vl |}.

Definition b2n (b : bool) : nat := if b then 1 else 0.

(** Every structural mutation resets the caches ([reset_cached_attributes_decorator]). *)
Definition step_gmut (s : state) (m : gmut) : state :=
  let g := s_graph s in
  let n := s_next s in
  match m with
  | GAddNode k nl nv =>
      let g1 := set_nodes g (g_nodes g ++ [fresh_mref n k]) in
      let n1 := S n + k in
      let g2 := set_lists g1 (g_lag_lists g ++ seq n1 (b2n nl))
                             (g_var_lists g ++ seq (n1 + b2n nl) (b2n nv)) in
      {| s_next := n1 + b2n nl + b2n nv; s_graph := g2; s_exports := s_exports s;
         s_log := g_lag_lists g ++ g_var_lists g ++ s_log s |}
  | GAddEdge k =>
      {| s_next := S n + k; s_graph := set_edges g (g_edges g ++ [fresh_mref n k]);
         s_exports := s_exports s; s_log := s_log s |}
  | GDelNode i =>
      {| s_next := n; s_graph := set_nodes g (remove_nth i (g_nodes g));
         s_exports := s_exports s; s_log := g_lag_lists g ++ g_var_lists g ++ s_log s |}
  | GDelEdge i =>
      {| s_next := n; s_graph := set_edges g (remove_nth i (g_edges g));
         s_exports := s_exports s; s_log := s_log s |}
  | GReplaceNode i =>
      match nth_error (g_nodes g) i with
      | Some old =>
          {| s_next := S n;
             s_graph := set_nodes g (remove_nth i (g_nodes g) ++ [{| outer := n; inner := inner old |}]);
             s_exports := s_exports s; s_log := g_lag_lists g ++ g_var_lists g ++ s_log s |}
      | None => s          (* the real call raises; nothing changes *)
      end
  | GDropIndexList false i =>
      {| s_next := n; s_graph := set_lists g (remove_nth i (g_lag_lists g)) (g_var_lists g);
         s_exports := s_exports s; s_log := s_log s |}
  | GDropIndexList true i =>
      {| s_next := n; s_graph := set_lists g (g_lag_lists g) (remove_nth i (g_var_lists g));
         s_exports := s_exports s; s_log := s_log s |}
  | GWriteAll =>
      {| s_next := n; s_graph := g; s_exports := s_exports s;
         s_log := g_outer g ++ g_inner g ++ s_log s |}
  end.

Definition step_gmeta (s : state) (k : nat) : state :=
  let g := s_graph s in
  let n := s_next s in
  {| s_next := n + k;
     s_graph := {| g_meta := {| outer := outer (g_meta g); inner := inner (g_meta g) ++ seq n k |};
                   g_nodes := g_nodes g; g_edges := g_edges g;
                   g_nx := g_nx g; g_adj := g_adj g; g_variables := g_variables g;
                   g_lag_lists := g_lag_lists g; g_var_lists := g_var_lists g |};
     s_exports := s_exports s;
     s_log := outer (g_meta g) :: s_log s |}.

(** The identities a mutation of export [i] writes through. *)
Definition writes (s : state) (i : nat) : list loc :=
  match nth_error (s_exports s) i with Some e => e_reach e | None => [] end.
Definition writes_outer (s : state) (i : nat) : list loc :=
  match nth_error (s_exports s) i with Some e => e_outer e | None => [] end.

Definition log_writes (s : state) (w : list loc) : state :=
  {| s_next := s_next s; s_graph := s_graph s; s_exports := s_exports s; s_log := w ++ s_log s |}.

Definition step (s : state) (o : op) : state :=
  match o with
  | X x => step_export s x
  | MutateGraphMeta k => step_gmeta s k
  | MutateGraph m => step_gmut s m
  | MutateExport i => log_writes s (writes s i)
  | MutateExportOuter i => log_writes s (writes_outer s i)
  end.

Definition run (s : state) (ops : list op) : state := fold_left step ops s.

(** A freshly constructed empty graph: [CausalGraph()] — [meta = dict()]. *)
Definition empty_graph : graph :=
  {| g_meta := {| outer := 0; inner := [] |}; g_nodes := []; g_edges := [];
     g_nx := None; g_adj := None; g_variables := None; g_lag_lists := []; g_var_lists := [] |}.

Definition init : state :=
  {| s_next := 1; s_graph := empty_graph; s_exports := []; s_log := [] |}.

(** * Observation: how often each identity has been written through *)

Definition content (s : state) (l : loc) : nat := count_occ Nat.eq_dec (s_log s) l.
Definition observe (s : state) (ls : list loc) : list nat := map (content s) ls.

Definition observe_graph (s : state) : list nat :=
  observe s (g_outer (s_graph s) ++ g_inner (s_graph s)).
Definition observe_export (s : state) (j : nat) : list nat :=
  match nth_error (s_exports s) j with Some e => observe s (e_reach e) | None => [] end.

(** Everything of the source graph that an export operation must leave alone: all identities
    except the three cache slots (an empty slot may be filled). *)
Definition graph_core (g : graph) : mref * list mref * list mref * list loc * list loc :=
  (g_meta g, g_nodes g, g_edges g, g_lag_lists g, g_var_lists g).

Definition slot_kept (before after : option loc) : Prop :=
  match before with Some l => after = Some l | None => True end.

(** * Executable checks (used by [vm_compute] examples and by the harness) *)

Fixpoint nodupb (l : list loc) : bool :=
  match l with
  | [] => true
  | x :: l' => negb (existsb (Nat.eqb x) l') && nodupb l'
  end.

Definition boundedb (s : state) : bool := forallb (fun l => Nat.ltb l (s_next s)) (all_locs s).
Definition sepb (s : state) : bool := boundedb s && nodupb (all_locs s).
Definition sep_outerb (s : state) : bool := boundedb s && nodupb (all_outer s).
Definition memb (l : loc) (ls : list loc) : bool := existsb (Nat.eqb l) ls.
Definition sep'b (s : state) : bool :=
  boundedb s && nodupb (strict_locs s) &&
  forallb (fun l => negb (memb l (strict_locs s)) || memb l (g_inner (s_graph s)))
          (exports_inner_shallow (s_exports s)).
