(** SkeletonProofs.v — proofs about Skeleton.v (property C09).

    LIVENESS.  In the implementation a [Skeleton] stores only a reference to its graph; in the
    model every skeleton view ([sk_nodes], [sk_edges], [sk_adjacency], [sk_neighbors], ...) is a
    function of the CURRENT state [g].  "The skeleton follows every later mutation" is therefore
    immediate: the view after a mutation [o] is, by definition, the view of [step g o], and every
    theorem below holds of it because [Inv] is preserved by [step] (GraphInvProofs.v).  That the
    implementation keeps no copy is what the correspondence check establishes: it takes
    [graph.skeleton] BEFORE the history and compares all members after every mutation. *)
From CG Require Import Base Digraph Graph GraphObs GraphInv Matrix Skeleton MatrixProofs.
Set Implicit Arguments.

(** two names are adjacent: an edge of any type joins them, in either orientation *)
Definition adjacent (g : graph) (s d : name) : Prop :=
  In (s, d) (edge_keys g) \/ In (d, s) (edge_keys g).

Lemma adjacent_sym g s d : adjacent g s d <-> adjacent g d s.
Proof. unfold adjacent; tauto. Qed.

Lemma adjacent_edge g s d :
  adjacent g s d <-> exists e, In e (gsrc g) /\ (edge_key e = (s, d) \/ edge_key e = (d, s)).
Proof.
  unfold adjacent, edge_keys. rewrite !in_map_iff. split.
  - intros [(e & He & Hin)|(e & He & Hin)]; exists e; auto.
  - intros (e & Hin & [He|He]); [left|right]; exists e; auto.
Qed.

(** * Nodes *)

Lemma map_res_ok_map {A B} (f : A -> res B) (h : A -> B) l :
  (forall x, In x l -> f x = Ok (h x)) -> map_res f l = Ok (map h l).
Proof.
  induction l as [|x l IH]; intros H; simpl; [reflexivity|].
  rewrite (H x (or_introl eq_refl)). simpl. rewrite IH; [reflexivity|].
  intros y Hy. apply H. right; exact Hy.
Qed.

Lemma nodes_sorted_in g n : In n (nodes_sorted g) <-> In n (gnodes g).
Proof. unfold nodes_sorted. apply isort_in. Qed.

Lemma lookup_meta_set_eq k v m : lookup k (meta_set k v m) = Some v.
Proof.
  induction m as [|[k' v'] m IH]; simpl.
  - rewrite name_eqb_refl. reflexivity.
  - destruct (name_eqb_spec k k') as [->|Hn]; simpl.
    + rewrite name_eqb_refl. reflexivity.
    + destruct (name_ltb k k'); simpl.
      * rewrite name_eqb_refl. reflexivity.
      * destruct (name_eqb_spec k k'); [contradiction|exact IH].
Qed.

Lemma lookup_meta_set_neq k k2 v m : k2 <> k -> lookup k2 (meta_set k v m) = lookup k2 m.
Proof.
  intros Hn. induction m as [|[k' v'] m IH]; simpl.
  - destruct (name_eqb_spec k2 k); [contradiction|reflexivity].
  - destruct (name_eqb_spec k k') as [->|Hn']; simpl.
    + destruct (name_eqb_spec k2 k'); [contradiction|reflexivity].
    + destruct (name_ltb k k'); simpl.
      * destruct (name_eqb_spec k2 k); [contradiction|reflexivity].
      * destruct (name_eqb k2 k'); [reflexivity|exact IH].
Qed.

Lemma set_tags_var v l m : meta_var (set_tags v l m) = Some v.
Proof. unfold meta_var, meta_get, set_tags. rewrite lookup_meta_set_eq. reflexivity. Qed.

Lemma set_tags_lag v l m : meta_lag (set_tags v l m) = Some l.
Proof.
  unfold meta_lag, meta_get, set_tags.
  rewrite lookup_meta_set_neq; [|vm_compute; discriminate].
  rewrite lookup_meta_set_eq. reflexivity.
Qed.

(** the node triple [Skeleton.nodes] rebuilds from a stored node *)
Definition sk_node_of (parse : name -> option (name * Z)) (k : kind) (n : node) : node3 :=
  (nid n, nvt n,
   match k with
   | Plain => nmeta n
   | TS => match parse (nid n) with
           | Some (v, l) => set_tags v l (nmeta n)
           | None => nmeta n
           end
   end).

(** [skeleton.nodes] has exactly the graph's nodes, in the order of [get_nodes()]: same
    identifiers, same variable types; for the plain class the same metadata; for the
    time-series class the metadata with the reserved tags re-derived from the identifier. *)
Theorem sk_nodes_spec parse k g :
  Inv parse k g ->
  sk_nodes parse k g = Ok (map (sk_node_of parse k) (nodes_sorted g))
  /\ map n3_id (map (sk_node_of parse k) (nodes_sorted g)) = v_node_names g
  /\ map (fun n : node3 => (n3_id n, snd (fst n))) (map (sk_node_of parse k) (nodes_sorted g))
     = map (fun n : node3 => (n3_id n, snd (fst n))) (v_nodes g)
  /\ (k = Plain -> map (sk_node_of parse k) (nodes_sorted g) = v_nodes g).
Proof.
  intros HI. split; [|split; [|split]].
  - unfold sk_nodes. apply map_res_ok_map. intros n Hn. apply nodes_sorted_in in Hn.
    unfold sk_node, sk_node_of, mk_node. destruct k; [reflexivity|].
    destruct (ts_nodeok (inv_ts HI eq_refl) n Hn) as (v & l & Hp & _ & _).
    rewrite Hp. reflexivity.
  - unfold v_node_names. rewrite map_map. apply map_ext. intros n. reflexivity.
  - unfold v_nodes. rewrite !map_map. apply map_ext. intros n. reflexivity.
  - intros ->. unfold v_nodes. apply map_ext. intros n. reflexivity.
Qed.

Theorem sk_nodes_ts_tags parse g n :
  Inv parse TS g -> In n (map (sk_node_of parse TS) (nodes_sorted g)) ->
  exists v l, parse (n3_id n) = Some (v, l)
              /\ meta_var (snd n) = Some v /\ meta_lag (snd n) = Some l.
Proof.
  intros HI Hn. apply in_map_iff in Hn. destruct Hn as (x & <- & Hx).
  apply nodes_sorted_in in Hx.
  destruct (ts_nodeok (inv_ts HI eq_refl) x Hx) as (v & l & Hp & _ & _).
  exists v, l. unfold sk_node_of, n3_id; simpl. rewrite Hp.
  split; [reflexivity|]. split; [apply set_tags_var|apply set_tags_lag].
Qed.

Theorem sk_node_exists_spec g id : sk_node_exists g id = true <-> In id (node_ids g).
Proof. unfold sk_node_exists, sk_node_names. rewrite mem_in. apply v_node_names_in. Qed.

(** * Edges *)

Lemma edge_key_retype e : edge_key (retype_und e) = edge_key e.
Proof. reflexivity. Qed.

Lemma sk_edge_pairs_eq g : sk_edge_pairs g = map edge_key (v_edges g).
Proof.
  unfold sk_edge_pairs, sk_edges. rewrite map_map. apply map_ext. intros e; reflexivity.
Qed.

Lemma sk_edge_pairs_perm g : Permutation (edge_keys g) (sk_edge_pairs g).
Proof. rewrite sk_edge_pairs_eq. unfold edge_keys. apply Permutation_map, v_edges_perm. Qed.

(** [skeleton.edges] has exactly one edge per stored edge, on the same ordered pair, every one
    of them undirected, and no two on the same pair *)
Theorem sk_edges_spec parse k g :
  Inv parse k g ->
  (forall s d, In (s, d) (map edge_key (sk_edges g)) <-> In (s, d) (edge_keys g))
  /\ (forall e, In e (sk_edges g) -> ety e = Und)
  /\ NoDup (map edge_key (sk_edges g))
  /\ length (sk_edges g) = length (gsrc g)
  /\ (forall e', In e' (sk_edges g) <-> exists e, In e (gsrc g) /\ e' = retype_und e).
Proof.
  intros HI. fold (sk_edge_pairs g). split; [|split; [|split; [|split]]].
  - intros s d. split; apply Permutation_in; [symmetry|]; apply sk_edge_pairs_perm.
  - intros e He. unfold sk_edges in He. apply in_map_iff in He. destruct He as (x & <- & _).
    reflexivity.
  - eapply Permutation_NoDup; [apply sk_edge_pairs_perm|apply (inv_nodup_keys HI)].
  - unfold sk_edges. rewrite map_length. symmetry. apply Permutation_length, v_edges_perm.
  - intros e'. unfold sk_edges. rewrite in_map_iff. split.
    + intros (e & <- & He). exists e. split; [apply v_edges_in; exact He|reflexivity].
    + intros (e & He & ->). exists e. split; [reflexivity|apply v_edges_in; exact He].
Qed.

Lemma pair_mem_in p l : pair_mem p l = true <-> In p l.
Proof.
  unfold pair_mem. rewrite existsb_exists. split.
  - intros (q & Hq & E). destruct (pair_eqb_spec p q); [subst; exact Hq|discriminate].
  - intros H. exists p. split; [exact H|]. destruct (pair_eqb_spec p p); congruence.
Qed.

(** existence ignores orientation *)
Theorem sk_exists_sym g s d : sk_edge_exists g s d = sk_edge_exists g d s.
Proof. unfold sk_edge_exists. apply orb_comm. Qed.

Theorem sk_exists_spec g s d : sk_edge_exists g s d = true <-> adjacent g s d.
Proof.
  unfold sk_edge_exists, adjacent. rewrite orb_true_iff, !pair_mem_in.
  split; intros [H|H]; [left|right|left|right]; revert H; apply Permutation_in;
    try apply sk_edge_pairs_perm; symmetry; apply sk_edge_pairs_perm.
Qed.

(** [get_edge] finds the one undirected edge joining two adjacent names, whatever the order
    they are given in, and raises AssertionError otherwise; the "more than one" assertion never
    fires *)
Theorem sk_get_edge_spec parse k g s d :
  Inv parse k g ->
  (adjacent g s d ->
   exists e, sk_get_edge g s d = Ok e /\ In e (sk_edges g) /\ ety e = Und
             /\ (edge_key e = (s, d) \/ edge_key e = (d, s)))
  /\ (~ adjacent g s d -> sk_get_edge g s d = Err EAssert).
Proof.
  intros HI. destruct (sk_edges_spec HI) as (Hkeys & Hund & Hnd & _ & Hchar).
  set (p := fun e => pair_eqb (edge_key e) (s, d) || pair_eqb (edge_key e) (d, s)).
  assert (Hp : forall e, p e = true <-> edge_key e = (s, d) \/ edge_key e = (d, s)).
  { intros e. unfold p. rewrite orb_true_iff.
    destruct (pair_eqb_spec (edge_key e) (s, d)), (pair_eqb_spec (edge_key e) (d, s));
      split; intros [H|H]; auto; discriminate. }
  assert (Hfil : forall e, In e (filter p (sk_edges g)) <->
                           In e (sk_edges g) /\ (edge_key e = (s, d) \/ edge_key e = (d, s))).
  { intros e. rewrite filter_In, Hp. reflexivity. }
  unfold sk_get_edge. fold p.
  destruct (filter p (sk_edges g)) as [|e1 [|e2 rest]] eqn:Ef.
  - split; [|reflexivity]. intros Hadj. exfalso.
    destruct Hadj as [H|H]; apply Hkeys, in_map_iff in H; destruct H as (e & He & Hin);
      apply (proj2 (Hfil e)); auto.
  - split; [|intros Hn; exfalso; apply Hn].
    + intros _. exists e1. destruct (proj1 (Hfil e1) (or_introl eq_refl)) as [Hin Hk].
      split; [reflexivity|]. split; [exact Hin|]. split; [apply Hund; exact Hin|exact Hk].
    + destruct (proj1 (Hfil e1) (or_introl eq_refl)) as [Hin Hk].
      destruct Hk as [Hk|Hk]; [left|right]; apply Hkeys; rewrite <- Hk; apply in_map; exact Hin.
  - exfalso.
    destruct (proj1 (Hfil e1) (or_introl eq_refl)) as [Hin1 Hk1].
    destruct (proj1 (Hfil e2) (or_intror (or_introl eq_refl))) as [Hin2 Hk2].
    assert (Hne : e1 <> e2).
    { assert (Hndf : NoDup (filter p (sk_edges g)))
        by (apply NoDup_filter; eapply NoDup_map_inv; exact Hnd).
      rewrite Ef in Hndf. inversion Hndf as [|? ? Hnot _]; subst.
      intros ->. apply Hnot. left; reflexivity. }
    assert (Hrev : forall a b, In a (sk_edges g) -> In b (sk_edges g) ->
                               edge_key a = (s, d) -> edge_key b = (d, s) -> False).
    { intros a b Ha Hb Hka Hkb. apply Hchar in Ha, Hb.
      destruct Ha as (a0 & Ha0 & ->). destruct Hb as (b0 & Hb0 & ->).
      rewrite edge_key_retype in Hka, Hkb.
      apply (inv_noreverse HI a0 Ha0). unfold edge_key in Hka. injection Hka as -> ->.
      unfold edge_keys. rewrite <- Hkb. apply in_map; exact Hb0. }
    destruct Hk1 as [Hk1|Hk1]; destruct Hk2 as [Hk2|Hk2].
    + apply Hne. eapply NoDup_map_inj; [exact Hnd|exact Hin1|exact Hin2|congruence].
    + eapply Hrev; [exact Hin1|exact Hin2|exact Hk1|exact Hk2].
    + eapply Hrev; [exact Hin2|exact Hin1|exact Hk2|exact Hk1].
    + apply Hne. eapply NoDup_map_inj; [exact Hnd|exact Hin1|exact Hin2|congruence].
Qed.

(** * Adjacency matrix *)

Lemma sk_adj_step_eq names acc e :
  ety e = Und -> In (esrc e) names -> In (edst e) names ->
  sk_adj_step names acc e = to_matrix_step names acc e.
Proof.
  intros Hty Hs Hd. unfold sk_adj_step, to_matrix_step. destruct acc as [a|x]; [|reflexivity].
  simpl. rewrite Hty.
  destruct (index_of_in _ _ Hs) as [i ->]. destruct (index_of_in _ _ Hd) as [j ->]. reflexivity.
Qed.

Lemma sk_adj_fold_eq names es : forall acc,
  (forall e, In e es -> ety e = Und /\ In (esrc e) names /\ In (edst e) names) ->
  fold_left (sk_adj_step names) es acc = fold_left (to_matrix_step names) es acc.
Proof.
  induction es as [|e es IH]; intros acc H; [reflexivity|]. cbn [fold_left].
  destruct (H e (or_introl eq_refl)) as (Hty & Hs & Hd).
  rewrite (@sk_adj_step_eq names acc e Hty Hs Hd). apply IH. intros e' He'. apply H. right; exact He'.
Qed.

Section SkAdjacency.
  Variable parse : name -> option (name * Z).
  Variable k : kind.
  Variable g : graph.
  Hypothesis HI : Inv parse k g.

  Lemma sk_edges_ok e :
    In e (sk_edges g) ->
    ety e = Und /\ In (esrc e) (v_node_names g) /\ In (edst e) (v_node_names g).
  Proof.
    intros He. unfold sk_edges in He. apply in_map_iff in He. destruct He as (x & <- & Hx).
    split; [reflexivity|]. apply (v_edges_endpoints HI _ Hx).
  Qed.

  Lemma sk_adjacency_eq :
    sk_adjacency g
    = fold_left (to_matrix_step (v_node_names g)) (sk_edges g)
        (Ok (zeros (length (v_node_names g)))).
  Proof. unfold sk_adjacency. apply sk_adj_fold_eq. exact sk_edges_ok. Qed.

  (** the skeleton's adjacency matrix always exists *)
  Theorem sk_adjacency_total : exists a, sk_adjacency g = Ok a.
  Proof.
    rewrite sk_adjacency_eq.
    apply to_matrix_fold_ok;
      [apply zeros_dims|intros i j Hi Hj; left; apply zeros_entry; assumption|].
    intros e He. destruct (sk_edges_ok _ He) as (Hty & Hs & Hd).
    split; [exact Hs|]. split; [exact Hd|]. rewrite Hty. reflexivity.
  Qed.

  Variable a : matrix.
  Hypothesis Ha : sk_adjacency g = Ok a.

  Lemma sk_adj_char :
    dims (length (v_node_names g)) a
    /\ (forall i j, i < length (v_node_names g) -> j < length (v_node_names g) ->
          entry a i j = Some 0%Z \/ entry a i j = Some 1%Z)
    /\ forall i j, i < length (v_node_names g) -> j < length (v_node_names g) ->
         (entry a i j = Some 1%Z <->
          exists e, In e (sk_edges g) /\ hit (v_node_names g) e i j).
  Proof.
    rewrite sk_adjacency_eq in Ha.
    destruct (@to_matrix_fold_char (v_node_names g) (sk_edges g) _ _ (zeros_dims _)
                (fun i j Hi Hj => or_introl (zeros_entry Hi Hj)) Ha) as (Hd & Hb & _ & Hc).
    split; [exact Hd|]. split; [exact Hb|].
    intros i j Hi Hj. rewrite (Hc i j Hi Hj), (zeros_entry Hi Hj).
    split; [intros [H|H]; [discriminate|exact H]|intros H; right; exact H].
  Qed.

  (** the matrix is square, binary and SYMMETRIC *)
  Theorem sk_adj_sym i j : entry a i j = entry a j i.
  Proof.
    destruct sk_adj_char as (Hd & Hb & Hc).
    set (n := length (v_node_names g)) in *.
    destruct (Nat.lt_ge_cases i n) as [Hi|Hi]; [destruct (Nat.lt_ge_cases j n) as [Hj|Hj]|].
    - assert (Hsym : entry a i j = Some 1%Z <-> entry a j i = Some 1%Z).
      { rewrite (Hc i j Hi Hj), (Hc j i Hj Hi).
        split; intros (e & He & Hh); exists e; (split; [exact He|]);
          destruct (sk_edges_ok _ He) as (Hty & _ & _); unfold hit in *; rewrite Hty in *;
          destruct Hh as [(H1 & H2 & _)|(H1 & H2 & _)]; auto. }
      destruct (Hb i j Hi Hj) as [H1|H1], (Hb j i Hj Hi) as [H2|H2]; try congruence.
      + apply Hsym in H2. congruence.
      + apply Hsym in H1. congruence.
    - destruct (entry a i j) as [z|] eqn:E1; [apply (@entry_lt _ _ _ _ _ Hd) in E1; lia|].
      destruct (entry a j i) as [z|] eqn:E2; [apply (@entry_lt _ _ _ _ _ Hd) in E2; lia|]. reflexivity.
    - destruct (entry a i j) as [z|] eqn:E1; [apply (@entry_lt _ _ _ _ _ Hd) in E1; lia|].
      destruct (entry a j i) as [z|] eqn:E2; [apply (@entry_lt _ _ _ _ _ Hd) in E2; lia|]. reflexivity.
  Qed.

  (** a 1 exactly for adjacent pairs (an edge of any type, either orientation), a 0 otherwise *)
  Theorem sk_adj_iff_adjacent i j ni nj :
    nth_error (v_node_names g) i = Some ni -> nth_error (v_node_names g) j = Some nj ->
    (entry a i j = Some 1%Z <-> adjacent g ni nj)
    /\ (entry a i j = Some 0%Z <-> ~ adjacent g ni nj).
  Proof.
    intros Hi Hj.
    destruct sk_adj_char as (Hd & Hb & Hc).
    assert (Hi' : i < length (v_node_names g)) by (apply nth_error_Some; congruence).
    assert (Hj' : j < length (v_node_names g)) by (apply nth_error_Some; congruence).
    assert (H1 : entry a i j = Some 1%Z <-> adjacent g ni nj).
    { rewrite (Hc i j Hi' Hj'), adjacent_edge. split.
      - intros (e' & He' & Hh). unfold sk_edges in He'. apply in_map_iff in He'.
        destruct He' as (e & <- & He). exists e. split; [apply v_edges_in; exact He|].
        unfold hit in Hh. rewrite <- !(names_index HI) in Hh. simpl in Hh. unfold edge_key.
        destruct Hh as [(Ha1 & Ha2 & _)|(Ha1 & Ha2 & _)]; [left|right]; f_equal; congruence.
      - intros (e & He & Hk). exists (retype_und e). split.
        + unfold sk_edges. apply in_map. apply v_edges_in; exact He.
        + unfold hit. rewrite <- !(names_index HI). simpl. unfold edge_key in Hk.
          destruct Hk as [Hk|Hk]; injection Hk as -> ->; [left|right]; auto. }
    split; [exact H1|]. rewrite <- H1.
    destruct (Hb i j Hi' Hj') as [H0|H0]; rewrite H0; split; intros H; congruence.
  Qed.
End SkAdjacency.

(** * Neighbours *)

Lemma v_edges_from_in g n e : In e (v_edges_from g n) <-> In e (gsrc g) /\ esrc e = n.
Proof.
  unfold v_edges_from, edges_from. rewrite isort_in, filter_In.
  destruct (name_eqb_spec n (esrc e)); split; intros [H1 H2]; split; auto; congruence.
Qed.

Lemma v_edges_into_in g n e : In e (v_edges_into g n) <-> In e (gdst g) /\ edst e = n.
Proof.
  unfold v_edges_into, edges_into. rewrite isort_in, filter_In.
  destruct (name_eqb_spec n (edst e)); split; intros [H1 H2]; split; auto; congruence.
Qed.

(** [get_neighbors] is orientation blind: the neighbours of a known node are exactly the
    names adjacent to it, each once, in sorted order; an unknown node raises AssertionError *)
Theorem sk_neighbors_spec parse k g n :
  Inv parse k g ->
  (In n (node_ids g) ->
   exists l, sk_neighbors g n = Ok l /\ NoDup l /\ StronglySorted (le name_leb) l
             /\ forall m, In m l <-> adjacent g n m)
  /\ (~ In n (node_ids g) -> sk_neighbors g n = Err EAssert).
Proof.
  intros HI. unfold sk_neighbors, sk_node_names. split.
  - intros Hn. rewrite (proj2 (mem_in n (v_node_names g)) (proj2 (v_node_names_in g n) Hn)).
    unfold v_neighbors. rewrite (proj2 (node_exists_in g n) Hn).
    eexists. split; [reflexivity|]. split; [|split].
    + unfold sort_names. eapply Permutation_NoDup; [apply isort_perm|apply dedup_nodup].
    + apply sort_names_sorted.
    + intros m. rewrite sort_names_in, dedup_in, filter_In, in_app_iff, !in_map_iff.
      rewrite adjacent_edge. split.
      * intros [[(e & <- & He)|(e & <- & He)] _].
        -- apply v_edges_from_in in He. destruct He as [He <-]. exists e. split; [exact He|left; reflexivity].
        -- apply v_edges_into_in in He. destruct He as [He <-]. exists e.
           split; [eapply Permutation_in; [apply (inv_mirror HI)|exact He]|right; reflexivity].
      * intros (e & He & Hk). split.
        -- unfold edge_key in Hk. destruct Hk as [Hk|Hk]; injection Hk as H1 H2.
           ++ left. exists e. split; [exact H2|]. apply v_edges_from_in. split; assumption.
           ++ right. exists e. split; [exact H1|]. apply v_edges_into_in. split; [|exact H2].
              eapply Permutation_in; [symmetry; apply (inv_mirror HI)|exact He].
        -- apply negb_true_iff, name_eqb_neq. intros ->.
           apply (inv_noloop HI e He). unfold edge_key in Hk.
           destruct Hk as [Hk|Hk]; injection Hk as H1 H2; congruence.
  - intros Hn.
    replace (mem n (v_node_names g)) with false; [reflexivity|].
    symmetry. apply mem_false. rewrite v_node_names_in. exact Hn.
Qed.

(** neighbourhood is symmetric *)
Corollary sk_neighbors_sym parse k g n m ln lm :
  Inv parse k g -> sk_neighbors g n = Ok ln -> sk_neighbors g m = Ok lm ->
  (In m ln <-> In n lm).
Proof.
  intros HI Hn Hm.
  destruct (sk_neighbors_spec n HI) as [Hn1 Hn2]. destruct (sk_neighbors_spec m HI) as [Hm1 Hm2].
  destruct (in_dec name_eq_dec n (node_ids g)) as [Hin|Hnin]; [|rewrite (Hn2 Hnin) in Hn; discriminate].
  destruct (in_dec name_eq_dec m (node_ids g)) as [Him|Hnim]; [|rewrite (Hm2 Hnim) in Hm; discriminate].
  destruct (Hn1 Hin) as (l1 & E1 & _ & _ & C1). destruct (Hm1 Him) as (l2 & E2 & _ & _ & C2).
  rewrite E1 in Hn. rewrite E2 in Hm. injection Hn as <-. injection Hm as <-.
  rewrite C1, C2. apply adjacent_sym.
Qed.
