(** SkeletonProofs.v — proofs about Skeleton.v (property C09).

    LIVENESS.  In the implementation a [Skeleton] stores only a reference to its graph; in the
    model every skeleton view ([sk_nodes], [sk_edges], [sk_adjacency], [sk_neighbors], ...) is a
    function of the CURRENT state [g].  "The skeleton follows every later mutation" is therefore
    immediate: the view after a mutation [o] is, by definition, the view of [step g o], and every
    theorem below holds of it because [Inv] is preserved by [step] (GraphInvProofs.v).  That the
    implementation keeps no copy is what the correspondence check establishes: it takes
    [graph.skeleton] BEFORE the history and compares all members after every mutation. *)
From CG Require Import Base Digraph Graph GraphObs GraphInv Matrix Skeleton MatrixProofs.
Set Implicit Arguments.

(** two names are adjacent: an edge of any type joins them, in either orientation *)
Definition adjacent (g : graph) (s d : name) : Prop :=
  In (s, d) (edge_keys g) \/ In (d, s) (edge_keys g).

Lemma adjacent_sym g s d : adjacent g s d <-> adjacent g d s.
Proof. unfold adjacent; tauto. Qed.

Lemma adjacent_edge g s d :
  adjacent g s d <-> exists e, In e (gsrc g) /\ (edge_key e = (s, d) \/ edge_key e = (d, s)).
Proof.
  unfold adjacent, edge_keys. rewrite !in_map_iff. split.
  - intros [(e & He & Hin)|(e & He & Hin)]; exists e; auto.
  - intros (e & Hin & [He|He]); [left|right]; exists e; auto.
Qed.

(** * Nodes *)

Lemma map_res_ok_map {A B} (f : A -> res B) (h : A -> B) l :
  (forall x, In x l -> f x = Ok (h x)) -> map_res f l = Ok (map h l).
Proof.
  induction l as [|x l IH]; intros H; simpl; [reflexivity|].
  rewrite (H x (or_introl eq_refl)). simpl. rewrite IH; [reflexivity|].
  intros y Hy. apply H. right; exact Hy.
Qed.

Lemma nodes_sorted_in g n : In n (nodes_sorted g) <-> In n (gnodes g).
Proof. unfold nodes_sorted. apply isort_in. Qed.

(** the node triple [Skeleton.nodes] rebuilds from a stored node *)
Definition sk_node_of (parse : name -> option (name * Z)) (k : kind) (n : node) : node3 :=
  (nid n, nvt n,
   match k with
   | Plain => nmeta n
   | TS => match parse (nid n) with
           | Some (v, l) => set_tags v l (nmeta n)
           | None => nmeta n
           end
   end).

(** [skeleton.nodes] has exactly the graph's nodes, in the order of [get_nodes()]: same
    identifiers, same variable types; for the plain class the same metadata; for the
    time-series class the metadata with the reserved tags re-derived from the identifier. *)
Theorem sk_nodes_spec parse k g :
  Inv parse k g ->
  sk_nodes parse k g = Ok (map (sk_node_of parse k) (nodes_sorted g))
  /\ map n3_id (map (sk_node_of parse k) (nodes_sorted g)) = v_node_names g
  /\ map (fun n : node3 => (n3_id n, snd (fst n))) (map (sk_node_of parse k) (nodes_sorted g))
     = map (fun n : node3 => (n3_id n, snd (fst n))) (v_nodes g)
  /\ (k = Plain -> map (sk_node_of parse k) (nodes_sorted g) = v_nodes g).
Proof.
  intros HI. split; [|split; [|split]].
  - unfold sk_nodes. apply map_res_ok_map. intros n Hn. apply nodes_sorted_in in Hn.
    unfold sk_node, sk_node_of, mk_node. destruct k; [reflexivity|].
    destruct (ts_nodeok (inv_ts HI eq_refl) n Hn) as (v & l & Hp & _ & _).
    rewrite Hp. reflexivity.
  - unfold v_node_names. rewrite map_map. apply map_ext. intros n. reflexivity.
  - unfold v_nodes. rewrite !map_map. apply map_ext. intros n. reflexivity.
  - intros ->. unfold v_nodes. apply map_ext. intros n. reflexivity.
Qed.

Theorem sk_nodes_ts_tags parse g n :
  Inv parse TS g -> In n (map (sk_node_of parse TS) (nodes_sorted g)) ->
  exists v l, parse (n3_id n) = Some (v, l)
              /\ meta_var (snd n) = Some v /\ meta_lag (snd n) = Some l.
Proof.
  intros HI Hn. apply in_map_iff in Hn. destruct Hn as (x & <- & Hx).
  apply nodes_sorted_in in Hx.
  destruct (ts_nodeok (inv_ts HI eq_refl) x Hx) as (v & l & Hp & _ & _).
  exists v, l. unfold sk_node_of, n3_id; simpl. rewrite Hp.
  split; [reflexivity|]. split; [apply set_tags_var|apply set_tags_lag].
Qed.

Theorem sk_node_exists_spec g id : sk_node_exists g id = true <-> In id (node_ids g).
Proof. unfold sk_node_exists, sk_node_names. rewrite mem_in. apply v_node_names_in. Qed.

(** * Edges *)

Lemma edge_key_retype e : edge_key (retype_und e) = edge_key e.
Proof. reflexivity. Qed.

Lemma sk_edge_pairs_eq g : sk_edge_pairs g = map edge_key (v_edges g).
Proof.
  unfold sk_edge_pairs, sk_edges. rewrite map_map. apply map_ext. intros e; reflexivity.
Qed.

Lemma sk_edge_pairs_perm g : Permutation (edge_keys g) (sk_edge_pairs g).
Proof. rewrite sk_edge_pairs_eq. unfold edge_keys. apply Permutation_map, v_edges_perm. Qed.

(** [skeleton.edges] has exactly one edge per stored edge, on the same ordered pair, every one
    of them undirected, and no two on the same pair *)
Theorem sk_edges_spec parse k g :
  Inv parse k g ->
  (forall s d, In (s, d) (map edge_key (sk_edges g)) <-> In (s, d) (edge_keys g))
  /\ (forall e, In e (sk_edges g) -> ety e = Und)
  /\ NoDup (map edge_key (sk_edges g))
  /\ length (sk_edges g) = length (gsrc g)
  /\ (forall e', In e' (sk_edges g) <-> exists e, In e (gsrc g) /\ e' = retype_und e).
Proof.
  intros HI. fold (sk_edge_pairs g). split; [|split; [|split; [|split]]].
  - intros s d. split; apply Permutation_in; [symmetry|]; apply sk_edge_pairs_perm.
  - intros e He. unfold sk_edges in He. apply in_map_iff in He. destruct He as (x & <- & _).
    reflexivity.
  - eapply Permutation_NoDup; [apply sk_edge_pairs_perm|apply (inv_nodup_keys HI)].
  - unfold sk_edges. rewrite map_length. symmetry. apply Permutation_length, v_edges_perm.
  - intros e'. unfold sk_edges. rewrite in_map_iff. split.
    + intros (e & <- & He). exists e. split; [apply v_edges_in; exact He|reflexivity].
    + intros (e & He & ->). exists e. split; [reflexivity|apply v_edges_in; exact He].
Qed.

Lemma pair_mem_in p l : pair_mem p l = true <-> In p l.
Proof.
  unfold pair_mem. rewrite existsb_exists. split.
  - intros (q & Hq & E). destruct (pair_eqb_spec p q); [subst; exact Hq|discriminate].
  - intros H. exists p. split; [exact H|]. destruct (pair_eqb_spec p p); congruence.
Qed.

(** existence ignores orientation *)
Theorem sk_exists_sym g s d : sk_edge_exists g s d = sk_edge_exists g d s.
Proof. unfold sk_edge_exists. apply orb_comm. Qed.

Theorem sk_exists_spec g s d : sk_edge_exists g s d = true <-> adjacent g s d.
Proof.
  unfold sk_edge_exists, adjacent. rewrite orb_true_iff, !pair_mem_in.
  split; intros [H|H]; [left|right|left|right]; revert H; apply Permutation_in;
    try apply sk_edge_pairs_perm; symmetry; apply sk_edge_pairs_perm.
Qed.

(** [get_edge] finds the one undirected edge joining two adjacent names, whatever the order
    they are given in, and raises AssertionError otherwise; the "more than one" assertion never
    fires *)
Theorem sk_get_edge_spec parse k g s d :
  Inv parse k g ->
  (adjacent g s d ->
   exists e, sk_get_edge g s d = Ok e /\ In e (sk_edges g) /\ ety e = Und
             /\ (edge_key e = (s, d) \/ edge_key e = (d, s)))
  /\ (~ adjacent g s d -> sk_get_edge g s d = Err EAssert).
Proof.
  intros HI. destruct (sk_edges_spec HI) as (Hkeys & Hund & Hnd & _ & Hchar).
  set (p := fun e => pair_eqb (edge_key e) (s, d) || pair_eqb (edge_key e) (d, s)).
  assert (Hp : forall e, p e = true <-> edge_key e = (s, d) \/ edge_key e = (d, s)).
  { intros e. unfold p. rewrite orb_true_iff.
    destruct (pair_eqb_spec (edge_key e) (s, d)), (pair_eqb_spec (edge_key e) (d, s));
      split; intros [H|H]; auto; discriminate. }
  assert (Hfil : forall e, In e (filter p (sk_edges g)) <->
                           In e (sk_edges g) /\ (edge_key e = (s, d) \/ edge_key e = (d, s))).
  { intros e. rewrite filter_In, Hp. reflexivity. }
  unfold sk_get_edge. fold p.
  destruct (filter p (sk_edges g)) as [|e1 [|e2 rest]] eqn:Ef.
  - split; [|reflexivity]. intros Hadj. exfalso.
    destruct Hadj as [H|H]; apply Hkeys, in_map_iff in H; destruct H as (e & He & Hin);
      apply (proj2 (Hfil e)); auto.
  - split; [|intros Hn; exfalso; apply Hn].
    + intros _. exists e1. destruct (proj1 (Hfil e1) (or_introl eq_refl)) as [Hin Hk].
      split; [reflexivity|]. split; [exact Hin|]. split; [apply Hund; exact Hin|exact Hk].
    + destruct (proj1 (Hfil e1) (or_introl eq_refl)) as [Hin Hk].
      destruct Hk as [Hk|Hk]; [left|right]; apply Hkeys; rewrite <- Hk; apply in_map; exact Hin.
  - exfalso.
    destruct (proj1 (Hfil e1) (or_introl eq_refl)) as [Hin1 Hk1].
    destruct (proj1 (Hfil e2) (or_intror (or_introl eq_refl))) as [Hin2 Hk2].
    assert (Hne : e1 <> e2).
    { assert (Hndf : NoDup (filter p (sk_edges g)))
        by (apply NoDup_filter; eapply NoDup_map_inv; exact Hnd).
      rewrite Ef in Hndf. inversion Hndf as [|? ? Hnot _]; subst.
      intros ->. apply Hnot. left; reflexivity. }
    assert (Hrev : forall a b, In a (sk_edges g) -> In b (sk_edges g) ->
                               edge_key a = (s, d) -> edge_key b = (d, s) -> False).
    { intros a b Ha Hb Hka Hkb. apply Hchar in Ha, Hb.
      destruct Ha as (a0 & Ha0 & ->). destruct Hb as (b0 & Hb0 & ->).
      rewrite edge_key_retype in Hka, Hkb.
      apply (inv_noreverse HI a0 Ha0). unfold edge_key in Hka. injection Hka as -> ->.
      unfold edge_keys. rewrite <- Hkb. apply in_map; exact Hb0. }
    destruct Hk1 as [Hk1|Hk1]; destruct Hk2 as [Hk2|Hk2].
    + apply Hne. eapply NoDup_map_inj; [exact Hnd|exact Hin1|exact Hin2|congruence].
    + eapply Hrev; [exact Hin1|exact Hin2|exact Hk1|exact Hk2].
    + eapply Hrev; [exact Hin2|exact Hin1|exact Hk2|exact Hk1].
    + apply Hne. eapply NoDup_map_inj; [exact Hnd|exact Hin1|exact Hin2|congruence].
Qed.

(** * Adjacency matrix *)

Lemma sk_adj_step_eq names acc e :
  ety e = Und -> In (esrc e) names -> In (edst e) names ->
  sk_adj_step names acc e = to_matrix_step names acc e.
Proof.
  intros Hty Hs Hd. unfold sk_adj_step, to_matrix_step. destruct acc as [a|x]; [|reflexivity].
  simpl. rewrite Hty.
  destruct (index_of_in _ _ Hs) as [i ->]. destruct (index_of_in _ _ Hd) as [j ->]. reflexivity.
Qed.

Lemma sk_adj_fold_eq names es : forall acc,
  (forall e, In e es -> ety e = Und /\ In (esrc e) names /\ In (edst e) names) ->
  fold_left (sk_adj_step names) es acc = fold_left (to_matrix_step names) es acc.
Proof.
  induction es as [|e es IH]; intros acc H; [reflexivity|]. cbn [fold_left].
  destruct (H e (or_introl eq_refl)) as (Hty & Hs & Hd).
  rewrite (@sk_adj_step_eq names acc e Hty Hs Hd). apply IH. intros e' He'. apply H. right; exact He'.
Qed.

Section SkAdjacency.
  Variable parse : name -> option (name * Z).
  Variable k : kind.
  Variable g : graph.
  Hypothesis HI : Inv parse k g.

  Lemma sk_edges_ok e :
    In e (sk_edges g) ->
    ety e = Und /\ In (esrc e) (v_node_names g) /\ In (edst e) (v_node_names g).
  Proof.
    intros He. unfold sk_edges in He. apply in_map_iff in He. destruct He as (x & <- & Hx).
    split; [reflexivity|]. apply (v_edges_endpoints HI _ Hx).
  Qed.

  Lemma sk_adjacency_eq :
    sk_adjacency g
    = fold_left (to_matrix_step (v_node_names g)) (sk_edges g)
        (Ok (zeros (length (v_node_names g)))).
  Proof. unfold sk_adjacency. apply sk_adj_fold_eq. exact sk_edges_ok. Qed.

  (** the skeleton's adjacency matrix always exists *)
  Theorem sk_adjacency_total : exists a, sk_adjacency g = Ok a.
  Proof.
    rewrite sk_adjacency_eq.
    apply to_matrix_fold_ok;
      [apply zeros_dims|intros i j Hi Hj; left; apply zeros_entry; assumption|].
    intros e He. destruct (sk_edges_ok _ He) as (Hty & Hs & Hd).
    split; [exact Hs|]. split; [exact Hd|]. rewrite Hty. reflexivity.
  Qed.

  Variable a : matrix.
  Hypothesis Ha : sk_adjacency g = Ok a.

  Lemma sk_adj_char :
    dims (length (v_node_names g)) a
    /\ (forall i j, i < length (v_node_names g) -> j < length (v_node_names g) ->
          entry a i j = Some 0%Z \/ entry a i j = Some 1%Z)
    /\ forall i j, i < length (v_node_names g) -> j < length (v_node_names g) ->
         (entry a i j = Some 1%Z <->
          exists e, In e (sk_edges g) /\ hit (v_node_names g) e i j).
  Proof.
    rewrite sk_adjacency_eq in Ha.
    destruct (@to_matrix_fold_char (v_node_names g) (sk_edges g) _ _ (zeros_dims _)
                (fun i j Hi Hj => or_introl (zeros_entry Hi Hj)) Ha) as (Hd & Hb & _ & Hc).
    split; [exact Hd|]. split; [exact Hb|].
    intros i j Hi Hj. rewrite (Hc i j Hi Hj), (zeros_entry Hi Hj).
    split; [intros [H|H]; [discriminate|exact H]|intros H; right; exact H].
  Qed.

  (** the matrix is square, binary and SYMMETRIC *)
  Theorem sk_adj_sym i j : entry a i j = entry a j i.
  Proof.
    destruct sk_adj_char as (Hd & Hb & Hc).
    set (n := length (v_node_names g)) in *.
    destruct (Nat.lt_ge_cases i n) as [Hi|Hi]; [destruct (Nat.lt_ge_cases j n) as [Hj|Hj]|].
    - assert (Hsym : entry a i j = Some 1%Z <-> entry a j i = Some 1%Z).
      { rewrite (Hc i j Hi Hj), (Hc j i Hj Hi).
        split; intros (e & He & Hh); exists e; (split; [exact He|]);
          destruct (sk_edges_ok _ He) as (Hty & _ & _); unfold hit in *; rewrite Hty in *;
          destruct Hh as [(H1 & H2 & _)|(H1 & H2 & _)]; auto. }
      destruct (Hb i j Hi Hj) as [H1|H1], (Hb j i Hj Hi) as [H2|H2]; try congruence.
      + apply Hsym in H2. congruence.
      + apply Hsym in H1. congruence.
    - destruct (entry a i j) as [z|] eqn:E1; [apply (@entry_lt _ _ _ _ _ Hd) in E1; lia|].
      destruct (entry a j i) as [z|] eqn:E2; [apply (@entry_lt _ _ _ _ _ Hd) in E2; lia|]. reflexivity.
    - destruct (entry a i j) as [z|] eqn:E1; [apply (@entry_lt _ _ _ _ _ Hd) in E1; lia|].
      destruct (entry a j i) as [z|] eqn:E2; [apply (@entry_lt _ _ _ _ _ Hd) in E2; lia|]. reflexivity.
  Qed.

  (** a 1 exactly for adjacent pairs (an edge of any type, either orientation), a 0 otherwise *)
  Theorem sk_adj_iff_adjacent i j ni nj :
    nth_error (v_node_names g) i = Some ni -> nth_error (v_node_names g) j = Some nj ->
    (entry a i j = Some 1%Z <-> adjacent g ni nj)
    /\ (entry a i j = Some 0%Z <-> ~ adjacent g ni nj).
  Proof.
    intros Hi Hj.
    destruct sk_adj_char as (Hd & Hb & Hc).
    assert (Hi' : i < length (v_node_names g)) by (apply nth_error_Some; congruence).
    assert (Hj' : j < length (v_node_names g)) by (apply nth_error_Some; congruence).
    assert (H1 : entry a i j = Some 1%Z <-> adjacent g ni nj).
    { rewrite (Hc i j Hi' Hj'), adjacent_edge. split.
      - intros (e' & He' & Hh). unfold sk_edges in He'. apply in_map_iff in He'.
        destruct He' as (e & <- & He). exists e. split; [apply v_edges_in; exact He|].
        unfold hit in Hh. rewrite <- !(names_index HI) in Hh. simpl in Hh. unfold edge_key.
        destruct Hh as [(Ha1 & Ha2 & _)|(Ha1 & Ha2 & _)]; [left|right]; f_equal; congruence.
      - intros (e & He & Hk). exists (retype_und e). split.
        + unfold sk_edges. apply in_map. apply v_edges_in; exact He.
        + unfold hit. rewrite <- !(names_index HI). simpl. unfold edge_key in Hk.
          destruct Hk as [Hk|Hk]; injection Hk as -> ->; [left|right]; auto. }
    split; [exact H1|]. rewrite <- H1.
    destruct (Hb i j Hi' Hj') as [H0|H0]; rewrite H0; split; intros H; congruence.
  Qed.
End SkAdjacency.

(** * Neighbours *)

Lemma v_edges_from_in g n e : In e (v_edges_from g n) <-> In e (gsrc g) /\ esrc e = n.
Proof.
  unfold v_edges_from, edges_from. rewrite isort_in, filter_In.
  destruct (name_eqb_spec n (esrc e)); split; intros [H1 H2]; split; auto; congruence.
Qed.

Lemma v_edges_into_in g n e : In e (v_edges_into g n) <-> In e (gdst g) /\ edst e = n.
Proof.
  unfold v_edges_into, edges_into. rewrite isort_in, filter_In.
  destruct (name_eqb_spec n (edst e)); split; intros [H1 H2]; split; auto; congruence.
Qed.

(** [get_neighbors] is orientation blind: the neighbours of a known node are exactly the
    names adjacent to it, each once, in sorted order; an unknown node raises AssertionError *)
Theorem sk_neighbors_spec parse k g n :
  Inv parse k g ->
  (In n (node_ids g) ->
   exists l, sk_neighbors g n = Ok l /\ NoDup l /\ StronglySorted (le name_leb) l
             /\ forall m, In m l <-> adjacent g n m)
  /\ (~ In n (node_ids g) -> sk_neighbors g n = Err EAssert).
Proof.
  intros HI. unfold sk_neighbors, sk_node_names. split.
  - intros Hn. rewrite (proj2 (mem_in n (v_node_names g)) (proj2 (v_node_names_in g n) Hn)).
    unfold v_neighbors. rewrite (proj2 (node_exists_in g n) Hn).
    eexists. split; [reflexivity|]. split; [|split].
    + unfold sort_names. eapply Permutation_NoDup; [apply isort_perm|apply dedup_nodup].
    + apply sort_names_sorted.
    + intros m. rewrite sort_names_in, dedup_in, filter_In, in_app_iff, !in_map_iff.
      rewrite adjacent_edge. split.
      * intros [[(e & <- & He)|(e & <- & He)] _].
        -- apply v_edges_from_in in He. destruct He as [He <-]. exists e. split; [exact He|left; reflexivity].
        -- apply v_edges_into_in in He. destruct He as [He <-]. exists e.
           split; [eapply Permutation_in; [apply (inv_mirror HI)|exact He]|right; reflexivity].
      * intros (e & He & Hk). split.
        -- unfold edge_key in Hk. destruct Hk as [Hk|Hk]; injection Hk as H1 H2.
           ++ left. exists e. split; [exact H2|]. apply v_edges_from_in. split; assumption.
           ++ right. exists e. split; [exact H1|]. apply v_edges_into_in. split; [|exact H2].
              eapply Permutation_in; [symmetry; apply (inv_mirror HI)|exact He].
        -- apply negb_true_iff, name_eqb_neq. intros ->.
           apply (inv_noloop HI e He). unfold edge_key in Hk.
           destruct Hk as [Hk|Hk]; injection Hk as H1 H2; congruence.
  - intros Hn.
    replace (mem n (v_node_names g)) with false; [reflexivity|].
    symmetry. apply mem_false. rewrite v_node_names_in. exact Hn.
Qed.

(** neighbourhood is symmetric *)
Corollary sk_neighbors_sym parse k g n m ln lm :
  Inv parse k g -> sk_neighbors g n = Ok ln -> sk_neighbors g m = Ok lm ->
  (In m ln <-> In n lm).
Proof.
  intros HI Hn Hm.
  destruct (sk_neighbors_spec n HI) as [Hn1 Hn2]. destruct (sk_neighbors_spec m HI) as [Hm1 Hm2].
  destruct (in_dec name_eq_dec n (node_ids g)) as [Hin|Hnin]; [|rewrite (Hn2 Hnin) in Hn; discriminate].
  destruct (in_dec name_eq_dec m (node_ids g)) as [Him|Hnim]; [|rewrite (Hm2 Hnim) in Hm; discriminate].
  destruct (Hn1 Hin) as (l1 & E1 & _ & _ & C1). destruct (Hm1 Him) as (l2 & E2 & _ & _ & C2).
  rewrite E1 in Hn. rewrite E2 in Hm. injection Hn as <-. injection Hm as <-.
  rewrite C1, C2. apply adjacent_sym.
Qed.

(** * Rebuilding a skeleton from its matrix / networkx form (plain class) *)

(** [a] is an adjacency matrix of the skeleton of [g] under the node order [names] *)
Definition sk_matrix_spec (g : graph) (a : matrix) (names : list name) : Prop :=
  NoDup names
  /\ (forall x, In x names <-> In x (node_ids g))
  /\ dims (length names) a
  /\ (forall i j, i < length names -> j < length names ->
        entry a i j = Some 0%Z \/ entry a i j = Some 1%Z)
  /\ (forall i j ni nj, nth_error names i = Some ni -> nth_error names j = Some nj ->
        (entry a i j = Some 1%Z <-> adjacent g ni nj)).

(** the skeleton of [g'] has the nodes and the adjacent pairs of the skeleton of [g], and [g']
    holds undirected edges only *)
Definition same_skeleton (g g' : graph) : Prop :=
  (forall x, In x (node_ids g') <-> In x (node_ids g))
  /\ (forall s d, adjacent g' s d <-> adjacent g s d)
  /\ (forall e, In e (gsrc g') -> ety e = Und).

Lemma same_skeleton_views g g' :
  same_skeleton g g' ->
  (forall x, sk_node_exists g' x = sk_node_exists g x)
  /\ (forall s d, sk_edge_exists g' s d = sk_edge_exists g s d).
Proof.
  intros (Hn & Ha & _). split.
  - intros x. apply eq_true_iff_eq. rewrite !sk_node_exists_spec. apply Hn.
  - intros s d. apply eq_true_iff_eq. rewrite !sk_exists_spec. apply Ha.
Qed.

Section Rebuild.
  Variable parse : name -> option (name * Z).
  Variable fmt : name -> Z -> option name.
  Variable k : kind.
  Variable g : graph.
  Variable a : matrix.
  Variable names : list name.
  Hypothesis HI : Inv parse k g.
  Hypothesis Hspec : sk_matrix_spec g a names.

  Theorem sk_rebuild_plain_novalidate :
    exists g', from_matrix parse fmt Plain a (Some names) false = Ok g'
               /\ node_ids g' = names /\ same_skeleton g g'.
  Proof.
    destruct Hspec as (Hnd & Hnames & Hd & Hb & Hadj).
    set (n := length names) in *.
    assert (Hla : length a = n) by apply Hd.
    destruct (@from_matrix_plain_ok parse fmt a names) as (g' & Hg' & Hids & Hsrc).
    { rewrite Hla. exact Hd. }
    { eapply binary_is_binary; eassumption. }
    { symmetry; exact Hla. }
    { exact Hnd. }
    exists g'. split; [exact Hg'|]. split; [exact Hids|].
    fold n in Hsrc.
    assert (Hin : forall e', In e' (gsrc g') <->
                             exists i j, i < j /\ j < n /\ In e' (edge_of a names (i, j))).
    { intros e'. rewrite Hsrc, in_flat_map. split.
      - intros ([i j] & Hp & He). apply in_pairs in Hp. exists i, j. repeat split; try lia. exact He.
      - intros (i & j & Hij & Hj & He). exists (i, j). split; [apply in_pairs; lia|exact He]. }
    (* the cell of a pair of indices *)
    assert (Hcell : forall i j, i < n -> j < n ->
              exists ni nj, nth_error names i = Some ni /\ nth_error names j = Some nj
                /\ ((adjacent g ni nj /\ entry a i j = Some 1%Z /\ entry a j i = Some 1%Z)
                    \/ (~ adjacent g ni nj /\ entry a i j = Some 0%Z /\ entry a j i = Some 0%Z))).
    { intros i j Hi Hj.
      destruct (nth_error names i) as [ni|] eqn:Eni; [|apply nth_error_None in Eni; unfold n in *; lia].
      destruct (nth_error names j) as [nj|] eqn:Enj; [|apply nth_error_None in Enj; unfold n in *; lia].
      exists ni, nj. split; [reflexivity|]. split; [reflexivity|].
      pose proof (Hadj i j ni nj Eni Enj) as H1. pose proof (Hadj j i nj ni Enj Eni) as H2.
      rewrite (adjacent_sym g nj ni) in H2.
      destruct (Hb i j Hi Hj) as [Hx|Hx]; destruct (Hb j i Hj Hi) as [Hy|Hy].
      - right. split; [|auto]. intros Hc. apply H1 in Hc. congruence.
      - exfalso. apply H2, H1 in Hy. congruence.
      - exfalso. apply H1, H2 in Hx. congruence.
      - left. split; [apply H1; exact Hx|auto]. }
    assert (Hedges : forall e', In e' (gsrc g') ->
              ety e' = Und /\ adjacent g (esrc e') (edst e')).
    { intros e' He'. apply Hin in He'. destruct He' as (i & j & Hij & Hj & He').
      destruct (Hcell i j ltac:(lia) Hj) as (ni & nj & Hni & Hnj & [(Hadj' & Hx & Hy)|(_ & Hx & Hy)]);
        rewrite (edge_of_eval _ _ _ _ Hx Hy Hni Hnj) in He'; simpl in He'.
      - destruct He' as [<-|[]]. split; [reflexivity|exact Hadj'].
      - destruct He'. }
    split; [|split].
    - intros x. rewrite Hids. apply Hnames.
    - intros s d. split.
      + rewrite adjacent_edge. intros (e' & He' & Hk). destruct (Hedges e' He') as [_ Hadj'].
        unfold edge_key in Hk. destruct Hk as [Hk|Hk]; injection Hk as <- <-;
          [exact Hadj'|apply adjacent_sym; exact Hadj'].
      + intros Hadj'.
        assert (Hsd : s <> d).
        { apply adjacent_edge in Hadj'. destruct Hadj' as (e & He & Hk). intros ->.
          apply (inv_noloop HI e He). unfold edge_key in Hk. destruct Hk as [Hk|Hk]; congruence. }
        assert (Hs : In s names /\ In d names).
        { apply adjacent_edge in Hadj'. destruct Hadj' as (e & He & Hk).
          destruct (inv_endpoints HI e He) as [H1 H2]. rewrite !Hnames.
          unfold edge_key in Hk. destruct Hk as [Hk|Hk]; injection Hk as <- <-; auto. }
        destruct Hs as [Hs Hd']. apply In_nth_error in Hs, Hd'.
        destruct Hs as [i Hni]. destruct Hd' as [j Hnj].
        assert (Hi : i < n) by (apply nth_error_Some; congruence).
        assert (Hj : j < n) by (apply nth_error_Some; congruence).
        assert (Hij : i <> j) by (intros ->; congruence).
        apply adjacent_edge.
        destruct (Nat.lt_ge_cases i j) as [Hlt|Hge].
        * destruct (Hcell i j Hi Hj) as (ni & nj & Hni' & Hnj' & Hc).
          rewrite Hni in Hni'. rewrite Hnj in Hnj'. injection Hni' as <-. injection Hnj' as <-.
          destruct Hc as [(_ & Hx & Hy)|(Hc & _)]; [|contradiction].
          exists (mk_edge s d Und). split; [|left; reflexivity].
          apply Hin. exists i, j. split; [exact Hlt|]. split; [exact Hj|].
          rewrite (edge_of_eval _ _ _ _ Hx Hy Hni Hnj). simpl. left; reflexivity.
        * destruct (Hcell j i Hj Hi) as (nj' & ni' & Hnj' & Hni' & Hc).
          rewrite Hni in Hni'. rewrite Hnj in Hnj'. injection Hni' as <-. injection Hnj' as <-.
          destruct Hc as [(_ & Hx & Hy)|(Hc & _)]; [|exfalso; apply Hc, adjacent_sym; exact Hadj'].
          exists (mk_edge d s Und). split; [|right; reflexivity].
          apply Hin. exists j, i. split; [lia|]. split; [exact Hi|].
          rewrite (edge_of_eval _ _ _ _ Hx Hy Hnj Hni). simpl. left; reflexivity.
    - intros e' He'. apply (Hedges e' He').
  Qed.

  (** with the colleagues' theorems, the default [validate=True] as well: a graph of undirected
      edges has no directed cycle *)
  Hypothesis inv_init : inv_init_statement parse.
  Hypothesis inv_step : inv_step_statement parse fmt.
  Hypothesis cycle_check : cycle_check_statement parse.

  Theorem sk_rebuild_plain v :
    exists g', from_matrix parse fmt Plain a (Some names) v = Ok g'
               /\ node_ids g' = names /\ same_skeleton g g' /\ Inv parse Plain g'.
  Proof.
    destruct sk_rebuild_plain_novalidate as (g' & Hg' & Hids & Hsame).
    assert (HI' : Inv parse Plain g') by (eapply from_matrix_inv; eassumption).
    exists g'. split; [|auto]. destruct v; [|exact Hg'].
    rewrite (from_matrix_validated _ _ _ _ _ Hg').
    rewrite check_nodes_ok; [reflexivity|].
    intros d Hd. rewrite <- Hids in Hd.
    destruct (@cycle_check Plain g' d HI' Hd) as (b & Hb & Hiff). rewrite Hb.
    destruct b; [|reflexivity]. exfalso.
    assert (Hp : path (dgraph g') d d) by (apply Hiff; reflexivity).
    assert (Hfirst : exists w, arc (dgraph g') d w).
    { clear -Hp. unfold path in Hp. remember d as d' in Hp at 2. clear Heqd'.
      induction Hp as [x y Hxy|x y z _ IH1 _ _]; [exists y; exact Hxy|exact IH1]. }
    destruct Hfirst as (w & Hw). apply arc_has_edge in Hw. destruct Hw as (e & He & _ & Ht).
    destruct Hsame as (_ & _ & Hund). rewrite (Hund e He) in Ht. discriminate.
  Qed.
End Rebuild.

Lemma sk_adjacency_spec parse k g a :
  Inv parse k g -> sk_adjacency g = Ok a -> sk_matrix_spec g a (v_node_names g).
Proof.
  intros HI Ha. destruct (sk_adj_char HI Ha) as (Hd & Hb & _).
  split; [apply (v_node_names_nodup HI)|]. split; [apply v_node_names_in|].
  split; [exact Hd|]. split; [exact Hb|].
  intros i j ni nj Hi Hj. apply (sk_adj_iff_adjacent HI Ha _ _ Hi Hj).
Qed.

Lemma sk_to_nx_spec parse k g :
  Inv parse k g ->
  sk_matrix_spec g (nx_to_matrix (sk_to_nx g)) (nx_nodes (sk_to_nx g)).
Proof.
  intros HI. set (x := sk_to_nx g).
  assert (Hnames : forall y, In y (nx_nodes x) <-> In y (node_ids g)).
  { intros y. unfold nx_nodes, x, sk_to_nx. rewrite dedup_in, in_app_iff, v_node_names_in.
    split; [|auto]. intros [H|H]; [exact H|]. apply in_flat_map in H. destruct H as (p & Hp & Hy).
    rewrite sk_edge_pairs_eq in Hp. apply in_map_iff in Hp. destruct Hp as (e & <- & He).
    apply v_edges_in in He. destruct (inv_endpoints HI e He) as [H1 H2]. simpl in Hy.
    destruct Hy as [<-|[<-|[]]]; assumption. }
  split; [unfold nx_nodes, x, sk_to_nx; apply dedup_nodup|]. split; [exact Hnames|].
  split; [apply nx_to_matrix_dims|]. split.
  - intros i j Hi Hj.
    destruct (nth_error (nx_nodes x) i) as [ni|] eqn:Ei; [|apply nth_error_None in Ei; lia].
    destruct (nth_error (nx_nodes x) j) as [nj|] eqn:Ej; [|apply nth_error_None in Ej; lia].
    rewrite (nx_to_matrix_entry _ _ _ Ei Ej). destruct (nx_has x ni nj); auto.
  - intros i j ni nj Hi Hj. rewrite (nx_to_matrix_entry _ _ _ Hi Hj).
    assert (Hh : nx_has x ni nj = true <-> adjacent g ni nj).
    { unfold x, sk_to_nx. rewrite nx_has_spec. unfold adjacent.
      split.
      - intros [H|[_ H]]; [left|right]; revert H; apply Permutation_in; symmetry;
          apply sk_edge_pairs_perm.
      - intros [H|H]; [left|right; split; [reflexivity|]]; revert H; apply Permutation_in;
          apply sk_edge_pairs_perm. }
    rewrite <- Hh. destruct (nx_has x ni nj); split; intros H; congruence.
Qed.

(** C09: a skeleton rebuilt from its own matrix or networkx form (validate=False) has the same
    nodes and the same adjacent pairs, and nothing but undirected edges *)
Theorem sk_rebuild_matrix_novalidate parse fmt k g a names :
  Inv parse k g -> sk_to_numpy g = Ok (a, names) ->
  exists g', sk_from_matrix parse fmt Plain a (Some names) false = Ok g' /\ same_skeleton g g'.
Proof.
  intros HI H. unfold sk_to_numpy in H. destruct (sk_adjacency g) as [a'|x] eqn:Ea; [|discriminate].
  simpl in H. injection H as <- <-.
  destruct (@sk_rebuild_plain_novalidate parse fmt k g a' (v_node_names g) HI (sk_adjacency_spec HI Ea))
    as (g' & Hg' & _ & Hs).
  exists g'. split; assumption.
Qed.

Theorem sk_rebuild_nx_novalidate parse fmt k g :
  Inv parse k g ->
  exists g', sk_from_nx parse fmt Plain (sk_to_nx g) false = Ok g' /\ same_skeleton g g'.
Proof.
  intros HI.
  destruct (@sk_rebuild_plain_novalidate parse fmt k g _ _ HI (sk_to_nx_spec HI)) as (g' & Hg' & _ & Hs).
  exists g'. split; assumption.
Qed.

Section WithGraphInvSk.
  Variable parse : name -> option (name * Z).
  Variable fmt : name -> Z -> option name.
  (** GraphInvProofs.v / GraphAcyclicProofs.v (colleagues), exact shape of GraphInv.v *)
  Hypothesis inv_init : inv_init_statement parse.
  Hypothesis inv_step : inv_step_statement parse fmt.
  Hypothesis cycle_check : cycle_check_statement parse.

  (** ... and so with either value of [validate] *)
  Theorem sk_rebuild_matrix k g a names v :
    Inv parse k g -> sk_to_numpy g = Ok (a, names) ->
    exists g', sk_from_matrix parse fmt Plain a (Some names) v = Ok g'
               /\ same_skeleton g g' /\ Inv parse Plain g'.
  Proof.
    intros HI H. unfold sk_to_numpy in H. destruct (sk_adjacency g) as [a'|x] eqn:Ea; [|discriminate].
    simpl in H. injection H as <- <-.
    destruct (@sk_rebuild_plain parse fmt k g a' (v_node_names g) HI (sk_adjacency_spec HI Ea)
                inv_init inv_step cycle_check v) as (g' & Hg' & _ & Hs & HI').
    exists g'. auto.
  Qed.

  (** [Skeleton.from_networkx(sk.to_networkx())] and [CausalGraph.from_skeleton(sk)] *)
  Theorem sk_rebuild_nx k g v :
    Inv parse k g ->
    exists g', sk_from_nx parse fmt Plain (sk_to_nx g) v = Ok g'
               /\ same_skeleton g g' /\ Inv parse Plain g'.
  Proof.
    intros HI.
    destruct (@sk_rebuild_plain parse fmt k g _ _ HI (sk_to_nx_spec HI)
                inv_init inv_step cycle_check v) as (g' & Hg' & _ & Hs & HI').
    exists g'. auto.
  Qed.
End WithGraphInvSk.

(** * Rebuilding a skeleton with the graph's own class (plain or time-series) *)

Section SymLoop.
  Variable parse : name -> option (name * Z).
  Variable fmt : name -> Z -> option name.
  Variable k : kind.
  Variable a : matrix.
  Variable nodes : list name.
  Hypothesis Hnodup : NoDup nodes.
  Hypothesis Hbin : forall i j, i < length nodes -> j < length nodes ->
                      entry a i j = Some 0%Z \/ entry a i j = Some 1%Z.
  Hypothesis Hsym : forall i j, i < length nodes -> j < length nodes -> entry a i j = entry a j i.

  Definition cell1 (p : nat * nat) (ni nj : name) : Prop :=
    nth_error nodes (fst p) = Some ni /\ nth_error nodes (snd p) = Some nj
    /\ entry a (fst p) (snd p) = Some 1%Z.

  Definition joins (e : edge) (ni nj : name) : Prop :=
    edge_key e = (ni, nj) \/ edge_key e = (nj, ni).

  Definition fresh_for (g : graph) (P : list (nat * nat)) : Prop :=
    forall e p ni nj, In e (gsrc g) -> In p P ->
      nth_error nodes (fst p) = Some ni -> nth_error nodes (snd p) = Some nj -> ~ joins e ni nj.

  Lemma edge_step_sym g p :
    fst p < snd p -> snd p < length nodes ->
    (forall x, In x nodes -> In x (node_ids g)) ->
    (k = TS -> forall x, In x nodes -> has_lag g x) ->
    fresh_for g [p] ->
    exists g' ni nj,
      edge_step parse fmt k a nodes (Ok g) p = Ok g'
      /\ node_ids g' = node_ids g /\ (forall x, node_lag g' x = node_lag g x)
      /\ nth_error nodes (fst p) = Some ni /\ nth_error nodes (snd p) = Some nj
      /\ ((entry a (fst p) (snd p) = Some 0%Z /\ gsrc g' = gsrc g)
          \/ (entry a (fst p) (snd p) = Some 1%Z
              /\ exists e, gsrc g' = gsrc g ++ [e] /\ ety e = Und /\ joins e ni nj)).
  Proof.
    intros Hlt Hj Hin Hlag Hfresh. unfold edge_step. cbn [bind].
    assert (Hi : fst p < length nodes) by lia.
    rewrite <- (Hsym Hi Hj).
    destruct (nth_error nodes (fst p)) as [ni|] eqn:Eni; [|apply nth_error_None in Eni; lia].
    destruct (nth_error nodes (snd p)) as [nj|] eqn:Enj; [|apply nth_error_None in Enj; lia].
    destruct (Hbin Hi Hj) as [Hx|Hx]; rewrite Hx; cbn [Z.eqb negb andb].
    - exists g, ni, nj. repeat split; auto.
    - assert (Hne : ni <> nj).
      { intros ->. assert (fst p = snd p) by (eapply nodup_nth_inj; eassumption). lia. }
      assert (Hni : In ni (node_ids g)) by (apply Hin; eapply nth_error_In; exact Eni).
      assert (Hnj : In nj (node_ids g)) by (apply Hin; eapply nth_error_In; exact Enj).
      assert (Hk1 : ~ In (ni, nj) (edge_keys g)).
      { unfold edge_keys. rewrite in_map_iff. intros (e & Hk & He).
        apply (Hfresh e p ni nj He (or_introl eq_refl) Eni Enj). left; exact Hk. }
      assert (Hk2 : ~ In (nj, ni) (edge_keys g)).
      { unfold edge_keys. rewrite in_map_iff. intros (e & Hk & He).
        apply (Hfresh e p ni nj He (or_introl eq_refl) Eni Enj). right; exact Hk. }
      destruct (@add_edge_und_any parse fmt k g ni nj Hni Hnj Hne Hk1 Hk2) as (s' & d' & Hadd & Hsd).
      { intros Hk. split; apply (Hlag Hk); eapply nth_error_In; eassumption. }
      rewrite Hadd. exists (insert_edge g (mk_edge s' d' Und)), ni, nj.
      split; [reflexivity|]. split; [apply insert_edge_ids|]. split; [apply insert_edge_lag|].
      split; [reflexivity|]. split; [reflexivity|]. right. split; [reflexivity|].
      exists (mk_edge s' d' Und). split; [apply insert_edge_src|]. split; [reflexivity|].
      unfold joins, edge_key; simpl. destruct Hsd as [Hsd|Hsd]; [left|right]; exact Hsd.
  Qed.

  Lemma loop_sym P : forall g,
    (forall p, In p P -> fst p < snd p /\ snd p < length nodes) -> NoDup P ->
    (forall x, In x nodes -> In x (node_ids g)) ->
    (k = TS -> forall x, In x nodes -> has_lag g x) ->
    fresh_for g P ->
    exists g', fold_left (edge_step parse fmt k a nodes) P (Ok g) = Ok g'
      /\ node_ids g' = node_ids g
      /\ (forall e', In e' (gsrc g') ->
            In e' (gsrc g)
            \/ (ety e' = Und /\ exists p ni nj, In p P /\ cell1 p ni nj /\ joins e' ni nj))
      /\ (forall e, In e (gsrc g) -> In e (gsrc g'))
      /\ (forall p ni nj, In p P -> cell1 p ni nj -> exists e', In e' (gsrc g') /\ joins e' ni nj).
  Proof.
    induction P as [|p P IH]; intros g HP Hnd Hin Hlag Hfresh.
    - exists g. simpl. repeat split; auto. intros p ni nj [].
    - inversion Hnd as [|? ? Hp Hnd']; subst.
      destruct (HP p (or_introl eq_refl)) as [Hlt Hj].
      destruct (@edge_step_sym g p Hlt Hj Hin Hlag) as (g1 & ni & nj & Hg1 & Hn1 & Hl1 & Eni & Enj & Hcase).
      { intros e q ni nj He [<-|[]]. apply (Hfresh e p ni nj He (or_introl eq_refl)). }
      cbn [fold_left]. rewrite Hg1.
      assert (Hsub1 : forall e, In e (gsrc g) -> In e (gsrc g1)).
      { intros e He. destruct Hcase as [(_ & ->)|(_ & e0 & -> & _)]; [exact He|].
        apply in_app_iff. left; exact He. }
      assert (Hnew1 : forall e, In e (gsrc g1) ->
                In e (gsrc g) \/ (ety e = Und /\ joins e ni nj /\ entry a (fst p) (snd p) = Some 1%Z)).
      { intros e He. destruct Hcase as [(_ & Hs)|(Hx & e0 & Hs & Ht & Hjn)]; rewrite Hs in He; [left; exact He|].
        apply in_app_iff in He. destruct He as [He|[<-|[]]]; [left; exact He|right; auto]. }
      destruct (IH g1) as (g' & Hg' & Hn' & Hfw & Hold & Hnew).
      + intros q Hq. apply HP. right; exact Hq.
      + exact Hnd'.
      + intros x Hx. rewrite Hn1. apply Hin; exact Hx.
      + intros Hk x Hx. destruct (Hlag Hk x Hx) as [l Hl]. exists l. rewrite Hl1. exact Hl.
      + intros e q ni' nj' He Hq Hni' Hnj' Hjn.
        destruct (Hnew1 e He) as [He0|(_ & Hjn0 & _)].
        * apply (Hfresh e q ni' nj' He0 (or_intror Hq) Hni' Hnj' Hjn).
        * destruct (HP q (or_intror Hq)) as [Hltq Hjq].
          assert (Hpq : p <> q) by (intros ->; contradiction).
          unfold joins in *.
          destruct Hjn0 as [Hk|Hk]; destruct Hjn as [Hk'|Hk']; rewrite Hk in Hk'; injection Hk' as -> ->.
          -- apply Hpq. destruct p, q; simpl in *. f_equal; eapply nodup_nth_inj; eassumption.
          -- assert (fst p = snd q) by (eapply nodup_nth_inj; eassumption).
             assert (snd p = fst q) by (eapply nodup_nth_inj; eassumption). lia.
          -- assert (snd p = fst q) by (eapply nodup_nth_inj; eassumption).
             assert (fst p = snd q) by (eapply nodup_nth_inj; eassumption). lia.
          -- apply Hpq. destruct p, q; simpl in *. f_equal; eapply nodup_nth_inj; eassumption.
      + exists g'. split; [exact Hg'|]. split; [congruence|]. split; [|split].
        * intros e' He'. destruct (Hfw e' He') as [He1|(Ht & q & ni' & nj' & Hq & Hc & Hjn)].
          -- destruct (Hnew1 e' He1) as [He0|(Ht & Hjn & Hx)]; [left; exact He0|].
             right. split; [exact Ht|]. exists p, ni, nj. split; [left; reflexivity|].
             split; [split; [exact Eni|split; [exact Enj|exact Hx]]|exact Hjn].
          -- right. split; [exact Ht|]. exists q, ni', nj'. split; [right; exact Hq|]. split; assumption.
        * intros e He. apply Hold, Hsub1, He.
        * intros q ni' nj' [<-|Hq] Hc; [|apply (Hnew q ni' nj' Hq Hc)].
          destruct Hc as (Hni' & Hnj' & Hx).
          rewrite Eni in Hni'. rewrite Enj in Hnj'. injection Hni' as <-. injection Hnj' as <-.
          destruct Hcase as [(Hx0 & _)|(_ & e0 & Hs & _ & Hjn)]; [congruence|].
          exists e0. split; [|exact Hjn]. apply Hold. rewrite Hs. apply in_app_iff. right; left; reflexivity.
  Qed.
End SymLoop.

Section RebuildOwnClass.
  Variable parse : name -> option (name * Z).
  Variable fmt : name -> Z -> option name.
  Variable k : kind.
  Variable g : graph.
  Variable a : matrix.
  Variable names : list name.
  Hypothesis HI : Inv parse k g.
  Hypothesis Hspec : sk_matrix_spec g a names.

  (** the skeleton's matrix / networkx form read back WITH THE GRAPH'S OWN CLASS *)
  Theorem sk_rebuild_own_novalidate :
    exists g', from_matrix parse fmt k a (Some names) false = Ok g'
               /\ node_ids g' = names /\ same_skeleton g g'.
  Proof.
    destruct Hspec as (Hnd & Hnames & Hd & Hb & Hadj).
    set (n := length names) in *.
    assert (Hla : length a = n) by apply Hd.
    assert (Hsym : forall i j, i < n -> j < n -> entry a i j = entry a j i).
    { intros i j Hi Hj.
      destruct (nth_error names i) as [ni|] eqn:Eni; [|apply nth_error_None in Eni; unfold n in *; lia].
      destruct (nth_error names j) as [nj|] eqn:Enj; [|apply nth_error_None in Enj; unfold n in *; lia].
      pose proof (Hadj i j ni nj Eni Enj) as H1. pose proof (Hadj j i nj ni Enj Eni) as H2.
      rewrite (adjacent_sym g nj ni) in H2.
      destruct (Hb i j Hi Hj) as [Hx|Hx]; destruct (Hb j i Hj Hi) as [Hy|Hy]; try congruence.
      - exfalso. apply H2, H1 in Hy. congruence.
      - exfalso. apply H1, H2 in Hx. congruence. }
    unfold from_matrix.
    assert (Hsq : is_square a = true) by (apply is_square_true_iff; rewrite Hla; exact Hd).
    rewrite Hsq, (binary_is_binary Hd Hb). cbn [negb].
    rewrite (proj2 (Nat.eqb_eq (length names) (length a)) (eq_sym Hla)). cbn [bind run_op].
    destruct (@add_nodes_any parse k names (empty_graph []) Hnd) as (g0 & Hg0 & Hn0 & Hs0 & Hl0 & _).
    { intros x _ []. }
    { intros Hk x Hx. apply Hnames in Hx. unfold node_ids in Hx. apply in_map_iff in Hx.
      destruct Hx as (nd & <- & Hin). rewrite Hk in HI.
      destruct (ts_nodeok (inv_ts HI eq_refl) nd Hin) as (v & l & Hp & _). exists v, l; exact Hp. }
    rewrite Hg0. cbn [fst bind]. simpl in Hn0.
    destruct (@loop_sym parse fmt k a names Hnd Hb Hsym (pairs n) g0) as (g' & Hg' & Hn' & Hfw & _ & Hnew).
    - intros [i j] Hp. apply in_pairs in Hp. simpl. unfold n in *. lia.
    - apply pairs_nodup.
    - intros x Hx. rewrite Hn0. exact Hx.
    - exact Hl0.
    - intros e p ni nj He. rewrite Hs0 in He. destruct He.
    - fold n. rewrite Hg'. cbn [bind]. exists g'. split; [reflexivity|]. split; [congruence|].
      split; [|split].
      + intros x. rewrite Hn', Hn0. apply Hnames.
      + intros s d. split.
        * rewrite adjacent_edge. intros (e' & He' & Hk).
          destruct (Hfw e' He') as [He0|(_ & p & ni & nj & _ & (Hni & Hnj & Hx) & Hjn)];
            [rewrite Hs0 in He0; destruct He0|].
          apply (Hadj _ _ _ _ Hni Hnj) in Hx.
          unfold joins in Hjn. destruct Hk as [Hk|Hk]; destruct Hjn as [Hj|Hj];
            rewrite Hk in Hj; injection Hj as -> ->; auto; apply adjacent_sym; exact Hx.
        * intros Hadj'.
          assert (Hsd : s <> d).
          { apply adjacent_edge in Hadj'. destruct Hadj' as (e & He & Hk). intros ->.
            apply (inv_noloop HI e He). unfold edge_key in Hk. destruct Hk as [Hk|Hk]; congruence. }
          assert (Hs : In s names /\ In d names).
          { apply adjacent_edge in Hadj'. destruct Hadj' as (e & He & Hk).
            destruct (inv_endpoints HI e He) as [H1 H2]. rewrite !Hnames.
            unfold edge_key in Hk. destruct Hk as [Hk|Hk]; injection Hk as <- <-; auto. }
          destruct Hs as [Hs Hd']. apply In_nth_error in Hs, Hd'.
          destruct Hs as [i Hni]. destruct Hd' as [j Hnj].
          assert (Hi : i < n) by (apply nth_error_Some; congruence).
          assert (Hj : j < n) by (apply nth_error_Some; congruence).
          assert (Hij : i <> j) by (intros ->; congruence).
          apply adjacent_edge.
          destruct (Nat.lt_ge_cases i j) as [Hlt|Hge].
          -- destruct (Hnew (i, j) s d) as (e' & He' & Hjn).
             ++ apply in_pairs. lia.
             ++ split; [exact Hni|]. split; [exact Hnj|]. apply (Hadj _ _ _ _ Hni Hnj). exact Hadj'.
             ++ exists e'. split; [exact He'|exact Hjn].
          -- destruct (Hnew (j, i) d s) as (e' & He' & Hjn).
             ++ apply in_pairs. lia.
             ++ split; [exact Hnj|]. split; [exact Hni|]. apply (Hadj _ _ _ _ Hnj Hni).
                apply adjacent_sym. exact Hadj'.
             ++ exists e'. split; [exact He'|]. unfold joins in Hjn. destruct Hjn; auto.
      + intros e' He'. destruct (Hfw e' He') as [He0|(Ht & _)]; [rewrite Hs0 in He0; destruct He0|exact Ht].
  Qed.

  Hypothesis inv_init : inv_init_statement parse.
  Hypothesis inv_step : inv_step_statement parse fmt.
  Hypothesis cycle_check : cycle_check_statement parse.

  Theorem sk_rebuild_own v :
    exists g', from_matrix parse fmt k a (Some names) v = Ok g'
               /\ node_ids g' = names /\ same_skeleton g g' /\ Inv parse k g'.
  Proof.
    destruct sk_rebuild_own_novalidate as (g' & Hg' & Hids & Hsame).
    assert (HI' : Inv parse k g') by (eapply from_matrix_inv; eassumption).
    exists g'. split; [|auto]. destruct v; [|exact Hg'].
    rewrite (from_matrix_validated _ _ _ _ _ Hg').
    rewrite check_nodes_ok; [reflexivity|].
    intros d Hd. rewrite <- Hids in Hd.
    destruct (@cycle_check k g' d HI' Hd) as (b & Hb & Hiff). rewrite Hb.
    destruct b; [|reflexivity]. exfalso.
    assert (Hp : path (dgraph g') d d) by (apply Hiff; reflexivity).
    assert (Hfirst : exists w, arc (dgraph g') d w).
    { clear -Hp. unfold path in Hp. remember d as d' in Hp at 2. clear Heqd'.
      induction Hp as [x y Hxy|x y z _ IH1 _ _]; [exists y; exact Hxy|exact IH1]. }
    destruct Hfirst as (w & Hw). apply arc_has_edge in Hw. destruct Hw as (e & He & _ & Ht).
    destruct Hsame as (_ & _ & Hund). rewrite (Hund e He) in Ht. discriminate.
  Qed.
End RebuildOwnClass.

(** C09: rebuilt with the graph's own class (in particular a time-series skeleton read back as
    a time-series graph), validate=False *)
Theorem sk_rebuild_matrix_own_novalidate parse fmt k g a names :
  Inv parse k g -> sk_to_numpy g = Ok (a, names) ->
  exists g', sk_from_matrix parse fmt k a (Some names) false = Ok g' /\ same_skeleton g g'.
Proof.
  intros HI H. unfold sk_to_numpy in H. destruct (sk_adjacency g) as [a'|x] eqn:Ea; [|discriminate].
  simpl in H. injection H as <- <-.
  destruct (@sk_rebuild_own_novalidate parse fmt k g a' (v_node_names g) HI (sk_adjacency_spec HI Ea))
    as (g' & Hg' & _ & Hs).
  exists g'. split; assumption.
Qed.

Theorem sk_rebuild_nx_own_novalidate parse fmt k g :
  Inv parse k g ->
  exists g', sk_from_nx parse fmt k (sk_to_nx g) false = Ok g' /\ same_skeleton g g'.
Proof.
  intros HI.
  destruct (@sk_rebuild_own_novalidate parse fmt k g _ _ HI (sk_to_nx_spec HI)) as (g' & Hg' & _ & Hs).
  exists g'. split; assumption.
Qed.

Section WithGraphInvSkOwn.
  Variable parse : name -> option (name * Z).
  Variable fmt : name -> Z -> option name.
  (** GraphInvProofs.v / GraphAcyclicProofs.v (colleagues), exact shape of GraphInv.v *)
  Hypothesis inv_init : inv_init_statement parse.
  Hypothesis inv_step : inv_step_statement parse fmt.
  Hypothesis cycle_check : cycle_check_statement parse.

  (** [Skeleton.from_adjacency_matrix( *sk.to_numpy(), graph_class=type(g), validate=v)] *)
  Theorem sk_rebuild_matrix_own k g a names v :
    Inv parse k g -> sk_to_numpy g = Ok (a, names) ->
    exists g', sk_from_matrix parse fmt k a (Some names) v = Ok g'
               /\ same_skeleton g g' /\ Inv parse k g'.
  Proof.
    intros HI H. unfold sk_to_numpy in H. destruct (sk_adjacency g) as [a'|x] eqn:Ea; [|discriminate].
    simpl in H. injection H as <- <-.
    destruct (@sk_rebuild_own parse fmt k g a' (v_node_names g) HI (sk_adjacency_spec HI Ea)
                inv_init inv_step cycle_check v) as (g' & Hg' & _ & Hs & HI').
    exists g'. auto.
  Qed.

  (** [Skeleton.from_networkx(sk.to_networkx(), graph_class=type(g), validate=v)] and
      [type(g).from_skeleton(sk, validate=v)] *)
  Theorem sk_rebuild_nx_own k g v :
    Inv parse k g ->
    exists g', sk_from_nx parse fmt k (sk_to_nx g) v = Ok g'
               /\ same_skeleton g g' /\ Inv parse k g'.
  Proof.
    intros HI.
    destruct (@sk_rebuild_own parse fmt k g _ _ HI (sk_to_nx_spec HI)
                inv_init inv_step cycle_check v) as (g' & Hg' & _ & Hs & HI').
    exists g'. auto.
  Qed.
End WithGraphInvSkOwn.

(** the dictionary form: stated, validated by the correspondence check (0 mismatches, the
    rebuilt skeleton == the original on every sampled graph of both classes), not proved here *)
Definition sk_rebuild_dict_statement : Prop :=
  forall parse fmt k g,
    inv_init_statement parse -> inv_step_statement parse fmt -> cycle_check_statement parse ->
    Inv parse k g ->
    exists g', sk_from_dict parse fmt k g = Ok g' /\ same_skeleton g g'.

(** * Examples: non-vacuity and the behaviour observed on the implementation *)
From CG Require Import Names.

Module SkeletonExamples.
  Import MatrixExamples.
  Local Open Scope N_scope.

  (** [gex] is a -> b, c -- b, isolated d.  Observed on the implementation:
      skeleton.adjacency_matrix = [[0,1,0,0],[1,0,1,0],[0,1,0,0],[0,0,0,0]],
      skeleton.get_neighbors('b') = {'a','c'}, get_neighbors('zz') raises AssertionError,
      skeleton.get_edge('b','c') = Edge("c","b",--), get_edge('a','c') raises AssertionError *)
  Example gex_sk_adjacency :
    sk_adjacency gex = Ok [[0; 1; 0; 0]; [1; 0; 1; 0]; [0; 1; 0; 0]; [0; 0; 0; 0]]%Z.
  Proof. vm_compute. reflexivity. Qed.
  Example gex_sk_edges :
    map (fun e => (esrc e, edst e, ety e)) (sk_edges gex) = [(na, nb, Und); (nc, nb, Und)].
  Proof. vm_compute. reflexivity. Qed.
  Example gex_sk_nodes :
    sk_nodes parse Plain gex
    = Ok [(na, VUnspec, []); (nb, VUnspec, []); (nc, VUnspec, []); (nd, VUnspec, [])].
  Proof. vm_compute. reflexivity. Qed.
  Example gex_sk_neighbors :
    sk_neighbors gex nb = Ok [na; nc] /\ sk_neighbors gex nd = Ok []
    /\ sk_neighbors gex [122; 122] = Err EAssert.
  Proof. repeat split; vm_compute; reflexivity. Qed.
  Example gex_sk_get_edge :
    (exists e, sk_get_edge gex nb nc = Ok e /\ (esrc e, edst e, ety e) = (nc, nb, Und))
    /\ sk_get_edge gex na nc = Err EAssert
    /\ sk_edge_exists gex nb na = true /\ sk_edge_exists gex na nc = false.
  Proof. split; [eexists; split; vm_compute; reflexivity|]. repeat split; vm_compute; reflexivity. Qed.

  (** the hypotheses of the C09 theorems hold of [gex] ([MatrixExamples.gex_inv]); rebuilding
      its skeleton from the matrix gives a -- b, b -- c and the isolated node *)
  Example gex_sk_rebuild :
    exists g', sk_from_matrix parse fmt Plain
                 [[0; 1; 0; 0]; [1; 0; 1; 0]; [0; 1; 0; 0]; [0; 0; 0; 0]]%Z
                 (Some [na; nb; nc; nd]) true = Ok g'
      /\ map (fun e => (esrc e, edst e, ety e)) (v_edges g') = [(na, nb, Und); (nb, nc, Und)]
      /\ v_node_names g' = [na; nb; nc; nd]
      /\ sk_eqb gex g' = true.
  Proof. eexists. split; [vm_compute; reflexivity|]. repeat split; vm_compute; reflexivity. Qed.

  Example gex_sk_rebuild_thm :
    exists g', sk_from_matrix parse fmt Plain
                 [[0; 1; 0; 0]; [1; 0; 1; 0]; [0; 1; 0; 0]; [0; 0; 0; 0]]%Z
                 (Some [na; nb; nc; nd]) false = Ok g' /\ same_skeleton gex g'.
  Proof.
    apply (@sk_rebuild_matrix_novalidate parse fmt Plain gex _ _ gex_inv). vm_compute. reflexivity.
  Qed.

  Example gex_sk_rebuild_nx_dict :
    (exists g', sk_from_nx parse fmt Plain (sk_to_nx gex) true = Ok g' /\ sk_eqb gex g' = true)
    /\ (exists g', sk_from_dict parse fmt Plain gex = Ok g' /\ sk_eqb gex g' = true).
  Proof. split; eexists; split; vm_compute; reflexivity. Qed.

  (** a time-series graph: x lag(n=1) -> x, and the skeleton rebuilt with the time-series class *)
  Definition gts : graph :=
    run parse fmt TS [OAddEdge (str_ep x1) (str_ep x0) Dir None true] (empty_graph []).
  Example gts_sk :
    sk_adjacency gts = Ok [[0; 1]; [1; 0]]%Z
    /\ (exists g', sk_from_matrix parse fmt TS [[0; 1]; [1; 0]]%Z (Some [x0; x1]) true = Ok g'
                   /\ map (fun e => (esrc e, edst e, ety e)) (v_edges g') = [(x1, x0, Und)]
                   /\ sk_eqb gts g' = true)
    /\ (exists l, sk_nodes parse TS gts = Ok l /\ map n3_id l = [x0; x1]).
  Proof.
    split; [vm_compute; reflexivity|]. split; eexists; (split; [vm_compute; reflexivity|]).
    - split; vm_compute; reflexivity.
    - vm_compute; reflexivity.
  Qed.

  Lemma gts_inv : Inv parse TS gts.
  Proof.
    constructor.
    - vm_compute. repeat constructor; simpl; intuition discriminate.
    - vm_compute. apply Permutation_refl.
    - vm_compute. repeat constructor; simpl; intuition discriminate.
    - intros e He. vm_compute in He. destruct He as [<-|[]]; vm_compute; intuition.
    - intros e He. vm_compute in He. destruct He as [<-|[]]; vm_compute; discriminate.
    - intros e He. vm_compute in He. destruct He as [<-|[]]; vm_compute; intuition discriminate.
    - intros n Hn. vm_compute in Hn. destruct Hn as [<-|[<-|[]]]; vm_compute; apply Permutation_refl.
    - intros n Hn. vm_compute in Hn. destruct Hn as [<-|[<-|[]]]; vm_compute; apply Permutation_refl.
    - discriminate.
    - intros _. constructor.
      + intros n Hn. vm_compute in Hn. destruct Hn as [<-|[<-|[]]]; eexists; eexists;
          vm_compute; repeat split; reflexivity.
      + vm_compute. repeat constructor.
      + vm_compute. repeat constructor.
      + intros e He. vm_compute in He. destruct He as [<-|[]]. exists (-1)%Z, 0%Z.
        vm_compute. repeat split; discriminate.
  Qed.

  (** the hypotheses of the own-class rebuild theorem hold of a time-series graph *)
  Example gts_sk_rebuild_thm :
    exists g', sk_from_matrix parse fmt TS [[0; 1]; [1; 0]]%Z (Some [x0; x1]) false = Ok g'
               /\ same_skeleton gts g'.
  Proof.
    apply (@sk_rebuild_matrix_own_novalidate parse fmt TS gts _ _ gts_inv). vm_compute. reflexivity.
  Qed.
End SkeletonExamples.
