(** TSGraph.v — executable model of the time-series algorithms of
    /repo/cai_causal_graph/time_series_causal_graph.py (class TimeSeriesCausalGraph):

      [minimal]        get_minimal_graph            [is_minimal]     is_minimal_graph
      [extend]         extend_graph                 [adj_matrices]   adjacency_matrices
      [stationary]     get_stationary_graph         [is_stationary]  is_stationary_graph
      [summary]        get_summary_graph            [ts_graph_eqb]   CausalGraph.__eq__ (shallow)

    DEFINITIONS ONLY (proofs in TSGraphProofs.v and the files it is split into).

    A time-series node is identified by its key (variable name, integer lag); its Python
    identifier string is [tident v k] (Dec.v).  [get_nodes()] / [get_edges()] return the nodes
    sorted by identifier and the edges sorted by (source identifier, destination identifier):
    [sorted_nodes] / [sorted_edges].  Existence tests are done on keys, which is what the
    Python code does on identifier strings as long as [tident] is injective on the keys that
    occur (it is for every variable name the codec round-trips, see Names.v).

    [tm] is the USER metadata of a node, i.e. without the two reserved tags
    ['time_lag'] / ['variable_name'], which every [TimeSeriesNode] constructor recomputes from
    the identifier (interfaces.py [_process_meta]: explicit keyword arguments win).

    The loops follow the Python statement by statement (same iteration order, same
    first-wins behaviour, same one-orientation [edge_exists] tests, same source of the
    attributes of implicitly created nodes). *)
From CG Require Import Base Dec Digraph.
Set Implicit Arguments.
Local Open Scope Z_scope.

(** * State *)

Record tnode := { tv : name; tl : Z; tvt : vtype; tm : meta }.
Record tedge := { es : name; esl : Z; ed : name; edl : Z; ety : etype; em : meta }.
(** [tnodes] is kept in INSERTION order (the order of the Python dict [_nodes_by_identifier],
    which for graphs built with add_node / add_edge is also the order of the per-variable lists
    [_variable_name_to_nodes] used by [get_nodes_for_variable_name(v)[0]]); [tedges] in any order. *)
Record tsg := { tnodes : list tnode; tedges : list tedge; tgmeta : meta }.

Definition key := (name * Z)%type.
Definition key_eqb (a b : key) : bool := name_eqb (fst a) (fst b) && (snd a =? snd b).
Definition nkey (n : tnode) : key := (tv n, tl n).
Definition esrc (e : tedge) : key := (es e, esl e).
Definition edst (e : tedge) : key := (ed e, edl e).
Definition ekey (e : tedge) : key * key := (esrc e, edst e).
Definition kident (k : key) : name := tident (fst k) (snd k).

Definition node_leb (a b : tnode) : bool := name_leb (kident (nkey a)) (kident (nkey b)).
Definition edge_ids (e : tedge) : name * name := (kident (esrc e), kident (edst e)).
Definition edge_leb (a b : tedge) : bool := pair_leb (edge_ids a) (edge_ids b).

(** [get_nodes()] and [get_edges()]. *)
Definition sorted_nodes (g : tsg) : list tnode := isort node_leb (tnodes g).
Definition sorted_edges (g : tsg) : list tedge := isort edge_leb (tedges g).

Definition empty_tsg (gm : meta) : tsg := {| tnodes := []; tedges := []; tgmeta := gm |}.

Definition find_node (g : tsg) (k : key) : option tnode :=
  find (fun n => key_eqb (nkey n) k) (tnodes g).
Definition node_exists (g : tsg) (k : key) : bool :=
  existsb (fun n => key_eqb (nkey n) k) (tnodes g).
(** [edge_exists(a, b)]: looks in ONE orientation only. *)
Definition edge_exists (g : tsg) (s d : key) : bool :=
  existsb (fun e => key_eqb (esrc e) s && key_eqb (edst e) d) (tedges g).
Definition find_edge (g : tsg) (s d : key) : option tedge :=
  find (fun e => key_eqb (esrc e) s && key_eqb (edst e) d) (tedges g).

(** [add_node(node=n)] on a graph that does not have the node. *)
Definition add_node (g : tsg) (n : tnode) : tsg :=
  {| tnodes := tnodes g ++ [n]; tedges := tedges g; tgmeta := tgmeta g |}.
(** [if not g.node_exists(n.identifier): g.add_node(node=n)]. *)
Definition ensure_node (g : tsg) (n : tnode) : tsg :=
  if node_exists g (nkey n) then g else add_node g n.

Definition mk_edge (s d : tnode) (ty : etype) (m : meta) : tedge :=
  {| es := tv s; esl := tl s; ed := tv d; edl := tl d; ety := ty; em := m |}.

(** [add_edge(source=sn, destination=dn, edge_type=ty, meta=m, validate=False)] where [sn], [dn]
    are Node objects (their attributes are used only when the node has to be created).
    causal_graph.py: [add_edge] -> [_prepare_nodes] (self-loop: CyclicConnectionError; missing
    endpoints created, source first; an entry source->destination: EdgeDuplicatedError) ->
    [TimeSeriesEdge(...)] (non-directed edge given later->earlier: endpoints swapped; directed:
    ValueError) -> [_set_edge] (entry for the final orientation: EdgeDuplicatedError; entry for
    the reversed orientation: ReverseEdgeExistsError).  On an exception the implicitly created
    nodes are removed again, i.e. the graph is unchanged; the model returns [Err]. *)
Definition add_edge (g : tsg) (sn dn : tnode) (ty : etype) (m : meta) : res tsg :=
  if key_eqb (nkey sn) (nkey dn) then Err ECyclic
  else
    let g1 := ensure_node g sn in
    let g2 := ensure_node g1 dn in
    if edge_exists g (nkey sn) (nkey dn) then Err EEdgeDup
    else
      let swap := negb (etype_eqb ty Dir) && (tl dn <? tl sn) in
      let s := if swap then dn else sn in
      let d := if swap then sn else dn in
      if etype_eqb ty Dir && (tl dn <? tl sn) then Err EValue
      else if edge_exists g2 (nkey s) (nkey d) then Err EEdgeDup
      else if edge_exists g2 (nkey d) (nkey s) then Err EReverse
      else Ok {| tnodes := tnodes g2; tedges := tedges g2 ++ [mk_edge s d ty m]; tgmeta := tgmeta g2 |}.

(** [_get_lagged_node(node, lag)] / [TimeSeriesNode(identifier=<name at lag k>, meta=node.meta,
    variable_type=node.variable_type)]: same variable, type and user metadata, new lag. *)
Definition relag (n : tnode) (k : Z) : tnode :=
  {| tv := tv n; tl := k; tvt := tvt n; tm := tm n |}.

(** Left-to-right loop that stops at the first exception. *)
Fixpoint rfold (S A : Type) (f : S -> A -> res S) (l : list A) (x : S) : res S :=
  match l with
  | [] => Ok x
  | a :: l' => match f x a with Ok x' => rfold f l' x' | Err e => Err e end
  end.

(** [self.variables]: [sorted(list(set(node.variable_name for node in self.get_nodes())))]. *)
Definition variables (g : tsg) : list name := sort_names (dedup (map tv (tnodes g))).
Definition has_var (g : tsg) (v : name) : bool := existsb (fun n => name_eqb (tv n) v) (tnodes g).
(** [self.get_nodes_for_variable_name(v)[0]] (IndexError when there is none). *)
Definition first_of_var (g : tsg) (v : name) : option tnode :=
  find (fun n => name_eqb (tv n) v) (tnodes g).

(** * get_minimal_graph *)

(** The two [minimal_cg.add_edge(edge=edge, validate=False)] calls: the endpoint Node objects are
    rebuilt from the endpoints of the (copied) edge of [self] with the new lag. *)
Definition min_add (g m : tsg) (e : tedge) (sl : Z) : res tsg :=
  match find_node g (esrc e), find_node g (edst e) with
  | Some ns, Some nd => add_edge m (relag ns sl) (relag nd 0) (ety e) (em e)
  | _, _ => Err ENodeMissing   (* ill-formed state: an edge whose endpoint is not a node *)
  end.

Definition min_step (g m : tsg) (e : tedge) : res tsg :=
  let delta := edl e - esl e in
  if (delta =? 0) && negb (edge_exists m (es e, 0) (ed e, 0)) then min_add g m e 0
  else if negb (edge_exists m (es e, - delta) (ed e, 0)) then min_add g m e (- delta)
  else Ok m.

Definition float_step (g m : tsg) (v : name) : res tsg :=
  if negb (has_var m v) && negb (node_exists m (v, 0)) then
    match first_of_var g v with
    | Some n => Ok (add_node m (relag n 0))
    | None => Err EIndex
    end
  else Ok m.

Definition minimal (g : tsg) : res tsg :=
  match rfold (min_step g) (sorted_edges g) (empty_tsg (tgmeta g)) with
  | Ok m => rfold (float_step g) (variables g) m
  | Err e => Err e
  end.

(** * Graph equality: shallow [CausalGraph.__eq__] between two time-series graphs *)

Definition upair_eqb (p q : key * key) : bool :=
  (key_eqb (fst p) (fst q) && key_eqb (snd p) (snd q))
  || (key_eqb (fst p) (snd q) && key_eqb (snd p) (fst q)).

Definition sym_type (t : etype) : bool :=
  match t with Und | Bi | Unk => true | _ => false end.

(** [edge.__eq__(other_edge)] for the edge of [other] found by [get_edge(s, d)], or, failing
    that, by [get_edge(d, s)] ([None]: EdgeDoesNotExistError, unreachable after the pair-set test). *)
Definition edge_match (other : tsg) (e : tedge) : bool :=
  match find_edge other (esrc e) (edst e) with
  | Some e' => etype_eqb (ety e) (ety e')
  | None =>
      match find_edge other (edst e) (esrc e) with
      | Some e' => sym_type (ety e) && etype_eqb (ety e) (ety e')
      | None => false
      end
  end.

Definition ts_graph_eqb (a b : tsg) : bool :=
  Nat.eqb (length (tnodes a)) (length (tnodes b))
  && Nat.eqb (length (tedges a)) (length (tedges b))
  && forallb (fun n => node_exists b (nkey n)) (tnodes a)
  && forallb (fun n => node_exists a (nkey n)) (tnodes b)
  && forallb (fun e => existsb (fun e' => upair_eqb (ekey e) (ekey e')) (tedges b)) (tedges a)
  && forallb (fun e => existsb (fun e' => upair_eqb (ekey e) (ekey e')) (tedges a)) (tedges b)
  && forallb (edge_match b) (tedges a).

Definition is_minimal (g : tsg) : res bool :=
  match minimal g with Ok m => Ok (ts_graph_eqb g m) | Err e => Err e end.

(** * extend_graph *)

Definition is_empty (g : tsg) : bool :=
  match tnodes g, tedges g with [], [] => true | _, _ => false end.

(** [graph.copy()] = [from_dict(to_dict())]: nodes, then edges, re-inserted in sorted order. *)
Definition copy_g (g : tsg) : tsg :=
  {| tnodes := sorted_nodes g; tedges := sorted_edges g; tgmeta := tgmeta g |}.

(** [range(lo, hi + 1)]. *)
Definition zrange (lo hi : Z) : list Z :=
  map (fun i => lo + Z.of_nat i) (seq 0 (Z.to_nat (hi - lo + 1))).

(** [max_backward_lag]: [None] on a graph without a node at lag <= 0. *)
Definition max_backward_lag (g : tsg) : option Z :=
  match filter (fun k => k <=? 0) (map tl (tnodes g)) with
  | [] => None
  | k :: ks => Some (Z.abs (fold_left Z.min ks k))
  end.

(** [for node in minimal_graph.get_nodes(): n' = _get_lagged_node(node, k); add if absent]. *)
Definition ensure_nodes_at (m x : tsg) (k : Z) : tsg :=
  fold_left (fun x n => ensure_node x (relag n k)) (sorted_nodes m) x.

Definition back_nodes (m x : tsg) (bs : Z) : tsg :=
  fold_left (fun x lag => ensure_nodes_at m x (- lag)) (zrange 0 bs) x.

Definition fwd_nodes (m x : tsg) (fs : Z) : tsg :=
  fold_left (fun x lag => ensure_nodes_at m x lag) (zrange 0 fs) x.

Definition back_edge_step (m : tsg) (bs : Z) (iap : bool) (lag : Z) (x : tsg) (e : tedge)
  : res tsg :=
  match find_node m (esrc e), find_node m (edst e) with
  | Some ns, Some nd =>
      let delta := tl nd - tl ns in
      let ld := relag nd (- lag) in
      if ((- lag - delta) <? (- bs)) && negb iap then Ok x
      else
        let ls := relag ns (- lag - delta) in
        if negb (edge_exists x (nkey ls) (nkey ld)) then add_edge x ls ld (ety e) (em e)
        else Ok x
  | _, _ => Err ENodeMissing
  end.

Definition back_edges (m : tsg) (bs : Z) (iap : bool) (x : tsg) : res tsg :=
  rfold (fun x lag => rfold (back_edge_step m bs iap lag) (sorted_edges m) x) (zrange 1 bs) x.

Definition fwd_edge_step (m : tsg) (lag : Z) (x : tsg) (e : tedge) : res tsg :=
  match find_node m (esrc e), find_node m (edst e) with
  | Some ns, Some nd =>
      let ls := relag ns (tl ns + lag) in
      let ld := relag nd (tl nd + lag) in
      let x1 := ensure_node x ls in
      let x2 := ensure_node x1 ld in
      match find_node x2 (nkey ls), find_node x2 (nkey ld) with
      | Some a, Some b => add_edge x2 a b (ety e) (em e)
      | _, _ => Err EKey
      end
  | _, _ => Err ENodeMissing
  end.

Definition fwd_edges (m : tsg) (fs : Z) (x : tsg) : res tsg :=
  rfold (fun x lag => rfold (fwd_edge_step m lag) (sorted_edges m) x) (zrange 1 fs) x.

Definition neg_opt (o : option Z) : bool := match o with Some z => z <? 0 | None => false end.

Definition extend_back (m : tsg) (b : option Z) (iap : bool) (x : tsg) : res tsg :=
  match b with
  | None => Ok x
  | Some bs =>
      match max_backward_lag m with
      | None => Err EAssert
      | Some _ => back_edges m bs iap (back_nodes m x bs)
      end
  end.

Definition extend_fwd (m : tsg) (f : option Z) (x : tsg) : res tsg :=
  match f with
  | None => Ok x
  | Some fs => fwd_edges m fs (fwd_nodes m x fs)
  end.

(** [g.extend_graph(backward_steps=b, forward_steps=f, include_all_parents=iap)]. *)
Definition extend (g : tsg) (b f : option Z) (iap : bool) : res tsg :=
  if neg_opt b || neg_opt f then Err EAssert
  else
    match minimal g with
    | Err e => Err e
    | Ok m =>
        if is_empty m then Ok m
        else
          match extend_back m b iap (copy_g m) with
          | Err e => Err e
          | Ok x => extend_fwd m f x
          end
    end.

(** * get_stationary_graph / is_stationary_graph *)

Definition min_lag (l : list Z) : option Z :=
  match l with [] => None | k :: ks => Some (fold_left Z.min ks k) end.
Definition max_lag (l : list Z) : option Z :=
  match l with [] => None | k :: ks => Some (fold_left Z.max ks k) end.

Definition stationary (g : tsg) : res tsg :=
  match minimal g with
  | Err e => Err e
  | Ok m =>
      match min_lag (map tl (tnodes g)), max_lag (map tl (tnodes g)) with
      | Some lo, Some hi => extend m (Some (- lo)) (Some hi) false
      | _, _ => Err EIndex
      end
  end.

(** [is_dag] is the value of [self.is_dag()] (see [ts_is_dag] below for a model of it). *)
Definition is_stationary (is_dag : bool) (g : tsg) : res bool :=
  if negb is_dag then Ok false
  else match stationary g with Ok s => Ok (ts_graph_eqb s g) | Err e => Err e end.

(** [is_dag()]: every edge directed and no directed cycle. *)
Definition ts_digraph (g : tsg) : digraph key :=
  {| verts := map nkey (tnodes g); arcs := map ekey (tedges g) |}.
Definition ts_is_dag (g : tsg) : bool :=
  forallb (fun e => etype_eqb (ety e) Dir) (tedges g) && acyclicb key_eqb (ts_digraph g).

Definition is_stationary_graph (g : tsg) : res bool := is_stationary (ts_is_dag g) g.

(** * adjacency_matrices *)

Fixpoint index_of (v : name) (l : list name) : option nat :=
  match l with
  | [] => None
  | x :: l' => if name_eqb v x then Some O
               else match index_of v l' with Some i => Some (S i) | None => None end
  end.

Fixpoint set_nth (A : Type) (i : nat) (f : A -> A) (l : list A) : list A :=
  match l, i with
  | [], _ => []
  | x :: l', O => f x :: l'
  | x :: l', S i' => x :: set_nth i' f l'
  end.

Definition matrix := list (list bool).
Definition zeros (n : nat) : matrix := repeat (repeat false n) n.
Definition set_cell (i j : nat) (mx : matrix) : matrix :=
  set_nth i (set_nth j (fun _ => true)) mx.

(** dict [source lag -> matrix] in insertion order. *)
Fixpoint upd_lag (k : Z) (n : nat) (f : matrix -> matrix) (d : list (Z * matrix))
  : list (Z * matrix) :=
  match d with
  | [] => [(k, f (zeros n))]
  | (k', mx) :: d' => if k =? k' then (k', f mx) :: d' else (k', mx) :: upd_lag k n f d'
  end.

Definition adj_step (vars : list name) (d : list (Z * matrix)) (e : tedge)
  : res (list (Z * matrix)) :=
  match index_of (es e) vars, index_of (ed e) vars with
  | Some i, Some j =>
      match ety e with
      | Dir => Ok (upd_lag (esl e) (length vars) (set_cell i j) d)
      | Und => Ok (upd_lag (esl e) (length vars) (fun mx => set_cell j i (set_cell i j mx)) d)
      | _ => Err EType
      end
  | _, _ => Err EValue   (* list.index of a missing name; unreachable on well-formed graphs *)
  end.

Definition adj_matrices (g : tsg) : res (list (Z * matrix)) :=
  match minimal g with
  | Err e => Err e
  | Ok m => rfold (adj_step (variables m)) (sorted_edges m) []
  end.

(** * get_summary_graph: the result is a plain CausalGraph *)

Record pnode := { pn : name; pvt : vtype; pm : meta }.
Record pedge := { ps : name; pd : name; pty : etype; pem : meta }.
Record pgraph := { pnodes : list pnode; pedges : list pedge; pgmeta : meta }.

Definition p_node_exists (g : pgraph) (v : name) : bool :=
  existsb (fun n => name_eqb (pn n) v) (pnodes g).
Definition p_edge_exists (g : pgraph) (s d : name) : bool :=
  existsb (fun e => name_eqb (ps e) s && name_eqb (pd e) d) (pedges g).
Definition p_find_edge (g : pgraph) (s d : name) : option pedge :=
  find (fun e => name_eqb (ps e) s && name_eqb (pd e) d) (pedges g).
Definition p_ensure_node (g : pgraph) (n : pnode) : pgraph :=
  if p_node_exists g (pn n) then g
  else {| pnodes := pnodes g ++ [n]; pedges := pedges g; pgmeta := pgmeta g |}.

(** Plain [CausalGraph.add_edge(..., validate=False)] (the [Edge] class never swaps). *)
Definition p_add_edge (g : pgraph) (sn dn : pnode) (ty : etype) (m : meta) : res pgraph :=
  if name_eqb (pn sn) (pn dn) then Err ECyclic
  else
    let g2 := p_ensure_node (p_ensure_node g sn) dn in
    if p_edge_exists g (pn sn) (pn dn) then Err EEdgeDup
    else if p_edge_exists g2 (pn dn) (pn sn) then Err EReverse
    else Ok {| pnodes := pnodes g2;
               pedges := pedges g2 ++ [{| ps := pn sn; pd := pn dn; pty := ty; pem := m |}];
               pgmeta := pgmeta g2 |}.

Definition p_remove_edge (g : pgraph) (s d : name) : pgraph :=
  {| pnodes := pnodes g;
     pedges := filter (fun e => negb (name_eqb (ps e) s && name_eqb (pd e) d)) (pedges g);
     pgmeta := pgmeta g |}.

(** "time_lag" and "variable_name". *)
Definition s_time_lag : name := [116; 105; 109; 101; 95; 108; 97; 103]%N.
Definition s_variable_name : name :=
  [118; 97; 114; 105; 97; 98; 108; 101; 95; 110; 97; 109; 101]%N.

(** The summary node made from a time-series node [n]: [TimeSeriesNode(identifier=variable,
    meta=n.meta, variable_type=n.variable_type)] and then a plain [add_node(node=...)] that
    deep-copies the FULL metadata, reserved tags included (time_lag becomes 0). *)
Definition summary_node (n : tnode) : pnode :=
  {| pn := tv n; pvt := tvt n;
     pm := meta_set s_variable_name (JStr (tv n)) (meta_set s_time_lag (JInt 0) (tm n)) |}.
Definition bare_node (v : name) : pnode := {| pn := v; pvt := VUnspec; pm := [] |}.

Definition summary_step (g : tsg) (sg : pgraph) (e : tedge) : res pgraph :=
  let sv := es e in
  let dv := ed e in
  if name_eqb sv dv then Ok sg
  else if p_edge_exists sg dv sv then
    match p_find_edge sg dv sv with
    | Some r =>
        match pty r with
        | Dir => p_add_edge (p_remove_edge sg dv sv) (bare_node dv) (bare_node sv) Bi (pem r)
        | _ => Ok sg
        end
    | None => Err EEdgeMissing
    end
  else if negb (p_edge_exists sg sv dv) then
    match find_node g (esrc e), find_node g (edst e) with
    | Some ns, Some nd => p_add_edge sg (summary_node ns) (summary_node nd) (ety e) (em e)
    | _, _ => Err ENodeMissing
    end
  else Ok sg.

(** [if var_name not in summary_var_names: summary_graph.add_node(var_name)]. *)
Definition summary_float (sg : pgraph) (v : name) : pgraph := p_ensure_node sg (bare_node v).

(** The loops of [get_summary_graph] after the [assert self.is_dag()]. *)
Definition summary_body (g : tsg) : res pgraph :=
  match rfold (summary_step g) (sorted_edges g)
              {| pnodes := []; pedges := []; pgmeta := tgmeta g |} with
  | Err e => Err e
  | Ok sg => Ok (fold_left summary_float (variables g) sg)
  end.

Definition summary (g : tsg) : res pgraph :=
  if ts_is_dag g then summary_body g else Err EAssert.

(** * Boolean equalities (used by the checkers and by the correspondence harness) *)

Definition tnode_eqb (a b : tnode) : bool :=
  key_eqb (nkey a) (nkey b) && vtype_eqb (tvt a) (tvt b) && meta_eqb (tm a) (tm b).
Definition tedge_eqb (a b : tedge) : bool :=
  key_eqb (esrc a) (esrc b) && key_eqb (edst a) (edst b)
  && etype_eqb (ety a) (ety b) && meta_eqb (em a) (em b).

Fixpoint nodup_by (A : Type) (eqb : A -> A -> bool) (l : list A) : bool :=
  match l with
  | [] => true
  | x :: l' => negb (existsb (eqb x) l') && nodup_by eqb l'
  end.

Definition ekey_eqb (p q : key * key) : bool :=
  key_eqb (fst p) (fst q) && key_eqb (snd p) (snd q).

(** * Property oracles: boolean deciders of the characterisations C14–C17 for a given
      (input, output) pair.  Their Prop readings are in TSGraphProofs.v. *)

(** C14.  [place e]: the template of [e] placed with its destination at lag 0. *)
Definition delta (e : tedge) : Z := edl e - esl e.
Definition place_src (e : tedge) : key := (es e, - delta e).
Definition place_dst (e : tedge) : key := (ed e, 0).
Definition touches (g : tsg) (v : name) : bool :=
  existsb (fun e => name_eqb (es e) v || name_eqb (ed e) v) (tedges g).

Definition c14_edge_sound (g m : tsg) : bool :=
  forallb (fun e' =>
    existsb (fun e0 => key_eqb (esrc e') (place_src e0) && key_eqb (edst e') (place_dst e0)
                       && etype_eqb (ety e') (ety e0) && meta_eqb (em e') (em e0)) (tedges g))
    (tedges m).
Definition c14_edge_complete (g m : tsg) : bool :=
  forallb (fun e0 => edge_exists m (place_src e0) (place_dst e0)) (tedges g).
Definition c14_node_sound (g m : tsg) : bool :=
  forallb (fun n' =>
    existsb (fun e0 =>
      match find_node g (esrc e0) with
      | Some n0 => tnode_eqb n' (relag n0 (- delta e0))
      | None => false
      end
      || match find_node g (edst e0) with
         | Some n0 => tnode_eqb n' (relag n0 0)
         | None => false
         end) (tedges g)
    || (negb (touches g (tv n'))
        && match first_of_var g (tv n') with
           | Some n0 => tnode_eqb n' (relag n0 0)
           | None => false
           end)) (tnodes m).
Definition c14_node_complete (g m : tsg) : bool :=
  forallb (fun e0 => node_exists m (place_src e0) && node_exists m (place_dst e0)) (tedges g)
  && forallb (fun n => touches g (tv n) || node_exists m (tv n, 0)) (tnodes g).

Definition c14_check (g m : tsg) : bool :=
  c14_edge_sound g m && c14_edge_complete g m
  && nodup_by ekey_eqb (map ekey (tedges m))
  && c14_node_sound g m && c14_node_complete g m
  && nodup_by key_eqb (map nkey (tnodes m))
  && meta_eqb (tgmeta m) (tgmeta g).

(** C15, relative to the minimal graph [m].  An edge of the result ending at time [t] is a kept
    copy when [t = 0], or [-b <= t <= -1] (and, without include_all_parents, its source is not
    before [-b]), or [1 <= t <= f]. *)
Definition in_back (b : option Z) (t : Z) : bool :=
  match b with Some bs => (- bs <=? t) && (t <=? -1) | None => false end.
Definition in_fwd (f : option Z) (t : Z) : bool :=
  match f with Some fs => (1 <=? t) && (t <=? fs) | None => false end.
Definition src_ok (b : option Z) (iap : bool) (sl : Z) : bool :=
  iap || match b with Some bs => - bs <=? sl | None => false end.
Definition kept (b f : option Z) (iap : bool) (sl t : Z) : bool :=
  (t =? 0) || (in_back b t && src_ok b iap sl) || in_fwd f t.
Definition in_window (b f : option Z) (k : Z) : bool :=
  match b with Some bs => (- bs <=? k) && (k <=? 0) | None => false end
  || match f with Some fs => (0 <=? k) && (k <=? fs) | None => false end.

(** [e'] is the copy of the minimal edge [e] ending at [edl e']. *)
Definition is_copy (e e' : tedge) : bool :=
  name_eqb (es e') (es e) && name_eqb (ed e') (ed e) && (delta e' =? delta e)
  && etype_eqb (ety e') (ety e) && meta_eqb (em e') (em e).

Definition c15_edge_sound (m : tsg) (b f : option Z) (iap : bool) (x : tsg) : bool :=
  forallb (fun e' => existsb (fun e => is_copy e e') (tedges m)
                     && kept b f iap (esl e') (edl e')) (tedges x).
(** every kept copy is present: for each minimal edge and each end time in the windows. *)
Definition ends (b f : option Z) : list Z :=
  0 :: match b with Some bs => zrange (- bs) (-1) | None => [] end
    ++ match f with Some fs => zrange 1 fs | None => [] end.
Definition c15_edge_complete (m : tsg) (b f : option Z) (iap : bool) (x : tsg) : bool :=
  forallb (fun e =>
    forallb (fun t => negb (kept b f iap (t - delta e) t)
                      || edge_exists x (es e, t - delta e) (ed e, t)) (ends b f)) (tedges m).
(** a node of the result is a minimal node, a window node of a minimal variable, or an endpoint
    of an edge of the result; it carries the attributes of a minimal node of its variable. *)
Definition c15_node_sound (m : tsg) (b f : option Z) (x : tsg) : bool :=
  forallb (fun n' =>
    (node_exists m (nkey n')
     || (has_var m (tv n') && in_window b f (tl n'))
     || existsb (fun e' => key_eqb (esrc e') (nkey n') || key_eqb (edst e') (nkey n')) (tedges x))
    && existsb (fun n => tnode_eqb n' (relag n (tl n'))) (tnodes m)) (tnodes x).
Definition windows (b f : option Z) : list Z :=
  match b with Some bs => zrange (- bs) 0 | None => [] end
  ++ match f with Some fs => zrange 0 fs | None => [] end.
Definition c15_node_complete (m : tsg) (b f : option Z) (x : tsg) : bool :=
  forallb (fun n => node_exists x (nkey n)
                    && forallb (fun k => node_exists x (tv n, k)) (windows b f)) (tnodes m)
  && forallb (fun e' => node_exists x (esrc e') && node_exists x (edst e')) (tedges x).

Definition c15_check_m (m : tsg) (b f : option Z) (iap : bool) (x : tsg) : bool :=
  c15_edge_sound m b f iap x && c15_edge_complete m b f iap x
  && nodup_by ekey_eqb (map ekey (tedges x))
  && c15_node_sound m b f x && c15_node_complete m b f x
  && nodup_by key_eqb (map nkey (tnodes x))
  && meta_eqb (tgmeta x) (tgmeta m).

(** Same nodes (with attributes) and same edges (with type and metadata), as sets. *)
Definition same_graph_b (a b : tsg) : bool :=
  forallb (fun n => existsb (tnode_eqb n) (tnodes b)) (tnodes a)
  && forallb (fun n => existsb (tnode_eqb n) (tnodes a)) (tnodes b)
  && forallb (fun e => existsb (tedge_eqb e) (tedges b)) (tedges a)
  && forallb (fun e => existsb (tedge_eqb e) (tedges a)) (tedges b)
  && meta_eqb (tgmeta a) (tgmeta b).

(** [m] is a minimal graph of [g] (C14) and [x] is the window extension of [m] (C15). *)
Definition c15_check (g : tsg) (b f : option Z) (iap : bool) (x : tsg) : bool :=
  match minimal g with
  | Ok m => if is_empty m then same_graph_b m x else c15_check_m m b f iap x
  | Err _ => false
  end.

(** C16.  [s] contains [g], spans the lag window [lo, hi] of [g] with every variable at every
    lag, contains every template copy that fits in the window and nothing else. *)
Definition c16_check (g s : tsg) : bool :=
  match minimal g, min_lag (map tl (tnodes g)), max_lag (map tl (tnodes g)) with
  | Ok m, Some lo, Some hi =>
      (* every node key and every edge (key, type) of the input is in the result *)
      forallb (fun n => node_exists s (nkey n)) (tnodes g)
      && forallb (fun e => existsb (fun e' => ekey_eqb (ekey e) (ekey e')
                                              && etype_eqb (ety e) (ety e')) (tedges s)) (tedges g)
      (* same window, every variable at every lag, nothing outside *)
      && forallb (fun n => forallb (fun k => node_exists s (tv n, k)) (zrange lo hi)) (tnodes g)
      && forallb (fun n' => has_var g (tv n') && (lo <=? tl n') && (tl n' <=? hi)) (tnodes s)
      (* exactly the template copies that fit in the window *)
      && forallb (fun e' => existsb (fun e => is_copy e e') (tedges m)
                            && (lo <=? esl e') && (edl e' <=? hi)) (tedges s)
      && forallb (fun e =>
           forallb (fun t => (t - delta e <? lo)
                             || edge_exists s (es e, t - delta e) (ed e, t)) (zrange lo hi))
           (tedges m)
      && nodup_by ekey_eqb (map ekey (tedges s))
      && nodup_by key_eqb (map nkey (tnodes s))
  | _, _, _ => false
  end.

(** C17.  One node per variable; for distinct variables x, y the summary has a stored edge
    (x, y) exactly when some edge of [g] joins them; it is directed x -> y when every such edge
    goes from x to y and bi-directed when edges go both ways; no self edges. *)
Definition goes (g : tsg) (x y : name) : bool :=
  existsb (fun e => name_eqb (es e) x && name_eqb (ed e) y) (tedges g).
Definition p_adjacent (sg : pgraph) (x y : name) : bool :=
  p_edge_exists sg x y || p_edge_exists sg y x.
Definition c17_check (g : tsg) (sg : pgraph) : bool :=
  (* nodes = variables, once each *)
  forallb (fun n => p_node_exists sg (tv n)) (tnodes g)
  && forallb (fun p => has_var g (pn p)) (pnodes sg)
  && nodup_by name_eqb (map pn (pnodes sg))
  (* edges *)
  && forallb (fun e => negb (name_eqb (ps e) (pd e))
                       && (goes g (ps e) (pd e) || goes g (pd e) (ps e))
                       && match pty e with
                          | Dir => goes g (ps e) (pd e) && negb (goes g (pd e) (ps e))
                          | Bi => goes g (ps e) (pd e) && goes g (pd e) (ps e)
                          | _ => false
                          end) (pedges sg)
  && forallb (fun e => name_eqb (es e) (ed e) || p_adjacent sg (es e) (ed e)) (tedges g)
  && nodup_by pair_eqb (map (fun e => (ps e, pd e)) (pedges sg))
  && forallb (fun p => forallb (fun q => negb (name_eqb (ps p) (pd q) && name_eqb (pd p) (ps q)))
                               (pedges sg)) (pedges sg)
  && meta_eqb (pgmeta sg) (tgmeta g).

(** * Deciders for the hypotheses of the theorems (well-formedness, consistent template set) *)
Definition wf_b (g : tsg) : bool :=
  nodup_by key_eqb (map nkey (tnodes g))
  && nodup_by ekey_eqb (map ekey (tedges g))
  && forallb (fun e1 => forallb (fun e2 =>
       negb (key_eqb (esrc e1) (edst e2) && key_eqb (edst e1) (esrc e2))) (tedges g)) (tedges g)
  && forallb (fun e => node_exists g (esrc e) && node_exists g (edst e)) (tedges g)
  && forallb (fun e => esl e <=? edl e) (tedges g).

Definition consistent_b (g : tsg) : bool :=
  wf_b g
  && forallb (fun e1 => forallb (fun e2 =>
       negb (name_eqb (es e1) (es e2) && name_eqb (ed e1) (ed e2) && (delta e1 =? delta e2))
       || etype_eqb (ety e1) (ety e2)) (tedges g)) (tedges g)
  && forallb (fun e1 => forallb (fun e2 =>
       negb (name_eqb (es e1) (ed e2) && name_eqb (ed e1) (es e2)
             && (delta e1 =? 0) && (delta e2 =? 0))) (tedges g)) (tedges g).
