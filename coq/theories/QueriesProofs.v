(** QueriesProofs.v — the structural queries of Queries.v agree with their graph-theoretic
    definitions (property "structural queries agree with their definitions", all DAGs). *)
From Coq Require Import Relations.Relation_Operators.
From CG Require Import Base Digraph DigraphProofs Queries.
Set Implicit Arguments.

Section QueriesProofs.
  Variable A : Type.
  Variable eqb : A -> A -> bool.
  Hypothesis eqb_spec : forall x y, reflect (x = y) (eqb x y).

  Notation digraph := (digraph A).
  Local Notation memb_in := (memb_in eqb eqb_spec).
  Local Notation memb_false := (memb_false eqb eqb_spec).
  Local Notation eqb_eq := (eqb_eq eqb eqb_spec).
  Local Notation eqb_neq := (eqb_neq eqb eqb_spec).
  Local Notation eqb_refl := (eqb_refl eqb eqb_spec).
  Local Notation children_in := (children_in eqb eqb_spec).
  Local Notation parents_in := (parents_in eqb eqb_spec).
  Local Notation desc_spec := (desc_spec eqb eqb_spec).
  Local Notation anc_spec := (anc_spec eqb eqb_spec).

  Lemma memb_cons x a l : memb eqb x (a :: l) = eqb x a || memb eqb x l.
  Proof. reflexivity. Qed.

  (** * [_assert_node_does_not_depend_on_itself] *)

  (** Arcs whose destination has not been checked yet: they bound the future pushes. *)
  Definition unchecked (g : digraph) (checked : list A) : list (A * A) :=
    filter (fun e => negb (memb eqb (snd e) checked)) (arcs g).

  Lemma unchecked_nil (g : digraph) : unchecked g [] = arcs g.
  Proof.
    unfold unchecked. induction (arcs g) as [|e l IH]; simpl; [reflexivity|]. f_equal. exact IH.
  Qed.

  Lemma unchecked_cons (g : digraph) cur checked :
    memb eqb cur checked = false ->
    length (unchecked g (cur :: checked)) + length (parents eqb g cur) = length (unchecked g checked).
  Proof.
    intros Hnin. unfold unchecked, parents. rewrite map_length.
    induction (arcs g) as [|[a b] l IH]; [reflexivity|].
    cbn [filter snd fst]. rewrite memb_cons.
    destruct (eqb_spec b cur) as [->|Hne].
    - rewrite Hnin. cbn [orb negb length]. lia.
    - cbn [orb]. destruct (memb eqb b checked); cbn [negb length]; lia.
  Qed.

  Lemma dep_loop_terminates (g : digraph) v :
    forall fuel checked stack,
      length stack + length (unchecked g checked) < fuel ->
      exists b, dep_loop eqb fuel g v checked stack = Some b.
  Proof.
    induction fuel as [|f IH]; intros checked stack Hlt; [lia|].
    destruct stack as [|cur rest]; cbn [dep_loop]; [eexists; reflexivity|].
    destruct (eqb cur v && negb (Nat.eqb (length checked) 0)); [eexists; reflexivity|].
    destruct (memb eqb cur checked) eqn:E.
    - apply IH. simpl in Hlt. lia.
    - apply IH. pose proof (unchecked_cons g cur checked E) as Hu.
      rewrite app_length, rev_length. simpl in Hlt. lia.
  Qed.

  Lemma dep_loop_correct (g : digraph) v :
    forall fuel checked stack b,
      In v checked ->
      (forall s, In s stack -> path g s v) ->
      (forall c p, In c checked -> arc g p c -> In p stack \/ (In p checked /\ p <> v)) ->
      dep_loop eqb fuel g v checked stack = Some b ->
      (b = true <-> path g v v).
  Proof.
    induction fuel as [|f IH]; intros checked stack b Hv Hstack Hclosed Hrun; [discriminate|].
    destruct stack as [|cur rest]; cbn [dep_loop] in Hrun.
    - (* loop ends: [checked] is closed under parents and [v] was never pushed *)
      inversion Hrun; subst b. split; [discriminate|]. intros Hp. exfalso.
      assert (Hall : forall c, path g c v -> In c checked).
      { apply path_ind_left.
        - intros x Hx. destruct (Hclosed v x Hv Hx) as [[]|[Hin _]]. exact Hin.
        - intros x y Hxy _ Hy. destruct (Hclosed y x Hy Hxy) as [[]|[Hin _]]. exact Hin. }
      destruct (path_first Hp) as (z & Hvz & Hz).
      assert (Hzc : In z checked) by (destruct Hz as [->|Hz]; [exact Hv|apply Hall, Hz]).
      destruct (Hclosed z v Hzc Hvz) as [[]|[_ Hne]]. apply Hne; reflexivity.
    - assert (Hlen : Nat.eqb (length checked) 0 = false).
      { destruct checked; [contradiction|reflexivity]. }
      rewrite Hlen in Hrun. cbn [negb] in Hrun. rewrite andb_true_r in Hrun.
      destruct (eqb_spec cur v) as [->|Hne].
      + inversion Hrun; subst b. split; [intros _|reflexivity].
        apply Hstack; left; reflexivity.
      + destruct (memb eqb cur checked) eqn:E.
        * apply (IH checked rest b Hv); [| |exact Hrun].
          -- intros s Hs; apply Hstack; right; exact Hs.
          -- intros c p Hc Hpc. destruct (Hclosed c p Hc Hpc) as [[<-|Hin]|Hr].
             ++ right; split; [apply memb_in, E|exact Hne].
             ++ left; exact Hin.
             ++ right; exact Hr.
        * apply (IH (cur :: checked) (rev (parents eqb g cur) ++ rest) b); [| | |exact Hrun].
          -- right; exact Hv.
          -- intros s Hs. apply in_app_or in Hs. destruct Hs as [Hs|Hs].
             ++ apply in_rev, parents_in in Hs.
                eapply t_trans; [apply t_step, Hs|apply Hstack; left; reflexivity].
             ++ apply Hstack; right; exact Hs.
          -- intros c p Hc Hpc. destruct Hc as [<-|Hc].
             ++ left. apply in_or_app; left. apply -> in_rev. apply parents_in, Hpc.
             ++ destruct (Hclosed c p Hc Hpc) as [[<-|Hin]|[Hin Hnv]].
                ** right; split; [left; reflexivity|exact Hne].
                ** left; apply in_or_app; right; exact Hin.
                ** right; split; [right; exact Hin|exact Hnv].
  Qed.

  (** Fuel [|arcs| + 2] always suffices (every iteration pops one entry; entries are pushed only
      when a node is first checked, at most [1 + |arcs|] pushes in total, plus the final test of
      the loop condition), and the AssertionError is raised exactly when [v] lies on a directed
      cycle.  No hypothesis on [g] is needed. *)
  Theorem depends_on_itself_correct (g : digraph) v fuel :
    fuel >= length (arcs g) + 2 ->
    exists b, depends_on_itself eqb fuel g v = Some b /\ (b = true <-> path g v v).
  Proof.
    intros Hfuel. unfold depends_on_itself.
    destruct fuel as [|f]; [lia|]. cbn [dep_loop length Nat.eqb negb]. rewrite andb_false_r.
    cbn [memb existsb].
    destruct (@dep_loop_terminates g v f [v] (rev (parents eqb g v) ++ [])) as (b & Hb).
    { pose proof (@unchecked_cons g v [] eq_refl) as Hu. rewrite unchecked_nil in Hu.
      rewrite app_nil_r, rev_length. lia. }
    exists b; split; [exact Hb|].
    apply (@dep_loop_correct g v f [v] (rev (parents eqb g v) ++ []) b); [| | |exact Hb].
    - left; reflexivity.
    - intros s Hs. rewrite app_nil_r in Hs. apply in_rev, parents_in in Hs. apply t_step, Hs.
    - intros c p [<-|[]] Hpc. left. rewrite app_nil_r. apply -> in_rev. apply parents_in, Hpc.
  Qed.

  Corollary depends_on_itself_iff (g : digraph) v :
    wf g -> exists fuel0, forall fuel, fuel >= fuel0 ->
      (depends_on_itself eqb fuel g v = Some true <-> path g v v).
  Proof.
    intros _. exists (length (arcs g) + 2). intros fuel Hfuel.
    destruct (depends_on_itself_correct g v Hfuel) as (b & Hb & Hiff). rewrite Hb. split.
    - intros E; inversion E; subst b. apply Hiff; reflexivity.
    - intros Hp. apply Hiff in Hp. subst b. reflexivity.
  Qed.

  (** On an acyclic graph the check never fires. *)
  Corollary depends_on_itself_acyclic (g : digraph) v :
    acyclic g -> depends_on_itself eqb (length (arcs g) + 2) g v = Some false.
  Proof.
    intros Hac. destruct (@depends_on_itself_correct g v (length (arcs g) + 2)) as (b & Hb & Hiff); [lia|].
    rewrite Hb. destruct b; [|reflexivity]. exfalso. apply (Hac v), Hiff. reflexivity.
  Qed.

  (** * [get_all_causal_paths] *)

  (** [p] lists the vertices of a directed walk from [a] to [b] that repeats no vertex. *)
  Definition simple_path (g : digraph) (a b : A) (p : list A) : Prop :=
    exists l, p = a :: l /\ chain g a l /\ last l a = b /\ NoDup p.

  Lemma nodup_children_in (g : digraph) x c : In c (union eqb (children eqb g x) []) <-> arc g x c.
  Proof. rewrite (union_in eqb eqb_spec). rewrite children_in. simpl; tauto. Qed.

  Lemma paths_from_spec (g : digraph) b :
    forall fuel visited x l,
      In l (paths_from eqb fuel g b visited x) <->
      l <> [] /\ chain g x l /\ last l x = b /\ NoDup l /\
      (forall y, In y l -> ~ In y visited) /\ length l <= fuel.
  Proof.
    induction fuel as [|f IH]; intros visited x l.
    - simpl. split; [intros []|]. intros (Hne & _ & _ & _ & _ & Hlen).
      destruct l; [contradiction|simpl in Hlen; lia].
    - cbn [paths_from]. rewrite in_flat_map. split.
      + intros (c & Hc & Hl). apply nodup_children_in in Hc.
        destruct (memb eqb c visited) eqn:Ev; [contradiction|]. apply memb_false in Ev.
        destruct (eqb_spec c b) as [->|Hcb].
        * destruct Hl as [<-|[]]. split; [discriminate|]. split; [split; [exact Hc|exact I]|].
          split; [reflexivity|]. split; [constructor; [intros []|constructor]|].
          split; [|simpl; lia]. intros y [<-|[]]; exact Ev.
        * apply in_map_iff in Hl. destruct Hl as (l' & <- & Hl'). apply IH in Hl'.
          destruct Hl' as (Hne & Hch & Hlast & Hnd & Hvis & Hlen).
          split; [discriminate|]. split; [split; assumption|].
          split; [rewrite last_cons; exact Hlast|].
          split; [constructor; [|exact Hnd]; intros Hin; apply (Hvis c Hin); left; reflexivity|].
          split; [|simpl; lia].
          intros y [<-|Hy]; [exact Ev|]. intros Hyv. apply (Hvis y Hy). right; exact Hyv.
      + intros (Hne & Hch & Hlast & Hnd & Hvis & Hlen).
        destruct l as [|c l']; [contradiction|]. destruct Hch as [Hxc Hch].
        exists c. split; [apply nodup_children_in, Hxc|].
        assert (Ev : memb eqb c visited = false) by (apply memb_false, Hvis; left; reflexivity).
        rewrite Ev. rewrite last_cons in Hlast. inversion Hnd as [|? ? Hcnin Hnd']; subst.
        destruct l' as [|d l''].
        * simpl. rewrite eqb_refl. left; reflexivity.
        * assert (Hin : In (last (d :: l'') c) (d :: l'')) by (apply last_in; discriminate).
          destruct (eqb_spec c (last (d :: l'') c)) as [E|Hcb].
          { exfalso. apply Hcnin. rewrite E at 1. exact Hin. }
          apply in_map. apply IH. split; [discriminate|]. split; [exact Hch|].
          split; [reflexivity|]. split; [exact Hnd'|]. split; [|simpl in Hlen |- *; lia].
          intros y Hy [<-|Hyv]; [exact (Hcnin Hy)|]. apply (Hvis y); [right; exact Hy|exact Hyv].
  Qed.

  Theorem all_paths_spec (g : digraph) a b p :
    wf g -> (In p (all_paths eqb g a b) <-> a <> b /\ simple_path g a b p).
  Proof.
    intros Hwf. unfold all_paths, simple_path. destruct (eqb_spec a b) as [->|Hab].
    - split; [intros []|intros [Hne _]; exact (Hne eq_refl)].
    - rewrite in_map_iff. split.
      + intros (l & <- & Hl). apply paths_from_spec in Hl.
        destruct Hl as (Hne & Hch & Hlast & Hnd & Hvis & _).
        split; [exact Hab|]. exists l. split; [reflexivity|]. split; [exact Hch|].
        split; [exact Hlast|]. constructor; [|exact Hnd].
        intros Hin. apply (Hvis a Hin). left; reflexivity.
      + intros (_ & l & -> & Hch & Hlast & Hnd). exists l. split; [reflexivity|].
        inversion Hnd as [|? ? Hanin Hnd']; subst.
        apply paths_from_spec. split.
        { intros ->. simpl in Hab. apply Hab; reflexivity. }
        split; [exact Hch|]. split; [reflexivity|]. split; [exact Hnd'|]. split.
        * intros y Hy [<-|[]]. exact (Hanin Hy).
        * apply NoDup_incl_length; [exact Hnd'|]. apply (@chain_incl_verts _ g a l Hwf Hch).
  Qed.

  Lemma paths_from_nodup (g : digraph) b :
    forall fuel visited x, NoDup (paths_from eqb fuel g b visited x).
  Proof.
    induction fuel as [|f IH]; intros visited x; [constructor|].
    cbn [paths_from]. apply NoDup_flat_map.
    - apply (union_nil_nodup eqb eqb_spec).
    - intros c _. destruct (memb eqb c visited); [constructor|].
      destruct (eqb c b); [constructor; [intros []|constructor]|].
      apply NoDup_map_cons, IH.
    - intros c1 c2 l _ _ H1 H2.
      assert (Hhd : forall c, In l (if memb eqb c visited then []
                                   else if eqb c b then [[c]]
                                   else map (cons c) (paths_from eqb f g b (c :: visited) c)) ->
                              hd_error l = Some c).
      { intros c Hc. destruct (memb eqb c visited); [contradiction|].
        destruct (eqb c b).
        - destruct Hc as [<-|[]]; reflexivity.
        - apply in_map_iff in Hc. destruct Hc as (l' & <- & _). reflexivity. }
      apply Hhd in H1, H2. congruence.
  Qed.

  Theorem all_paths_nodup (g : digraph) a b : NoDup (all_paths eqb g a b).
  Proof.
    unfold all_paths. destruct (eqb a b); [constructor|]. apply NoDup_map_cons, paths_from_nodup.
  Qed.

  (** Every simple path witnesses reachability, and reachability yields a simple path, so
      [all_paths] is non-empty exactly when [b] is a strict descendant of [a] (for [a <> b]). *)
  Lemma simple_path_path (g : digraph) a b p : a <> b -> simple_path g a b p -> path g a b.
  Proof.
    intros Hab (l & -> & Hch & Hlast & _). rewrite <- Hlast. apply chain_path; [exact Hch|].
    intros ->. simpl in Hlast. exact (Hab Hlast).
  Qed.

  (** * [get_nodes_between] *)

  Definition keys (seen : list (A * bool)) : list A := map fst seen.

  Lemma lookupb_some x seen r : lookupb eqb x seen = Some r -> In (x, r) seen.
  Proof.
    induction seen as [|[k r'] seen IH]; simpl; [discriminate|].
    destruct (eqb_spec x k) as [->|Hne].
    - intros E; inversion E; subst. left; reflexivity.
    - intros E; right; apply IH, E.
  Qed.

  Lemma lookupb_none x seen : lookupb eqb x seen = None -> ~ In x (keys seen).
  Proof.
    induction seen as [|[k r'] seen IH]; simpl; [intros _ []|].
    destruct (eqb_spec x k) as [->|Hne]; [discriminate|].
    intros E [Hk|Hin]; [apply Hne; symmetry; exact Hk|exact (IH E Hin)].
  Qed.

  Lemma keys_in x r seen : In (x, r) seen -> In x (keys seen).
  Proof. intros H. unfold keys. change x with (fst (x, r)). apply in_map, H. Qed.

  Lemma keys_filter_nodup (seen : list (A * bool)) :
    NoDup (keys seen) -> NoDup (map fst (filter snd seen)).
  Proof.
    induction seen as [|[k r] seen IH]; simpl; intros Hnd; [constructor|].
    inversion Hnd as [|? ? Hnin Hnd']; subst. destruct r; simpl; [|apply IH, Hnd'].
    constructor; [|apply IH, Hnd']. intros Hin. apply Hnin.
    apply in_map_iff in Hin. destruct Hin as ([k' r'] & E & Hf). simpl in E; subst k'.
    apply filter_In in Hf. apply (keys_in _ _ _ (proj1 Hf)).
  Qed.

  Section NodesBetween.
    Variable g : digraph.
    Variable b : A.
    Hypothesis Hwf : wf g.
    Hypothesis Hac : acyclic g.

    Definition has_path (x : A) : Prop := x = b \/ path g x b.

    Lemma has_path_step x : x <> b -> (has_path x <-> exists c, arc g x c /\ has_path c).
    Proof.
      intros Hne; unfold has_path; split.
      - intros [E|Hp]; [contradiction|]. destruct (path_first Hp) as (z & Hxz & Hz).
        exists z; split; [exact Hxz|]. destruct Hz as [->|Hz]; [left; reflexivity|right; exact Hz].
      - intros (c & Hxc & [->|Hc]); right; [apply t_step, Hxc|].
        eapply t_trans; [apply t_step, Hxc|exact Hc].
    Qed.

    (** The cache is sound, has distinct keys, and every cached vertex other than the
        destination has all its children cached. *)
    Definition seen_ok (seen : list (A * bool)) : Prop :=
      NoDup (keys seen) /\
      (forall x r, In (x, r) seen -> (r = true <-> has_path x)) /\
      (forall x c, In x (keys seen) -> x <> b -> arc g x c -> In c (keys seen)).

    Definition call_post (seen : list (A * bool)) (xs : list A) (seen' : list (A * bool)) : Prop :=
      seen_ok seen' /\ incl (keys seen) (keys seen') /\ incl xs (keys seen') /\
      (forall y, In y (keys seen') ->
                 In y (keys seen) \/ exists x, In x xs /\ (y = x \/ path g x y)).

    Definition call_spec (rec : list (A * bool) -> A -> option (bool * list (A * bool))) (c : A) : Prop :=
      forall seen0, seen_ok seen0 ->
        exists r seen', rec seen0 c = Some (r, seen') /\ (r = true <-> has_path c) /\
                        call_post seen0 [c] seen'.

    Lemma nb_children_spec rec :
      forall cs seen any,
        seen_ok seen -> (forall c, In c cs -> call_spec rec c) ->
        exists r seen', nb_children rec cs seen any = Some (r, seen') /\
                        (r = true <-> any = true \/ exists c, In c cs /\ has_path c) /\
                        call_post seen cs seen'.
    Proof.
      induction cs as [|c cs IH]; intros seen any Hok Hrec.
      - exists any, seen. split; [reflexivity|]. split.
        + split; [intros H; left; exact H|]. intros [H|(c & [] & _)]; exact H.
        + split; [exact Hok|]. split; [apply incl_refl|]. split; [intros y []|].
          intros y Hy; left; exact Hy.
      - cbn [nb_children].
        destruct (Hrec c (or_introl eq_refl) seen Hok) as (r1 & seen1 & E1 & Hr1 & Hpost1).
        rewrite E1. destruct Hpost1 as (Hok1 & Hincl1 & Hc1 & Hnew1).
        destruct (IH seen1 (any || r1) Hok1) as (r & seen' & E & Hr & Hpost).
        { intros c' Hc'; apply Hrec; right; exact Hc'. }
        exists r, seen'. split; [exact E|]. destruct Hpost as (Hok' & Hincl' & Hcs' & Hnew').
        split.
        + rewrite Hr, orb_true_iff, Hr1. split.
          * intros [[H|H]|(c' & Hc' & H)].
            -- left; exact H.
            -- right; exists c; split; [left; reflexivity|exact H].
            -- right; exists c'; split; [right; exact Hc'|exact H].
          * intros [H|(c' & [<-|Hc'] & H)].
            -- left; left; exact H.
            -- left; right; exact H.
            -- right; exists c'; split; assumption.
        + split; [exact Hok'|]. split; [intros y Hy; apply Hincl', Hincl1, Hy|]. split.
          * intros y [<-|Hy]; [apply Hincl', Hc1; left; reflexivity|apply Hcs', Hy].
          * intros y Hy. destruct (Hnew' y Hy) as [Hy1|(x & Hx & Hxy)].
            -- destruct (Hnew1 y Hy1) as [Hy0|(x & [<-|[]] & Hxy)]; [left; exact Hy0|].
               right; exists c; split; [left; reflexivity|exact Hxy].
            -- right; exists x; split; [right; exact Hx|exact Hxy].
    Qed.

    Lemma nb_inner_spec :
      forall fuel x, length (desc eqb g x) < fuel -> call_spec (nb_inner eqb fuel g b) x.
    Proof.
      induction fuel as [|f IH]; intros x Hfuel seen Hok; [lia|].
      cbn [nb_inner]. destruct Hok as (Hnd & Hsound & Hclosed).
      destruct (lookupb eqb x seen) as [r|] eqn:El.
      - (* cached *)
        apply lookupb_some in El. exists r, seen. split; [reflexivity|].
        split; [apply (Hsound x r El)|]. split; [exact (conj Hnd (conj Hsound Hclosed))|].
        split; [apply incl_refl|]. split; [|intros y Hy; left; exact Hy].
        intros y [<-|[]]. apply (keys_in _ _ _ El).
      - apply lookupb_none in El. destruct (eqb_spec x b) as [->|Hxb].
        + (* start == end *)
          exists true, ((b, true) :: seen). split; [reflexivity|].
          split; [split; [intros _; left; reflexivity|reflexivity]|].
          split; [|split; [apply incl_tl, incl_refl|split]].
          * split; [constructor; assumption|]. split.
            -- intros x r [E|Hin]; [|apply Hsound, Hin]. inversion E; subst.
               split; [intros _; left; reflexivity|reflexivity].
            -- intros x c [<-|Hx] Hne Hxc; [contradiction|]. right. apply (Hclosed x c Hx Hne Hxc).
          * intros y [<-|[]]. left; reflexivity.
          * intros y [Ey|Hy]; [|left; exact Hy]. right; exists y. split; [left; exact Ey|left; reflexivity].
        + destruct (children eqb g x) as [|c0 cs0] eqn:Ec.
          * (* sink *)
            assert (Hnone : forall c, ~ arc g x c).
            { intros c Hxc. apply children_in in Hxc. rewrite Ec in Hxc. exact Hxc. }
            exists false, ((x, false) :: seen). split; [reflexivity|].
            split.
            { split; [discriminate|]. intros Hp. apply (has_path_step Hxb) in Hp.
              destruct Hp as (c & Hxc & _). destruct (Hnone c Hxc). }
            split; [|split; [apply incl_tl, incl_refl|split]].
            -- split; [constructor; assumption|]. split.
               ++ intros y r [E|Hin]; [|apply Hsound, Hin]. inversion E; subst.
                  split; [discriminate|]. intros Hp. apply (has_path_step Hxb) in Hp.
                  destruct Hp as (c & Hxc & _). destruct (Hnone c Hxc).
               ++ intros y c [<-|Hy] Hne Hyc; [destruct (Hnone c Hyc)|].
                  right. apply (Hclosed y c Hy Hne Hyc).
            -- intros y [<-|[]]. left; reflexivity.
            -- intros y [Ey|Hy]; [|left; exact Hy]. right; exists y. split; [left; exact Ey|left; reflexivity].
          * rewrite <- Ec.
            destruct (@nb_children_spec (nb_inner eqb f g b) (children eqb g x) seen false)
              as (has & seen1 & E1 & Hhas & Hpost1).
            { exact (conj Hnd (conj Hsound Hclosed)). }
            { intros c Hc. apply IH. apply children_in in Hc.
              pose proof (@desc_rank _ eqb eqb_spec g x c Hwf Hac Hc) as Hlt. lia. }
            rewrite E1. destruct Hpost1 as ((Hnd1 & Hsound1 & Hclosed1) & Hincl1 & Hcs1 & Hnew1).
            assert (Hx1 : ~ In x (keys seen1)).
            { intros Hin. destruct (Hnew1 x Hin) as [Hin0|(c & Hc & Hcx)]; [exact (El Hin0)|].
              apply children_in in Hc. destruct Hcx as [->|Hcx].
              - apply (@Hac c), t_step, Hc.
              - apply (@Hac x). eapply t_trans; [apply t_step, Hc|exact Hcx]. }
            assert (Hhas' : has = true <-> has_path x).
            { rewrite Hhas, (has_path_step Hxb). split.
              - intros [H|(c & Hc & Hp)]; [discriminate|]. exists c; split; [apply children_in, Hc|exact Hp].
              - intros (c & Hc & Hp). right; exists c; split; [apply children_in, Hc|exact Hp]. }
            exists has, ((x, has) :: seen1). split; [reflexivity|]. split; [exact Hhas'|].
            split; [|split; [|split]].
            -- split; [constructor; assumption|]. split.
               ++ intros y r [E|Hin]; [|apply (Hsound1 y r Hin)]. inversion E; subst. exact Hhas'.
               ++ intros y c [<-|Hy] Hne Hyc.
                  ** right. apply Hcs1, children_in, Hyc.
                  ** right. apply (Hclosed1 y c Hy Hne Hyc).
            -- intros y Hy; right; apply Hincl1, Hy.
            -- intros y [<-|[]]. left; reflexivity.
            -- intros y [Ey|Hy]; [right; exists y; split; [left; exact Ey|left; reflexivity]|].
               destruct (Hnew1 y Hy) as [Hy0|(c & Hc & Hcy)]; [left; exact Hy0|].
               right; exists x; split; [left; reflexivity|]. right. apply children_in in Hc.
               destruct Hcy as [->|Hcy]; [apply t_step, Hc|].
               eapply t_trans; [apply t_step, Hc|exact Hcy].
    Qed.
  End NodesBetween.

  (** On a DAG, with fuel [|V| + 1], [get_nodes_between] returns exactly the vertices lying on
      a directed path from [a] to [b] (endpoints included), and the empty set when there is
      none. *)
  Theorem nodes_between_correct_fuel (g : digraph) a b fuel :
    wf g -> acyclic g -> fuel > length (verts g) ->
    exists S, nodes_between eqb fuel g a b = Some S /\
      (forall v, In v S <-> ((v = a \/ path g a v) /\ (v = b \/ path g v b))) /\
      (~ (a = b \/ path g a b) -> S = []) /\ NoDup S.
  Proof.
    intros Hwf Hac Hfuel. unfold nodes_between.
    destruct (@nb_inner_spec g b Hwf Hac fuel a) with (seen0 := @nil (A * bool))
      as (r & seen & E & Hr & Hpost).
    { pose proof (@desc_length_le _ eqb eqb_spec g a Hwf) as Hle. lia. }
    { split; [constructor|]. split; [intros x r0 []|intros x c []]. }
    rewrite E. destruct Hpost as ((Hnd & Hsound & Hclosed) & _ & Ha & Hnew).
    assert (Hcycle : forall v, path g b v -> (v = b \/ path g v b) -> False).
    { intros v Hbv [->|Hvb]; [exact (Hac b Hbv)|]. apply (Hac b). eapply t_trans; eassumption. }
    destruct r.
    - exists (map fst (filter snd seen)). split; [reflexivity|]. split; [|split].
      + intros v. split.
        * intros Hv. apply in_map_iff in Hv. destruct Hv as ([v' r'] & Ev & Hf). simpl in Ev; subst v'.
          apply filter_In in Hf. destruct Hf as [Hin Hr']. simpl in Hr'; subst r'. split.
          -- destruct (Hnew v (keys_in _ _ _ Hin)) as [[]|(x & [<-|[]] & Hxv)].
             destruct Hxv as [->|Hxv]; [left; reflexivity|right; exact Hxv].
          -- apply (Hsound v true Hin). reflexivity.
        * intros [Hav Hvb].
          assert (Hkey : In v (keys seen)).
          { destruct Hav as [->|Hav]; [apply Ha; left; reflexivity|].
            revert Hvb. pattern v. revert v Hav. apply path_ind_right.
            - intros y Hay Hyb. apply (Hclosed a y); [apply Ha; left; reflexivity| |exact Hay].
              intros ->. apply (Hcycle y); [apply t_step, Hay|exact Hyb].
            - intros x y Hax IHx Hxy Hyb.
              assert (Hxb : path g x b).
              { destruct Hyb as [<-|Hyb]; [apply t_step, Hxy|].
                eapply t_trans; [apply t_step, Hxy|exact Hyb]. }
              apply (Hclosed x y); [apply IHx; right; exact Hxb| |exact Hxy].
              intros ->. exact (Hac b Hxb). }
          unfold keys in Hkey. apply in_map_iff in Hkey. destruct Hkey as ([v' r'] & Ev & Hin).
          simpl in Ev; subst v'. apply in_map_iff. exists (v, r'). split; [reflexivity|].
          apply filter_In. split; [exact Hin|]. simpl. apply (Hsound v r' Hin). exact Hvb.
      + intros Hn. exfalso. apply Hn. apply Hr. reflexivity.
      + apply keys_filter_nodup, Hnd.
    - exists []. split; [reflexivity|]. split; [|split; [reflexivity|constructor]].
      intros v. split; [intros []|]. intros [Hav Hvb].
      assert (Hab : has_path g b a).
      { unfold has_path. destruct Hav as [->|Hav]; [exact Hvb|]. right.
        destruct Hvb as [<-|Hvb]; [exact Hav|eapply t_trans; eassumption]. }
      apply Hr in Hab. discriminate.
  Qed.

  Corollary nodes_between_correct (g : digraph) a b :
    wf g -> acyclic g ->
    exists S, nodes_between eqb (length (verts g) + 1) g a b = Some S /\
      (forall v, In v S <-> ((v = a \/ path g a v) /\ (v = b \/ path g v b))) /\
      (~ (a = b \/ path g a b) -> S = []) /\ NoDup S.
  Proof. intros Hwf Hac. apply nodes_between_correct_fuel; [exact Hwf|exact Hac|lia]. Qed.

  (** * [directed_path_exists] *)

  Lemma dpe_children_spec (g : digraph) b (rec : A -> option bool) :
    forall cs,
      (forall c, In c cs -> exists r, rec c = Some r /\ (r = true <-> path g c b)) ->
      exists r, dpe_children rec cs = Some r /\ (r = true <-> exists c, In c cs /\ path g c b).
  Proof.
    induction cs as [|c cs IH]; intros Hrec.
    - exists false. split; [reflexivity|]. split; [discriminate|]. intros (c & [] & _).
    - cbn [dpe_children]. destruct (Hrec c (or_introl eq_refl)) as (r1 & E1 & Hr1). rewrite E1.
      destruct r1.
      + exists true. split; [reflexivity|]. split; [|reflexivity]. intros _.
        exists c; split; [left; reflexivity|apply Hr1; reflexivity].
      + destruct IH as (r & E & Hr); [intros c' Hc'; apply Hrec; right; exact Hc'|].
        exists r. split; [exact E|]. rewrite Hr. split.
        * intros (c' & Hc' & Hp). exists c'; split; [right; exact Hc'|exact Hp].
        * intros (c' & [<-|Hc'] & Hp).
          -- apply Hr1 in Hp. discriminate.
          -- exists c'; split; assumption.
  Qed.

  Lemma dpe_spec (g : digraph) b :
    wf g -> acyclic g ->
    forall fuel x, length (desc eqb g x) < fuel ->
                   exists r, dpe eqb fuel g b x = Some r /\ (r = true <-> path g x b).
  Proof.
    intros Hwf Hac. induction fuel as [|f IH]; intros x Hfuel; [lia|].
    cbn [dpe]. destruct (memb eqb b (children eqb g x)) eqn:Eb.
    - exists true. split; [reflexivity|]. split; [|reflexivity]. intros _.
      apply t_step, children_in, memb_in, Eb.
    - destruct (@dpe_children_spec g b (dpe eqb f g b) (children eqb g x)) as (r & E & Hr).
      { intros c Hc. apply IH. apply children_in in Hc.
        pose proof (@desc_rank _ eqb eqb_spec g x c Hwf Hac Hc) as Hlt. lia. }
      exists r. split; [exact E|]. rewrite Hr. split.
      + intros (c & Hc & Hp). eapply t_trans; [apply t_step, children_in, Hc|exact Hp].
      + intros Hp. destruct (path_first Hp) as (z & Hxz & Hz). destruct Hz as [->|Hz].
        * apply children_in, memb_in in Hxz. congruence.
        * exists z; split; [apply children_in, Hxz|exact Hz].
  Qed.

  (** On a DAG the visited-set-free DFS terminates within recursion depth [|V|] and decides
      directed reachability by a non-empty path.  (On a cyclic graph the Python recursion does
      not terminate; the model then runs out of fuel: see [directed_path_exists_cyclic].) *)
  Theorem directed_path_exists_correct_fuel (g : digraph) a b fuel :
    wf g -> acyclic g -> In a (verts g) -> fuel >= length (verts g) ->
    exists r, directed_path_exists eqb fuel g a b = Some r /\ (r = true <-> path g a b).
  Proof.
    intros Hwf Hac Ha Hfuel. unfold directed_path_exists. apply dpe_spec; try assumption.
    pose proof (@desc_length_lt _ eqb eqb_spec g a Hwf Hac Ha) as Hlt. lia.
  Qed.

  Corollary directed_path_exists_correct (g : digraph) a b :
    wf g -> acyclic g -> In a (verts g) ->
    exists r, directed_path_exists eqb (length (verts g)) g a b = Some r /\
              (r = true <-> path g a b).
  Proof. intros Hwf Hac Ha. apply directed_path_exists_correct_fuel; try assumption. lia. Qed.

  Corollary directed_path_exists_iff (g : digraph) a b :
    wf g -> acyclic g -> In a (verts g) ->
    (directed_path_exists eqb (length (verts g)) g a b = Some true <-> path g a b).
  Proof.
    intros Hwf Hac Ha. destruct (@directed_path_exists_correct g a b Hwf Hac Ha) as (r & E & Hr).
    rewrite E. split.
    - intros H; inversion H; subst r. apply Hr; reflexivity.
    - intros Hp. apply Hr in Hp. subst r. reflexivity.
  Qed.

  (** * Topological orders *)

  (** [a] occurs strictly before [b] in [l]. *)
  Definition before (l : list A) (a b : A) : Prop :=
    exists l1 l2 l3, l = l1 ++ a :: l2 ++ b :: l3.

  (** The textbook notion: a permutation of the vertices in which every arc goes forward. *)
  Definition topo_order (g : digraph) (l : list A) : Prop :=
    Permutation l (verts g) /\ forall a b, arc g a b -> before l a b.

  Fixpoint fwd (g : digraph) (l : list A) : Prop :=
    match l with
    | [] => True
    | x :: l' => (forall y, In y (x :: l') -> ~ arc g y x) /\ fwd g l'
    end.

  Lemma fwdb_spec (g : digraph) l : fwdb eqb g l = true <-> fwd g l.
  Proof.
    induction l as [|x l IH]; [simpl; tauto|].
    cbn [fwdb fwd]. rewrite andb_true_iff, IH, forallb_forall.
    split; intros [H1 H2]; (split; [|exact H2]).
    - intros y Hy. apply (has_arc_false eqb eqb_spec), negb_true_iff, H1, Hy.
    - intros y Hy. apply negb_true_iff, (has_arc_false eqb eqb_spec), H1, Hy.
  Qed.

  Lemma distinctb_spec l : distinctb eqb l = true <-> NoDup l.
  Proof.
    induction l as [|x l IH]; simpl.
    - split; [constructor|reflexivity].
    - rewrite andb_true_iff, negb_true_iff, memb_false, IH. split.
      + intros [Hnin Hnd]; constructor; assumption.
      + intros H; inversion H; subst; split; assumption.
  Qed.

  Lemma before_in l a b : before l a b -> In a l /\ In b l.
  Proof.
    intros (l1 & l2 & l3 & ->). split; apply in_or_app; right.
    - left; reflexivity.
    - right. apply in_or_app; right; left; reflexivity.
  Qed.

  Lemma before_cons x l a b : before l a b -> before (x :: l) a b.
  Proof. intros (l1 & l2 & l3 & ->). exists (x :: l1), l2, l3. reflexivity. Qed.

  Lemma before_head x l b : In b l -> before (x :: l) x b.
  Proof. intros Hb. apply in_split in Hb. destruct Hb as (l2 & l3 & ->). exists [], l2, l3. reflexivity. Qed.

  Lemma before_cons_inv x l a b : a <> x -> before (x :: l) a b -> before l a b.
  Proof.
    intros Hne (l1 & l2 & l3 & E). destruct l1 as [|y l1]; simpl in E; inversion E; subst.
    - contradiction.
    - exists l1, l2, l3. reflexivity.
  Qed.

  Lemma before_snd_tail x l a b : before (x :: l) a b -> In b l.
  Proof.
    intros (l1 & l2 & l3 & E). destruct l1 as [|y l1]; simpl in E; inversion E; subst.
    - apply in_or_app; right; left; reflexivity.
    - apply in_or_app; right; right. apply in_or_app; right; left; reflexivity.
  Qed.

  Lemma fwd_before (g : digraph) l :
    NoDup l -> fwd g l -> forall a b, arc g a b -> In a l -> In b l -> before l a b.
  Proof.
    induction l as [|x l IH]; intros Hnd Hf a b Hab Ha Hb; [contradiction|].
    inversion Hnd as [|? ? Hnin Hnd']; subst. destruct Hf as [Hx Hf].
    destruct Hb as [<-|Hb]; [destruct (Hx a Ha Hab)|].
    destruct Ha as [<-|Ha]; [apply before_head, Hb|].
    apply before_cons, IH; assumption.
  Qed.

  Lemma before_fwd (g : digraph) l :
    NoDup l -> (forall a b, arc g a b -> In a l -> In b l -> before l a b) -> fwd g l.
  Proof.
    induction l as [|x l IH]; intros Hnd Hb; [exact I|].
    inversion Hnd as [|? ? Hnin Hnd']; subst. split.
    - intros y Hy Hyx. apply Hnin. apply (@before_snd_tail x l y x).
      apply Hb; [exact Hyx|exact Hy|left; reflexivity].
    - apply IH; [exact Hnd'|]. intros a b Hab Ha Hb'.
      apply (@before_cons_inv x); [intros ->; exact (Hnin Ha)|].
      apply Hb; [exact Hab|right; exact Ha|right; exact Hb'].
  Qed.

  (** The boolean checker decides the textbook notion. *)
  Theorem is_topo_spec (g : digraph) l : wf g -> (is_topo eqb g l = true <-> topo_order g l).
  Proof.
    intros [Hndv Hwf]. unfold is_topo, topo_order.
    rewrite !andb_true_iff, distinctb_spec, (seteqb_spec eqb eqb_spec), fwdb_spec. split.
    - intros [[Hnd Heq] Hf]. split; [apply NoDup_Permutation; assumption|].
      intros a b Hab. destruct (Hwf a b Hab) as [Ha Hb].
      apply (@fwd_before g l Hnd Hf a b Hab); apply Heq; assumption.
    - intros [Hperm Hb].
      assert (Hnd : NoDup l) by (apply (Permutation_NoDup (Permutation_sym Hperm)), Hndv).
      split; [split; [exact Hnd|]|].
      + intros x; split; apply Permutation_in; [exact Hperm|apply Permutation_sym, Hperm].
      + apply before_fwd; [exact Hnd|]. intros a b Hab _ _. apply Hb, Hab.
  Qed.

  Lemma removeb_in x l y : In y (removeb eqb x l) <-> In y l /\ y <> x.
  Proof. unfold removeb. rewrite filter_In, negb_true_iff, eqb_neq. tauto. Qed.

  Lemma removeb_nodup x l : NoDup l -> NoDup (removeb eqb x l).
  Proof. apply NoDup_filter. Qed.

  Lemma filter_len_le (X : Type) (f : X -> bool) l : length (filter f l) <= length l.
  Proof. induction l as [|a l IH]; simpl; [lia|]. destruct (f a); simpl; lia. Qed.

  Lemma removeb_length x l : In x l -> length (removeb eqb x l) < length l.
  Proof.
    unfold removeb. induction l as [|a l IH]; intros Hx; [contradiction|]. simpl.
    assert (Hle : length (filter (fun y => negb (eqb y x)) l) <= length l) by apply filter_len_le.
    destruct (eqb_spec a x) as [->|Hne]; simpl; [lia|].
    destruct Hx as [Hx|Hx]; [contradiction|]. apply IH in Hx. lia.
  Qed.

  Lemma is_source_in_spec (g : digraph) rem x :
    is_source_in eqb g rem x = true <-> forall p, arc g p x -> ~ In p rem.
  Proof.
    unfold is_source_in. rewrite forallb_forall. split.
    - intros H p Hp. apply memb_false, negb_true_iff, H, parents_in, Hp.
    - intros H p Hp. apply negb_true_iff, memb_false, H, parents_in, Hp.
  Qed.

  Lemma topo_from_cons fuel (g : digraph) rem :
    rem <> [] ->
    topo_from eqb (S fuel) g rem =
    flat_map (fun x => if is_source_in eqb g rem x
                       then map (cons x) (topo_from eqb fuel g (removeb eqb x rem)) else []) rem.
  Proof. destruct rem; [contradiction|reflexivity]. Qed.

  Lemma topo_from_nil fuel (g : digraph) : topo_from eqb fuel g [] = [[]].
  Proof. destruct fuel; reflexivity. Qed.

  Lemma topo_from_spec (g : digraph) :
    forall fuel rem l,
      NoDup rem -> length rem <= fuel ->
      (In l (topo_from eqb fuel g rem) <->
       NoDup l /\ (forall y, In y l <-> In y rem) /\ fwd g l).
  Proof.
    induction fuel as [|f IH]; intros rem l Hnd Hlen.
    - destruct rem as [|r rem]; [|simpl in Hlen; lia]. simpl. split.
      + intros [<-|[]]. split; [constructor|]. split; [tauto|exact I].
      + intros (_ & Heq & _). left. destruct l as [|x l]; [reflexivity|].
        destruct (proj1 (Heq x) (or_introl eq_refl)).
    - destruct rem as [|r rem'] eqn:Erem.
      { rewrite topo_from_nil. simpl. split.
        + intros [<-|[]]. split; [constructor|]. split; [tauto|exact I].
        + intros (_ & Heq & _). left. destruct l as [|x l]; [reflexivity|].
          destruct (proj1 (Heq x) (or_introl eq_refl)). }
      rewrite <- Erem in *. assert (Hne : rem <> []) by (rewrite Erem; discriminate).
      rewrite (topo_from_cons f g Hne), in_flat_map. split.
      + intros (x & Hx & Hl).
        destruct (is_source_in eqb g rem x) eqn:Es; [|contradiction].
        apply in_map_iff in Hl. destruct Hl as (l' & <- & Hl').
        apply IH in Hl'; [|apply removeb_nodup, Hnd|pose proof (removeb_length _ _ Hx); lia].
        destruct Hl' as (Hnd' & Heq' & Hf').
        assert (Heq : forall y, In y (x :: l') <-> In y rem).
        { intros y. simpl. rewrite Heq', removeb_in. split.
          - intros [<-|[H _]]; assumption.
          - intros Hy. destruct (eqb_spec y x) as [->|Hyx]; [left; reflexivity|right; split; assumption]. }
        split; [|split; [exact Heq|split; [|exact Hf']]].
        * constructor; [|exact Hnd']. intros Hin. apply Heq', removeb_in in Hin.
          apply (proj2 Hin); reflexivity.
        * intros y Hy. apply Heq in Hy. intros Hyx.
          apply (proj1 (is_source_in_spec g rem x) Es y Hyx Hy).
      + intros (Hndl & Heq & Hf). destruct l as [|x l'].
        { exfalso. rewrite Erem in Heq. apply (proj2 (Heq r)). left; reflexivity. }
        inversion Hndl as [|? ? Hnin Hnd']; subst x0 l. destruct Hf as [Hx Hf'].
        assert (Hxr : In x rem) by (apply Heq; left; reflexivity).
        exists x. split; [exact Hxr|].
        assert (Es : is_source_in eqb g rem x = true).
        { apply is_source_in_spec. intros p Hpx Hp. apply Heq in Hp. exact (Hx p Hp Hpx). }
        rewrite Es. apply in_map. apply IH.
        * apply removeb_nodup, Hnd.
        * pose proof (removeb_length _ _ Hxr). lia.
        * split; [exact Hnd'|]. split; [|exact Hf'].
          intros y. rewrite removeb_in. split.
          -- intros Hy. split; [apply Heq; right; exact Hy|]. intros ->. exact (Hnin Hy).
          -- intros [Hy Hyx]. apply Heq in Hy. destruct Hy as [->|Hy]; [contradiction|exact Hy].
  Qed.

  (** [all_topo] enumerates exactly the topological orders ... *)
  Theorem all_topo_spec (g : digraph) l : wf g -> (In l (all_topo eqb g) <-> is_topo eqb g l = true).
  Proof.
    intros [Hndv _]. unfold all_topo, is_topo.
    rewrite (topo_from_spec g l Hndv (le_n _)).
    rewrite !andb_true_iff, distinctb_spec, (seteqb_spec eqb eqb_spec), fwdb_spec. tauto.
  Qed.

  Corollary all_topo_topo_order (g : digraph) l : wf g -> (In l (all_topo eqb g) <-> topo_order g l).
  Proof. intros Hwf. rewrite (all_topo_spec l Hwf). apply is_topo_spec, Hwf. Qed.

  Lemma topo_from_nodup (g : digraph) :
    forall fuel rem, NoDup rem -> NoDup (topo_from eqb fuel g rem).
  Proof.
    induction fuel as [|f IH]; intros rem Hnd.
    - destruct rem; simpl; [constructor; [intros []|constructor]|constructor].
    - destruct rem as [|r rem'] eqn:Erem; [simpl; constructor; [intros []|constructor]|].
      rewrite <- Erem in *. assert (Hne : rem <> []) by (rewrite Erem; discriminate).
      rewrite (topo_from_cons f g Hne). apply NoDup_flat_map.
      + exact Hnd.
      + intros x _. destruct (is_source_in eqb g rem x); [|constructor].
        apply NoDup_map_cons, IH, removeb_nodup, Hnd.
      + intros x1 x2 l _ _ H1 H2.
        assert (Hhd : forall x, In l (if is_source_in eqb g rem x
                                      then map (cons x) (topo_from eqb f g (removeb eqb x rem))
                                      else []) -> hd_error l = Some x).
        { intros x Hx. destruct (is_source_in eqb g rem x); [|contradiction].
          apply in_map_iff in Hx. destruct Hx as (l' & <- & _). reflexivity. }
        apply Hhd in H1, H2. congruence.
  Qed.

  (** ... each exactly once. *)
  Theorem all_topo_nodup (g : digraph) : wf g -> NoDup (all_topo eqb g).
  Proof. intros [Hndv _]. apply topo_from_nodup, Hndv. Qed.

  (** Existence.  A minimal element of a non-empty list for a total preorder. *)
  Lemma min_exists (le : A -> A -> Prop) :
    (forall x y, le x y \/ le y x) -> (forall x y z, le x y -> le y z -> le x z) ->
    forall l, l <> [] -> exists m, In m l /\ forall y, In y l -> le m y.
  Proof.
    intros Htot Htrans. induction l as [|a l IH]; intros Hne; [contradiction|].
    destruct l as [|a' l'].
    - exists a. split; [left; reflexivity|]. intros y [<-|[]]. destruct (Htot a a); assumption.
    - destruct IH as (m & Hm & Hmin); [discriminate|].
      destruct (Htot a m) as [Ham|Hma].
      + exists a. split; [left; reflexivity|]. intros y [<-|Hy].
        * destruct (Htot a a); assumption.
        * apply (Htrans a m y Ham), Hmin, Hy.
      + exists m. split; [right; exact Hm|]. intros y [<-|Hy]; [exact Hma|apply Hmin, Hy].
  Qed.

  Lemma time_topo_from_exists (g : digraph) (lag : A -> Z) :
    wf g -> acyclic g -> (forall a b, arc g a b -> (lag a <= lag b)%Z) ->
    forall fuel rem, NoDup rem -> length rem <= fuel ->
      exists l, In l (topo_from eqb fuel g rem) /\ lags_sorted lag l = true.
  Proof.
    intros Hwf Hac Hlag.
    set (rank := fun v => length (anc eqb g v)).
    set (le2 := fun x y => (lag x < lag y)%Z \/ (lag x = lag y /\ rank x <= rank y)).
    assert (Htot : forall x y, le2 x y \/ le2 y x) by (intros x y; unfold le2; lia).
    assert (Htrans : forall x y z, le2 x y -> le2 y z -> le2 x z) by (intros x y z; unfold le2; lia).
    induction fuel as [|f IH]; intros rem Hnd Hlen.
    - destruct rem; [|simpl in Hlen; lia]. exists []. split; [left; reflexivity|reflexivity].
    - destruct rem as [|r rem'] eqn:Erem.
      { exists []. split; [left; reflexivity|reflexivity]. }
      rewrite <- Erem in *. assert (Hne : rem <> []) by (rewrite Erem; discriminate).
      destruct (min_exists le2 Htot Htrans Hne) as (m & Hm & Hmin).
      assert (Es : is_source_in eqb g rem m = true).
      { apply is_source_in_spec. intros p Hpm Hp.
        pose proof (Hlag p m Hpm) as H1.
        pose proof (@anc_rank _ eqb eqb_spec g p m Hwf Hac Hpm) as H2. fold (rank p) (rank m) in H2.
        specialize (Hmin p Hp). unfold le2 in Hmin. lia. }
      assert (Hndr : NoDup (removeb eqb m rem)) by apply removeb_nodup, Hnd.
      assert (Hlenr : length (removeb eqb m rem) <= f) by (pose proof (removeb_length _ _ Hm); lia).
      destruct (IH (removeb eqb m rem) Hndr Hlenr) as (l' & Hl' & Hs').
      exists (m :: l'). split.
      + rewrite (topo_from_cons f g Hne). apply in_flat_map. exists m. split; [exact Hm|].
        rewrite Es. apply in_map, Hl'.
      + destruct l' as [|y t]; [reflexivity|].
        change (negb (Z.ltb (lag y) (lag m)) && lags_sorted lag (y :: t) = true).
        rewrite Hs', andb_true_r. apply negb_true_iff, Z.ltb_ge.
        apply (topo_from_spec g (y :: t) Hndr Hlenr) in Hl'. destruct Hl' as (_ & Heq & _).
        assert (Hy : In y rem) by (apply (removeb_in m rem y), Heq; left; reflexivity).
        specialize (Hmin y Hy). unfold le2 in Hmin. lia.
  Qed.

  (** A time-series DAG whose arcs never go back in time has a topological order that is
      sorted by time lag ([respect_time_ordering=True] never returns an empty answer). *)
  Theorem time_topo_exists (g : digraph) (lag : A -> Z) :
    wf g -> acyclic g -> (forall a b, arc g a b -> (lag a <= lag b)%Z) ->
    exists l, is_topo eqb g l = true /\ lags_sorted lag l = true.
  Proof.
    intros Hwf Hac Hlag.
    destruct (@time_topo_from_exists g lag Hwf Hac Hlag (length (verts g)) (verts g) (proj1 Hwf) (le_n _))
      as (l & Hl & Hs).
    exists l. split; [apply (all_topo_spec l Hwf), Hl|exact Hs].
  Qed.

  Theorem all_topo_nonempty (g : digraph) : wf g -> acyclic g -> all_topo eqb g <> [].
  Proof.
    intros Hwf Hac.
    destruct (@time_topo_exists g (fun _ => 0%Z) Hwf Hac) as (l & Hl & _); [intros; lia|].
    apply (all_topo_spec l Hwf) in Hl. intros E. rewrite E in Hl. exact Hl.
  Qed.

  (** Position of the first occurrence (used only as a rank function inside proofs). *)
  Fixpoint topo_index (x : A) (l : list A) : nat :=
    match l with
    | [] => 0
    | y :: l' => if eqb x y then 0 else S (topo_index x l')
    end.

  Lemma index_app x l1 r : ~ In x l1 -> topo_index x (l1 ++ x :: r) = length l1.
  Proof.
    induction l1 as [|a l1 IH]; intros Hnin; simpl.
    - rewrite eqb_refl. reflexivity.
    - destruct (eqb_spec x a) as [->|Hne]; [exfalso; apply Hnin; left; reflexivity|].
      rewrite IH; [reflexivity|]. intros Hin; apply Hnin; right; exact Hin.
  Qed.

  Lemma before_index l a b : NoDup l -> before l a b -> topo_index a l < topo_index b l.
  Proof.
    intros Hnd (l1 & l2 & l3 & ->).
    assert (Ha : ~ In a l1).
    { apply NoDup_remove_2 in Hnd. intros Hin; apply Hnd, in_or_app; left; exact Hin. }
    rewrite (@index_app a l1 (l2 ++ b :: l3) Ha).
    replace (l1 ++ a :: l2 ++ b :: l3) with ((l1 ++ a :: l2) ++ b :: l3) in *
      by (rewrite <- app_assoc; reflexivity).
    assert (Hb : ~ In b (l1 ++ a :: l2)).
    { apply NoDup_remove_2 in Hnd. intros Hin; apply Hnd, in_or_app; left; exact Hin. }
    rewrite (@index_app b (l1 ++ a :: l2) l3 Hb), app_length. simpl. lia.
  Qed.

  (** In a topological order the position strictly increases along every arc ... *)
  Theorem topo_order_index (g : digraph) l :
    wf g -> topo_order g l -> forall a b, arc g a b -> topo_index a l < topo_index b l.
  Proof.
    intros Hwf [Hperm Hb] a b Hab. apply before_index; [|apply Hb, Hab].
    apply (Permutation_NoDup (Permutation_sym Hperm)), Hwf.
  Qed.

  Lemma topo_index_before l a b :
    In a l -> In b l -> topo_index a l < topo_index b l -> before l a b.
  Proof.
    induction l as [|x l IH]; intros Ha Hb Hlt; [contradiction|]. simpl in Hlt.
    destruct (eqb_spec a x) as [->|Hax].
    - destruct (eqb_spec b x) as [->|Hbx]; [lia|].
      destruct Hb as [Hb|Hb]; [congruence|]. apply before_head, Hb.
    - destruct (eqb_spec b x) as [->|Hbx]; [lia|].
      destruct Ha as [Ha|Ha]; [congruence|]. destruct Hb as [Hb|Hb]; [congruence|].
      apply before_cons, IH; [exact Ha|exact Hb|lia].
  Qed.

  (** The formulation with positions: [l] is a permutation of the vertices and the position
      strictly increases along every arc. *)
  Theorem topo_order_iff_index (g : digraph) l :
    wf g ->
    (topo_order g l <->
     Permutation l (verts g) /\ forall a b, arc g a b -> topo_index a l < topo_index b l).
  Proof.
    intros Hwf. split.
    - intros Ht. split; [exact (proj1 Ht)|]. apply (@topo_order_index g l Hwf Ht).
    - intros [Hperm Hidx]. split; [exact Hperm|]. intros a b Hab.
      destruct (proj2 Hwf a b Hab) as [Ha Hb].
      apply topo_index_before; [| |apply Hidx, Hab];
        apply (Permutation_in _ (Permutation_sym Hperm)); assumption.
  Qed.

  Corollary is_topo_iff_index (g : digraph) l :
    wf g ->
    (is_topo eqb g l = true <->
     Permutation l (verts g) /\ forall a b, arc g a b -> topo_index a l < topo_index b l).
  Proof. intros Hwf. rewrite (is_topo_spec l Hwf). apply topo_order_iff_index, Hwf. Qed.

  (** ... so a graph that has one is acyclic, and a cyclic graph has none. *)
  Theorem topo_order_acyclic (g : digraph) l : wf g -> topo_order g l -> acyclic g.
  Proof.
    intros Hwf Ht. apply (@rank_acyclic _ g (fun v => topo_index v l)).
    intros a b Hab. apply (@topo_order_index g l Hwf Ht a b Hab).
  Qed.

  Theorem all_topo_cyclic (g : digraph) : wf g -> ~ acyclic g -> all_topo eqb g = [].
  Proof.
    intros Hwf Hcyc. destruct (all_topo eqb g) as [|l ls] eqn:E; [reflexivity|]. exfalso.
    assert (Hl : In l (all_topo eqb g)) by (rewrite E; left; reflexivity).
    apply (all_topo_topo_order l Hwf) in Hl. apply Hcyc, (@topo_order_acyclic g l Hwf Hl).
  Qed.

  Theorem all_time_topo_spec (g : digraph) (lag : A -> Z) l :
    wf g ->
    (In l (all_time_topo eqb g lag) <-> is_topo eqb g l = true /\ lags_sorted lag l = true).
  Proof. intros Hwf. unfold all_time_topo. rewrite filter_In, (all_topo_spec l Hwf). tauto. Qed.

  Corollary all_time_topo_nonempty (g : digraph) (lag : A -> Z) :
    wf g -> acyclic g -> (forall a b, arc g a b -> (lag a <= lag b)%Z) ->
    all_time_topo eqb g lag <> [].
  Proof.
    intros Hwf Hac Hlag. destruct (time_topo_exists lag Hwf Hac Hlag) as (l & Hl & Hs).
    assert (Hin : In l (all_time_topo eqb g lag)) by (apply all_time_topo_spec; [exact Hwf|split; assumption]).
    intros E. rewrite E in Hin. exact Hin.
  Qed.

  (** * [get_ancestors], [get_descendants], [is_ancestor], [is_descendant],
        [get_common_ancestors], [get_common_descendants] *)

  Theorem get_descendants_spec (g : digraph) x y :
    wf g -> (In y (get_descendants eqb g x) <-> path g x y).
  Proof. apply desc_spec. Qed.

  Theorem get_ancestors_spec (g : digraph) x y :
    wf g -> (In y (get_ancestors eqb g x) <-> path g y x).
  Proof. apply anc_spec. Qed.

  Theorem is_ancestor_spec (g : digraph) a ds :
    wf g -> (is_ancestor eqb g a ds = true <-> forall d, In d ds -> path g a d).
  Proof.
    intros Hwf. unfold is_ancestor. rewrite (subsetb_spec eqb eqb_spec). unfold incl.
    split; intros H d Hd; apply (desc_spec a d Hwf), H, Hd.
  Qed.

  Theorem is_descendant_spec (g : digraph) d ans :
    wf g -> (is_descendant eqb g d ans = true <-> forall a, In a ans -> path g a d).
  Proof.
    intros Hwf. unfold is_descendant. rewrite (subsetb_spec eqb eqb_spec). unfold incl.
    split; intros H a Ha; apply (anc_spec d a Hwf), H, Ha.
  Qed.

  Theorem common_anc_spec (g : digraph) a b v :
    wf g -> (In v (common_anc eqb g a b) <-> path g v a /\ path g v b).
  Proof.
    intros Hwf. unfold common_anc.
    rewrite (inter_in eqb eqb_spec), (anc_spec a v Hwf), (anc_spec b v Hwf). tauto.
  Qed.

  Theorem common_desc_spec (g : digraph) a b v :
    wf g -> (In v (common_desc eqb g a b) <-> path g a v /\ path g b v).
  Proof.
    intros Hwf. unfold common_desc.
    rewrite (inter_in eqb eqb_spec), (desc_spec a v Hwf), (desc_spec b v Hwf). tauto.
  Qed.

  Lemma common_anc_nodup (g : digraph) a b : NoDup (common_anc eqb g a b).
  Proof. apply (inter_nodup eqb), (anc_nodup eqb eqb_spec). Qed.

  Lemma common_desc_nodup (g : digraph) a b : NoDup (common_desc eqb g a b).
  Proof. apply (inter_nodup eqb), (desc_nodup eqb eqb_spec). Qed.

  (** Docstring of [get_common_ancestors]: "If one of the provided nodes is an ancestor of
      another, it will not appear in the returned set" — true on a DAG. *)
  Lemma common_anc_excludes (g : digraph) a b :
    wf g -> acyclic g -> ~ In a (common_anc eqb g a b) /\ ~ In b (common_anc eqb g a b).
  Proof.
    intros Hwf Hac. split; intros Hin; apply (common_anc_spec a b _ Hwf) in Hin.
    - exact (Hac a (proj1 Hin)).
    - exact (Hac b (proj2 Hin)).
  Qed.

  (** * Extras *)

  (** The cycle check as [_set_edge] uses it: after inserting the arc [a -> b] into an acyclic
      graph, checking the DESTINATION [b] detects exactly the insertions that close a cycle. *)
  Theorem set_edge_cycle_check (g : digraph) a b :
    acyclic g ->
    exists r, depends_on_itself eqb (length (arcs g) + 3) (add_arc g a b) b = Some r /\
              (r = true <-> (a = b \/ path g b a)) /\
              (r = false <-> acyclic (add_arc g a b)).
  Proof.
    intros Hac.
    destruct (@depends_on_itself_correct (add_arc g a b) b (length (arcs g) + 3)) as (r & E & Hr).
    { simpl. rewrite app_length. simpl. lia. }
    exists r. split; [exact E|].
    assert (Hcyc : path (add_arc g a b) b b <-> a = b \/ path g b a).
    { rewrite path_add_arc_iff. split.
      - intros [H|[[H|H] _]]; [destruct (Hac b H)|left; symmetry; exact H|right; exact H].
      - intros [H|H]; right; (split; [|left; reflexivity]); [left; symmetry; exact H|right; exact H]. }
    split; [rewrite Hr; exact Hcyc|]. split.
    - intros ->. apply add_arc_acyclic_nowf; [exact Hac| |].
      + intros Hab. assert (false = true) by (apply Hr, Hcyc; left; exact Hab). discriminate.
      + intros Hp. assert (false = true) by (apply Hr, Hcyc; right; exact Hp). discriminate.
    - intros Hac'. destruct r; [|reflexivity]. exfalso.
      apply (Hac' b), Hr. reflexivity.
  Qed.

  (** Partial correctness of [directed_path_exists] on EVERY graph: whenever the model returns
      (i.e. whenever the Python recursion terminates) the answer is right. *)
  Lemma dpe_children_sound (g : digraph) b (rec : A -> option bool) :
    forall cs,
      (forall c r, In c cs -> rec c = Some r -> (r = true <-> path g c b)) ->
      forall r, dpe_children rec cs = Some r -> (r = true <-> exists c, In c cs /\ path g c b).
  Proof.
    induction cs as [|c cs IH]; intros Hrec r Hr.
    - inversion Hr; subst. split; [discriminate|]. intros (c & [] & _).
    - cbn [dpe_children] in Hr. destruct (rec c) as [[|]|] eqn:Ec; [| |discriminate].
      + inversion Hr; subst. split; [|reflexivity]. intros _.
        exists c; split; [left; reflexivity|]. apply (Hrec c true (or_introl eq_refl) Ec). reflexivity.
      + rewrite (IH (fun c' r' Hc' => Hrec c' r' (or_intror Hc')) r Hr). split.
        * intros (c' & Hc' & Hp). exists c'; split; [right; exact Hc'|exact Hp].
        * intros (c' & [<-|Hc'] & Hp).
          -- apply (Hrec c false (or_introl eq_refl) Ec) in Hp. discriminate.
          -- exists c'; split; assumption.
  Qed.

  Theorem directed_path_exists_sound (g : digraph) b :
    forall fuel a r, directed_path_exists eqb fuel g a b = Some r -> (r = true <-> path g a b).
  Proof.
    unfold directed_path_exists. induction fuel as [|f IH]; intros x r Hr; [discriminate|].
    cbn [dpe] in Hr. destruct (memb eqb b (children eqb g x)) eqn:Eb.
    - inversion Hr; subst. split; [|reflexivity]. intros _. apply t_step, children_in, memb_in, Eb.
    - rewrite (@dpe_children_sound g b (dpe eqb f g b) (children eqb g x) (fun c r' _ => IH c r') r Hr).
      split.
      + intros (c & Hc & Hp). eapply t_trans; [apply t_step, children_in, Hc|exact Hp].
      + intros Hp. destruct (path_first Hp) as (z & Hxz & Hz). destruct Hz as [->|Hz].
        * apply children_in, memb_in in Hxz. congruence.
        * exists z; split; [apply children_in, Hxz|exact Hz].
  Qed.

  (** A directed path can be cut down to a simple one, so [get_all_causal_paths] is non-empty
      exactly when the destination is a strict descendant of the source. *)
  Lemma simple_path_exists (g : digraph) a b : a <> b -> path g a b -> exists p, simple_path g a b p.
  Proof.
    intros Hab Hp. apply path_chain in Hp. destruct Hp as (l & Hne & Hc & Hl).
    destruct (@chain_simplify _ eqb eqb_spec g a l Hc Hne) as (l' & Hne' & Hc' & Hl' & Hnd' & _).
    rewrite Hl in Hl'.
    destruct (memb_reflect eqb eqb_spec a l') as [Hin|Hnin].
    - apply in_split in Hin. destruct Hin as (l1 & l2 & ->).
      exists (a :: l2), l2. split; [reflexivity|].
      apply chain_app in Hc'. destruct Hc' as [_ [_ Hc2]].
      rewrite last_app_cons in Hl'. split; [exact Hc2|]. split; [exact Hl'|].
      apply NoDup_app_r in Hnd'. exact Hnd'.
    - exists (a :: l'), l'. split; [reflexivity|]. split; [exact Hc'|]. split; [exact Hl'|].
      constructor; assumption.
  Qed.

  Theorem all_paths_nonempty_iff (g : digraph) a b :
    wf g -> a <> b -> (all_paths eqb g a b <> [] <-> path g a b).
  Proof.
    intros Hwf Hab. split.
    - intros Hne. destruct (all_paths eqb g a b) as [|p ps] eqn:E; [contradiction|].
      assert (Hp : In p (all_paths eqb g a b)) by (rewrite E; left; reflexivity).
      apply (all_paths_spec a b p Hwf) in Hp. apply (simple_path_path (proj1 Hp) (proj2 Hp)).
    - intros Hp E. destruct (simple_path_exists Hab Hp) as (p & Hsp).
      assert (Hin : In p (all_paths eqb g a b)) by (apply (all_paths_spec a b p Hwf); split; assumption).
      rewrite E in Hin. exact Hin.
  Qed.
End QueriesProofs.

(** * Renaming invariance *)
Section Rename.
  Variables A B : Type.
  Variable eqa : A -> A -> bool.
  Variable eqb : B -> B -> bool.
  Hypothesis eqa_spec : forall x y, reflect (x = y) (eqa x y).
  Hypothesis eqb_spec : forall x y, reflect (x = y) (eqb x y).
  Variable f : A -> B.
  Hypothesis f_inj : forall x y, f x = f y -> x = y.

  Lemma map_graph_arc_inv (g : digraph A) u v :
    arc (map_graph f g) u v <-> exists a b, u = f a /\ v = f b /\ arc g a b.
  Proof.
    unfold arc, map_graph; simpl. rewrite in_map_iff. split.
    - intros ([a b] & E & Hin). simpl in E. inversion E; subst. exists a, b. repeat split; exact Hin.
    - intros (a & b & -> & -> & Hin). exists (a, b). split; [reflexivity|exact Hin].
  Qed.

  Lemma map_graph_arc (g : digraph A) a b : arc (map_graph f g) (f a) (f b) <-> arc g a b.
  Proof.
    rewrite map_graph_arc_inv. split.
    - intros (a' & b' & Ea & Eb & H). apply f_inj in Ea, Eb. subst. exact H.
    - intros H. exists a, b. repeat split; exact H.
  Qed.

  Lemma map_graph_path_inv (g : digraph A) u v :
    path (map_graph f g) u v <-> exists a b, u = f a /\ v = f b /\ path g a b.
  Proof.
    split.
    - intros Hp; induction Hp as [x y Hxy|x y z _ IH1 _ IH2].
      + apply map_graph_arc_inv in Hxy. destruct Hxy as (a & b & -> & -> & H).
        exists a, b. repeat split. apply t_step, H.
      + destruct IH1 as (a & b & -> & -> & H1). destruct IH2 as (b' & c & E & -> & H2).
        apply f_inj in E. subst b'. exists a, c. repeat split. eapply t_trans; eassumption.
    - intros (a & b & -> & -> & Hp). induction Hp as [x y Hxy|x y z _ IH1 _ IH2].
      + apply t_step, map_graph_arc, Hxy.
      + eapply t_trans; eassumption.
  Qed.

  Lemma map_graph_path (g : digraph A) a b : path (map_graph f g) (f a) (f b) <-> path g a b.
  Proof.
    rewrite map_graph_path_inv. split.
    - intros (a' & b' & Ea & Eb & H). apply f_inj in Ea, Eb. subst. exact H.
    - intros H. exists a, b. repeat split; exact H.
  Qed.

  Lemma map_inj_nodup (l : list A) : NoDup l -> NoDup (map f l).
  Proof.
    induction 1 as [|x l Hnin Hnd IH]; simpl; constructor; [|exact IH].
    intros Hin. apply in_map_iff in Hin. destruct Hin as (y & E & Hy).
    apply f_inj in E. subst y. exact (Hnin Hy).
  Qed.

  Lemma map_graph_wf (g : digraph A) : wf g -> wf (map_graph f g).
  Proof.
    intros [Hnd Hwf]. split; [apply map_inj_nodup, Hnd|].
    intros u v Huv. apply map_graph_arc_inv in Huv. destruct Huv as (a & b & -> & -> & H).
    destruct (Hwf a b H) as [Ha Hb]. simpl. split; apply in_map; assumption.
  Qed.

  Lemma map_graph_acyclic (g : digraph A) : acyclic (map_graph f g) <-> acyclic g.
  Proof.
    split; intros Hac v Hp.
    - apply (Hac (f v)), map_graph_path, Hp.
    - apply map_graph_path_inv in Hp. destruct Hp as (a & b & Ea & Eb & Hp).
      rewrite Ea in Eb. apply f_inj in Eb. subst b. exact (Hac a Hp).
  Qed.

  (** Descendants / ancestors commute with an injective renaming of the vertices. *)
  Theorem desc_rename (g : digraph A) x y :
    wf g -> (In y (map f (desc eqa g x)) <-> In y (desc eqb (map_graph f g) (f x))).
  Proof.
    intros Hwf. rewrite (desc_spec eqb eqb_spec (f x) y (map_graph_wf Hwf)), in_map_iff.
    rewrite map_graph_path_inv. split.
    - intros (z & <- & Hz). apply (desc_spec eqa eqa_spec x z Hwf) in Hz.
      exists x, z. repeat split. exact Hz.
    - intros (a & b & Ea & -> & Hp). apply f_inj in Ea. subst a.
      exists b. split; [reflexivity|]. apply (desc_spec eqa eqa_spec x b Hwf), Hp.
  Qed.

  Theorem anc_rename (g : digraph A) x y :
    wf g -> (In y (map f (anc eqa g x)) <-> In y (anc eqb (map_graph f g) (f x))).
  Proof.
    intros Hwf. rewrite (anc_spec eqb eqb_spec (f x) y (map_graph_wf Hwf)), in_map_iff.
    rewrite map_graph_path_inv. split.
    - intros (z & <- & Hz). apply (anc_spec eqa eqa_spec x z Hwf) in Hz.
      exists z, x. repeat split. exact Hz.
    - intros (a & b & -> & Eb & Hp). apply f_inj in Eb. subst b.
      exists a. split; [reflexivity|]. apply (anc_spec eqa eqa_spec x a Hwf), Hp.
  Qed.
End Rename.

(** * Examples: non-vacuity of the hypotheses, and the behaviour observed on the real library

    Vertices [0, 1, 2, ...] stand for the node names ['a', 'b', 'c', ...]; the arcs are listed in
    the order in which the edges were added.  The expected values of the [py_*] examples were
    produced by running cai_causal_graph (PYTHONPATH=/repo PYTHONHASHSEED=0 /venv/bin/python)
    on the same graphs; results of networkx-backed queries are compared as sets. *)

Fixpoint leqb (a b : list nat) : bool :=
  match a, b with
  | [], [] => true
  | x :: a', y :: b' => Nat.eqb x y && leqb a' b'
  | _, _ => false
  end.
Definition seteq (a b : list nat) : bool := seteqb Nat.eqb a b && Nat.eqb (length a) (length b).
Definition llseteq (a b : list (list nat)) : bool := seteqb leqb a b && Nat.eqb (length a) (length b).
Definition oseteq (a : option (list nat)) (b : list nat) : bool :=
  match a with Some a => seteq a b | None => false end.
Definition obeq (a : option bool) (b : bool) : bool :=
  match a with Some a => Bool.eqb a b | None => false end.

(** a -> b, a -> c, b -> d, c -> d, d -> e, b -> e, f -> c *)
Definition qg : digraph nat :=
  {| verts := [0; 1; 2; 3; 4; 5];
     arcs := [(0, 1); (0, 2); (1, 3); (2, 3); (3, 4); (1, 4); (5, 2)] |}.
(** a -> b -> c -> a, d -> a, c -> e, built with [validate=False] *)
Definition qc : digraph nat :=
  {| verts := [0; 1; 2; 3; 4]; arcs := [(0, 1); (1, 2); (2, 0); (3, 0); (2, 4)] |}.
(** 0 = 'a lag(n=1)', 1 = 'a', 2 = 'b lag(n=1)', 3 = 'b' *)
Definition qt : digraph nat :=
  {| verts := [0; 1; 2; 3]; arcs := [(0, 1); (2, 3); (0, 3); (1, 3)] |}.
Definition qt_lag (x : nat) : Z := nth x [(-1)%Z; 0%Z; (-1)%Z; 0%Z] 0%Z.

Example qg_wf : wf qg.
Proof. apply (proj1 (wfb_spec Nat.eqb Nat.eqb_spec _)); reflexivity. Qed.
Example qg_acyclic : acyclic qg.
Proof. apply (proj1 (acyclicb_spec Nat.eqb Nat.eqb_spec qg_wf)); reflexivity. Qed.
Example qc_wf : wf qc.
Proof. apply (proj1 (wfb_spec Nat.eqb Nat.eqb_spec _)); reflexivity. Qed.
Example qc_cyclic : ~ acyclic qc.
Proof.
  intros H. apply (proj2 (acyclicb_spec Nat.eqb Nat.eqb_spec qc_wf)) in H.
  vm_compute in H. discriminate.
Qed.
Example qt_wf : wf qt.
Proof. apply (proj1 (wfb_spec Nat.eqb Nat.eqb_spec _)); reflexivity. Qed.
Example qt_acyclic : acyclic qt.
Proof. apply (proj1 (acyclicb_spec Nat.eqb Nat.eqb_spec qt_wf)); reflexivity. Qed.
Example qt_lag_monotone : forall a b, arc qt a b -> (qt_lag a <= qt_lag b)%Z.
Proof.
  intros a b H. unfold arc in H. simpl in H.
  repeat (destruct H as [H|H]; [inversion H; subst; vm_compute; discriminate|]). destruct H.
Qed.

(** The main theorems instantiated (their hypotheses are satisfiable). *)
Example depends_on_itself_ex :
  exists b, depends_on_itself Nat.eqb 7 qc 1 = Some b /\ (b = true <-> path qc 1 1).
Proof. apply (depends_on_itself_correct Nat.eqb Nat.eqb_spec qc 1). simpl. lia. Qed.
Example depends_on_itself_ex_value : depends_on_itself Nat.eqb 7 qc 1 = Some true.
Proof. vm_compute. reflexivity. Qed.
Example depends_on_itself_ex_fuel : depends_on_itself Nat.eqb 3 qc 1 = None.
Proof. vm_compute. reflexivity. Qed.
Example all_paths_ex p : In p (all_paths Nat.eqb qg 0 4) <-> 0 <> 4 /\ simple_path qg 0 4 p.
Proof. apply (all_paths_spec Nat.eqb Nat.eqb_spec 0 4 p qg_wf). Qed.
Example all_paths_ex_value :
  all_paths Nat.eqb qg 0 4 = [[0; 1; 3; 4]; [0; 1; 4]; [0; 2; 3; 4]].
Proof. vm_compute. reflexivity. Qed.
Example nodes_between_ex :
  exists S, nodes_between Nat.eqb 7 qg 5 4 = Some S /\
    (forall v, In v S <-> ((v = 5 \/ path qg 5 v) /\ (v = 4 \/ path qg v 4))) /\
    (~ (5 = 4 \/ path qg 5 4) -> S = []) /\ NoDup S.
Proof. exact (nodes_between_correct Nat.eqb Nat.eqb_spec 5 4 qg_wf qg_acyclic). Qed.
Example nodes_between_ex_value : nodes_between Nat.eqb 7 qg 5 4 = Some [5; 2; 3; 4].
Proof. vm_compute. reflexivity. Qed.
Example nodes_between_ex_none : nodes_between Nat.eqb 7 qg 4 0 = Some [].
Proof. vm_compute. reflexivity. Qed.
Example nodes_between_ex_fuel : nodes_between Nat.eqb 3 qg 0 4 = None.
Proof. vm_compute. reflexivity. Qed.
Example directed_path_exists_ex :
  exists r, directed_path_exists Nat.eqb 6 qg 5 4 = Some r /\ (r = true <-> path qg 5 4).
Proof.
  apply (directed_path_exists_correct Nat.eqb Nat.eqb_spec 5 4 qg_wf qg_acyclic). simpl; tauto.
Qed.
(** On a cyclic graph the Python recursion never returns; the model runs out of any fuel we try. *)
Example directed_path_exists_cyclic : directed_path_exists Nat.eqb 200 qc 0 3 = None.
Proof. vm_compute. reflexivity. Qed.
Example all_topo_ex : all_topo Nat.eqb qg <> [].
Proof. exact (all_topo_nonempty Nat.eqb Nat.eqb_spec qg_wf qg_acyclic). Qed.
Example all_topo_ex_cyclic : all_topo Nat.eqb qc = [].
Proof. vm_compute. reflexivity. Qed.
Example time_topo_ex : exists l, is_topo Nat.eqb qt l = true /\ lags_sorted qt_lag l = true.
Proof. exact (time_topo_exists Nat.eqb Nat.eqb_spec qt_lag qt_wf qt_acyclic qt_lag_monotone). Qed.
Example desc_rename_ex y :
  In y (map (fun n => n + 10) (desc Nat.eqb qg 0)) <->
  In y (desc Nat.eqb (map_graph (fun n => n + 10) qg) 10).
Proof.
  assert (Hinj : forall a b, a + 10 = b + 10 -> a = b) by (intros a b H; lia).
  exact (desc_rename Nat.eqb Nat.eqb Nat.eqb_spec Nat.eqb_spec (fun n => n + 10) Hinj 0 y qg_wf).
Qed.

Example set_edge_cycle_check_ex :
  exists r, depends_on_itself Nat.eqb 10 (add_arc qg 4 0) 0 = Some r /\
            (r = true <-> (4 = 0 \/ path qg 0 4)) /\ (r = false <-> acyclic (add_arc qg 4 0)).
Proof. exact (set_edge_cycle_check Nat.eqb Nat.eqb_spec 4 0 qg_acyclic). Qed.
Example set_edge_cycle_check_ex_value :
  depends_on_itself Nat.eqb 10 (add_arc qg 4 0) 0 = Some true /\
  depends_on_itself Nat.eqb 10 (add_arc qg 5 0) 0 = Some false.
Proof. vm_compute. split; reflexivity. Qed.
Example all_topo_empty : all_topo Nat.eqb {| verts := []; arcs := [] |} = [[]].
Proof. reflexivity. Qed.
Example all_time_topo_empty :
  all_time_topo Nat.eqb {| verts := []; arcs := [] |} (fun _ => 0%Z) = [[]].
Proof. reflexivity. Qed.

(** Behaviour observed on the real library. *)
Example py_dep_1 : obeq (depends_on_itself Nat.eqb (length (arcs qg) + 2) qg 0) false = true.
Proof. vm_compute. reflexivity. Qed.
Example py_dep_2 : obeq (depends_on_itself Nat.eqb (length (arcs qg) + 2) qg 3) false = true.
Proof. vm_compute. reflexivity. Qed.
Example py_dep_3 : obeq (depends_on_itself Nat.eqb (length (arcs qg) + 2) qg 5) false = true.
Proof. vm_compute. reflexivity. Qed.
Example py_paths_4 : llseteq (all_paths Nat.eqb qg 0 4) [[0; 1; 3; 4]; [0; 1; 4]; [0; 2; 3; 4]] = true.
Proof. vm_compute. reflexivity. Qed.
Example py_between_5 : oseteq (nodes_between Nat.eqb (length (verts qg) + 1) qg 0 4) [0; 1; 2; 3; 4] = true.
Proof. vm_compute. reflexivity. Qed.
Example py_dpe_6 : obeq (directed_path_exists Nat.eqb (length (verts qg)) qg 0 4) true = true.
Proof. vm_compute. reflexivity. Qed.
Example py_common_7 : seteq (common_anc Nat.eqb qg 0 4) [] = true.
Proof. vm_compute. reflexivity. Qed.
Example py_isanc_8 : Bool.eqb (is_ancestor Nat.eqb qg 0 [4]) true = true.
Proof. vm_compute. reflexivity. Qed.
Example py_paths_9 : llseteq (all_paths Nat.eqb qg 5 4) [[5; 2; 3; 4]] = true.
Proof. vm_compute. reflexivity. Qed.
Example py_between_10 : oseteq (nodes_between Nat.eqb (length (verts qg) + 1) qg 5 4) [2; 3; 4; 5] = true.
Proof. vm_compute. reflexivity. Qed.
Example py_dpe_11 : obeq (directed_path_exists Nat.eqb (length (verts qg)) qg 5 4) true = true.
Proof. vm_compute. reflexivity. Qed.
Example py_common_12 : seteq (common_anc Nat.eqb qg 5 4) [] = true.
Proof. vm_compute. reflexivity. Qed.
Example py_isanc_13 : Bool.eqb (is_ancestor Nat.eqb qg 5 [4]) true = true.
Proof. vm_compute. reflexivity. Qed.
Example py_paths_14 : llseteq (all_paths Nat.eqb qg 0 0) [] = true.
Proof. vm_compute. reflexivity. Qed.
Example py_between_15 : oseteq (nodes_between Nat.eqb (length (verts qg) + 1) qg 0 0) [0] = true.
Proof. vm_compute. reflexivity. Qed.
Example py_dpe_16 : obeq (directed_path_exists Nat.eqb (length (verts qg)) qg 0 0) false = true.
Proof. vm_compute. reflexivity. Qed.
Example py_common_17 : seteq (common_anc Nat.eqb qg 0 0) [] = true.
Proof. vm_compute. reflexivity. Qed.
Example py_isanc_18 : Bool.eqb (is_ancestor Nat.eqb qg 0 [0]) false = true.
Proof. vm_compute. reflexivity. Qed.
Example py_paths_19 : llseteq (all_paths Nat.eqb qg 4 0) [] = true.
Proof. vm_compute. reflexivity. Qed.
Example py_between_20 : oseteq (nodes_between Nat.eqb (length (verts qg) + 1) qg 4 0) [] = true.
Proof. vm_compute. reflexivity. Qed.
Example py_dpe_21 : obeq (directed_path_exists Nat.eqb (length (verts qg)) qg 4 0) false = true.
Proof. vm_compute. reflexivity. Qed.
Example py_common_22 : seteq (common_anc Nat.eqb qg 4 0) [] = true.
Proof. vm_compute. reflexivity. Qed.
Example py_isanc_23 : Bool.eqb (is_ancestor Nat.eqb qg 4 [0]) false = true.
Proof. vm_compute. reflexivity. Qed.
Example py_paths_24 : llseteq (all_paths Nat.eqb qg 1 2) [] = true.
Proof. vm_compute. reflexivity. Qed.
Example py_between_25 : oseteq (nodes_between Nat.eqb (length (verts qg) + 1) qg 1 2) [] = true.
Proof. vm_compute. reflexivity. Qed.
Example py_dpe_26 : obeq (directed_path_exists Nat.eqb (length (verts qg)) qg 1 2) false = true.
Proof. vm_compute. reflexivity. Qed.
Example py_common_27 : seteq (common_anc Nat.eqb qg 1 2) [0] = true.
Proof. vm_compute. reflexivity. Qed.
Example py_isanc_28 : Bool.eqb (is_ancestor Nat.eqb qg 1 [2]) false = true.
Proof. vm_compute. reflexivity. Qed.
Example py_paths_29 : llseteq (all_paths Nat.eqb qg 0 3) [[0; 1; 3]; [0; 2; 3]] = true.
Proof. vm_compute. reflexivity. Qed.
Example py_between_30 : oseteq (nodes_between Nat.eqb (length (verts qg) + 1) qg 0 3) [0; 1; 2; 3] = true.
Proof. vm_compute. reflexivity. Qed.
Example py_dpe_31 : obeq (directed_path_exists Nat.eqb (length (verts qg)) qg 0 3) true = true.
Proof. vm_compute. reflexivity. Qed.
Example py_common_32 : seteq (common_anc Nat.eqb qg 0 3) [] = true.
Proof. vm_compute. reflexivity. Qed.
Example py_isanc_33 : Bool.eqb (is_ancestor Nat.eqb qg 0 [3]) true = true.
Proof. vm_compute. reflexivity. Qed.
Example py_desc_34 : seteq (get_descendants Nat.eqb qg 0) [1; 2; 3; 4] = true.
Proof. vm_compute. reflexivity. Qed.
Example py_anc_35 : seteq (get_ancestors Nat.eqb qg 0) [] = true.
Proof. vm_compute. reflexivity. Qed.
Example py_desc_36 : seteq (get_descendants Nat.eqb qg 2) [3; 4] = true.
Proof. vm_compute. reflexivity. Qed.
Example py_anc_37 : seteq (get_ancestors Nat.eqb qg 2) [0; 5] = true.
Proof. vm_compute. reflexivity. Qed.
Example py_desc_38 : seteq (get_descendants Nat.eqb qg 4) [] = true.
Proof. vm_compute. reflexivity. Qed.
Example py_anc_39 : seteq (get_ancestors Nat.eqb qg 4) [0; 1; 2; 3; 5] = true.
Proof. vm_compute. reflexivity. Qed.
Example py_topo_40 : llseteq (all_topo Nat.eqb qg) [[5; 0; 2; 1; 3; 4]; [5; 0; 1; 2; 3; 4]; [0; 1; 5; 2; 3; 4]; [0; 5; 2; 1; 3; 4]; [0; 5; 1; 2; 3; 4]] = true.
Proof. vm_compute. reflexivity. Qed.
Example py_topo_41 : is_topo Nat.eqb qg [0; 5; 1; 2; 3; 4] = true.
Proof. vm_compute. reflexivity. Qed.
Example py_dep_cyc_42 : obeq (depends_on_itself Nat.eqb (length (arcs qc) + 2) qc 0) true = true.
Proof. vm_compute. reflexivity. Qed.
Example py_dep_cyc_43 : obeq (depends_on_itself Nat.eqb (length (arcs qc) + 2) qc 1) true = true.
Proof. vm_compute. reflexivity. Qed.
Example py_dep_cyc_44 : obeq (depends_on_itself Nat.eqb (length (arcs qc) + 2) qc 2) true = true.
Proof. vm_compute. reflexivity. Qed.
Example py_dep_cyc_45 : obeq (depends_on_itself Nat.eqb (length (arcs qc) + 2) qc 3) false = true.
Proof. vm_compute. reflexivity. Qed.
Example py_dep_cyc_46 : obeq (depends_on_itself Nat.eqb (length (arcs qc) + 2) qc 4) false = true.
Proof. vm_compute. reflexivity. Qed.
Example py_time_47 : llseteq (all_time_topo Nat.eqb qt qt_lag) [[2; 0; 1; 3]; [0; 2; 1; 3]] = true.
Proof. vm_compute. reflexivity. Qed.
Example py_time_48 : llseteq (all_topo Nat.eqb qt) [[2; 0; 1; 3]; [0; 1; 2; 3]; [0; 2; 1; 3]] = true.
Proof. vm_compute. reflexivity. Qed.
Example py_time_49 : is_topo Nat.eqb qt [0; 2; 1; 3] && lags_sorted qt_lag [0; 2; 1; 3] = true.
Proof. vm_compute. reflexivity. Qed.
