(** QueriesProofs.v — the structural queries of Queries.v agree with their graph-theoretic
    definitions (property "structural queries agree with their definitions", all DAGs). *)
From Coq Require Import Relations.Relation_Operators.
From CG Require Import Base Digraph DigraphProofs Queries.
Set Implicit Arguments.

Section QueriesProofs.
  Variable A : Type.
  Variable eqb : A -> A -> bool.
  Hypothesis eqb_spec : forall x y, reflect (x = y) (eqb x y).

  Notation digraph := (digraph A).
  Local Notation memb_in := (memb_in eqb eqb_spec).
  Local Notation memb_false := (memb_false eqb eqb_spec).
  Local Notation eqb_eq := (eqb_eq eqb eqb_spec).
  Local Notation eqb_neq := (eqb_neq eqb eqb_spec).
  Local Notation eqb_refl := (eqb_refl eqb eqb_spec).
  Local Notation children_in := (children_in eqb eqb_spec).
  Local Notation parents_in := (parents_in eqb eqb_spec).
  Local Notation desc_spec := (desc_spec eqb eqb_spec).
  Local Notation anc_spec := (anc_spec eqb eqb_spec).

  Lemma memb_cons x a l : memb eqb x (a :: l) = eqb x a || memb eqb x l.
  Proof. reflexivity. Qed.

  (** * [_assert_node_does_not_depend_on_itself] *)

  (** Arcs whose destination has not been checked yet: they bound the future pushes. *)
  Definition unchecked (g : digraph) (checked : list A) : list (A * A) :=
    filter (fun e => negb (memb eqb (snd e) checked)) (arcs g).

  Lemma unchecked_nil (g : digraph) : unchecked g [] = arcs g.
  Proof.
    unfold unchecked. induction (arcs g) as [|e l IH]; simpl; [reflexivity|]. f_equal. exact IH.
  Qed.

  Lemma unchecked_cons (g : digraph) cur checked :
    memb eqb cur checked = false ->
    length (unchecked g (cur :: checked)) + length (parents eqb g cur) = length (unchecked g checked).
  Proof.
    intros Hnin. unfold unchecked, parents. rewrite map_length.
    induction (arcs g) as [|[a b] l IH]; [reflexivity|].
    cbn [filter snd fst]. rewrite memb_cons.
    destruct (eqb_spec b cur) as [->|Hne].
    - rewrite Hnin. cbn [orb negb length]. lia.
    - cbn [orb]. destruct (memb eqb b checked); cbn [negb length]; lia.
  Qed.

  Lemma dep_loop_terminates (g : digraph) v :
    forall fuel checked stack,
      length stack + length (unchecked g checked) < fuel ->
      exists b, dep_loop eqb fuel g v checked stack = Some b.
  Proof.
    induction fuel as [|f IH]; intros checked stack Hlt; [lia|].
    destruct stack as [|cur rest]; cbn [dep_loop]; [eexists; reflexivity|].
    destruct (eqb cur v && negb (Nat.eqb (length checked) 0)); [eexists; reflexivity|].
    destruct (memb eqb cur checked) eqn:E.
    - apply IH. simpl in Hlt. lia.
    - apply IH. pose proof (unchecked_cons g cur checked E) as Hu.
      rewrite app_length, rev_length. simpl in Hlt. lia.
  Qed.

  Lemma dep_loop_correct (g : digraph) v :
    forall fuel checked stack b,
      In v checked ->
      (forall s, In s stack -> path g s v) ->
      (forall c p, In c checked -> arc g p c -> In p stack \/ (In p checked /\ p <> v)) ->
      dep_loop eqb fuel g v checked stack = Some b ->
      (b = true <-> path g v v).
  Proof.
    induction fuel as [|f IH]; intros checked stack b Hv Hstack Hclosed Hrun; [discriminate|].
    destruct stack as [|cur rest]; cbn [dep_loop] in Hrun.
    - (* loop ends: [checked] is closed under parents and [v] was never pushed *)
      inversion Hrun; subst b. split; [discriminate|]. intros Hp. exfalso.
      assert (Hall : forall c, path g c v -> In c checked).
      { apply path_ind_left.
        - intros x Hx. destruct (Hclosed v x Hv Hx) as [[]|[Hin _]]. exact Hin.
        - intros x y Hxy _ Hy. destruct (Hclosed y x Hy Hxy) as [[]|[Hin _]]. exact Hin. }
      destruct (path_first Hp) as (z & Hvz & Hz).
      assert (Hzc : In z checked) by (destruct Hz as [->|Hz]; [exact Hv|apply Hall, Hz]).
      destruct (Hclosed z v Hzc Hvz) as [[]|[_ Hne]]. apply Hne; reflexivity.
    - assert (Hlen : Nat.eqb (length checked) 0 = false).
      { destruct checked; [contradiction|reflexivity]. }
      rewrite Hlen in Hrun. cbn [negb] in Hrun. rewrite andb_true_r in Hrun.
      destruct (eqb_spec cur v) as [->|Hne].
      + inversion Hrun; subst b. split; [intros _|reflexivity].
        apply Hstack; left; reflexivity.
      + destruct (memb eqb cur checked) eqn:E.
        * apply (IH checked rest b Hv); [| |exact Hrun].
          -- intros s Hs; apply Hstack; right; exact Hs.
          -- intros c p Hc Hpc. destruct (Hclosed c p Hc Hpc) as [[<-|Hin]|Hr].
             ++ right; split; [apply memb_in, E|exact Hne].
             ++ left; exact Hin.
             ++ right; exact Hr.
        * apply (IH (cur :: checked) (rev (parents eqb g cur) ++ rest) b); [| | |exact Hrun].
          -- right; exact Hv.
          -- intros s Hs. apply in_app_or in Hs. destruct Hs as [Hs|Hs].
             ++ apply in_rev, parents_in in Hs.
                eapply t_trans; [apply t_step, Hs|apply Hstack; left; reflexivity].
             ++ apply Hstack; right; exact Hs.
          -- intros c p Hc Hpc. destruct Hc as [<-|Hc].
             ++ left. apply in_or_app; left. apply -> in_rev. apply parents_in, Hpc.
             ++ destruct (Hclosed c p Hc Hpc) as [[<-|Hin]|[Hin Hnv]].
                ** right; split; [left; reflexivity|exact Hne].
                ** left; apply in_or_app; right; exact Hin.
                ** right; split; [right; exact Hin|exact Hnv].
  Qed.

  (** Fuel [|arcs| + 2] always suffices (every iteration pops one entry; entries are pushed only
      when a node is first checked, at most [1 + |arcs|] pushes in total, plus the final test of
      the loop condition), and the AssertionError is raised exactly when [v] lies on a directed
      cycle.  No hypothesis on [g] is needed. *)
  Theorem depends_on_itself_correct (g : digraph) v fuel :
    fuel >= length (arcs g) + 2 ->
    exists b, depends_on_itself eqb fuel g v = Some b /\ (b = true <-> path g v v).
  Proof.
    intros Hfuel. unfold depends_on_itself.
    destruct fuel as [|f]; [lia|]. cbn [dep_loop length Nat.eqb negb]. rewrite andb_false_r.
    cbn [memb existsb].
    destruct (@dep_loop_terminates g v f [v] (rev (parents eqb g v) ++ [])) as (b & Hb).
    { pose proof (@unchecked_cons g v [] eq_refl) as Hu. rewrite unchecked_nil in Hu.
      rewrite app_nil_r, rev_length. lia. }
    exists b; split; [exact Hb|].
    apply (@dep_loop_correct g v f [v] (rev (parents eqb g v) ++ []) b); [| | |exact Hb].
    - left; reflexivity.
    - intros s Hs. rewrite app_nil_r in Hs. apply in_rev, parents_in in Hs. apply t_step, Hs.
    - intros c p [<-|[]] Hpc. left. rewrite app_nil_r. apply -> in_rev. apply parents_in, Hpc.
  Qed.

  Corollary depends_on_itself_iff (g : digraph) v :
    wf g -> exists fuel0, forall fuel, fuel >= fuel0 ->
      (depends_on_itself eqb fuel g v = Some true <-> path g v v).
  Proof.
    intros _. exists (length (arcs g) + 2). intros fuel Hfuel.
    destruct (depends_on_itself_correct g v Hfuel) as (b & Hb & Hiff). rewrite Hb. split.
    - intros E; inversion E; subst b. apply Hiff; reflexivity.
    - intros Hp. apply Hiff in Hp. subst b. reflexivity.
  Qed.

  (** On an acyclic graph the check never fires. *)
  Corollary depends_on_itself_acyclic (g : digraph) v :
    acyclic g -> depends_on_itself eqb (length (arcs g) + 2) g v = Some false.
  Proof.
    intros Hac. destruct (@depends_on_itself_correct g v (length (arcs g) + 2)) as (b & Hb & Hiff); [lia|].
    rewrite Hb. destruct b; [|reflexivity]. exfalso. apply (Hac v), Hiff. reflexivity.
  Qed.

  (** * [get_all_causal_paths] *)

  (** [p] lists the vertices of a directed walk from [a] to [b] that repeats no vertex. *)
  Definition simple_path (g : digraph) (a b : A) (p : list A) : Prop :=
    exists l, p = a :: l /\ chain g a l /\ last l a = b /\ NoDup p.

  Lemma nodup_children_in (g : digraph) x c : In c (union eqb (children eqb g x) []) <-> arc g x c.
  Proof. rewrite (union_in eqb eqb_spec). rewrite children_in. simpl; tauto. Qed.

  Lemma paths_from_spec (g : digraph) b :
    forall fuel visited x l,
      In l (paths_from eqb fuel g b visited x) <->
      l <> [] /\ chain g x l /\ last l x = b /\ NoDup l /\
      (forall y, In y l -> ~ In y visited) /\ length l <= fuel.
  Proof.
    induction fuel as [|f IH]; intros visited x l.
    - simpl. split; [intros []|]. intros (Hne & _ & _ & _ & _ & Hlen).
      destruct l; [contradiction|simpl in Hlen; lia].
    - cbn [paths_from]. rewrite in_flat_map. split.
      + intros (c & Hc & Hl). apply nodup_children_in in Hc.
        destruct (memb eqb c visited) eqn:Ev; [contradiction|]. apply memb_false in Ev.
        destruct (eqb_spec c b) as [->|Hcb].
        * destruct Hl as [<-|[]]. split; [discriminate|]. split; [split; [exact Hc|exact I]|].
          split; [reflexivity|]. split; [constructor; [intros []|constructor]|].
          split; [|simpl; lia]. intros y [<-|[]]; exact Ev.
        * apply in_map_iff in Hl. destruct Hl as (l' & <- & Hl'). apply IH in Hl'.
          destruct Hl' as (Hne & Hch & Hlast & Hnd & Hvis & Hlen).
          split; [discriminate|]. split; [split; assumption|].
          split; [rewrite last_cons; exact Hlast|].
          split; [constructor; [|exact Hnd]; intros Hin; apply (Hvis c Hin); left; reflexivity|].
          split; [|simpl; lia].
          intros y [<-|Hy]; [exact Ev|]. intros Hyv. apply (Hvis y Hy). right; exact Hyv.
      + intros (Hne & Hch & Hlast & Hnd & Hvis & Hlen).
        destruct l as [|c l']; [contradiction|]. destruct Hch as [Hxc Hch].
        exists c. split; [apply nodup_children_in, Hxc|].
        assert (Ev : memb eqb c visited = false) by (apply memb_false, Hvis; left; reflexivity).
        rewrite Ev. rewrite last_cons in Hlast. inversion Hnd as [|? ? Hcnin Hnd']; subst.
        destruct l' as [|d l''].
        * simpl. rewrite eqb_refl. left; reflexivity.
        * assert (Hin : In (last (d :: l'') c) (d :: l'')) by (apply last_in; discriminate).
          destruct (eqb_spec c (last (d :: l'') c)) as [E|Hcb].
          { exfalso. apply Hcnin. rewrite E at 1. exact Hin. }
          apply in_map. apply IH. split; [discriminate|]. split; [exact Hch|].
          split; [reflexivity|]. split; [exact Hnd'|]. split; [|simpl in Hlen |- *; lia].
          intros y Hy [<-|Hyv]; [exact (Hcnin Hy)|]. apply (Hvis y); [right; exact Hy|exact Hyv].
  Qed.

  Theorem all_paths_spec (g : digraph) a b p :
    wf g -> (In p (all_paths eqb g a b) <-> a <> b /\ simple_path g a b p).
  Proof.
    intros Hwf. unfold all_paths, simple_path. destruct (eqb_spec a b) as [->|Hab].
    - split; [intros []|intros [Hne _]; exact (Hne eq_refl)].
    - rewrite in_map_iff. split.
      + intros (l & <- & Hl). apply paths_from_spec in Hl.
        destruct Hl as (Hne & Hch & Hlast & Hnd & Hvis & _).
        split; [exact Hab|]. exists l. split; [reflexivity|]. split; [exact Hch|].
        split; [exact Hlast|]. constructor; [|exact Hnd].
        intros Hin. apply (Hvis a Hin). left; reflexivity.
      + intros (_ & l & -> & Hch & Hlast & Hnd). exists l. split; [reflexivity|].
        inversion Hnd as [|? ? Hanin Hnd']; subst.
        apply paths_from_spec. split.
        { intros ->. simpl in Hab. apply Hab; reflexivity. }
        split; [exact Hch|]. split; [reflexivity|]. split; [exact Hnd'|]. split.
        * intros y Hy [<-|[]]. exact (Hanin Hy).
        * apply NoDup_incl_length; [exact Hnd'|]. apply (@chain_incl_verts _ g a l Hwf Hch).
  Qed.

  Lemma paths_from_nodup (g : digraph) b :
    forall fuel visited x, NoDup (paths_from eqb fuel g b visited x).
  Proof.
    induction fuel as [|f IH]; intros visited x; [constructor|].
    cbn [paths_from]. apply NoDup_flat_map.
    - apply (union_nil_nodup eqb eqb_spec).
    - intros c _. destruct (memb eqb c visited); [constructor|].
      destruct (eqb c b); [constructor; [intros []|constructor]|].
      apply NoDup_map_cons, IH.
    - intros c1 c2 l _ _ H1 H2.
      assert (Hhd : forall c, In l (if memb eqb c visited then []
                                   else if eqb c b then [[c]]
                                   else map (cons c) (paths_from eqb f g b (c :: visited) c)) ->
                              hd_error l = Some c).
      { intros c Hc. destruct (memb eqb c visited); [contradiction|].
        destruct (eqb c b).
        - destruct Hc as [<-|[]]; reflexivity.
        - apply in_map_iff in Hc. destruct Hc as (l' & <- & _). reflexivity. }
      apply Hhd in H1, H2. congruence.
  Qed.

  Theorem all_paths_nodup (g : digraph) a b : NoDup (all_paths eqb g a b).
  Proof.
    unfold all_paths. destruct (eqb a b); [constructor|]. apply NoDup_map_cons, paths_from_nodup.
  Qed.

  (** Every simple path witnesses reachability, and reachability yields a simple path, so
      [all_paths] is non-empty exactly when [b] is a strict descendant of [a] (for [a <> b]). *)
  Lemma simple_path_path (g : digraph) a b p : a <> b -> simple_path g a b p -> path g a b.
  Proof.
    intros Hab (l & -> & Hch & Hlast & _). rewrite <- Hlast. apply chain_path; [exact Hch|].
    intros ->. simpl in Hlast. exact (Hab Hlast).
  Qed.
End QueriesProofs.
