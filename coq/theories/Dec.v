(** Dec.v — decimal printing of lags and the canonical spelling of a time-series node name.
    DEFINITIONS ONLY.  [tident v k] is what [get_name_with_lag] appends to a variable name
    (Names.v proves that [fmt v k = Some (tident v k)] for every good variable name). *)
From CG Require Import Base.
From Coq Require Import Decimal DecimalN.

Fixpoint print_uint (d : Decimal.uint) : name :=
  match d with
  | Decimal.Nil => []
  | Decimal.D0 d => 48%N :: print_uint d
  | Decimal.D1 d => 49%N :: print_uint d
  | Decimal.D2 d => 50%N :: print_uint d
  | Decimal.D3 d => 51%N :: print_uint d
  | Decimal.D4 d => 52%N :: print_uint d
  | Decimal.D5 d => 53%N :: print_uint d
  | Decimal.D6 d => 54%N :: print_uint d
  | Decimal.D7 d => 55%N :: print_uint d
  | Decimal.D8 d => 56%N :: print_uint d
  | Decimal.D9 d => 57%N :: print_uint d
  end.

(** Python [str(n)] for a non-negative integer. *)
Definition dec_N (n : N) : name := print_uint (N.to_uint n).

(** " lag(n="  and " future(n=" as code points. *)
Definition s_lag : name := [32; 108; 97; 103; 40; 110; 61]%N.
Definition s_future : name := [32; 102; 117; 116; 117; 114; 101; 40; 110; 61]%N.
Definition c_rparen : N := 41%N.

Definition lag_suffix (k : Z) : name :=
  if (k =? 0)%Z then []
  else if (0 <? k)%Z then s_future ++ dec_N (Z.to_N k) ++ [c_rparen]
  else s_lag ++ dec_N (Z.to_N (- k)) ++ [c_rparen].

(** Canonical identifier of the node for variable [v] at lag [k]. *)
Definition tident (v : name) (k : Z) : name := v ++ lag_suffix k.
