(** GraphAcyclicProofs.v — property C02 (first half): with validation on, no sequence of
    mutations produces a graph whose directed edges contain a cycle; the offending call is
    refused with CyclicConnectionError (ECyclic) and an acyclicity-preserving one is accepted.

    1. [cycle_check]        : the stack loop of _assert_node_does_not_depend_on_itself decides
                              "d lies on a directed cycle" within its fuel (no premise).
    2. [acyclic_step_gen], [acyclic_run_gen] (Section WithInv, premise: the invariant is
                              preserved by every step, [inv_step_statement]).
    3. [add_edge_cyclic_iff_gen] (same premise).
    4. [is_dag_spec]        : characterisation of is_dag (no premise, no acyclicity hypothesis).

    The ONLY premise of the Section is [Hinv_step : inv_step_statement parse fmt], exactly the
    statement proved in GraphInvProofs.v; each [_gen] theorem is closed by one application. *)
From Coq Require Import Relations.Relation_Operators.
From CG Require Import Base Digraph DigraphProofs Graph GraphObs GraphInv GraphAcyclicLemmas.

(** * 1. The cycle check *)

Theorem cycle_check parse : cycle_check_statement parse.
Proof. intros k g d HI Hd. exact (depends_on_itself_spec HI d Hd). Qed.

(** * 4. is_dag *)

(** [is_dag()]: every edge is directed and the directed graph has no cycle
    (networkx.is_directed_acyclic_graph of to_networkx() when _is_fully_directed()). *)
Definition is_dag_model (g : graph) : bool :=
  forallb (fun e => etype_eqb (ety e) Dir) (gsrc g) && acyclicb name_eqb (dgraph g).

Theorem is_dag_spec parse k g :
  Inv parse k g ->
  (is_dag_model g = true <-> (forall e, In e (gsrc g) -> ety e = Dir) /\ Acyclic g).
Proof.
  intros HI. unfold is_dag_model, Acyclic.
  rewrite andb_true_iff, forallb_forall, (acyclicb_spec name_eqb name_eqb_spec (dgraph_wf HI)).
  split; intros [H1 H2]; (split; [|exact H2]); intros e He; specialize (H1 e He).
  - destruct (etype_eqb_spec (ety e) Dir); [assumption|discriminate].
  - rewrite H1; reflexivity.
Qed.

(** * 2. Validated mutations preserve acyclicity *)

Lemma inv_empty parse k m : Inv parse k (empty_graph m).
Proof.
  constructor; cbn.
  - constructor.
  - constructor.
  - constructor.
  - intros e [].
  - intros e [].
  - intros e [].
  - intros n [].
  - intros n [].
  - intros _. split; reflexivity.
  - intros _. constructor; cbn.
    + intros n [].
    + constructor.
    + constructor.
    + intros e [].
Qed.

Lemma acyclic_empty m : Acyclic (empty_graph m).
Proof.
  intros v Hp. apply path_first in Hp. destruct Hp as (z & Harc & _). exact Harc.
Qed.

Section WithInv.
  Variable parse : name -> option (name * Z).
  Variable fmt : name -> Z -> option name.

  (** the one premise: GraphInvProofs.inv_step *)
  Hypothesis Hinv_step : inv_step_statement parse fmt.

  Lemma inv_add_edge' k g sp dp ty m v :
    Inv parse k g -> Inv parse k (snd (add_edge parse k g sp dp ty m v)).
  Proof. intros HI. exact (Hinv_step k g (OAddEdge sp dp ty m v) HI). Qed.

  Lemma inv_delete_edge' k g s d oty g' :
    Inv parse k g -> delete_edge g s d oty = Ok g' -> Inv parse k g'.
  Proof.
    intros HI H. pose proof (Hinv_step k g (ODeleteEdge s d oty) HI) as H'.
    unfold step, run_op in H'. rewrite H in H'. exact H'.
  Qed.

  Lemma inv_delete_node' k g id g' :
    Inv parse k g -> delete_node k g id = Ok g' -> Inv parse k g'.
  Proof.
    intros HI H. pose proof (Hinv_step k g (ODeleteNode id) HI) as H'.
    unfold step, run_op in H'. rewrite H in H'. exact H'.
  Qed.

  Lemma inv_add_node_id' k g id vt m g' :
    Inv parse k g -> add_node_id parse k g id vt m = Ok g' -> Inv parse k g'.
  Proof.
    intros HI H. pose proof (Hinv_step k g (OAddNode id vt m) HI) as H'.
    unfold step, run_op in H'. rewrite H in H'. exact H'.
  Qed.

  Definition Good (k : kind) (g : graph) : Prop := Inv parse k g /\ Acyclic g.

  (** the shape of every (result, state left behind) pair met below *)
  Definition StepOK (k : kind) (r : res graph * graph) : Prop :=
    Good k (snd r) /\ (forall g', fst r = Ok g' -> g' = snd r).

  Lemma stepok_same k g : Good k g -> StepOK k (Ok g, g).
  Proof. intros H. split; [exact H|]. cbn. intros g' [= <-]. reflexivity. Qed.

  Lemma stepok_err k g x : Good k g -> StepOK k (Err x, g).
  Proof. intros H. split; [exact H|]. cbn. discriminate. Qed.

  (** (b) validated add_edge *)
  Lemma good_add_edge k g sp dp ty m :
    Good k g -> StepOK k (add_edge parse k g sp dp ty m true).
  Proof.
    intros [HI Hac].
    pose proof (inv_add_edge' k g sp dp ty m true HI) as HIl.
    destruct (add_edge parse k g sp dp ty m true) as [r gl] eqn:H.
    cbn [snd] in HIl.
    pose proof (add_edge_shape _ _ _ _ _ _ _ _ _ _ H) as Hs.
    destruct r as [g'|x].
    - destruct Hs as [-> Hadd]. apply stepok_same. split; [exact HIl|].
      eapply added_edge_acyclic; eassumption.
    - apply stepok_err. split; [exact HIl|].
      eapply sub_arcs_acyclic; [apply incl_sub_arcs, Hs|exact Hac].
  Qed.

  (** (a) deletions and node additions *)
  Lemma good_delete_edge k g s d oty g' :
    Good k g -> delete_edge g s d oty = Ok g' -> Good k g'.
  Proof.
    intros [HI Hac] H. split; [eapply inv_delete_edge'; eassumption|].
    eapply sub_arcs_acyclic; [apply incl_sub_arcs; eapply delete_edge_incl; exact H|exact Hac].
  Qed.

  Lemma good_delete_node k g id g' :
    Good k g -> delete_node k g id = Ok g' -> Good k g'.
  Proof.
    intros [HI Hac] H. split; [eapply inv_delete_node'; eassumption|].
    eapply sub_arcs_acyclic; [apply incl_sub_arcs; eapply delete_node_incl; exact H|exact Hac].
  Qed.

  Lemma good_add_node_id k g id vt m g' :
    Good k g -> add_node_id parse k g id vt m = Ok g' -> Good k g'.
  Proof.
    intros [HI Hac] H. split; [eapply inv_add_node_id'; eassumption|].
    eapply gsrc_eq_acyclic; [eapply add_node_id_gsrc; exact H|exact Hac].
  Qed.

  (** (c) sequential composition *)
  Lemma fold_good k (X : Type) (f : res graph * graph -> X -> res graph * graph) :
    (forall g' x, Good k g' -> StepOK k (f (Ok g', g') x)) ->
    (forall e gl x, f (Err e, gl) x = (Err e, gl)) ->
    forall l acc, StepOK k acc -> StepOK k (fold_left f l acc).
  Proof.
    intros Hok Herr. induction l as [|x l IH]; intros acc Hacc; cbn [fold_left]; [exact Hacc|].
    apply IH. destruct acc as [[g'|e] gl].
    - destruct Hacc as [HG Heq]. cbn [fst snd] in HG, Heq.
      rewrite (Heq g' eq_refl). apply Hok, HG.
    - rewrite Herr. exact Hacc.
  Qed.

  Lemma good_add_nodes_from k g ids : Good k g -> StepOK k (add_nodes_from parse k g ids).
  Proof.
    intros HG. unfold add_nodes_from. apply fold_good.
    - intros g' id HG'. destruct (add_node_id parse k g' id VUnspec None) as [g''|x] eqn:E.
      + apply stepok_same. eapply good_add_node_id; eassumption.
      + apply stepok_err, HG'.
    - reflexivity.
    - apply stepok_same, HG.
  Qed.

  Lemma good_add_edges_from k g pairs :
    Good k g -> StepOK k (add_edges_from parse k g pairs true).
  Proof.
    intros HG. unfold add_edges_from. apply fold_good.
    - intros g' p HG'. apply good_add_edge, HG'.
    - reflexivity.
    - apply stepok_same, HG.
  Qed.

  Lemma good_add_path k g p : Good k g -> StepOK k (add_path parse k g p true).
  Proof.
    intros HG. unfold add_path. destruct p as [|a p]; [apply stepok_err, HG|].
    apply fold_good.
    - intros g' q HG'. destruct (edge_at g' (fst q) (snd q)).
      + apply stepok_same, HG'.
      + apply good_add_edge, HG'.
    - reflexivity.
    - apply stepok_same, HG.
  Qed.

  Lemma good_add_paths k g ps : Good k g -> StepOK k (add_paths parse k g ps).
  Proof.
    intros HG. unfold add_paths. destruct ps as [|p ps]; [apply stepok_err, HG|].
    apply fold_good.
    - intros g' q HG'. apply good_add_path, HG'.
    - reflexivity.
    - apply stepok_same, HG.
  Qed.

  Lemma good_seq_edges k g calls : Good k g -> StepOK k (seq_edges parse k g calls).
  Proof.
    intros HG. unfold seq_edges. apply fold_good.
    - intros g' [[[sp dp] ty] m] HG'. apply good_add_edge, HG'.
    - reflexivity.
    - apply stepok_same, HG.
  Qed.

  Lemma good_add_time_edge k g sv st dv dt m :
    Good k g -> StepOK k (add_time_edge parse fmt k g sv st dv dt m true).
  Proof.
    intros HG. unfold add_time_edge. destruct k; [apply stepok_err, HG|].
    destruct (fmt sv st) as [s|]; [|apply stepok_err, HG].
    destruct (fmt dv dt) as [d|]; [|apply stepok_err, HG].
    apply good_add_edge, HG.
  Qed.

  (** the unvalidated RESTORE of an edge of the original (acyclic) graph *)
  Lemma restore_sub_arcs k g g2 e r3 g3 :
    In e (gsrc g) -> sub_arcs g2 g ->
    add_edge parse k g2 (str_ep (esrc e)) (str_ep (edst e)) (ety e) (Some (emeta e)) false
      = (r3, g3) ->
    sub_arcs g3 g.
  Proof.
    intros Hin Hsub H a b Hab.
    destruct (add_edge_arcs _ _ _ _ _ _ _ _ _ _ H a b Hab) as [H2|(Hty & -> & ->)].
    - apply Hsub, H2.
    - cbn [str_ep fst]. apply arc_dgraph. exists e. repeat split; assumption.
  Qed.

  Lemma add_edge_ok_snd k g sp dp ty m v g' gl :
    add_edge parse k g sp dp ty m v = (Ok g', gl) -> g' = gl.
  Proof.
    intros H. pose proof (add_edge_shape _ _ _ _ _ _ _ _ _ _ H) as Hs. cbn beta iota in Hs.
    symmetry. exact (proj1 Hs).
  Qed.

  Lemma acyclic_change_edge_type k g s d ty :
    Good k g -> Acyclic (snd (change_edge_type parse k g s d ty)).
  Proof.
    intros HG. pose proof HG as [HI Hac]. unfold change_edge_type.
    destruct (edge_at g s d) as [e|] eqn:Ee; [|exact Hac].
    destruct (find_edge_some _ _ _ _ Ee) as (Hein & <- & <-).
    destruct (etype_eqb (ety e) ty); [exact Hac|].
    destruct (delete_edge g (esrc e) (edst e) (Some (ety e))) as [g1|x] eqn:Ed; [|exact Hac].
    pose proof (good_delete_edge _ _ _ _ _ _ HG Ed) as HG1.
    pose proof (good_add_edge k g1 (str_ep (esrc e)) (str_ep (edst e)) ty (Some (emeta e)) HG1)
      as HS.
    destruct (add_edge parse k g1 (str_ep (esrc e)) (str_ep (edst e)) ty (Some (emeta e)) true)
      as [r g2] eqn:Ea.
    destruct HS as [[HI2 Hac2] Heq]. cbn [fst snd] in HI2, Hac2, Heq.
    destruct r as [g2'|x].
    - cbn [snd]. rewrite (Heq g2' eq_refl). exact Hac2.
    - pose proof (add_edge_shape _ _ _ _ _ _ _ _ _ _ Ea) as Hs. cbn beta iota in Hs.
      assert (Hsub2 : sub_arcs g2 g).
      { apply incl_sub_arcs. eapply incl_tran; [exact Hs|]. eapply delete_edge_incl; exact Ed. }
      destruct (add_edge parse k g2 (str_ep (esrc e)) (str_ep (edst e)) (ety e)
                  (Some (emeta e)) false) as [r3 g3] eqn:Er.
      pose proof (restore_sub_arcs _ _ _ _ _ _ Hein Hsub2 Er) as Hsub3.
      destruct r3 as [g3'|y]; cbn [snd]; [rewrite (add_edge_ok_snd _ _ _ _ _ _ _ _ _ Er)|];
        eapply sub_arcs_acyclic; eassumption.
  Qed.

  Lemma acyclic_replace_edge k g s d s' d' oty om :
    Good k g -> Acyclic (snd (replace_edge parse k g s d s' d' oty om)).
  Proof.
    intros HG. pose proof HG as [HI Hac]. unfold replace_edge.
    destruct (edge_at g s d) as [e|] eqn:Ee; [|exact Hac].
    destruct (find_edge_some _ _ _ _ Ee) as (Hein & <- & <-).
    destruct (edge_at g s' d'); [exact Hac|].
    destruct (delete_edge g (esrc e) (edst e) None) as [g1|x] eqn:Ed; [|exact Hac].
    pose proof (good_delete_edge _ _ _ _ _ _ HG Ed) as HG1.
    match goal with |- context [add_edge parse k g1 ?sp ?dp ?ty ?m true] =>
      pose proof (good_add_edge k g1 sp dp ty m HG1) as HS;
      destruct (add_edge parse k g1 sp dp ty m true) as [r g2] eqn:Ea end.
    destruct HS as [[HI2 Hac2] Heq]. cbn [fst snd] in HI2, Hac2, Heq.
    destruct r as [g2'|x].
    - cbn [snd]. rewrite (Heq g2' eq_refl). exact Hac2.
    - pose proof (add_edge_shape _ _ _ _ _ _ _ _ _ _ Ea) as Hs. cbn beta iota in Hs.
      assert (Hsub2 : sub_arcs g2 g).
      { apply incl_sub_arcs. eapply incl_tran; [exact Hs|]. eapply delete_edge_incl; exact Ed. }
      destruct (add_edge parse k g2 (str_ep (esrc e)) (str_ep (edst e)) (ety e)
                  (Some (emeta e)) false) as [r3 g3] eqn:Er.
      pose proof (restore_sub_arcs _ _ _ _ _ _ Hein Hsub2 Er) as Hsub3.
      destruct r3 as [g3'|y]; cbn [snd]; [rewrite (add_edge_ok_snd _ _ _ _ _ _ _ _ _ Er)|];
        eapply sub_arcs_acyclic; eassumption.
  Qed.

  Lemma acyclic_replace_node_base k g id new_id vt m :
    Good k g -> Acyclic (snd (replace_node_base parse k g id new_id vt m)).
  Proof.
    intros HG. pose proof HG as [HI Hac]. unfold replace_node_base.
    destruct (get_node g id) as [n|]; [|exact Hac].
    destruct new_id as [id'|]; [|exact Hac].
    destruct (node_exists g id'); [exact Hac|].
    match goal with |- context [add_node_id parse k g id' ?a ?b] =>
      destruct (add_node_id parse k g id' a b) as [g1|x] eqn:En end; [|exact Hac].
    pose proof (good_add_node_id _ _ _ _ _ _ HG En) as HG1.
    match goal with |- context [seq_edges parse k g1 ?c] =>
      pose proof (good_seq_edges k g1 c HG1) as HS;
      destruct (seq_edges parse k g1 c) as [r g2] eqn:Es end.
    destruct HS as [HG2 Heq]. cbn [fst snd] in HG2, Heq.
    destruct r as [g2'|x].
    - rewrite (Heq g2' eq_refl).
      destruct (delete_node k g2 id) as [g3|y] eqn:Edn; cbn [snd].
      + exact (proj2 (good_delete_node _ _ _ _ HG2 Edn)).
      + exact (proj2 HG2).
    - destruct (delete_node k g2 id') as [g3|y] eqn:Edn; cbn [snd].
      + exact (proj2 (good_delete_node _ _ _ _ HG2 Edn)).
      + exact (proj2 HG2).
  Qed.

  Lemma acyclic_replace_node k g id new_id lag var vt m :
    Good k g -> Acyclic (snd (replace_node parse fmt k g id new_id lag var vt m)).
  Proof.
    intros HG. pose proof HG as [HI Hac]. unfold replace_node. destruct k.
    - destruct lag, var; try exact Hac. apply acyclic_replace_node_base, HG.
    - match goal with |- context [match ?R with Ok nid' => _ | Err x => (Err x, g) end] =>
        destruct R as [nid'|x] eqn:ER end; [|exact Hac].
      match goal with |- context [match ?R with Ok m' => _ | Err x => (Err x, g) end] =>
        destruct R as [m'|x] eqn:EM end; [|exact Hac].
      apply acyclic_replace_node_base, HG.
  Qed.

  Lemma acyclic_lift g r :
    Acyclic g -> (forall g', r = Ok g' -> Acyclic g') -> Acyclic (snd (lift g r)).
  Proof. intros Hac H. destruct r as [g'|x]; cbn [lift snd]; [apply H; reflexivity|exact Hac]. Qed.

  Theorem acyclic_step_gen : acyclic_step_statement parse fmt.
  Proof.
    intros k g o HI Hac Hv. assert (HG : Good k g) by (split; assumption).
    unfold step. destruct o; cbn [run_op validated] in *; try subst validate.
    - apply acyclic_lift; [exact Hac|]. intros g' H.
      eapply gsrc_eq_acyclic; [eapply add_node_id_gsrc; exact H|exact Hac].
    - apply acyclic_lift; [exact Hac|]. intros g' H.
      eapply gsrc_eq_acyclic; [eapply add_node_obj_gsrc; exact H|exact Hac].
    - apply acyclic_lift; [exact Hac|]. intros g' H.
      eapply gsrc_eq_acyclic; [eapply add_node_vl_gsrc; exact H|exact Hac].
    - exact (proj2 (proj1 (good_add_nodes_from k g ids HG))).
    - exact (proj2 (proj1 (good_add_edges_from k g _ HG))).
    - apply acyclic_lift; [exact Hac|]. intros g' H.
      exact (proj2 (good_delete_node _ _ _ _ HG H)).
    - apply acyclic_replace_node, HG.
    - exact (proj2 (proj1 (good_add_edge k g sp dp ty m HG))).
    - exact (proj2 (proj1 (good_add_edges_from k g pairs HG))).
    - exact (proj2 (proj1 (good_add_path k g path HG))).
    - exact (proj2 (proj1 (good_add_paths k g paths HG))).
    - exact (proj2 (proj1 (good_add_time_edge k g sv st dv dt m HG))).
    - apply acyclic_lift; [exact Hac|]. intros g' H.
      exact (proj2 (good_delete_edge _ _ _ _ _ _ HG H)).
    - apply acyclic_change_edge_type, HG.
    - apply acyclic_replace_edge, HG.
  Qed.

  Lemma good_run k ops : forall g,
    Good k g -> forallb validated ops = true -> Good k (run parse fmt k ops g).
  Proof.
    induction ops as [|o ops IH]; intros g HG Hv; cbn [run fold_left]; [exact HG|].
    cbn [forallb] in Hv. apply andb_true_iff in Hv. destruct Hv as [Ho Hv].
    apply IH; [|exact Hv]. destruct HG as [HI Hac]. split.
    - apply Hinv_step, HI.
    - apply acyclic_step_gen; assumption.
  Qed.

  Theorem acyclic_run_gen : acyclic_run_statement parse fmt.
  Proof.
    intros k ops m Hv. apply (good_run k ops); [|exact Hv].
    split; [apply inv_empty|apply acyclic_empty].
  Qed.
  (** * 3. A directed add between existing, unconnected nodes is refused iff it closes a cycle *)

  Definition new_dir_edge (s d : name) (m : option meta) : edge :=
    {| esrc := s; edst := d; ety := Dir; emeta := match m with Some x => x | None => [] end |}.

  Lemma fst_add_edge k g sp dp ty m v :
    fst (add_edge parse k g sp dp ty m v) = fst (add_edge_try parse k g sp dp ty m v).
  Proof.
    unfold add_edge. destruct (add_edge_try parse k g sp dp ty m v) as [[g'|x] gl]; reflexivity.
  Qed.

  Lemma add_edge_try_existing k g s d m v :
    In s (node_ids g) -> In d (node_ids g) -> edge_at g s d = None -> edge_at g d s = None ->
    s <> d ->
    (k = TS -> exists ls ld, node_lag g s = Some ls /\ node_lag g d = Some ld /\ (ls <= ld)%Z) ->
    add_edge_try parse k g (str_ep s) (str_ep d) Dir m v =
    let g1 := insert_edge g (new_dir_edge s d m) in
    if v then
      match depends_on_itself g1 d with
      | Some false => (Ok g1, g1)
      | Some true =>
          match delete_edge g1 s d None with
          | Ok _ => (Err ECyclic, g)
          | Err x => (Err x, g)
          end
      | None => (Err EIndex, g)
      end
    else (Ok g1, g1).
  Proof.
    intros Hs Hd Hsd Hds Hne Hts. unfold add_edge_try. cbn [str_ep fst snd].
    destruct (name_eqb_spec s d) as [|_]; [contradiction|].
    unfold add_endpoint. cbn [str_ep fst snd].
    rewrite (proj2 (node_exists_in g s) Hs), (proj2 (node_exists_in g d) Hd), Hsd.
    assert (Ho : orient k g s d Dir = Ok (s, d)).
    { unfold orient. destruct k; [reflexivity|].
      destruct (Hts eq_refl) as (ls & ld & -> & -> & Hle).
      destruct (Z.ltb_spec ld ls); [lia|reflexivity]. }
    rewrite Ho. unfold set_edge. rewrite Hsd, Hds. cbv zeta. unfold new_dir_edge.
    destruct v; [|reflexivity].
    destruct (depends_on_itself _ d) as [[|]|]; try reflexivity.
    destruct (delete_edge _ s d None); reflexivity.
  Qed.

  Theorem add_edge_cyclic_iff_gen : add_edge_cyclic_iff_statement parse fmt.
  Proof.
    intros k g s d m HI Hac Hs Hd Hsd Hds Hne Hts.
    pose proof (add_edge_try_existing k g s d m false Hs Hd Hsd Hds Hne Hts) as Hf.
    pose proof (add_edge_try_existing k g s d m true Hs Hd Hsd Hds Hne Hts) as Ht.
    cbv zeta in Hf, Ht.
    remember (insert_edge g (new_dir_edge s d m)) as g1 eqn:Eg1.
    assert (Hg1 : gsrc g1 = gsrc g ++ [new_dir_edge s d m]) by (subst g1; reflexivity).
    (* the intermediate state satisfies the invariant: it is what the unvalidated add leaves *)
    assert (HI1 : Inv parse k g1).
    { pose proof (inv_add_edge' k g (str_ep s) (str_ep d) Dir m false HI) as H.
      unfold add_edge in H. rewrite Hf in H. exact H. }
    assert (He1 : In (new_dir_edge s d m) (gsrc g1)).
    { rewrite Hg1. apply in_or_app; right; left; reflexivity. }
    destruct (inv_endpoints HI1 _ He1) as [Hs1 Hd1]. cbn [new_dir_edge esrc edst] in Hs1, Hd1.
    destruct (depends_on_itself_spec HI1 d Hd1) as (b & Hb & Hiff).
    assert (Hcyc : path (dgraph g1) d d <-> path (dgraph g) d s).
    { assert (Hext : forall a b, arc (dgraph g1) a b <-> arc (add_arc (dgraph g) s d) a b).
      { intros a c. rewrite (arc_app g g1 _ Hg1), add_arc_arc. cbn [new_dir_edge ety esrc edst].
        split.
        - intros [H|(_ & <- & <-)]; [left; exact H|right; split; reflexivity].
        - intros [H|[-> ->]]; [left; exact H|right; repeat split; reflexivity]. }
      rewrite (path_ext _ _ Hext), path_add_arc_iff. split.
      - intros [H|[[H|H] _]]; [destruct (Hac d H)|congruence|exact H].
      - intros H. right. split; [right; exact H|left; reflexivity]. }
    assert (Hout : outcome parse fmt k g (OAddEdge (str_ep s) (str_ep d) Dir m true)
                   = if b then Some ECyclic else None).
    { unfold outcome. cbn [run_op]. rewrite fst_add_edge, Ht, Hb. destruct b; [|reflexivity].
      assert (Hdel : exists g2, delete_edge g1 s d None = Ok g2).
      { unfold delete_edge.
        rewrite (proj2 (node_exists_in g1 s) Hs1), (proj2 (node_exists_in g1 d) Hd1).
        cbn [negb].
        assert (Hk : In (s, d) (map edge_key (gsrc g1))).
        { apply in_map_iff. exists (new_dir_edge s d m). split; [reflexivity|exact He1]. }
        destruct (find_edge_in _ _ _ Hk) as (e' & He'). unfold edge_at. rewrite He'.
        eexists; reflexivity. }
      destruct Hdel as (g2 & ->). reflexivity. }
    rewrite Hout. destruct b; split; split.
    - intros _. apply Hcyc, Hiff. reflexivity.
    - reflexivity.
    - discriminate.
    - intros Hn. exfalso. apply Hn, Hcyc, Hiff. reflexivity.
    - discriminate.
    - intros Hp. apply Hcyc, Hiff in Hp. discriminate.
    - intros _ Hp. apply Hcyc, Hiff in Hp. discriminate.
    - reflexivity.
  Qed.
End WithInv.

(** * Non-vacuity and behaviour pinned to the implementation (checked against /repo:
      CausalGraph and TimeSeriesCausalGraph both print CyclicConnectionError / is_dag as below) *)
From CG Require Import Names.

Definition na : name := [97]%N.  (* "a" *)
Definition nb : name := [98]%N.  (* "b" *)
Definition nc : name := [99]%N.  (* "c" *)

Definition ex_add (s d : name) (ty : etype) (v : bool) : op :=
  OAddEdge (str_ep s) (str_ep d) ty None v.

(** a -> b, b -> c *)
Definition ex_chain (k : kind) : graph :=
  run parse fmt k [ex_add na nb Dir true; ex_add nb nc Dir true] (empty_graph []).

(** closing the 3-cycle with c -> a is refused with CyclicConnectionError and leaves the
    state untouched; the chain is a DAG *)
Example ex_cycle_refused :
  outcome parse fmt Plain (ex_chain Plain) (ex_add nc na Dir true) = Some ECyclic
  /\ step parse fmt Plain (ex_chain Plain) (ex_add nc na Dir true) = ex_chain Plain
  /\ is_dag_model (ex_chain Plain) = true.
Proof. vm_compute. repeat split; reflexivity. Qed.

Example ex_cycle_refused_ts :
  outcome parse fmt TS (ex_chain TS) (ex_add nc na Dir true) = Some ECyclic
  /\ step parse fmt TS (ex_chain TS) (ex_add nc na Dir true) = ex_chain TS
  /\ is_dag_model (ex_chain TS) = true.
Proof. vm_compute. repeat split; reflexivity. Qed.

(** the same call with validate=False is accepted, and the result is not a DAG *)
Example ex_cycle_unvalidated :
  outcome parse fmt Plain (ex_chain Plain) (ex_add nc na Dir false) = None
  /\ length (gsrc (step parse fmt Plain (ex_chain Plain) (ex_add nc na Dir false))) = 3
  /\ is_dag_model (step parse fmt Plain (ex_chain Plain) (ex_add nc na Dir false)) = false
  /\ forallb (fun e => etype_eqb (ety e) Dir)
       (gsrc (step parse fmt Plain (ex_chain Plain) (ex_add nc na Dir false))) = true.
Proof. vm_compute. repeat split; reflexivity. Qed.

(** an acyclicity-preserving add (a -> c) is accepted *)
Example ex_acyclic_accepted :
  outcome parse fmt Plain (ex_chain Plain) (ex_add na nc Dir true) = None
  /\ is_dag_model (step parse fmt Plain (ex_chain Plain) (ex_add na nc Dir true)) = true.
Proof. vm_compute. repeat split; reflexivity. Qed.

(** change_edge_type turning c -- a into c -> a is refused, the undirected edge is restored;
    the graph is not a DAG only because it is not fully directed *)
Definition ex_mixed (k : kind) : graph := step parse fmt k (ex_chain k) (ex_add nc na Und true).

Example ex_change_type_refused :
  outcome parse fmt Plain (ex_mixed Plain) (OChangeEdgeType nc na Dir) = Some ECyclic
  /\ map (fun e => (esrc e, edst e, ety e))
       (gsrc (step parse fmt Plain (ex_mixed Plain) (OChangeEdgeType nc na Dir)))
     = [(na, nb, Dir); (nb, nc, Dir); (nc, na, Und)]
  /\ is_dag_model (ex_mixed Plain) = false
  /\ acyclicb name_eqb (dgraph (ex_mixed Plain)) = true.
Proof. vm_compute. repeat split; reflexivity. Qed.

Example ex_change_type_refused_ts :
  outcome parse fmt TS (ex_mixed TS) (OChangeEdgeType nc na Dir) = Some ECyclic
  /\ map (fun e => (esrc e, edst e, ety e))
       (gsrc (step parse fmt TS (ex_mixed TS) (OChangeEdgeType nc na Dir)))
     = [(na, nb, Dir); (nb, nc, Dir); (nc, na, Und)].
Proof. vm_compute. repeat split; reflexivity. Qed.

(** a self loop and a reversed duplicate are refused before the cycle check is reached *)
Example ex_self_and_reverse :
  outcome parse fmt Plain (ex_chain Plain) (ex_add na na Dir true) = Some ECyclic
  /\ outcome parse fmt Plain (ex_chain Plain) (ex_add nb na Dir true) = Some EReverse.
Proof. vm_compute. repeat split; reflexivity. Qed.

(** the literal loop on the (unvalidated) 3-cycle and on the chain *)
Example ex_dep_loop :
  depends_on_itself (step parse fmt Plain (ex_chain Plain) (ex_add nc na Dir false)) na = Some true
  /\ depends_on_itself (ex_chain Plain) nc = Some false.
Proof. vm_compute. split; reflexivity. Qed.

(** The hypotheses of the theorems are satisfiable by a non-trivial state: the chain and the
    unvalidated 3-cycle satisfy [Inv] (proved directly, without the Section premise). *)
Lemma in3 {A} (P : A -> Prop) (x y z : A) l :
  P x -> P y -> P z -> (forall e, In e l -> P e) -> forall e, In e (x :: y :: z :: l) -> P e.
Proof. intros Hx Hy Hz Hl e [<-|[<-|[<-|H]]]; auto. Qed.

Example ex_chain_inv : Inv parse Plain (ex_chain Plain).
Proof.
  constructor; try discriminate.
  - vm_compute. repeat constructor; simpl; intuition discriminate.
  - vm_compute. apply Permutation_refl.
  - vm_compute. repeat constructor; simpl; intuition discriminate.
  - vm_compute. intros e [<-|[<-|[]]]; simpl; intuition.
  - vm_compute. intros e [<-|[<-|[]]]; simpl; discriminate.
  - vm_compute. intros e [<-|[<-|[]]]; simpl; intuition discriminate.
  - vm_compute. intros n [<-|[<-|[<-|[]]]]; apply Permutation_refl.
  - vm_compute. intros n [<-|[<-|[<-|[]]]]; apply Permutation_refl.
  - intros _. vm_compute. split; reflexivity.
Qed.

Example ex_chain_acyclic : Acyclic (ex_chain Plain).
Proof.
  apply (proj1 (acyclicb_spec name_eqb name_eqb_spec (dgraph_wf ex_chain_inv))).
  vm_compute. reflexivity.
Qed.

(** [cycle_check] and [is_dag_spec] applied to it *)
Example ex_cycle_check_applies :
  exists b, depends_on_itself (ex_chain Plain) nc = Some b
            /\ (b = true <-> path (dgraph (ex_chain Plain)) nc nc).
Proof.
  apply (cycle_check parse Plain (ex_chain Plain) nc ex_chain_inv). vm_compute. tauto.
Qed.

Example ex_is_dag_applies :
  (forall e, In e (gsrc (ex_chain Plain)) -> ety e = Dir) /\ Acyclic (ex_chain Plain).
Proof. apply (is_dag_spec parse Plain (ex_chain Plain) ex_chain_inv). vm_compute. reflexivity. Qed.

(** the premises of [add_edge_cyclic_iff_statement] hold for (s, d) = (c, a) and (a, c) *)
Example ex_iff_premises :
  In nc (node_ids (ex_chain Plain)) /\ In na (node_ids (ex_chain Plain))
  /\ edge_at (ex_chain Plain) nc na = None /\ edge_at (ex_chain Plain) na nc = None /\ nc <> na
  /\ path (dgraph (ex_chain Plain)) na nc.
Proof.
  repeat split; try (vm_compute; tauto); try discriminate.
  apply (proj1 (desc_spec name_eqb name_eqb_spec na nc (dgraph_wf ex_chain_inv))).
  vm_compute. tauto.
Qed.
