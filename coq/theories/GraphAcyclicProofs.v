(** GraphAcyclicProofs.v — property C02 (first half): with validation on, no sequence of
    mutations produces a graph whose directed edges contain a cycle; the offending call is
    refused with CyclicConnectionError (ECyclic) and an acyclicity-preserving one is accepted.

    1. [cycle_check]         : the stack loop of _assert_node_does_not_depend_on_itself decides
                               "d lies on a directed cycle" within its fuel.
    2. [acyclic_step], [acyclic_run], [acyclic_run_from] : validated mutations keep the
                               directed part acyclic (all 15 operations, both classes).
    3. [add_edge_cyclic_iff] : a directed add between existing unconnected nodes is refused
                               with ECyclic iff it closes a cycle, accepted otherwise.
    4. [is_dag_spec]         : characterisation of is_dag (no acyclicity hypothesis).

    All theorems are CLOSED (no Section premise; GraphInvProofs.v is not needed): the proofs
    carry the small invariant [CInv] of GraphAcyclicLemmas.v, which [Inv] implies. *)
From Coq Require Import Relations.Relation_Operators.
From CG Require Import Base Digraph DigraphProofs Graph GraphObs GraphInv GraphAcyclicLemmas.

(** * 1. The cycle check *)

Theorem cycle_check parse : cycle_check_statement parse.
Proof. intros k g d HI Hd. exact (depends_on_itself_spec (inv_ccinv _ _ _ HI) d Hd). Qed.

(** * 4. is_dag *)

(** [is_dag()]: every edge is directed and the directed graph has no cycle
    (networkx.is_directed_acyclic_graph of to_networkx() when _is_fully_directed()). *)
Definition is_dag_model (g : graph) : bool :=
  forallb (fun e => etype_eqb (ety e) Dir) (gsrc g) && acyclicb name_eqb (dgraph g).

Theorem is_dag_spec parse k g :
  Inv parse k g ->
  (is_dag_model g = true <-> (forall e, In e (gsrc g) -> ety e = Dir) /\ Acyclic g).
Proof.
  intros HI. unfold is_dag_model, Acyclic.
  rewrite andb_true_iff, forallb_forall, (acyclicb_spec name_eqb name_eqb_spec (dgraph_wf HI)).
  split; intros [H1 H2]; (split; [|exact H2]); intros e He; specialize (H1 e He).
  - destruct (etype_eqb_spec (ety e) Dir); [assumption|discriminate].
  - rewrite H1; reflexivity.
Qed.

(** * 2. Validated mutations preserve acyclicity *)

Lemma inv_empty parse k m : Inv parse k (empty_graph m).
Proof.
  constructor; cbn.
  - constructor.
  - constructor.
  - constructor.
  - intros e [].
  - intros e [].
  - intros e [].
  - intros n [].
  - intros n [].
  - intros _. split; reflexivity.
  - intros _. constructor; cbn.
    + intros n [].
    + constructor.
    + constructor.
    + intros e [].
Qed.

Lemma acyclic_empty m : Acyclic (empty_graph m).
Proof.
  intros v Hp. apply path_first in Hp. destruct Hp as (z & Harc & _). exact Harc.
Qed.

(** The development below carries the small invariant [CInv] of GraphAcyclicLemmas.v (implied
    by [Inv], preserved by every primitive) instead of the full [Inv], so NO premise about
    GraphInvProofs is needed: all theorems are closed. *)
Section Acyclic.
  Variable parse : name -> option (name * Z).
  Variable fmt : name -> Z -> option name.

  Definition Good (g : graph) : Prop := CInv g /\ Acyclic g.

  (** the shape of every (result, state left behind) pair met below *)
  Definition StepOK (r : res graph * graph) : Prop :=
    Good (snd r) /\ (forall g', fst r = Ok g' -> g' = snd r).

  Lemma stepok_same g : Good g -> StepOK (Ok g, g).
  Proof. intros H. split; [exact H|]. cbn. intros g' [= <-]. reflexivity. Qed.

  Lemma stepok_err g x : Good g -> StepOK (Err x, g).
  Proof. intros H. split; [exact H|]. cbn. discriminate. Qed.

  Lemma stepok_lift g r :
    Good g -> (forall g', r = Ok g' -> Good g') -> StepOK (lift g r).
  Proof.
    intros HG H. destruct r as [g'|x]; cbn [lift];
      [apply stepok_same, H; reflexivity|apply stepok_err, HG].
  Qed.

  (** (b) validated add_edge *)
  Lemma good_add_edge k g sp dp ty m :
    Good g -> StepOK (add_edge parse k g sp dp ty m true).
  Proof.
    intros [HC Hac].
    pose proof (cinv_add_edge parse k g sp dp ty m true HC) as HCl.
    destruct (add_edge parse k g sp dp ty m true) as [r gl] eqn:H.
    cbn [snd] in HCl.
    pose proof (add_edge_shape _ _ _ _ _ _ _ _ _ _ H) as Hs.
    destruct r as [g'|x].
    - destruct Hs as [-> Hadd]. apply stepok_same. split; [exact HCl|].
      eapply added_edge_acyclic_c; eassumption.
    - apply stepok_err. split; [exact HCl|].
      eapply sub_arcs_acyclic; [apply incl_sub_arcs, Hs|exact Hac].
  Qed.

  (** (a) deletions and node additions *)
  Lemma good_delete_edge g s d oty g' :
    Good g -> delete_edge g s d oty = Ok g' -> Good g'.
  Proof.
    intros [HC Hac] H. split; [eapply cinv_delete_edge; eassumption|].
    eapply sub_arcs_acyclic; [apply incl_sub_arcs; eapply delete_edge_incl; exact H|exact Hac].
  Qed.

  Lemma good_delete_node k g id g' :
    Good g -> delete_node k g id = Ok g' -> Good g'.
  Proof.
    intros [HC Hac] H. split; [eapply cinv_delete_node; eassumption|].
    eapply sub_arcs_acyclic; [apply incl_sub_arcs; eapply delete_node_incl; exact H|exact Hac].
  Qed.

  Lemma good_add_node_id k g id vt m g' :
    Good g -> add_node_id parse k g id vt m = Ok g' -> Good g'.
  Proof.
    intros [HC Hac] H. split; [exact (proj1 (add_node_id_c _ _ _ _ _ _ _ HC H))|].
    eapply gsrc_eq_acyclic; [eapply add_node_id_gsrc; exact H|exact Hac].
  Qed.

  Lemma good_add_node_obj k g id vt m g' :
    Good g -> add_node_obj parse k g id vt m = Ok g' -> Good g'.
  Proof.
    intros [HC Hac] H. split; [exact (proj1 (add_node_obj_c _ _ _ _ _ _ _ HC H))|].
    eapply gsrc_eq_acyclic; [eapply add_node_obj_gsrc; exact H|exact Hac].
  Qed.

  Lemma good_add_node_vl k g v l vt m g' :
    Good g -> add_node_vl parse fmt k g v l vt m = Ok g' -> Good g'.
  Proof.
    intros HG. unfold add_node_vl. destruct k; [discriminate|].
    destruct (fmt v l) as [id|]; [|discriminate]. apply good_add_node_id, HG.
  Qed.

  (** (c) sequential composition *)
  Lemma fold_good (X : Type) (f : res graph * graph -> X -> res graph * graph) :
    (forall g' x, Good g' -> StepOK (f (Ok g', g') x)) ->
    (forall e gl x, f (Err e, gl) x = (Err e, gl)) ->
    forall l acc, StepOK acc -> StepOK (fold_left f l acc).
  Proof.
    intros Hok Herr. induction l as [|x l IH]; intros acc Hacc; cbn [fold_left]; [exact Hacc|].
    apply IH. destruct acc as [[g'|e] gl].
    - destruct Hacc as [HG Heq]. cbn [fst snd] in HG, Heq.
      rewrite (Heq g' eq_refl). apply Hok, HG.
    - rewrite Herr. exact Hacc.
  Qed.

  Lemma good_add_nodes_from k g ids : Good g -> StepOK (add_nodes_from parse k g ids).
  Proof.
    intros HG. unfold add_nodes_from. apply fold_good.
    - intros g' id HG'. destruct (add_node_id parse k g' id VUnspec None) as [g''|x] eqn:E.
      + apply stepok_same. eapply good_add_node_id; eassumption.
      + apply stepok_err, HG'.
    - reflexivity.
    - apply stepok_same, HG.
  Qed.

  Lemma good_add_edges_from k g pairs :
    Good g -> StepOK (add_edges_from parse k g pairs true).
  Proof.
    intros HG. unfold add_edges_from. apply fold_good.
    - intros g' p HG'. apply good_add_edge, HG'.
    - reflexivity.
    - apply stepok_same, HG.
  Qed.

  Lemma good_add_path k g p : Good g -> StepOK (add_path parse k g p true).
  Proof.
    intros HG. unfold add_path. destruct p as [|a p]; [apply stepok_err, HG|].
    apply fold_good.
    - intros g' q HG'. destruct (edge_at g' (fst q) (snd q)).
      + apply stepok_same, HG'.
      + apply good_add_edge, HG'.
    - reflexivity.
    - apply stepok_same, HG.
  Qed.

  Lemma good_add_paths k g ps : Good g -> StepOK (add_paths parse k g ps).
  Proof.
    intros HG. unfold add_paths. destruct ps as [|p ps]; [apply stepok_err, HG|].
    apply fold_good.
    - intros g' q HG'. apply good_add_path, HG'.
    - reflexivity.
    - apply stepok_same, HG.
  Qed.

  Lemma good_seq_edges k g calls : Good g -> StepOK (seq_edges parse k g calls).
  Proof.
    intros HG. unfold seq_edges. apply fold_good.
    - intros g' [[[sp dp] ty] m] HG'. apply good_add_edge, HG'.
    - reflexivity.
    - apply stepok_same, HG.
  Qed.

  Lemma good_add_time_edge k g sv st dv dt m :
    Good g -> StepOK (add_time_edge parse fmt k g sv st dv dt m true).
  Proof.
    intros HG. unfold add_time_edge. destruct k; [apply stepok_err, HG|].
    destruct (fmt sv st) as [s|]; [|apply stepok_err, HG].
    destruct (fmt dv dt) as [d|]; [|apply stepok_err, HG].
    apply good_add_edge, HG.
  Qed.

  Lemma add_edge_ok_snd k g sp dp ty m v g' gl :
    add_edge parse k g sp dp ty m v = (Ok g', gl) -> g' = gl.
  Proof.
    intros H. pose proof (add_edge_shape _ _ _ _ _ _ _ _ _ _ H) as Hs. cbn beta iota in Hs.
    symmetry. exact (proj1 Hs).
  Qed.

  (** the unvalidated RESTORE of an edge of the original (acyclic) graph: the state reached
      has no arc the original graph did not have *)
  Lemma good_restore k g g2 e r3 g3 :
    Acyclic g -> In e (gsrc g) -> CInv g2 -> sub_arcs g2 g ->
    add_edge parse k g2 (str_ep (esrc e)) (str_ep (edst e)) (ety e) (Some (emeta e)) false
      = (r3, g3) ->
    Good g3.
  Proof.
    intros Hac Hin HC2 Hsub H. split.
    - pose proof (cinv_add_edge parse k g2 (str_ep (esrc e)) (str_ep (edst e)) (ety e)
                    (Some (emeta e)) false HC2) as X. rewrite H in X. exact X.
    - apply (sub_arcs_acyclic g3 g); [|exact Hac]. intros a b Hab.
      destruct (add_edge_arcs _ _ _ _ _ _ _ _ _ _ H a b Hab) as [H2|(Hty & -> & ->)].
      + apply Hsub, H2.
      + cbn [str_ep fst]. apply arc_dgraph. exists e. repeat split; assumption.
  Qed.

  Lemma good_change_edge_type k g s d ty :
    Good g -> Good (snd (change_edge_type parse k g s d ty)).
  Proof.
    intros HG. pose proof HG as [HC Hac]. unfold change_edge_type.
    destruct (edge_at g s d) as [e|] eqn:Ee; [|exact HG].
    destruct (find_edge_some _ _ _ _ Ee) as (Hein & <- & <-).
    destruct (etype_eqb (ety e) ty); [exact HG|].
    destruct (delete_edge g (esrc e) (edst e) (Some (ety e))) as [g1|x] eqn:Ed; [|exact HG].
    pose proof (good_delete_edge _ _ _ _ _ HG Ed) as HG1.
    pose proof (good_add_edge k g1 (str_ep (esrc e)) (str_ep (edst e)) ty (Some (emeta e)) HG1)
      as HS.
    destruct (add_edge parse k g1 (str_ep (esrc e)) (str_ep (edst e)) ty (Some (emeta e)) true)
      as [r g2] eqn:Ea.
    destruct HS as [HG2 Heq]. cbn [fst snd] in HG2, Heq.
    destruct r as [g2'|x].
    - cbn [snd]. rewrite (Heq g2' eq_refl). exact HG2.
    - pose proof (add_edge_shape _ _ _ _ _ _ _ _ _ _ Ea) as Hs. cbn beta iota in Hs.
      assert (Hsub2 : sub_arcs g2 g).
      { apply incl_sub_arcs. eapply incl_tran; [exact Hs|]. eapply delete_edge_incl; exact Ed. }
      destruct (add_edge parse k g2 (str_ep (esrc e)) (str_ep (edst e)) (ety e)
                  (Some (emeta e)) false) as [r3 g3] eqn:Er.
      pose proof (good_restore _ _ _ _ _ _ Hac Hein (proj1 HG2) Hsub2 Er) as HG3.
      destruct r3 as [g3'|y]; cbn [snd]; [rewrite (add_edge_ok_snd _ _ _ _ _ _ _ _ _ Er)|];
        exact HG3.
  Qed.

  Lemma good_replace_edge k g s d s' d' oty om :
    Good g -> Good (snd (replace_edge parse k g s d s' d' oty om)).
  Proof.
    intros HG. pose proof HG as [HC Hac]. unfold replace_edge.
    destruct (edge_at g s d) as [e|] eqn:Ee; [|exact HG].
    destruct (find_edge_some _ _ _ _ Ee) as (Hein & <- & <-).
    destruct (edge_at g s' d'); [exact HG|].
    destruct (delete_edge g (esrc e) (edst e) None) as [g1|x] eqn:Ed; [|exact HG].
    pose proof (good_delete_edge _ _ _ _ _ HG Ed) as HG1.
    match goal with |- context [add_edge parse k g1 ?sp ?dp ?ty ?m true] =>
      pose proof (good_add_edge k g1 sp dp ty m HG1) as HS;
      destruct (add_edge parse k g1 sp dp ty m true) as [r g2] eqn:Ea end.
    destruct HS as [HG2 Heq]. cbn [fst snd] in HG2, Heq.
    destruct r as [g2'|x].
    - cbn [snd]. rewrite (Heq g2' eq_refl). exact HG2.
    - pose proof (add_edge_shape _ _ _ _ _ _ _ _ _ _ Ea) as Hs. cbn beta iota in Hs.
      assert (Hsub2 : sub_arcs g2 g).
      { apply incl_sub_arcs. eapply incl_tran; [exact Hs|]. eapply delete_edge_incl; exact Ed. }
      destruct (add_edge parse k g2 (str_ep (esrc e)) (str_ep (edst e)) (ety e)
                  (Some (emeta e)) false) as [r3 g3] eqn:Er.
      pose proof (good_restore _ _ _ _ _ _ Hac Hein (proj1 HG2) Hsub2 Er) as HG3.
      destruct r3 as [g3'|y]; cbn [snd]; [rewrite (add_edge_ok_snd _ _ _ _ _ _ _ _ _ Er)|];
        exact HG3.
  Qed.

  Lemma good_replace_node_base k g id new_id vt m :
    Good g -> Good (snd (replace_node_base parse k g id new_id vt m)).
  Proof.
    intros HG. pose proof HG as [HC Hac]. unfold replace_node_base.
    destruct (get_node g id) as [n|] eqn:En0; [|exact HG].
    destruct new_id as [id'|].
    2:{ cbn [snd]. split.
        - apply (cinv_inplace g id n); [exact HC|exact En0|reflexivity|reflexivity].
        - apply (gsrc_eq_acyclic _ g); [reflexivity|exact Hac]. }
    destruct (node_exists g id'); [exact HG|].
    match goal with |- context [add_node_id parse k g id' ?a ?b] =>
      destruct (add_node_id parse k g id' a b) as [g1|x] eqn:En end; [|exact HG].
    pose proof (good_add_node_id _ _ _ _ _ _ HG En) as HG1.
    match goal with |- context [seq_edges parse k g1 ?c] =>
      pose proof (good_seq_edges k g1 c HG1) as HS;
      destruct (seq_edges parse k g1 c) as [r g2] eqn:Es end.
    destruct HS as [HG2 Heq]. cbn [fst snd] in HG2, Heq.
    destruct r as [g2'|x].
    - rewrite (Heq g2' eq_refl).
      destruct (delete_node k g2 id) as [g3|y] eqn:Edn; cbn [snd].
      + exact (good_delete_node _ _ _ _ HG2 Edn).
      + exact HG2.
    - destruct (delete_node k g2 id') as [g3|y] eqn:Edn; cbn [snd].
      + exact (good_delete_node _ _ _ _ HG2 Edn).
      + exact HG2.
  Qed.

  Lemma good_replace_node k g id new_id lag var vt m :
    Good g -> Good (snd (replace_node parse fmt k g id new_id lag var vt m)).
  Proof.
    intros HG. unfold replace_node. destruct k.
    - destruct lag, var; try exact HG. apply good_replace_node_base, HG.
    - match goal with |- context [match ?R with Ok nid' => _ | Err x => (Err x, g) end] =>
        destruct R as [nid'|x] eqn:ER end; [|exact HG].
      match goal with |- context [match ?R with Ok m' => _ | Err x => (Err x, g) end] =>
        destruct R as [m'|x] eqn:EM end; [|exact HG].
      apply good_replace_node_base, HG.
  Qed.

  (** every validated operation keeps (CInv and) acyclicity *)
  Lemma good_step k g o : Good g -> validated o = true -> Good (step parse fmt k g o).
  Proof.
    intros HG Hv. unfold step. destruct o; cbn [run_op validated] in *; try subst validate.
    - apply stepok_lift; [exact HG|]. intros g' H. eapply good_add_node_id; eassumption.
    - apply stepok_lift; [exact HG|]. intros g' H. eapply good_add_node_obj; eassumption.
    - apply stepok_lift; [exact HG|]. intros g' H. eapply good_add_node_vl; eassumption.
    - exact (proj1 (good_add_nodes_from k g ids HG)).
    - exact (proj1 (good_add_edges_from k g _ HG)).
    - apply stepok_lift; [exact HG|]. intros g' H. eapply good_delete_node; eassumption.
    - apply good_replace_node, HG.
    - exact (proj1 (good_add_edge k g sp dp ty m HG)).
    - exact (proj1 (good_add_edges_from k g pairs HG)).
    - exact (proj1 (good_add_path k g path HG)).
    - exact (proj1 (good_add_paths k g paths HG)).
    - exact (proj1 (good_add_time_edge k g sv st dv dt m HG)).
    - apply stepok_lift; [exact HG|]. intros g' H. eapply good_delete_edge; eassumption.
    - apply good_change_edge_type, HG.
    - apply good_replace_edge, HG.
  Qed.

  Theorem acyclic_step : acyclic_step_statement parse fmt.
  Proof.
    intros k g o HI Hac Hv.
    exact (proj2 (good_step k g o (conj (inv_cinv _ _ _ HI) Hac) Hv)).
  Qed.

  Lemma good_run k ops : forall g,
    Good g -> forallb validated ops = true -> Good (run parse fmt k ops g).
  Proof.
    induction ops as [|o ops IH]; intros g HG Hv; cbn [run fold_left]; [exact HG|].
    cbn [forallb] in Hv. apply andb_true_iff in Hv. destruct Hv as [Ho Hv].
    apply IH; [|exact Hv]. apply good_step; assumption.
  Qed.

  Theorem acyclic_run : acyclic_run_statement parse fmt.
  Proof.
    intros k ops m Hv. apply (good_run k ops); [|exact Hv].
    split; [apply cinv_empty|apply acyclic_empty].
  Qed.

  (** the same from any state satisfying the invariant (not only the empty graph) *)
  Theorem acyclic_run_from k g ops :
    Inv parse k g -> Acyclic g -> forallb validated ops = true ->
    Acyclic (run parse fmt k ops g).
  Proof.
    intros HI Hac Hv. apply (good_run k ops); [|exact Hv].
    split; [exact (inv_cinv _ _ _ HI)|exact Hac].
  Qed.

  (** * 3. A directed add between existing, unconnected nodes is refused iff it closes a cycle *)

  Definition new_dir_edge (s d : name) (m : option meta) : edge :=
    {| esrc := s; edst := d; ety := Dir; emeta := match m with Some x => x | None => [] end |}.

  Lemma fst_add_edge k g sp dp ty m v :
    fst (add_edge parse k g sp dp ty m v) = fst (add_edge_try parse k g sp dp ty m v).
  Proof.
    unfold add_edge. destruct (add_edge_try parse k g sp dp ty m v) as [[g'|x] gl]; reflexivity.
  Qed.

  Lemma add_edge_try_existing k g s d m v :
    In s (node_ids g) -> In d (node_ids g) -> edge_at g s d = None -> edge_at g d s = None ->
    s <> d ->
    (k = TS -> exists ls ld, node_lag g s = Some ls /\ node_lag g d = Some ld /\ (ls <= ld)%Z) ->
    add_edge_try parse k g (str_ep s) (str_ep d) Dir m v =
    let g1 := insert_edge g (new_dir_edge s d m) in
    if v then
      match depends_on_itself g1 d with
      | Some false => (Ok g1, g1)
      | Some true =>
          match delete_edge g1 s d None with
          | Ok _ => (Err ECyclic, g)
          | Err x => (Err x, g)
          end
      | None => (Err EIndex, g)
      end
    else (Ok g1, g1).
  Proof.
    intros Hs Hd Hsd Hds Hne Hts. unfold add_edge_try. cbn [str_ep fst snd].
    destruct (name_eqb_spec s d) as [|_]; [contradiction|].
    unfold add_endpoint. cbn [str_ep fst snd].
    rewrite (proj2 (node_exists_in g s) Hs), (proj2 (node_exists_in g d) Hd), Hsd.
    assert (Ho : orient k g s d Dir = Ok (s, d)).
    { unfold orient. destruct k; [reflexivity|].
      destruct (Hts eq_refl) as (ls & ld & -> & -> & Hle).
      destruct (Z.ltb_spec ld ls); [lia|reflexivity]. }
    rewrite Ho. unfold set_edge. rewrite Hsd, Hds. cbv zeta. unfold new_dir_edge.
    destruct v; [|reflexivity].
    destruct (depends_on_itself _ d) as [[|]|]; try reflexivity.
    destruct (delete_edge _ s d None); reflexivity.
  Qed.

  Theorem add_edge_cyclic_iff : add_edge_cyclic_iff_statement parse fmt.
  Proof.
    intros k g s d m HI Hac Hs Hd Hsd Hds Hne Hts.
    pose proof (add_edge_try_existing k g s d m true Hs Hd Hsd Hds Hne Hts) as Ht.
    cbv zeta in Ht.
    remember (insert_edge g (new_dir_edge s d m)) as g1 eqn:Eg1.
    assert (Hg1 : gsrc g1 = gsrc g ++ [new_dir_edge s d m]) by (subst g1; reflexivity).
    (* the intermediate state of _set_edge satisfies what the cycle check needs *)
    assert (HC1 : CCInv g1).
    { subst g1. apply ccinv_insert_edge; [exact (inv_ccinv _ _ _ HI)|exact Hs]. }
    assert (Hids : node_ids g1 = node_ids g) by (subst g1; apply insert_edge_ids).
    assert (Hs1 : In s (node_ids g1)) by (rewrite Hids; exact Hs).
    assert (Hd1 : In d (node_ids g1)) by (rewrite Hids; exact Hd).
    assert (He1 : In (new_dir_edge s d m) (gsrc g1)).
    { rewrite Hg1. apply in_or_app; right; left; reflexivity. }
    destruct (depends_on_itself_spec HC1 d Hd1) as (b & Hb & Hiff).
    assert (Hcyc : path (dgraph g1) d d <-> path (dgraph g) d s).
    { assert (Hext : forall a b, arc (dgraph g1) a b <-> arc (add_arc (dgraph g) s d) a b).
      { intros a c. rewrite (arc_app g g1 _ Hg1), add_arc_arc. cbn [new_dir_edge ety esrc edst].
        split.
        - intros [H|(_ & <- & <-)]; [left; exact H|right; split; reflexivity].
        - intros [H|[-> ->]]; [left; exact H|right; repeat split; reflexivity]. }
      rewrite (path_ext _ _ Hext), path_add_arc_iff. split.
      - intros [H|[[H|H] _]]; [destruct (Hac d H)|congruence|exact H].
      - intros H. right. split; [right; exact H|left; reflexivity]. }
    assert (Hout : outcome parse fmt k g (OAddEdge (str_ep s) (str_ep d) Dir m true)
                   = if b then Some ECyclic else None).
    { unfold outcome. cbn [run_op]. rewrite fst_add_edge, Ht, Hb. destruct b; [|reflexivity].
      assert (Hdel : exists g2, delete_edge g1 s d None = Ok g2).
      { unfold delete_edge.
        rewrite (proj2 (node_exists_in g1 s) Hs1), (proj2 (node_exists_in g1 d) Hd1).
        cbn [negb].
        assert (Hk : In (s, d) (map edge_key (gsrc g1))).
        { apply in_map_iff. exists (new_dir_edge s d m). split; [reflexivity|exact He1]. }
        destruct (find_edge_in _ _ _ Hk) as (e' & He'). unfold edge_at. rewrite He'.
        eexists; reflexivity. }
      destruct Hdel as (g2 & ->). reflexivity. }
    rewrite Hout. destruct b; split; split.
    - intros _. apply Hcyc, Hiff. reflexivity.
    - reflexivity.
    - discriminate.
    - intros Hn. exfalso. apply Hn, Hcyc, Hiff. reflexivity.
    - discriminate.
    - intros Hp. apply Hcyc, Hiff in Hp. discriminate.
    - intros _ Hp. apply Hcyc, Hiff in Hp. discriminate.
    - reflexivity.
  Qed.
End Acyclic.

(** * Non-vacuity and behaviour pinned to the implementation (checked against /repo:
      CausalGraph and TimeSeriesCausalGraph both print CyclicConnectionError / is_dag as below) *)
From CG Require Import Names.

Definition na : name := [97]%N.  (* "a" *)
Definition nb : name := [98]%N.  (* "b" *)
Definition nc : name := [99]%N.  (* "c" *)

Definition ex_add (s d : name) (ty : etype) (v : bool) : op :=
  OAddEdge (str_ep s) (str_ep d) ty None v.

(** a -> b, b -> c *)
Definition ex_chain (k : kind) : graph :=
  run parse fmt k [ex_add na nb Dir true; ex_add nb nc Dir true] (empty_graph []).

(** closing the 3-cycle with c -> a is refused with CyclicConnectionError and leaves the
    state untouched; the chain is a DAG *)
Example ex_cycle_refused :
  outcome parse fmt Plain (ex_chain Plain) (ex_add nc na Dir true) = Some ECyclic
  /\ step parse fmt Plain (ex_chain Plain) (ex_add nc na Dir true) = ex_chain Plain
  /\ is_dag_model (ex_chain Plain) = true.
Proof. vm_compute. repeat split; reflexivity. Qed.

Example ex_cycle_refused_ts :
  outcome parse fmt TS (ex_chain TS) (ex_add nc na Dir true) = Some ECyclic
  /\ step parse fmt TS (ex_chain TS) (ex_add nc na Dir true) = ex_chain TS
  /\ is_dag_model (ex_chain TS) = true.
Proof. vm_compute. repeat split; reflexivity. Qed.

(** the same call with validate=False is accepted, and the result is not a DAG *)
Example ex_cycle_unvalidated :
  outcome parse fmt Plain (ex_chain Plain) (ex_add nc na Dir false) = None
  /\ length (gsrc (step parse fmt Plain (ex_chain Plain) (ex_add nc na Dir false))) = 3
  /\ is_dag_model (step parse fmt Plain (ex_chain Plain) (ex_add nc na Dir false)) = false
  /\ forallb (fun e => etype_eqb (ety e) Dir)
       (gsrc (step parse fmt Plain (ex_chain Plain) (ex_add nc na Dir false))) = true.
Proof. vm_compute. repeat split; reflexivity. Qed.

(** an acyclicity-preserving add (a -> c) is accepted *)
Example ex_acyclic_accepted :
  outcome parse fmt Plain (ex_chain Plain) (ex_add na nc Dir true) = None
  /\ is_dag_model (step parse fmt Plain (ex_chain Plain) (ex_add na nc Dir true)) = true.
Proof. vm_compute. repeat split; reflexivity. Qed.

(** change_edge_type turning c -- a into c -> a is refused, the undirected edge is restored;
    the graph is not a DAG only because it is not fully directed *)
Definition ex_mixed (k : kind) : graph := step parse fmt k (ex_chain k) (ex_add nc na Und true).

Example ex_change_type_refused :
  outcome parse fmt Plain (ex_mixed Plain) (OChangeEdgeType nc na Dir) = Some ECyclic
  /\ map (fun e => (esrc e, edst e, ety e))
       (gsrc (step parse fmt Plain (ex_mixed Plain) (OChangeEdgeType nc na Dir)))
     = [(na, nb, Dir); (nb, nc, Dir); (nc, na, Und)]
  /\ is_dag_model (ex_mixed Plain) = false
  /\ acyclicb name_eqb (dgraph (ex_mixed Plain)) = true.
Proof. vm_compute. repeat split; reflexivity. Qed.

Example ex_change_type_refused_ts :
  outcome parse fmt TS (ex_mixed TS) (OChangeEdgeType nc na Dir) = Some ECyclic
  /\ map (fun e => (esrc e, edst e, ety e))
       (gsrc (step parse fmt TS (ex_mixed TS) (OChangeEdgeType nc na Dir)))
     = [(na, nb, Dir); (nb, nc, Dir); (nc, na, Und)].
Proof. vm_compute. repeat split; reflexivity. Qed.

(** a self loop and a reversed duplicate are refused before the cycle check is reached *)
Example ex_self_and_reverse :
  outcome parse fmt Plain (ex_chain Plain) (ex_add na na Dir true) = Some ECyclic
  /\ outcome parse fmt Plain (ex_chain Plain) (ex_add nb na Dir true) = Some EReverse.
Proof. vm_compute. repeat split; reflexivity. Qed.

(** the literal loop on the (unvalidated) 3-cycle and on the chain *)
Example ex_dep_loop :
  depends_on_itself (step parse fmt Plain (ex_chain Plain) (ex_add nc na Dir false)) na = Some true
  /\ depends_on_itself (ex_chain Plain) nc = Some false.
Proof. vm_compute. split; reflexivity. Qed.

(** The hypotheses of the theorems are satisfiable by non-trivial states: the chain and the
    unvalidated 3-cycle satisfy [Inv] (proved directly from the definition). *)
Example ex_chain_inv : Inv parse Plain (ex_chain Plain).
Proof.
  constructor; try discriminate.
  - vm_compute. repeat constructor; simpl; intuition discriminate.
  - vm_compute. apply Permutation_refl.
  - vm_compute. repeat constructor; simpl; intuition discriminate.
  - vm_compute. intros e [<-|[<-|[]]]; simpl; intuition.
  - vm_compute. intros e [<-|[<-|[]]]; simpl; discriminate.
  - vm_compute. intros e [<-|[<-|[]]]; simpl; intuition discriminate.
  - vm_compute. intros n [<-|[<-|[<-|[]]]]; apply Permutation_refl.
  - vm_compute. intros n [<-|[<-|[<-|[]]]]; apply Permutation_refl.
  - intros _. vm_compute. split; reflexivity.
Qed.

Example ex_chain_acyclic : Acyclic (ex_chain Plain).
Proof.
  apply (proj1 (acyclicb_spec name_eqb name_eqb_spec (dgraph_wf ex_chain_inv))).
  vm_compute. reflexivity.
Qed.

(** [cycle_check] and [is_dag_spec] applied to it *)
Example ex_cycle_check_applies :
  exists b, depends_on_itself (ex_chain Plain) nc = Some b
            /\ (b = true <-> path (dgraph (ex_chain Plain)) nc nc).
Proof.
  apply (cycle_check parse Plain (ex_chain Plain) nc ex_chain_inv). vm_compute. tauto.
Qed.

Example ex_is_dag_applies :
  (forall e, In e (gsrc (ex_chain Plain)) -> ety e = Dir) /\ Acyclic (ex_chain Plain).
Proof. apply (is_dag_spec parse Plain (ex_chain Plain) ex_chain_inv). vm_compute. reflexivity. Qed.

(** the premises of [add_edge_cyclic_iff_statement] hold for (s, d) = (c, a) and (a, c) *)
Example ex_iff_premises :
  In nc (node_ids (ex_chain Plain)) /\ In na (node_ids (ex_chain Plain))
  /\ edge_at (ex_chain Plain) nc na = None /\ edge_at (ex_chain Plain) na nc = None /\ nc <> na
  /\ path (dgraph (ex_chain Plain)) na nc.
Proof.
  repeat split; try (vm_compute; tauto); try discriminate.
  apply (proj1 (desc_spec name_eqb name_eqb_spec na nc (dgraph_wf ex_chain_inv))).
  vm_compute. tauto.
Qed.

(** the theorems at the verified name codec *)
Example acyclic_step_names : acyclic_step_statement parse fmt := acyclic_step parse fmt.
Example acyclic_run_names : acyclic_run_statement parse fmt := acyclic_run parse fmt.
Example add_edge_cyclic_iff_names : add_edge_cyclic_iff_statement parse fmt :=
  add_edge_cyclic_iff parse fmt.

(** [acyclic_step] applies to the refused call, [add_edge_cyclic_iff] DERIVES the refusal of
    c -> a (path a ->* c) and the acceptance of a -> c (no path c ->* a) *)
Example ex_step_applies :
  Acyclic (step parse fmt Plain (ex_chain Plain) (ex_add nc na Dir true)).
Proof. apply acyclic_step; [exact ex_chain_inv|exact ex_chain_acyclic|reflexivity]. Qed.

Example ex_iff_applies :
  outcome parse fmt Plain (ex_chain Plain) (ex_add nc na Dir true) = Some ECyclic
  /\ outcome parse fmt Plain (ex_chain Plain) (ex_add na nc Dir true) = None.
Proof.
  destruct ex_iff_premises as (Hc & Ha & Hca & Hac & Hne & Hp).
  split.
  - apply (add_edge_cyclic_iff parse fmt Plain (ex_chain Plain) nc na None
             ex_chain_inv ex_chain_acyclic Hc Ha Hca Hac Hne); [discriminate|exact Hp].
  - apply (add_edge_cyclic_iff parse fmt Plain (ex_chain Plain) na nc None
             ex_chain_inv ex_chain_acyclic Ha Hc Hac Hca); [congruence|discriminate|].
    intros Hp'. exact (ex_chain_acyclic na (t_trans _ _ _ _ _ Hp Hp')).
Qed.

(** a validated history from the empty graph in which one call is refused: still acyclic *)
Example ex_run_applies :
  Acyclic (run parse fmt TS
             [ex_add na nb Dir true; ex_add nb nc Dir true; ex_add nc na Dir true;
              OChangeEdgeType na nb Und; OAddPaths [[nc; na]; [na; nb]]]
             (empty_graph [])).
Proof. apply acyclic_run. reflexivity. Qed.

(** the unvalidated 3-cycle also satisfies [Inv]; [is_dag_spec] (which has no acyclicity
    hypothesis) turns the computed [false] into "not acyclic", although every edge is directed *)
Definition ex_cyc3 : graph := step parse fmt Plain (ex_chain Plain) (ex_add nc na Dir false).

Example ex_cyc3_inv : Inv parse Plain ex_cyc3.
Proof.
  constructor; try discriminate.
  - vm_compute. repeat constructor; simpl; intuition discriminate.
  - vm_compute. apply Permutation_refl.
  - vm_compute. repeat constructor; simpl; intuition discriminate.
  - vm_compute. intros e [<-|[<-|[<-|[]]]]; simpl; intuition.
  - vm_compute. intros e [<-|[<-|[<-|[]]]]; simpl; discriminate.
  - vm_compute. intros e [<-|[<-|[<-|[]]]]; simpl; intuition discriminate.
  - vm_compute. intros n [<-|[<-|[<-|[]]]]; apply Permutation_refl.
  - vm_compute. intros n [<-|[<-|[<-|[]]]]; apply Permutation_refl.
  - intros _. vm_compute. split; reflexivity.
Qed.

Example ex_cyc3_not_acyclic : ~ Acyclic ex_cyc3.
Proof.
  intros Hac.
  assert (H : is_dag_model ex_cyc3 = true).
  { apply (is_dag_spec parse Plain ex_cyc3 ex_cyc3_inv). split; [|exact Hac].
    vm_compute. intros e [<-|[<-|[<-|[]]]]; reflexivity. }
  vm_compute in H. discriminate.
Qed.

(** the cycle check answers [Some true] for each of the three nodes, as [cycle_check] says *)
Example ex_cyc3_check :
  map (depends_on_itself ex_cyc3) [na; nb; nc] = [Some true; Some true; Some true].
Proof. vm_compute. reflexivity. Qed.

(** the fuel [length gsrc + 2] is exactly what the loop needs on the chain: one unit less and
    it would run out *)
Example ex_fuel_tight :
  dep_loop (length (gsrc (ex_chain Plain)) + 2) (ex_chain Plain) nc [] [nc] = Some false
  /\ dep_loop (length (gsrc (ex_chain Plain)) + 1) (ex_chain Plain) nc [] [nc] = None.
Proof. vm_compute. split; reflexivity. Qed.

(* Print Assumptions cycle_check. acyclic_step. acyclic_run. acyclic_run_from.
   add_edge_cyclic_iff. is_dag_spec.  — all "Closed under the global context". *)
