(** IdentifyGenProofs.v — the functions GENERATED from cai_causal_graph/identify_utils.py
    (IdentifyGen.v, produced by /verif/tools/translate_identify.py) compute the same sets as the
    hand-written model Identify.v.

    The generated functions take the ITERATION ORDER of sets (and of the collections that the
    library builds from sets and dictionaries) as a parameter [py_order : pyorder]; every theorem
    below holds for every order that is a permutation ([pyorder_ok]): the computed sets do not
    depend on hash order, on the order of the adjacency lists, or on the order in which the
    causal paths are enumerated.

    IdentifyGen.v is regenerated from the Python source on every verification run; this file is
    NOT regenerated.  If the source changes, the generated definitions change, and the proofs
    below either still go through (harmless rewrite) or fail to compile.

    Main results (generic in the vertex type; instances for [nat] as [_statement] /
    [_statement_holds] at the end of the file):
    - [gen_helper_spec] / [gen_helper_equiv]
                              the nested recursive helper, which removes edges of the networkx
                              graph in place, recurses and puts the edges back: it returns a graph
                              with the same nodes and the same edges as the one it was given (the
                              restore really restores) and the set computed by [conf_search];
                              the fuel [|V| + 1] suffices on a DAG;
    - [gen_confounders_equiv] [identify_confounders] = [confounders];
    - [gen_mediators_equiv]   [identify_mediators]   = [mediators]  when the enumeration of causal
                              paths has at most [max_num_paths + 1] elements;
      [gen_mediators_raises]  ValueError otherwise (the model ignores the limit);
    - [gen_instruments_equiv] [identify_instruments] = [instruments] under the guard
                              [gp_inst_guard]; [gen_instruments_raises]: ValueError otherwise;
    - [gen_markov_boundary_equiv]  [identify_markov_boundary] = [Markov.markov_boundary]
                              ([gen_markov_total_refuted]: the node whose identifier is the empty
                              string is refused with ValueError);
    - [gen_colliders_equiv]   [identify_colliders] = [Markov.identify_colliders] on graphs with
                              arbitrary edge types, no hypothesis;
    - [gen_equiv_le4]         the first three equivalences by exhaustive computation on all DAGs
                              with at most 4 nodes, for two concrete iteration orders (a BOUNDED
                              theorem, independent of the proofs above).  *)
From Coq Require Import Relations.Relation_Operators.
From CG Require Import Base Digraph DigraphProofs DSepProofs Identify IdentifyProofs InstrumentsGen Markov
  MarkovProofs PyRt IdentifyGen.
Set Implicit Arguments.

(** * 0. Loops without their continuation *)

Section Loops.
  Variables X S R Res : Type.
  Variable inj : pyout R -> Res.

  (** The loop alone: [Cont s'] when it ends (normally or by [break]), [Done o] when the body
      returns / raises. *)
  Fixpoint py_loop (xs : list X) (s : S) (body : X -> S -> pyctl S R) : pyctl S R :=
    match xs with
    | [] => Cont s
    | x :: xs' =>
        match body x s with
        | Cont s' => py_loop xs' s' body
        | Brk s' => Cont s'
        | Done o => Done o
        end
    end.

  Lemma py_for_loop (xs : list X) (s : S) (body : X -> S -> pyctl S R) (k : S -> Res) :
    py_for inj xs s body k =
    match py_loop xs s body with
    | Cont s' => k s'
    | Brk s' => k s'
    | Done o => inj o
    end.
  Proof.
    revert s. induction xs as [|x xs IH]; intros s; simpl; [reflexivity|].
    destruct (body x s) as [s'|s'|o]; [apply IH|reflexivity|reflexivity].
  Qed.

  Lemma py_loop_ext (xs : list X) (s : S) (b1 b2 : X -> S -> pyctl S R) :
    (forall x s, b1 x s = b2 x s) -> py_loop xs s b1 = py_loop xs s b2.
  Proof.
    intros Hext. revert s. induction xs as [|x xs IH]; intros s; simpl; [reflexivity|].
    rewrite Hext. destruct (b2 x s); [apply IH|reflexivity|reflexivity].
  Qed.

  (** A body that never breaks, returns or raises is a fold. *)
  Lemma py_loop_fold (step : X -> S -> S) (xs : list X) (s : S) (body : X -> S -> pyctl S R) :
    (forall x s, body x s = Cont (step x s)) ->
    py_loop xs s body = Cont (fold_left (fun s x => step x s) xs s).
  Proof.
    intros Hb. revert s. induction xs as [|x xs IH]; intros s; simpl; [reflexivity|].
    rewrite Hb. apply IH.
  Qed.
End Loops.

Section GenProofs.
  Variable A : Type.
  Variable eqb : A -> A -> bool.
  Hypothesis eqb_spec : forall x y, reflect (x = y) (eqb x y).
  (** the iteration-order oracle: ANY function that returns a permutation of its argument *)
  Variable ord : pyorder.
  Hypothesis ord_ok : pyorder_ok ord.

  Lemma gp_ord_in (X : Type) k (l : list X) x : In x (@ord X k l) <-> In x l.
  Proof.
    split; apply Permutation_in; [apply ord_ok|apply Permutation_sym, ord_ok].
  Qed.

  Lemma gp_ord_nodup (X : Type) k (l : list X) : NoDup l -> NoDup (@ord X k l).
  Proof. intros H. apply (Permutation_NoDup (Permutation_sym (@ord_ok X k l)) H). Qed.

  Lemma gp_ord_length (X : Type) k (l : list X) : length (@ord X k l) = length l.
  Proof. apply Permutation_length, ord_ok. Qed.

  Lemma gp_iter_set_in (X : Type) k (l : list X) x : In x (py_iter_set ord k l) <-> In x l.
  Proof. apply gp_ord_in. Qed.

  Lemma gp_iter_set_nodup (X : Type) k (l : list X) : NoDup l -> NoDup (py_iter_set ord k l).
  Proof. apply gp_ord_nodup. Qed.

  Local Notation seteq l1 l2 := (forall z : A, In z l1 <-> In z l2).

  (** * 1. Sets *)

  Lemma gp_memb_in x l : memb eqb x l = true <-> In x l.
  Proof. exact (@memb_in A eqb eqb_spec x l). Qed.

  Lemma gp_memb_false x l : memb eqb x l = false <-> ~ In x l.
  Proof. exact (@memb_false A eqb eqb_spec x l). Qed.

  Lemma gp_memb_seteq x l1 l2 : seteq l1 l2 -> memb eqb x l1 = memb eqb x l2.
  Proof.
    intros H. destruct (memb eqb x l2) eqn:E.
    - apply gp_memb_in, H, gp_memb_in. exact E.
    - apply gp_memb_false. intros Hin. apply gp_memb_false in E. apply E, H. exact Hin.
  Qed.

  Lemma gp_set_of_in x l : In x (py_set_of eqb l) <-> In x l.
  Proof. unfold py_set_of. rewrite (@union_in A eqb eqb_spec). simpl. tauto. Qed.

  Lemma gp_set_of_nodup l : NoDup (py_set_of eqb l).
  Proof. apply (@union_nil_nodup A eqb eqb_spec). Qed.

  Lemma gp_set_add_in x s a : In x (py_set_add eqb s a) <-> In x s \/ x = a.
  Proof.
    unfold py_set_add. destruct (memb eqb a s) eqn:E.
    - apply gp_memb_in in E. split; [tauto|]. intros [H| ->]; assumption.
    - rewrite in_app_iff. simpl. split.
      + intros [H|[<-|[]]]; [left; exact H|right; reflexivity].
      + intros [H| ->]; [left; exact H|right; left; reflexivity].
  Qed.

  Lemma gp_union_in x s t : In x (py_union eqb s t) <-> In x s \/ In x t.
  Proof. apply (@union_in A eqb eqb_spec). Qed.

  Lemma gp_inter_in x s t : In x (py_inter eqb s t) <-> In x s /\ In x t.
  Proof. apply (@inter_in A eqb eqb_spec). Qed.

  Lemma gp_diff_in x s t : In x (py_diff eqb s t) <-> In x s /\ ~ In x t.
  Proof. apply (@diff_in A eqb eqb_spec). Qed.

  (** * 2. Graphs with the same nodes and the same edges *)

  Definition geq (g1 g2 : digraph A) : Prop :=
    verts g1 = verts g2 /\ forall a b, arc g1 a b <-> arc g2 a b.

  Lemma geq_refl g : geq g g.
  Proof. split; [reflexivity|tauto]. Qed.

  Lemma geq_sym g1 g2 : geq g1 g2 -> geq g2 g1.
  Proof. intros [Hv Ha]. split; [symmetry; exact Hv|]. intros a b. symmetry. apply Ha. Qed.

  Lemma geq_trans g1 g2 g3 : geq g1 g2 -> geq g2 g3 -> geq g1 g3.
  Proof.
    intros [Hv1 Ha1] [Hv2 Ha2]. split; [congruence|].
    intros a b. rewrite Ha1. apply Ha2.
  Qed.

  Lemma geq_wf g1 g2 : geq g1 g2 -> wf g1 -> wf g2.
  Proof.
    intros [Hv Ha] [Hnd Hin]. split; [rewrite <- Hv; exact Hnd|].
    intros a b Hab. rewrite <- Hv. apply Hin. apply Ha. exact Hab.
  Qed.

  Lemma geq_path g1 g2 x y : geq g1 g2 -> (path g1 x y <-> path g2 x y).
  Proof.
    intros [_ Ha]. split; apply path_mono; intros a b Hab; apply Ha; exact Hab.
  Qed.

  Lemma geq_acyclic g1 g2 : geq g1 g2 -> acyclic g1 -> acyclic g2.
  Proof. intros Hg Hac v Hv. apply (Hac v). apply (geq_path v v Hg). exact Hv. Qed.

  Lemma geq_anc g1 g2 x : geq g1 g2 -> wf g1 -> seteq (anc eqb g1 x) (anc eqb g2 x).
  Proof.
    intros Hg Hwf z. rewrite (@anc_spec A eqb eqb_spec g1 x z Hwf).
    rewrite (@anc_spec A eqb eqb_spec g2 x z (geq_wf Hg Hwf)). apply geq_path. exact Hg.
  Qed.

  Lemma geq_desc g1 g2 x : geq g1 g2 -> wf g1 -> seteq (desc eqb g1 x) (desc eqb g2 x).
  Proof.
    intros Hg Hwf z. rewrite (@desc_spec A eqb eqb_spec g1 x z Hwf).
    rewrite (@desc_spec A eqb eqb_spec g2 x z (geq_wf Hg Hwf)). apply geq_path. exact Hg.
  Qed.

  Lemma geq_del g1 g2 xs : geq g1 g2 -> geq (del_arcs_from eqb g1 xs) (del_arcs_from eqb g2 xs).
  Proof.
    intros [Hv Ha]. split; [exact Hv|]. intros a b.
    rewrite !(@del_arcs_arc A eqb eqb_spec). rewrite Ha. tauto.
  Qed.

  Lemma geq_parents g1 g2 x : geq g1 g2 -> seteq (parents eqb g1 x) (parents eqb g2 x).
  Proof. intros [_ Ha] z. rewrite !(@parents_in A eqb eqb_spec). apply Ha. Qed.

  (** Removing one edge, adding one edge. *)
  Lemma gp_del_arc_arc (g : digraph A) u v a b :
    arc (py_del_arc eqb g u v) a b <-> arc g a b /\ ~ (a = u /\ b = v).
  Proof.
    unfold arc, py_del_arc; simpl. rewrite filter_In. simpl.
    rewrite negb_true_iff, andb_false_iff.
    destruct (eqb_spec a u) as [->|Hau], (eqb_spec b v) as [->|Hbv]; intuition congruence.
  Qed.

  Lemma gp_add_edge_arc (g : digraph A) u v a b :
    arc (py_nx_add_edge eqb g u v) a b <-> arc g a b \/ (a = u /\ b = v).
  Proof.
    unfold py_nx_add_edge. destruct (has_arc eqb g u v) eqn:E.
    - apply (@has_arc_spec A eqb eqb_spec) in E. split; [tauto|].
      intros [H|[-> ->]]; assumption.
    - apply add_arc_arc.
  Qed.

  Lemma gp_add_edge_verts (g : digraph A) u v : verts (py_nx_add_edge eqb g u v) = verts g.
  Proof. unfold py_nx_add_edge. destruct (has_arc eqb g u v); reflexivity. Qed.

  (** Removing the edges [n -> c] for [c] in [cs], one after the other. *)
  Fixpoint del_list (g : digraph A) (n : A) (cs : list A) : digraph A :=
    match cs with
    | [] => g
    | c :: cs' => del_list (py_del_arc eqb g n c) n cs'
    end.

  Lemma del_list_verts cs : forall g n, verts (del_list g n cs) = verts g.
  Proof. induction cs as [|c cs IH]; intros g n; simpl; [reflexivity|]. rewrite IH. reflexivity. Qed.

  Lemma del_list_arc cs : forall g n a b,
    arc (del_list g n cs) a b <-> arc g a b /\ ~ (a = n /\ In b cs).
  Proof.
    induction cs as [|c cs IH]; intros g n a b; simpl; [tauto|].
    rewrite IH, gp_del_arc_arc. intuition congruence.
  Qed.

  (** All the edges leaving [n]: the graph obtained is [del_arcs_from g [n]] up to [geq]. *)
  Lemma del_list_children (g : digraph A) n cs a b :
    (forall c, In c cs <-> arc g n c) ->
    (arc (del_list g n cs) a b <-> arc g a b /\ a <> n).
  Proof.
    intros Hcs. rewrite del_list_arc. split.
    - intros [Hab Hn]. split; [exact Hab|]. intros ->. apply Hn. split; [reflexivity|].
      apply Hcs. exact Hab.
    - intros [Hab Hn]. split; [exact Hab|]. intros [Heq _]. exact (Hn Heq).
  Qed.

  (** * 3. The two removal loops of the generated code *)

  (** the loop of the nested helper: state = (graph, removed_edges) *)
  Lemma gp_rm_loop_nx (n : A) (R : Type)
        (body : A -> digraph A * list (A * A) -> pyctl (digraph A * list (A * A)) R) :
    (forall c g re, body c (g, re) =
       py_bind py_in (py_nx_remove_edge eqb g n c)
         (fun g' => Cont (g', py_list_append re (n, c)))) ->
    forall cs g re, NoDup cs -> (forall c, In c cs -> arc g n c) ->
    py_loop cs (g, re) body = Cont (del_list g n cs, re ++ map (pair n) cs).
  Proof.
    intros Hb. induction cs as [|c cs IH]; intros g re Hnd Harc; simpl.
    - rewrite app_nil_r. reflexivity.
    - rewrite Hb. unfold py_nx_remove_edge.
      assert (E : has_arc eqb g n c = true).
      { apply (@has_arc_spec A eqb eqb_spec). apply Harc. left. reflexivity. }
      rewrite E. simpl. inversion Hnd as [|? ? Hnin Hnd']; subst.
      rewrite IH; [|exact Hnd'|].
      + unfold py_list_append. rewrite <- app_assoc. reflexivity.
      + intros c' Hc'. apply gp_del_arc_arc. split; [apply Harc; right; exact Hc'|].
        intros [_ ->]. exact (Hnin Hc').
  Qed.

  (** the loop of [identify_mediators]: state = the pruned CausalGraph *)
  Lemma gp_rm_loop_cg (n : A) (R : Type) (body : A -> digraph A -> pyctl (digraph A) R) :
    (forall c g, body c g = py_bind py_in (py_cg_remove_edge eqb g n c) (fun g' => Cont g')) ->
    forall cs g, NoDup cs -> (forall c, In c cs -> arc g n c) ->
    py_loop cs g body = Cont (del_list g n cs).
  Proof.
    intros Hb. induction cs as [|c cs IH]; intros g Hnd Harc; simpl; [reflexivity|].
    rewrite Hb. unfold py_cg_remove_edge.
    assert (E : has_arc eqb g n c = true).
    { apply (@has_arc_spec A eqb eqb_spec). apply Harc. left. reflexivity. }
    rewrite E. simpl. inversion Hnd as [|? ? Hnin Hnd']; subst.
    apply IH; [exact Hnd'|].
    intros c' Hc'. apply gp_del_arc_arc. split; [apply Harc; right; exact Hc'|].
    intros [_ ->]. exact (Hnin Hc').
  Qed.

  Lemma gp_succ_nodup k (g : digraph A) n : NoDup (py_nx_successors eqb ord k g n).
  Proof. apply gp_ord_nodup. apply (@union_nil_nodup A eqb eqb_spec). Qed.

  Lemma gp_succ_in k (g : digraph A) n c : In c (py_nx_successors eqb ord k g n) <-> arc g n c.
  Proof.
    unfold py_nx_successors. rewrite gp_ord_in, (@union_in A eqb eqb_spec), (@children_in A eqb eqb_spec).
    simpl. tauto.
  Qed.

  Lemma gp_pred_in k (g : digraph A) n p : In p (py_nx_predecessors eqb ord k g n) <-> arc g p n.
  Proof.
    unfold py_nx_predecessors. rewrite gp_ord_in, (@union_in A eqb eqb_spec), (@parents_in A eqb eqb_spec).
    simpl. tauto.
  Qed.

  Lemma gp_children_nodup k (g : digraph A) n : NoDup (py_cg_get_children eqb ord k g n).
  Proof. apply gp_ord_nodup. apply (@union_nil_nodup A eqb eqb_spec). Qed.

  Lemma gp_children_in k (g : digraph A) n c : In c (py_cg_get_children eqb ord k g n) <-> arc g n c.
  Proof.
    unfold py_cg_get_children. rewrite gp_ord_in, (@union_in A eqb eqb_spec), (@children_in A eqb eqb_spec).
    simpl. tauto.
  Qed.

  Lemma gp_parents_in k (g : digraph A) n p : In p (py_cg_get_parents eqb ord k g n) <-> arc g p n.
  Proof.
    unfold py_cg_get_parents. rewrite gp_ord_in, (@union_in A eqb eqb_spec), (@parents_in A eqb eqb_spec).
    simpl. tauto.
  Qed.

  (** the restore loop: a fold of [add_edge] *)
  Definition add_all (g : digraph A) (es : list (A * A)) : digraph A :=
    fold_left (fun g e => py_nx_add_edge eqb g (fst e) (snd e)) es g.

  Lemma add_all_verts es : forall g, verts (add_all g es) = verts g.
  Proof.
    induction es as [|e es IH]; intros g; [reflexivity|].
    unfold add_all in *. simpl. rewrite IH. apply gp_add_edge_verts.
  Qed.

  Lemma add_all_arc es : forall g a b, arc (add_all g es) a b <-> arc g a b \/ In (a, b) es.
  Proof.
    induction es as [|[u v] es IH]; intros g a b; [simpl; tauto|].
    unfold add_all in *. simpl. rewrite IH, gp_add_edge_arc. simpl.
    split.
    - intros [[H|[-> ->]]|H]; auto.
    - intros [H|[H|H]]; auto. injection H as -> ->. auto.
  Qed.

  (** * 4. [conf_search] only depends on the nodes and edges of the graph *)

  Lemma gp_collect_equiv (F F' : A -> option (list A)) l l' C :
    id_collect eqb (map F l) = Some C ->
    seteq l l' ->
    (forall p s, In p l -> F p = Some s -> exists s', F' p = Some s' /\ seteq s s') ->
    exists C', id_collect eqb (map F' l') = Some C' /\ seteq C C'.
  Proof.
    intros HC Hl HF.
    assert (Hsome : forall p, In p l -> exists s, F p = Some s).
    { intros p Hp. apply (@id_collect_all_some A eqb _ _ (F p) HC). apply in_map. exact Hp. }
    destruct (@id_collect_some A eqb (map F' l')) as [C' HC'].
    { intros o Ho. apply in_map_iff in Ho. destruct Ho as (p & <- & Hp).
      apply Hl in Hp. destruct (Hsome p Hp) as [s Hs].
      destruct (HF p s Hp Hs) as (s' & Hs' & _). rewrite Hs'. discriminate. }
    exists C'. split; [exact HC'|]. intros z.
    rewrite (@id_collect_in A eqb eqb_spec _ _ HC z), (@id_collect_in A eqb eqb_spec _ _ HC' z). split.
    - intros (s & Hs & Hz). apply in_map_iff in Hs. destruct Hs as (p & Hp & Hpl).
      destruct (HF p s Hpl Hp) as (s' & Hs' & Hss'). exists s'. split.
      + apply in_map_iff. exists p. split; [exact Hs'|apply Hl; exact Hpl].
      + apply Hss'. exact Hz.
    - intros (s' & Hs' & Hz). apply in_map_iff in Hs'. destruct Hs' as (p & Hp & Hpl').
      apply Hl in Hpl'. destruct (Hsome p Hpl') as [s Hs].
      destruct (HF p s Hpl' Hs) as (s'' & Hs'' & Hss'). exists s. split.
      + apply in_map_iff. exists p. split; [exact Hs|exact Hpl'].
      + apply Hss'. congruence.
  Qed.

  Lemma gp_conf_search_geq fuel : forall (G G' : digraph A) n1 n2 C,
    wf G -> geq G G' -> conf_search eqb fuel G n1 n2 = Some C ->
    exists C', conf_search eqb fuel G' n1 n2 = Some C' /\ seteq C C'.
  Proof.
    induction fuel as [|fuel IH]; intros G G' n1 n2 C Hwf Hg HC; [discriminate|].
    rewrite id_conf_search_S in HC. rewrite id_conf_search_S.
    set (G1 := del_arcs_from eqb G [n1; n2]) in *.
    set (G1' := del_arcs_from eqb G' [n1; n2]).
    assert (Hg1 : geq G1 G1') by (apply geq_del; exact Hg).
    assert (Hwf1 : wf G1) by (apply (@del_arcs_wf A eqb eqb_spec); exact Hwf).
    eapply gp_collect_equiv; [exact HC|apply geq_parents; exact Hg1|].
    intros p s _ Hs. cbv beta in Hs |- *.
    rewrite <- (@gp_memb_seteq p _ _ (geq_anc n2 Hg1 Hwf1)).
    destruct (memb eqb p (anc eqb G1 n2)).
    - exists s. split; [exact Hs|tauto].
    - exact (IH G1 G1' p n2 s Hwf1 Hg1 Hs).
  Qed.

  (** * 5. The nested helper of [identify_confounders] *)

  Local Notation gen_helper :=
    (gen__identify_confounders_no_checks_no_descendant_pruning_networkx eqb ord).

  (** The specification proved by induction on the fuel: on a well-formed graph on which the
      model search succeeds, the generated helper returns normally, the graph it returns has the
      nodes and edges of the graph it was given, and the set it returns is the model's. *)
  Definition helper_spec (fuel : nat) : Prop :=
    forall (G : digraph A) n1 n2 C,
      wf G -> conf_search eqb fuel G n1 n2 = Some C ->
      exists G' R, gen_helper fuel G n1 n2 = Ret (G', R) /\ geq G G' /\ seteq R C.

  (** the loop over the predecessors of [n1] *)
  Lemma gp_parents_loop fuel (Gm : digraph A) (n2 : A)
        (body : A -> digraph A * list A -> pyctl (digraph A * list A) (digraph A * list A)) :
    helper_spec fuel -> wf Gm ->
    (forall p g conf, body p (g, conf) =
       if memb eqb p (py_nx_ancestors eqb g n2)
       then Cont (g, py_set_add eqb conf p)
       else py_bind py_in (gen_helper fuel g p n2)
              (fun '(g', t) => Cont (g', py_union eqb conf (py_set_of eqb t)))) ->
    forall ps g conf,
      wf g -> geq g Gm ->
      (forall p, In p ps ->
         exists s, (if memb eqb p (anc eqb Gm n2) then Some [p]
                    else conf_search eqb fuel Gm p n2) = Some s) ->
      exists g' conf',
        py_loop ps (g, conf) body = Cont (g', conf') /\ wf g' /\ geq g' Gm /\
        forall z, In z conf' <->
                  In z conf \/
                  exists p s, In p ps /\
                    (if memb eqb p (anc eqb Gm n2) then Some [p]
                     else conf_search eqb fuel Gm p n2) = Some s /\ In z s.
  Proof.
    intros IH Hwfm Hb. induction ps as [|p ps IHps]; intros g conf Hwf Hg Hall.
    - exists g, conf. simpl. split; [reflexivity|]. split; [exact Hwf|]. split; [exact Hg|].
      intros z. split; [auto|]. intros [H|(p & s & [] & _)]. exact H.
    - simpl. rewrite Hb. unfold py_nx_ancestors.
      rewrite (@gp_memb_seteq p _ _ (geq_anc n2 Hg Hwf)).
      destruct (Hall p (or_introl eq_refl)) as [s Hs].
      destruct (memb eqb p (anc eqb Gm n2)) eqn:Em.
      + injection Hs as <-.
        destruct (IHps g (py_set_add eqb conf p) Hwf Hg) as (g' & conf' & Hl & Hwf' & Hg' & Hin).
        { intros q Hq. apply Hall. right. exact Hq. }
        exists g', conf'. split; [exact Hl|]. split; [exact Hwf'|]. split; [exact Hg'|].
        intros z. rewrite Hin, gp_set_add_in. split.
        * intros [[H| ->]|(q & s & Hq & Hs & Hz)].
          -- left. exact H.
          -- right. exists p, [p]. split; [left; reflexivity|]. rewrite Em.
             split; [reflexivity|left; reflexivity].
          -- right. exists q, s. split; [right; exact Hq|]. split; assumption.
        * intros [H|(q & s & [<-|Hq] & Hs & Hz)].
          -- left. left. exact H.
          -- rewrite Em in Hs. injection Hs as <-. destruct Hz as [<-|[]]. left. right. reflexivity.
          -- right. exists q, s. split; [exact Hq|]. split; assumption.
      + destruct (gp_conf_search_geq fuel p n2 Hwfm (geq_sym Hg) Hs) as (s' & Hs' & Hss').
        destruct (IH g p n2 s' Hwf Hs') as (g1 & R1 & Hgen & Hg1 & HR1).
        rewrite Hgen. simpl.
        assert (Hwf1 : wf g1) by exact (geq_wf Hg1 Hwf).
        assert (Hg1m : geq g1 Gm) by exact (geq_trans (geq_sym Hg1) Hg).
        destruct (IHps g1 (py_union eqb conf (py_set_of eqb R1)) Hwf1 Hg1m)
          as (g' & conf' & Hl & Hwf' & Hg' & Hin).
        { intros q Hq. apply Hall. right. exact Hq. }
        exists g', conf'. split; [exact Hl|]. split; [exact Hwf'|]. split; [exact Hg'|].
        intros z. rewrite Hin, gp_union_in, gp_set_of_in. split.
        * intros [[H|H]|(q & t & Hq & Ht & Hz)].
          -- left. exact H.
          -- right. exists p, s. split; [left; reflexivity|]. rewrite Em.
             split; [exact Hs|]. apply Hss', HR1. exact H.
          -- right. exists q, t. split; [right; exact Hq|]. split; assumption.
        * intros [H|(q & t & [<-|Hq] & Ht & Hz)].
          -- left. left. exact H.
          -- rewrite Em in Ht. left. right. apply HR1, Hss'. congruence.
          -- right. exists q, t. split; [exact Hq|]. split; assumption.
  Qed.

  Lemma gen_helper_spec fuel : helper_spec fuel.
  Proof.
    induction fuel as [|fuel IH]; intros G n1 n2 C Hwf HC; [discriminate|].
    rewrite id_conf_search_S in HC.
    set (Gm := del_arcs_from eqb G [n1; n2]) in *.
    assert (Hwfm : wf Gm) by (apply (@del_arcs_wf A eqb eqb_spec); exact Hwf).
    cbn [gen__identify_confounders_no_checks_no_descendant_pruning_networkx].
    unfold py_top at 1. rewrite py_for_loop. unfold py_list at 1.
    (* first loop: the edges leaving n1 *)
    rewrite (@gp_rm_loop_nx n1 _ _ (fun _ _ _ => eq_refl) _ G py_list_empty (gp_succ_nodup _ G n1)
               (fun c Hc => proj1 (gp_succ_in _ G n1 c) Hc)).
    match goal with |- context [del_list G n1 ?cs] => set (cs1 := cs) end.
    set (G1 := del_list G n1 cs1).
    assert (HG1 : forall a b, arc G1 a b <-> arc G a b /\ a <> n1)
      by (intros a b; apply del_list_children; intros c; apply gp_succ_in).
    (* second loop: the edges leaving n2 *)
    rewrite py_for_loop. unfold py_list at 1.
    rewrite (@gp_rm_loop_nx n2 _ _ (fun _ _ _ => eq_refl) _ G1 _ (gp_succ_nodup _ G1 n2)
               (fun c Hc => proj1 (gp_succ_in _ G1 n2 c) Hc)).
    match goal with |- context [del_list G1 n2 ?cs] => set (cs2 := cs) end.
    set (G2 := del_list G1 n2 cs2).
    assert (HG2 : forall a b, arc G2 a b <-> arc G a b /\ a <> n1 /\ a <> n2).
    { intros a b. unfold G2.
      rewrite (@del_list_children G1 n2 cs2 a b (fun c => gp_succ_in _ G1 n2 c)), HG1. tauto. }
    assert (Hv2 : verts G2 = verts G).
    { unfold G2, G1. rewrite !del_list_verts. reflexivity. }
    assert (Hg2m : geq G2 Gm).
    { split; [exact Hv2|]. intros a b. unfold Gm.
      rewrite HG2, (@del_arcs_arc A eqb eqb_spec). simpl. intuition congruence. }
    assert (Hwf2 : wf G2) by exact (geq_wf (geq_sym Hg2m) Hwfm).
    set (re := py_list_empty ++ map (pair n1) cs1 ++ map (pair n2) cs2).
    rewrite <- app_assoc. fold re.
    (* third loop: the predecessors of n1 *)
    rewrite py_for_loop. unfold py_list at 1.
    match goal with |- context [py_loop ?ps _ ?b] =>
      destruct (@gp_parents_loop fuel Gm n2 b IH Hwfm (fun _ _ _ => eq_refl)
                  ps G2 py_set_empty Hwf2 Hg2m)
        as (G3 & conf & Hloop & Hwf3 & Hg3m & Hconf)
    end.
    { intros p Hp. apply (proj1 (gp_pred_in _ G2 n1 p)) in Hp.
      apply (@id_collect_all_some A eqb _ _ _ HC).
      apply (in_map (fun p => if memb eqb p (anc eqb Gm n2) then Some [p]
                              else conf_search eqb fuel Gm p n2)).
      apply (@parents_in A eqb eqb_spec). apply Hg2m. exact Hp. }
    rewrite Hloop.
    (* fourth loop: the removed edges are put back *)
    rewrite py_for_loop.
    rewrite (@py_loop_fold _ _ _ (fun e g => py_nx_add_edge eqb g (fst e) (snd e)) re G3 _
               (fun _ _ => eq_refl)).
    fold (add_all G3 re). unfold py_top.
    exists (add_all G3 re), conf. split; [reflexivity|]. split.
    - (* the restore really restores *)
      split; [rewrite add_all_verts; rewrite (proj1 Hg3m); reflexivity|].
      intros a b. rewrite add_all_arc, (proj2 Hg3m a b).
      unfold Gm. rewrite (@del_arcs_arc A eqb eqb_spec). unfold re, py_list_empty. simpl.
      rewrite in_app_iff, !in_map_iff. split.
      + intros Hab.
        destruct (eqb_spec a n1) as [->|Hn1].
        { right. left. exists b. split; [reflexivity|]. apply (proj2 (gp_succ_in _ G n1 b)). exact Hab. }
        destruct (eqb_spec a n2) as [->|Hn2].
        { right. right. exists b. split; [reflexivity|]. apply (proj2 (gp_succ_in _ G1 n2 b)), HG1.
          split; assumption. }
        left. split; [exact Hab|]. intros [H|[H|[]]]; congruence.
      + intros [[Hab _]|[(c & Hc & Hin)|(c & Hc & Hin)]]; [exact Hab| |].
        * injection Hc as <- <-. exact (proj1 (gp_succ_in _ G n1 c) Hin).
        * injection Hc as <- <-. apply (proj1 (gp_succ_in _ G1 n2 c)), HG1 in Hin. tauto.
    - (* the set is the model's *)
      intros z. rewrite Hconf. unfold py_set_empty.
      rewrite (@id_collect_in A eqb eqb_spec _ _ HC z). split.
      + intros [[]|(p & s & Hp & Hs & Hz)]. exists s. split; [|exact Hz].
        apply in_map_iff. exists p. split; [exact Hs|].
        apply (@parents_in A eqb eqb_spec), Hg2m. exact (proj1 (gp_pred_in _ G2 n1 p) Hp).
      + intros (s & Hs & Hz). right. apply in_map_iff in Hs. destruct Hs as (p & Hs & Hp).
        exists p, s. split; [|split; assumption].
        apply (proj2 (gp_pred_in _ G2 n1 p)), Hg2m, (@parents_in A eqb eqb_spec). exact Hp.
  Qed.

  (** * 6. [_verify_identify_inputs] and [identify_confounders] *)

  Variables py_None py_empty_str : A.

  Local Notation gen_verify := (gen__verify_identify_inputs eqb py_None py_empty_str).
  Local Notation gen_conf := (gen_identify_confounders eqb py_None py_empty_str ord).
  Local Notation gen_med := (gen_identify_mediators eqb py_None py_empty_str ord).
  Local Notation gen_inst := (gen_identify_instruments eqb py_None py_empty_str ord).

  (** On a DAG and two distinct nodes of it the checks pass. *)
  Lemma gen_verify_ok (g : digraph A) x y :
    wf g -> acyclic g -> In x (verts g) -> In y (verts g) -> x <> y -> y <> py_None ->
    gen_verify g x y = Ret (x, y).
  Proof.
    intros Hwf Hac Hx Hy Hxy Hnone. unfold gen__verify_identify_inputs.
    unfold py_cg_is_dag, py_cg_node_exists.
    rewrite (proj2 (@acyclicb_spec A eqb eqb_spec g Hwf) Hac).
    rewrite (proj2 (gp_memb_in x (verts g)) Hx), (proj2 (gp_memb_in y (verts g)) Hy).
    destruct (eqb_spec y py_None) as [E|_]; [contradiction|]. simpl.
    destruct (eqb_spec x y) as [E|_]; [contradiction|].
    reflexivity.
  Qed.

  (** What the checks do in general (the first failing check decides). *)
  Lemma gen_verify_cases (g : digraph A) x y :
    gen_verify g x y =
    if negb (acyclicb eqb g) then Exc PyTypeError
    else if negb (memb eqb x (verts g)) then Exc PyNodeDoesNotExistError
    else if negb (eqb y py_None) && negb (memb eqb y (verts g)) then Exc PyNodeDoesNotExistError
    else if eqb x (if negb (eqb y py_None) then y else py_empty_str) || eqb x y then Exc PyValueError
    else Ret (x, if negb (eqb y py_None) then y else py_empty_str).
  Proof.
    unfold gen__verify_identify_inputs, py_cg_is_dag, py_cg_node_exists, py_top.
    destruct (acyclicb eqb g); simpl; [|reflexivity].
    destruct (memb eqb x (verts g)); simpl; [|reflexivity].
    destruct (negb (eqb y py_None) && negb (memb eqb y (verts g))); reflexivity.
  Qed.

  Theorem gen_confounders_equiv (g : digraph A) x y fuel :
    wf g -> acyclic g -> In x (verts g) -> In y (verts g) -> x <> y -> y <> py_None ->
    length (verts g) + 1 <= fuel ->
    exists R C, gen_conf fuel g x y = Ret R /\ confounders eqb g x y = Some C /\ seteq R C.
  Proof.
    intros Hwf Hac Hx Hy Hxy Hnone Hfuel.
    unfold gen_identify_confounders.
    rewrite (gen_verify_ok Hwf Hac Hx Hy Hxy Hnone). cbn [py_bind]. unfold py_cg_to_networkx.
    unfold confounders, conf_fuel.
    destruct (conf_search eqb (length (verts g) + 1) g x y) as [c1|] eqn:E1;
      [|exfalso; exact (@conf_search_fuel A eqb eqb_spec g x y Hwf Hac E1)].
    destruct (conf_search eqb (length (verts g) + 1) g y x) as [c2|] eqn:E2;
      [|exfalso; exact (@conf_search_fuel A eqb eqb_spec g y x Hwf Hac E2)].
    pose proof (conf_search_mono eqb _ _ _ Hfuel E1) as E1'.
    pose proof (conf_search_mono eqb _ _ _ Hfuel E2) as E2'.
    destruct (@gen_helper_spec fuel g x y c1 Hwf E1') as (G1 & R1 & Hgen1 & Hg1 & HR1).
    rewrite Hgen1. cbn [py_bind].
    destruct (gp_conf_search_geq fuel y x Hwf Hg1 E2') as (c2' & E2'' & Hc2).
    destruct (@gen_helper_spec fuel G1 y x c2' (geq_wf Hg1 Hwf) E2'') as (G2 & R2 & Hgen2 & Hg2 & HR2).
    rewrite Hgen2. cbn [py_bind]. unfold py_top, py_list.
    eexists. exists (inter eqb c1 c2).
    split; [reflexivity|]. split; [reflexivity|].
    intros z. rewrite gp_iter_set_in, gp_inter_in, (@inter_in A eqb eqb_spec), HR1, HR2, Hc2. tauto.
  Qed.

  (** * 7. Loops that filter a set in place while iterating over a snapshot of it *)

  Lemma gp_filter_neq_in (c y : A) s : In y (filter (fun y => negb (eqb y c)) s) <-> In y s /\ y <> c.
  Proof.
    rewrite filter_In, negb_true_iff. destruct (eqb_spec y c); intuition congruence.
  Qed.

  (** [for c in snapshot: if cond(c): s.remove(c)]: never a KeyError, and the result is the
      filtered set.  The shape of the body is only required for the items of the snapshot that
      are still in the set (which is all the loop ever evaluates it on). *)
  Lemma gp_filter_loop (R : Type) (cond : A -> bool) (body : A -> list A -> pyctl (list A) R) :
    forall snap s,
      (forall c s, In c snap -> In c s ->
         body c s = if cond c then py_bind py_in (py_set_remove eqb s c) (fun s' => Cont s')
                    else Cont s) ->
      NoDup snap -> incl snap s ->
      exists s', py_loop snap s body = Cont s' /\
                 (NoDup s -> NoDup s') /\
                 forall y, In y s' <-> In y s /\ ~ (In y snap /\ cond y = true).
  Proof.
    induction snap as [|c snap IH]; intros s Hb Hnd Hincl.
    - exists s. simpl. split; [reflexivity|]. split; [auto|]. intros y. tauto.
    - inversion Hnd as [|? ? Hnin Hnd']; subst.
      assert (Hcs : In c s) by (apply Hincl; left; reflexivity).
      simpl. rewrite (Hb c s (or_introl eq_refl) Hcs).
      destruct (cond c) eqn:Ec.
      + unfold py_set_remove. rewrite (proj2 (gp_memb_in c s) Hcs). cbn [py_bind].
        destruct (IH (filter (fun y => negb (eqb y c)) s)) as (s' & Hl & Hnd1 & Hin).
        * intros c' s0 Hc' Hs0. apply Hb; [right; exact Hc'|exact Hs0].
        * exact Hnd'.
        * intros y Hy. apply gp_filter_neq_in. split; [apply Hincl; right; exact Hy|].
          intros ->. exact (Hnin Hy).
        * exists s'. split; [exact Hl|]. split.
          -- intros Hs. apply Hnd1. apply NoDup_filter. exact Hs.
          -- intros y. rewrite Hin, gp_filter_neq_in. split.
             ++ intros [[Hy Hne] Hn]. split; [exact Hy|].
                intros [[Heq|Hys] Hc]; [congruence|]. apply Hn. split; assumption.
             ++ intros [Hy Hn]. split; [split; [exact Hy|]|].
                ** intros ->. apply Hn. split; [left; reflexivity|exact Ec].
                ** intros [Hys Hc]. apply Hn. split; [right; exact Hys|exact Hc].
      + destruct (IH s) as (s' & Hl & Hnd1 & Hin).
        * intros c' s0 Hc' Hs0. apply Hb; [right; exact Hc'|exact Hs0].
        * exact Hnd'.
        * intros y Hy. apply Hincl. right. exact Hy.
        * exists s'. split; [exact Hl|]. split; [exact Hnd1|].
          intros y. rewrite Hin. split.
          -- intros [Hy Hn]. split; [exact Hy|].
             intros [[Heq|Hys] Hc]; [congruence|]. apply Hn. split; assumption.
          -- intros [Hy Hn]. split; [exact Hy|].
             intros [Hys Hc]. apply Hn. split; [right; exact Hys|exact Hc].
  Qed.

  (** The snapshot is a copy of the set itself, iterated in the order chosen by the oracle. *)
  Lemma gp_filter_copy (R : Type) (cond : A -> bool) (body : A -> list A -> pyctl (list A) R) k s :
    (forall c s', In c s -> In c s' ->
       body c s' = if cond c then py_bind py_in (py_set_remove eqb s' c) (fun s'' => Cont s'')
                   else Cont s') ->
    NoDup s ->
    exists s', py_loop (py_iter_set ord k (py_copy s)) s body = Cont s' /\ NoDup s' /\
               forall y, In y s' <-> In y s /\ cond y = false.
  Proof.
    intros Hb Hnd. unfold py_copy.
    destruct (@gp_filter_loop R cond body (py_iter_set ord k s) s) as (s' & Hl & Hnd' & Hin).
    - intros c s' Hc Hcs'. apply Hb; [apply (gp_iter_set_in k s c); exact Hc|exact Hcs'].
    - apply gp_iter_set_nodup. exact Hnd.
    - intros y Hy. apply (gp_iter_set_in k s y). exact Hy.
    - exists s'. split; [exact Hl|]. split; [exact (Hnd' Hnd)|].
      intros y. rewrite Hin, gp_iter_set_in. destruct (cond y); intuition congruence.
  Qed.

  (** [for z in zs: for c in s.copy(): if cond(z, c): s.remove(c)] *)
  Lemma gp_filter_outer (R : Type) (cond : A -> A -> bool) (body : A -> list A -> pyctl (list A) R) k :
    (forall z s, body z s =
       py_for py_in (py_iter_set ord k (py_copy s)) s
         (fun c s' => if cond z c then py_bind py_in (py_set_remove eqb s' c) (fun s'' => Cont s'')
                      else Cont s')
         (fun s' => Cont s')) ->
    forall zs s, NoDup s ->
      exists s', py_loop zs s body = Cont s' /\ NoDup s' /\
                 forall y, In y s' <-> In y s /\ forall z, In z zs -> cond z y = false.
  Proof.
    intros Hb. induction zs as [|z zs IH]; intros s Hnd.
    - exists s. simpl. split; [reflexivity|]. split; [exact Hnd|].
      intros y. split; [intros H; split; [exact H|intros z []]|tauto].
    - simpl. rewrite Hb, py_for_loop.
      destruct (@gp_filter_copy R (cond z) _ k s (fun c s' _ _ => eq_refl) Hnd) as (s1 & Hl & Hnd1 & Hin1).
      rewrite Hl.
      destruct (IH s1 Hnd1) as (s' & Hl' & Hnd' & Hin').
      exists s'. split; [exact Hl'|]. split; [exact Hnd'|].
      intros y. rewrite Hin', Hin1. split.
      + intros [[Hy Hz] Hall]. split; [exact Hy|]. intros z' [<-|Hz']; [exact Hz|apply Hall; exact Hz'].
      + intros [Hy Hall]. split; [split; [exact Hy|apply Hall; left; reflexivity]|].
        intros z' Hz'. apply Hall. right. exact Hz'.
  Qed.

  Lemma gp_forallb_ord (X : Type) (f : X -> bool) k (l : list X) :
    forallb f (@ord X k l) = forallb f l.
  Proof.
    destruct (forallb f l) eqn:E.
    - apply forallb_forall. intros x Hx. apply gp_ord_in in Hx.
      exact (proj1 (forallb_forall f l) E x Hx).
    - destruct (forallb f (@ord X k l)) eqn:E'; [|reflexivity]. exfalso.
      assert (Hall : forallb f l = true).
      { apply forallb_forall. intros x Hx. apply (proj1 (forallb_forall f _) E').
        apply gp_ord_in. exact Hx. }
      congruence.
  Qed.

  Lemma gp_forall_map (X Y : Type) (f : X -> Y) (P : Y -> Prop) (l : list X) :
    (forall y, In y (map f l) -> P y) <-> (forall x, In x l -> P (f x)).
  Proof.
    split.
    - intros H x Hx. apply H. apply in_map. exact Hx.
    - intros H y Hy. apply in_map_iff in Hy. destruct Hy as (x & <- & Hx). apply H. exact Hx.
  Qed.

  (** * 8. [identify_mediators] *)

  (** the loop over [enumerate(get_all_causal_paths(source, destination))] *)
  Lemma gp_med_paths_loop (R : Type) (mx : nat)
        (body : nat * list A -> list (list A) -> pyctl (list (list A)) R) :
    (forall i p cps, body (i, p) cps =
       if Nat.ltb mx i then py_in (Exc PyValueError)
       else if Nat.ltb 2 (length p) then Cont (py_list_append cps (py_set_of eqb p))
       else Cont cps) ->
    forall l i cps,
      (i + length l <= mx + 1 ->
       py_loop (combine (seq i (length l)) l) cps body =
       Cont (cps ++ map (py_set_of eqb) (filter (fun p => Nat.ltb 2 (length p)) l))) /\
      (i <= mx + 1 -> mx + 1 < i + length l ->
       py_loop (combine (seq i (length l)) l) cps body = Done (Exc PyValueError)).
  Proof.
    intros Hb. induction l as [|p l IH]; intros i cps; simpl.
    - split; [intros _; rewrite app_nil_r; reflexivity|intros H1 H2; lia].
    - rewrite Hb. split.
      + intros Hle. assert (E : Nat.ltb mx i = false) by (apply Nat.ltb_ge; lia). rewrite E.
        destruct (Nat.ltb 2 (length p)).
        * rewrite (proj1 (IH (S i) _)); [|lia]. unfold py_list_append. simpl.
          rewrite <- app_assoc. reflexivity.
        * apply (proj1 (IH (S i) cps)). lia.
      + intros H1 H2. destruct (Nat.ltb mx i) eqn:E; [reflexivity|].
        apply Nat.ltb_ge in E.
        destruct (Nat.ltb 2 (length p)); apply (proj2 (IH (S i) _)); lia.
  Qed.

  Lemma gp_fold_inter_all (rest : list (list A)) p0 m :
    In m (fold_left (inter eqb) rest p0) <-> forall q, In q (p0 :: rest) -> In m q.
  Proof.
    rewrite (@id_fold_inter_in A eqb eqb_spec). split.
    - intros [H0 Hr] q [<-|Hq]; [exact H0|apply Hr; exact Hq].
    - intros H. split; [apply H; left; reflexivity|]. intros q Hq. apply H. right. exact Hq.
  Qed.

  Lemma gp_fold_inter_nodup (rest : list (list A)) : forall p0, NoDup p0 -> NoDup (fold_left (inter eqb) rest p0).
  Proof.
    induction rest as [|q rest IH]; intros p0 Hnd; simpl; [exact Hnd|].
    apply IH. apply inter_nodup. exact Hnd.
  Qed.

  (** The guard: [get_all_causal_paths(source, destination)] has at most [max_num_paths + 1]
      elements (the Python code raises ValueError at the index [max_num_paths + 1]). *)
  Theorem gen_mediators_equiv (g : digraph A) s d fuel mx ps :
    wf g -> acyclic g -> In s (verts g) -> In d (verts g) -> s <> d -> d <> py_None ->
    length (verts g) + 1 <= fuel ->
    id_all_paths eqb g s d = Some ps ->
    (memb eqb d (anc eqb g s) = false -> length ps <= mx + 1) ->
    exists R M, gen_med fuel g s d mx = Ret R /\ mediators eqb g s d = Some M /\ seteq R M.
  Proof.
    intros Hwf Hac Hs Hd Hsd Hnone Hfuel Eps Hguard.
    unfold gen_identify_mediators, mediators.
    rewrite (gen_verify_ok Hwf Hac Hs Hd Hsd Hnone). cbn [py_bind]. unfold py_cg_get_ancestors.
    destruct (memb eqb d (anc eqb g s)) eqn:Ed.
    { exists py_list_empty, []. split; [reflexivity|]. split; [reflexivity|]. intros z. tauto. }
    specialize (Hguard eq_refl).
    destruct (gen_confounders_equiv Hwf Hac Hs Hd Hsd Hnone Hfuel) as (RC & C & HgenC & HC & HRC).
    rewrite HgenC, HC. cbn [py_bind].
    unfold py_cg_get_all_causal_paths. rewrite Eps. cbn [py_bind].
    match goal with |- context [py_enumerate ?l] => set (ps' := l) end.
    assert (Hps' : forall p, In p ps' <-> In p ps) by (intros p; apply gp_ord_in).
    assert (Hlen' : length ps' = length ps) by apply gp_ord_length.
    rewrite py_for_loop. unfold py_enumerate.
    rewrite (proj1 (@gp_med_paths_loop _ mx _ (fun _ _ _ => eq_refl) ps' 0 py_list_empty)); [|simpl; lia].
    unfold py_list_empty. cbn [app].
    assert (Hlong : forall p, In p (filter (fun p => Nat.ltb 2 (length p)) ps') <->
                              In p (filter (fun p => Nat.ltb 2 (length p)) ps)).
    { intros p. rewrite !filter_In, Hps'. tauto. }
    destruct (filter (fun p => Nat.ltb 2 (length p)) ps') as [|p0 rest] eqn:Elong.
    { destruct (filter (fun p => Nat.ltb 2 (length p)) ps) as [|q0 qrest].
      - exists [], []. split; [reflexivity|]. split; [reflexivity|]. intros z. tauto.
      - exfalso. apply (proj2 (Hlong q0)). left. reflexivity. }
    destruct (filter (fun p => Nat.ltb 2 (length p)) ps) as [|q0 qrest] eqn:Elongm.
    { exfalso. apply (proj1 (Hlong p0)). left. reflexivity. }
    cbn [map length Nat.eqb]. cbn [py_set_intersection_star py_bind].
    unfold py_cg_copy.
    (* the pruned graph *)
    rewrite py_for_loop.
    rewrite (@gp_rm_loop_cg s _ _ (fun _ _ => eq_refl) _ g
               (gp_children_nodup _ g s) (fun c Hc => proj1 (gp_children_in _ g s c) Hc)).
    match goal with |- context [del_list g s ?cs] => set (Gp := del_list g s cs) end.
    set (pg := del_arcs_from eqb g [s]).
    assert (Hgp : geq Gp pg).
    { split; [unfold Gp; rewrite del_list_verts; reflexivity|].
      intros a b. unfold Gp, pg.
      rewrite (@del_list_children g s _ a b (fun c => gp_children_in _ g s c)),
        (@del_arcs_arc A eqb eqb_spec). simpl. intuition congruence. }
    assert (Hwfpg : wf pg) by (apply (@del_arcs_wf A eqb eqb_spec); exact Hwf).
    assert (Hwfgp : wf Gp) by exact (geq_wf (geq_sym Hgp) Hwfpg).
    (* the candidate set *)
    match goal with |- context [py_for py_top RC ?c0 _ _] => set (cand := c0) end.
    assert (Hcnd : NoDup cand).
    { unfold cand. apply gp_fold_inter_nodup. apply diff_nodup. apply gp_set_of_nodup. }
    rewrite py_for_loop.
    match goal with |- context [py_loop RC cand ?b] =>
      destruct (@gp_filter_outer _ (fun z c => memb eqb c (py_cg_get_descendants eqb Gp z)) b _
                  (fun _ _ => eq_refl) RC cand Hcnd) as (s' & Hl & _ & Hin)
    end.
    rewrite Hl. unfold py_top, py_list.
    eexists. eexists. split; [reflexivity|]. split; [reflexivity|].
    intros m. rewrite gp_iter_set_in, Hin, filter_In. unfold cand.
    rewrite !gp_fold_inter_all.
    assert (Hstrip : forall p, In m (py_diff eqb (py_set_of eqb p) (py_set_of eqb [s; d])) <->
                               In m (filter (fun v => negb (eqb v s) && negb (eqb v d)) p)).
    { intros p. rewrite gp_diff_in, !gp_set_of_in, filter_In, andb_true_iff, !negb_true_iff.
      simpl. destruct (eqb_spec m s), (eqb_spec m d); intuition congruence. }
    assert (H1 : (forall q, In q (py_diff eqb (py_set_of eqb p0) (py_set_of eqb [s; d])
                              :: map (fun v_path => py_diff eqb v_path (py_set_of eqb [s; d]))
                                   (map (py_set_of eqb) rest)) -> In m q) <->
                 (forall q, In q (filter (fun v => negb (eqb v s) && negb (eqb v d)) q0
                              :: map (filter (fun v => negb (eqb v s) && negb (eqb v d))) qrest) -> In m q)).
    { rewrite map_map.
      change (py_diff eqb (py_set_of eqb p0) (py_set_of eqb [s; d])
                :: map (fun x => py_diff eqb (py_set_of eqb x) (py_set_of eqb [s; d])) rest)
        with (map (fun x => py_diff eqb (py_set_of eqb x) (py_set_of eqb [s; d])) (p0 :: rest)).
      change (filter (fun v => negb (eqb v s) && negb (eqb v d)) q0
                :: map (filter (fun w => negb (eqb w s) && negb (eqb w d))) qrest)
        with (map (filter (fun u => negb (eqb u s) && negb (eqb u d))) (q0 :: qrest)).
      rewrite !gp_forall_map. split.
      - intros H p Hp. apply Hstrip, H, Hlong. exact Hp.
      - intros H p Hp. apply Hstrip, H, Hlong. exact Hp. }
    rewrite H1.
    assert (H2 : (forall z, In z RC -> memb eqb m (py_cg_get_descendants eqb Gp z) = false) <->
                 negb (existsb (fun z => memb eqb m (desc eqb pg z)) C) = true).
    { rewrite (@id_negb_existsb A _ C). unfold py_cg_get_descendants. split.
      - intros H z Hz. rewrite <- (@gp_memb_seteq m _ _ (geq_desc z Hgp Hwfgp)). apply H, HRC. exact Hz.
      - intros H z Hz. rewrite (@gp_memb_seteq m _ _ (geq_desc z Hgp Hwfgp)). apply H, HRC. exact Hz. }
    rewrite H2. tauto.
  Qed.

  (** When the guard fails the Python function raises ValueError (the model ignores the limit). *)
  Theorem gen_mediators_raises (g : digraph A) s d fuel mx ps :
    wf g -> acyclic g -> In s (verts g) -> In d (verts g) -> s <> d -> d <> py_None ->
    length (verts g) + 1 <= fuel ->
    id_all_paths eqb g s d = Some ps ->
    memb eqb d (anc eqb g s) = false -> mx + 1 < length ps ->
    gen_med fuel g s d mx = Exc PyValueError.
  Proof.
    intros Hwf Hac Hs Hd Hsd Hnone Hfuel Eps Ed Hlen.
    unfold gen_identify_mediators.
    rewrite (gen_verify_ok Hwf Hac Hs Hd Hsd Hnone). cbn [py_bind]. unfold py_cg_get_ancestors.
    rewrite Ed.
    destruct (gen_confounders_equiv Hwf Hac Hs Hd Hsd Hnone Hfuel) as (RC & C & HgenC & HC & HRC).
    rewrite HgenC. cbn [py_bind].
    unfold py_cg_get_all_causal_paths. rewrite Eps. cbn [py_bind].
    match goal with |- context [py_enumerate ?l] => set (ps' := l) end.
    assert (Hlen' : length ps' = length ps) by apply gp_ord_length.
    rewrite py_for_loop. unfold py_enumerate.
    rewrite (proj2 (@gp_med_paths_loop _ mx _ (fun _ _ _ => eq_refl) ps' 0 py_list_empty)); [|lia|simpl; lia].
    reflexivity.
  Qed.

  (** * 9. [identify_instruments] *)

  (** the loop over [enumerate(get_all_causal_paths(candidate, destination))], which removes the
      candidate and breaks at the first path that avoids the source *)
  Lemma gp_inst_paths_loop (R : Type) (mx : nat) (c src : A)
        (body : nat * list A -> list A -> pyctl (list A) R) :
    (forall i p st, body (i, p) st =
       if Nat.ltb mx i then py_in (Exc PyValueError)
       else if negb (memb eqb src p)
            then py_bind py_in (py_set_remove eqb st c) (fun st' => Brk st')
            else Cont st) ->
    forall l i st, In c st ->
      (i + length l <= mx + 1 ->
       py_loop (combine (seq i (length l)) l) st body =
       Cont (if forallb (fun p => memb eqb src p) l then st
             else filter (fun y => negb (eqb y c)) st)) /\
      (forallb (fun p => memb eqb src p) l = true -> i <= mx + 1 -> mx + 1 < i + length l ->
       py_loop (combine (seq i (length l)) l) st body = Done (Exc PyValueError)).
  Proof.
    intros Hb. induction l as [|p l IH]; intros i st Hc; simpl.
    - split; [reflexivity|intros _ H1 H2; lia].
    - rewrite Hb. split.
      + intros Hle. assert (E : Nat.ltb mx i = false) by (apply Nat.ltb_ge; lia). rewrite E.
        destruct (memb eqb src p); simpl.
        * apply (proj1 (IH (S i) st Hc)). lia.
        * unfold py_set_remove. rewrite (proj2 (gp_memb_in c st) Hc). reflexivity.
      + intros Hall H1 H2. apply andb_true_iff in Hall. destruct Hall as [Hp Hall].
        destruct (Nat.ltb mx i) eqn:E; [reflexivity|]. apply Nat.ltb_ge in E.
        rewrite Hp. simpl. apply (proj2 (IH (S i) st Hc)); [exact Hall|lia|lia].
  Qed.

  (** The candidates that reach the enumeration of causal paths (the model's [cand1]). *)
  Definition gp_cand1 (g : digraph A) (s : A) (C : list A) : list A :=
    filter (fun c => negb (existsb (fun z => memb eqb c (desc eqb g z) || memb eqb c (anc eqb g z)) C))
           (diff eqb (anc eqb g s) C).

  (** The guard: no candidate that reaches the enumeration of causal paths has more than
      [max_num_paths + 1] causal paths to the destination. *)
  Definition gp_inst_guard (g : digraph A) (s d : A) (mx : nat) : Prop :=
    forall C c ps, confounders eqb g s d = Some C -> In c (gp_cand1 g s C) ->
                   id_all_paths eqb g c d = Some ps -> length ps <= mx + 1.

  Theorem gen_instruments_equiv (g : digraph A) s d fuel mx :
    wf g -> acyclic g -> In s (verts g) -> In d (verts g) -> s <> d -> d <> py_None ->
    length (verts g) + 1 <= fuel ->
    gp_inst_guard g s d mx ->
    exists R Is, gen_inst fuel g s d mx = Ret R /\ instruments eqb g s d = Some Is /\ seteq R Is.
  Proof.
    intros Hwf Hac Hs Hd Hsd Hnone Hfuel Hguard.
    destruct (@instruments_some A eqb eqb_spec g s d Hwf Hac) as [I HI].
    unfold gen_identify_instruments.
    rewrite (gen_verify_ok Hwf Hac Hs Hd Hsd Hnone). cbn [py_bind]. unfold py_cg_get_ancestors at 1.
    unfold instruments in HI |- *.
    destruct (memb eqb d (anc eqb g s)) eqn:Ed.
    { exists py_list_empty, []. split; [reflexivity|]. split; [reflexivity|]. intros z. tauto. }
    destruct (gen_confounders_equiv Hwf Hac Hs Hd Hsd Hnone Hfuel) as (RC & C & HgenC & HC & HRC).
    specialize (Hguard C).
    rewrite HgenC. rewrite HC in HI |- *. cbn [py_bind]. cbv zeta in HI |- *.
    fold (gp_cand1 g s C) in HI |- *.
    (* facts about candidates *)
    assert (Hanc_v : forall c, In c (anc eqb g s) -> In c (verts g) /\ c <> d).
    { intros c Hc. split; [exact (@anc_in_verts A eqb eqb_spec g s c Hwf Hc)|].
      intros ->. apply gp_memb_false in Ed. exact (Ed Hc). }
    (* phase 1 *)
    match goal with |- context [py_for py_top RC ?c0 _ _] => set (cand := c0) end.
    assert (Hcand : forall y, In y cand <-> In y (diff eqb (anc eqb g s) C)).
    { intros y. unfold cand, py_cg_get_ancestors. rewrite gp_diff_in, gp_set_of_in, (@diff_in A eqb eqb_spec), HRC.
      tauto. }
    assert (Hcnd : NoDup cand) by (unfold cand; apply diff_nodup; apply gp_set_of_nodup).
    rewrite py_for_loop.
    match goal with |- context [py_loop RC cand ?b] =>
      destruct (@gp_filter_outer _
                  (fun z c => memb eqb c (py_cg_get_descendants eqb g z)
                              || memb eqb c (py_cg_get_ancestors eqb g z)) b _
                  (fun _ _ => eq_refl) RC cand Hcnd) as (s1 & Hl1 & Hnd1 & Hin1)
    end.
    rewrite Hl1. clear Hl1.
    assert (Hs1 : forall y, In y s1 <-> In y (gp_cand1 g s C)).
    { intros y. rewrite Hin1, Hcand. unfold gp_cand1. rewrite filter_In, (@id_negb_existsb A _ C).
      unfold py_cg_get_descendants, py_cg_get_ancestors. split.
      - intros [Hy Hall]. split; [exact Hy|]. intros z Hz. apply Hall, HRC. exact Hz.
      - intros [Hy Hall]. split; [exact Hy|]. intros z Hz. apply Hall, HRC. exact Hz. }
    assert (Hs1_anc : forall y, In y s1 -> In y (anc eqb g s)).
    { intros y Hy. apply Hs1 in Hy. unfold gp_cand1 in Hy. apply filter_In in Hy.
      destruct Hy as [Hy _]. apply (@diff_in A eqb eqb_spec) in Hy. tauto. }
    (* phase 2 *)
    rewrite py_for_loop.
    match goal with |- context [py_loop (py_iter_set ord ?k (py_copy s1)) s1 ?b] =>
      destruct (@gp_filter_copy _
                  (fun c => match id_all_paths eqb g c d with
                            | Some ps => negb (forallb (fun p => memb eqb s p) ps)
                            | None => false
                            end) b k s1) as (s2 & Hl2 & Hnd2 & Hin2)
    end.
    { intros c st Hc Hcst.
      destruct (Hanc_v c (Hs1_anc c Hc)) as [Hcv Hcd].
      destruct (@id_all_paths_some A eqb eqb_spec g c d Hwf Hcv) as [ps Eps].
      unfold py_cg_get_all_causal_paths. rewrite Eps. cbn [py_bind]. rewrite py_for_loop.
      unfold py_enumerate.
      match goal with |- context [combine (seq 0 (length ?l)) ?l] => set (ps' := l) end.
      rewrite (proj1 (@gp_inst_paths_loop _ mx c s _ (fun _ _ _ => eq_refl) ps' 0 st Hcst)).
      - unfold ps'. rewrite gp_forallb_ord.
        destruct (forallb (fun p => memb eqb s p) ps); simpl; [reflexivity|].
        unfold py_set_remove. rewrite (proj2 (gp_memb_in c st) Hcst). reflexivity.
      - simpl. unfold ps'. rewrite gp_ord_length.
        apply (Hguard c ps HC); [apply Hs1; exact Hc|exact Eps]. }
    { exact Hnd1. }
    rewrite Hl2. clear Hl2.
    (* phase 3 *)
    rewrite py_for_loop.
    match goal with |- context [py_loop (py_iter_set ord ?k (py_copy s2)) s2 ?b] =>
      destruct (@gp_filter_copy _
                  (fun c => match gen_conf fuel g c d with
                            | Ret t => Nat.ltb 0 (length t)
                            | _ => false
                            end) b k s2) as (s3 & Hl3 & Hnd3 & Hin3)
    end.
    { intros c st Hc Hcst. apply Hin2 in Hc. destruct Hc as [Hc _].
      destruct (Hanc_v c (Hs1_anc c Hc)) as [Hcv Hcd].
      destruct (gen_confounders_equiv Hwf Hac Hcv Hd Hcd Hnone Hfuel) as (Rc & Cc & Hgc & _ & _).
      rewrite Hgc. cbn [py_bind]. reflexivity. }
    { exact Hnd2. }
    rewrite Hl3. clear Hl3. unfold py_top, py_list.
    (* the model *)
    match type of HI with match ?X with _ => _ end = _ =>
      destruct X as [cand2|] eqn:E2; [|discriminate] end.
    eexists. exists I. split; [reflexivity|]. split; [exact HI|].
    intros y. rewrite gp_iter_set_in, Hin3, Hin2, Hs1.
    rewrite (id_filter_opt_in _ _ HI y), (id_filter_opt_in _ _ E2 y).
    split.
    - intros [[Hy H2] H3]. assert (Hy1 : In y s1) by (apply Hs1; exact Hy).
      destruct (Hanc_v y (Hs1_anc y Hy1)) as [Hyv Hyd].
      destruct (@id_all_paths_some A eqb eqb_spec g y d Hwf Hyv) as [ps Eps].
      destruct (gen_confounders_equiv Hwf Hac Hyv Hd Hyd Hnone Hfuel) as (Ry & Cy & Hgy & HCy & HRy).
      rewrite Eps in H2 |- *. rewrite Hgy in H3. rewrite HCy. simpl.
      apply negb_false_iff in H2. rewrite H2.
      split; [split; [exact Hy|reflexivity]|].
      destruct Ry as [|r Ry]; [|simpl in H3; discriminate].
      destruct Cy as [|c Cy]; [reflexivity|]. exfalso. apply (proj2 (HRy c)). left. reflexivity.
    - intros [[Hy H2] H3]. assert (Hy1 : In y s1) by (apply Hs1; exact Hy).
      destruct (Hanc_v y (Hs1_anc y Hy1)) as [Hyv Hyd].
      destruct (@id_all_paths_some A eqb eqb_spec g y d Hwf Hyv) as [ps Eps].
      destruct (gen_confounders_equiv Hwf Hac Hyv Hd Hyd Hnone Hfuel) as (Ry & Cy & Hgy & HCy & HRy).
      rewrite Eps in H2 |- *. rewrite Hgy. rewrite HCy in H3. simpl in H2, H3.
      injection H2 as H2. rewrite H2.
      split; [split; [exact Hy|reflexivity]|].
      destruct Cy as [|c Cy]; [|discriminate].
      destruct Ry as [|r Ry]; [reflexivity|]. exfalso. apply (proj1 (HRy r)). left. reflexivity.
  Qed.

  (** ** When the guard fails, [identify_instruments] raises ValueError

      A candidate that reaches the enumeration of causal paths never has a causal path to the
      destination that avoids the source (InstrumentsGen.inst_path_filter_redundant), so the
      [break] is never taken and the enumeration runs until the index exceeds [max_num_paths]. *)
  Lemma gp_inst_phase2_raises (R : Type) (g : digraph A) (s d : A) (mx k : nat)
        (body : A -> list A -> pyctl (list A) R) :
    (forall c st, body c st =
       py_bind py_in (py_cg_get_all_causal_paths eqb ord k g c d)
         (fun ps => py_for py_in (py_enumerate ps) st
            (fun '(i, p) st' =>
               if Nat.ltb mx i then py_in (Exc PyValueError)
               else if negb (memb eqb s p)
                    then py_bind py_in (py_set_remove eqb st' c) (fun st'' => Brk st'')
                    else Cont st')
            (fun st' => Cont st'))) ->
    forall snap st,
      (forall c, In c snap -> In c st /\
         exists ps, id_all_paths eqb g c d = Some ps /\ forallb (fun p => memb eqb s p) ps = true) ->
      (exists c ps, In c snap /\ id_all_paths eqb g c d = Some ps /\ mx + 1 < length ps) ->
      py_loop snap st body = Done (Exc PyValueError).
  Proof.
    intros Hb. induction snap as [|c snap IH]; intros st Hall (c0 & ps0 & Hc0 & Eps0 & Hlen0).
    - destruct Hc0.
    - simpl. rewrite Hb.
      destruct (Hall c (or_introl eq_refl)) as (Hcst & ps & Eps & Hthru).
      unfold py_cg_get_all_causal_paths. rewrite Eps. cbn [py_bind]. rewrite py_for_loop.
      unfold py_enumerate.
      match goal with |- context [combine (seq 0 (length ?l)) ?l] => set (ps' := l) end.
      assert (Hlen' : length ps' = length ps) by apply gp_ord_length.
      assert (Hthru' : forallb (fun p => memb eqb s p) ps' = true)
        by (unfold ps'; rewrite gp_forallb_ord; exact Hthru).
      destruct (Nat.leb (length ps) (mx + 1)) eqn:Ele.
      + apply Nat.leb_le in Ele.
        rewrite (proj1 (@gp_inst_paths_loop _ mx c s _ (fun _ _ _ => eq_refl) ps' 0 st Hcst)); [|simpl; lia].
        rewrite Hthru'. apply IH.
        * intros c' Hc'. apply Hall. right. exact Hc'.
        * destruct Hc0 as [<-|Hc0]; [|exists c0, ps0; split; [exact Hc0|split; assumption]].
          rewrite Eps in Eps0. injection Eps0 as <-. lia.
      + apply Nat.leb_gt in Ele.
        rewrite (proj2 (@gp_inst_paths_loop _ mx c s _ (fun _ _ _ => eq_refl) ps' 0 st Hcst));
          [reflexivity|exact Hthru'|lia|simpl; lia].
  Qed.

  Theorem gen_instruments_raises (g : digraph A) s d fuel mx C c ps :
    wf g -> acyclic g -> In s (verts g) -> In d (verts g) -> s <> d -> d <> py_None ->
    length (verts g) + 1 <= fuel ->
    memb eqb d (anc eqb g s) = false ->
    confounders eqb g s d = Some C -> In c (gp_cand1 g s C) ->
    id_all_paths eqb g c d = Some ps -> mx + 1 < length ps ->
    gen_inst fuel g s d mx = Exc PyValueError.
  Proof.
    intros Hwf Hac Hs Hd Hsd Hnone Hfuel Ed HC Hc Eps Hlen.
    unfold gen_identify_instruments.
    rewrite (gen_verify_ok Hwf Hac Hs Hd Hsd Hnone). cbn [py_bind]. unfold py_cg_get_ancestors at 1.
    rewrite Ed.
    destruct (gen_confounders_equiv Hwf Hac Hs Hd Hsd Hnone Hfuel) as (RC & C' & HgenC & HC' & HRC).
    rewrite HC in HC'. injection HC' as <-.
    rewrite HgenC. cbn [py_bind].
    assert (Hnds : ~ path g d s).
    { intros Hp. apply (@anc_spec A eqb eqb_spec g s d Hwf), gp_memb_in in Hp. congruence. }
    assert (Hanc_v : forall c, In c (anc eqb g s) -> In c (verts g) /\ c <> d).
    { intros c' Hc'. split; [exact (@anc_in_verts A eqb eqb_spec g s c' Hwf Hc')|].
      intros ->. apply gp_memb_false in Ed. exact (Ed Hc'). }
    match goal with |- context [py_for py_top RC ?c0 _ _] => set (cand := c0) end.
    assert (Hcand : forall y, In y cand <-> In y (diff eqb (anc eqb g s) C)).
    { intros y. unfold cand, py_cg_get_ancestors. rewrite gp_diff_in, gp_set_of_in, (@diff_in A eqb eqb_spec), HRC.
      tauto. }
    assert (Hcnd : NoDup cand) by (unfold cand; apply diff_nodup; apply gp_set_of_nodup).
    rewrite py_for_loop.
    match goal with |- context [py_loop RC cand ?b] =>
      destruct (@gp_filter_outer _
                  (fun z c => memb eqb c (py_cg_get_descendants eqb g z)
                              || memb eqb c (py_cg_get_ancestors eqb g z)) b _
                  (fun _ _ => eq_refl) RC cand Hcnd) as (s1 & Hl1 & Hnd1 & Hin1)
    end.
    rewrite Hl1. clear Hl1.
    assert (Hs1 : forall y, In y s1 <-> In y (gp_cand1 g s C)).
    { intros y. rewrite Hin1, Hcand. unfold gp_cand1. rewrite filter_In, (@id_negb_existsb A _ C).
      unfold py_cg_get_descendants, py_cg_get_ancestors. split.
      - intros [Hy Hall]. split; [exact Hy|]. intros z Hz. apply Hall, HRC. exact Hz.
      - intros [Hy Hall]. split; [exact Hy|]. intros z Hz. apply Hall, HRC. exact Hz. }
    rewrite py_for_loop. unfold py_copy.
    match goal with |- context [py_loop (py_iter_set ord ?k s1) s1 _] =>
      rewrite (@gp_inst_phase2_raises _ g s d mx _ _ (fun _ _ => eq_refl) (py_iter_set ord k s1) s1);
        [reflexivity| |]
    end.
    - intros y Hy. apply gp_iter_set_in in Hy. split; [exact Hy|]. apply Hs1 in Hy. unfold gp_cand1 in Hy.
      apply filter_In in Hy. destruct Hy as [Hy Hz]. apply (@diff_in A eqb eqb_spec) in Hy.
      destruct Hy as [Hya HyC]. destruct (Hanc_v y Hya) as [Hyv Hyd].
      destruct (@id_all_paths_some A eqb eqb_spec g y d Hwf Hyv) as [psy Epsy].
      exists psy. split; [exact Epsy|]. apply forallb_forall. intros p Hp. apply gp_memb_in.
      apply (@id_all_paths_spec A eqb eqb_spec g y d psy Hyd Epsy) in Hp.
      apply (@inst_path_filter_redundant A eqb eqb_spec g s d C y Hwf Hac Hnds HC); [|exact HyC| |exact Hp].
      + apply (@anc_spec A eqb eqb_spec g s y Hwf). exact Hya.
      + intros z Hz' Hpath. apply (@id_negb_existsb A _ C) with (z := z) in Hz; [|exact Hz'].
        apply orb_false_iff in Hz. destruct Hz as [_ Hz]. apply gp_memb_false in Hz. apply Hz.
        apply (@anc_spec A eqb eqb_spec g z y Hwf). exact Hpath.
    - exists c, ps. split; [apply gp_iter_set_in, Hs1; exact Hc|]. split; assumption.
  Qed.
End GenProofs.

(** * 9b. [identify_markov_boundary] *)
Section GenMarkov.
  Variable A : Type.
  Variable eqb : A -> A -> bool.
  Hypothesis eqb_spec : forall x y, reflect (x = y) (eqb x y).
  Variable ord : pyorder.
  Hypothesis ord_ok : pyorder_ok ord.
  Variables py_None py_empty_str : A.

  Local Notation gen_mb := (gen_identify_markov_boundary eqb py_None py_empty_str ord).

  (** With the second node omitted, [_verify_identify_inputs] compares the node with [''] (and
      with [None]). *)
  Lemma gen_verify_none_ok (g : digraph A) x :
    wf g -> acyclic g -> In x (verts g) -> x <> py_None -> x <> py_empty_str ->
    gen__verify_identify_inputs eqb py_None py_empty_str g x py_None = Ret (x, py_empty_str).
  Proof.
    intros Hwf Hac Hx Hn He. rewrite gen_verify_cases.
    rewrite (proj2 (@acyclicb_spec A eqb eqb_spec g Hwf) Hac).
    rewrite (proj2 (@memb_in A eqb eqb_spec x (verts g)) Hx).
    destruct (eqb_spec py_None py_None) as [_|E]; [|contradiction]. simpl.
    destruct (eqb_spec x py_empty_str) as [E|_]; [contradiction|].
    destruct (eqb_spec x py_None) as [E|_]; [contradiction|]. reflexivity.
  Qed.

  Theorem gen_markov_boundary_equiv (g : digraph A) x :
    wf g -> acyclic g -> In x (verts g) -> x <> py_None -> x <> py_empty_str ->
    exists R, gen_mb g x = Ret R /\ forall z, In z R <-> In z (markov_boundary eqb g x).
  Proof.
    intros Hwf Hac Hx Hn He. unfold gen_identify_markov_boundary.
    rewrite (gen_verify_none_ok Hwf Hac Hx Hn He). cbn [py_bind]. unfold py_top, py_list.
    eexists. split; [reflexivity|]. intros z.
    rewrite (@mb_spec A eqb eqb_spec).
    rewrite (@gp_iter_set_in ord ord_ok).
    rewrite !(@gp_union_in A eqb eqb_spec), !(@gp_set_of_in A eqb eqb_spec).
    rewrite (@gp_parents_in A eqb eqb_spec ord ord_ok), (@gp_children_in A eqb eqb_spec ord ord_ok).
    rewrite in_flat_map. split.
    - intros [[H|H]|(c & Hc & Hz)]; [left; exact H|right; left; exact H|].
      right. right.
      rewrite (@gp_iter_set_in ord ord_ok), (@gp_set_of_in A eqb eqb_spec),
        (@gp_children_in A eqb eqb_spec ord ord_ok) in Hc.
      rewrite in_flat_map in Hz. destruct Hz as (p & Hp & Hz).
      rewrite (@gp_parents_in A eqb eqb_spec ord ord_ok) in Hp.
      destruct (eqb_spec p x) as [E|E]; simpl in Hz; [destruct Hz|].
      destruct Hz as [<-|[]]. exists c. split; [exact Hc|]. split; [exact Hp|exact E].
    - intros [H|[H|(c & Hc & Hz & Hne)]]; [left; left; exact H|left; right; exact H|].
      right. exists c. split.
      + rewrite (@gp_iter_set_in ord ord_ok), (@gp_set_of_in A eqb eqb_spec),
          (@gp_children_in A eqb eqb_spec ord ord_ok). exact Hc.
      + rewrite in_flat_map. exists z. split.
        * rewrite (@gp_parents_in A eqb eqb_spec ord ord_ok). exact Hz.
        * destruct (eqb_spec z x) as [E|E]; [contradiction|]. left. reflexivity.
  Qed.

  (** A quirk of the Python code that the translation makes visible: the empty string is a legal
      node identifier, but [identify_markov_boundary(graph, '')] raises ValueError ("node_1 and
      node_2 cannot be equal"), because the omitted second node is coerced to ['']. *)
  Theorem gen_markov_boundary_empty_identifier (g : digraph A) :
    acyclicb eqb g = true -> In py_empty_str (verts g) ->
    gen_mb g py_empty_str = Exc PyValueError.
  Proof.
    intros Hac Hx. unfold gen_identify_markov_boundary.
    rewrite gen_verify_cases. rewrite Hac.
    rewrite (proj2 (@memb_in A eqb eqb_spec py_empty_str (verts g)) Hx).
    destruct (eqb_spec py_None py_None) as [_|E]; [|contradiction]. simpl.
    destruct (eqb_spec py_empty_str py_empty_str) as [_|E]; [|contradiction]. reflexivity.
  Qed.
End GenMarkov.

(** * 9c. [identify_colliders] (graphs with arbitrary edge types) *)
Section GenColliders.
  Variable A : Type.
  Variable eqb : A -> A -> bool.
  Hypothesis eqb_spec : forall x y, reflect (x = y) (eqb x y).
  Variable ord : pyorder.
  Hypothesis ord_ok : pyorder_ok ord.

  (** the list of pairs built from [get_bidirected_edges()] *)
  Lemma gc_pair_memb_bi (mg : list (medge A)) a b :
    py_pair_memb eqb (a, b)
      (map (fun e => (py_edge_source_identifier e, py_edge_destination_identifier e))
           (filter (fun e => etype_eqb (mty e) Bi) mg))
    = mg_bi_stored eqb mg a b.
  Proof.
    unfold py_pair_memb, mg_bi_stored, py_edge_source_identifier, py_edge_destination_identifier.
    cbn [fst snd].
    induction mg as [|e mg IH]; [reflexivity|].
    cbn [filter map existsb]. destruct (etype_eqb (mty e) Bi); cbn [map existsb fst snd].
    - rewrite IH, andb_true_r. reflexivity.
    - rewrite IH, andb_false_r. reflexivity.
  Qed.

  (** adding distinct new elements to a set one by one appends them *)
  Lemma gc_fold_add (f : A -> bool) l : forall acc,
    NoDup l -> (forall x, In x l -> ~ In x acc) ->
    fold_left (fun pp x => if f x then py_set_add eqb pp x else pp) l acc = acc ++ filter f l.
  Proof.
    induction l as [|x l IH]; intros acc Hnd Hnin; simpl; [rewrite app_nil_r; reflexivity|].
    inversion Hnd as [|? ? Hx Hnd']; subst.
    destruct (f x).
    - unfold py_set_add at 2.
      rewrite (proj2 (@memb_false A eqb eqb_spec x acc) (Hnin x (or_introl eq_refl))).
      rewrite IH; [rewrite <- app_assoc; reflexivity|exact Hnd'|].
      intros y Hy Hin. apply in_app_iff in Hin. destruct Hin as [Hin|[<-|[]]].
      + exact (Hnin y (or_intror Hy) Hin).
      + exact (Hx Hy).
    - apply IH; [exact Hnd'|]. intros y Hy. apply Hnin. right. exact Hy.
  Qed.

  (** the loop over [combinations(potential_parents, 2)] *)
  Lemma gc_unshielded_loop (R : Type) (mg : list (medge A))
        (body : A * A -> bool -> pyctl bool R) :
    (forall p q st, body (p, q) st =
       if mg_edge_exists eqb mg p q || mg_edge_exists eqb mg q p then Brk false else Cont st) ->
    forall l,
      py_loop l true body =
      Cont (forallb (fun pq => negb (mg_edge_exists eqb mg (fst pq) (snd pq)
                                     || mg_edge_exists eqb mg (snd pq) (fst pq))) l).
  Proof.
    intros Hb. induction l as [|[p q] l IH]; simpl; [reflexivity|].
    rewrite Hb. destruct (mg_edge_exists eqb mg p q || mg_edge_exists eqb mg q p); simpl;
      [reflexivity|exact IH].
  Qed.

  (** the test on the potential parents only depends on them as a SET *)
  Lemma gc_unshieldedb_seteq (mg : list (medge A)) l1 l2 :
    NoDup l1 -> NoDup l2 -> (forall x, In x l1 <-> In x l2) ->
    unshieldedb eqb mg l1 = unshieldedb eqb mg l2.
  Proof.
    intros H1 H2 Heq.
    destruct (unshieldedb eqb mg l2) eqn:E2.
    - apply (@unshieldedb_spec A eqb eqb_spec mg l1 H1).
      intros p q Hp Hq. apply (proj1 (@unshieldedb_spec A eqb eqb_spec mg l2 H2) E2); apply Heq; assumption.
    - destruct (unshieldedb eqb mg l1) eqn:E1; [|reflexivity]. exfalso.
      assert (E : unshieldedb eqb mg l2 = true).
      { apply (@unshieldedb_spec A eqb eqb_spec mg l2 H2).
        intros p q Hp Hq. apply (proj1 (@unshieldedb_spec A eqb eqb_spec mg l1 H1) E1); apply Heq; assumption. }
      congruence.
  Qed.

  Theorem gen_colliders_equiv (g : mgraph A) (u : bool) :
    exists R, gen_identify_colliders eqb ord g u = Ret R /\
              forall z, In z R <-> In z (identify_colliders eqb (medges g) (mnodes g) u).
  Proof.
    unfold gen_identify_colliders.
    set (test := fun n => (2 <=? length (potential_parents eqb (medges g) n))
                          && (negb u || unshieldedb eqb (medges g) (potential_parents eqb (medges g) n))).
    rewrite py_for_loop.
    rewrite (@py_loop_fold _ _ _ (fun n cs => if test n then py_set_add eqb cs n else cs)).
    - unfold py_top, py_list, py_mcg_get_node_names, py_set_empty.
      eexists. split; [reflexivity|]. intros z.
      unfold identify_colliders. fold test.
      assert (Hfold : forall l acc,
                 In z (fold_left (fun cs n => if test n then py_set_add eqb cs n else cs) l acc) <->
                 In z acc \/ (In z l /\ test z = true)).
      { induction l as [|n l IH]; intros acc; simpl; [tauto|].
        rewrite IH. destruct (test n) eqn:En.
        - rewrite (@gp_set_add_in A eqb eqb_spec). split.
          + intros [[H| ->]|[H1 H2]]; auto.
          + intros [H|[[<-|H1] H2]]; auto.
        - split.
          + intros [H|[H1 H2]]; auto.
          + intros [H|[[<-|H1] H2]]; [auto|congruence|auto]. }
      rewrite (@gp_iter_set_in ord ord_ok), Hfold, filter_In. simpl. tauto.
    - intros n cs. cbv beta zeta.
      unfold py_mcg_get_neighbors, py_mcg_get_bidirected_edges, py_mcg_edge_exists, py_mcg_get_edge.
      match goal with |- context [py_for py_in ?l py_set_empty _ _] => set (nbrs := l) end.
      assert (Hnb_nd : NoDup nbrs).
      { apply (@gp_ord_nodup ord ord_ok). apply (@mk_neighbors_nodup A eqb eqb_spec). }
      rewrite py_for_loop.
      rewrite (@py_loop_fold _ _ _
                 (fun nb pp => if is_potential_parent eqb (medges g) n nb then py_set_add eqb pp nb else pp)).
      + rewrite (@gc_fold_add _ _ _ Hnb_nd); [|intros x _ []].
        unfold py_set_empty. cbn [app].
        set (pp := filter (is_potential_parent eqb (medges g) n) nbrs).
        assert (Hpp_nd : NoDup pp) by (apply NoDup_filter; exact Hnb_nd).
        assert (Hpp_in : forall x, In x pp <-> In x (potential_parents eqb (medges g) n)).
        { intros x. unfold pp, potential_parents, nbrs. rewrite !filter_In, (@gp_ord_in ord ord_ok). tauto. }
        assert (Hmodel_nd : NoDup (potential_parents eqb (medges g) n))
          by apply (@potential_parents_nodup A eqb eqb_spec).
        assert (Hlen : length pp = length (potential_parents eqb (medges g) n)).
        { apply Permutation_length. apply NoDup_Permutation; assumption. }
        unfold test. rewrite Hlen.
        destruct (2 <=? length (potential_parents eqb (medges g) n)); [|reflexivity].
        destruct u; simpl.
        * rewrite py_for_loop. unfold py_combinations2.
          rewrite (@gc_unshielded_loop _ (medges g) _ (fun _ _ _ => eq_refl)).
          match goal with |- context [pairs2 ?l] =>
            fold (unshieldedb eqb (medges g) l);
            rewrite (@gc_unshieldedb_seteq (medges g) l (potential_parents eqb (medges g) n))
          end.
          -- destruct (unshieldedb eqb (medges g) (potential_parents eqb (medges g) n)); reflexivity.
          -- apply (@gp_iter_set_nodup ord ord_ok). exact Hpp_nd.
          -- exact Hmodel_nd.
          -- intros x. rewrite (@gp_iter_set_in ord ord_ok). apply Hpp_in.
        * reflexivity.
      + intros nb pp. unfold is_potential_parent, mg_edge_exists.
        rewrite !gc_pair_memb_bi.
        destruct (mg_get_edge eqb (medges g) nb n) as [e|]; simpl.
        * unfold py_edge_edge_type.
          destruct (etype_eqb (mty e) Dir || (mg_bi_stored eqb (medges g) nb n || mg_bi_stored eqb (medges g) n nb));
            reflexivity.
        * destruct (mg_bi_stored eqb (medges g) nb n || mg_bi_stored eqb (medges g) n nb); reflexivity.
  Qed.
End GenColliders.

(** * 10. The statements, closed (vertex type [nat]; the theorems above are generic) *)

Definition gen_seteq (l1 l2 : list nat) : Prop := forall z, In z l1 <-> In z l2.

(** The two concrete iteration orders of PyRt.v are permutations. *)
Lemma pyorder_id_ok : pyorder_ok pyorder_id.
Proof. intros X k l. apply Permutation_refl. Qed.

Lemma pyorder_alt_ok : pyorder_ok pyorder_alt.
Proof.
  intros X k l. unfold pyorder_alt. destruct (Nat.odd k); [|apply Permutation_refl].
  apply Permutation_sym, Permutation_rev.
Qed.

(** The nested helper: the graph is given back with the same nodes and edges, and the set is the
    one computed by [conf_search]; the fuel [|V| + 1] (or more) suffices on a DAG. *)
Definition gen_helper_statement : Prop :=
  forall (ord : pyorder) (g : digraph nat) n1 n2 fuel,
    pyorder_ok ord -> wf g -> acyclic g -> length (verts g) + 1 <= fuel ->
    exists g' R C,
      gen__identify_confounders_no_checks_no_descendant_pruning_networkx Nat.eqb ord fuel g n1 n2
      = Ret (g', R) /\
      verts g' = verts g /\ (forall a b, arc g' a b <-> arc g a b) /\
      conf_search Nat.eqb (length (verts g) + 1) g n1 n2 = Some C /\ gen_seteq R C.

Theorem gen_helper_equiv : gen_helper_statement.
Proof.
  intros ord g n1 n2 fuel Hord Hwf Hac Hfuel.
  destruct (conf_search Nat.eqb (length (verts g) + 1) g n1 n2) as [C|] eqn:E;
    [|exfalso; exact (@conf_search_fuel nat Nat.eqb Nat.eqb_spec g n1 n2 Hwf Hac E)].
  pose proof (conf_search_mono Nat.eqb _ _ _ Hfuel E) as E'.
  destruct (@gen_helper_spec nat Nat.eqb Nat.eqb_spec ord Hord fuel g n1 n2 C Hwf E') as (g' & R & Hgen & Hg & HR).
  exists g', R, C. split; [exact Hgen|]. destruct Hg as [Hv Ha].
  split; [symmetry; exact Hv|]. split; [intros a b; symmetry; apply Ha|]. split; [reflexivity|exact HR].
Qed.

Definition gen_confounders_statement : Prop :=
  forall (ord : pyorder) (g : digraph nat) (none estr x y fuel : nat),
    pyorder_ok ord ->
    wf g -> acyclic g -> In x (verts g) -> In y (verts g) -> x <> y -> y <> none ->
    length (verts g) + 1 <= fuel ->
    exists R C, gen_identify_confounders Nat.eqb none estr ord fuel g x y = Ret R /\
                confounders Nat.eqb g x y = Some C /\ gen_seteq R C.

Theorem gen_confounders_statement_holds : gen_confounders_statement.
Proof.
  intros ord g none estr x y fuel Hord.
  exact (@gen_confounders_equiv nat Nat.eqb Nat.eqb_spec ord Hord none estr g x y fuel).
Qed.

(** [max_num_paths]: the model ignores it.  The generated function agrees with the model when
    the enumeration of causal paths has at most [max_num_paths + 1] elements, and raises
    ValueError otherwise (unless the destination is an ancestor of the source, in which case
    both return the empty list before any enumeration). *)
Definition gen_mediators_statement : Prop :=
  forall (ord : pyorder) (g : digraph nat) (none estr s d fuel mx : nat) ps,
    pyorder_ok ord ->
    wf g -> acyclic g -> In s (verts g) -> In d (verts g) -> s <> d -> d <> none ->
    length (verts g) + 1 <= fuel ->
    id_all_paths Nat.eqb g s d = Some ps ->
    ((memb Nat.eqb d (anc Nat.eqb g s) = false -> length ps <= mx + 1) ->
     exists R M, gen_identify_mediators Nat.eqb none estr ord fuel g s d mx = Ret R /\
                 mediators Nat.eqb g s d = Some M /\ gen_seteq R M) /\
    (memb Nat.eqb d (anc Nat.eqb g s) = false -> mx + 1 < length ps ->
     gen_identify_mediators Nat.eqb none estr ord fuel g s d mx = Exc PyValueError).

Theorem gen_mediators_statement_holds : gen_mediators_statement.
Proof.
  intros ord g none estr s d fuel mx ps Hord Hwf Hac Hs Hd Hsd Hnone Hfuel Eps. split.
  - exact (@gen_mediators_equiv nat Nat.eqb Nat.eqb_spec ord Hord none estr g s d fuel mx ps
             Hwf Hac Hs Hd Hsd Hnone Hfuel Eps).
  - exact (@gen_mediators_raises nat Nat.eqb Nat.eqb_spec ord Hord none estr g s d fuel mx ps
             Hwf Hac Hs Hd Hsd Hnone Hfuel Eps).
Qed.

Definition gen_instruments_statement : Prop :=
  forall (ord : pyorder) (g : digraph nat) (none estr s d fuel mx : nat),
    pyorder_ok ord ->
    wf g -> acyclic g -> In s (verts g) -> In d (verts g) -> s <> d -> d <> none ->
    length (verts g) + 1 <= fuel ->
    (gp_inst_guard Nat.eqb g s d mx ->
     exists R Is, gen_identify_instruments Nat.eqb none estr ord fuel g s d mx = Ret R /\
                  instruments Nat.eqb g s d = Some Is /\ gen_seteq R Is) /\
    (forall C c ps,
       memb Nat.eqb d (anc Nat.eqb g s) = false ->
       confounders Nat.eqb g s d = Some C -> In c (gp_cand1 Nat.eqb g s C) ->
       id_all_paths Nat.eqb g c d = Some ps -> mx + 1 < length ps ->
       gen_identify_instruments Nat.eqb none estr ord fuel g s d mx = Exc PyValueError).

Theorem gen_instruments_statement_holds : gen_instruments_statement.
Proof.
  intros ord g none estr s d fuel mx Hord Hwf Hac Hs Hd Hsd Hnone Hfuel. split.
  - exact (@gen_instruments_equiv nat Nat.eqb Nat.eqb_spec ord Hord none estr g s d fuel mx
             Hwf Hac Hs Hd Hsd Hnone Hfuel).
  - intros C c ps.
    exact (@gen_instruments_raises nat Nat.eqb Nat.eqb_spec ord Hord none estr g s d fuel mx C c ps
             Hwf Hac Hs Hd Hsd Hnone Hfuel).
Qed.

(** * 11. BOUNDED theorem: exhaustive computation on every DAG with at most 4 labelled nodes

    Independent of the proofs above (it only runs the two sides): for every acyclic orientation
    of every simple graph on [0 .. n-1], [n <= 4], and every ordered pair of distinct nodes, the
    three generated functions (fuel [n + 1], [None] = [n], [''] = [n + 1], [max_num_paths] = 25),
    run with the iteration order [ord], return normally and their results are equal AS SETS to the
    model's.  Checked for the two concrete orders of PyRt.v (list order; reversed at odd sites). *)
Definition gen_check_pair (ord : pyorder) (n : nat) (g : digraph nat) (x y : nat) : bool :=
  match gen_identify_confounders Nat.eqb n (S n) ord (n + 1) g x y, confounders Nat.eqb g x y with
  | Ret R, Some C => seteqb Nat.eqb R C
  | _, _ => false
  end
  && match gen_identify_instruments Nat.eqb n (S n) ord (n + 1) g x y 25, instruments Nat.eqb g x y with
     | Ret R, Some Is => seteqb Nat.eqb R Is
     | _, _ => false
     end
  && match gen_identify_mediators Nat.eqb n (S n) ord (n + 1) g x y 25, mediators Nat.eqb g x y with
     | Ret R, Some M => seteqb Nat.eqb R M
     | _, _ => false
     end.

Definition gen_check_graph (ord : pyorder) (n : nat) (arcs : list (nat * nat)) : bool :=
  let g := ds_g n arcs in
  negb (acyclicb Nat.eqb g)
  || forallb (fun x => forallb (fun y => Nat.eqb x y || gen_check_pair ord n g x y) (seq 0 n)) (seq 0 n).

Theorem gen_equiv_le4 :
  forall n, In n [1; 2; 3; 4] ->
    forallb (gen_check_graph pyorder_id n) (ds_orient (ds_upairs n)) = true /\
    forallb (gen_check_graph pyorder_alt n) (ds_orient (ds_upairs n)) = true.
Proof.
  intros n H; simpl in H.
  repeat (destruct H as [H|H]; [subst n; split; vm_cast_no_check (eq_refl true)|]); contradiction.
Qed.

(** * 12. Examples: the hypotheses are satisfiable with non-trivial results

    (every value was obtained from the real library: see InstrumentsGen.ig_ex, ig_layers and
    IdentifyProofs.ex_med) *)

(** 8 nodes, source 4, destination 5: identify_confounders = {6}, identify_instruments = {1, 3}. *)
Example gen_ex_run :
  gen_identify_confounders Nat.eqb 8 9 pyorder_id 9 ig_ex 4 5 = Ret [6] /\
  gen_identify_instruments Nat.eqb 8 9 pyorder_id 9 ig_ex 4 5 25 = Ret [1; 3] /\
  gen_identify_mediators Nat.eqb 8 9 pyorder_id 9 ig_ex 4 5 25 = Ret [].
Proof. vm_compute. repeat split; reflexivity. Qed.

Example gen_ex_guard : gp_inst_guard Nat.eqb ig_ex 4 5 25.
Proof.
  intros C c ps HC Hc Eps. vm_compute in HC. injection HC as <-.
  vm_compute in Hc. destruct Hc as [<-|[<-|[<-|[]]]]; vm_compute in Eps; injection Eps as <-; simpl; lia.
Qed.

(** The iteration order is visible in the returned LISTS (and in the order of the edges of the
    graph that the helper hands back), not in the returned sets. *)
Example gen_ex_other_order :
  gen_identify_instruments Nat.eqb 8 9 pyorder_alt 9 ig_ex 4 5 25 = Ret [3; 1] /\
  gen_identify_markov_boundary Nat.eqb 8 9 pyorder_id ig_ex 4 = Ret [7; 6; 3; 2] /\
  gen_identify_markov_boundary Nat.eqb 8 9 pyorder_alt ig_ex 4 = Ret [2; 3; 6; 7].
Proof. vm_compute. repeat split; reflexivity. Qed.

(** [gen_instruments_equiv] applies to it (and gives a non-empty set). *)
Example gen_ex_instruments_by_theorem :
  exists R Is, gen_identify_instruments Nat.eqb 8 9 pyorder_id 9 ig_ex 4 5 25 = Ret R /\
               instruments Nat.eqb ig_ex 4 5 = Some Is /\ gen_seteq R Is /\ In 1 Is.
Proof.
  destruct ig_ex_ok as [Hwf Hac].
  destruct (@gen_instruments_equiv nat Nat.eqb Nat.eqb_spec pyorder_id pyorder_id_ok 8 9 ig_ex 4 5 9 25 Hwf Hac)
    as (R & I & HR & HI & HRI).
  - vm_compute; auto 10.
  - vm_compute; auto 10.
  - discriminate.
  - discriminate.
  - vm_compute. lia.
  - exact gen_ex_guard.
  - exists R, I. split; [exact HR|]. split; [exact HI|]. split; [exact HRI|].
    apply HRI. rewrite (proj1 (proj2 gen_ex_run)) in HR. injection HR as <-. left. reflexivity.
Qed.

(** docstring of [identify_mediators] (x=0 m=1 y=2 u=3): the mediator m. *)
Example gen_ex_mediators_by_theorem :
  exists R M, gen_identify_mediators Nat.eqb 4 5 pyorder_id 5 ex_med 0 2 25 = Ret R /\
              mediators Nat.eqb ex_med 0 2 = Some M /\ gen_seteq R M /\ In 1 M.
Proof.
  destruct ex_med_ok as [Hwf Hac].
  destruct (@gen_mediators_equiv nat Nat.eqb Nat.eqb_spec pyorder_id pyorder_id_ok 4 5 ex_med 0 2 5 25
              [[0; 1; 2]; [0; 2]] Hwf Hac)
    as (R & M & HR & HM & HRM).
  - vm_compute; auto 10.
  - vm_compute; auto 10.
  - discriminate.
  - discriminate.
  - vm_compute. lia.
  - vm_compute. reflexivity.
  - intros _. simpl. lia.
  - exists R, M. split; [exact HR|]. split; [exact HM|]. split; [exact HRM|].
    rewrite ex_med_run in HM. injection HM as <-. left. reflexivity.
Qed.

(** 27 causal paths from i = 0 to d = 11, all through s = 1: with the default
    [max_num_paths = 25] the Python function raises ValueError; with 26 it returns {i}
    (and [identify_mediators(s, d)] behaves in the same way). *)
Example gen_ex_layers_run :
  gen_identify_instruments Nat.eqb 12 13 pyorder_id 13 ig_layers 1 11 25 = Exc PyValueError /\
  gen_identify_instruments Nat.eqb 12 13 pyorder_id 13 ig_layers 1 11 26 = Ret [0] /\
  gen_identify_mediators Nat.eqb 12 13 pyorder_id 13 ig_layers 1 11 25 = Exc PyValueError /\
  gen_identify_mediators Nat.eqb 12 13 pyorder_id 13 ig_layers 1 11 26 = Ret [] /\
  gen_identify_mediators Nat.eqb 12 13 pyorder_id 13 ig_layers 0 11 26 = Ret [1].
Proof. vm_compute. repeat split; reflexivity. Qed.

(** the hypotheses of [gen_instruments_raises] hold for it *)
Example gen_ex_layers_raises_hyps :
  memb Nat.eqb 11 (anc Nat.eqb ig_layers 1) = false /\
  confounders Nat.eqb ig_layers 1 11 = Some [] /\ In 0 (gp_cand1 Nat.eqb ig_layers 1 []) /\
  option_map (@length _) (id_all_paths Nat.eqb ig_layers 0 11) = Some 27.
Proof. vm_compute. repeat split; auto. Qed.

(** Fuel exhaustion is visible in the generated code too: with too little fuel the helper
    answers [Fuel], never a normal looking value. *)
Example gen_ex_fuel_short :
  gen__identify_confounders_no_checks_no_descendant_pruning_networkx Nat.eqb pyorder_id 1
    (id_mk 3 [(0, 1); (1, 2)]) 2 0 = Fuel.
Proof. vm_compute. reflexivity. Qed.

(** The helper hands the graph back with its edges in a different ORDER (removed edges are
    re-added at the end), which is why the restore is stated up to [geq]. *)
Example gen_ex_restore_order :
  gen__identify_confounders_no_checks_no_descendant_pruning_networkx Nat.eqb pyorder_id 5 ex_conf 2 3
  = Ret ({| verts := [0; 1; 2; 3]; arcs := [(0, 1); (1, 2); (1, 3); (2, 3)] |}, [1]) /\
  gen__identify_confounders_no_checks_no_descendant_pruning_networkx Nat.eqb pyorder_id 5
    (id_mk 4 [(2, 3); (0, 1); (1, 2); (1, 3)]) 2 3
  = Ret ({| verts := [0; 1; 2; 3]; arcs := [(0, 1); (1, 2); (1, 3); (2, 3)] |}, [1]).
Proof. vm_compute. split; reflexivity. Qed.

(** * 13. [identify_markov_boundary] *)
Definition gen_markov_boundary_statement : Prop :=
  forall (ord : pyorder) (g : digraph nat) (none estr x : nat),
    pyorder_ok ord ->
    wf g -> acyclic g -> In x (verts g) -> x <> none -> x <> estr ->
    exists R, gen_identify_markov_boundary Nat.eqb none estr ord g x = Ret R /\
              gen_seteq R (markov_boundary Nat.eqb g x).

Theorem gen_markov_boundary_statement_holds : gen_markov_boundary_statement.
Proof.
  intros ord g none estr x Hord.
  exact (@gen_markov_boundary_equiv nat Nat.eqb Nat.eqb_spec ord Hord none estr g x).
Qed.

(** "the function returns a list for every node of a DAG" is FALSE of the Python code: the node
    whose identifier is the empty string is refused.  Real library:
    g = CausalGraph(); g.add_edge('', 'b'); g.add_edge('a', 'b');
    identify_markov_boundary(g, 'a') = ['', 'b'] but identify_markov_boundary(g, '') raises
    ValueError.  Here '' = 0, a = 1, b = 2, None = 9. *)
Definition gen_markov_total_statement : Prop :=
  forall (g : digraph nat) (none estr x : nat),
    wf g -> acyclic g -> In x (verts g) -> ~ In none (verts g) ->
    exists R, gen_identify_markov_boundary Nat.eqb none estr pyorder_id g x = Ret R.

Theorem gen_markov_total_refuted : ~ gen_markov_total_statement.
Proof.
  intros H.
  destruct (H (id_mk 3 [(0, 2); (1, 2)]) 9 0 0) as [R HR].
  - apply (@id_wfb_wf nat Nat.eqb Nat.eqb_spec). vm_compute. reflexivity.
  - apply (@id_rank_acyclic nat _ (fun n => n)). vm_compute. reflexivity.
  - vm_compute. auto.
  - vm_compute. intuition discriminate.
  - vm_compute in HR. discriminate.
Qed.

Example gen_ex_markov_empty_identifier :
  gen_identify_markov_boundary Nat.eqb 9 0 pyorder_id (id_mk 3 [(0, 2); (1, 2)]) 1 = Ret [2; 0] /\
  gen_identify_markov_boundary Nat.eqb 9 0 pyorder_id (id_mk 3 [(0, 2); (1, 2)]) 0 = Exc PyValueError.
Proof. vm_compute. split; reflexivity. Qed.

(** docstring of [identify_markov_boundary]: u v b c a d e w f x y g z = 0 .. 12; the boundary
    of a = 4 is {b, c, d, e, f, g} = {2, 3, 5, 6, 8, 11}. *)
Definition gen_mb_doc : digraph nat :=
  id_mk 13 [(0, 2); (1, 3); (2, 4); (3, 4); (4, 5); (4, 6); (7, 8); (8, 5); (5, 9); (5, 10);
            (11, 6); (11, 12)].
Example gen_ex_markov_doc :
  isort Nat.leb (match gen_identify_markov_boundary Nat.eqb 13 14 pyorder_id gen_mb_doc 4 with
                 | Ret l => l | _ => [] end) = [2; 3; 5; 6; 8; 11] /\
  isort Nat.leb (markov_boundary Nat.eqb gen_mb_doc 4) = [2; 3; 5; 6; 8; 11].
Proof. vm_compute. split; reflexivity. Qed.

(** * 14. [identify_colliders] *)
Definition gen_colliders_statement : Prop :=
  forall (ord : pyorder) (g : mgraph nat) (u : bool),
    pyorder_ok ord ->
    exists R, gen_identify_colliders Nat.eqb ord g u = Ret R /\
              gen_seteq R (identify_colliders Nat.eqb (medges g) (mnodes g) u).

Theorem gen_colliders_statement_holds : gen_colliders_statement.
Proof. intros ord g u Hord. exact (@gen_colliders_equiv nat Nat.eqb Nat.eqb_spec ord Hord g u). Qed.

(** a -> c <- b, c <> d, d -- e, a -> e: c is the only collider, and it is unshielded; with the
    extra edge a -- b it is shielded (values of the real library). *)
Example gen_ex_colliders :
  gen_identify_colliders Nat.eqb pyorder_id
    {| mnodes := seq 0 5; medges := [(0, 2, Dir); (1, 2, Dir); (2, 3, Bi); (3, 4, Und); (0, 4, Dir)] |} true
  = Ret [2] /\
  gen_identify_colliders Nat.eqb pyorder_id
    {| mnodes := seq 0 3; medges := [(0, 2, Dir); (1, 2, Dir); (0, 1, Und)] |} true = Ret [] /\
  gen_identify_colliders Nat.eqb pyorder_id
    {| mnodes := seq 0 3; medges := [(0, 2, Dir); (1, 2, Dir); (0, 1, Und)] |} false = Ret [2].
Proof. vm_compute. repeat split; reflexivity. Qed.

(** * 15. The remaining theorems applied to concrete inputs (non-vacuity) *)

(** [gen_helper_equiv] on the docstring graph of [identify_confounders], with the non-trivial
    iteration order: the helper gives the graph back (same nodes, same edges) with {u} = {1}. *)
Example gen_ex_helper_by_theorem :
  exists g' R,
    gen__identify_confounders_no_checks_no_descendant_pruning_networkx Nat.eqb pyorder_alt 5 ex_conf 2 3
    = Ret (g', R) /\ verts g' = verts ex_conf /\ (forall a b, arc g' a b <-> arc ex_conf a b) /\
    gen_seteq R [1].
Proof.
  destruct ex_conf_ok as [Hwf Hac].
  destruct (@gen_helper_equiv pyorder_alt ex_conf 2 3 5 pyorder_alt_ok Hwf Hac) as (g' & R & C & H1 & H2 & H3 & H4 & H5).
  - vm_compute. lia.
  - exists g', R. split; [exact H1|]. split; [exact H2|]. split; [exact H3|].
    rewrite ex_conf_fuel in H4. injection H4 as <-. exact H5.
Qed.

Example gen_mb_doc_ok : wf gen_mb_doc /\ acyclic gen_mb_doc.
Proof.
  split.
  - apply (@id_wfb_wf nat Nat.eqb Nat.eqb_spec). vm_compute. reflexivity.
  - apply (@id_rank_acyclic nat gen_mb_doc
             (fun n => match n with
                       | 0 | 1 | 7 | 11 => 0 | 2 | 3 | 8 => 1 | 4 => 2 | 5 | 6 | 12 => 3 | _ => 4
                       end)).
    vm_compute. reflexivity.
Qed.

(** [gen_markov_boundary_equiv] on the docstring graph of [identify_markov_boundary]. *)
Example gen_ex_markov_by_theorem :
  exists R, gen_identify_markov_boundary Nat.eqb 13 14 pyorder_alt gen_mb_doc 4 = Ret R /\
            gen_seteq R (markov_boundary Nat.eqb gen_mb_doc 4) /\ In 8 R.
Proof.
  destruct gen_mb_doc_ok as [Hwf Hac].
  destruct (@gen_markov_boundary_statement_holds pyorder_alt gen_mb_doc 13 14 4 pyorder_alt_ok Hwf Hac)
    as (R & HR & HRM).
  - vm_compute. auto 20.
  - discriminate.
  - discriminate.
  - exists R. split; [exact HR|]. split; [exact HRM|]. apply HRM. vm_compute. auto 20.
Qed.
