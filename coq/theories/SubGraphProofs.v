(** SubGraphProofs.v — proofs about SubGraph.v (property C10, sub-graph clauses).

    Main results (every state is assumed to satisfy [Inv], GraphInv.v):

    - [get_subgraph_spec]: [_get_subgraph(nodes)] succeeds and returns a state satisfying [Inv]
      with the graph metadata of the original, EXACTLY the edges of the original whose two
      endpoints are listed (same type, same metadata, [v_edges h = sub_edges g nodes]) and, as
      nodes, the endpoints of those edges - or, when there is no such edge, the listed nodes -
      with their variable types and metadata ([v_nodes h] is the filtered sorted node view).
    - [ancestral_graph_spec] / [descendant_graph_spec] (and [..._any_order], for every
      enumeration of the Python [set]): the result is the sub-graph INDUCED on
      {x} + ancestors(x) (resp. descendants) - [induced] -; [ancestral_graph_directed] /
      [descendant_graph_directed] for a fully directed graph (a DAG in particular);
      [subgraph_missing_node] (AssertionError), [subgraph_mixed_refused] (GraphConversionError).
    - [parents_graph_spec] / [children_graph_spec]: NOT induced sub-graphs but STARS: the node,
      its parents (children) and exactly the directed edges parent -> x (x -> child); edges among
      the parents and the non-directed edges at x are dropped.
    - construction-order invariance: [get_subgraph_order_invariant],
      [ancestors_order_invariant], [ancestral_graph_order_invariant],
      [parents_children_graph_order_invariant] (same content in, same content out) and the
      stronger [get_subgraph_equiv_invariant], [ancestral_graph_equiv_invariant],
      [parents_children_graph_equiv_invariant] (same content in, [equiv] states out);
      [abs_inv_equiv]; and the "same arcs, same answers" lemmas of Section [SameArcs] for the
      queries of Queries.v.

    Method: every mutator call is replaced by its abstract counterpart through the refinement
    theorems of SpecProofs.v ([refines_add_edge], [refines_add_node_obj], [refines_delete_edge],
    [refines_delete_node]); [Inv] is carried along with GraphInvProofs.v. *)

From CG Require Import Base Digraph DigraphProofs Graph GraphObs GraphInv GraphInvProofs GraphAcyclicLemmas
  GraphAcyclicProofs GraphAtomicLemmas GraphAtomicProofs Queries QueriesProofs Matrix MatrixProofs Skeleton Serial SerialProofs
  Spec SpecProofs EqualityProofs BridgeProofs SubGraph.


(** * 0. Small list facts *)

Lemma sg_lookup_app {V} (id : name) (l1 l2 : list (name * V)) :
  lookup id (l1 ++ l2) = match lookup id l1 with Some v => Some v | None => lookup id l2 end.
Proof.
  induction l1 as [|[k' v'] l1 IH]; simpl; [reflexivity|].
  destruct (name_eqb id k'); [reflexivity|exact IH].
Qed.

Lemma sg_lookup_some_in {V} (id : name) (l : list (name * V)) :
  In id (map fst l) -> exists v, lookup id l = Some v.
Proof.
  intros H. destruct (lookup id l) as [v|] eqn:E; [eauto|].
  apply lookup_none in E. contradiction.
Qed.

Lemma sg_lookup_nodup {V} (id : name) (v : V) (l : list (name * V)) :
  NoDup (map fst l) -> In (id, v) l -> lookup id l = Some v.
Proof.
  induction l as [|[k' v'] l IH]; simpl; intros ND Hin; [contradiction|].
  inversion ND as [|? ? Hn ND']; subst.
  destruct Hin as [E|Hin].
  - injection E as -> ->. rewrite name_eqb_refl. reflexivity.
  - destruct (name_eqb_spec id k') as [->|Hne]; [|apply IH; assumption].
    exfalso. apply Hn. apply (in_map fst) in Hin. exact Hin.
Qed.

(** inserting an element that is strictly after every element of a sorted list appends it *)
Lemma sg_insert_last {A} (leb : A -> A -> bool) (x : A) (l : list A) :
  (forall y, In y l -> leb x y = false) -> insert leb x l = l ++ [x].
Proof.
  induction l as [|y l IH]; intros H; simpl; [reflexivity|].
  rewrite (H y (or_introl eq_refl)). f_equal. apply IH. intros z Hz. apply H. right; exact Hz.
Qed.

Lemma sg_sorted_app_last (l : list edge) (x : edge) :
  StronglySorted (Base.le pair_leb_e) (l ++ [x]) -> NoDup (map edge_key (l ++ [x])) ->
  forall y, In y l -> pair_leb_e x y = false.
Proof.
  induction l as [|z l IH]; intros S ND y Hy; [contradiction|].
  simpl in S, ND. inversion S as [|? ? S' Hall]; subst. inversion ND as [|? ? Hn ND']; subst.
  destruct Hy as [->|Hy]; [|apply IH; assumption].
  rewrite Forall_forall in Hall.
  assert (Hyx : pair_leb_e y x = true) by (apply Hall, in_or_app; right; left; reflexivity).
  destruct (pair_leb_e x y) eqn:E; [|reflexivity]. exfalso. apply Hn.
  assert (Ek : edge_key x = edge_key y) by (apply pair_leb_antisym; assumption).
  rewrite <- Ek. apply in_map, in_or_app. right; left; reflexivity.
Qed.

Lemma sg_nonempty_in {A} (l : list A) : l <> [] -> exists y, In y l.
Proof. destruct l as [|y l]; [congruence|]. intros _. exists y. left; reflexivity. Qed.

Lemma sg_nil_dec {A} (l : list A) : l = [] \/ l <> [].
Proof. destruct l; [left; reflexivity|right; discriminate]. Qed.

(* [tauto] / [intuition] treat a section variable of function type as an implication and would make
   the lemma depend on it: the lemmas that do not speak about the name codec clear it first *)
Ltac sg_clear :=
  repeat match goal with
         | f : name -> option (name * Z) |- _ => clear f
         | f : name -> Z -> option name |- _ => clear f
         end.

Section SubProofs.
  Variable parse : name -> option (name * Z).
  Notation Inv := (Inv parse).
  Notation retag := (retag parse).

  (** * 1. One [add_edge(edge=e, validate=False)] on the abstract state *)

  (** the node list after "create the endpoint if it is not a node yet" *)
  Definition ens (k : kind) (L : list (name * (vtype * meta))) (id : name) (vt : vtype) (m : meta)
    : list (name * (vtype * meta)) :=
    match lookup id L with Some _ => L | None => L ++ [(id, (vt, retag k id m))] end.

  (** every time-series node entry carries the lag parsed from its identifier *)
  Definition TagOK (k : kind) (L : list (name * (vtype * meta))) : Prop :=
    k = TS -> forall id vt m, In (id, (vt, m)) L ->
      exists v l, parse id = Some (v, l) /\ meta_lag m = Some l.

  Lemma ens_tagok k L id vt m :
    TagOK k L -> (k = TS -> parse id <> None) -> TagOK k (ens k L id vt m).
  Proof.
    intros HT Hp Ek i vt' m' Hin. unfold ens in Hin.
    destruct (lookup id L); [apply (HT Ek _ _ _ Hin)|].
    apply in_app_or in Hin. destruct Hin as [Hin|[E|[]]]; [apply (HT Ek _ _ _ Hin)|].
    injection E as <- <- <-. subst k. unfold SerialProofs.retag.
    destruct (parse id) as [[v l]|] eqn:P; [|exfalso; apply (Hp eq_refl); reflexivity].
    exists v, l. split; [reflexivity|apply meta_lag_set_tags].
  Qed.

  Lemma ens_lookup_self k L id vt m : exists x, lookup id (ens k L id vt m) = Some x.
  Proof.
    unfold ens. destruct (lookup id L) as [x|] eqn:E; [exists x; exact E|].
    rewrite sg_lookup_app, E. simpl. rewrite name_eqb_refl. eauto.
  Qed.

  Lemma ens_lookup_keep k L id vt m id' x :
    lookup id' L = Some x -> lookup id' (ens k L id vt m) = Some x.
  Proof.
    intros H. unfold ens. destruct (lookup id L); [exact H|]. rewrite sg_lookup_app, H. reflexivity.
  Qed.

  Lemma s_add_endpoint_obj k a id vt m :
    (k = TS -> parse id <> None) ->
    s_add_endpoint parse k a (id, Some (vt, m))
    = Ok {| a_nodes := ens k (a_nodes a) id vt m; a_edges := a_edges a |}.
  Proof.
    intros Hp. unfold s_add_endpoint, ens, a_has_node. cbn [fst snd].
    destruct (lookup id (a_nodes a)) eqn:E; [destruct a; reflexivity|].
    unfold s_add_node, s_node_meta, a_has_node. rewrite E.
    destruct k; cbn [bind]; [reflexivity|].
    unfold SerialProofs.retag.
    destruct (parse id) as [[v l]|]; [reflexivity|exfalso; apply (Hp eq_refl); reflexivity].
  Qed.

  Lemma a_lag_tagok k a id x :
    TagOK k (a_nodes a) -> k = TS -> lookup id (a_nodes a) = Some x ->
    exists v l, parse id = Some (v, l) /\ a_lag a id = Some l.
  Proof.
    intros HT Ek Hl. destruct x as [vt m]. pose proof (lookup_in _ _ Hl) as Hin.
    destruct (HT Ek _ _ _ Hin) as (v & l & P & Hm). exists v, l. split; [exact P|].
    unfold a_lag. rewrite Hl. exact Hm.
  Qed.

  Lemma s_add_edge_obj k a e vs ms vd md :
    TagOK k (a_nodes a) ->
    esrc e <> edst e ->
    (k = TS -> parse (esrc e) <> None) -> (k = TS -> parse (edst e) <> None) ->
    (k = TS -> (lagp parse (esrc e) <= lagp parse (edst e))%Z) ->
    ~ In (edge_key e) (map edge_key (a_edges a)) ->
    ~ In (edst e, esrc e) (map edge_key (a_edges a)) ->
    s_add_edge parse k a (esrc e, Some (vs, ms)) (edst e, Some (vd, md)) (ety e) (emeta e) false
    = Ok {| a_nodes := ens k (ens k (a_nodes a) (esrc e) vs ms) (edst e) vd md;
            a_edges := insert pair_leb_e e (a_edges a) |}.
  Proof.
    intros HT Hne Hps Hpd Hlag Hk Hr. unfold s_add_edge. cbn [fst snd].
    apply name_eqb_neq in Hne. rewrite Hne.
    rewrite (s_add_endpoint_obj k a (esrc e) vs ms Hps). cbn [bind].
    rewrite (s_add_endpoint_obj k _ (edst e) vd md Hpd). cbn [bind a_nodes a_edges].
    assert (E1 : a_edge_at a (esrc e) (edst e) = None).
    { unfold a_edge_at. apply MatrixProofs.find_edge_none. exact Hk. }
    rewrite E1.
    set (a2 := {| a_nodes := ens k (ens k (a_nodes a) (esrc e) vs ms) (edst e) vd md;
                  a_edges := a_edges a |}).
    assert (HT2 : TagOK k (a_nodes a2)).
    { cbn [a2 a_nodes]. apply ens_tagok; [apply ens_tagok; assumption|assumption]. }
    assert (Hor : s_orient k a2 (esrc e) (edst e) (ety e) = Ok (esrc e, edst e)).
    { unfold s_orient. destruct k; [reflexivity|].
      destruct (ens_lookup_self TS (a_nodes a) (esrc e) vs ms) as (xs & Hxs).
      pose proof (ens_lookup_keep TS _ (edst e) vd md _ _ Hxs) as Hxs'.
      destruct (ens_lookup_self TS (ens TS (a_nodes a) (esrc e) vs ms) (edst e) vd md) as (xd & Hxd).
      destruct (@a_lag_tagok TS a2 (esrc e) xs HT2 eq_refl Hxs') as (v1 & l1 & P1 & L1).
      destruct (@a_lag_tagok TS a2 (edst e) xd HT2 eq_refl Hxd) as (v2 & l2 & P2 & L2).
      rewrite L1, L2. specialize (Hlag eq_refl). unfold lagp in Hlag. rewrite P1, P2 in Hlag.
      destruct (Z.ltb_spec l2 l1); [lia|reflexivity]. }
    rewrite Hor. cbn [bind fst snd]. unfold s_set_edge.
    assert (E2 : a_edge_at a2 (esrc e) (edst e) = None) by exact E1.
    assert (E3 : a_edge_at a2 (edst e) (esrc e) = None).
    { unfold a_edge_at. apply MatrixProofs.find_edge_none. exact Hr. }
    rewrite E2, E3. cbn [andb]. unfold a_insert_edge. cbn [a2 a_nodes a_edges].
    destruct e; reflexivity.
  Qed.

  (** * 2. The concrete steps *)

  Lemma add_node_obj_gmeta k g id vt m g' :
    add_node_obj parse k g id vt m = Ok g' -> gmeta g' = gmeta g.
  Proof.
    unfold add_node_obj. destruct (node_exists g id); [discriminate|].
    destruct (mk_node parse k id vt m) as [n|]; cbn [bind]; [|discriminate].
    unfold idx_add. destruct k.
    - intros [= <-]. reflexivity.
    - destruct (meta_lag (nmeta n)), (meta_var (nmeta n)); try discriminate.
      intros [= <-]. reflexivity.
  Qed.

  Lemma add_node_id_gmeta k g id vt m g' :
    add_node_id parse k g id vt m = Ok g' -> gmeta g' = gmeta g.
  Proof.
    unfold add_node_id. destruct k.
    - destruct (node_exists g id); [discriminate|]. cbn [mk_node bind]. intros [= <-]. reflexivity.
    - destruct (mk_node parse TS id vt _) as [n|]; cbn [bind]; [|discriminate].
      destruct (node_exists g id); [discriminate|].
      destruct (mk_node parse TS id vt (nmeta n)) as [n2|]; cbn [bind]; [|discriminate].
      unfold idx_add. destruct (meta_lag (nmeta n2)), (meta_var (nmeta n2)); try discriminate.
      intros [= <-]. reflexivity.
  Qed.

  Lemma add_endpoint_gmeta k g p g' : add_endpoint parse k g p = Ok g' -> gmeta g' = gmeta g.
  Proof.
    unfold add_endpoint. destruct (node_exists g (fst p)); [intros [= <-]; reflexivity|].
    destruct (snd p) as [[vt m]|]; [apply add_node_obj_gmeta|apply add_node_id_gmeta].
  Qed.

  Lemma set_edge_gmeta g s d ty m v g' : set_edge g s d ty m v = Ok g' -> gmeta g' = gmeta g.
  Proof using Type. sg_clear.
    unfold set_edge. destruct (edge_at g s d); [discriminate|]. destruct (edge_at g d s); [discriminate|].
    destruct v; [|intros [= <-]; reflexivity].
    destruct (Graph.depends_on_itself _ d) as [[|]|]; try discriminate.
    - destruct (delete_edge _ s d None); discriminate.
    - intros [= <-]. reflexivity.
  Qed.

  Lemma add_edge_ok_gmeta k h sp dp ty m v h' :
    fst (add_edge parse k h sp dp ty m v) = Ok h' -> gmeta h' = gmeta h.
  Proof.
    unfold add_edge. destruct (add_edge_try parse k h sp dp ty m v) as [[g2|x] gl] eqn:T;
      cbn [fst]; [|discriminate].
    intros [= <-]. unfold add_edge_try in T. cbv zeta in T.
    destruct (name_eqb (fst sp) (fst dp)); [discriminate|].
    destruct (add_endpoint parse k h sp) as [g1|] eqn:E1; [|discriminate].
    destruct (add_endpoint parse k g1 dp) as [g2'|] eqn:E2; [|discriminate].
    destruct (match edge_at h (fst sp) (fst dp) with Some _ => true | None => false end);
      [discriminate|].
    destruct (orient k g2' (fst sp) (fst dp) ty) as [[s' d']|]; [|discriminate].
    destruct (set_edge g2' s' d' ty _ v) as [g3|] eqn:E3; [|discriminate].
    injection T as <- _.
    rewrite (set_edge_gmeta _ _ _ _ _ _ _ E3), (add_endpoint_gmeta _ _ _ _ E2), (add_endpoint_gmeta _ _ _ _ E1).
    reflexivity.
  Qed.

  (** the attributes of the node object an edge of [g] holds *)
  Definition attr (g : graph) (id : name) : vtype * meta :=
    match get_node g id with Some n => (nvt n, nmeta n) | None => (VUnspec, []) end.

  (** the entry the sub-graph gets for the node [id] of [g] *)
  Definition entry (k : kind) (g : graph) (id : name) : vtype * meta :=
    (fst (attr g id), retag k id (snd (attr g id))).

  Definition ens_e (k : kind) (g : graph) (L : list (name * (vtype * meta))) (e : edge) :=
    ens k (ens k L (esrc e) (fst (attr g (esrc e))) (snd (attr g (esrc e))))
      (edst e) (fst (attr g (edst e))) (snd (attr g (edst e))).

  Lemma attr_of_in g id :
    In id (node_ids g) -> attr_of g id = Some (attr g id).
  Proof using Type. sg_clear.
    intros H. destruct (get_node_in g id H) as (n & G & _ & _). unfold attr_of, attr. rewrite G.
    reflexivity.
  Qed.

  Lemma node_parses k g id : Inv k g -> In id (node_ids g) -> k = TS -> parse id <> None.
  Proof.
    intros HI H Ek. destruct (get_node_in g id H) as (n & _ & Hn & <-).
    destruct (ts_nodeok (inv_ts HI Ek) n Hn) as (v & l & P & _). congruence.
  Qed.

  Lemma edge_lagp k g e :
    Inv k g -> In e (gsrc g) -> k = TS -> (lagp parse (esrc e) <= lagp parse (edst e))%Z.
  Proof.
    intros HI He Ek. subst k.
    destruct (ts_time (inv_ts HI eq_refl) e He) as (ls & ld & Ls & Ld & Hle).
    rewrite (@lagp_node_lag parse g _ _ HI Ls), (@lagp_node_lag parse g _ _ HI Ld). exact Hle.
  Qed.

  Lemma abs_tagok k h : Inv k h -> TagOK k (a_nodes (abs h)).
  Proof.
    intros HI Ek id vt m Hin.
    destruct (wf_ts_nodes (abs_wf parse k h HI) Ek id vt m Hin) as (v & l & P & _ & L). eauto.
  Qed.

  Lemma add_edge_of_step k g h e :
    Inv k g -> Inv k h -> In e (gsrc g) ->
    ~ In (edge_key e) (map edge_key (a_edges (abs h))) ->
    ~ In (edst e, esrc e) (map edge_key (a_edges (abs h))) ->
    exists h', add_edge_of parse k g (Ok h) e = Ok h' /\ Inv k h' /\ gmeta h' = gmeta h
      /\ a_nodes (abs h') = ens_e k g (a_nodes (abs h)) e
      /\ a_edges (abs h') = insert pair_leb_e e (a_edges (abs h)).
  Proof.
    intros HI HIh He Hk Hr.
    destruct (inv_endpoints HI e He) as [Hs Hd].
    unfold add_edge_of. cbn [bind]. rewrite (attr_of_in g _ Hs), (attr_of_in g _ Hd).
    destruct (attr g (esrc e)) as [vs ms] eqn:As. destruct (attr g (edst e)) as [vd md] eqn:Ad.
    pose proof (refines_add_edge parse k h (esrc e, Some (vs, ms)) (edst e, Some (vd, md))
                  (ety e) (Some (emeta e)) false HIh) as [_ R].
    cbn [dflt] in R.
    rewrite (s_add_edge_obj k (abs h) e vs ms vd md (abs_tagok k h HIh) (inv_noloop HI e He)
               (node_parses k g _ HI Hs) (node_parses k g _ HI Hd) (edge_lagp k g e HI He) Hk Hr) in R.
    cbn [s_lift fst] in R.
    destruct (fst (add_edge parse k h (esrc e, Some (vs, ms)) (edst e, Some (vd, md)) (ety e)
                     (Some (emeta e)) false)) as [h'|x] eqn:A; cbn [rel_res] in R; [|contradiction].
    exists h'. split; [reflexivity|]. split; [eapply inv_add_edge_ok; eassumption|].
    split; [eapply add_edge_ok_gmeta; exact A|].
    rewrite R. cbn [a_nodes a_edges]. unfold ens_e. rewrite As, Ad. split; reflexivity.
  Qed.

  Lemma add_edge_of_err k g x e : add_edge_of parse k g (Err x) e = Err x.
  Proof. reflexivity. Qed.

  Lemma add_edges_fold k g : forall E2 E1 h,
    Inv k g -> Inv k h -> a_edges (abs h) = E1 ->
    StronglySorted (Base.le pair_leb_e) (E1 ++ E2) -> NoDup (map edge_key (E1 ++ E2)) ->
    (forall e, In e (E1 ++ E2) -> In e (gsrc g)) ->
    exists h', fold_left (add_edge_of parse k g) E2 (Ok h) = Ok h' /\ Inv k h'
      /\ gmeta h' = gmeta h
      /\ a_nodes (abs h') = fold_left (ens_e k g) E2 (a_nodes (abs h))
      /\ a_edges (abs h') = E1 ++ E2.
  Proof.
    induction E2 as [|e E2 IH]; intros E1 h HI HIh HE HS HND Hin.
    - exists h. rewrite app_nil_r. cbn [fold_left]. auto.
    - assert (Hsplit : E1 ++ e :: E2 = (E1 ++ [e]) ++ E2) by (rewrite <- app_assoc; reflexivity).
      assert (He : In e (gsrc g)) by (apply Hin, in_or_app; right; left; reflexivity).
      assert (HND1 : NoDup (map edge_key (E1 ++ [e]))).
      { rewrite Hsplit, map_app in HND. apply NoDup_app_l in HND. exact HND. }
      assert (HS1 : StronglySorted (Base.le pair_leb_e) (E1 ++ [e])).
      { rewrite Hsplit in HS. clear -HS. induction (E1 ++ [e]) as [|y l IHl]; [constructor|].
        simpl in HS. inversion HS as [|? ? S' Hall]; subst. constructor; [apply IHl, S'|].
        rewrite Forall_forall in *. intros z Hz. apply Hall, in_or_app. left; exact Hz. }
      assert (Hk : ~ In (edge_key e) (map edge_key (a_edges (abs h)))).
      { rewrite HE. rewrite map_app in HND1. cbn [map] in HND1.
        apply NoDup_remove_2 in HND1. rewrite app_nil_r in HND1. exact HND1. }
      assert (Hr : ~ In (edst e, esrc e) (map edge_key (a_edges (abs h)))).
      { rewrite HE. intros H. apply in_map_iff in H. destruct H as (e' & Ek & He').
        assert (He'g : In e' (gsrc g)) by (apply Hin, in_or_app; left; exact He').
        apply (inv_noreverse HI e He). rewrite <- Ek. apply in_map. exact He'g. }
      destruct (add_edge_of_step k g h e HI HIh He Hk Hr) as (h1 & A1 & HI1 & M1 & N1 & Ed1).
      cbn [fold_left]. rewrite A1.
      assert (HE1 : a_edges (abs h1) = E1 ++ [e]).
      { rewrite Ed1, HE. apply sg_insert_last. apply sg_sorted_app_last; assumption. }
      destruct (IH (E1 ++ [e]) h1 HI HI1 HE1) as (h' & F & HI' & M' & N' & Ed').
      + rewrite <- Hsplit. exact HS.
      + rewrite <- Hsplit. exact HND.
      + rewrite <- Hsplit. exact Hin.
      + exists h'. split; [exact F|]. split; [exact HI'|]. split; [congruence|].
        split; [rewrite N', N1; reflexivity|rewrite Ed', <- Hsplit; reflexivity].
  Qed.

  (** the nodes-only branch ([filtered_edges] is empty) *)
  Lemma add_nodes_fold k g : forall nodes h,
    Inv k g -> Inv k h -> NoDup nodes ->
    (forall x, In x nodes -> In x (node_ids g) /\ ~ In x (node_ids h)) ->
    exists h', fold_left (add_node_of parse k g) nodes (Ok h) = Ok h' /\ Inv k h'
      /\ gmeta h' = gmeta h
      /\ a_nodes (abs h') = a_nodes (abs h) ++ map (fun x => (x, entry k g x)) nodes
      /\ a_edges (abs h') = a_edges (abs h).
  Proof.
    induction nodes as [|x nodes IH]; intros h HI HIh HND Hx.
    - exists h. cbn [fold_left map]. rewrite app_nil_r. auto.
    - inversion HND as [|? ? Hnot HND']; subst.
      destruct (Hx x (or_introl eq_refl)) as [Hxg Hxh].
      destruct (get_node_in g x Hxg) as (n & G & Hn & Hid).
      cbn [fold_left]. unfold add_node_of at 2. cbn [bind]. rewrite G.
      pose proof (refines_add_node_obj parse k h (nid n) (nvt n) (nmeta n) HIh) as R.
      assert (Hs : s_add_node parse k (abs h) (nid n) (nvt n) (nmeta n)
                   = Ok (a_push_node (abs h) x (nvt n) (retag k x (nmeta n)))).
      { unfold s_add_node, s_node_meta. rewrite abs_has_node, Hid.
        rewrite (proj2 (at_node_exists_false h x) Hxh).
        destruct k; cbn [bind]; [reflexivity|]. unfold SerialProofs.retag.
        destruct (parse x) as [[v l]|] eqn:P; [reflexivity|].
        exfalso. apply (node_parses TS g x HI Hxg eq_refl). exact P. }
      rewrite Hs in R.
      destruct (add_node_obj parse k h (nid n) (nvt n) (nmeta n)) as [h1|e] eqn:A;
        cbn [rel_res] in R; [|contradiction].
      assert (HI1 : Inv k h1) by (eapply inv_add_node_obj; eassumption).
      destruct (IH h1 HI HI1 HND') as (h' & F & HI' & M' & N' & E').
      + intros y Hy. destruct (Hx y (or_intror Hy)) as [Hyg Hyh]. split; [exact Hyg|].
        rewrite <- abs_ids, R. unfold a_ids, a_push_node. cbn [a_nodes]. rewrite map_app, in_app_iff.
        cbn [map fst]. intros [H|[H|[]]].
        * apply Hyh. rewrite <- abs_ids. exact H.
        * subst y. contradiction.
      + exists h'. split; [exact F|]. split; [exact HI'|].
        split; [rewrite M'; eapply add_node_obj_gmeta; exact A|].
        rewrite N', E', R. unfold a_push_node. cbn [a_nodes a_edges map]. rewrite <- app_assoc.
        cbn [app]. unfold entry, attr. rewrite G. cbn [fst snd]. split; reflexivity.
  Qed.

  (** * 3. The node entries created by the edge loop *)

  Lemma lookup_some_fst {V} id (L : list (name * V)) x : lookup id L = Some x -> In id (map fst L).
  Proof using Type. sg_clear. intros H. apply lookup_in in H. apply (in_map fst) in H. exact H. Qed.

  Lemma ens_ids k L id vt m x :
    In x (map fst (ens k L id vt m)) <-> In x (map fst L) \/ x = id.
  Proof.
    unfold ens. destruct (lookup id L) as [y|] eqn:E.
    - split; [auto|]. intros [H| ->]; [exact H|eapply lookup_some_fst; exact E].
    - rewrite map_app, in_app_iff. cbn [map fst In]. intuition congruence.
  Qed.

  Lemma ens_e_ids k g L e x :
    In x (map fst (ens_e k g L e)) <-> In x (map fst L) \/ x = esrc e \/ x = edst e.
  Proof. unfold ens_e. rewrite !ens_ids. tauto. Qed.

  Lemma fold_ens_ids k g : forall E L x,
    In x (map fst (fold_left (ens_e k g) E L)) <-> In x (map fst L) \/ In x (endpoints_of E).
  Proof.
    induction E as [|e E IH]; intros L x; [simpl; tauto|].
    cbn [fold_left]. rewrite IH, ens_e_ids.
    change (endpoints_of (e :: E)) with (esrc e :: edst e :: endpoints_of E). cbn [In].
    intuition.
  Qed.

  Definition entries_ok (k : kind) (g : graph) (L : list (name * (vtype * meta))) : Prop :=
    forall id y, In (id, y) L -> y = entry k g id.

  Lemma ens_entries k g L id :
    entries_ok k g L -> entries_ok k g (ens k L id (fst (attr g id)) (snd (attr g id))).
  Proof.
    intros H i y Hin. unfold ens in Hin. destruct (lookup id L); [apply H, Hin|].
    apply in_app_or in Hin. destruct Hin as [Hin|[E|[]]]; [apply H, Hin|].
    injection E as <- <-. reflexivity.
  Qed.

  Lemma fold_ens_entries k g : forall E L,
    entries_ok k g L -> entries_ok k g (fold_left (ens_e k g) E L).
  Proof.
    induction E as [|e E IH]; intros L H; cbn [fold_left]; [exact H|].
    apply IH. unfold ens_e. apply ens_entries, ens_entries, H.
  Qed.

  (** * 4. From the abstract node entries to the sorted node view *)

  Definition in_set (S : list name) (t : name * vtype * meta) : bool := mem (id3 t) S.

  Lemma retag3_id k t : id3 (retag3 parse k t) = id3 t.
  Proof. reflexivity. Qed.

  Lemma v_nodes_nodup_ids k g : Inv k g -> NoDup (map id3 (v_nodes g)).
  Proof.
    intros HI. eapply Permutation_NoDup; [apply Permutation_map, v_nodes_perm_gnodes|].
    rewrite map_id3_node3. apply (inv_nodup_nodes HI).
  Qed.

  Lemma NoDup_of_map {A B} (f : A -> B) l : NoDup (map f l) -> NoDup l.
  Proof using Type. sg_clear.
    induction l as [|a l IH]; simpl; intros H; [constructor|].
    inversion H as [|? ? Hn H']; subst. constructor; [|apply IH, H'].
    intros Hin. apply Hn, in_map, Hin.
  Qed.

  Lemma NoDup_map_filter {A B} (f : A -> B) (p : A -> bool) l :
    NoDup (map f l) -> NoDup (map f (filter p l)).
  Proof using Type. sg_clear.
    induction l as [|a l IH]; simpl; intros H; [constructor|].
    inversion H as [|? ? Hn H']; subst. destruct (p a); [|apply IH, H'].
    simpl. constructor; [|apply IH, H'].
    intros Hin. apply Hn. apply in_map_iff in Hin. destruct Hin as (b & Eb & Hb).
    apply filter_In in Hb. rewrite <- Eb. apply in_map, Hb.
  Qed.

  Lemma sub_v_nodes k g h S :
    Inv k g -> Inv k h -> incl S (node_ids g) ->
    entries_ok k g (a_nodes (abs h)) ->
    (forall id, In id (node_ids h) <-> In id S) ->
    v_nodes h = map (retag3 parse k) (filter (in_set S) (v_nodes g)).
  Proof.
    intros HI HIh HS Hent Hids.
    set (R := map (retag3 parse k) (filter (in_set S) (v_nodes g))).
    assert (HidR : map id3 R = map id3 (filter (in_set S) (v_nodes g))).
    { unfold R. rewrite map_map. apply map_ext. intros t; reflexivity. }
    assert (NDR : NoDup (map id3 R)).
    { rewrite HidR. apply NoDup_map_filter, (v_nodes_nodup_ids k g HI). }
    symmetry. apply (@sorted_perm_eq_key _ _ id3 name_leb name_leb_antisym).
    - exact NDR.
    - unfold R. apply (retag3_sorted parse), sp_filter_sorted, v_nodes_sorted.
    - apply v_nodes_sorted.
    - apply NoDup_Permutation.
      + apply (NoDup_of_map id3), NDR.
      + apply (NoDup_of_map id3), (v_nodes_nodup_ids k h HIh).
      + intros t. split.
        * intros Ht. unfold R in Ht. apply in_map_iff in Ht. destruct Ht as (t0 & <- & Ht0).
          apply filter_In in Ht0. destruct Ht0 as [Ht0 Hm].
          apply v_nodes_in in Ht0. destruct Ht0 as (n & Hn & <-).
          unfold in_set in Hm. apply mem_in in Hm. cbn [id3 node3 fst] in Hm.
          apply Hids in Hm. unfold node_ids in Hm. apply in_map_iff in Hm.
          destruct Hm as (n' & En' & Hn').
          apply v_nodes_in. exists n'. split; [exact Hn'|].
          assert (Hab : In (abs_node n') (a_nodes (abs h))) by (cbn [abs a_nodes]; apply in_map, Hn').
          unfold abs_node in Hab. apply Hent in Hab. unfold entry, attr in Hab.
          rewrite En' in Hab. unfold get_node in Hab.
          rewrite (at_find_node_in (gnodes g) n (inv_nodup_nodes HI) Hn) in Hab. cbn [fst snd] in Hab.
          unfold retag3, node3, id3. cbn [fst snd]. injection Hab as -> ->. rewrite En'. reflexivity.
        * intros Ht. apply v_nodes_in in Ht. destruct Ht as (n' & Hn' & <-).
          assert (Hid : In (nid n') S) by (apply Hids, in_map, Hn').
          pose proof (HS _ Hid) as Hg. destruct (get_node_in g _ Hg) as (n & G & Hn & En).
          assert (Hab : In (abs_node n') (a_nodes (abs h))) by (cbn [abs a_nodes]; apply in_map, Hn').
          unfold abs_node in Hab. apply Hent in Hab. unfold entry, attr in Hab. rewrite G in Hab.
          cbn [fst snd] in Hab. injection Hab as Hv Hm.
          unfold R. apply in_map_iff. exists (node3 n). split.
          -- unfold retag3, node3, id3. cbn [fst snd]. rewrite En, Hv, Hm. reflexivity.
          -- apply filter_In. split; [apply v_nodes_in; exists n; auto|].
             unfold in_set, node3, id3. cbn [fst]. apply mem_in. rewrite En. exact Hid.
  Qed.

  (** * 5. [_get_subgraph] *)

  (** the node set of the returned graph: the listed nodes when no edge is kept, otherwise the
      endpoints of the kept edges *)
  Definition sub_node_set (g : graph) (nodes : list name) : list name :=
    match sub_edges g nodes with
    | [] => nodes
    | _ :: _ => endpoints_of (sub_edges g nodes)
    end.

  (** [h] holds exactly the nodes [S] of [g] (identifier and variable type unchanged, metadata
      with the reserved tags re-derived from the identifier, which for the plain class and for
      every tag-stable time-series state is the metadata itself), exactly the edges [E] (with
      their types and metadata), and the graph metadata of [g] *)
  Definition carved (k : kind) (g h : graph) (S : list name) (E : list edge) : Prop :=
    Inv k h /\ gmeta h = gmeta g /\ v_edges h = E
    /\ v_nodes h = map (retag3 parse k) (filter (in_set S) (v_nodes g))
    /\ (forall id, In id (node_ids h) <-> In id S).

  Lemma sub_edges_in g nodes e :
    In e (sub_edges g nodes) <-> In e (gsrc g) /\ In (esrc e) nodes /\ In (edst e) nodes.
  Proof using Type. sg_clear.
    unfold sub_edges. rewrite filter_In, v_edges_in, andb_true_iff, !mem_in. tauto.
  Qed.

  Lemma endpoints_of_in es x : In x (endpoints_of es) <-> exists e, In e es /\ (x = esrc e \/ x = edst e).
  Proof using Type. sg_clear.
    unfold endpoints_of. rewrite in_flat_map. split; intros (e & He & H); exists e; (split; [exact He|]);
      cbn [In] in *; intuition.
  Qed.

  Lemma abs_empty_nodes m : a_nodes (abs (empty_graph m)) = [] /\ a_edges (abs (empty_graph m)) = [].
  Proof using Type. sg_clear. split; reflexivity. Qed.

  Theorem get_subgraph_spec k g nodes :
    Inv k g ->
    (sub_edges g nodes = [] -> NoDup nodes /\ incl nodes (node_ids g)) ->
    exists h, get_subgraph parse k g nodes = Ok h
              /\ carved k g h (sub_node_set g nodes) (sub_edges g nodes).
  Proof.
    intros HI Hnone. unfold get_subgraph, sub_node_set. cbv zeta.
    pose proof (inv_empty parse k (gmeta g)) as HI0.
    destruct (sub_edges g nodes) as [|e0 E] eqn:HE.
    - destruct (Hnone eq_refl) as [HND Hincl].
      destruct (add_nodes_fold k g nodes (empty_graph (gmeta g)) HI HI0 HND) as (h & F & HIh & M & N & Ed).
      { intros x Hx. split; [apply Hincl, Hx|intros []]. }
      cbn [fold_left]. exists h. split; [exact F|].
      assert (Hids : forall id, In id (node_ids h) <-> In id nodes).
      { intros id. rewrite <- abs_ids. unfold a_ids. rewrite N. cbn [abs a_nodes empty_graph gnodes map app].
        rewrite map_map. cbn [fst]. rewrite map_id. tauto. }
      split; [exact HIh|]. split; [exact M|]. split; [exact Ed|]. split; [|exact Hids].
      apply (sub_v_nodes k g h nodes HI HIh Hincl); [|exact Hids].
      intros id y Hin. rewrite N in Hin. cbn [abs a_nodes empty_graph gnodes map app] in Hin.
      apply in_map_iff in Hin. destruct Hin as (x & E & _). injection E as <- <-. reflexivity.
    - rewrite <- HE.
      assert (Hsub : forall e, In e (sub_edges g nodes) -> In e (gsrc g))
        by (intros e He; apply sub_edges_in in He; apply He).
      destruct (add_edges_fold k g (sub_edges g nodes) [] (empty_graph (gmeta g)) HI HI0 eq_refl)
        as (h & F & HIh & M & N & Ed).
      + cbn [app]. unfold sub_edges. apply sp_filter_sorted, sorted_edges_sorted.
      + cbn [app]. unfold sub_edges. apply at_nodup_keys_filter, (sp_nodup_sorted_keys parse k g HI).
      + cbn [app]. exact Hsub.
      + exists h. split; [rewrite HE in F |- *; exact F|].
        assert (Hids : forall id, In id (node_ids h) <-> In id (endpoints_of (sub_edges g nodes))).
        { intros id. rewrite <- abs_ids. unfold a_ids. rewrite N, fold_ens_ids. cbn. tauto. }
        split; [exact HIh|]. split; [exact M|]. split; [exact Ed|]. split; [|exact Hids].
        apply (sub_v_nodes k g h _ HI HIh); [| |exact Hids].
        * intros x Hx. apply endpoints_of_in in Hx. destruct Hx as (e & He & Hx).
          destruct (inv_endpoints HI e (Hsub e He)) as [H1 H2]. destruct Hx as [->| ->]; assumption.
        * rewrite N. apply fold_ens_entries. intros id y [].
  Qed.

  (** * 6. Ancestral / descendant sub-graphs *)

  (** what the proofs need of the networkx view [d] of [g]: a well-formed digraph every arc of
      which joins the two endpoints of an edge of [g] *)
  Definition view_ok (g : graph) (d : digraph name) : Prop :=
    wf d
    /\ forall a b, arc d a b ->
         exists e, In e (gsrc g) /\ ((esrc e = a /\ edst e = b) \/ (esrc e = b /\ edst e = a)).

  Lemma view_ok_rev g d : view_ok g d -> view_ok g (rev_graph d).
  Proof using Type. sg_clear.
    intros [W A]. split; [apply rev_wf, W|].
    intros a b Hab. apply -> rev_arc in Hab. destruct (A b a Hab) as (e & He & H). exists e. tauto.
  Qed.

  Lemma fully_directed_spec g : fully_directed g = true <-> forall e, In e (gsrc g) -> ety e = Dir.
  Proof using Type. sg_clear.
    unfold fully_directed. rewrite forallb_forall. split; intros H e He.
    - apply v_edges_in in He. specialize (H e He). destruct (etype_eqb_spec (ety e) Dir); congruence.
    - apply v_edges_in in He. rewrite (H e He). reflexivity.
  Qed.

  Lemma fully_undirected_spec g : fully_undirected g = true <-> forall e, In e (gsrc g) -> ety e = Und.
  Proof using Type. sg_clear.
    unfold fully_undirected. rewrite forallb_forall. split; intros H e He.
    - apply v_edges_in in He. specialize (H e He). destruct (etype_eqb_spec (ety e) Und); congruence.
    - apply v_edges_in in He. rewrite (H e He). reflexivity.
  Qed.

  (** a fully directed graph is handed to networkx as its own directed part *)
  Lemma nx_view_directed g : fully_directed g = true -> nx_view g = Ok (dgraph g).
  Proof using Type. sg_clear.
    intros H. unfold nx_view. rewrite H. cbn [negb andb]. unfold dgraph, nx_arcs. do 3 f_equal.
    symmetry. apply at_filter_all_true. intros e He.
    rewrite (proj1 (fully_directed_spec g) H e He). reflexivity.
  Qed.

  Lemma nx_view_mixed g :
    fully_directed g = false -> fully_undirected g = false -> nx_view g = Err EConv.
  Proof using Type. sg_clear. intros H1 H2. unfold nx_view. rewrite H1, H2. reflexivity. Qed.

  Lemma nx_view_ok k g d : Inv k g -> nx_view g = Ok d -> view_ok g d.
  Proof.
    intros HI. unfold nx_view.
    destruct (fully_directed g) eqn:Fd; cbn [negb andb].
    - intros [= <-]. split.
      + split; [apply (inv_nodup_nodes HI)|]. intros a b Hab. unfold arc, nx_arcs in Hab. cbn [arcs] in Hab.
        apply in_map_iff in Hab. destruct Hab as (e & Ek & He). injection Ek as <- <-.
        apply (inv_endpoints HI e He).
      + intros a b Hab. unfold arc, nx_arcs in Hab. cbn [arcs] in Hab.
        apply in_map_iff in Hab. destruct Hab as (e & Ek & He). injection Ek as <- <-.
        exists e. auto.
    - destruct (fully_undirected g) eqn:Fu; cbn [negb]; [|discriminate].
      intros [= <-].
      assert (HA : forall a b, arc {| verts := node_ids g; arcs := sym_arcs (nx_arcs g) |} a b ->
                   exists e, In e (gsrc g) /\ ((esrc e = a /\ edst e = b) \/ (esrc e = b /\ edst e = a))).
      { intros a b Hab. unfold arc, sym_arcs, nx_arcs in Hab. cbn [arcs] in Hab.
        apply in_app_or in Hab. destruct Hab as [Hab|Hab].
        - apply in_map_iff in Hab. destruct Hab as (e & Ek & He). injection Ek as <- <-. exists e. auto.
        - apply in_map_iff in Hab. destruct Hab as (p & Ep & Hp). apply in_map_iff in Hp.
          destruct Hp as (e & Ek & He). subst p. cbn [edge_key fst snd] in Ep. injection Ep as <- <-.
          exists e. auto. }
      split; [|exact HA]. split; [apply (inv_nodup_nodes HI)|].
      intros a b Hab. destruct (HA a b Hab) as (e & He & H).
      destruct (inv_endpoints HI e He) as [H1 H2].
      destruct H as [[<- <-]|[<- <-]]; auto.
  Qed.

  Section Closure.
    Variable k : kind.
    Variable g : graph.
    Variable d : digraph name.
    Variable x : name.
    Variable l : list name.
    Hypothesis HI : Inv k g.
    Hypothesis HV : view_ok g d.
    Hypothesis Hx : In x (node_ids g).
    Hypothesis HND : NoDup l.
    Hypothesis Hl : forall y, In y l <-> y <> x /\ path d x y.

    Let nodes := l ++ [x].

    Lemma cl_no_self a : ~ arc d a a.
    Proof.
      intros H. destruct (proj2 HV a a H) as (e & He & Hk).
      apply (inv_noloop HI e He). destruct Hk as [[-> ->]|[-> ->]]; reflexivity.
    Qed.

    Lemma cl_in_nodes y : In y nodes <-> y = x \/ path d x y.
    Proof.
      unfold nodes. rewrite in_app_iff, Hl. cbn [In]. split.
      - intros [[_ H]|[H|[]]]; auto.
      - intros [->|H]; [auto|]. destruct (name_eq_dec y x) as [->|Hne]; auto.
    Qed.

    Lemma cl_arc_edge a b :
      arc d a b -> In a nodes -> In b nodes ->
      exists e, In e (sub_edges g nodes) /\ ((esrc e = a /\ edst e = b) \/ (esrc e = b /\ edst e = a)).
    Proof.
      intros Hab Ha Hb. destruct (proj2 HV a b Hab) as (e & He & Hk). exists e. split; [|exact Hk].
      apply sub_edges_in. split; [exact He|]. destruct Hk as [[-> ->]|[-> ->]]; auto.
    Qed.

    Lemma cl_touch y : In y l -> exists e, In e (sub_edges g nodes) /\ (y = esrc e \/ y = edst e).
    Proof.
      intros Hy. pose proof (proj1 (Hl y) Hy) as [Hne Hp].
      destruct (path_last Hp) as (z & Hzy & Hz).
      assert (Hzn : In z nodes) by (apply cl_in_nodes; destruct Hz as [<-|Hz]; auto).
      assert (Hyn : In y nodes) by (apply cl_in_nodes; auto).
      destruct (cl_arc_edge z y Hzy Hzn Hyn) as (e & He & Hk). exists e. split; [exact He|].
      destruct Hk as [[_ <-]|[<- _]]; auto.
    Qed.

    Lemma cl_touch_x : l <> [] -> exists e, In e (sub_edges g nodes) /\ (x = esrc e \/ x = edst e).
    Proof.
      intros Hne. destruct (sg_nonempty_in l Hne) as (y & Hy).
      pose proof (proj1 (Hl y) Hy) as [_ Hp].
      destruct (path_first Hp) as (z & Hxz & _).
      assert (Hzn : In z nodes) by (apply cl_in_nodes; right; apply path_arc, Hxz).
      assert (Hxn : In x nodes) by (apply cl_in_nodes; auto).
      destruct (cl_arc_edge x z Hxz Hxn Hzn) as (e & He & Hk). exists e. split; [exact He|].
      destruct Hk as [[<- _]|[_ <-]]; auto.
    Qed.

    Lemma cl_edges_nil : sub_edges g nodes = [] -> l = [].
    Proof.
      intros HE. destruct (sg_nil_dec l) as [Hnil|Hne]; [exact Hnil|]. exfalso.
      destruct (sg_nonempty_in l Hne) as (y & Hy).
      destruct (cl_touch y Hy) as (e & He & _). rewrite HE in He. exact He.
    Qed.

    Lemma cl_nodup : NoDup nodes.
    Proof.
      unfold nodes. apply NoDup_app_intro; [exact HND|repeat constructor; intros []|].
      intros y Hy [<-|[]]. apply Hl in Hy. destruct Hy as [Hne _]. apply Hne; reflexivity.
    Qed.

    Lemma cl_incl : incl nodes (node_ids g).
    Proof.
      intros y Hy. apply cl_in_nodes in Hy. destruct Hy as [->|Hp]; [exact Hx|].
      pose proof (path_in_verts (proj1 HV) Hp) as [_ H].
      (* the last arc of the path is an edge of g *)
      destruct (path_last Hp) as (z & Hzy & _).
      destruct (proj2 HV z y Hzy) as (e & He & Hk). destruct (inv_endpoints HI e He) as [H1 H2].
      destruct Hk as [[_ <-]|[<- _]]; assumption.
    Qed.

    Lemma cl_node_set y : In y (sub_node_set g nodes) <-> In y nodes.
    Proof.
      unfold sub_node_set. destruct (sub_edges g nodes) as [|e0 E] eqn:HE; [tauto|]. rewrite <- HE.
      split.
      - intros Hy. apply endpoints_of_in in Hy. destruct Hy as (e & He & Hk).
        apply sub_edges_in in He. destruct He as (_ & H1 & H2). destruct Hk as [-> | ->]; assumption.
      - intros Hy. apply endpoints_of_in. unfold nodes in Hy. apply in_app_or in Hy.
        destruct Hy as [Hy|[<-|[]]]; [apply cl_touch, Hy|].
        apply cl_touch_x. intros Hnil.
        (* an edge kept although only x is listed would be a self loop *)
        assert (He0 : In e0 (sub_edges g nodes)) by (rewrite HE; left; reflexivity).
        apply sub_edges_in in He0. destruct He0 as (He0 & H1 & H2).
        unfold nodes in H1, H2. rewrite Hnil in H1, H2. cbn [app In] in H1, H2.
        apply (inv_noloop HI e0 He0). destruct H1 as [<-|[]]. destruct H2 as [<-|[]]. reflexivity.
    Qed.

    Lemma carved_set_ext h S S' E :
      (forall y, In y S <-> In y S') -> carved k g h S E -> carved k g h S' E.
    Proof.
      intros HS (A & B & C & D & F). split; [exact A|]. split; [exact B|]. split; [exact C|]. split.
      - rewrite D. f_equal. apply filter_ext. intros t. unfold in_set.
        apply eq_true_iff_eq. rewrite !mem_in. apply HS.
      - intros id. rewrite F. apply HS.
    Qed.

    (** the sub-graph of a node and everything reachable from it in the view *)
    Theorem closure_subgraph :
      exists h, get_subgraph parse k g nodes = Ok h /\ carved k g h nodes (sub_edges g nodes).
    Proof.
      destruct (get_subgraph_spec k g nodes HI) as (h & Hh & Hc).
      - intros HE. pose proof (cl_edges_nil HE) as Hnil. split; [apply cl_nodup|apply cl_incl].
      - exists h. split; [exact Hh|]. eapply carved_set_ext; [|exact Hc]. apply cl_node_set.
    Qed.
  End Closure.

  (** * 7. The two pruning loops of [get_parents_graph] / [get_children_graph] *)

  Lemma drop_edge_unique (A B : list edge) e :
    NoDup (map edge_key (A ++ e :: B)) -> drop_edge (esrc e) (edst e) (A ++ e :: B) = A ++ B.
  Proof using Type. sg_clear.
    intros ND. unfold drop_edge. rewrite filter_app. cbn [filter].
    rewrite !name_eqb_refl. cbn [andb negb].
    assert (Hother : forall l, (forall e', In e' l -> edge_key e' <> edge_key e) ->
              filter (fun e0 => negb (name_eqb (esrc e) (esrc e0) && name_eqb (edst e) (edst e0))) l = l).
    { intros l H. apply at_filter_all_true. intros e' He'. apply negb_true_iff.
      destruct (name_eqb_spec (esrc e) (esrc e')) as [E1|]; [|reflexivity].
      destruct (name_eqb_spec (edst e) (edst e')) as [E2|]; [|reflexivity].
      exfalso. apply (H e' He'). unfold edge_key. congruence. }
    rewrite map_app in ND. cbn [map] in ND.
    pose proof (NoDup_remove_2 _ _ _ ND) as Hn.
    rewrite !Hother; [reflexivity| |].
    - intros e' He' Ek. apply Hn. apply in_or_app. right. rewrite <- Ek. apply in_map, He'.
    - intros e' He' Ek. apply Hn. apply in_or_app. left. rewrite <- Ek. apply in_map, He'.
  Qed.

  Definition prune_edge_step (keep : edge -> bool) (acc : res graph) (e : edge) : res graph :=
    bind acc (fun h => if keep e then Ok h else delete_edge h (esrc e) (edst e) None).
  Definition prune_node_step (k : kind) (kept : list name) (acc : res graph) (n : node) : res graph :=
    bind acc (fun h => if mem (nid n) kept then Ok h else delete_node k h (nid n)).

  Lemma prune_edges_fold k keep : forall R P h,
    Inv k h -> a_edges (abs h) = filter keep P ++ R ->
    NoDup (map edge_key (P ++ R)) ->
    exists h', fold_left (prune_edge_step keep) R (Ok h) = Ok h' /\ Inv k h'
      /\ gmeta h' = gmeta h /\ a_nodes (abs h') = a_nodes (abs h)
      /\ a_edges (abs h') = filter keep (P ++ R).
  Proof.
    induction R as [|e R IH]; intros P h HI HE HND.
    - exists h. rewrite app_nil_r in *. cbn [fold_left]. auto.
    - assert (Hsplit : P ++ e :: R = (P ++ [e]) ++ R) by (rewrite <- app_assoc; reflexivity).
      cbn [fold_left]. unfold prune_edge_step at 2. cbn [bind].
      destruct (keep e) eqn:Ke.
      + destruct (IH (P ++ [e]) h HI) as (h' & F & HI' & M & N & Ed).
        * rewrite filter_app. cbn [filter]. rewrite Ke, <- app_assoc. exact HE.
        * rewrite <- Hsplit. exact HND.
        * exists h'. rewrite Hsplit. auto.
      + pose proof (refines_delete_edge parse k h (esrc e) (edst e) None HI) as R1.
        assert (NDh : NoDup (map edge_key (filter keep P ++ e :: R))).
        { rewrite map_app in *. cbn [map] in *. clear -HND.
          induction P as [|p P IHP]; cbn [filter map app] in *; [exact HND|].
          inversion HND as [|? ? Hn ND']; subst. destruct (keep p); [|apply IHP, ND'].
          cbn [map app]. constructor; [|apply IHP, ND'].
          intros Hin. apply Hn. apply in_app_or in Hin. apply in_or_app.
          destruct Hin as [Hin|Hin]; [left|right; exact Hin].
          apply in_map_iff in Hin. destruct Hin as (q & Eq & Hq). apply filter_In in Hq.
          rewrite <- Eq. apply in_map, Hq. }
        assert (Hin : In e (gsrc h)).
        { apply abs_in_edges. rewrite HE. apply in_or_app. right; left; reflexivity. }
        destruct (inv_endpoints HI e Hin) as [Hs Hd].
        assert (Hsd : s_delete_edge (abs h) (esrc e) (edst e) None
                      = Ok (a_remove_edge (abs h) (esrc e) (edst e))).
        { unfold s_delete_edge. rewrite !abs_has_node.
          rewrite (proj2 (at_node_exists_in h _) Hs), (proj2 (at_node_exists_in h _) Hd). cbn [negb].
          destruct (a_edge_at (abs h) (esrc e) (edst e)) as [e'|] eqn:Ea; [reflexivity|].
          exfalso. unfold a_edge_at in Ea. apply MatrixProofs.find_edge_none in Ea. apply Ea.
          rewrite HE. apply (in_map edge_key), in_or_app. right; left; reflexivity. }
        rewrite Hsd in R1.
        destruct (delete_edge h (esrc e) (edst e) None) as [h1|x] eqn:D; cbn [rel_res] in R1;
          [|contradiction].
        assert (HI1 : Inv k h1) by (eapply inv_delete_edge; eassumption).
        assert (M1 : gmeta h1 = gmeta h).
        { destruct (at_delete_edge_ok _ _ _ _ _ D) as (e' & _ & _ & _ & ->). reflexivity. }
        destruct (IH (P ++ [e]) h1 HI1) as (h' & F & HI' & M & N & Ed).
        * rewrite R1. unfold a_remove_edge. cbn [a_edges]. rewrite HE.
          rewrite (drop_edge_unique _ _ _ NDh). rewrite filter_app. cbn [filter]. rewrite Ke, app_nil_r.
          reflexivity.
        * rewrite <- Hsplit. exact HND.
        * exists h'. split; [exact F|]. split; [exact HI'|]. split; [congruence|].
          split; [rewrite N, R1; reflexivity|rewrite Hsplit; exact Ed].
  Qed.

  (** the identifiers deleted so far by the node loop *)
  Definition dropped (kept : list name) (P : list name) : list name :=
    filter (fun id => negb (mem id kept)) P.

  Lemma mem_app x l1 l2 : mem x (l1 ++ l2) = mem x l1 || mem x l2.
  Proof using Type. sg_clear. unfold mem. apply existsb_app. Qed.

  Lemma filter_filter {A} (f h : A -> bool) l :
    filter f (filter h l) = filter (fun x => h x && f x) l.
  Proof using Type. sg_clear.
    induction l as [|a l IH]; simpl; [reflexivity|].
    destruct (h a); simpl; [destruct (f a); rewrite IH; reflexivity|exact IH].
  Qed.

  Lemma prune_nodes_fold k kept NL EL : forall (R : list node) (P : list name) h,
    Inv k h -> NoDup (P ++ map nid R) ->
    (forall n, In n R -> In (nid n) (map fst NL)) ->
    a_nodes (abs h) = filter (fun p => negb (mem (fst p) (dropped kept P))) NL ->
    a_edges (abs h) = filter (fun e => negb (mem (esrc e) (dropped kept P))
                                       && negb (mem (edst e) (dropped kept P))) EL ->
    exists h', fold_left (prune_node_step k kept) R (Ok h) = Ok h' /\ Inv k h'
      /\ gmeta h' = gmeta h
      /\ a_nodes (abs h') = filter (fun p => negb (mem (fst p) (dropped kept (P ++ map nid R)))) NL
      /\ a_edges (abs h') = filter (fun e => negb (mem (esrc e) (dropped kept (P ++ map nid R)))
                                             && negb (mem (edst e) (dropped kept (P ++ map nid R)))) EL.
  Proof.
    induction R as [|n R IH]; intros P h HI HND HR HN HE.
    - exists h. cbn [map]. rewrite app_nil_r. cbn [fold_left]. auto.
    - assert (Hsplit : P ++ map nid (n :: R) = (P ++ [nid n]) ++ map nid R)
        by (cbn [map]; rewrite <- app_assoc; reflexivity).
      cbn [fold_left]. unfold prune_node_step at 2. cbn [bind].
      destruct (mem (nid n) kept) eqn:Kn.
      + assert (Hd : dropped kept (P ++ [nid n]) = dropped kept P).
        { unfold dropped. rewrite filter_app. cbn [filter]. rewrite Kn. cbn [negb]. apply app_nil_r. }
        destruct (IH (P ++ [nid n]) h HI) as (h' & F & HI' & M & N & Ed).
        * rewrite <- Hsplit. exact HND.
        * intros n' Hn'. apply HR. right; exact Hn'.
        * rewrite Hd. exact HN.
        * rewrite Hd. exact HE.
        * exists h'. rewrite Hsplit. auto.
      + assert (Hd : dropped kept (P ++ [nid n]) = dropped kept P ++ [nid n]).
        { unfold dropped. rewrite filter_app. cbn [filter]. rewrite Kn. reflexivity. }
        assert (HnotP : ~ In (nid n) P).
        { cbn [map] in HND. apply NoDup_remove_2 in HND. intros H. apply HND, in_or_app. left; exact H. }
        assert (Hex : node_exists h (nid n) = true).
        { rewrite <- abs_has_node. unfold a_has_node.
          destruct (lookup (nid n) (a_nodes (abs h))) eqn:El; [reflexivity|]. exfalso.
          apply lookup_none in El. apply El. rewrite HN.
          pose proof (HR n (or_introl eq_refl)) as Hin. apply in_map_iff in Hin.
          destruct Hin as (p & Ep & Hp). apply in_map_iff. exists p. split; [exact Ep|].
          apply filter_In. split; [exact Hp|]. apply negb_true_iff, mem_false.
          unfold dropped. rewrite filter_In, Ep. intros [H _]. contradiction. }
        rewrite (delete_node_proj parse k h (nid n) HI Hex).
        pose proof (refines_delete_node parse k h (nid n) HI) as R1.
        rewrite (delete_node_proj parse k h (nid n) HI Hex) in R1.
        unfold s_delete_node in R1. rewrite abs_has_node, Hex in R1. cbn [rel_res] in R1.
        assert (HI1 : Inv k (proj (nid n) h)).
        { eapply inv_delete_node; [exact HI|]. apply (delete_node_proj parse k h (nid n) HI Hex). }
        destruct (IH (P ++ [nid n]) (proj (nid n) h) HI1) as (h' & F & HI' & M & N & Ed).
        * rewrite <- Hsplit. exact HND.
        * intros n' Hn'. apply HR. right; exact Hn'.
        * rewrite R1. unfold a_remove_node. cbn [a_nodes]. rewrite HN, Hd. unfold remove_key.
          rewrite filter_filter. apply filter_ext. intros p. rewrite mem_app. cbn [mem existsb].
          rewrite orb_false_r, negb_orb, (name_eqb_sym (nid n) (fst p)). reflexivity.
        * rewrite R1. unfold a_remove_node. cbn [a_edges]. rewrite HE, Hd.
          rewrite filter_filter. apply filter_ext. intros e. rewrite !mem_app. cbn [mem existsb].
          rewrite !orb_false_r, !negb_orb. unfold Spec.incident.
          rewrite (name_eqb_sym (nid n) (esrc e)), (name_eqb_sym (nid n) (edst e)).
          destruct (mem (esrc e) (dropped kept P)), (mem (edst e) (dropped kept P)),
            (name_eqb (esrc e) (nid n)), (name_eqb (edst e) (nid n)); reflexivity.
        * exists h'. split; [exact F|]. split; [exact HI'|]. split; [rewrite M; reflexivity|].
          rewrite Hsplit. auto.
  Qed.

  Lemma prune_spec k c keep kept :
    Inv k c ->
    exists h, prune k c keep kept = Ok h /\ Inv k h /\ gmeta h = gmeta c
      /\ a_nodes (abs h) = filter (fun p => mem (fst p) kept) (a_nodes (abs c))
      /\ a_edges (abs h) = filter (fun e => mem (esrc e) kept && mem (edst e) kept)
                             (filter keep (a_edges (abs c))).
  Proof.
    intros HI. unfold prune.
    destruct (prune_edges_fold k keep (v_edges c) [] c HI) as (c1 & F1 & HI1 & M1 & N1 & E1).
    { reflexivity. }
    { cbn [app]. apply (sp_nodup_sorted_keys parse k c HI). }
    fold (prune_edge_step keep). rewrite F1. cbn [bind app] in *.
    fold (prune_node_step k kept).
    assert (Hids : map nid (nodes_sorted c1) = v_node_names c1) by reflexivity.
    destruct (prune_nodes_fold k kept (a_nodes (abs c1)) (a_edges (abs c1)) (nodes_sorted c1) [] c1 HI1)
      as (h & F2 & HI2 & M2 & N2 & E2).
    { cbn [app]. rewrite Hids. apply (v_node_names_nodup HI1). }
    { intros n Hn. apply nodes_sorted_in in Hn. change (map fst (a_nodes (abs c1))) with (a_ids (abs c1)).
      rewrite abs_ids. apply in_map, Hn. }
    { cbn [dropped filter mem existsb negb]. symmetry. apply at_filter_all_true. reflexivity. }
    { cbn [dropped filter mem existsb negb andb]. symmetry. apply at_filter_all_true. reflexivity. }
    exists h. split; [exact F2|]. split; [exact HI2|]. split; [congruence|].
    cbn [app] in N2, E2. rewrite Hids in N2, E2.
    assert (Hdrop : forall id, In id (node_ids c1) ->
              negb (mem id (dropped kept (v_node_names c1))) = mem id kept).
    { intros id Hid. destruct (mem id kept) eqn:Km.
      - apply negb_true_iff, mem_false. unfold dropped. rewrite filter_In, Km. intros [_ H]. discriminate.
      - apply negb_false_iff, mem_in. unfold dropped. apply filter_In. split; [|rewrite Km; reflexivity].
        apply v_node_names_in, Hid. }
    split.
    - rewrite N2, N1. apply filter_ext_in. intros p Hp. apply Hdrop.
      rewrite <- N1 in Hp. rewrite <- abs_ids. apply (in_map fst) in Hp. exact Hp.
    - rewrite E2. change (a_edges (abs c)) with (v_edges c). rewrite <- E1.
      apply filter_ext_in. intros e He. apply abs_in_edges in He. destruct (inv_endpoints HI1 e He) as [H1 H2].
      rewrite (Hdrop _ H1), (Hdrop _ H2). reflexivity.
  Qed.

  (** * 8. The theorems about the four public sub-graph methods *)

  (** Prop-level reading: [h] is the sub-graph of [g] INDUCED on the node set [P] *)
  Definition induced (k : kind) (g h : graph) (P : name -> Prop) : Prop :=
    Inv k h /\ gmeta h = gmeta g
    /\ (forall y, In y (node_ids h) <-> P y)
    /\ (forall e, In e (gsrc h) <-> In e (gsrc g) /\ P (esrc e) /\ P (edst e))
    /\ (forall t, In t (v_nodes h) <->
                  exists t0, In t0 (v_nodes g) /\ P (id3 t0) /\ t = retag3 parse k t0).

  Lemma carved_induced k g h S (P : name -> Prop) :
    (forall y, In y S <-> P y) -> carved k g h S (sub_edges g S) -> induced k g h P.
  Proof.
    intros HS (HI & M & Ed & Nd & Ids). split; [exact HI|]. split; [exact M|]. split; [|split].
    - intros y. rewrite Ids. apply HS.
    - intros e. rewrite <- v_edges_in, Ed, sub_edges_in, !HS. tauto.
    - intros t. rewrite Nd, in_map_iff. split.
      + intros (t0 & <- & Ht0). apply filter_In in Ht0. destruct Ht0 as [Ht0 Hm].
        exists t0. split; [exact Ht0|]. split; [apply HS, mem_in, Hm|reflexivity].
      + intros (t0 & Ht0 & HP & ->). exists t0. split; [reflexivity|].
        apply filter_In. split; [exact Ht0|]. apply mem_in, HS, HP.
  Qed.

  (** for the plain class, and for every tag-stable time-series state, the node triples are
      copied unchanged *)
  Lemma retag3_filter_stable k g (p : name * vtype * meta -> bool) :
    Inv k g -> (k = TS -> TagsStable g) ->
    map (retag3 parse k) (filter p (v_nodes g)) = filter p (v_nodes g).
  Proof.
    intros HI HT. rewrite <- (map_id (filter p (v_nodes g))) at 2. apply map_ext_in.
    intros t Ht. apply filter_In in Ht. destruct Ht as [Ht _]. apply v_nodes_in in Ht.
    destruct Ht as (n & Hn & <-). unfold retag3, node3, id3. cbn [fst snd].
    rewrite (@retag_stable parse k g n HI HT Hn). reflexivity.
  Qed.

  Corollary carved_nodes_stable k g h S E :
    Inv k g -> (k = TS -> TagsStable g) -> carved k g h S E ->
    v_nodes h = filter (in_set S) (v_nodes g).
  Proof. intros HI HT (_ & _ & _ & N & _). rewrite N. apply retag3_filter_stable; assumption. Qed.

  Theorem descendants_subgraph_any_order k g d x l :
    Inv k g -> nx_view g = Ok d -> In x (node_ids g) -> NoDup l ->
    (forall y, In y l <-> y <> x /\ path d x y) ->
    exists h, get_subgraph parse k g (l ++ [x]) = Ok h
      /\ carved k g h (l ++ [x]) (sub_edges g (l ++ [x]))
      /\ induced k g h (fun y => y = x \/ path d x y).
  Proof.
    intros HI Hd Hx HND Hl. pose proof (nx_view_ok k g d HI Hd) as HV.
    destruct (closure_subgraph k g d x l HI HV Hx HND Hl) as (h & Hh & Hc).
    exists h. split; [exact Hh|]. split; [exact Hc|].
    eapply carved_induced; [|exact Hc]. intros y. apply (cl_in_nodes d x l Hl).
  Qed.

  Theorem ancestors_subgraph_any_order k g d x l :
    Inv k g -> nx_view g = Ok d -> In x (node_ids g) -> NoDup l ->
    (forall y, In y l <-> y <> x /\ path d y x) ->
    exists h, get_subgraph parse k g (l ++ [x]) = Ok h
      /\ carved k g h (l ++ [x]) (sub_edges g (l ++ [x]))
      /\ induced k g h (fun y => y = x \/ path d y x).
  Proof.
    intros HI Hd Hx HND Hl. pose proof (view_ok_rev g d (nx_view_ok k g d HI Hd)) as HV.
    assert (Hl' : forall y, In y l <-> y <> x /\ path (rev_graph d) x y).
    { intros y. rewrite Hl, rev_path. tauto. }
    destruct (closure_subgraph k g (rev_graph d) x l HI HV Hx HND Hl') as (h & Hh & Hc).
    exists h. split; [exact Hh|]. split; [exact Hc|].
    eapply carved_induced; [|exact Hc]. intros y.
    rewrite (cl_in_nodes (rev_graph d) x l Hl'), rev_path. tauto.
  Qed.

  Lemma g_descendants_spec k g d x :
    Inv k g -> nx_view g = Ok d -> In x (node_ids g) ->
    exists l, g_descendants g x = Ok l /\ NoDup l /\ forall y, In y l <-> y <> x /\ path d x y.
  Proof.
    intros HI Hd Hx. unfold g_descendants. rewrite (proj2 (at_node_exists_in g x) Hx), Hd. cbn [bind].
    eexists. split; [reflexivity|]. split.
    - apply removeb_nodup, desc_nodup, name_eqb_spec.
    - intros y. rewrite (removeb_in name_eqb name_eqb_spec).
      rewrite (desc_spec name_eqb name_eqb_spec x y (proj1 (nx_view_ok k g d HI Hd))). tauto.
  Qed.

  Lemma g_ancestors_spec k g d x :
    Inv k g -> nx_view g = Ok d -> In x (node_ids g) ->
    exists l, g_ancestors g x = Ok l /\ NoDup l /\ forall y, In y l <-> y <> x /\ path d y x.
  Proof.
    intros HI Hd Hx. unfold g_ancestors. rewrite (proj2 (at_node_exists_in g x) Hx), Hd. cbn [bind].
    eexists. split; [reflexivity|]. split.
    - apply removeb_nodup, anc_nodup, name_eqb_spec.
    - intros y. rewrite (removeb_in name_eqb name_eqb_spec).
      rewrite (anc_spec name_eqb name_eqb_spec x y (proj1 (nx_view_ok k g d HI Hd))). tauto.
  Qed.

  (** on a fully directed graph the two set queries are [Queries.get_ancestors] /
      [Queries.get_descendants] of the directed part (networkx never lists the node itself; on
      an acyclic graph it is not its own ancestor anyway) *)
  Lemma g_ancestors_directed k g x :
    Inv k g -> fully_directed g = true -> In x (node_ids g) ->
    g_ancestors g x = Ok (removeb name_eqb x (get_ancestors name_eqb (dgraph g) x))
    /\ g_descendants g x = Ok (removeb name_eqb x (get_descendants name_eqb (dgraph g) x))
    /\ (Acyclic g ->
        removeb name_eqb x (get_ancestors name_eqb (dgraph g) x) = get_ancestors name_eqb (dgraph g) x
        /\ removeb name_eqb x (get_descendants name_eqb (dgraph g) x) = get_descendants name_eqb (dgraph g) x).
  Proof.
    intros HI Fd Hx. unfold g_ancestors, g_descendants.
    rewrite (proj2 (at_node_exists_in g x) Hx), (nx_view_directed g Fd). cbn [bind].
    split; [reflexivity|]. split; [reflexivity|]. intros Hac.
    pose proof (dgraph_wf HI) as W. unfold get_ancestors, get_descendants, removeb.
    split; apply at_filter_all_true; intros y Hy; apply negb_true_iff, name_eqb_neq; intros ->.
    - apply (anc_spec name_eqb name_eqb_spec x x W) in Hy. exact (Hac x Hy).
    - apply (desc_spec name_eqb name_eqb_spec x x W) in Hy. exact (Hac x Hy).
  Qed.

  (** [get_descendant_graph(x)]: the node itself and its descendants, all edges among them *)
  Theorem descendant_graph_spec k g d x :
    Inv k g -> nx_view g = Ok d -> In x (node_ids g) ->
    exists l h, g_descendants g x = Ok l /\ descendant_graph parse k g x = Ok h
      /\ carved k g h (l ++ [x]) (sub_edges g (l ++ [x]))
      /\ induced k g h (fun y => y = x \/ path d x y).
  Proof.
    intros HI Hd Hx. destruct (g_descendants_spec k g d x HI Hd Hx) as (l & Hl & HND & Hin).
    destruct (descendants_subgraph_any_order k g d x l HI Hd Hx HND Hin) as (h & Hh & Hc & Hi).
    exists l, h. unfold descendant_graph. rewrite Hl. cbn [bind]. auto.
  Qed.

  (** [get_ancestral_graph(x)]: the node itself and its ancestors, all edges among them *)
  Theorem ancestral_graph_spec k g d x :
    Inv k g -> nx_view g = Ok d -> In x (node_ids g) ->
    exists l h, g_ancestors g x = Ok l /\ ancestral_graph parse k g x = Ok h
      /\ carved k g h (l ++ [x]) (sub_edges g (l ++ [x]))
      /\ induced k g h (fun y => y = x \/ path d y x).
  Proof.
    intros HI Hd Hx. destruct (g_ancestors_spec k g d x HI Hd Hx) as (l & Hl & HND & Hin).
    destruct (ancestors_subgraph_any_order k g d x l HI Hd Hx HND Hin) as (h & Hh & Hc & Hi).
    exists l, h. unfold ancestral_graph. rewrite Hl. cbn [bind]. auto.
  Qed.

  (** the case the documentation speaks about: all edges directed (in particular a DAG) *)
  Corollary ancestral_graph_directed k g x :
    Inv k g -> fully_directed g = true -> In x (node_ids g) ->
    exists h, ancestral_graph parse k g x = Ok h
      /\ induced k g h (fun y => y = x \/ path (dgraph g) y x).
  Proof.
    intros HI Fd Hx.
    destruct (ancestral_graph_spec k g (dgraph g) x HI (nx_view_directed g Fd) Hx) as (l & h & _ & H & _ & Hi).
    exists h. auto.
  Qed.

  Corollary descendant_graph_directed k g x :
    Inv k g -> fully_directed g = true -> In x (node_ids g) ->
    exists h, descendant_graph parse k g x = Ok h
      /\ induced k g h (fun y => y = x \/ path (dgraph g) x y).
  Proof.
    intros HI Fd Hx.
    destruct (descendant_graph_spec k g (dgraph g) x HI (nx_view_directed g Fd) Hx) as (l & h & _ & H & _ & Hi).
    exists h. auto.
  Qed.

  (** the error cases *)
  Theorem subgraph_missing_node k g x :
    ~ In x (node_ids g) ->
    ancestral_graph parse k g x = Err EAssert /\ descendant_graph parse k g x = Err EAssert.
  Proof.
    intros Hx. apply at_node_exists_false in Hx.
    unfold ancestral_graph, descendant_graph, g_ancestors, g_descendants.
    rewrite Hx. auto.
  Qed.

  Theorem subgraph_mixed_refused k g x :
    In x (node_ids g) -> fully_directed g = false -> fully_undirected g = false ->
    ancestral_graph parse k g x = Err EConv /\ descendant_graph parse k g x = Err EConv.
  Proof.
    intros Hx Fd Fu. apply at_node_exists_in in Hx.
    unfold ancestral_graph, descendant_graph, g_ancestors, g_descendants.
    rewrite Hx, (nx_view_mixed g Fd Fu). auto.
  Qed.

  (** * 9. Construction-order invariance

      Two states with the same CONTENT (the same nodes with their types and metadata, the same
      edges with their types and metadata, the same graph metadata), however they were built
      (whatever the insertion order of nodes and edges): [equiv] states and states with the
      same abstract state are two instances. *)
  Definition same_view (g1 g2 : graph) : Prop :=
    v_nodes g1 = v_nodes g2 /\ v_edges g1 = v_edges g2 /\ gmeta g1 = gmeta g2.

  Lemma same_view_refl g : same_view g g.
  Proof using Type. sg_clear. repeat split. Qed.
  Lemma same_view_sym g h : same_view g h -> same_view h g.
  Proof using Type. sg_clear. intros (A & B & C). repeat split; auto. Qed.
  Lemma same_view_trans g h i : same_view g h -> same_view h i -> same_view g i.
  Proof using Type. sg_clear. intros (A & B & C) (A' & B' & C'). repeat split; congruence. Qed.

  Lemma equiv_same_view k g h : Inv k g -> equiv g h -> same_view g h.
  Proof.
    intros HI HE. split; [apply (oe_v_nodes g h HE)|].
    split; [apply (oe_v_edges parse k g h HI HE)|apply HE].
  Qed.

  Lemma abs_same_view g h : abs g = abs h -> gmeta g = gmeta h -> same_view g h.
  Proof using Type. sg_clear.
    intros HA HM. split; [rewrite !view_nodes, HA; reflexivity|].
    split; [|exact HM]. change (a_edges (abs g) = a_edges (abs h)). rewrite HA. reflexivity.
  Qed.

  Lemma same_view_ids g h x : same_view g h -> (In x (node_ids g) <-> In x (node_ids h)).
  Proof using Type. sg_clear. intros (A & _). rewrite <- !v_nodes_ids, A. tauto. Qed.

  Lemma same_view_src g h e : same_view g h -> (In e (gsrc g) <-> In e (gsrc h)).
  Proof using Type. sg_clear. intros (_ & B & _). rewrite <- !v_edges_in, B. tauto. Qed.

  Lemma same_view_sub_edges g h nodes : same_view g h -> sub_edges g nodes = sub_edges h nodes.
  Proof using Type. sg_clear. intros (_ & B & _). unfold sub_edges. rewrite B. reflexivity. Qed.

  Lemma sub_edges_set_ext g S S' :
    (forall y, In y S <-> In y S') -> sub_edges g S = sub_edges g S'.
  Proof using Type. sg_clear.
    intros H. unfold sub_edges. apply filter_ext. intros e.
    assert (Hm : forall y, mem y S = mem y S') by (intros y; apply eq_true_iff_eq; rewrite !mem_in; apply H).
    rewrite !Hm. reflexivity.
  Qed.

  (** outcomes related by [R] on success, equal on failure *)
  Definition res_rel {A} (R : A -> A -> Prop) (r1 r2 : res A) : Prop :=
    match r1, r2 with
    | Ok a, Ok b => R a b
    | Err x, Err y => x = y
    | _, _ => False
    end.

  Lemma carved_same_view k g1 g2 h1 h2 S1 S2 E :
    same_view g1 g2 -> (forall y, In y S1 <-> In y S2) ->
    carved k g1 h1 S1 E -> carved k g2 h2 S2 E -> same_view h1 h2.
  Proof using Type.
    intros (Vn & Ve & Vm) HS (_ & M1 & E1 & N1 & _) (_ & M2 & E2 & N2 & _).
    split; [|split; congruence].
    rewrite N1, N2, Vn. f_equal. apply filter_ext. intros t. unfold in_set.
    apply eq_true_iff_eq. rewrite !mem_in. apply HS.
  Qed.

  Theorem get_subgraph_order_invariant k g1 g2 nodes :
    Inv k g1 -> Inv k g2 -> same_view g1 g2 ->
    (sub_edges g1 nodes = [] -> NoDup nodes /\ incl nodes (node_ids g1)) ->
    exists h1 h2, get_subgraph parse k g1 nodes = Ok h1 /\ get_subgraph parse k g2 nodes = Ok h2
                  /\ same_view h1 h2.
  Proof.
    intros HI1 HI2 HV Hpre.
    destruct (get_subgraph_spec k g1 nodes HI1 Hpre) as (h1 & H1 & C1).
    destruct (get_subgraph_spec k g2 nodes HI2) as (h2 & H2 & C2).
    { rewrite <- (same_view_sub_edges g1 g2 nodes HV). intros HE. destruct (Hpre HE) as [A B].
      split; [exact A|]. intros y Hy. apply (same_view_ids g1 g2 y HV), B, Hy. }
    exists h1, h2. split; [exact H1|]. split; [exact H2|].
    unfold sub_node_set in C1, C2. rewrite <- (same_view_sub_edges g1 g2 nodes HV) in C2.
    eapply carved_same_view; [exact HV| |exact C1|exact C2]. tauto.
  Qed.

  (** the two networkx views have the same arcs *)
  Lemma same_view_nx g1 g2 :
    same_view g1 g2 ->
    match nx_view g1, nx_view g2 with
    | Ok d1, Ok d2 => forall a b, arc d1 a b <-> arc d2 a b
    | Err x, Err y => x = y
    | _, _ => False
    end.
  Proof using Type. sg_clear.
    intros HV. pose proof HV as (_ & Ve & _). unfold nx_view, fully_directed, fully_undirected. rewrite Ve.
    assert (Hk : forall p, In p (nx_arcs g1) <-> In p (nx_arcs g2)).
    { intros p. unfold nx_arcs. rewrite !in_map_iff.
      split; intros (e & Ek & He); exists e; (split; [exact Ek|]); apply (same_view_src g1 g2 e HV); exact He. }
    destruct (forallb (fun e => etype_eqb (ety e) Dir) (v_edges g2)); cbn [negb andb].
    - intros a b. unfold arc. cbn [arcs]. apply Hk.
    - destruct (forallb (fun e => etype_eqb (ety e) Und) (v_edges g2)); cbn [negb]; [|reflexivity].
      intros a b. unfold arc, sym_arcs. cbn [arcs]. rewrite !in_app_iff, !in_map_iff.
      split; (intros [H|(p & Ep & Hp)]; [left; apply Hk, H|right; exists p; split; [exact Ep|apply Hk, Hp]]).
  Qed.

  Lemma path_same_arcs (d1 d2 : digraph name) :
    (forall a b, arc d1 a b <-> arc d2 a b) -> forall a b, path d1 a b <-> path d2 a b.
  Proof using Type. sg_clear. intros H a b. split; apply path_mono; intros u v; apply H. Qed.

  Theorem ancestors_order_invariant k g1 g2 x :
    Inv k g1 -> Inv k g2 -> same_view g1 g2 ->
    res_rel (fun l1 l2 => forall y, In y l1 <-> In y l2) (g_ancestors g1 x) (g_ancestors g2 x)
    /\ res_rel (fun l1 l2 => forall y, In y l1 <-> In y l2) (g_descendants g1 x) (g_descendants g2 x).
  Proof.
    intros HI1 HI2 HV. pose proof (same_view_nx g1 g2 HV) as Hnx.
    destruct (in_dec name_eq_dec x (node_ids g1)) as [Hx|Hx].
    - pose proof (proj1 (same_view_ids g1 g2 x HV) Hx) as Hx2.
      destruct (nx_view g1) as [d1|e1] eqn:D1; destruct (nx_view g2) as [d2|e2] eqn:D2; try contradiction.
      + destruct (g_ancestors_spec k g1 d1 x HI1 D1 Hx) as (l1 & A1 & _ & L1).
        destruct (g_ancestors_spec k g2 d2 x HI2 D2 Hx2) as (l2 & A2 & _ & L2).
        destruct (g_descendants_spec k g1 d1 x HI1 D1 Hx) as (m1 & B1 & _ & M1).
        destruct (g_descendants_spec k g2 d2 x HI2 D2 Hx2) as (m2 & B2 & _ & M2).
        rewrite A1, A2, B1, B2. cbn [res_rel].
        split; intros y; [rewrite L1, L2|rewrite M1, M2]; rewrite (path_same_arcs d1 d2 Hnx); tauto.
      + subst e2. unfold g_ancestors, g_descendants.
        rewrite (proj2 (at_node_exists_in g1 x) Hx), (proj2 (at_node_exists_in g2 x) Hx2), D1, D2.
        split; reflexivity.
    - assert (Hx2 : ~ In x (node_ids g2)) by (intros H; apply Hx, (same_view_ids g1 g2 x HV), H).
      unfold g_ancestors, g_descendants.
      rewrite (proj2 (at_node_exists_false g1 x) Hx), (proj2 (at_node_exists_false g2 x) Hx2).
      split; reflexivity.
  Qed.

  Theorem ancestral_graph_order_invariant k g1 g2 x :
    Inv k g1 -> Inv k g2 -> same_view g1 g2 ->
    res_rel same_view (ancestral_graph parse k g1 x) (ancestral_graph parse k g2 x)
    /\ res_rel same_view (descendant_graph parse k g1 x) (descendant_graph parse k g2 x).
  Proof.
    intros HI1 HI2 HV. pose proof (same_view_nx g1 g2 HV) as Hnx.
    destruct (in_dec name_eq_dec x (node_ids g1)) as [Hx|Hx].
    - pose proof (proj1 (same_view_ids g1 g2 x HV) Hx) as Hx2.
      destruct (nx_view g1) as [d1|e1] eqn:D1; destruct (nx_view g2) as [d2|e2] eqn:D2; try contradiction.
      + pose proof (path_same_arcs d1 d2 Hnx) as Hp.
        destruct (ancestral_graph_spec k g1 d1 x HI1 D1 Hx) as (l1 & h1 & A1 & H1 & C1 & _).
        destruct (ancestral_graph_spec k g2 d2 x HI2 D2 Hx2) as (l2 & h2 & A2 & H2 & C2 & _).
        destruct (g_ancestors_spec k g1 d1 x HI1 D1 Hx) as (l1' & A1' & _ & L1).
        destruct (g_ancestors_spec k g2 d2 x HI2 D2 Hx2) as (l2' & A2' & _ & L2).
        assert (l1' = l1) by congruence. assert (l2' = l2) by congruence. subst l1' l2'.
        destruct (descendant_graph_spec k g1 d1 x HI1 D1 Hx) as (m1 & i1 & B1 & I1 & F1 & _).
        destruct (descendant_graph_spec k g2 d2 x HI2 D2 Hx2) as (m2 & i2 & B2 & I2 & F2 & _).
        destruct (g_descendants_spec k g1 d1 x HI1 D1 Hx) as (m1' & B1' & _ & M1).
        destruct (g_descendants_spec k g2 d2 x HI2 D2 Hx2) as (m2' & B2' & _ & M2).
        assert (m1' = m1) by congruence. assert (m2' = m2) by congruence. subst m1' m2'.
        rewrite H1, H2, I1, I2. cbn [res_rel].
        assert (HS : forall y, In y (l1 ++ [x]) <-> In y (l2 ++ [x])).
        { intros y. rewrite !in_app_iff, L1, L2, Hp. tauto. }
        assert (HT : forall y, In y (m1 ++ [x]) <-> In y (m2 ++ [x])).
        { intros y. rewrite !in_app_iff, M1, M2, Hp. tauto. }
        split.
        * rewrite <- (same_view_sub_edges g1 g2 _ HV), <- (sub_edges_set_ext g1 _ _ HS) in C2.
          eapply carved_same_view; [exact HV|exact HS|exact C1|exact C2].
        * rewrite <- (same_view_sub_edges g1 g2 _ HV), <- (sub_edges_set_ext g1 _ _ HT) in F2.
          eapply carved_same_view; [exact HV|exact HT|exact F1|exact F2].
      + subst e2. unfold ancestral_graph, descendant_graph, g_ancestors, g_descendants.
        rewrite (proj2 (at_node_exists_in g1 x) Hx), (proj2 (at_node_exists_in g2 x) Hx2), D1, D2.
        split; reflexivity.
    - assert (Hx2 : ~ In x (node_ids g2)) by (intros H; apply Hx, (same_view_ids g1 g2 x HV), H).
      destruct (subgraph_missing_node k g1 x Hx) as (A1 & B1).
      destruct (subgraph_missing_node k g2 x Hx2) as (A2 & B2).
      rewrite A1, A2, B1, B2. split; reflexivity.
  Qed.

  (** * 10. [get_parents_graph] / [get_children_graph] *)
  Variable fmt : name -> Z -> option name.

  Theorem star_missing_node k g x :
    ~ In x (node_ids g) ->
    parents_graph parse fmt k g x = Err EAssert /\ children_graph parse fmt k g x = Err EAssert.
  Proof.
    intros Hx. apply at_node_exists_false in Hx. unfold parents_graph, children_graph.
    rewrite Hx. auto.
  Qed.

  Lemma copy_spec k g :
    Inv k g -> (k = TS -> TagsStable g) ->
    exists c, copy parse fmt k g true = Ok c /\ Inv k c
      /\ v_nodes c = v_nodes g /\ v_edges c = v_edges g /\ gmeta c = gmeta g.
  Proof.
    intros HI HT. destruct (copy_deep_eq fmt HI HT) as (c & Hc & (Vn & Ve & Vm)).
    exists c. split; [exact Hc|]. split.
    - unfold copy in Hc. rewrite (to_dict_inv true HI) in Hc. cbn [bind] in Hc.
      exact (from_dict_inv fmt (inv_step parse fmt) k _ false Hc).
    - split; [symmetry; exact Vn|]. split; [symmetry; apply map_edge4_inj, Ve|symmetry; exact Vm].
  Qed.

  Definition flat3 (p : name * (vtype * meta)) : name * vtype * meta :=
    (fst p, fst (snd p), snd (snd p)).

  Lemma map_flat3_filter (q : name -> bool) l :
    map flat3 (filter (fun p => q (fst p)) l) = filter (fun t => q (id3 t)) (map flat3 l).
  Proof using Type. sg_clear.
    induction l as [|p l IH]; simpl; [reflexivity|].
    unfold id3 at 1. cbn [flat3 fst]. destruct (q (fst p)); simpl; rewrite IH; reflexivity.
  Qed.

  Lemma a_node_leb_total x y : a_node_leb x y = true \/ a_node_leb y x = true.
  Proof using Type. sg_clear. apply name_leb_total. Qed.
  Lemma a_node_leb_trans x y z :
    a_node_leb x y = true -> a_node_leb y z = true -> a_node_leb x z = true.
  Proof using Type. sg_clear. apply name_leb_trans. Qed.

  Lemma v_nodes_of_filter c h (q : name -> bool) :
    a_nodes (abs h) = filter (fun p => q (fst p)) (a_nodes (abs c)) ->
    v_nodes h = filter (fun t => q (id3 t)) (v_nodes c).
  Proof using Type. sg_clear.
    intros H. rewrite (view_nodes h), (view_nodes c). unfold a_node_list, a_nodes_sorted. rewrite H.
    rewrite <- (sp_isort_filter _ a_node_leb a_node_leb_total a_node_leb_trans).
    apply (map_flat3_filter q).
  Qed.

  (** the pruning loops on a copy [c] of [g], for an edge selection [sel] whose edges stay
      inside the kept node list: exactly the selected edges and the kept nodes remain *)
  Lemma star_spec k g c keep kept (sel : edge -> bool) :
    Inv k c -> v_nodes c = v_nodes g -> v_edges c = v_edges g -> gmeta c = gmeta g ->
    (forall e, In e (gsrc g) -> keep e = sel e) ->
    (forall e, In e (gsrc g) -> sel e = true -> In (esrc e) kept /\ In (edst e) kept) ->
    exists h, prune k c keep kept = Ok h /\ Inv k h /\ gmeta h = gmeta g
      /\ v_edges h = filter sel (v_edges g)
      /\ v_nodes h = filter (in_set kept) (v_nodes g).
  Proof.
    intros HIc Vn Ve Vm Hkeep Hin.
    destruct (prune_spec k c keep kept HIc) as (h & Hp & HIh & M & N & Ed).
    exists h. split; [exact Hp|]. split; [exact HIh|]. split; [congruence|]. split.
    - change (v_edges h) with (a_edges (abs h)). rewrite Ed.
      change (a_edges (abs c)) with (v_edges c). rewrite Ve, filter_filter.
      apply filter_ext_in. intros e He. apply v_edges_in in He. rewrite (Hkeep e He).
      destruct (sel e) eqn:Se; [|reflexivity]. destruct (Hin e He Se) as [H1 H2].
      apply mem_in in H1, H2. rewrite H1, H2. reflexivity.
    - rewrite <- Vn. apply (v_nodes_of_filter c h (fun id => mem id kept)). exact N.
  Qed.

  Lemma edge_sheq_dir e s d :
    edge_sheq e s d Dir = true <-> esrc e = s /\ edst e = d /\ ety e = Dir.
  Proof using Type. sg_clear.
    unfold edge_sheq. split.
    - intros H.
      assert (Hrev : (if name_eqb (esrc e) d && name_eqb (edst e) s
                      then dont_care_dir (ety e) && etype_eqb (ety e) Dir else false) = false).
      { destruct (name_eqb (esrc e) d && name_eqb (edst e) s); [|reflexivity].
        destruct (ety e); reflexivity. }
      destruct (name_eqb_spec (esrc e) s) as [E1|N1]; destruct (name_eqb_spec (edst e) d) as [E2|N2];
        cbn [andb] in H; try (rewrite Hrev in H; discriminate).
      destruct (etype_eqb_spec (ety e) Dir); [auto|discriminate].
    - intros (<- & <- & ->). rewrite !name_eqb_refl. reflexivity.
  Qed.

  Lemma ninb_arc k g x nx y :
    Inv k g -> get_node g x = Some nx -> (In y (ninb nx) <-> arc (dgraph g) y x).
  Proof.
    intros HI G. destruct (at_find_node_some _ _ _ G) as [Hn Hid].
    rewrite <- (parents_in name_eqb name_eqb_spec), parents_dgraph, <- Hid.
    split; apply Permutation_in; [|symmetry]; apply (inv_inb HI nx Hn).
  Qed.

  Lemma noutb_arc k g x nx y :
    Inv k g -> get_node g x = Some nx -> (In y (noutb nx) <-> arc (dgraph g) x y).
  Proof.
    intros HI G. destruct (at_find_node_some _ _ _ G) as [Hn Hid].
    rewrite <- (children_in name_eqb name_eqb_spec), children_dgraph, <- Hid.
    split; apply Permutation_in; [|symmetry]; apply (inv_outb HI nx Hn).
  Qed.

  Lemma arc_dgraph_edge g a b :
    arc (dgraph g) a b <-> exists e, In e (gsrc g) /\ ety e = Dir /\ esrc e = a /\ edst e = b.
  Proof using Type. sg_clear.
    unfold arc, dgraph. cbn [arcs]. rewrite in_map_iff. split.
    - intros (e & Ek & He). apply filter_In in He. destruct He as [He Ht].
      injection Ek as <- <-. exists e. destruct (etype_eqb_spec (ety e) Dir); [auto|discriminate].
    - intros (e & He & Ht & <- & <-). exists e. split; [reflexivity|]. apply filter_In.
      split; [exact He|]. rewrite Ht. reflexivity.
  Qed.

  (** the sub-graph of the DIRECTED edges INTO [x]: a star, not an induced sub-graph *)
  Definition into_sel (x : name) (e : edge) : bool := etype_eqb (ety e) Dir && name_eqb (edst e) x.
  Definition from_sel (x : name) (e : edge) : bool := etype_eqb (ety e) Dir && name_eqb (esrc e) x.

  Theorem parents_graph_spec k g x :
    Inv k g -> (k = TS -> TagsStable g) -> In x (node_ids g) ->
    exists h, parents_graph parse fmt k g x = Ok h /\ Inv k h /\ gmeta h = gmeta g
      /\ v_edges h = filter (into_sel x) (v_edges g)
      /\ v_nodes h = filter (in_set (x :: parents name_eqb (dgraph g) x)) (v_nodes g)
      /\ (forall y, In y (node_ids h) <-> y = x \/ arc (dgraph g) y x)
      /\ (forall e, In e (gsrc h) <-> In e (gsrc g) /\ ety e = Dir /\ edst e = x).
  Proof.
    intros HI HT Hx. destruct (copy_spec k g HI HT) as (c & Hc & HIc & Vn & Ve & Vm).
    destruct (get_node_in g x Hx) as (nx & G & Hnx & Hid).
    unfold parents_graph. rewrite (proj2 (at_node_exists_in g x) Hx), Hc. cbn [bind]. rewrite G.
    destruct (star_spec k g c (fun e => existsb (fun p => edge_sheq e p x Dir) (ninb nx)) (x :: ninb nx)
                (into_sel x) HIc Vn Ve Vm) as (h & Hp & HIh & M & Ed & Nd).
    - intros e He. apply eq_true_iff_eq. unfold into_sel. rewrite existsb_exists, andb_true_iff. split.
      + intros (p & Hp & Hs). apply edge_sheq_dir in Hs. destruct Hs as (_ & -> & ->).
        rewrite name_eqb_refl. auto.
      + intros [Ht Hd]. apply name_eqb_eq in Hd. destruct (etype_eqb_spec (ety e) Dir) as [Ht'|]; [|discriminate].
        exists (esrc e). split; [|apply edge_sheq_dir; auto].
        apply (ninb_arc k g x nx _ HI G). apply arc_dgraph_edge. exists e. auto.
    - intros e He Hs. unfold into_sel in Hs. apply andb_true_iff in Hs. destruct Hs as [Ht Hd].
      apply name_eqb_eq in Hd. destruct (etype_eqb_spec (ety e) Dir) as [Ht'|]; [|discriminate].
      split; [right|left; symmetry; exact Hd].
      apply (ninb_arc k g x nx _ HI G). apply arc_dgraph_edge. exists e. auto.
    - assert (Hset : forall y, In y (x :: ninb nx) <-> In y (x :: parents name_eqb (dgraph g) x)).
      { intros y. cbn [In]. rewrite (ninb_arc k g x nx y HI G), (parents_in name_eqb name_eqb_spec). tauto. }
      assert (Nd' : v_nodes h = filter (in_set (x :: parents name_eqb (dgraph g) x)) (v_nodes g)).
      { rewrite Nd. apply filter_ext. intros t. unfold in_set. apply eq_true_iff_eq.
        rewrite !mem_in. apply Hset. }
      exists h. split; [exact Hp|]. split; [exact HIh|]. split; [exact M|]. split; [exact Ed|].
      split; [exact Nd'|]. split.
      + intros y. rewrite <- v_nodes_ids, Nd', in_map_iff. split.
        * intros (t & <- & Ht). apply filter_In in Ht. destruct Ht as [_ Hm]. unfold in_set in Hm.
          apply mem_in in Hm. cbn [In] in Hm. rewrite (parents_in name_eqb name_eqb_spec) in Hm.
          destruct Hm as [<-|Hm]; auto.
        * intros Hy.
          assert (Hyg : In y (node_ids g)).
          { destruct Hy as [->|Hy]; [exact Hx|]. apply (proj2 (dgraph_wf HI) _ _ Hy). }
          apply v_nodes_ids, in_map_iff in Hyg. destruct Hyg as (t & <- & Ht). exists t. split; [reflexivity|].
          apply filter_In. split; [exact Ht|]. unfold in_set. apply mem_in. cbn [In].
          rewrite (parents_in name_eqb name_eqb_spec). destruct Hy as [->|Hy]; auto.
      + intros e. rewrite <- v_edges_in, Ed, filter_In, v_edges_in. unfold into_sel.
        rewrite andb_true_iff, name_eqb_eq.
        destruct (etype_eqb_spec (ety e) Dir) as [Ht|Ht]; split; intros H; intuition congruence.
  Qed.

  (** the sub-graph of the DIRECTED edges OUT OF [x] *)
  Theorem children_graph_spec k g x :
    Inv k g -> (k = TS -> TagsStable g) -> In x (node_ids g) ->
    exists h, children_graph parse fmt k g x = Ok h /\ Inv k h /\ gmeta h = gmeta g
      /\ v_edges h = filter (from_sel x) (v_edges g)
      /\ v_nodes h = filter (in_set (x :: children name_eqb (dgraph g) x)) (v_nodes g)
      /\ (forall y, In y (node_ids h) <-> y = x \/ arc (dgraph g) x y)
      /\ (forall e, In e (gsrc h) <-> In e (gsrc g) /\ ety e = Dir /\ esrc e = x).
  Proof.
    intros HI HT Hx. destruct (copy_spec k g HI HT) as (c & Hc & HIc & Vn & Ve & Vm).
    assert (Hsrc : forall e, In e (gsrc c) <-> In e (gsrc g)).
    { intros e. rewrite <- !v_edges_in, Ve. tauto. }
    assert (Harc : forall a b, arc (dgraph c) a b <-> arc (dgraph g) a b).
    { intros a b. rewrite !arc_dgraph_edge. split; intros (e & He & H); exists e; (split; [apply Hsrc, He|exact H]). }
    assert (Hxc : In x (node_ids c)).
    { apply v_nodes_ids. rewrite Vn. apply v_nodes_ids, Hx. }
    destruct (get_node_in c x Hxc) as (nx & G & Hnx & Hid).
    unfold children_graph. rewrite (proj2 (at_node_exists_in g x) Hx), Hc. cbn [bind]. rewrite G.
    destruct (star_spec k g c (fun e => existsb (fun d => edge_sheq e x d Dir) (noutb nx)) (x :: noutb nx)
                (from_sel x) HIc Vn Ve Vm) as (h & Hp & HIh & M & Ed & Nd).
    - intros e He. apply eq_true_iff_eq. unfold from_sel. rewrite existsb_exists, andb_true_iff. split.
      + intros (p & Hp & Hs). apply edge_sheq_dir in Hs. destruct Hs as (-> & _ & ->).
        rewrite name_eqb_refl. auto.
      + intros [Ht Hd]. apply name_eqb_eq in Hd. destruct (etype_eqb_spec (ety e) Dir) as [Ht'|]; [|discriminate].
        exists (edst e). split; [|apply edge_sheq_dir; auto].
        apply (noutb_arc k c x nx _ HIc G). apply Harc, arc_dgraph_edge. exists e. auto.
    - intros e He Hs. unfold from_sel in Hs. apply andb_true_iff in Hs. destruct Hs as [Ht Hd].
      apply name_eqb_eq in Hd. destruct (etype_eqb_spec (ety e) Dir) as [Ht'|]; [|discriminate].
      split; [left; symmetry; exact Hd|right].
      apply (noutb_arc k c x nx _ HIc G). apply Harc, arc_dgraph_edge. exists e. auto.
    - assert (Hset : forall y, In y (x :: noutb nx) <-> In y (x :: children name_eqb (dgraph g) x)).
      { intros y. cbn [In]. rewrite (noutb_arc k c x nx y HIc G), Harc, (children_in name_eqb name_eqb_spec). tauto. }
      assert (Nd' : v_nodes h = filter (in_set (x :: children name_eqb (dgraph g) x)) (v_nodes g)).
      { rewrite Nd. apply filter_ext. intros t. unfold in_set. apply eq_true_iff_eq.
        rewrite !mem_in. apply Hset. }
      exists h. split; [exact Hp|]. split; [exact HIh|]. split; [exact M|]. split; [exact Ed|].
      split; [exact Nd'|]. split.
      + intros y. rewrite <- v_nodes_ids, Nd', in_map_iff. split.
        * intros (t & <- & Ht). apply filter_In in Ht. destruct Ht as [_ Hm]. unfold in_set in Hm.
          apply mem_in in Hm. cbn [In] in Hm. rewrite (children_in name_eqb name_eqb_spec) in Hm.
          destruct Hm as [<-|Hm]; auto.
        * intros Hy.
          assert (Hyg : In y (node_ids g)).
          { destruct Hy as [->|Hy]; [exact Hx|]. apply (proj2 (dgraph_wf HI) _ _ Hy). }
          apply v_nodes_ids, in_map_iff in Hyg. destruct Hyg as (t & <- & Ht). exists t. split; [reflexivity|].
          apply filter_In. split; [exact Ht|]. unfold in_set. apply mem_in. cbn [In].
          rewrite (children_in name_eqb name_eqb_spec). destruct Hy as [->|Hy]; auto.
      + intros e. rewrite <- v_edges_in, Ed, filter_In, v_edges_in. unfold from_sel.
        rewrite andb_true_iff, name_eqb_eq.
        destruct (etype_eqb_spec (ety e) Dir) as [Ht|Ht]; split; intros H; intuition congruence.
  Qed.

  Lemma same_view_dgraph_arc g1 g2 a b :
    same_view g1 g2 -> (arc (dgraph g1) a b <-> arc (dgraph g2) a b).
  Proof using Type. sg_clear.
    intros HV. rewrite !arc_dgraph_edge.
    split; intros (e & He & H); exists e; (split; [apply (same_view_src g1 g2 e HV), He|exact H]).
  Qed.

  Theorem parents_children_graph_order_invariant k g1 g2 x :
    Inv k g1 -> Inv k g2 -> (k = TS -> TagsStable g1) -> (k = TS -> TagsStable g2) ->
    same_view g1 g2 ->
    res_rel same_view (parents_graph parse fmt k g1 x) (parents_graph parse fmt k g2 x)
    /\ res_rel same_view (children_graph parse fmt k g1 x) (children_graph parse fmt k g2 x).
  Proof.
    intros HI1 HI2 HT1 HT2 HV.
    destruct (in_dec name_eq_dec x (node_ids g1)) as [Hx|Hx].
    - pose proof (proj1 (same_view_ids g1 g2 x HV) Hx) as Hx2.
      destruct (parents_graph_spec k g1 x HI1 HT1 Hx) as (h1 & H1 & _ & M1 & E1 & N1 & _).
      destruct (parents_graph_spec k g2 x HI2 HT2 Hx2) as (h2 & H2 & _ & M2 & E2 & N2 & _).
      destruct (children_graph_spec k g1 x HI1 HT1 Hx) as (i1 & I1 & _ & P1 & F1 & Q1 & _).
      destruct (children_graph_spec k g2 x HI2 HT2 Hx2) as (i2 & I2 & _ & P2 & F2 & Q2 & _).
      rewrite H1, H2, I1, I2. cbn [res_rel]. pose proof HV as (Vn & Ve & Vm).
      split; (split; [|split; congruence]).
      + rewrite N1, N2, Vn. apply filter_ext. intros t. unfold in_set. apply eq_true_iff_eq.
        rewrite !mem_in. cbn [In]. rewrite !(parents_in name_eqb name_eqb_spec).
        rewrite (same_view_dgraph_arc g1 g2 _ _ HV). tauto.
      + rewrite Q1, Q2, Vn. apply filter_ext. intros t. unfold in_set. apply eq_true_iff_eq.
        rewrite !mem_in. cbn [In]. rewrite !(children_in name_eqb name_eqb_spec).
        rewrite (same_view_dgraph_arc g1 g2 _ _ HV). tauto.
    - assert (Hx2 : ~ In x (node_ids g2)) by (intros H; apply Hx, (same_view_ids g1 g2 x HV), H).
      destruct (star_missing_node k g1 x Hx) as (A1 & B1).
      destruct (star_missing_node k g2 x Hx2) as (A2 & B2).
      rewrite A1, A2, B1, B2. split; reflexivity.
  Qed.
End SubProofs.

(** * 11. The structural queries of Queries.v depend only on the SET of vertices and arcs

    ([get_descendants], [get_ancestors], [get_all_causal_paths], [get_nodes_between],
    [get_topological_order(return_all=True)], [directed_path_exists]): two digraphs that list
    the same vertices and arcs in different orders give the same answers, as sets. *)
Section SameArcs.
  Variable A : Type.
  Variable eqb : A -> A -> bool.
  Hypothesis eqb_spec : forall x y, reflect (x = y) (eqb x y).

  Definition same_arcs (d1 d2 : digraph A) : Prop :=
    (forall v, In v (verts d1) <-> In v (verts d2)) /\ (forall a b, arc d1 a b <-> arc d2 a b).

  Variables d1 d2 : digraph A.
  Hypothesis HS : same_arcs d1 d2.
  Hypothesis W1 : wf d1.
  Hypothesis W2 : wf d2.

  Lemma sa_path a b : path d1 a b <-> path d2 a b.
  Proof. split; apply DigraphProofs.path_mono; intros u v; apply (proj2 HS). Qed.

  Lemma sa_acyclic : acyclic d1 <-> acyclic d2.
  Proof. unfold acyclic. split; intros H v Hp; apply (H v), sa_path, Hp. Qed.

  Lemma sa_verts_perm : Permutation (verts d1) (verts d2).
  Proof. apply NoDup_Permutation; [apply W1|apply W2|apply (proj1 HS)]. Qed.

  Theorem desc_same_arcs x y : In y (desc eqb d1 x) <-> In y (desc eqb d2 x).
  Proof. rewrite (desc_spec eqb eqb_spec x y W1), (desc_spec eqb eqb_spec x y W2). apply sa_path. Qed.

  Theorem anc_same_arcs x y : In y (anc eqb d1 x) <-> In y (anc eqb d2 x).
  Proof. rewrite (anc_spec eqb eqb_spec x y W1), (anc_spec eqb eqb_spec x y W2). apply sa_path. Qed.

  Lemma sa_chain x l : chain d1 x l <-> chain d2 x l.
  Proof.
    revert x. induction l as [|y l IH]; intros x; simpl; [tauto|].
    rewrite (proj2 HS x y), (IH y). tauto.
  Qed.

  Theorem all_paths_same_arcs a b p : In p (all_paths eqb d1 a b) <-> In p (all_paths eqb d2 a b).
  Proof.
    rewrite (@all_paths_spec A eqb eqb_spec d1 a b p W1), (@all_paths_spec A eqb eqb_spec d2 a b p W2).
    unfold simple_path. split; intros (Hne & l & Hp & Hc & Hl & Hn); (split; [exact Hne|]);
      exists l; (split; [exact Hp|]); (split; [apply sa_chain, Hc|auto]).
  Qed.

  Theorem all_topo_same_arcs l : In l (all_topo eqb d1) <-> In l (all_topo eqb d2).
  Proof.
    rewrite (@all_topo_spec A eqb eqb_spec d1 l W1), (@all_topo_spec A eqb eqb_spec d2 l W2).
    rewrite (@is_topo_spec A eqb eqb_spec d1 l W1), (@is_topo_spec A eqb eqb_spec d2 l W2).
    unfold topo_order. split; intros [Hp Hb]; split.
    - rewrite Hp. apply sa_verts_perm.
    - intros a b Hab. apply Hb, (proj2 HS), Hab.
    - rewrite Hp. symmetry. apply sa_verts_perm.
    - intros a b Hab. apply Hb, (proj2 HS), Hab.
  Qed.

  Theorem all_time_topo_same_arcs (lag : A -> Z) l :
    In l (all_time_topo eqb d1 lag) <-> In l (all_time_topo eqb d2 lag).
  Proof. unfold all_time_topo. rewrite !filter_In, all_topo_same_arcs. tauto. Qed.

  Theorem nodes_between_same_arcs a b fuel :
    acyclic d1 -> fuel > length (verts d1) ->
    exists S1 S2, nodes_between eqb fuel d1 a b = Some S1 /\ nodes_between eqb fuel d2 a b = Some S2
                  /\ forall v, In v S1 <-> In v S2.
  Proof.
    intros Hac Hf.
    destruct (@nodes_between_correct_fuel A eqb eqb_spec d1 a b fuel W1 Hac Hf) as (S1 & E1 & C1 & _).
    assert (Hf2 : fuel > length (verts d2)) by (rewrite <- (Permutation_length sa_verts_perm); exact Hf).
    destruct (@nodes_between_correct_fuel A eqb eqb_spec d2 a b fuel W2 (proj1 sa_acyclic Hac) Hf2) as (S2 & E2 & C2 & _).
    exists S1, S2. split; [exact E1|]. split; [exact E2|].
    intros v. rewrite C1, C2, !sa_path. tauto.
  Qed.

  Theorem directed_path_exists_same_arcs a b fuel :
    acyclic d1 -> In a (verts d1) -> fuel >= length (verts d1) ->
    exists r, directed_path_exists eqb fuel d1 a b = Some r /\ directed_path_exists eqb fuel d2 a b = Some r.
  Proof.
    intros Hac Ha Hf.
    destruct (@directed_path_exists_correct_fuel A eqb eqb_spec d1 a b fuel W1 Hac Ha Hf) as (r1 & E1 & C1).
    assert (Hf2 : fuel >= length (verts d2)) by (rewrite <- (Permutation_length sa_verts_perm); exact Hf).
    destruct (@directed_path_exists_correct_fuel A eqb eqb_spec d2 a b fuel W2 (proj1 sa_acyclic Hac)
                (proj1 (proj1 HS a) Ha) Hf2) as (r2 & E2 & C2).
    exists r1. split; [exact E1|]. rewrite E2. f_equal.
    destruct r1, r2; try reflexivity; exfalso.
    - assert (H : false = true) by (apply C2, sa_path, C1; reflexivity). discriminate.
    - assert (H : false = true) by (apply C1, sa_path, C2; reflexivity). discriminate.
  Qed.

  Theorem common_anc_same_arcs a b v :
    In v (common_anc eqb d1 a b) <-> In v (common_anc eqb d2 a b).
  Proof. unfold common_anc. rewrite !(@inter_in A eqb eqb_spec), !anc_same_arcs. tauto. Qed.

  Theorem common_desc_same_arcs a b v :
    In v (common_desc eqb d1 a b) <-> In v (common_desc eqb d2 a b).
  Proof. unfold common_desc. rewrite !(@inter_in A eqb eqb_spec), !desc_same_arcs. tauto. Qed.
End SameArcs.

(** two graph states with the same content have the same directed part, as a set *)
Theorem same_view_same_arcs parse k g1 g2 :
  Inv parse k g1 -> Inv parse k g2 -> same_view g1 g2 ->
  same_arcs name (dgraph g1) (dgraph g2) /\ wf (dgraph g1) /\ wf (dgraph g2).
Proof.
  intros HI1 HI2 HV. split; [|split; apply (dgraph_wf (parse:=parse) (k:=k)); assumption].
  split.
  - intros v. cbn [dgraph verts]. apply (same_view_ids g1 g2 v HV).
  - intros a b. apply (same_view_dgraph_arc g1 g2 a b HV).
Qed.


(** * 12. ... and the returned graphs are [equiv] (GraphInv.v): same nodes IN THE SAME INSERTION
    ORDER, same edges, same time-series indexes

    The nodes of a sub-graph are created in the order of their first occurrence in the sorted
    edge list (or, for the star graphs, in the sorted order [copy()] uses), never in the
    insertion order of the original graph: so two states with the same content, however they were
    built, give sub-graphs that agree on everything except the insertion order of the edge
    indexes and of the per-node parent / child lists. *)
Section SubEquiv.
  Variable parse : name -> option (name * Z).
  Notation Inv := (Inv parse).

  Lemma sg_Forall2_impl {X Y} (R R' : X -> Y -> Prop) l1 l2 :
    (forall a b, R a b -> R' a b) -> Forall2 R l1 l2 -> Forall2 R' l1 l2.
  Proof. intros H F. induction F; constructor; auto. Qed.

  Lemma map_abs_node_Forall2 (l1 l2 : list node) :
    map abs_node l1 = map abs_node l2 ->
    Forall2 (fun a b => In a l1 /\ In b l2 /\ abs_node a = abs_node b) l1 l2.
  Proof.
    revert l2. induction l1 as [|a l1 IH]; intros [|b l2] H; simpl in H; try discriminate; [constructor|].
    assert (Hab : abs_node a = abs_node b) by congruence.
    assert (Hrest : map abs_node l1 = map abs_node l2) by congruence.
    constructor; [simpl; auto|].
    eapply sg_Forall2_impl; [|exact (IH l2 Hrest)]. intros u v (Hu & Hv & E). simpl; auto.
  Qed.

  Lemma dir_into_perm g h n : Permutation (gsrc g) (gsrc h) -> Permutation (dir_into g n) (dir_into h n).
  Proof. intros P. unfold dir_into. apply Permutation_map, at_filter_perm, P. Qed.
  Lemma dir_from_perm g h n : Permutation (gsrc g) (gsrc h) -> Permutation (dir_from g n) (dir_from h n).
  Proof. intros P. unfold dir_from. apply Permutation_map, at_filter_perm, P. Qed.

  Lemma idx_unique {K} (f : node -> option K) (L1 L2 : list (K * name)) (n1 n2 : list node) :
    Forall2 (fun p n => snd p = nid n /\ f n = Some (fst p)) L1 n1 ->
    Forall2 (fun p n => snd p = nid n /\ f n = Some (fst p)) L2 n2 ->
    Forall2 (fun a b => nid a = nid b /\ f a = f b) n1 n2 -> L1 = L2.
  Proof.
    intros F1. revert L2 n2. induction F1 as [|p1 m1 L1 n1 (A1 & B1) _ IH]; intros L2 n2 F2 F.
    - inversion F; subst. inversion F2; subst. reflexivity.
    - inversion F as [|? m2 ? n2' (Hid & Hf) F']; subst. inversion F2 as [|p2 ? L2' ? (A2 & B2) F2']; subst.
      f_equal; [|eapply IH; eassumption].
      destruct p1 as [k1 i1], p2 as [k2 i2]. cbn [fst snd] in *. f_equal; congruence.
  Qed.

  (** two states of one class with the same abstract state and the same graph metadata differ
      only by the insertion order of the edge indexes and of the per-node directed lists *)
  Theorem abs_inv_equiv k h1 h2 :
    Inv k h1 -> Inv k h2 -> abs h1 = abs h2 -> gmeta h1 = gmeta h2 -> equiv h1 h2.
  Proof.
    intros I1 I2 HA HM.
    assert (Hn : map abs_node (gnodes h1) = map abs_node (gnodes h2)) by (injection HA; auto).
    assert (He : sorted_edges h1 = sorted_edges h2) by (injection HA; auto).
    assert (Ps : Permutation (gsrc h1) (gsrc h2)).
    { rewrite (sorted_edges_perm_gsrc h1), He. symmetry. apply sorted_edges_perm_gsrc. }
    pose proof (map_abs_node_Forall2 _ _ Hn) as F.
    split; [|split; [exact Ps|split; [|split; [exact HM|]]]].
    - eapply sg_Forall2_impl; [|exact F]. intros a b (Ha & Hb & E). unfold abs_node in E.
      injection E as E1 E2 E3. split; [exact E1|]. split; [exact E2|]. split; [exact E3|]. split.
      + rewrite (inv_inb I1 a Ha), (inv_inb I2 b Hb), E1. apply dir_into_perm, Ps.
      + rewrite (inv_outb I1 a Ha), (inv_outb I2 b Hb), E1. apply dir_from_perm, Ps.
    - rewrite (inv_mirror I1), (inv_mirror I2). exact Ps.
    - destruct k.
      + destruct (inv_plain_idx I1 eq_refl) as [-> ->]. destruct (inv_plain_idx I2 eq_refl) as [-> ->].
        split; reflexivity.
      + pose proof (inv_ts I1 eq_refl) as T1. pose proof (inv_ts I2 eq_refl) as T2. split.
        * eapply (idx_unique (fun n => meta_lag (nmeta n))); [apply (ts_lagidx T1)|apply (ts_lagidx T2)|].
          eapply sg_Forall2_impl; [|exact F]. intros a b (_ & _ & E). unfold abs_node in E.
          injection E as E1 E2 E3. split; congruence.
        * eapply (idx_unique (fun n => meta_var (nmeta n))); [apply (ts_varidx T1)|apply (ts_varidx T2)|].
          eapply sg_Forall2_impl; [|exact F]. intros a b (_ & _ & E). unfold abs_node in E.
          injection E as E1 E2 E3. split; congruence.
  Qed.

  (** the attributes of a node are content *)
  Lemma attr_same_view k g1 g2 id :
    Inv k g1 -> Inv k g2 -> same_view g1 g2 -> attr g1 id = attr g2 id.
  Proof.
    intros I1 I2 HV. unfold attr.
    destruct (in_dec name_eq_dec id (node_ids g1)) as [Hin|Hnin].
    - destruct (get_node_in g1 id Hin) as (n & G & Hn & Hid). rewrite G.
      assert (H3 : In (node3 n) (v_nodes g2)).
      { destruct HV as (<- & _). apply v_nodes_in. exists n. auto. }
      apply v_nodes_in in H3. destruct H3 as (n2 & Hn2 & E3).
      assert (G2 : get_node g2 id = Some n2).
      { unfold get_node. rewrite <- Hid. replace (nid n) with (nid n2) by (unfold node3 in E3; congruence).
        apply at_find_node_in; [apply (inv_nodup_nodes I2)|exact Hn2]. }
      rewrite G2. unfold node3 in E3. congruence.
    - assert (Hnin2 : ~ In id (node_ids g2)) by (intros H; apply Hnin, (same_view_ids g1 g2 id HV), H).
      apply at_node_exists_false in Hnin, Hnin2. unfold node_exists in Hnin, Hnin2.
      destruct (get_node g1 id); [discriminate|]. destruct (get_node g2 id); [discriminate|]. reflexivity.
  Qed.

  (** the node entries of [_get_subgraph(nodes)], in creation order *)
  Definition sub_entries (k : kind) (g : graph) (nodes : list name) : list (name * (vtype * meta)) :=
    match sub_edges g nodes with
    | [] => map (fun x => (x, entry parse k g x)) nodes
    | _ :: _ => fold_left (ens_e parse k g) (sub_edges g nodes) []
    end.

  Theorem get_subgraph_abs k g nodes :
    Inv k g ->
    (sub_edges g nodes = [] -> NoDup nodes /\ incl nodes (node_ids g)) ->
    exists h, get_subgraph parse k g nodes = Ok h /\ Inv k h /\ gmeta h = gmeta g
              /\ abs h = {| a_nodes := sub_entries k g nodes; a_edges := sub_edges g nodes |}.
  Proof.
    intros HI Hnone. unfold get_subgraph, sub_entries. cbv zeta.
    pose proof (inv_empty parse k (gmeta g)) as HI0.
    destruct (sub_edges g nodes) as [|e0 E] eqn:HE.
    - destruct (Hnone eq_refl) as [HND Hincl].
      destruct (add_nodes_fold parse k g nodes (empty_graph (gmeta g)) HI HI0 HND) as (h & F & HIh & M & N & Ed).
      { intros x Hx. split; [apply Hincl, Hx|intros []]. }
      cbn [fold_left]. exists h. split; [exact F|]. split; [exact HIh|]. split; [exact M|].
      destruct (abs h) as [an ae] eqn:Ea. cbn [a_nodes a_edges] in N, Ed. rewrite N, Ed. reflexivity.
    - rewrite <- HE.
      assert (Hsub : forall e, In e (sub_edges g nodes) -> In e (gsrc g))
        by (intros e He; apply sub_edges_in in He; apply He).
      destruct (add_edges_fold parse k g (sub_edges g nodes) [] (empty_graph (gmeta g)) HI HI0 eq_refl)
        as (h & F & HIh & M & N & Ed).
      + cbn [app]. unfold sub_edges. apply sp_filter_sorted, sorted_edges_sorted.
      + cbn [app]. unfold sub_edges. apply at_nodup_keys_filter, (sp_nodup_sorted_keys parse k g HI).
      + cbn [app]. exact Hsub.
      + exists h. split; [rewrite HE in F |- *; exact F|]. split; [exact HIh|]. split; [exact M|].
        destruct (abs h) as [an ae] eqn:Ea. cbn [a_nodes a_edges app] in N, Ed. rewrite N, Ed. reflexivity.
  Qed.

  Lemma sub_entries_same_view k g1 g2 nodes :
    Inv k g1 -> Inv k g2 -> same_view g1 g2 -> sub_entries k g1 nodes = sub_entries k g2 nodes.
  Proof.
    intros I1 I2 HV. unfold sub_entries. rewrite <- (same_view_sub_edges g1 g2 nodes HV).
    assert (Hattr : forall id, attr g1 id = attr g2 id) by (intros id; apply (attr_same_view k); assumption).
    destruct (sub_edges g1 nodes) as [|e0 E].
    - apply map_ext. intros x. unfold entry. rewrite Hattr. reflexivity.
    - generalize (e0 :: E). intros EE. generalize (@nil (name * (vtype * meta))).
      induction EE as [|e EE IH]; intros L; cbn [fold_left]; [reflexivity|].
      rewrite IH. f_equal. unfold ens_e. rewrite !Hattr. reflexivity.
  Qed.

  Theorem get_subgraph_equiv_invariant k g1 g2 nodes :
    Inv k g1 -> Inv k g2 -> same_view g1 g2 ->
    (sub_edges g1 nodes = [] -> NoDup nodes /\ incl nodes (node_ids g1)) ->
    exists h1 h2, get_subgraph parse k g1 nodes = Ok h1 /\ get_subgraph parse k g2 nodes = Ok h2
                  /\ equiv h1 h2.
  Proof.
    intros I1 I2 HV Hpre.
    destruct (get_subgraph_abs k g1 nodes I1 Hpre) as (h1 & H1 & J1 & M1 & A1).
    destruct (get_subgraph_abs k g2 nodes I2) as (h2 & H2 & J2 & M2 & A2).
    { rewrite <- (same_view_sub_edges g1 g2 nodes HV). intros HE. destruct (Hpre HE) as [A B].
      split; [exact A|]. intros y Hy. apply (same_view_ids g1 g2 y HV), B, Hy. }
    exists h1, h2. split; [exact H1|]. split; [exact H2|].
    apply (abs_inv_equiv k h1 h2 J1 J2).
    - rewrite A1, A2, (sub_entries_same_view k g1 g2 nodes I1 I2 HV), (same_view_sub_edges g1 g2 nodes HV).
      reflexivity.
    - destruct HV as (_ & _ & Vm). congruence.
  Qed.

  (** with two enumerations of the same ancestor / descendant set *)
  Lemma closure_equiv k g1 g2 d1 d2 x l1 l2 :
    Inv k g1 -> Inv k g2 -> same_view g1 g2 ->
    view_ok g1 d1 -> view_ok g2 d2 -> (forall a b, path d1 a b <-> path d2 a b) ->
    In x (node_ids g1) -> NoDup l1 -> NoDup l2 ->
    (forall y, In y l1 <-> y <> x /\ path d1 x y) -> (forall y, In y l2 <-> y <> x /\ path d2 x y) ->
    exists h1 h2, get_subgraph parse k g1 (l1 ++ [x]) = Ok h1 /\ get_subgraph parse k g2 (l2 ++ [x]) = Ok h2
                  /\ equiv h1 h2.
  Proof.
    intros I1 I2 HV V1 V2 Hp Hx N1 N2 L1 L2.
    pose proof (proj1 (same_view_ids g1 g2 x HV) Hx) as Hx2.
    assert (HS : forall y, In y (l1 ++ [x]) <-> In y (l2 ++ [x])).
    { intros y. rewrite !in_app_iff, L1, L2, Hp. tauto. }
    assert (HE : sub_edges g1 (l1 ++ [x]) = sub_edges g2 (l2 ++ [x])).
    { rewrite (sub_edges_set_ext g1 _ _ HS). apply same_view_sub_edges, HV. }
    destruct (get_subgraph_abs k g1 (l1 ++ [x]) I1) as (h1 & H1 & J1 & M1 & A1).
    { intros E0. split; [eapply cl_nodup; eassumption|eapply cl_incl; eassumption]. }
    destruct (get_subgraph_abs k g2 (l2 ++ [x]) I2) as (h2 & H2 & J2 & M2 & A2).
    { intros E0. split; [eapply cl_nodup; eassumption|eapply cl_incl; eassumption]. }
    exists h1, h2. split; [exact H1|]. split; [exact H2|].
    apply (abs_inv_equiv k h1 h2 J1 J2); [|destruct HV as (_ & _ & Vm); congruence].
    rewrite A1, A2, <- HE. f_equal.
    unfold sub_entries. rewrite <- HE.
    destruct (sub_edges g1 (l1 ++ [x])) as [|e0 E] eqn:E1.
    - assert (Hl1 : l1 = []) by exact (cl_edges_nil g1 d1 x l1 V1 L1 E1).
      assert (Hl2 : l2 = []) by (apply (cl_edges_nil g2 d2 x l2 V2 L2); congruence).
      subst l1 l2.
      cbn [app map]. unfold entry. rewrite (attr_same_view k g1 g2 x I1 I2 HV). reflexivity.
    - assert (Hattr : forall id, attr g1 id = attr g2 id) by (intros id; apply (attr_same_view k); assumption).
      generalize (e0 :: E). intros EE. generalize (@nil (name * (vtype * meta))).
      induction EE as [|e EE IH]; intros L; cbn [fold_left]; [reflexivity|].
      rewrite IH. f_equal. unfold ens_e. rewrite !Hattr. reflexivity.
  Qed.

  Theorem ancestral_graph_equiv_invariant k g1 g2 x :
    Inv k g1 -> Inv k g2 -> same_view g1 g2 ->
    res_rel equiv (ancestral_graph parse k g1 x) (ancestral_graph parse k g2 x)
    /\ res_rel equiv (descendant_graph parse k g1 x) (descendant_graph parse k g2 x).
  Proof.
    intros I1 I2 HV. pose proof (same_view_nx g1 g2 HV) as Hnx.
    destruct (in_dec name_eq_dec x (node_ids g1)) as [Hx|Hx].
    - pose proof (proj1 (same_view_ids g1 g2 x HV) Hx) as Hx2.
      destruct (nx_view g1) as [d1|e1] eqn:D1; destruct (nx_view g2) as [d2|e2] eqn:D2; try contradiction.
      + pose proof (path_same_arcs d1 d2 Hnx) as Hp.
        pose proof (nx_view_ok parse k g1 d1 I1 D1) as V1. pose proof (nx_view_ok parse k g2 d2 I2 D2) as V2.
        destruct (g_ancestors_spec parse k g1 d1 x I1 D1 Hx) as (l1 & A1 & N1 & L1).
        destruct (g_ancestors_spec parse k g2 d2 x I2 D2 Hx2) as (l2 & A2 & N2 & L2).
        destruct (g_descendants_spec parse k g1 d1 x I1 D1 Hx) as (m1 & B1 & P1 & M1).
        destruct (g_descendants_spec parse k g2 d2 x I2 D2 Hx2) as (m2 & B2 & P2 & M2).
        unfold ancestral_graph, descendant_graph. rewrite A1, A2, B1, B2. cbn [bind]. split.
        * destruct (closure_equiv k g1 g2 (rev_graph d1) (rev_graph d2) x l1 l2 I1 I2 HV
                      (view_ok_rev g1 d1 V1) (view_ok_rev g2 d2 V2)) as (h1 & h2 & H1 & H2 & E); try assumption.
          -- intros a b. rewrite !rev_path. apply Hp.
          -- intros y. rewrite L1, rev_path. tauto.
          -- intros y. rewrite L2, rev_path. tauto.
          -- rewrite H1, H2. exact E.
        * destruct (closure_equiv k g1 g2 d1 d2 x m1 m2 I1 I2 HV V1 V2 Hp Hx P1 P2 M1 M2)
            as (h1 & h2 & H1 & H2 & E).
          rewrite H1, H2. exact E.
      + subst e2. unfold ancestral_graph, descendant_graph, g_ancestors, g_descendants.
        rewrite (proj2 (at_node_exists_in g1 x) Hx), (proj2 (at_node_exists_in g2 x) Hx2), D1, D2.
        split; reflexivity.
    - assert (Hx2 : ~ In x (node_ids g2)) by (intros H; apply Hx, (same_view_ids g1 g2 x HV), H).
      destruct (subgraph_missing_node parse k g1 x Hx) as (A1 & B1).
      destruct (subgraph_missing_node parse k g2 x Hx2) as (A2 & B2).
      rewrite A1, A2, B1, B2. split; reflexivity.
  Qed.
End SubEquiv.


Section StarEquiv.
  Variable parse : name -> option (name * Z).
  Variable fmt : name -> Z -> option name.
  Notation Inv := (Inv parse).

  (** [copy()] creates the nodes in sorted order *)
  Lemma copy_nodes k g :
    Inv k g -> (k = TS -> TagsStable g) ->
    exists c, copy parse fmt k g true = Ok c /\ Inv k c /\ map node3 (gnodes c) = v_nodes g
              /\ v_edges c = v_edges g /\ gmeta c = gmeta g.
  Proof.
    intros HI HT.
    destruct (@roundtrip_core parse fmt k g false None true (fun _ _ => True) HI HT) as (c & E & B & _).
    - intros; exact I.
    - intros done h e _ _ _ _; split; [left; reflexivity|exact I].
    - exists c. unfold copy. rewrite (to_dict_inv true HI). cbn [bind]. split; [exact E|].
      split; [exact (from_dict_inv fmt (inv_step parse fmt) k _ false E)|].
      destruct (@built_views g c None (gmeta g) B) as (_ & Ve & Vm). rewrite map_retype_none in Ve.
      destruct B as (HL & _). auto.
  Qed.

  Definition unflat3 (t : name * vtype * meta) : name * (vtype * meta) := (id3 t, (snd (fst t), snd t)).

  Lemma star_nodes k g c keep kept h :
    Inv k c -> map node3 (gnodes c) = v_nodes g -> prune k c keep kept = Ok h ->
    a_nodes (abs h) = filter (fun p => mem (fst p) kept) (map unflat3 (v_nodes g)).
  Proof.
    intros HIc HL Hp. destruct (prune_spec parse k c keep kept HIc) as (h' & Hp' & _ & _ & N & _).
    assert (h' = h) by congruence. subst h'. rewrite N, <- HL. cbn [abs a_nodes]. rewrite map_map.
    reflexivity.
  Qed.

  Lemma filter_set_ext {X} (f : X -> name) (S S' : list name) l :
    (forall y, In y S <-> In y S') -> filter (fun p => mem (f p) S) l = filter (fun p => mem (f p) S') l.
  Proof.
    intros H. apply filter_ext. intros p. apply eq_true_iff_eq. rewrite !mem_in. apply H.
  Qed.

  Theorem parents_children_graph_equiv_invariant k g1 g2 x :
    Inv k g1 -> Inv k g2 -> (k = TS -> TagsStable g1) -> (k = TS -> TagsStable g2) ->
    same_view g1 g2 ->
    res_rel equiv (parents_graph parse fmt k g1 x) (parents_graph parse fmt k g2 x)
    /\ res_rel equiv (children_graph parse fmt k g1 x) (children_graph parse fmt k g2 x).
  Proof.
    intros I1 I2 T1 T2 HV.
    destruct (in_dec name_eq_dec x (node_ids g1)) as [Hx|Hx].
    - pose proof (proj1 (same_view_ids g1 g2 x HV) Hx) as Hx2. pose proof HV as (Vn & Ve & Vm).
      destruct (parents_graph_spec parse fmt k g1 x I1 T1 Hx) as (h1 & H1 & J1 & M1 & E1 & _).
      destruct (parents_graph_spec parse fmt k g2 x I2 T2 Hx2) as (h2 & H2 & J2 & M2 & E2 & _).
      destruct (children_graph_spec parse fmt k g1 x I1 T1 Hx) as (i1 & F1 & K1 & P1 & Q1 & _).
      destruct (children_graph_spec parse fmt k g2 x I2 T2 Hx2) as (i2 & F2 & K2 & P2 & Q2 & _).
      destruct (copy_nodes k g1 I1 T1) as (c1 & C1 & IC1 & L1 & Ec1 & _).
      destruct (copy_nodes k g2 I2 T2) as (c2 & C2 & IC2 & L2 & Ec2 & _).
      destruct (get_node_in g1 x Hx) as (n1 & G1 & _ & _). destruct (get_node_in g2 x Hx2) as (n2 & G2 & _ & _).
      assert (Hxc1 : In x (node_ids c1)).
      { unfold node_ids. rewrite <- map_id3_node3, L1. apply v_nodes_ids, Hx. }
      assert (Hxc2 : In x (node_ids c2)).
      { unfold node_ids. rewrite <- map_id3_node3, L2. apply v_nodes_ids, Hx2. }
      destruct (get_node_in c1 x Hxc1) as (m1 & Gc1 & _ & _). destruct (get_node_in c2 x Hxc2) as (m2 & Gc2 & _ & _).
      rewrite H1, H2, F1, F2. cbn [res_rel].
      assert (Harc : forall e, In e (gsrc c1) <-> In e (gsrc g1)) by (intros e; rewrite <- !v_edges_in, Ec1; tauto).
      assert (Harc2 : forall e, In e (gsrc c2) <-> In e (gsrc g2)) by (intros e; rewrite <- !v_edges_in, Ec2; tauto).
      assert (Hcarc1 : forall a b, arc (dgraph c1) a b <-> arc (dgraph g1) a b).
      { intros a b. rewrite !arc_dgraph_edge. split; intros (e & He & H); exists e; (split; [apply Harc, He|exact H]). }
      assert (Hcarc2 : forall a b, arc (dgraph c2) a b <-> arc (dgraph g2) a b).
      { intros a b. rewrite !arc_dgraph_edge. split; intros (e & He & H); exists e; (split; [apply Harc2, He|exact H]). }
      unfold parents_graph in H1, H2. unfold children_graph in F1, F2.
      rewrite (proj2 (at_node_exists_in g1 x) Hx), C1 in H1, F1. rewrite (proj2 (at_node_exists_in g2 x) Hx2), C2 in H2, F2.
      cbn [bind] in H1, H2, F1, F2. rewrite G1 in H1. rewrite G2 in H2. rewrite Gc1 in F1. rewrite Gc2 in F2.
      split.
      + apply (abs_inv_equiv parse k h1 h2 J1 J2); [|congruence]. unfold abs. f_equal.
        * change (a_nodes (abs h1) = a_nodes (abs h2)).
          rewrite (star_nodes k g1 c1 _ _ h1 IC1 L1 H1), (star_nodes k g2 c2 _ _ h2 IC2 L2 H2), Vn.
          apply (filter_set_ext fst). intros y. cbn [In].
          rewrite (ninb_arc parse k g1 x n1 y I1 G1), (ninb_arc parse k g2 x n2 y I2 G2).
          rewrite (same_view_dgraph_arc g1 g2 _ _ HV). tauto.
        * change (v_edges h1 = v_edges h2). rewrite E1, E2, Ve. reflexivity.
      + apply (abs_inv_equiv parse k i1 i2 K1 K2); [|congruence]. unfold abs. f_equal.
        * change (a_nodes (abs i1) = a_nodes (abs i2)).
          rewrite (star_nodes k g1 c1 _ _ i1 IC1 L1 F1), (star_nodes k g2 c2 _ _ i2 IC2 L2 F2), Vn.
          apply (filter_set_ext fst). intros y. cbn [In].
          rewrite (noutb_arc parse k c1 x m1 y IC1 Gc1), (noutb_arc parse k c2 x m2 y IC2 Gc2).
          rewrite Hcarc1, Hcarc2, (same_view_dgraph_arc g1 g2 _ _ HV). tauto.
        * change (v_edges i1 = v_edges i2). rewrite Q1, Q2, Ve. reflexivity.
    - assert (Hx2 : ~ In x (node_ids g2)) by (intros H; apply Hx, (same_view_ids g1 g2 x HV), H).
      destruct (star_missing_node parse fmt k g1 x Hx) as (A1 & B1).
      destruct (star_missing_node parse fmt k g2 x Hx2) as (A2 & B2).
      rewrite A1, A2, B1, B2. split; reflexivity.
  Qed.
End StarEquiv.


(** * 13. Examples: behaviour pinned to the implementation, and non-vacuity of the theorems

    Every [vm_compute] example below is the output observed on the real library
    (cai_causal_graph at /repo, [PYTHONHASHSEED=0]) for the same construction history; the
    fourth component of a view is the insertion order of the nodes of the returned graph
    ([list(h._nodes_by_identifier)]). *)
From CG Require Import Names.

Module SubGraphExamples.
  Local Open Scope N_scope.
  Definition na : name := [97].   Definition nb : name := [98].   Definition nc : name := [99].
  Definition nd : name := [100].  Definition ne : name := [101].  Definition nz : name := [122].
  Definition nzz : name := [122; 122].   Definition nq : name := [113].
  Definition kk : name := [107].  Definition kw : name := [119].  Definition kgm : name := [103; 109].
  Definition x0 : name := [120].
  Definition x1 : name := [120; 32; 108; 97; 103; 40; 110; 61; 49; 41].     (* "x lag(n=1)" *)
  Definition y0 : name := [121].
  Definition y1 : name := [121; 32; 108; 97; 103; 40; 110; 61; 49; 41].     (* "y lag(n=1)" *)
  Definition V := res_view.

  (** a DAG: a -> b -> c -> d, a -> c, e -> c, isolated z; a is binary with metadata, the edge
      a -> b and the graph carry metadata *)
  Definition gA : graph :=
    run parse fmt Plain
      [OAddNode na VBin (Some [(kk, JInt 1)]);
       OAddEdge (str_ep na) (str_ep nb) Dir (Some [(kw, JInt 2)]) true;
       OAddEdge (str_ep nb) (str_ep nc) Dir None true;
       OAddEdge (str_ep na) (str_ep nc) Dir None true;
       OAddEdge (str_ep nc) (str_ep nd) Dir None true;
       OAddNode nz VUnspec None;
       OAddEdge (str_ep ne) (str_ep nc) Dir None true] (empty_graph [(kgm, JInt 1)]).

  (** a mixed graph: a -> b, b -- c, d <> b, a -> d, e -> b, e oo a *)
  Definition gM : graph :=
    run parse fmt Plain
      [OAddEdge (str_ep na) (str_ep nb) Dir None true;
       OAddEdge (str_ep nb) (str_ep nc) Und None true;
       OAddEdge (str_ep nd) (str_ep nb) Bi None true;
       OAddEdge (str_ep na) (str_ep nd) Dir None true;
       OAddEdge (str_ep ne) (str_ep nb) Dir None true;
       OAddEdge (str_ep ne) (str_ep na) Unk None true] (empty_graph []).

  (** undirected edges only: a -- b, c -- b, d -- e *)
  Definition gU : graph :=
    run parse fmt Plain
      [OAddEdge (str_ep na) (str_ep nb) Und None true;
       OAddEdge (str_ep nc) (str_ep nb) Und None true;
       OAddEdge (str_ep nd) (str_ep ne) Und None true] (empty_graph []).

  (** a time-series graph: x lag(n=1) -> x, y lag(n=1) -> x, y lag(n=1) -> y, x -> y, isolated q *)
  Definition gT : graph :=
    run parse fmt TS
      [OAddNode x0 VCont (Some [(kk, JInt 1)]);
       OAddEdge (str_ep x1) (str_ep x0) Dir (Some [(kw, JInt 2)]) true;
       OAddEdge (str_ep y1) (str_ep x0) Dir None true;
       OAddEdge (str_ep y1) (str_ep y0) Dir None true;
       OAddEdge (str_ep x0) (str_ep y0) Dir None true;
       OAddNode nq VUnspec None] (empty_graph [(kgm, JInt 1)]).

  (** ** [gA]: a node without ancestors, a missing node, the star graphs, and [_get_subgraph] itself *)
  Example gA_anc_a :
    V (ancestral_graph parse Plain gA na)
    = Ok ([(na, VBin, [(kk, JInt 1)])],
          [],
          [(kgm, JInt 1)], [na]).
  Proof. vm_compute. reflexivity. Qed.
  Example gA_anc_c :
    V (ancestral_graph parse Plain gA nc)
    = Ok ([(na, VBin, [(kk, JInt 1)]); (nb, VUnspec, []); (nc, VUnspec, []); (ne, VUnspec, [])],
          [(na, nb, Dir, [(kw, JInt 2)]); (na, nc, Dir, []); (nb, nc, Dir, []); (ne, nc, Dir, [])],
          [(kgm, JInt 1)], [na; nb; nc; ne]).
  Proof. vm_compute. reflexivity. Qed.
  Example gA_anc_z :
    V (ancestral_graph parse Plain gA nz)
    = Ok ([(nz, VUnspec, [])],
          [],
          [(kgm, JInt 1)], [nz]).
  Proof. vm_compute. reflexivity. Qed.
  Example gA_anc_missing :
    V (ancestral_graph parse Plain gA nzz)
    = Err EAssert.
  Proof. vm_compute. reflexivity. Qed.
  Example gA_desc_b :
    V (descendant_graph parse Plain gA nb)
    = Ok ([(nb, VUnspec, []); (nc, VUnspec, []); (nd, VUnspec, [])],
          [(nb, nc, Dir, []); (nc, nd, Dir, [])],
          [(kgm, JInt 1)], [nb; nc; nd]).
  Proof. vm_compute. reflexivity. Qed.
  Example gA_desc_d :
    V (descendant_graph parse Plain gA nd)
    = Ok ([(nd, VUnspec, [])],
          [],
          [(kgm, JInt 1)], [nd]).
  Proof. vm_compute. reflexivity. Qed.
  Example gA_desc_missing :
    V (descendant_graph parse Plain gA nzz)
    = Err EAssert.
  Proof. vm_compute. reflexivity. Qed.
  Example gA_par_c :
    V (parents_graph parse fmt Plain gA nc)
    = Ok ([(na, VBin, [(kk, JInt 1)]); (nb, VUnspec, []); (nc, VUnspec, []); (ne, VUnspec, [])],
          [(na, nc, Dir, []); (nb, nc, Dir, []); (ne, nc, Dir, [])],
          [(kgm, JInt 1)], [na; nb; nc; ne]).
  Proof. vm_compute. reflexivity. Qed.
  Example gA_par_a :
    V (parents_graph parse fmt Plain gA na)
    = Ok ([(na, VBin, [(kk, JInt 1)])],
          [],
          [(kgm, JInt 1)], [na]).
  Proof. vm_compute. reflexivity. Qed.
  Example gA_par_missing :
    V (parents_graph parse fmt Plain gA nzz)
    = Err EAssert.
  Proof. vm_compute. reflexivity. Qed.
  Example gA_chi_a :
    V (children_graph parse fmt Plain gA na)
    = Ok ([(na, VBin, [(kk, JInt 1)]); (nb, VUnspec, []); (nc, VUnspec, [])],
          [(na, nb, Dir, [(kw, JInt 2)]); (na, nc, Dir, [])],
          [(kgm, JInt 1)], [na; nb; nc]).
  Proof. vm_compute. reflexivity. Qed.
  Example gA_chi_d :
    V (children_graph parse fmt Plain gA nd)
    = Ok ([(nd, VUnspec, [])],
          [],
          [(kgm, JInt 1)], [nd]).
  Proof. vm_compute. reflexivity. Qed.
  Example gA_chi_missing :
    V (children_graph parse fmt Plain gA nzz)
    = Err EAssert.
  Proof. vm_compute. reflexivity. Qed.
  Example gA_sub_drops_isolated :
    V (get_subgraph parse Plain gA [na; nb; nz])
    = Ok ([(na, VBin, [(kk, JInt 1)]); (nb, VUnspec, [])],
          [(na, nb, Dir, [(kw, JInt 2)])],
          [(kgm, JInt 1)], [na; nb]).
  Proof. vm_compute. reflexivity. Qed.
  Example gA_sub_ignores_unknown :
    V (get_subgraph parse Plain gA [na; nb; nzz])
    = Ok ([(na, VBin, [(kk, JInt 1)]); (nb, VUnspec, [])],
          [(na, nb, Dir, [(kw, JInt 2)])],
          [(kgm, JInt 1)], [na; nb]).
  Proof. vm_compute. reflexivity. Qed.
  Example gA_sub_keyerror :
    V (get_subgraph parse Plain gA [na; nzz])
    = Err EKey.
  Proof. vm_compute. reflexivity. Qed.
  Example gA_sub_duplicate :
    V (get_subgraph parse Plain gA [na; nz; na])
    = Err ENodeDup.
  Proof. vm_compute. reflexivity. Qed.
  Example gA_sub_listed_order :
    V (get_subgraph parse Plain gA [nz; na])
    = Ok ([(na, VBin, [(kk, JInt 1)]); (nz, VUnspec, [])],
          [],
          [(kgm, JInt 1)], [nz; na]).
  Proof. vm_compute. reflexivity. Qed.
  Example gA_sub_empty :
    V (get_subgraph parse Plain gA [])
    = Ok ([],
          [],
          [(kgm, JInt 1)], []).
  Proof. vm_compute. reflexivity. Qed.
  (** ** [gM]: mixed edge types *)
  Example gM_anc_refused :
    V (ancestral_graph parse Plain gM nb)
    = Err EConv.
  Proof. vm_compute. reflexivity. Qed.
  Example gM_desc_refused :
    V (descendant_graph parse Plain gM na)
    = Err EConv.
  Proof. vm_compute. reflexivity. Qed.
  Example gM_anc_missing :
    V (ancestral_graph parse Plain gM nzz)
    = Err EAssert.
  Proof. vm_compute. reflexivity. Qed.
  Example gM_par_b :
    V (parents_graph parse fmt Plain gM nb)
    = Ok ([(na, VUnspec, []); (nb, VUnspec, []); (ne, VUnspec, [])],
          [(na, nb, Dir, []); (ne, nb, Dir, [])],
          [], [na; nb; ne]).
  Proof. vm_compute. reflexivity. Qed.
  Example gM_par_a :
    V (parents_graph parse fmt Plain gM na)
    = Ok ([(na, VUnspec, [])],
          [],
          [], [na]).
  Proof. vm_compute. reflexivity. Qed.
  Example gM_chi_a :
    V (children_graph parse fmt Plain gM na)
    = Ok ([(na, VUnspec, []); (nb, VUnspec, []); (nd, VUnspec, [])],
          [(na, nb, Dir, []); (na, nd, Dir, [])],
          [], [na; nb; nd]).
  Proof. vm_compute. reflexivity. Qed.
  Example gM_chi_b :
    V (children_graph parse fmt Plain gM nb)
    = Ok ([(nb, VUnspec, [])],
          [],
          [], [nb]).
  Proof. vm_compute. reflexivity. Qed.
  Example gM_sub_mixed :
    V (get_subgraph parse Plain gM [na; nb; nd; nc])
    = Ok ([(na, VUnspec, []); (nb, VUnspec, []); (nc, VUnspec, []); (nd, VUnspec, [])],
          [(na, nb, Dir, []); (na, nd, Dir, []); (nb, nc, Und, []); (nd, nb, Bi, [])],
          [], [na; nb; nd; nc]).
  Proof. vm_compute. reflexivity. Qed.
  (** ** [gU]: undirected edges only *)
  Example gU_anc_a :
    V (ancestral_graph parse Plain gU na)
    = Ok ([(na, VUnspec, []); (nb, VUnspec, []); (nc, VUnspec, [])],
          [(na, nb, Und, []); (nc, nb, Und, [])],
          [], [na; nb; nc]).
  Proof. vm_compute. reflexivity. Qed.
  Example gU_desc_c :
    V (descendant_graph parse Plain gU nc)
    = Ok ([(na, VUnspec, []); (nb, VUnspec, []); (nc, VUnspec, [])],
          [(na, nb, Und, []); (nc, nb, Und, [])],
          [], [na; nb; nc]).
  Proof. vm_compute. reflexivity. Qed.
  Example gU_par_b :
    V (parents_graph parse fmt Plain gU nb)
    = Ok ([(nb, VUnspec, [])],
          [],
          [], [nb]).
  Proof. vm_compute. reflexivity. Qed.
  (** ** [gT]: the time-series class *)
  Example gT_anc_y :
    V (ancestral_graph parse TS gT y0)
    = Ok ([(x0, VCont, [(kk, JInt 1); (k_time_lag, JInt 0); (k_variable_name, JStr x0)]); (x1, VUnspec, [(k_time_lag, JInt (-1)); (k_variable_name, JStr x0)]); (y0, VUnspec, [(k_time_lag, JInt 0); (k_variable_name, JStr y0)]); (y1, VUnspec, [(k_time_lag, JInt (-1)); (k_variable_name, JStr y0)])],
          [(x0, y0, Dir, []); (x1, x0, Dir, [(kw, JInt 2)]); (y1, x0, Dir, []); (y1, y0, Dir, [])],
          [(kgm, JInt 1)], [x0; y0; x1; y1]).
  Proof. vm_compute. reflexivity. Qed.
  Example gT_anc_x1 :
    V (ancestral_graph parse TS gT x1)
    = Ok ([(x1, VUnspec, [(k_time_lag, JInt (-1)); (k_variable_name, JStr x0)])],
          [],
          [(kgm, JInt 1)], [x1]).
  Proof. vm_compute. reflexivity. Qed.
  Example gT_desc_y1 :
    V (descendant_graph parse TS gT y1)
    = Ok ([(x0, VCont, [(kk, JInt 1); (k_time_lag, JInt 0); (k_variable_name, JStr x0)]); (y0, VUnspec, [(k_time_lag, JInt 0); (k_variable_name, JStr y0)]); (y1, VUnspec, [(k_time_lag, JInt (-1)); (k_variable_name, JStr y0)])],
          [(x0, y0, Dir, []); (y1, x0, Dir, []); (y1, y0, Dir, [])],
          [(kgm, JInt 1)], [x0; y0; y1]).
  Proof. vm_compute. reflexivity. Qed.
  Example gT_par_x :
    V (parents_graph parse fmt TS gT x0)
    = Ok ([(x0, VCont, [(kk, JInt 1); (k_time_lag, JInt 0); (k_variable_name, JStr x0)]); (x1, VUnspec, [(k_time_lag, JInt (-1)); (k_variable_name, JStr x0)]); (y1, VUnspec, [(k_time_lag, JInt (-1)); (k_variable_name, JStr y0)])],
          [(x1, x0, Dir, [(kw, JInt 2)]); (y1, x0, Dir, [])],
          [(kgm, JInt 1)], [x0; x1; y1]).
  Proof. vm_compute. reflexivity. Qed.
  Example gT_chi_y1 :
    V (children_graph parse fmt TS gT y1)
    = Ok ([(x0, VCont, [(kk, JInt 1); (k_time_lag, JInt 0); (k_variable_name, JStr x0)]); (y0, VUnspec, [(k_time_lag, JInt 0); (k_variable_name, JStr y0)]); (y1, VUnspec, [(k_time_lag, JInt (-1)); (k_variable_name, JStr y0)])],
          [(y1, x0, Dir, []); (y1, y0, Dir, [])],
          [(kgm, JInt 1)], [x0; y0; y1]).
  Proof. vm_compute. reflexivity. Qed.
  Example gT_anc_missing :
    V (ancestral_graph parse TS gT nzz)
    = Err EAssert.
  Proof. vm_compute. reflexivity. Qed.


  (** [get_ancestors] / [get_descendants] as sets: on a fully undirected graph networkx follows
      the edges both ways (the connected component without the node itself) *)
  Example gA_sets :
    match g_ancestors gA nd with Ok l => Ok (sort_names l) | Err e => Err e end = Ok [na; nb; nc; ne]
    /\ match g_descendants gA na with Ok l => Ok (sort_names l) | Err e => Err e end = Ok [nb; nc; nd].
  Proof. split; vm_compute; reflexivity. Qed.
  Example gU_sets :
    match g_ancestors gU na with Ok l => Ok (sort_names l) | Err e => Err e end = Ok [nb; nc]
    /\ match g_descendants gU nd with Ok l => Ok (sort_names l) | Err e => Err e end = Ok [ne].
  Proof. split; vm_compute; reflexivity. Qed.

  (** a node without ancestors, an unknown node, a mixed graph *)
  Example g_ancestors_more :
    g_ancestors gA na = Ok [] /\ g_descendants gA nd = Ok []
    /\ g_ancestors gA nzz = Err EAssert /\ g_descendants gA nzz = Err EAssert
    /\ g_ancestors gM nb = Err EConv /\ g_descendants gM na = Err EConv
    /\ g_ancestors gM nzz = Err EAssert
    /\ match g_ancestors gT y0 with Ok l => Ok (sort_names l) | Err e => Err e end = Ok [x0; x1; y1].
  Proof. repeat split; vm_compute; reflexivity. Qed.

  (** [networkx] conversion: DiGraph for a fully directed graph (also one without edges),
      refusal for a mixed one; [sub_edges] keeps the sorted order of [get_edges()] *)
  Example nx_view_examples :
    (exists d, nx_view gA = Ok d /\ arcs d = [(na, nb); (nb, nc); (na, nc); (nc, nd); (ne, nc)])
    /\ nx_view gM = Err EConv
    /\ (exists d, nx_view gU = Ok d /\ arcs d = [(na, nb); (nc, nb); (nd, ne); (nb, na); (nb, nc); (ne, nd)])
    /\ (exists d, nx_view (empty_graph []) = Ok d /\ arcs d = [] /\ verts d = []).
  Proof.
    split; [eexists; split; vm_compute; reflexivity|].
    split; [vm_compute; reflexivity|].
    split; [eexists; split; vm_compute; reflexivity|].
    eexists. repeat split; vm_compute; reflexivity.
  Qed.
  Example sub_edges_examples :
    map edge_key (sub_edges gA [nc; na; nb]) = [(na, nb); (na, nc); (nb, nc)]
    /\ sub_edges gA [nz; nd] = []
    /\ map edge_key (sub_edges gM [nd; nb; nc; nzz]) = [(nb, nc); (nd, nb)].
  Proof. repeat split; vm_compute; reflexivity. Qed.

  (** [Edge.__eq__] against the directed edge a -> b, observed on the implementation:
      a -> b equal; b -> a, a -- b, b -- a, b <> a, b oo a, a o> b all different *)
  Example edge_sheq_examples :
    map (fun e => edge_sheq e na nb Dir)
      [ {| esrc := na; edst := nb; ety := Dir; emeta := [] |};
        {| esrc := nb; edst := na; ety := Dir; emeta := [] |};
        {| esrc := na; edst := nb; ety := Und; emeta := [] |};
        {| esrc := nb; edst := na; ety := Und; emeta := [] |};
        {| esrc := nb; edst := na; ety := Bi; emeta := [] |};
        {| esrc := nb; edst := na; ety := Unk; emeta := [] |};
        {| esrc := na; edst := nb; ety := UnkDir; emeta := [] |} ]
    = [true; false; false; false; false; false; false].
  Proof. vm_compute. reflexivity. Qed.

  (** ** Non-vacuity: the hypotheses of the theorems hold of these states *)
  Lemma gA_inv : Inv parse Plain gA.   Proof. apply (inv_run parse fmt). Qed.
  Lemma gM_inv : Inv parse Plain gM.   Proof. apply (inv_run parse fmt). Qed.
  Lemma gU_inv : Inv parse Plain gU.   Proof. apply (inv_run parse fmt). Qed.
  Lemma gT_inv : Inv parse TS gT.      Proof. apply (inv_run parse fmt). Qed.

  Lemma gT_tags_stable : TagsStable gT.
  Proof.
    apply tags_stable_sorted. intros n H. vm_compute in H.
    repeat (destruct H as [<-|H]; [unfold meta_sorted; simpl; repeat constructor|]). destruct H.
  Qed.

  (** the ancestral graph of c in [gA] is the induced sub-graph on {c} + ancestors *)
  Example gA_anc_thm :
    exists h, ancestral_graph parse Plain gA nc = Ok h
              /\ induced parse Plain gA h (fun y => y = nc \/ path (dgraph gA) y nc).
  Proof.
    apply (ancestral_graph_directed parse Plain gA nc gA_inv); [vm_compute; reflexivity|].
    vm_compute. tauto.
  Qed.

  Example gT_desc_thm :
    exists h, descendant_graph parse TS gT y1 = Ok h
              /\ induced parse TS gT h (fun y => y = y1 \/ path (dgraph gT) y1 y).
  Proof.
    apply (descendant_graph_directed parse TS gT y1 gT_inv); [vm_compute; reflexivity|].
    vm_compute. tauto.
  Qed.

  (** on the undirected graph the general theorem applies with the symmetrised view *)
  Example gU_anc_thm :
    exists d l h, nx_view gU = Ok d /\ g_ancestors gU na = Ok l
      /\ ancestral_graph parse Plain gU na = Ok h
      /\ induced parse Plain gU h (fun y => y = na \/ path d y na).
  Proof.
    destruct (nx_view gU) as [d|] eqn:D; [|vm_compute in D; discriminate].
    destruct (ancestral_graph_spec parse Plain gU d na gU_inv D) as (l & h & A & H & _ & I).
    { vm_compute. tauto. }
    exists d, l, h. auto.
  Qed.

  Example gM_par_thm :
    exists h, parents_graph parse fmt Plain gM nb = Ok h
      /\ (forall y, In y (node_ids h) <-> y = nb \/ arc (dgraph gM) y nb)
      /\ (forall e, In e (gsrc h) <-> In e (gsrc gM) /\ ety e = Dir /\ edst e = nb).
  Proof.
    destruct (parents_graph_spec parse fmt Plain gM nb gM_inv) as (h & H & _ & _ & _ & _ & A & B).
    { intros E; discriminate E. }
    { vm_compute. tauto. }
    exists h. auto.
  Qed.

  Example gT_chi_thm :
    exists h, children_graph parse fmt TS gT y1 = Ok h
      /\ (forall y, In y (node_ids h) <-> y = y1 \/ arc (dgraph gT) y1 y)
      /\ (forall e, In e (gsrc h) <-> In e (gsrc gT) /\ ety e = Dir /\ esrc e = y1).
  Proof.
    destruct (children_graph_spec parse fmt TS gT y1 gT_inv (fun _ => gT_tags_stable))
      as (h & H & _ & _ & _ & _ & A & B).
    { vm_compute. tauto. }
    exists h. auto.
  Qed.

  (** ** Construction-order invariance on an example: the content of [gA] built in another
      order (edges first, the attributes of a set afterwards by an in-place [replace_node]).
      Observed on the implementation: [gA' == gA] (deep), the node insertion orders differ
      (e, c, z, d, a, b against a, b, c, d, z, e), and the ancestral graphs of d have the same
      nodes, edges AND node insertion order (a, b, c, d, e). *)
  Definition gA' : graph :=
    run parse fmt Plain
      [OAddEdge (str_ep ne) (str_ep nc) Dir None true;
       OAddNode nz VUnspec None;
       OAddEdge (str_ep nc) (str_ep nd) Dir None true;
       OAddEdge (str_ep na) (str_ep nc) Dir None true;
       OAddEdge (str_ep nb) (str_ep nc) Dir None true;
       OAddEdge (str_ep na) (str_ep nb) Dir (Some [(kw, JInt 2)]) true;
       OReplaceNode na None None None (Some VBin) (Some [(kk, JInt 1)])] (empty_graph [(kgm, JInt 1)]).

  Lemma gA'_inv : Inv parse Plain gA'.   Proof. apply (inv_run parse fmt). Qed.
  Lemma plain_ts (P : Prop) : Plain = TS -> P.   Proof. discriminate. Qed.

  Example gA_gA'_same_view :
    same_view gA gA' /\ map nid (gnodes gA) <> map nid (gnodes gA').
  Proof. split; [repeat split; vm_compute; reflexivity|vm_compute; discriminate]. Qed.

  Example gA_gA'_ancestral_equiv :
    res_rel equiv (ancestral_graph parse Plain gA nd) (ancestral_graph parse Plain gA' nd)
    /\ V (ancestral_graph parse Plain gA' nd) = V (ancestral_graph parse Plain gA nd).
  Proof.
    split; [|vm_compute; reflexivity].
    exact (proj1 (ancestral_graph_equiv_invariant parse Plain gA gA' nd gA_inv gA'_inv (proj1 gA_gA'_same_view))).
  Qed.

  Example gA_gA'_parents_equiv :
    res_rel equiv (parents_graph parse fmt Plain gA nc) (parents_graph parse fmt Plain gA' nc).
  Proof.
    exact (proj1 (parents_children_graph_equiv_invariant parse fmt Plain gA gA' nc gA_inv gA'_inv
                    (plain_ts _) (plain_ts _) (proj1 gA_gA'_same_view))).
  Qed.

  (** [_get_subgraph] is not "the induced sub-graph on the listed nodes" in general: a listed
      node without a kept edge is dropped as soon as one edge is kept (harmless for the
      ancestral / descendant graphs, where every listed node touches a kept edge) *)
  Example get_subgraph_not_induced_on_listed_nodes :
    exists g nodes x h, Inv parse Plain g /\ In x nodes /\ In x (node_ids g)
      /\ get_subgraph parse Plain g nodes = Ok h /\ ~ In x (node_ids h).
  Proof.
    exists gA, [na; nb; nz], nz. eexists. split; [exact gA_inv|]. split; [vm_compute; tauto|].
    split; [vm_compute; tauto|]. split; [vm_compute; reflexivity|]. vm_compute.
    intros [H|[H|[]]]; discriminate.
  Qed.
End SubGraphExamples.
