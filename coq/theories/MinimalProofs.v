(** MinimalProofs.v — property C14: [minimal] (get_minimal_graph), [is_minimal]. *)
From CG Require Import Base Dec Digraph TSGraph TSGraphProofs.
Local Open Scope Z_scope.

(** * Consistent template sets

    [template e = (es e, ed e, delta e, ety e)].  A graph is consistent when it is well formed,
    no two of its edges have templates that differ only in the edge type, and no two templates
    are mutual reverses at time difference 0.  (The model works on keys (variable, lag); the
    injectivity of [tident] on the keys that occur is only needed to relate keys to the Python
    identifier strings and is therefore not a hypothesis of the theorems below.) *)
Definition no_type_clash (g : tsg) : Prop :=
  forall e1 e2, In e1 (tedges g) -> In e2 (tedges g) ->
    es e1 = es e2 -> ed e1 = ed e2 -> delta e1 = delta e2 -> ety e1 = ety e2.
Definition no_mutual0 (g : tsg) : Prop :=
  forall e1 e2, In e1 (tedges g) -> In e2 (tedges g) ->
    es e1 = ed e2 -> ed e1 = es e2 -> delta e1 = 0 -> delta e2 = 0 -> False.
Definition consistent (g : tsg) : Prop := wf g /\ no_type_clash g /\ no_mutual0 g.

(** * The specification of the minimal graph [m] of [g] (what [c14_check] decides). *)
Record c14_spec (g m : tsg) : Prop := {
  (* every edge of m is a placed template, with the type and metadata of an instance *)
  c14_es : forall e', In e' (tedges m) ->
      exists e0, In e0 (tedges g) /\ esrc e' = place_src e0 /\ edst e' = place_dst e0
                 /\ ety e' = ety e0 /\ em e' = em e0;
  (* every template is placed *)
  c14_ec : forall e0, In e0 (tedges g) -> In (place_src e0, place_dst e0) (map ekey (tedges m));
  c14_end : NoDup (map ekey (tedges m));
  (* every node of m is the endpoint of a placed template, carrying the variable type and user
     metadata of the corresponding endpoint of an instance, or the lag-0 node of a variable of g
     that no edge touches, carrying the attributes of the first inserted node of that variable *)
  c14_ns : forall n', In n' (tnodes m) ->
      (exists e0, In e0 (tedges g) /\
         ((exists n0, find_node g (esrc e0) = Some n0 /\ n' = relag n0 (- delta e0)) \/
          (exists n0, find_node g (edst e0) = Some n0 /\ n' = relag n0 0)))
      \/ (touches g (tv n') = false /\
          exists n0, first_of_var g (tv n') = Some n0 /\ n' = relag n0 0);
  c14_nc1 : forall e0, In e0 (tedges g) ->
      In (place_src e0) (map nkey (tnodes m)) /\ In (place_dst e0) (map nkey (tnodes m));
  c14_nc2 : forall n, In n (tnodes g) -> touches g (tv n) = false ->
      In (tv n, 0) (map nkey (tnodes m));
  c14_nnd : NoDup (map nkey (tnodes m));
  c14_meta : tgmeta m = tgmeta g
}.

Lemma touches_spec g v :
  touches g v = true <-> exists e, In e (tedges g) /\ (es e = v \/ ed e = v).
Proof.
  unfold touches; rewrite existsb_exists; split; intros (e & He & E); exists e; split; auto.
  - apply orb_true_iff in E; rewrite !name_eqb_eq in E; exact E.
  - apply orb_true_iff; rewrite !name_eqb_eq; exact E.
Qed.

Lemma touches_false g v :
  touches g v = false <-> forall e, In e (tedges g) -> es e <> v /\ ed e <> v.
Proof.
  split.
  - intros H e He; split; intros E; assert (touches g v = true) as T;
      try (apply touches_spec; exists e; auto); congruence.
  - intros H; destruct (touches g v) eqn:T; [|reflexivity].
    apply touches_spec in T; destruct T as (e & He & [E|E]); destruct (H e He); contradiction.
Qed.

(** * The edge loop *)

Lemma min_step_unfold g m e :
  min_step g m e =
    if edge_exists m (place_src e) (place_dst e) then Ok m else min_add g m e (- delta e).
Proof.
  unfold min_step, place_src, place_dst, delta.
  destruct (Z.eqb_spec (edl e - esl e) 0) as [E0|N0]; simpl.
  - rewrite E0; simpl. destruct (edge_exists m (es e, 0) (ed e, 0)); reflexivity.
  - destruct (edge_exists m (es e, - (edl e - esl e)) (ed e, 0)); reflexivity.
Qed.

Record minv (g : tsg) (l : list tedge) (m : tsg) : Prop := {
  mi_wf : wf m;
  mi_meta : tgmeta m = tgmeta g;
  mi_es : forall e', In e' (tedges m) ->
      exists e0, In e0 l /\ esrc e' = place_src e0 /\ edst e' = place_dst e0
                 /\ ety e' = ety e0 /\ em e' = em e0;
  mi_ec : forall e0, In e0 l -> In (place_src e0, place_dst e0) (map ekey (tedges m));
  mi_ns : forall n', In n' (tnodes m) ->
      exists e0, In e0 l /\
        ((exists n0, find_node g (esrc e0) = Some n0 /\ n' = relag n0 (- delta e0)) \/
         (exists n0, find_node g (edst e0) = Some n0 /\ n' = relag n0 0))
}.

Lemma minv_nil g : minv g [] (empty_tsg (tgmeta g)).
Proof.
  constructor; simpl.
  - apply wf_empty.
  - reflexivity.
  - intros e' [].
  - intros e0 [].
  - intros n' [].
Qed.

Lemma min_step_ok g l m e :
  wf g -> no_mutual0 g -> In e (tedges g) -> (forall e0, In e0 l -> In e0 (tedges g)) ->
  minv g l m ->
  exists m', min_step g m e = Ok m' /\ minv g (l ++ [e]) m'.
Proof.
  intros Wg Hmu He Hl [Wm Mm Mes Mec Mns]; rewrite min_step_unfold.
  assert (Hd : 0 <= delta e) by (unfold delta; pose proof (wf_time g Wg e He); lia).
  destruct (edge_exists m (place_src e) (place_dst e)) eqn:Ex.
  { exists m; split; [reflexivity|]. constructor; auto.
    - intros e' He'; destruct (Mes e' He') as (e0 & H0 & R); exists e0; split; [|exact R].
      apply in_or_app; auto.
    - intros e0 H0; apply in_app_iff in H0; simpl in H0.
      destruct H0 as [H0|[<-|[]]]; [auto|apply edge_exists_in; exact Ex].
    - intros n' Hn'; destruct (Mns n' Hn') as (e0 & H0 & R); exists e0; split; [|exact R].
      apply in_or_app; auto. }
  apply edge_exists_false in Ex.
  destruct (wf_ends g Wg e He) as [Hs Hdn].
  destruct (find_node_in _ _ Hs) as (ns & Fs); destruct (find_node_in _ _ Hdn) as (nd & Fd).
  unfold min_add; rewrite Fs, Fd.
  destruct (find_node_some _ _ _ Fs) as [_ Ks0]; destruct (find_node_some _ _ _ Fd) as [_ Kd0].
  assert (Ks : nkey (relag ns (- delta e)) = place_src e).
  { unfold nkey, esrc in *; unfold place_src; simpl; inversion Ks0; reflexivity. }
  assert (Kd : nkey (relag nd 0) = place_dst e).
  { unfold nkey, edst in *; unfold place_dst; simpl; inversion Kd0; reflexivity. }
  rewrite add_edge_noswap by (simpl; lia). rewrite Ks, Kd.
  assert (Hne : place_src e <> place_dst e).
  { unfold place_src, place_dst; intros E; inversion E as [[E1 E2]].
    apply (wf_noself g e Wg He); unfold esrc, edst; f_equal; [exact E1|unfold delta in E2; lia]. }
  assert (Hrv : ~ In (place_dst e, place_src e) (map ekey (tedges m))).
  { intros Hin; apply in_map_iff in Hin; destruct Hin as (e' & K & He').
    destruct (Mes e' He') as (e0 & H0 & Es & Ed & _).
    apply ekey_inv in K; destruct K as [K1 K2]. rewrite Es in K1; rewrite Ed in K2.
    unfold place_src, place_dst in K1, K2; inversion K1; inversion K2.
    apply (Hmu e0 e); auto; lia. }
  destruct (key_eqb_spec (place_src e) (place_dst e)) as [|_]; [contradiction|].
  apply edge_exists_false in Ex; rewrite Ex. apply edge_exists_false in Ex.
  apply edge_exists_false in Hrv; rewrite Hrv. apply edge_exists_false in Hrv.
  eexists; split; [reflexivity|]. constructor.
  - apply added_wf; auto; try (simpl; lia); rewrite Ks, Kd; auto.
  - exact Mm.
  - simpl; intros e' He'; apply in_app_iff in He'; simpl in He'.
    destruct He' as [He'|[<-|[]]].
    + destruct (Mes e' He') as (e0 & H0 & R); exists e0; split; [apply in_or_app; auto|exact R].
    + exists e; split; [apply in_or_app; right; left; reflexivity|].
      change (esrc (mk_edge (relag ns (- delta e)) (relag nd 0) (ety e) (em e)))
        with (nkey (relag ns (- delta e))).
      change (edst (mk_edge (relag ns (- delta e)) (relag nd 0) (ety e) (em e)))
        with (nkey (relag nd 0)).
      simpl; auto.
  - simpl; intros e0 H0; rewrite map_app, in_app_iff; apply in_app_iff in H0; simpl in H0.
    destruct H0 as [H0|[<-|[]]]; [left; auto|right; simpl].
    rewrite ekey_mk_edge, Ks, Kd; auto.
  - simpl; intros n' Hn'. apply ensure_node_in in Hn'.
    destruct Hn' as [Hn'|[-> _]].
    + apply ensure_node_in in Hn'. destruct Hn' as [Hn'|[-> _]].
      * destruct (Mns n' Hn') as (e0 & H0 & R); exists e0; split; [apply in_or_app; auto|exact R].
      * exists e; split; [apply in_or_app; right; left; reflexivity|left; eauto].
    + exists e; split; [apply in_or_app; right; left; reflexivity|right; eauto].
Qed.

Lemma min_loop_ok g :
  wf g -> no_mutual0 g ->
  exists m0, rfold (min_step g) (sorted_edges g) (empty_tsg (tgmeta g)) = Ok m0
             /\ minv g (sorted_edges g) m0.
Proof.
  intros Wg Hmu.
  pose (I := fun (l : list tedge) (m : tsg) =>
               (forall e0, In e0 l -> In e0 (tedges g)) /\ minv g l m).
  destruct (rfold_total (min_step g) (fun e => In e (tedges g)) I) with
    (l := sorted_edges g) (done := @nil tedge) (x := empty_tsg (tgmeta g)) as (m0 & E & _ & HI).
  - intros done a x Qa [Hl HI].
    destruct (min_step_ok g done x a Wg Hmu Qa Hl HI) as (x' & E & HI').
    exists x'; split; [exact E|]. split; [|exact HI'].
    intros e0 H0; apply in_app_iff in H0; simpl in H0; destruct H0 as [H0|[<-|[]]]; auto.
  - apply Forall_forall; intros e He; apply isort_in in He; exact He.
  - split; [intros e0 []|apply minv_nil].
  - exists m0; auto.
Qed.

(** * The floating-node loop *)

Record finv (g m0 : tsg) (vs : list name) (m : tsg) : Prop := {
  fi_edges : tedges m = tedges m0;
  fi_meta : tgmeta m = tgmeta m0;
  fi_nd : NoDup (map nkey (tnodes m));
  fi_incl : forall n, In n (tnodes m0) -> In n (tnodes m);
  fi_ns : forall n', In n' (tnodes m) ->
      In n' (tnodes m0) \/
      (~ In (tv n') (map tv (tnodes m0)) /\
       exists n0, first_of_var g (tv n') = Some n0 /\ n' = relag n0 0);
  fi_nc : forall v, In v vs -> In v (map tv (tnodes m0)) \/ In (v, 0) (map nkey (tnodes m))
}.

Lemma has_var_in g v : has_var g v = true <-> In v (map tv (tnodes g)).
Proof.
  unfold has_var; rewrite existsb_exists, in_map_iff; split.
  - intros (n & Hn & E); apply name_eqb_eq in E; eauto.
  - intros (n & E & Hn); exists n; split; [exact Hn|apply name_eqb_eq; exact E].
Qed.

Lemma has_var_false g v : has_var g v = false <-> ~ In v (map tv (tnodes g)).
Proof. rewrite <- has_var_in; destruct (has_var g v); split; congruence. Qed.

Lemma variables_in g v : In v (variables g) <-> In v (map tv (tnodes g)).
Proof. unfold variables; rewrite sort_names_in, dedup_in; reflexivity. Qed.

Lemma first_of_var_some g v n : first_of_var g v = Some n -> In n (tnodes g) /\ tv n = v.
Proof.
  unfold first_of_var; intros H; apply find_some in H; destruct H as [H1 H2].
  apply name_eqb_eq in H2; auto.
Qed.

Lemma first_of_var_in g v : In v (map tv (tnodes g)) -> exists n, first_of_var g v = Some n.
Proof.
  intros Hin; unfold first_of_var.
  destruct (find (fun n => name_eqb (tv n) v) (tnodes g)) eqn:F; [eauto|].
  apply in_map_iff in Hin; destruct Hin as (n & E & Hn).
  pose proof (find_none _ _ F _ Hn) as C; simpl in C; rewrite E, name_eqb_refl in C; discriminate.
Qed.

Lemma float_step_ok g m0 vs m v :
  In v (map tv (tnodes g)) -> finv g m0 vs m ->
  exists m', float_step g m v = Ok m' /\ finv g m0 (vs ++ [v]) m'.
Proof.
  intros Hv [Fe Fm Fnd Fin Fns Fnc]; unfold float_step.
  destruct (has_var m v) eqn:Hh; simpl.
  - exists m; split; [reflexivity|]. constructor; auto.
    intros w Hw; apply in_app_iff in Hw; simpl in Hw; destruct Hw as [Hw|[<-|[]]]; [auto|].
    apply has_var_in in Hh; apply in_map_iff in Hh; destruct Hh as (n & E & Hn).
    destruct (Fns n Hn) as [H0|(_ & n0 & _ & R)].
    + left; rewrite <- E; apply in_map; exact H0.
    + right; apply in_map_iff; exists n; split; [|exact Hn].
      unfold nkey; rewrite E; f_equal. rewrite R; reflexivity.
  - assert (Hne : node_exists m (v, 0) = false).
    { destruct (node_exists m (v, 0)) eqn:X; [|reflexivity].
      apply node_exists_in in X; apply in_map_iff in X; destruct X as (n & K & Hn).
      apply has_var_false in Hh; exfalso; apply Hh; apply in_map_iff; exists n.
      unfold nkey in K; inversion K; auto. }
    rewrite Hne; simpl. destruct (first_of_var_in g v Hv) as (n0 & F0); rewrite F0.
    destruct (first_of_var_some _ _ _ F0) as [_ Tv].
    eexists; split; [reflexivity|]. apply has_var_false in Hh. apply node_exists_false in Hne.
    constructor; simpl; auto.
    + rewrite map_app; simpl; apply NoDup_snoc; [exact Fnd|].
      unfold nkey at 1; simpl; rewrite Tv; exact Hne.
    + intros n Hn; apply in_or_app; auto.
    + intros n' Hn'; apply in_app_iff in Hn'; simpl in Hn'.
      destruct Hn' as [Hn'|[<-|[]]]; [auto|right]. simpl; rewrite Tv. split.
      * intros Hin; apply Hh; apply in_map_iff in Hin; destruct Hin as (n & E & Hn).
        apply in_map_iff; exists n; auto.
      * exists n0; auto.
    + intros w Hw; apply in_app_iff in Hw; simpl in Hw; rewrite map_app, in_app_iff.
      destruct Hw as [Hw|[<-|[]]].
      * destruct (Fnc w Hw); auto.
      * right; right; simpl; left; unfold nkey; simpl; rewrite Tv; reflexivity.
Qed.

Lemma float_loop_ok g m0 :
  NoDup (map nkey (tnodes m0)) ->
  exists m, rfold (float_step g) (variables g) m0 = Ok m /\ finv g m0 (variables g) m.
Proof.
  intros ND.
  destruct (rfold_total (float_step g) (fun v => In v (map tv (tnodes g))) (finv g m0)) with
    (l := variables g) (done := @nil name) (x := m0) as (m & E & HI).
  - intros done a x Qa HI; apply float_step_ok; assumption.
  - apply Forall_forall; intros v Hv; apply variables_in; exact Hv.
  - constructor; auto. intros v [].
  - exists m; auto.
Qed.

(** * C14: existence and characterisation *)

Theorem minimal_spec g :
  wf g -> no_mutual0 g -> exists m, minimal g = Ok m /\ c14_spec g m /\ wf m.
Proof.
  intros Wg Hmu. destruct (min_loop_ok g Wg Hmu) as (m0 & E0 & [W0 M0 Mes Mec Mns]).
  destruct (float_loop_ok g m0 (wf_nodes m0 W0)) as (m & E & [Fe Fm Fnd Fin Fns Fnc]).
  unfold minimal; rewrite E0, E. exists m; split; [reflexivity|].
  assert (Hsrt : forall e, In e (sorted_edges g) <-> In e (tedges g)) by (intros e; apply isort_in).
  assert (Hplaced : forall e0, In e0 (tedges g) ->
            In (place_src e0) (map nkey (tnodes m0)) /\ In (place_dst e0) (map nkey (tnodes m0))).
  { intros e0 H0; apply Hsrt in H0; pose proof (Mec e0 H0) as K; apply in_map_iff in K.
    destruct K as (e' & K & He'); destruct (wf_ends m0 W0 e' He') as [H1 H2].
    apply ekey_inv in K; destruct K as [K1 K2]; rewrite <- K1, <- K2; auto. }
  assert (Hvar0 : forall v, In v (map tv (tnodes m0)) -> touches g v = true).
  { intros v Hv; apply in_map_iff in Hv; destruct Hv as (n' & E' & Hn').
    destruct (Mns n' Hn') as (e0 & H0 & [(n0 & F0 & R)|(n0 & F0 & R)]); apply Hsrt in H0;
      apply touches_spec; exists e0; split; auto;
      apply find_node_some in F0; destruct F0 as [_ K]; unfold nkey, esrc, edst in K;
      inversion K; subst n'; simpl in E'; [left|right]; congruence. }
  assert (Hkeys : forall k, In k (map nkey (tnodes m0)) -> In k (map nkey (tnodes m))).
  { intros k Hk; apply in_map_iff in Hk; destruct Hk as (n & <- & Hn); apply in_map, Fin, Hn. }
  split.
  - constructor; rewrite ?Fe.
    + intros e' He'; destruct (Mes e' He') as (e0 & H0 & R); exists e0; split; [apply Hsrt, H0|exact R].
    + intros e0 H0; apply Mec, Hsrt, H0.
    + exact (wf_edges m0 W0).
    + intros n' Hn'; destruct (Fns n' Hn') as [H0|(Hnv & n0 & F0 & R)].
      * left; destruct (Mns n' H0) as (e0 & H1 & R); exists e0; split; [apply Hsrt, H1|exact R].
      * right; split; [|eauto].
        destruct (touches g (tv n')) eqn:T; [|reflexivity].
        exfalso; apply Hnv. apply touches_spec in T; destruct T as (e & He & Hv).
        destruct (Hplaced e He) as [H1 H2].
        destruct Hv as [Hv|Hv]; rewrite <- Hv.
        -- apply in_map_iff in H1; destruct H1 as (n & K & Hn); apply in_map_iff; exists n.
           unfold nkey, place_src in K; inversion K; auto.
        -- apply in_map_iff in H2; destruct H2 as (n & K & Hn); apply in_map_iff; exists n.
           unfold nkey, place_dst in K; inversion K; auto.
    + intros e0 H0; destruct (Hplaced e0 H0); auto.
    + intros n Hn T. destruct (Fnc (tv n)) as [H|H]; [apply variables_in, in_map, Hn| |exact H].
      apply Hvar0 in H; congruence.
    + exact Fnd.
    + congruence.
  - constructor; rewrite ?Fe.
    + exact Fnd.
    + exact (wf_edges m0 W0).
    + exact (wf_norev m0 W0).
    + intros e He; destruct (wf_ends m0 W0 e He); auto.
    + exact (wf_time m0 W0).
Qed.

(** get_minimal_graph succeeds on every consistent graph. *)
Theorem minimal_ok g : consistent g -> exists m, minimal g = Ok m.
Proof. intros (W & _ & M); destruct (minimal_spec g W M) as (m & E & _); eauto. Qed.

Lemma minimal_c14 g m : consistent g -> minimal g = Ok m -> c14_spec g m /\ wf m.
Proof.
  intros (W & _ & M) E; destruct (minimal_spec g W M) as (m' & E' & S); congruence.
Qed.

(** exactly one edge per template, placed with its destination at lag 0 and its source at minus
    the time difference; nothing else; type and metadata of the template *)
Theorem minimal_edges g m :
  consistent g -> minimal g = Ok m ->
  (forall k, In k (map ekey (tedges m)) <->
             exists e0, In e0 (tedges g) /\ k = (place_src e0, place_dst e0))
  /\ NoDup (map ekey (tedges m))
  /\ (forall e' e0, In e' (tedges m) -> In e0 (tedges g) ->
        ekey e' = (place_src e0, place_dst e0) -> ety e' = ety e0)
  /\ (forall e', In e' (tedges m) ->
        exists e0, In e0 (tedges g) /\ ekey e' = (place_src e0, place_dst e0)
                   /\ ety e' = ety e0 /\ em e' = em e0).
Proof.
  intros C E; destruct (minimal_c14 g m C E) as [[Ses Sec Send _ _ _ _ _] _].
  destruct C as (_ & Htc & _). repeat split; auto.
  - intros Hk; apply in_map_iff in Hk; destruct Hk as (e' & <- & He').
    destruct (Ses e' He') as (e0 & H0 & Es & Ed & _); exists e0; split; [exact H0|].
    unfold ekey; congruence.
  - intros (e0 & H0 & ->); apply Sec; exact H0.
  - intros e' e0 He' H0 K; destruct (Ses e' He') as (e1 & H1 & Es & Ed & Ety & _).
    rewrite Ety; apply ekey_inv in K; destruct K as [K1 K2].
    rewrite Es in K1; rewrite Ed in K2; unfold place_src, place_dst in K1, K2.
    inversion K1; inversion K2; apply Htc; auto; lia.
  - intros e' He'; destruct (Ses e' He') as (e0 & H0 & Es & Ed & R); exists e0.
    split; [exact H0|]. split; [unfold ekey; congruence|exact R].
Qed.

(** the nodes are the endpoints of the placed templates plus, once, at lag 0, every variable that
    no edge touches *)
Theorem minimal_nodes g m :
  consistent g -> minimal g = Ok m ->
  (forall k, In k (map nkey (tnodes m)) <->
     (exists e0, In e0 (tedges g) /\ (k = place_src e0 \/ k = place_dst e0))
     \/ (exists n, In n (tnodes g) /\ touches g (tv n) = false /\ k = (tv n, 0)))
  /\ NoDup (map nkey (tnodes m)).
Proof.
  intros C E; destruct (minimal_c14 g m C E) as [[_ _ _ Sns Snc1 Snc2 Snd _] _].
  split; [|exact Snd]. intros k; split.
  - intros Hk; apply in_map_iff in Hk; destruct Hk as (n' & <- & Hn').
    destruct (Sns n' Hn') as [(e0 & H0 & [(n0 & F0 & R)|(n0 & F0 & R)])|(T & n0 & F0 & R)].
    + left; exists e0; split; [exact H0|left]. apply find_node_some in F0; destruct F0 as [_ K].
      subst n'; unfold nkey, esrc in *; unfold place_src; simpl; inversion K; reflexivity.
    + left; exists e0; split; [exact H0|right]. apply find_node_some in F0; destruct F0 as [_ K].
      subst n'; unfold nkey, edst in *; unfold place_dst; simpl; inversion K; reflexivity.
    + right; apply first_of_var_some in F0; destruct F0 as [H0 Tv]; exists n0.
      split; [exact H0|]. split; [congruence|]. subst n'; reflexivity.
  - intros [(e0 & H0 & [-> | ->])|(n & Hn & T & ->)].
    + apply Snc1; exact H0.
    + apply Snc1; exact H0.
    + apply Snc2; assumption.
Qed.

(** nodes and edges carry the variable type and user metadata of their variable / template,
    whenever these are well defined in the input *)
Theorem minimal_attributes g m :
  consistent g -> minimal g = Ok m ->
  (forall vt um v, (forall n, In n (tnodes g) -> tv n = v -> tvt n = vt /\ tm n = um) ->
     forall n', In n' (tnodes m) -> tv n' = v -> tvt n' = vt /\ tm n' = um)
  /\ (forall s d dl um, (forall e, In e (tedges g) -> es e = s -> ed e = d -> delta e = dl -> em e = um) ->
     forall e', In e' (tedges m) -> es e' = s -> ed e' = d -> delta e' = dl -> em e' = um).
Proof.
  intros C E; destruct (minimal_c14 g m C E) as [[Ses _ _ Sns _ _ _ _] _]. split.
  - intros vt um v Hu n' Hn' Tv.
    destruct (Sns n' Hn') as [(e0 & H0 & [(n0 & F0 & R)|(n0 & F0 & R)])|(T & n0 & F0 & R)];
      subst n'; simpl in *.
    + apply find_node_some in F0; destruct F0 as [F0 _]; auto.
    + apply find_node_some in F0; destruct F0 as [F0 _]; auto.
    + apply first_of_var_some in F0; destruct F0 as [F0 _]; auto.
  - intros s d dl um Hu e' He' Es Ed Dl.
    destruct (Ses e' He') as (e0 & H0 & Ks & Kd & _ & Em). rewrite Em.
    unfold esrc, edst, place_src, place_dst in Ks, Kd; inversion Ks; inversion Kd.
    apply Hu; auto; try congruence. unfold delta in *; lia.
Qed.

(** * Idempotence, [is_minimal] *)

Lemma c14_edl0 g m e' : c14_spec g m -> In e' (tedges m) -> edl e' = 0.
Proof.
  intros S He'; destruct (c14_es g m S e' He') as (e0 & _ & _ & Ed & _).
  unfold edst, place_dst in Ed; inversion Ed; reflexivity.
Qed.

Lemma place_self e : edl e = 0 -> place_src e = esrc e /\ place_dst e = edst e.
Proof.
  intros H; unfold place_src, place_dst, esrc, edst, delta; rewrite H; split; f_equal; lia.
Qed.

Lemma tedge_ext a b :
  esrc a = esrc b -> edst a = edst b -> ety a = ety b -> em a = em b -> a = b.
Proof.
  destruct a, b; unfold esrc, edst; simpl; intros H1 H2 -> ->.
  inversion H1; inversion H2; reflexivity.
Qed.

Lemma relag_same n : relag n (tl n) = n.
Proof. destruct n; reflexivity. Qed.

(** The minimal graph of a consistent graph is consistent. *)
Lemma minimal_consistent g m : consistent g -> minimal g = Ok m -> consistent m.
Proof.
  intros C E; destruct (minimal_c14 g m C E) as [S W]. split; [exact W|]. split.
  - intros e1 e2 H1 H2 Es Ed Dl.
    pose proof (c14_edl0 g m e1 S H1) as Z1; pose proof (c14_edl0 g m e2 S H2) as Z2.
    assert (e1 = e2); [|congruence].
    apply (NoDup_map_inj ekey (tedges m)); auto; [apply (wf_edges m W)|].
    assert (esl e1 = esl e2) by (unfold delta in Dl; lia).
    unfold ekey, esrc, edst; congruence.
  - intros e1 e2 H1 H2 Es Ed D1 D2.
    pose proof (c14_edl0 g m e1 S H1) as Z1; pose proof (c14_edl0 g m e2 S H2) as Z2.
    unfold delta in D1, D2.
    apply (wf_norev m W e1 e2 H1 H2); unfold esrc, edst; f_equal; auto; lia.
Qed.

(** Applying the operation again changes nothing: same nodes with the same attributes, same
    edges with the same types and metadata, and equal for [CausalGraph.__eq__]. *)
Theorem minimal_idem g m :
  consistent g -> minimal g = Ok m ->
  exists m', minimal m = Ok m' /\ same_graph m m' /\ ts_graph_eqb m m' = true.
Proof.
  intros C E; destruct (minimal_c14 g m C E) as [S W].
  destruct (minimal_consistent g m C E) as (_ & _ & Mu).
  destruct (minimal_spec m W Mu) as (m' & E' & S' & W').
  exists m'; split; [exact E'|].
  assert (A1 : forall e'', In e'' (tedges m') -> In e'' (tedges m)).
  { intros e'' H''; destruct (c14_es m m' S' e'' H'') as (e' & H' & Ks & Kd & Ty & Em).
    destruct (place_self e' (c14_edl0 g m e' S H')) as [P1 P2]; rewrite P1 in Ks; rewrite P2 in Kd.
    rewrite (tedge_ext e'' e' Ks Kd Ty Em); exact H'. }
  assert (A2 : forall e', In e' (tedges m) -> In e' (tedges m')).
  { intros e' H'; pose proof (c14_ec m m' S' e' H') as K.
    destruct (place_self e' (c14_edl0 g m e' S H')) as [P1 P2]; rewrite P1, P2 in K.
    apply in_map_iff in K; destruct K as (e'' & K & H'').
    assert (e'' = e'); [|congruence].
    apply (NoDup_map_inj ekey (tedges m)); auto. apply (wf_edges m W). }
  assert (B1 : forall n'', In n'' (tnodes m') -> In n'' (tnodes m)).
  { intros n'' H''.
    destruct (c14_ns m m' S' n'' H'') as [(e' & H' & [(n0 & F0 & R)|(n0 & F0 & R)])|(T & n0 & F0 & R)].
    - apply find_node_some in F0; destruct F0 as [F0 K].
      pose proof (c14_edl0 g m e' S H') as Z. unfold nkey, esrc in K; inversion K as [[K1 K2]].
      replace (- delta e') with (tl n0) in R by (unfold delta; lia).
      rewrite relag_same in R; congruence.
    - apply find_node_some in F0; destruct F0 as [F0 K].
      pose proof (c14_edl0 g m e' S H') as Z. unfold nkey, edst in K; inversion K as [[K1 K2]].
      replace 0 with (tl n0) in R by lia. rewrite relag_same in R; congruence.
    - apply first_of_var_some in F0; destruct F0 as [F0 Tv].
      assert (NT : forall e', In e' (tedges m) -> es e' <> tv n0 /\ ed e' <> tv n0).
      { rewrite Tv; apply touches_false; exact T. }
      destruct (c14_ns g m S n0 F0) as [(e0 & H0 & Hcase)|(_ & nx & _ & Rx)].
      + exfalso. pose proof (c14_ec g m S e0 H0) as K; apply in_map_iff in K.
        destruct K as (e' & K & H'); apply ekey_inv in K; destruct K as [K1 K2].
        destruct (NT e' H') as [N1 N2].
        destruct Hcase as [(nx & Fx & Rx)|(nx & Fx & Rx)]; apply find_node_some in Fx;
          destruct Fx as [_ Kx]; subst n0; simpl in N1, N2.
        * apply N1. unfold esrc, place_src in K1; unfold nkey, esrc in Kx.
          inversion K1; inversion Kx; congruence.
        * apply N2. unfold edst, place_dst in K2; unfold nkey, edst in Kx.
          inversion K2; inversion Kx; congruence.
      + assert (Z : tl n0 = 0) by (rewrite Rx; reflexivity).
        rewrite <- Z in R; rewrite relag_same in R; congruence. }
  assert (Bk : forall n, In n (tnodes m) -> In (nkey n) (map nkey (tnodes m')) -> In n (tnodes m')).
  { intros n Hn K; apply in_map_iff in K; destruct K as (n'' & K & H'').
    assert (n'' = n); [|congruence].
    apply (NoDup_map_inj nkey (tnodes m)); auto. apply (wf_nodes m W). }
  assert (B2 : forall n, In n (tnodes m) -> In n (tnodes m')).
  { intros n Hn; apply Bk; [exact Hn|].
    destruct (c14_ns g m S n Hn) as [(e0 & H0 & Hcase)|(T & nx & Fx & Rx)].
    - pose proof (c14_ec g m S e0 H0) as K; apply in_map_iff in K.
      destruct K as (e' & K & H'); apply ekey_inv in K; destruct K as [K1 K2].
      destruct (place_self e' (c14_edl0 g m e' S H')) as [P1 P2].
      destruct (c14_nc1 m m' S' e' H') as [N1 N2]. rewrite P1, K1 in N1; rewrite P2, K2 in N2.
      destruct Hcase as [(nx & Fx & Rx)|(nx & Fx & Rx)]; apply find_node_some in Fx;
        destruct Fx as [_ Kx]; subst n.
      + replace (nkey (relag nx (- delta e0))) with (place_src e0); [exact N1|].
        unfold nkey, esrc in Kx; unfold nkey, place_src; simpl; inversion Kx; reflexivity.
      + replace (nkey (relag nx 0)) with (place_dst e0); [exact N2|].
        unfold nkey, edst in Kx; unfold nkey, place_dst; simpl; inversion Kx; reflexivity.
    - assert (Z : tl n = 0) by (rewrite Rx; reflexivity).
      replace (nkey n) with (tv n, 0) by (unfold nkey; rewrite Z; reflexivity).
      apply (c14_nc2 m m' S' n Hn). apply touches_false; intros e' H'.
      destruct (c14_es g m S e' H') as (e0 & H0 & Ks & Kd & _).
      pose proof (proj1 (touches_false g (tv n)) T e0 H0) as [N1 N2].
      unfold esrc, edst, place_src, place_dst in Ks, Kd; inversion Ks; inversion Kd.
      split; congruence. }
  assert (SG : same_graph m m').
  { split; [|split]; [split; auto|split; auto|symmetry; exact (c14_meta m m' S')]. }
  split; [exact SG|apply same_graph_eqb; assumption].
Qed.

(** The result is minimal. *)
Theorem minimal_is_minimal g m : consistent g -> minimal g = Ok m -> is_minimal m = Ok true.
Proof.
  intros C E; destruct (minimal_idem g m C E) as (m' & E' & _ & Q).
  unfold is_minimal; rewrite E', Q; reflexivity.
Qed.

(** is_minimal_graph(g) is true exactly when g equals its minimal graph. *)
Theorem is_minimal_iff g :
  is_minimal g = Ok true <-> exists m, minimal g = Ok m /\ ts_graph_eqb g m = true.
Proof.
  unfold is_minimal; split.
  - destruct (minimal g) as [m|]; [|discriminate]. intros [= H]; eauto.
  - intros (m & -> & ->); reflexivity.
Qed.

Theorem is_minimal_total g : consistent g -> exists b, is_minimal g = Ok b.
Proof. intros C; destruct (minimal_ok g C) as (m & E); unfold is_minimal; rewrite E; eauto. Qed.

(** * The boolean oracle [c14_check] decides [c14_spec] *)

Lemma opt_node_match (o : option tnode) (n' : tnode) (f : tnode -> tnode) :
  match o with Some n0 => tnode_eqb n' (f n0) | None => false end = true
  <-> exists n0, o = Some n0 /\ n' = f n0.
Proof.
  destruct o as [n0|]; split.
  - intros H; apply tnode_eqb_eq in H; eauto.
  - intros (n1 & [= <-] & ->); apply tnode_eqb_eq; reflexivity.
  - discriminate.
  - intros (n1 & [=] & _).
Qed.

Theorem c14_check_spec g m : c14_check g m = true <-> c14_spec g m.
Proof.
  unfold c14_check, c14_edge_sound, c14_edge_complete, c14_node_sound, c14_node_complete.
  rewrite !andb_true_iff, !forallb_forall, meta_eqb_eq.
  rewrite (nodup_by_spec ekey_eqb ekey_eqb_spec), (nodup_by_spec key_eqb key_eqb_spec).
  split.
  - intros [[[[[[H1 H2] H3] H4] [H5 H6]] H7] H8]. constructor; auto.
    + intros e' He'; specialize (H1 e' He'); apply existsb_exists in H1.
      destruct H1 as (e0 & H0 & E); rewrite !andb_true_iff, !key_eqb_eq, etype_eqb_eq, meta_eqb_eq in E.
      exists e0; tauto.
    + intros e0 H0; apply edge_exists_in, H2, H0.
    + intros n' Hn'; specialize (H4 n' Hn'); apply orb_true_iff in H4; destruct H4 as [H4|H4].
      * left; apply existsb_exists in H4; destruct H4 as (e0 & H0 & E); exists e0; split; [exact H0|].
        apply orb_true_iff in E; rewrite !opt_node_match in E; exact E.
      * right; apply andb_true_iff in H4; destruct H4 as [T F]; apply negb_true_iff in T.
        apply opt_node_match in F; auto.
    + intros e0 H0; specialize (H5 e0 H0); apply andb_true_iff in H5.
      rewrite !node_exists_in in H5; exact H5.
    + intros n Hn T; specialize (H6 n Hn); rewrite T in H6; simpl in H6.
      apply node_exists_in; exact H6.
  - intros [S1 S2 S3 S4 S5 S6 S7 S8]; repeat split; auto.
    + intros e' He'; destruct (S1 e' He') as (e0 & H0 & E); apply existsb_exists; exists e0.
      split; [exact H0|]. rewrite !andb_true_iff, !key_eqb_eq, etype_eqb_eq, meta_eqb_eq; tauto.
    + intros e0 H0; apply edge_exists_in, S2, H0.
    + intros n' Hn'; apply orb_true_iff; destruct (S4 n' Hn') as [(e0 & H0 & E)|(T & F)].
      * left; apply existsb_exists; exists e0; split; [exact H0|].
        apply orb_true_iff; rewrite !opt_node_match; exact E.
      * right; rewrite T; simpl; apply opt_node_match; exact F.
    + intros e0 H0; apply andb_true_iff; rewrite !node_exists_in; apply S5, H0.
    + intros n Hn; destruct (touches g (tv n)) eqn:T; [reflexivity|simpl].
      apply node_exists_in, S6; assumption.
Qed.

(** The model's minimal graph passes its own oracle. *)
Corollary minimal_check g m : consistent g -> minimal g = Ok m -> c14_check g m = true.
Proof. intros C E; apply c14_check_spec; exact (proj1 (minimal_c14 g m C E)). Qed.

(** * [consistent_b] decides [consistent] *)
Theorem consistent_b_spec g : consistent_b g = true <-> consistent g.
Proof.
  unfold consistent_b, consistent; rewrite !andb_true_iff, wf_b_spec.
  rewrite (forallb2_spec (fun e1 e2 =>
     negb (name_eqb (es e1) (es e2) && name_eqb (ed e1) (ed e2) && (delta e1 =? delta e2))
     || etype_eqb (ety e1) (ety e2))).
  rewrite (forallb2_spec (fun e1 e2 =>
     negb (name_eqb (es e1) (ed e2) && name_eqb (ed e1) (es e2)
           && (delta e1 =? 0) && (delta e2 =? 0)))).
  split.
  - intros [[W H1] H2]; split; [exact W|]. split.
    + intros e1 e2 I1 I2 Es Ed Dl; specialize (H1 e1 e2 I1 I2).
      rewrite Es, Ed, Dl, !name_eqb_refl, Z.eqb_refl in H1; simpl in H1.
      apply etype_eqb_eq; exact H1.
    + intros e1 e2 I1 I2 Es Ed D1 D2; specialize (H2 e1 e2 I1 I2).
      rewrite Es, Ed, D1, D2, !name_eqb_refl in H2; discriminate.
  - intros (W & H1 & H2); split; [split; [exact W|]|].
    + intros e1 e2 I1 I2.
      destruct (name_eqb_spec (es e1) (es e2)) as [Es|]; [|reflexivity].
      destruct (name_eqb_spec (ed e1) (ed e2)) as [Ed|]; [|reflexivity].
      destruct (Z.eqb_spec (delta e1) (delta e2)) as [Dl|]; [|reflexivity].
      simpl; apply etype_eqb_eq, H1; auto.
    + intros e1 e2 I1 I2; apply negb_true_iff.
      destruct (name_eqb_spec (es e1) (ed e2)) as [Es|]; [|reflexivity].
      destruct (name_eqb_spec (ed e1) (es e2)) as [Ed|]; [|reflexivity].
      destruct (Z.eqb_spec (delta e1) 0) as [D1|]; [|reflexivity].
      destruct (Z.eqb_spec (delta e2) 0) as [D2|]; [|reflexivity].
      exfalso; exact (H2 e1 e2 I1 I2 Es Ed D1 D2).
Qed.

(** * Examples (see [ex_g] in TSGraphProofs.v; values observed on the Python code) *)

Example ex_g_consistent : consistent ex_g.
Proof. apply consistent_b_spec; vm_compute; reflexivity. Qed.

(** Python: get_minimal_graph() of [ex_g]: 5 templates; W's only node is 'W lag(n=1)'; the
    floating variable Z is kept once at lag 0 with its type and metadata. *)
Definition ex_m : tsg :=
  Gr [(Nd [87]%N (-1)%Z VUnspec []); (Nd [89]%N (0)%Z VUnspec []); (Nd [88]%N (0)%Z VUnspec []); (Nd [88]%N (-1)%Z VUnspec []); (Nd [89]%N (-1)%Z VUnspec []); (Nd [90]%N (0)%Z VCont [([97]%N, JInt (1)%Z)])] [(Ed [87]%N (-1)%Z [89]%N (0)%Z Dir []); (Ed [88]%N (0)%Z [89]%N (0)%Z Dir []); (Ed [88]%N (-1)%Z [88]%N (0)%Z Dir []); (Ed [88]%N (-1)%Z [89]%N (0)%Z Dir []); (Ed [89]%N (-1)%Z [88]%N (0)%Z Dir [([98]%N, JStr [117]%N)])] [([103]%N, JInt (1)%Z)].
Example ex_g_minimal : res_exact (minimal ex_g) (Ok ex_m) = true.
Proof. vm_compute; reflexivity. Qed.
Example ex_g_is_minimal : is_minimal ex_g = Ok false /\ is_minimal ex_m = Ok true.
Proof. split; vm_compute; reflexivity. Qed.
Example ex_m_idem : res_exact (minimal ex_m) (Ok ex_m) = true.
Proof. vm_compute; reflexivity. Qed.
Example ex_g_c14_check : c14_check ex_g ex_m = true.
Proof. vm_compute; reflexivity. Qed.

(** Inconsistent input: 'X' -- 'Y' at lag 0 is stored (X, Y) and at lag 1, given as
    add_edge('Y lag(n=1)', 'X lag(n=1)', '--'), is stored (Y lag 1, X lag 1): two templates that
    are mutual reverses at time difference 0.  Python raises ReverseEdgeExistsError. *)
Example ex_reverse :
  minimal (Gr [Nd [88]%N 0 VUnspec []; Nd [89]%N 0 VUnspec [];
               Nd [89]%N (-1) VUnspec []; Nd [88]%N (-1) VUnspec []]
              [Ed [88]%N 0 [89]%N 0 Und []; Ed [89]%N (-1) [88]%N (-1) Und []] [])
  = Err EReverse.
Proof. vm_compute; reflexivity. Qed.

(** * adjacency_matrices (statement only; pinned on [ex_g] below)

    [adj_matrices g] is the template set of [g] written as one matrix per source lag: the keys
    are the source lags of the minimal edges, and cell (i, j) of the matrix of lag [k] is set
    exactly when a minimal edge with source lag [k] goes from the i-th to the j-th variable (or,
    for an undirected edge, from the j-th to the i-th). *)
Definition cell (mx : matrix) (i j : nat) : bool :=
  match nth_error mx i with
  | Some row => match nth_error row j with Some c => c | None => false end
  | None => false
  end.
Definition adj_matrices_statement : Prop :=
  forall g m d, consistent g -> minimal g = Ok m ->
    (forall e, In e (tedges m) -> ety e = Dir \/ ety e = Und) ->
    adj_matrices g = Ok d ->
    NoDup (map fst d)
    /\ (forall k, In k (map fst d) <-> exists e, In e (tedges m) /\ esl e = k)
    /\ (forall k mx i j, In (k, mx) d ->
          (cell mx i j = true <->
           exists e, In e (tedges m) /\ esl e = k /\
             ((index_of (es e) (variables m) = Some i /\ index_of (ed e) (variables m) = Some j)
              \/ (ety e = Und /\ index_of (es e) (variables m) = Some j
                               /\ index_of (ed e) (variables m) = Some i)))).

(** Python: ex_g.adjacency_matrices (variables W, X, Y, Z): lag -1 and lag 0. *)
Example ex_g_adj :
  adj_matrices ex_g = Ok [((-1)%Z, [[false; false; true; false]; [false; true; true; false]; [false; true; false; false]; [false; false; false; false]]); ((0)%Z, [[false; false; false; false]; [false; false; true; false]; [false; false; false; false]; [false; false; false; false]])].
Proof. vm_compute; reflexivity. Qed.

(** a bi-directed edge makes adjacency_matrices raise TypeError *)
Example ex_adj_type :
  adj_matrices (Gr [Nd [88]%N 0 VUnspec []; Nd [89]%N 0 VUnspec []]
                   [Ed [88]%N 0 [89]%N 0 Bi []] []) = Err EType.
Proof. vm_compute; reflexivity. Qed.
