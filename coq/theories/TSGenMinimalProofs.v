(** TSGenMinimalProofs.v — the functions GENERATED from [TimeSeriesCausalGraph.get_minimal_graph] and
    [is_minimal_graph] (TSGenMinimal.v, written by /verif/tools/translate_ts_extend.py on every run) are equal
    to the hand-written model ([minimal], [is_minimal] of TSGraph.v), and the C14 theorems of
    MinimalProofs.v hold of the generated code.  Imports TSGenMinimal.v only (not TSGenExtend.v).

    The proofs do not mention the text of the generated functions: they unfold the rows of the table
    (PyRtTSb.v), replace each loop by the model's fold through [ts_for_rfold], and compare the loop bodies by
    case analysis on the tests that occur in them.  Renamed locals, reordered independent assignments, changed
    comments / messages and moved lines therefore do not disturb them; a change of a test, of an argument or of
    the control flow does. *)
From CG Require Import Base Dec Digraph TSGraph TSGraphProofs MinimalProofs PyRtTSb PyRtTSbLemmas TSGenMinimal.
Local Open Scope Z_scope.

(** the rows of the table, unfolded *)
Ltac rt_unfold :=
  cbv beta zeta delta [ts_bind ts_top ts_in ts_new_graph ts_deepcopy ts_graph_meta ts_edge_copy
                       ts_node_set_time_lag_tag ts_ident_of_name ts_get_name_with_lag ts_new_node ts_new_edge
                       ts_get_lagged_node ts_edge_exists ts_node_exists ts_add_edge_obj ts_add_edge
                       ts_variables ts_is_empty ts_copy ts_max_backward_lag ts_graph_eq ts_get_nodes
                       ts_get_minimal_graph ts_list_empty ts_list_append];
  cbn [pe_src pe_dst pe_ty pe_meta fst snd andb orb negb].

(** case analysis on every test of the goal, outermost first *)
Ltac split_ifs :=
  repeat match goal with
         | |- context [if ?c then _ else _] =>
             lazymatch c with
             | context [if _ then _ else _] => fail
             | _ => destruct c eqn:?
             end
         end.

(** * get_minimal_graph *)
Theorem gen_minimal_equiv g : ends_closed g -> gen_get_minimal_graph g = minimal g.
Proof.
  intros C. unfold gen_get_minimal_graph, minimal.
  destruct (ts_get_edges_closed g C) as (l & El & HF).
  rewrite El. unfold ts_bind at 1.
  erewrite (ts_for_rfold ts_top (edge_rel g) (min_step g)); [ | | exact HF].
  - (* the floating-variable loop *)
    rt_unfold.
    destruct (rfold (min_step g) (sorted_edges g) (empty_tsg (tgmeta g))) as [m0|er]; [|reflexivity].
    erewrite (ts_for_rfold_eq (fun o : res tsg => o) (float_step g)).
    + destruct (variables g) as [|v vs]; [reflexivity|].
      replace (0 <? Z.of_nat (length (v :: vs))) with true
        by (symmetry; apply Z.ltb_lt; simpl length; lia).
      destruct (rfold (float_step g) (v :: vs) m0); reflexivity.
    + intros v m. unfold float_step.
      rewrite mem_variables_has_var, first_of_var_getitem0.
      destruct (negb (has_var m v) && negb (node_exists m (v, 0))) eqn:Ec; [|reflexivity].
      destruct (first_of_var g v) as [n|] eqn:Ef; [|reflexivity].
      apply andb_true_iff in Ec; destruct Ec as [_ Ec]; apply negb_true_iff in Ec.
      unfold ts_add_node, nkey; cbn [tv tl]; rewrite Ec.
      apply first_of_var_some in Ef; destruct Ef as [_ Ef]. unfold relag; rewrite Ef; reflexivity.
  - (* the edge loop *)
    intros e pe m R. destruct (edge_rel_keys g e pe R) as [Ks Kd]. destruct R as (Fs & Fd & Ty & Me).
    unfold nkey, esrc, edst in Ks, Kd.
    assert (Hvs : tv (pe_src pe) = es e) by congruence.
    assert (Hls : tl (pe_src pe) = esl e) by congruence.
    assert (Hvd : tv (pe_dst pe) = ed e) by congruence.
    assert (Hld : tl (pe_dst pe) = edl e) by congruence.
    unfold min_step, min_add; rewrite Fs, Fd.
    rt_unfold. unfold relag, nkey; cbn [tv tl tvt tm fst snd].
    rewrite Hvs, Hls, Hvd, Hld, Ty, Me.
    split_ifs; try reflexivity; try discriminate;
      match goal with |- context [add_edge ?a ?b ?c ?d ?f] => destruct (add_edge a b c d f); reflexivity end.
Qed.

(** the complete account, for EVERY input: outside the premise (a state the library cannot reach) the generated code
    raises the model's [ENodeMissing] when it asks for the edge objects, the hand model at the latest when it needs
    the missing node *)
Theorem gen_minimal_all_inputs g :
  gen_get_minimal_graph g = if ends_closed_b g then minimal g else Err ENodeMissing.
Proof.
  destruct (ends_closed_b g) eqn:E.
  - apply gen_minimal_equiv, ends_closed_b_spec, E.
  - unfold gen_get_minimal_graph; rewrite (ts_get_edges_not_closed g E); reflexivity.
Qed.

(** * is_minimal_graph: the second argument is the cached answer [self._is_minimal_graph] ([None] on a graph
      that has not been asked since its last mutation: every mutator resets it) *)
Theorem gen_is_minimal_equiv g :
  ends_closed g ->
  gen_is_minimal_graph g None = match is_minimal g with Ok b => Ok (Some b) | Err e => Err e end.
Proof.
  intros C. unfold gen_is_minimal_graph, is_minimal. rewrite (gen_minimal_equiv g C).
  rt_unfold. destruct (minimal g); reflexivity.
Qed.

(** with a cached answer the method returns it without looking at the graph *)
Theorem gen_is_minimal_cached g b : gen_is_minimal_graph g (Some b) = Ok (Some b).
Proof. reflexivity. Qed.

(** whatever the graph, the method does not return [None] when it starts from an empty cache *)
Lemma gen_is_minimal_never_none g : gen_is_minimal_graph g None <> Ok None.
Proof. unfold gen_is_minimal_graph; rt_unfold; destruct (gen_get_minimal_graph g); discriminate. Qed.

(** * The well-formedness premise is a clause of [wf] (hence of [consistent]) and is decidable *)
Lemma consistent_closed g : consistent g -> ends_closed g.
Proof. intros (W & _); apply wf_ends_closed, W. Qed.

Corollary gen_minimal_equiv_wf g : wf g -> gen_get_minimal_graph g = minimal g.
Proof. intros W; apply gen_minimal_equiv, wf_ends_closed, W. Qed.

(** the result of the generated code is closed again, so the methods can be iterated *)
Lemma gen_minimal_closed g m : ends_closed g -> gen_get_minimal_graph g = Ok m -> ends_closed m.
Proof. intros C E; rewrite (gen_minimal_equiv g C) in E; exact (minimal_closed g m E). Qed.

(** * Transfer of the C14 theorems (MinimalProofs.v) to the generated code.
      Each statement is the statement of the model's theorem with [minimal] replaced by
      [gen_get_minimal_graph] in the hypotheses (printed by the [Check]s at the end). *)
Theorem gen_minimal_ok g : consistent g -> exists m, gen_get_minimal_graph g = Ok m.
Proof. intros C; rewrite (gen_minimal_equiv g (consistent_closed g C)); exact (minimal_ok g C). Qed.

Theorem gen_minimal_spec g :
  wf g -> no_mutual0 g -> exists m, gen_get_minimal_graph g = Ok m /\ c14_spec g m /\ wf m.
Proof. intros W M; rewrite (gen_minimal_equiv_wf g W); exact (minimal_spec g W M). Qed.

Theorem gen_minimal_edges g m :
  consistent g -> gen_get_minimal_graph g = Ok m ->
  ltac:(match type of (minimal_edges g m) with _ -> _ -> ?T => exact T end).
Proof. intros C E; rewrite (gen_minimal_equiv g (consistent_closed g C)) in E; exact (minimal_edges g m C E). Qed.

Theorem gen_minimal_nodes g m :
  consistent g -> gen_get_minimal_graph g = Ok m ->
  ltac:(match type of (minimal_nodes g m) with _ -> _ -> ?T => exact T end).
Proof. intros C E; rewrite (gen_minimal_equiv g (consistent_closed g C)) in E; exact (minimal_nodes g m C E). Qed.

Theorem gen_minimal_attributes g m :
  consistent g -> gen_get_minimal_graph g = Ok m ->
  ltac:(match type of (minimal_attributes g m) with _ -> _ -> ?T => exact T end).
Proof. intros C E; rewrite (gen_minimal_equiv g (consistent_closed g C)) in E; exact (minimal_attributes g m C E). Qed.

Theorem gen_minimal_check g m : consistent g -> gen_get_minimal_graph g = Ok m -> c14_check g m = true.
Proof. intros C E; rewrite (gen_minimal_equiv g (consistent_closed g C)) in E; exact (minimal_check g m C E). Qed.

(** fixed point: applying the generated method to its own result changes nothing *)
Theorem gen_minimal_idem g m :
  consistent g -> gen_get_minimal_graph g = Ok m ->
  exists m', gen_get_minimal_graph m = Ok m' /\ same_graph m m' /\ ts_graph_eqb m m' = true.
Proof.
  intros C E; rewrite (gen_minimal_equiv g (consistent_closed g C)) in E.
  pose proof (minimal_consistent g m C E) as Cm.
  rewrite (gen_minimal_equiv m (consistent_closed m Cm)). exact (minimal_idem g m C E).
Qed.

Theorem gen_minimal_is_minimal g m :
  consistent g -> gen_get_minimal_graph g = Ok m -> gen_is_minimal_graph m None = Ok (Some true).
Proof.
  intros C E; rewrite (gen_minimal_equiv g (consistent_closed g C)) in E.
  pose proof (minimal_consistent g m C E) as Cm.
  rewrite (gen_is_minimal_equiv m (consistent_closed m Cm)), (minimal_is_minimal g m C E); reflexivity.
Qed.

Theorem gen_is_minimal_iff g :
  ends_closed g ->
  (gen_is_minimal_graph g None = Ok (Some true)
   <-> exists m, gen_get_minimal_graph g = Ok m /\ ts_graph_eqb g m = true).
Proof.
  intros C; rewrite (gen_is_minimal_equiv g C), (gen_minimal_equiv g C), <- is_minimal_iff.
  destruct (is_minimal g) as [[|]|]; split; intros H; try reflexivity; discriminate.
Qed.

Theorem gen_is_minimal_total g : consistent g -> exists b, gen_is_minimal_graph g None = Ok (Some b).
Proof.
  intros C; rewrite (gen_is_minimal_equiv g (consistent_closed g C)).
  destruct (is_minimal_total g C) as (b & ->); eauto.
Qed.

(** * Non-vacuity: the example graph of TSGraphProofs.v meets the premises, and the generated code computes on it
      what the model computes ([ex_m], obtained from the real library in MinimalProofs.v) *)
Example ex_g_closed : ends_closed ex_g.
Proof. apply consistent_closed, ex_g_consistent. Qed.
Example ex_g_gen_minimal : res_exact (gen_get_minimal_graph ex_g) (Ok ex_m) = true.
Proof. vm_compute. reflexivity. Qed.
Example ex_g_gen_is_minimal :
  gen_is_minimal_graph ex_g None = Ok (Some false) /\ gen_is_minimal_graph ex_m None = Ok (Some true).
Proof. vm_compute. split; reflexivity. Qed.
(** an ill-formed state (an edge whose endpoints are not nodes; unreachable through the library) on which the
    premise fails and the two differ only in WHERE they give up: both return the same error here *)
Example ex_not_closed :
  let g := {| tnodes := []; tedges := [Ed [120%N] 0 [121%N] 0 Dir []]; tgmeta := [] |} in
  ends_closed_b g = false /\ gen_get_minimal_graph g = Err ENodeMissing /\ minimal g = Err ENodeMissing.
Proof. vm_compute. repeat split; reflexivity. Qed.

Check gen_minimal_edges.
Check gen_minimal_nodes.
Check gen_minimal_attributes.
Print Assumptions gen_minimal_equiv.
Print Assumptions gen_minimal_all_inputs.
Print Assumptions gen_is_minimal_equiv.
Print Assumptions gen_minimal_spec.
Print Assumptions gen_minimal_edges.
Print Assumptions gen_minimal_nodes.
Print Assumptions gen_minimal_attributes.
Print Assumptions gen_minimal_idem.
Print Assumptions gen_minimal_is_minimal.
Print Assumptions gen_is_minimal_iff.
Print Assumptions gen_minimal_check.
