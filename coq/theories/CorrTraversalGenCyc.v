(** CorrTraversalGenCyc.v — entry points of the correspondence harness for the function GENERATED from
    [CausalGraph._assert_node_does_not_depend_on_itself] (TraversalGenCyc.v), in the style of CorrIdentifyGen*.v.
    DEFINITIONS and pinned [Example]s only.  Depends on TraversalGenCyc.v only (not on TraversalGenQ.v).

    Argument formats
    - a graph is [n] and a list of typed edges [(src, dst, etype)] over the nodes [0 .. n-1]
      ([etype] = Dir Und Bi Unk UnkDir UnkUnd = -> -- <> oo o> o-): the CausalGraph obtained by adding the
      nodes 0 .. n-1 in this order and then the edges in list order with [add_edge(src, dst, edge_type=..)]
      ([validate=False] when the list contains a directed cycle).
      The graph handed to the generated code is [ctg_graph n edges] = [pg_of_mgraph] of it: only the [Dir]
      edges appear in the inbound / outbound lists, [is_dag()] = all edges directed and no directed cycle.
    - a node argument is a number; a number [>= n] is an identifier that is not in the graph.
    - token forms [ctgt_*] for a harness that compares lists of numbers: [0 :: payload] for a normal return
      (payload = [] for None, [0]/[1] for False/True, the sorted list for a set), [[1; k]] for an exception
      ([cig_exc_code]: 2 KeyError, 6 AssertionError, 7 IndexError, ..), [[2]] for fuel ([Fuel] is never a
      normal-looking value).
    - fuel: [length edges + 2] (TraversalGenCycProofs.gen_assert_no_self_dependency_spec: enough for every graph).
    - [ctg_assert_no_self_dependency n edges v : pyout unit]: [Ret tt] = returned None,
      [Exc PyAssertionError] = raised, [Exc PyKeyError] = unknown identifier. *)
From CG Require Import Base Digraph Markov PyRt PyRtLoop CorrIdentifyGen CorrTraversalBase TraversalGenCyc.
Set Implicit Arguments.

Definition ctg_assert_no_self_dependency (n : nat) (edges : list (nat * nat * etype)) (v : nat) : pyout unit :=
  gen__assert_node_does_not_depend_on_itself Nat.eqb (length edges + 2) (ctg_graph n edges) v.
Definition ctgt_assert_no_self_dependency n edges v : list nat :=
  cig_tokens (ctg_map (fun _ : unit => @nil nat) (ctg_assert_no_self_dependency n edges v)).

(** * Pinned behaviour: every right-hand side below was obtained from the real library
    (PYTHONPATH=/repo /venv/bin/python; nodes are the strings "0" .. "n-1", the last argument value n is an
    identifier that is not in the graph) *)
(* the graphs [ctg_*_edges] are defined and described in CorrTraversalBase.v *)
Example ctg_mixed_cycle_check :
  map (ctgt_assert_no_self_dependency 6 ctg_mixed_edges) (seq 0 7) = [[0]; [0]; [0]; [0]; [0]; [0]; [1; 2]].
Proof. vm_compute. reflexivity. Qed.
Example ctg_dag_cycle_check :
  map (ctgt_assert_no_self_dependency 6 ctg_dag_edges) (seq 0 7) = [[0]; [0]; [0]; [0]; [0]; [0]; [1; 2]].
Proof. vm_compute. reflexivity. Qed.
Example ctg_cyclic_cycle_check :
  map (ctgt_assert_no_self_dependency 5 ctg_cyclic_edges) (seq 0 6) = [[1; 6]; [1; 6]; [1; 6]; [0]; [0]; [1; 2]].
Proof. vm_compute. reflexivity. Qed.
Example ctg_rand1_cycle_check :
  map (ctgt_assert_no_self_dependency 3 ctg_rand1_edges) (seq 0 4) = [[0]; [0]; [0]; [1; 2]].
Proof. vm_compute. reflexivity. Qed.
Example ctg_rand2_cycle_check :
  map (ctgt_assert_no_self_dependency 6 ctg_rand2_edges) (seq 0 7) = [[0]; [0]; [0]; [0]; [0]; [0]; [1; 2]].
Proof. vm_compute. reflexivity. Qed.
Example ctg_rand3_cycle_check :
  map (ctgt_assert_no_self_dependency 5 ctg_rand3_edges) (seq 0 6) = [[0]; [0]; [0]; [0]; [0]; [1; 2]].
Proof. vm_compute. reflexivity. Qed.
Example ctg_rand4_cycle_check :
  map (ctgt_assert_no_self_dependency 7 ctg_rand4_edges) (seq 0 8) = [[0]; [0]; [0]; [0]; [0]; [0]; [0]; [1; 2]].
Proof. vm_compute. reflexivity. Qed.
Example ctg_rand5_cycle_check :
  map (ctgt_assert_no_self_dependency 3 ctg_rand5_edges) (seq 0 4) = [[0]; [0]; [0]; [1; 2]].
Proof. vm_compute. reflexivity. Qed.
Example ctg_rand6_cycle_check :
  map (ctgt_assert_no_self_dependency 7 ctg_rand6_edges) (seq 0 8) = [[0]; [0]; [0]; [0]; [0]; [0]; [0]; [1; 2]].
Proof. vm_compute. reflexivity. Qed.
Example ctg_rand7_cycle_check :
  map (ctgt_assert_no_self_dependency 2 ctg_rand7_edges) (seq 0 3) = [[0]; [0]; [1; 2]].
Proof. vm_compute. reflexivity. Qed.
Example ctg_rand8_cycle_check :
  map (ctgt_assert_no_self_dependency 5 ctg_rand8_edges) (seq 0 6) = [[0]; [0]; [0]; [0]; [0]; [1; 2]].
Proof. vm_compute. reflexivity. Qed.
