(** GraphInv.v — the concrete-state invariant of the graph model and the STATEMENTS of the
    history theorems (DEFINITIONS ONLY; proofs are in GraphInvProofs.v / GraphAtomicProofs.v /
    GraphAcyclicProofs.v). *)
From CG Require Import Base Digraph Graph GraphObs.
Set Implicit Arguments.

(** Sources of directed edges into [n] / destinations of directed edges out of [n], read from
    the by-source index. *)
Definition dir_into (g : graph) (n : name) : list name :=
  map esrc (filter (fun e => etype_eqb (ety e) Dir && name_eqb n (edst e)) (gsrc g)).
Definition dir_from (g : graph) (n : name) : list name :=
  map edst (filter (fun e => etype_eqb (ety e) Dir && name_eqb n (esrc e)) (gsrc g)).

Definition node_ids (g : graph) : list name := map nid (gnodes g).
Definition edge_keys (g : graph) : list (name * name) := map edge_key (gsrc g).

(** The directed part of the graph as a Digraph.digraph over names. *)
Definition dgraph (g : graph) : digraph name :=
  {| verts := node_ids g;
     arcs := map edge_key (filter (fun e => etype_eqb (ety e) Dir) (gsrc g)) |}.

Definition Acyclic (g : graph) : Prop := acyclic (dgraph g).

Section Inv.
  Variable parse : name -> option (name * Z).
  Variable fmt : name -> Z -> option name.

  (** Time-series part: every node's reserved tags are the parse of its identifier (NodeOK),
      the two lookup indexes list exactly the current nodes, in insertion order (IdxOK), and no
      stored edge points backwards in time (TimeOK). *)
  Record TSInv (g : graph) : Prop := {
    ts_nodeok : forall n, In n (gnodes g) ->
      exists v l, parse (nid n) = Some (v, l)
                  /\ meta_var (nmeta n) = Some v /\ meta_lag (nmeta n) = Some l;
    ts_lagidx : Forall2 (fun p n => snd p = nid n /\ meta_lag (nmeta n) = Some (fst p))
                  (glag g) (gnodes g);
    ts_varidx : Forall2 (fun p n => snd p = nid n /\ meta_var (nmeta n) = Some (fst p))
                  (gvar g) (gnodes g);
    ts_time : forall e, In e (gsrc g) ->
      exists ls ld, node_lag g (esrc e) = Some ls /\ node_lag g (edst e) = Some ld
                    /\ (ls <= ld)%Z
  }.

  Record Inv (k : kind) (g : graph) : Prop := {
    inv_nodup_nodes : NoDup (node_ids g);
    inv_mirror : Permutation (gdst g) (gsrc g);
    inv_nodup_keys : NoDup (edge_keys g);
    inv_endpoints : forall e, In e (gsrc g) -> In (esrc e) (node_ids g) /\ In (edst e) (node_ids g);
    inv_noloop : forall e, In e (gsrc g) -> esrc e <> edst e;
    inv_noreverse : forall e, In e (gsrc g) -> ~ In (edst e, esrc e) (edge_keys g);
    inv_inb : forall n, In n (gnodes g) -> Permutation (ninb n) (dir_into g (nid n));
    inv_outb : forall n, In n (gnodes g) -> Permutation (noutb n) (dir_from g (nid n));
    inv_plain_idx : k = Plain -> glag g = [] /\ gvar g = [];
    inv_ts : k = TS -> TSInv g
  }.

  (** Two states that differ only in the insertion order of their edge indexes and of the
      per-node directed lists (what a failed-and-restored type change leaves behind). *)
  Definition node_equiv (a b : node) : Prop :=
    nid a = nid b /\ nvt a = nvt b /\ nmeta a = nmeta b
    /\ Permutation (ninb a) (ninb b) /\ Permutation (noutb a) (noutb b).
  Definition equiv (g h : graph) : Prop :=
    Forall2 node_equiv (gnodes g) (gnodes h)
    /\ Permutation (gsrc g) (gsrc h) /\ Permutation (gdst g) (gdst h)
    /\ gmeta g = gmeta h /\ glag g = glag h /\ gvar g = gvar h.

  (** * Statements (C01 C02 C03 C12 C13) *)

  (** every reachable state satisfies the invariant *)
  Definition inv_init_statement : Prop := forall k m, Inv k (empty_graph m).
  Definition inv_step_statement : Prop :=
    forall k g o, Inv k g -> Inv k (step parse fmt k g o).
  Definition inv_run_statement : Prop :=
    forall k ops m, Inv k (run parse fmt k ops (empty_graph m)).

  (** at most one edge between two nodes, whatever the orientation *)
  Definition one_edge_per_pair_statement : Prop :=
    forall k g a b, Inv k g ->
      length (filter (fun e => (name_eqb a (esrc e) && name_eqb b (edst e))
                               || (name_eqb b (esrc e) && name_eqb a (edst e))) (gsrc g)) <= 1.

  (** the read views all report the one state [gnodes, gsrc]: the by-destination index and the
      per-node directed lists agree with the by-source index *)
  Definition views_agree_statement : Prop :=
    forall k g n, Inv k g ->
      v_edges_into g n = isort pair_leb_e (filter (fun e => name_eqb n (edst e)) (gsrc g))
      /\ (In n (node_ids g) ->
          v_parents g n = Ok (sort_names (dir_into g n))
          /\ v_children g n = Ok (sort_names (dir_from g n)))
      /\ (forall s d, v_edge_exists g s d None = true <-> In (s, d) (edge_keys g)).

  (** the cycle check never runs out of fuel and decides "d lies on a directed cycle" *)
  Definition cycle_check_statement : Prop :=
    forall k g d, Inv k g -> In d (node_ids g) ->
      exists b, depends_on_itself g d = Some b /\ (b = true <-> path (dgraph g) d d).

  (** validated mutations preserve acyclicity of the directed part *)
  Definition acyclic_step_statement : Prop :=
    forall k g o, Inv k g -> Acyclic g -> validated o = true ->
      Acyclic (step parse fmt k g o).
  Definition acyclic_run_statement : Prop :=
    forall k ops m, forallb validated ops = true ->
      Acyclic (run parse fmt k ops (empty_graph m)).

  (** an acyclicity-preserving directed add is accepted, a cycle-closing one is refused *)
  Definition add_edge_cyclic_iff_statement : Prop :=
    forall k g s d m, Inv k g -> Acyclic g -> In s (node_ids g) -> In d (node_ids g) ->
      edge_at g s d = None -> edge_at g d s = None -> s <> d ->
      (k = TS -> exists ls ld, node_lag g s = Some ls /\ node_lag g d = Some ld /\ (ls <= ld)%Z) ->
      (outcome parse fmt k g (OAddEdge (str_ep s) (str_ep d) Dir m true) = Some ECyclic
         <-> path (dgraph g) d s)
      /\ (outcome parse fmt k g (OAddEdge (str_ep s) (str_ep d) Dir m true) = None
         <-> ~ path (dgraph g) d s).

  (** failure atomicity: a rejected single-element mutator leaves an equivalent state, and
      equivalent states are observationally equal *)
  Definition failed_step_equiv_statement : Prop :=
    forall k g o e, Inv k g -> single_element o = true ->
      outcome parse fmt k g o = Some e -> equiv (step parse fmt k g o) g.
  Definition observe_equiv_statement : Prop :=
    forall k g h pool lags vars, Inv k g -> equiv g h ->
      observe parse k g pool lags vars = observe parse k h pool lags vars.
  Definition failed_step_noop_statement : Prop :=
    forall k g o e pool lags vars, Inv k g -> single_element o = true ->
      outcome parse fmt k g o = Some e ->
      observe parse k (step parse fmt k g o) pool lags vars = observe parse k g pool lags vars.

  (** time-series lookups equal a scan over the current nodes *)
  Definition lookups_eq_scan_statement : Prop :=
    forall g l v, Inv TS g ->
      v_nodes_at_lag g l
        = map nid (filter (fun n => match meta_lag (nmeta n) with
                                    | Some l' => Z.eqb l' l | None => false end) (gnodes g))
      /\ v_nodes_for_var g v
        = map nid (filter (fun n => match meta_var (nmeta n) with
                                    | Some v' => name_eqb v' v | None => false end) (gnodes g)).
End Inv.
