(** MutGenAddProofs.v -- the functions GENERATED from the Python source (MutGenAdd.v: _set_edge, _prepare_nodes,
    add_edge of class CausalGraph) equal the hand-written model (Graph.v): same result, same error value, same state
    left behind; then one key theorem each of GraphAcyclicProofs.v (C02) and GraphAtomicProofs.v (C01/C03) transfers
    to the generated code.  Imports only the generated file MutGenAdd.v (plus the model and its proofs). *)
From CG Require Import Base Digraph Graph GraphObs GraphInv GraphLemmas GraphInvProofs GraphAcyclicLemmas GraphAtomicLemmas
  GraphAtomicProofs GraphAcyclicProofs PyRtMut PyRtAdd MutGenAdd.
From Coq Require Import Permutation.

Lemma set_entry_absent s d x es : find_edge s d es = None -> set_entry s d x es = es ++ [x].
Proof.
  induction es as [|y es IH]; simpl; [reflexivity|].
  destruct (name_eqb s (esrc y) && name_eqb d (edst y)); [discriminate|].
  intros H. rewrite (IH H). reflexivity.
Qed.

Lemma inv_dst_absent parse k g s d :
  Inv parse k g -> find_edge s d (gsrc g) = None -> find_edge s d (gdst g) = None.
Proof.
  intros I H. destruct (find_edge s d (gdst g)) as [e|] eqn:E; [|reflexivity].
  apply find_edge_some in E. destruct E as (Hin & Hs & Hd).
  apply (Permutation_in _ (inv_mirror I)) in Hin.
  apply (proj1 (GraphLemmas.find_edge_none s d (gsrc g))) in H. exfalso. apply H.
  replace (s, d) with (edge_key e) by (unfold edge_key; rewrite Hs, Hd; reflexivity).
  apply in_map. exact Hin.
Qed.

Lemma find_node_update_some f id x ns n :
  (forall m, nid (f m) = nid m) ->
  find_node x ns = Some n -> exists n', find_node x (update_node f id ns) = Some n'.
Proof.
  intros Hf. unfold update_node. induction ns as [|a ns IH]; simpl; [discriminate|].
  destruct (name_eqb id (nid a)); [rewrite Hf|];
    (destruct (name_eqb x (nid a)); [intros _; eexists; reflexivity|exact IH]).
Qed.

Lemma node_exists_get g x : node_exists g x = true -> exists n, get_node g x = Some n.
Proof. unfold node_exists. destruct (get_node g x) as [n|]; [exists n; reflexivity|discriminate]. Qed.

(** * _set_edge: for ALL graphs (under the invariant, end points present -- which is what the caller add_edge has
    established and what the Python indexing [_nodes_by_identifier[..]] needs), Edge objects and flags *)
Theorem gen__set_edge_eq parse k g eo v :
  Inv parse k g ->
  node_exists g (fst (eo_source eo)) = true -> node_exists g (fst (eo_destination eo)) = true ->
  mut_res (gen__set_edge g eo v)
  = lift g (set_edge g (fst (eo_source eo)) (fst (eo_destination eo)) (eo_type eo) (eo_meta eo) v).
Proof.
  intros I Hs Hd.
  unfold gen__set_edge, set_edge, py_nl_identifier, py_eo_source, py_eo_destination, py_src_get, py_opt_is_None,
    edge_at.
  set (s := fst (eo_source eo)) in *. set (d := fst (eo_destination eo)) in *.
  destruct (find_edge s d (gsrc g)) eqn:E1; simpl; [reflexivity|].
  destruct (find_edge d s (gsrc g)) eqn:E2; simpl; [reflexivity|].
  pose proof (inv_dst_absent parse k g s d I E1) as E1'.
  rewrite (set_entry_absent _ _ _ _ E1), (set_entry_absent _ _ _ _ E1').
  set (e := {| esrc := s; edst := d; ety := eo_type eo; emeta := eo_meta eo |}).
  assert (Hins : forall R (kont : unit -> graph -> pymut R),
     mu_bind (if etype_eqb (py_eo_type eo) Dir
              then mu_bind (py_add_inbound
                     {| gnodes := gnodes g; gsrc := gsrc g ++ [mk_entry s d eo]; gdst := gdst g ++ [mk_entry s d eo];
                        gmeta := gmeta g; glag := glag g; gvar := gvar g |} d eo)
                     (fun _ g' => mu_bind (py_add_outbound g' s eo) (fun _ g'' => mu_ret g'' tt))
              else mu_ret {| gnodes := gnodes g; gsrc := gsrc g ++ [mk_entry s d eo];
                             gdst := gdst g ++ [mk_entry s d eo];
                             gmeta := gmeta g; glag := glag g; gvar := gvar g |} tt) kont
     = kont tt (insert_edge g e)).
  { intros R kont. unfold insert_edge, py_eo_type, mk_entry. fold e. cbn [ety esrc edst e].
    destruct (etype_eqb (eo_type eo) Dir); [|reflexivity].
    destruct (node_exists_get _ _ Hd) as (nd & Gd). destruct (node_exists_get _ _ Hs) as (ns & Gs).
    unfold py_add_inbound, get_node. cbn [gnodes]. unfold get_node in Gd, Gs. rewrite Gd.
    unfold mu_bind at 2. unfold py_add_outbound, get_node, set_nodes. cbn [gnodes].
    destruct (find_node_update_some
                (fun n => {| nid := nid n; nvt := nvt n; nmeta := nmeta n; ninb := ninb n ++ [fst (eo_source eo)];
                             noutb := noutb n |}) d s (gnodes g) ns (fun m => eq_refl) Gs) as (n' & Gn').
    rewrite Gn'. reflexivity. }
  rewrite Hins. clear Hins.
  destruct v; [|reflexivity].
  assert (Hsin : In s (node_ids g)) by (apply at_node_exists_in; exact Hs).
  assert (Hdin : In d (node_ids g)) by (apply at_node_exists_in; exact Hd).
  assert (HCC : CCInv (insert_edge g e)) by (apply ccinv_insert_edge; [eapply inv_ccinv; exact I|exact Hsin]).
  assert (Hd1 : In d (node_ids (insert_edge g e))) by (rewrite insert_edge_ids; exact Hdin).
  destruct (depends_on_itself_spec HCC d Hd1) as (b & Hb & _).
  unfold py_assert_no_self_dep. rewrite Hb.
  destruct b; [|reflexivity].
  cbn [mu_bind mu_try_except err_eqb err_code N.eqb Pos.eqb]. unfold py_delete_edge.
  pose proof (at_insert_then_delete parse k g e I Hsin Hdin E1) as Hdel. cbn [esrc edst e] in Hdel.
  rewrite Hdel. reflexivity.
Qed.

(** * _prepare_nodes *)
(** kept for reference only (no theorem needs it any more): when the OBJECT comparison `source == destination` agrees
    with the comparison of identifiers *)
Definition nl_eq_ok (sp dp : endpoint) : Prop := py_nl_eq sp dp = name_eqb (fst sp) (fst dp).

Lemma ep_add_eq parse k g p :
  node_exists g (fst p) = false ->
  (if py_isinstance_node p
   then mu_bind (py_add_node_node parse k g p) (fun _ g' => mu_ret g' tt)
   else mu_bind (py_add_node_id parse k g p (if py_isinstance_hasmeta p then Some (py_nl_metadata p) else None))
          (fun _ g' => mu_ret g' tt))
  = match add_endpoint parse k g p with Ok g' => (Ret tt, g') | Err x => (Exc x, g) end.
Proof.
  intros H. destruct p as [x [[vt m]|]];
    unfold py_isinstance_hasmeta, py_isinstance_node, py_add_node_node, py_add_node_id, add_endpoint;
    cbn [fst snd] in *; rewrite H.
  - destruct (add_node_obj parse k g x vt m); reflexivity.
  - destruct (add_node_id parse k g x VUnspec None); reflexivity.
Qed.

Lemma add_endpoint_exists parse k g p : node_exists g (fst p) = true -> add_endpoint parse k g p = Ok g.
Proof. intros H. unfold add_endpoint. rewrite H. reflexivity. Qed.

Lemma add_endpoint_get parse k g s os g1 :
  add_endpoint parse k g (s, os) = Ok g1 -> exists sn, get_node g1 s = Some sn /\ nid sn = s.
Proof.
  intros A. apply at_add_endpoint_ok in A.
  destruct A as [[Hs ->]|(Hs & n & ls & vs & Hn & _ & _ & _ & -> & _)].
  - destruct (node_exists_get _ _ Hs) as (sn & G). exists sn. split; [exact G|].
    apply at_find_node_some in G. apply G.
  - subst s. exists n. split; [|reflexivity]. apply at_get_node_ext_new. exact Hs.
Qed.

Lemma add_endpoint_other parse k g s os g1 d :
  add_endpoint parse k g (s, os) = Ok g1 -> s <> d ->
  node_exists g1 d = node_exists g d
  /\ (forall n, get_node g d = Some n -> get_node g1 d = Some n).
Proof.
  intros A Hne. apply at_add_endpoint_ok in A.
  destruct A as [[Hs ->]|(Hs & n & ls & vs & Hn & _ & _ & _ & -> & _)]; [split; auto|].
  split.
  - rewrite at_node_exists_ext. cbn [find_node]. rewrite Hn.
    destruct (name_eqb_spec d s) as [E|E]; [congruence|]. apply orb_false_r.
  - intros m G. unfold get_node, ext in *. cbn [gnodes]. rewrite at_find_node_app, G. reflexivity.
Qed.

(** the literal order of the Python: both node lists and the edge list are read BEFORE anything is added *)
Lemma gen__prepare_nodes_spec parse k g sp dp :
  let s := fst sp in let d := fst dp in
  if name_eqb s d then gen__prepare_nodes parse k g sp dp = (Exc ECyclic, g)
  else match add_endpoint parse k g sp with
       | Err x => gen__prepare_nodes parse k g sp dp = (Exc x, g)
       | Ok g1 =>
           match add_endpoint parse k g1 dp with
           | Err x => gen__prepare_nodes parse k g sp dp = (Exc x, g1)
           | Ok g2 =>
               if match edge_at g s d with Some _ => true | None => false end
               then gen__prepare_nodes parse k g sp dp = (Exc EEdgeDup, g2)
               else exists sn dn, gen__prepare_nodes parse k g sp dp = (Ret (sn, dn), g2)
                                  /\ nid sn = s /\ nid dn = d
           end
       end.
Proof.
  intros s d. unfold gen__prepare_nodes.
  assert (Hnorm : forall (p : endpoint) R (kont : endpoint -> graph -> pymut R),
    mu_bind (if negb (py_isinstance_node p)
             then let v := py_nl_identifier p in mu_ret g (py_nl_of_str v) else mu_ret g p) kont = kont p g).
  { intros [x [[vt m]|]] R kont; reflexivity. }
  rewrite Hnorm, Hnorm. clear Hnorm.
  (* the self-loop test compares IDENTIFIERS: identifier_from(source) == identifier_from(destination) *)
  change (py_nl_eq (py_nl_of_str (py_nl_identifier sp)) (py_nl_of_str (py_nl_identifier dp)))
    with (name_eqb (fst sp) (fst dp)). fold s d.
  destruct (name_eqb_spec s d) as [Esd|Nsd]; [reflexivity|].
  unfold py_get_nodes_nl, py_get_nodes, py_get_edges_nl, py_get_edges_sd, py_len. fold s d.
  (* the source *)
  destruct (get_node g s) as [sn0|] eqn:Gs.
  - (* exists *)
    assert (Xs : node_exists g s = true) by (unfold node_exists; rewrite Gs; reflexivity).
    rewrite (add_endpoint_exists parse k g sp Xs). cbn [length Nat.eqb negb mu_bind mu_ret].
    destruct (get_node g d) as [dn0|] eqn:Gd.
    + assert (Xd : node_exists g d = true) by (unfold node_exists; rewrite Gd; reflexivity).
      rewrite (add_endpoint_exists parse k g dp Xd). cbn [length Nat.eqb negb mu_bind mu_ret].
      destruct (edge_at g s d) as [e|]; cbn [length Nat.eqb negb]; [reflexivity|].
      exists sn0, dn0. split; [reflexivity|].
      apply at_find_node_some in Gs. apply at_find_node_some in Gd. split; [apply Gs|apply Gd].
    + assert (Xd : node_exists g d = false) by (unfold node_exists; rewrite Gd; reflexivity).
      cbn [length Nat.eqb negb].
      rewrite (ep_add_eq parse k g dp Xd).
      destruct (add_endpoint parse k g dp) as [g2|x] eqn:A2; cbn [mu_bind mu_ret]; [|reflexivity].
      destruct dp as [d' od]. cbn [fst] in *. subst d.
      destruct (add_endpoint_get _ _ _ _ _ _ A2) as (dn & Gdn & Hdn). rewrite Gdn.
      destruct (edge_at g s d') as [e|]; cbn [length Nat.eqb negb]; [reflexivity|].
      exists sn0, dn. split; [reflexivity|]. apply at_find_node_some in Gs. split; [apply Gs|exact Hdn].
  - assert (Xs : node_exists g s = false) by (unfold node_exists; rewrite Gs; reflexivity).
    cbn [length Nat.eqb negb].
    rewrite (ep_add_eq parse k g sp Xs).
    destruct (add_endpoint parse k g sp) as [g1|x] eqn:A1; cbn [mu_bind mu_ret]; [|reflexivity].
    destruct sp as [s' os]. cbn [fst] in *. subst s.
    destruct (add_endpoint_get _ _ _ _ _ _ A1) as (sn & Gsn & Hsn). rewrite Gsn.
    destruct (add_endpoint_other _ _ _ _ _ _ d A1 Nsd) as (Xd1 & Gd1).
    destruct (get_node g d) as [dn0|] eqn:Gd.
    + assert (Xd : node_exists g1 d = true) by (rewrite Xd1; unfold node_exists; rewrite Gd; reflexivity).
      rewrite (add_endpoint_exists parse k g1 dp Xd). cbn [length Nat.eqb negb mu_bind mu_ret].
      destruct (edge_at g s' d) as [e|]; cbn [length Nat.eqb negb]; [reflexivity|].
      exists sn, dn0. split; [reflexivity|]. apply at_find_node_some in Gd. split; [exact Hsn|apply Gd].
    + assert (Xd : node_exists g1 d = false) by (rewrite Xd1; unfold node_exists; rewrite Gd; reflexivity).
      cbn [length Nat.eqb negb].
      rewrite (ep_add_eq parse k g1 dp Xd).
      destruct (add_endpoint parse k g1 dp) as [g2|x] eqn:A2; cbn [mu_bind mu_ret]; [|reflexivity].
      destruct dp as [d' od]. cbn [fst] in *. subst d.
      destruct (add_endpoint_get _ _ _ _ _ _ A2) as (dn & Gdn & Hdn). rewrite Gdn.
      destruct (edge_at g s' d') as [e|]; cbn [length Nat.eqb negb]; [reflexivity|].
      exists sn, dn. split; [reflexivity|]. split; [exact Hsn|exact Hdn].
Qed.

(** * add_edge *)
Lemma mut_res_bind_ret (o : pymut unit) :
  mut_res (mu_bind o (fun _ g' => mu_ret g' tt)) = mut_res o.
Proof. destruct o as [[[]|x] g']; reflexivity. Qed.

(** the body of the try block *)
Definition gen_try_body parse k (g : graph) (sp dp : endpoint) (ty : etype) (m : option meta) (v : bool)
  : pymut unit :=
  mu_bind (gen__prepare_nodes parse k g sp dp) (fun '(sn, dn) g' =>
  mu_pure g' (py_mk_edge k g' sn dn ty) (fun e =>
  mu_bind (match m with
           | Some m' => let e' := py_eo_set_meta e m' in mu_ret g' e'
           | None => mu_ret g' e
           end) (fun e g'' =>
  mu_bind (gen__set_edge g'' e v) (fun _ g3 => mu_ret g3 tt)))).

Lemma gen_try_body_eq parse k g sp dp ty m v :
  Inv parse k g ->
  mut_res (gen_try_body parse k g sp dp ty m v) = add_edge_try parse k g sp dp ty m v.
Proof.
  intros I. unfold gen_try_body, add_edge_try.
  pose proof (gen__prepare_nodes_spec parse k g sp dp) as S. cbv zeta in S.
  destruct (name_eqb_spec (fst sp) (fst dp)) as [Esd|Nsd]; [rewrite S; reflexivity|].
  destruct (add_endpoint parse k g sp) as [g1|x] eqn:A1; [|rewrite S; reflexivity].
  destruct (add_endpoint parse k g1 dp) as [g2|x] eqn:A2; [|rewrite S; reflexivity].
  destruct (match edge_at g (fst sp) (fst dp) with Some _ => true | None => false end);
    [rewrite S; reflexivity|].
  destruct S as (sn & dn & -> & Hsn & Hdn). cbn [mu_bind].
  destruct (add_endpoint_ok parse k g sp g1 I A1) as (I1 & Hs1 & Hincl1).
  destruct (add_endpoint_ok parse k g1 dp g2 I1 A2) as (I2 & Hd2 & Hincl2).
  assert (Xs : node_exists g2 (fst sp) = true) by (apply at_node_exists_in, Hincl2, Hs1).
  assert (Xd : node_exists g2 (fst dp) = true) by (apply at_node_exists_in, Hd2).
  unfold py_mk_edge. rewrite Hsn, Hdn.
  destruct (orient k g2 (fst sp) (fst dp) ty) as [[s' d']|x] eqn:Eo; [|reflexivity].
  set (m' := match m with Some x => x | None => [] end).
  assert (Hgoal : forall eo, fst (eo_source eo) = s' -> fst (eo_destination eo) = d' -> eo_type eo = ty ->
            eo_meta eo = [] ->
            mut_res (mu_pure g2 (Ret eo) (fun e =>
              mu_bind (match m with
                       | Some m'0 => let e' := py_eo_set_meta e m'0 in mu_ret g2 e'
                       | None => mu_ret g2 e end)
                (fun e g'' => mu_bind (gen__set_edge g'' e v) (fun _ g3 => mu_ret g3 tt))))
            = match set_edge g2 s' d' ty m' v with Err e => (Err e, g2) | Ok g3 => (Ok g3, g3) end).
  { intros eo H1 H2 H3 H4. cbn [mu_pure].
    assert (Hset : forall eo', fst (eo_source eo') = s' -> fst (eo_destination eo') = d' -> eo_type eo' = ty ->
               eo_meta eo' = m' ->
               mut_res (mu_bind (gen__set_edge g2 eo' v) (fun _ g3 => mu_ret g3 tt))
               = match set_edge g2 s' d' ty m' v with Err e => (Err e, g2) | Ok g3 => (Ok g3, g3) end).
    { intros eo' E1 E2 E3 E4. rewrite mut_res_bind_ret.
      destruct (orient_ok _ _ _ _ _ _ _ Eo) as [[-> ->]|(_ & -> & ->)].
      - rewrite (gen__set_edge_eq parse k g2 eo' v I2); [|rewrite E1; exact Xs|rewrite E2; exact Xd].
        rewrite E1, E2, E3, E4. destruct (set_edge g2 (fst sp) (fst dp) ty m' v); reflexivity.
      - rewrite (gen__set_edge_eq parse k g2 eo' v I2); [|rewrite E1; exact Xd|rewrite E2; exact Xs].
        rewrite E1, E2, E3, E4. destruct (set_edge g2 (fst dp) (fst sp) ty m' v); reflexivity. }
    destruct m as [mm|]; cbn [mu_bind mu_ret]; apply Hset; cbn; first [assumption|reflexivity|exact H4]. }
  destruct (orient_ok _ _ _ _ _ _ _ Eo) as [[-> ->]|(_ & -> & ->)].
  - rewrite name_eqb_refl. apply Hgoal; cbn; auto.
  - destruct (name_eqb_spec (fst dp) (fst sp)) as [E|E]; [exfalso; apply Nsd; congruence|].
    apply Hgoal; cbn; auto.
Qed.

(** the except handler: the translated loop deletes exactly what the model's clean-up deletes; the model swallows a
    failing delete_node, the Python would raise from the handler -- under the invariant no delete_node fails there *)
Fixpoint cleanup_strict (k : kind) (imp : list name) (gl : graph) : option graph :=
  match imp with
  | [] => Some gl
  | id :: imp' =>
      if node_exists gl id
      then match delete_node k gl id with Ok a => cleanup_strict k imp' a | Err _ => None end
      else cleanup_strict k imp' gl
  end.

Definition gen_handler (k : kind) (imp : list endpoint) (gl : graph) : pymut unit :=
  mu_for imp gl (fun v_node v_self =>
      if py_node_exists_nl v_self v_node
      then mu_bind (py_delete_node k v_self v_node) (fun _ v_self => mu_ret v_self tt)
      else mu_ret v_self tt) (fun v_self => mu_ret v_self tt).

Lemma strict_gen k imp : forall gl g',
  cleanup_strict k (map fst imp) gl = Some g' ->
  gen_handler k imp gl = (Ret tt, g') /\ cleanup k (map fst imp) gl = g'.
Proof.
  unfold gen_handler, cleanup.
  induction imp as [|p imp IH]; intros gl g'; cbn [map cleanup_strict mu_for fold_left].
  - intros [= <-]. split; reflexivity.
  - unfold py_node_exists_nl, py_delete_node. destruct (node_exists gl (fst p)).
    + destruct (delete_node k gl (fst p)) as [a|x]; [|discriminate]. cbn [mu_bind mu_ret]. apply IH.
    + cbn [mu_ret]. apply IH.
Qed.

Lemma strict_absent k imp g :
  (forall id, In id imp -> node_exists g id = false) -> cleanup_strict k imp g = Some g.
Proof.
  induction imp as [|id imp IH]; intros H; cbn [cleanup_strict]; [reflexivity|].
  rewrite (H id (or_introl eq_refl)). apply IH. intros x Hx; apply H; right; exact Hx.
Qed.

Lemma strict_fail parse k g sp dp ty m v e gl :
  WInv k g -> add_edge_try parse k g sp dp ty m v = (Err e, gl) ->
  cleanup_strict k (filter (fun id => negb (node_exists g id)) [fst sp; fst dp]) gl = Some g.
Proof.
  intros W T. destruct sp as [s os], dp as [d od]. cbn [fst]. apply at_try_fail in T.
  set (imp := filter (fun id => negb (node_exists g id)) [s; d]).
  assert (Habs : cleanup_strict k imp g = Some g) by (apply strict_absent; apply at_implicit_absent).
  destruct T as [->|(Hne & g1 & A1 & T)]; [exact Habs|].
  apply at_add_endpoint_ok in A1.
  destruct A1 as [[Hs ->]|(Hs & ns & ls & vs & Hns & _ & _ & His & -> & _)].
  - destruct T as [->|(g2 & A2 & ->)]; [exact Habs|].
    apply at_add_endpoint_ok in A2.
    destruct A2 as [[Hd ->]|(Hd & nd & ld & vd & Hnd & _ & _ & Hid & -> & _)]; [exact Habs|].
    subst d imp. cbn [filter]. rewrite Hs, Hd. cbn [negb cleanup_strict].
    rewrite at_node_exists_ext. simpl find_node. rewrite name_eqb_refl, orb_true_r.
    rewrite <- (app_nil_r ld), <- (app_nil_r vd).
    rewrite at_delete_added; try assumption.
    + rewrite at_ext_nil. reflexivity.
    + intros n2 [].
  - subst s.
    assert (Hdel_s : forall post lpost vpost rest,
               (forall n2, In n2 post -> nid n2 <> nid ns) ->
               cleanup_strict k (nid ns :: rest) (ext g (ns :: post) (ls ++ lpost) (vs ++ vpost))
               = cleanup_strict k rest (ext g post lpost vpost)).
    { intros post lpost vpost rest Hpost. cbn [cleanup_strict].
      rewrite at_node_exists_ext. simpl find_node. rewrite name_eqb_refl, orb_true_r.
      rewrite at_delete_added; try assumption; reflexivity. }
    assert (Hgl1 : cleanup_strict k imp (ext g [ns] ls vs) = Some g).
    { subst imp. cbn [filter]. rewrite Hs. cbn [negb].
      rewrite <- (app_nil_r ls), <- (app_nil_r vs).
      rewrite Hdel_s; [|intros n2 []]. rewrite at_ext_nil.
      apply strict_absent. intros id Hid.
      destruct (node_exists g d) eqn:Hd0; simpl in Hid; [contradiction|].
      destruct Hid as [<-|[]]; exact Hd0. }
    destruct T as [->|(g2 & A2 & ->)]; [exact Hgl1|].
    apply at_add_endpoint_ok in A2.
    destruct A2 as [[Hd ->]|(Hd & nd & ld & vd & Hnd & _ & _ & Hid & -> & _)]; [exact Hgl1|].
    rewrite at_ext_ext. subst d.
    assert (Hd' : node_exists g (nid nd) = false).
    { rewrite at_node_exists_ext in Hd. apply orb_false_iff in Hd. apply Hd. }
    subst imp. cbn [filter]. rewrite Hs, Hd'. cbn [negb]. simpl app.
    rewrite Hdel_s.
    2:{ intros n2 [<-|[]]. congruence. }
    cbn [cleanup_strict]. rewrite at_node_exists_ext. simpl find_node.
    rewrite name_eqb_refl, orb_true_r.
    rewrite <- (app_nil_r ld), <- (app_nil_r vd).
    rewrite at_delete_added; try assumption.
    + rewrite at_ext_nil. reflexivity.
    + intros n2 [].
Qed.

(** ** the main equality: identifier / Node-object / MIXED forms, for ALL graphs and arguments under the invariant only.
    (Version for the repaired library: _prepare_nodes compares identifier_from(source) == identifier_from(destination),
    so the mixed self-loop call add_edge(Node('a'), 'a') is a CyclicConnectionError with nothing created, as in the hand
    model; the former premise [nl_eq_ok sp dp] is gone.) *)
Theorem gen_add_edge_eq parse k g sp dp ty m v :
  Inv parse k g ->
  mut_res (gen_add_edge parse k g (Some sp) (Some dp) ty m None v) = add_edge parse k g sp dp ty m v.
Proof.
  intros I. unfold gen_add_edge. cbn [mu_bind mu_ret]. rewrite at_add_edge_unfold.
  fold (gen_try_body parse k g sp dp ty m v).
  pose proof (gen_try_body_eq parse k g sp dp ty m v I) as HT.
  rewrite map_id.
  change (filter (fun v_node => negb (py_node_exists_nl g v_node)) [sp; dp])
    with (filter (fun p => negb (node_exists g (fst p))) [sp; dp]).
  set (impl := filter (fun p => negb (node_exists g (fst p))) [sp; dp]).
  assert (Himp : filter (fun id => negb (node_exists g id)) [fst sp; fst dp] = map fst impl).
  { subst impl. cbn [filter map].
    destruct (node_exists g (fst sp)), (node_exists g (fst dp)); reflexivity. }
  fold (gen_handler k impl).
  destruct (gen_try_body parse k g sp dp ty m v) as [[[]|x] gl] eqn:B; cbn [mut_res] in HT;
    rewrite <- HT; cbn [mu_try_reraise mu_bind mu_ret mut_res]; [reflexivity|].
  pose proof (strict_fail parse k g sp dp ty m v x gl (at_inv_winv parse k g I) (eq_sym HT)) as HS.
  rewrite Himp in HS |- *. destruct (strict_gen k impl gl g HS) as [-> ->]. reflexivity.
Qed.

(** the Edge-object form add_edge(edge=e) is, by the translated code itself, the Node-object form *)
Theorem gen_add_edge_edgeobj parse k g eo v :
  gen_add_edge parse k g None None Dir None (Some eo) v
  = gen_add_edge parse k g (Some (eo_source eo)) (Some (eo_destination eo)) (eo_type eo) (Some (eo_meta eo)) None v.
Proof. reflexivity. Qed.

Theorem gen_add_edge_edgeobj_eq parse k g eo v :
  Inv parse k g ->
  mut_res (gen_add_edge parse k g None None Dir None (Some eo) v)
  = add_edge parse k g (eo_source eo) (eo_destination eo) (eo_type eo) (Some (eo_meta eo)) v.
Proof. intros I. rewrite gen_add_edge_edgeobj. apply gen_add_edge_eq; assumption. Qed.

(** the argument checks of add_edge: the Edge-object form refuses any other argument, the other form needs both end
    points (AssertionError, nothing touched) *)
Theorem gen_add_edge_edgeobj_assert parse k g os od ty om eo v :
  (os <> None \/ od <> None \/ ty <> Dir \/ om <> None) ->
  gen_add_edge parse k g os od ty om (Some eo) v = (Exc EAssert, g).
Proof.
  intros H. unfold gen_add_edge.
  destruct os; [reflexivity|]. destruct od; [reflexivity|].
  destruct (etype_eqb_spec ty Dir) as [->|N].
  - destruct om; [reflexivity|]. exfalso. destruct H as [H|[H|[H|H]]]; apply H; reflexivity.
  - cbn [py_opt_is_None mu_bind]. destruct ty; try reflexivity; exfalso; apply N; reflexivity.
Qed.

Theorem gen_add_edge_missing_endpoint parse k g os od ty om v :
  (os = None \/ od = None) -> gen_add_edge parse k g os od ty om None v = (Exc EAssert, g).
Proof. intros [->| ->]; [|destruct os]; reflexivity. Qed.

(** * add_node (base class; the time-series class overrides add_node, so these are for [Plain]) *)
Theorem gen_add_node_id_eq parse g id vt m :
  mut_res (gen_add_node parse Plain g (Some (str_ep id)) vt m None) = lift g (add_node_id parse Plain g id vt m).
Proof.
  unfold gen_add_node, add_node_id, py_check_node_exists, str_ep. cbn [mu_bind mu_ret fst mu_pure].
  destruct (node_exists g id) eqn:X; [reflexivity|]. cbn [mu_pure].
  unfold py_mk_node, py_opt_default, mk_node. cbn [mu_pure bind mu_bind py_nodes_set].
  unfold py_nodes_set. rewrite X. destruct m; reflexivity.
Qed.

(** identifier given as a Node object: add_node(Node(..)) keeps only the identifier *)
Theorem gen_add_node_id_nodeobj_eq parse g id vt0 m0 vt m :
  mut_res (gen_add_node parse Plain g (Some (id, Some (vt0, m0))) vt m None) = lift g (add_node_id parse Plain g id vt m).
Proof.
  unfold gen_add_node, add_node_id, py_check_node_exists. cbn [mu_bind mu_ret fst mu_pure].
  destruct (node_exists g id) eqn:X; [reflexivity|]. cbn [mu_pure].
  unfold py_mk_node, py_opt_default, mk_node. cbn [mu_pure bind mu_bind py_nodes_set].
  unfold py_nodes_set. rewrite X. destruct m; reflexivity.
Qed.

Theorem gen_add_node_obj_eq parse g id vt m :
  mut_res (gen_add_node parse Plain g None VUnspec None (Some (id, Some (vt, m))))
  = lift g (add_node_obj parse Plain g id vt m).
Proof.
  unfold gen_add_node, add_node_obj, py_check_node_exists. cbn [mu_bind mu_ret fst snd mu_pure py_opt_is_None vtype_eqb
    py_nl_identifier py_nl_of_str py_nl_vtype py_nl_metadata py_deepcopy].
  destruct (node_exists g id) eqn:X; [reflexivity|]. cbn [mu_pure].
  unfold py_mk_node, py_opt_default, mk_node, idx_add. cbn [mu_pure bind mu_bind].
  unfold py_nodes_set. rewrite X. reflexivity.
Qed.

(** argument checks of add_node *)
Theorem gen_add_node_asserts parse k g oid vt om p :
  (oid <> None \/ vt <> VUnspec \/ om <> None) ->
  gen_add_node parse k g oid vt om (Some p) = (Exc EAssert, g).
Proof.
  intros H. unfold gen_add_node. destruct oid; [reflexivity|].
  destruct (vtype_eqb_spec vt VUnspec) as [->|N].
  - destruct om; [reflexivity|]. exfalso. destruct H as [H|[H|H]]; apply H; reflexivity.
  - cbn [py_opt_is_None mu_bind]. destruct vt; try reflexivity; exfalso; apply N; reflexivity.
Qed.
Theorem gen_add_node_missing parse k g vt om : gen_add_node parse k g None vt om None = (Exc EAssert, g).
Proof. reflexivity. Qed.

(** the two rows of the table through which _prepare_nodes calls add_node ARE the generated add_node (Plain) *)
Theorem py_add_node_node_is_gen parse g id vt m :
  py_add_node_node parse Plain g (id, Some (vt, m)) = gen_add_node parse Plain g None VUnspec None (Some (id, Some (vt, m))).
Proof.
  pose proof (gen_add_node_obj_eq parse g id vt m) as H. unfold py_add_node_node. cbn [fst snd].
  destruct (gen_add_node parse Plain g None VUnspec None (Some (id, Some (vt, m)))) as [[[]|x] g'];
    destruct (add_node_obj parse Plain g id vt m); cbn in H; inversion H; reflexivity.
Qed.
Theorem py_add_node_id_is_gen parse g p om :
  py_add_node_id parse Plain g p om = gen_add_node parse Plain g (Some p) VUnspec om None.
Proof.
  unfold py_add_node_id.
  set (G := gen_add_node parse Plain g (Some p) VUnspec om None).
  assert (H : mut_res G = lift g (add_node_id parse Plain g (fst p) VUnspec om)).
  { subst G. destruct p as [id [[vt0 m0]|]]; [apply gen_add_node_id_nodeobj_eq|apply gen_add_node_id_eq]. }
  clearbody G. destruct G as [[[]|x] g'];
    destruct (add_node_id parse Plain g (fst p) VUnspec om); cbn in H; inversion H; reflexivity.
Qed.

(** * Transfer of the property theorems to the generated code *)
Lemma mut_res_snd' {R} (o : pymut R) : snd (mut_res o) = snd o.
Proof. destruct o as [[r|x] g]; reflexivity. Qed.
Lemma mut_res_fst_err {R} (o : pymut R) e : fst (mut_res o) = Err e <-> fst o = Exc e.
Proof. destruct o as [[r|x] g]; simpl; split; intros H; try discriminate; inversion H; reflexivity. Qed.
Lemma mut_res_fst_ok {R} (o : pymut R) : (exists g', fst (mut_res o) = Ok g') <-> (exists r, fst o = Ret r).
Proof.
  destruct o as [[r|x] g]; simpl; split; intros [y H]; try discriminate; eexists; reflexivity.
Qed.

Section Transfer.
  Variable parse : name -> option (name * Z).
  Variable fmt : name -> Z -> option name.

  (** C02 (from GraphAcyclicProofs.acyclic_step): a VALIDATED generated add_edge on an acyclic state leaves an
      acyclic state -- whether it accepts or rejects the edge *)
  Theorem gen_add_edge_acyclic k g sp dp ty m :
    Inv parse k g -> Acyclic g ->
    Acyclic (snd (gen_add_edge parse k g (Some sp) (Some dp) ty m None true)).
  Proof.
    intros I Hac. rewrite <- mut_res_snd', (gen_add_edge_eq parse k g sp dp ty m true I).
    exact (acyclic_step parse fmt k g (OAddEdge sp dp ty m true) I Hac eq_refl).
  Qed.

  (** C02 (from GraphAcyclicProofs.add_edge_cyclic_iff): the generated validated directed add raises
      CyclicConnectionError exactly when the edge would close a directed cycle, and accepts otherwise *)
  Theorem gen_add_edge_cyclic_iff k g s d m :
    Inv parse k g -> Acyclic g -> In s (node_ids g) -> In d (node_ids g) ->
    edge_at g s d = None -> edge_at g d s = None -> s <> d ->
    (k = TS -> exists ls ld, node_lag g s = Some ls /\ node_lag g d = Some ld /\ (ls <= ld)%Z) ->
    (fst (gen_add_edge parse k g (Some (str_ep s)) (Some (str_ep d)) Dir m None true) = Exc ECyclic
       <-> path (dgraph g) d s)
    /\ ((exists r, fst (gen_add_edge parse k g (Some (str_ep s)) (Some (str_ep d)) Dir m None true) = Ret r)
       <-> ~ path (dgraph g) d s).
  Proof.
    intros I Hac Hs Hd Hsd Hds Hne Hts.
    destruct (add_edge_cyclic_iff parse fmt k g s d m I Hac Hs Hd Hsd Hds Hne Hts) as [H1 H2].
    unfold outcome, run_op in H1, H2.
    rewrite <- (gen_add_edge_eq parse k g (str_ep s) (str_ep d) Dir m true I) in H1, H2.
    split.
    - rewrite <- H1, <- mut_res_fst_err.
      destruct (fst (mut_res _)) as [g'|x]; split; intros H; try discriminate; congruence.
    - rewrite <- H2, <- mut_res_fst_ok.
      destruct (fst (mut_res _)) as [g'|x]; split; intros H; try reflexivity; try discriminate.
      + eexists; reflexivity.
      + destruct H as [g' H]; discriminate.
  Qed.

  (** C01 / C03 (from GraphAtomicProofs.at_add_edge_fail): a FAILING generated add_edge leaves the graph literally
      as it was -- no edge, no implicitly created node left behind *)
  Theorem gen_add_edge_failed_exact k g sp dp ty m v e :
    Inv parse k g ->
    fst (gen_add_edge parse k g (Some sp) (Some dp) ty m None v) = Exc e ->
    snd (gen_add_edge parse k g (Some sp) (Some dp) ty m None v) = g.
  Proof.
    intros I H. apply mut_res_fst_err in H. rewrite <- mut_res_snd'.
    rewrite (gen_add_edge_eq parse k g sp dp ty m v I) in H |- *.
    destruct (add_edge parse k g sp dp ty m v) as [[g'|x] gl] eqn:A; simpl in H; [discriminate|].
    simpl. eapply (at_add_edge_fail parse); [apply (at_inv_winv parse), I|exact A].
  Qed.

  (** ... hence every observation is unchanged (GraphAtomicProofs.failed_step_noop for the generated code) *)
  Theorem gen_add_edge_failed_noop k g sp dp ty m v e pool lags vars :
    Inv parse k g ->
    fst (gen_add_edge parse k g (Some sp) (Some dp) ty m None v) = Exc e ->
    observe parse k (snd (gen_add_edge parse k g (Some sp) (Some dp) ty m None v)) pool lags vars
    = observe parse k g pool lags vars.
  Proof. intros I H. rewrite (gen_add_edge_failed_exact k g sp dp ty m v e I H). reflexivity. Qed.

  (** [run_op] with add_edge executed by the generated code *)
  Theorem gen_run_op_add_edge_eq k g sp dp ty m v :
    Inv parse k g ->
    mut_res (gen_add_edge parse k g (Some sp) (Some dp) ty m None v)
    = run_op parse fmt k g (OAddEdge sp dp ty m v).
  Proof. intros I. rewrite gen_add_edge_eq by assumption. reflexivity. Qed.
End Transfer.

Print Assumptions gen__set_edge_eq.
Print Assumptions gen_add_edge_eq.
Print Assumptions gen_add_edge_edgeobj_eq.
Print Assumptions gen_add_edge_acyclic.
Print Assumptions gen_add_edge_cyclic_iff.
Print Assumptions gen_add_edge_failed_exact.
Print Assumptions gen_add_edge_failed_noop.
Print Assumptions gen_add_edge_edgeobj_assert.
Print Assumptions gen_add_edge_missing_endpoint.
Print Assumptions gen_add_node_id_eq.
Print Assumptions gen_add_node_obj_eq.
Print Assumptions py_add_node_node_is_gen.
Print Assumptions py_add_node_id_is_gen.
