(** IdentifyGenIMProofs.v — property C19: the functions of IdentifyGenIM.v, GENERATED from
    cai_causal_graph/identify_utils.py by /verif/tools/translate_identify.py
    ([identify_instruments], [identify_mediators]), compute the same sets as the hand-written model
    Identify.v, for every iteration order that is a permutation ([pyorder_ok]).

    IdentifyGenIM.v is regenerated from the Python source on every verification run; this file is
    NOT regenerated.  Both functions call [identify_confounders], so this file builds on
    IdentifyGenConfProofs.v ([gen_verify_ok], [gen_confounders_equiv]).

    - [gen_mediators_equiv]   [identify_mediators] = [mediators] when the enumeration of causal
                              paths has at most [max_num_paths + 1] elements;
      [gen_mediators_raises]  ValueError otherwise (the model ignores the limit);
    - [gen_instruments_equiv] [identify_instruments] = [instruments] under the guard
                              [gp_inst_guard]; [gen_instruments_raises]: ValueError otherwise;
    - [gen_im_equiv_le4]      both equivalences by exhaustive computation on all DAGs with at most
                              4 nodes, for two concrete iteration orders (a BOUNDED theorem). *)
From Coq Require Import Relations.Relation_Operators.
From CG Require Import Base Digraph DigraphProofs DSepProofs Identify IdentifyProofs InstrumentsGen PyRt
  IdentifyGenLemmas IdentifyGenConf IdentifyGenConfProofs IdentifyGenIM.
Set Implicit Arguments.

Section GenIMProofs.
  Variable A : Type.
  Variable eqb : A -> A -> bool.
  Hypothesis eqb_spec : forall x y, reflect (x = y) (eqb x y).
  (** the iteration-order oracle: ANY function that returns a permutation of its argument *)
  Variable ord : pyorder.
  Hypothesis ord_ok : pyorder_ok ord.
  Variables py_None py_empty_str : A.

  (** the shared lemmas and the results about [identify_confounders], at the parameters of this
      section *)
  Let gp_ord_in := @IdentifyGenLemmas.gp_ord_in ord ord_ok.
  Let gp_ord_nodup := @IdentifyGenLemmas.gp_ord_nodup ord ord_ok.
  Let gp_ord_length := @IdentifyGenLemmas.gp_ord_length ord ord_ok.
  Let gp_iter_set_in := @IdentifyGenLemmas.gp_iter_set_in ord ord_ok.
  Let gp_iter_set_nodup := @IdentifyGenLemmas.gp_iter_set_nodup ord ord_ok.
  Let gp_memb_in := @IdentifyGenLemmas.gp_memb_in A eqb eqb_spec.
  Let gp_memb_false := @IdentifyGenLemmas.gp_memb_false A eqb eqb_spec.
  Let gp_memb_seteq := @IdentifyGenLemmas.gp_memb_seteq A eqb eqb_spec.
  Let gp_set_of_in := @IdentifyGenLemmas.gp_set_of_in A eqb eqb_spec.
  Let gp_set_of_nodup := @IdentifyGenLemmas.gp_set_of_nodup A eqb eqb_spec.
  Let gp_set_add_in := @IdentifyGenLemmas.gp_set_add_in A eqb eqb_spec.
  Let gp_union_in := @IdentifyGenLemmas.gp_union_in A eqb eqb_spec.
  Let gp_inter_in := @IdentifyGenLemmas.gp_inter_in A eqb eqb_spec.
  Let gp_diff_in := @IdentifyGenLemmas.gp_diff_in A eqb eqb_spec.
  Let geq_anc := @IdentifyGenLemmas.geq_anc A eqb eqb_spec.
  Let geq_desc := @IdentifyGenLemmas.geq_desc A eqb eqb_spec.
  Let geq_del := @IdentifyGenLemmas.geq_del A eqb eqb_spec.
  Let geq_parents := @IdentifyGenLemmas.geq_parents A eqb eqb_spec.
  Let gp_del_arc_arc := @IdentifyGenLemmas.gp_del_arc_arc A eqb eqb_spec.
  Let gp_add_edge_arc := @IdentifyGenLemmas.gp_add_edge_arc A eqb eqb_spec.
  Let gp_add_edge_verts := @IdentifyGenLemmas.gp_add_edge_verts A eqb.
  Local Notation del_list := (@IdentifyGenLemmas.del_list A eqb).
  Let del_list_verts := @IdentifyGenLemmas.del_list_verts A eqb.
  Let del_list_arc := @IdentifyGenLemmas.del_list_arc A eqb eqb_spec.
  Let del_list_children := @IdentifyGenLemmas.del_list_children A eqb eqb_spec.
  Let gp_rm_loop_nx := @IdentifyGenLemmas.gp_rm_loop_nx A eqb eqb_spec.
  Let gp_rm_loop_cg := @IdentifyGenLemmas.gp_rm_loop_cg A eqb eqb_spec.
  Let gp_succ_nodup := @IdentifyGenLemmas.gp_succ_nodup A eqb eqb_spec ord ord_ok.
  Let gp_succ_in := @IdentifyGenLemmas.gp_succ_in A eqb eqb_spec ord ord_ok.
  Let gp_pred_in := @IdentifyGenLemmas.gp_pred_in A eqb eqb_spec ord ord_ok.
  Let gp_children_nodup := @IdentifyGenLemmas.gp_children_nodup A eqb eqb_spec ord ord_ok.
  Let gp_children_in := @IdentifyGenLemmas.gp_children_in A eqb eqb_spec ord ord_ok.
  Let gp_parents_in := @IdentifyGenLemmas.gp_parents_in A eqb eqb_spec ord ord_ok.
  Local Notation add_all := (@IdentifyGenLemmas.add_all A eqb).
  Let add_all_verts := @IdentifyGenLemmas.add_all_verts A eqb.
  Let add_all_arc := @IdentifyGenLemmas.add_all_arc A eqb eqb_spec.
  Let gp_collect_equiv := @IdentifyGenLemmas.gp_collect_equiv A eqb eqb_spec.
  Let gp_conf_search_geq := @IdentifyGenLemmas.gp_conf_search_geq A eqb eqb_spec.
  Let gp_filter_neq_in := @IdentifyGenLemmas.gp_filter_neq_in A eqb eqb_spec.
  Let gp_filter_loop := @IdentifyGenLemmas.gp_filter_loop A eqb eqb_spec.
  Let gp_filter_copy := @IdentifyGenLemmas.gp_filter_copy A eqb eqb_spec ord ord_ok.
  Let gp_filter_outer := @IdentifyGenLemmas.gp_filter_outer A eqb eqb_spec ord ord_ok.
  Let gp_forallb_ord := @IdentifyGenLemmas.gp_forallb_ord ord ord_ok.
  Let gp_med_paths_loop := @IdentifyGenLemmas.gp_med_paths_loop A eqb.
  Let gp_fold_inter_all := @IdentifyGenLemmas.gp_fold_inter_all A eqb eqb_spec.
  Let gp_fold_inter_nodup := @IdentifyGenLemmas.gp_fold_inter_nodup A eqb.
  Let gp_inst_paths_loop := @IdentifyGenLemmas.gp_inst_paths_loop A eqb eqb_spec.
  Local Notation gp_cand1 := (@IdentifyGenLemmas.gp_cand1 A eqb).
  Local Notation gp_inst_guard := (@IdentifyGenLemmas.gp_inst_guard A eqb).
  Let gp_inst_phase2_raises := @IdentifyGenLemmas.gp_inst_phase2_raises A eqb eqb_spec ord ord_ok.
  Let gc_pair_memb_bi := @IdentifyGenLemmas.gc_pair_memb_bi A eqb.
  Let gc_fold_add := @IdentifyGenLemmas.gc_fold_add A eqb eqb_spec.
  Let gc_unshielded_loop := @IdentifyGenLemmas.gc_unshielded_loop A eqb.
  Let gc_unshieldedb_seteq := @IdentifyGenLemmas.gc_unshieldedb_seteq A eqb eqb_spec.
  Let gen_verify_ok := @IdentifyGenConfProofs.gen_verify_ok A eqb eqb_spec ord py_None py_empty_str.
  Let gen_confounders_equiv := @IdentifyGenConfProofs.gen_confounders_equiv A eqb eqb_spec ord ord_ok py_None py_empty_str.

  Local Notation seteq l1 l2 := (forall z : A, In z l1 <-> In z l2).
  Local Notation gen_conf := (gen_identify_confounders eqb py_None py_empty_str ord).
  Local Notation gen_med := (gen_identify_mediators eqb py_None py_empty_str ord).
  Local Notation gen_inst := (gen_identify_instruments eqb py_None py_empty_str ord).

  (** * [identify_mediators] *)


  (** The guard: [get_all_causal_paths(source, destination)] has at most [max_num_paths + 1]
      elements (the Python code raises ValueError at the index [max_num_paths + 1]). *)
  Theorem gen_mediators_equiv (g : digraph A) s d fuel mx ps :
    wf g -> acyclic g -> In s (verts g) -> In d (verts g) -> s <> d -> d <> py_None ->
    length (verts g) + 1 <= fuel ->
    id_all_paths eqb g s d = Some ps ->
    (memb eqb d (anc eqb g s) = false -> length ps <= mx + 1) ->
    exists R M, gen_med fuel g s d mx = Ret R /\ mediators eqb g s d = Some M /\ seteq R M.
  Proof.
    intros Hwf Hac Hs Hd Hsd Hnone Hfuel Eps Hguard.
    unfold gen_identify_mediators, mediators.
    rewrite (gen_verify_ok Hwf Hac Hs Hd Hsd Hnone). cbn [py_bind]. unfold py_cg_get_ancestors.
    destruct (memb eqb d (anc eqb g s)) eqn:Ed.
    { exists py_list_empty, []. split; [reflexivity|]. split; [reflexivity|]. intros z. tauto. }
    specialize (Hguard eq_refl).
    destruct (gen_confounders_equiv Hwf Hac Hs Hd Hsd Hnone Hfuel) as (RC & C & HgenC & HC & HRC).
    rewrite HgenC, HC. cbn [py_bind].
    unfold py_cg_get_all_causal_paths. rewrite Eps. cbn [py_bind].
    match goal with |- context [py_enumerate ?l] => set (ps' := l) end.
    assert (Hps' : forall p, In p ps' <-> In p ps) by (intros p; apply gp_ord_in).
    assert (Hlen' : length ps' = length ps) by apply gp_ord_length.
    rewrite py_for_loop. unfold py_enumerate.
    rewrite (proj1 (@gp_med_paths_loop _ mx _ (fun _ _ _ => eq_refl) ps' 0 py_list_empty)); [|simpl; lia].
    unfold py_list_empty. cbn [app].
    assert (Hlong : forall p, In p (filter (fun p => Nat.ltb 2 (length p)) ps') <->
                              In p (filter (fun p => Nat.ltb 2 (length p)) ps)).
    { intros p. rewrite !filter_In, Hps'. tauto. }
    destruct (filter (fun p => Nat.ltb 2 (length p)) ps') as [|p0 rest] eqn:Elong.
    { destruct (filter (fun p => Nat.ltb 2 (length p)) ps) as [|q0 qrest].
      - exists [], []. split; [reflexivity|]. split; [reflexivity|]. intros z. tauto.
      - exfalso. apply (proj2 (Hlong q0)). left. reflexivity. }
    destruct (filter (fun p => Nat.ltb 2 (length p)) ps) as [|q0 qrest] eqn:Elongm.
    { exfalso. apply (proj1 (Hlong p0)). left. reflexivity. }
    cbn [map length Nat.eqb]. cbn [py_set_intersection_star py_bind].
    unfold py_cg_copy.
    (* the pruned graph *)
    rewrite py_for_loop.
    rewrite (@gp_rm_loop_cg s _ _ (fun _ _ => eq_refl) _ g
               (gp_children_nodup _ g s) (fun c Hc => proj1 (gp_children_in _ g s c) Hc)).
    match goal with |- context [del_list g s ?cs] => set (Gp := del_list g s cs) end.
    set (pg := del_arcs_from eqb g [s]).
    assert (Hgp : geq Gp pg).
    { split; [unfold Gp; rewrite del_list_verts; reflexivity|].
      intros a b. unfold Gp, pg.
      rewrite (@del_list_children g s _ a b (fun c => gp_children_in _ g s c)),
        (@del_arcs_arc A eqb eqb_spec). simpl. intuition congruence. }
    assert (Hwfpg : wf pg) by (apply (@del_arcs_wf A eqb eqb_spec); exact Hwf).
    assert (Hwfgp : wf Gp) by exact (geq_wf (geq_sym Hgp) Hwfpg).
    (* the candidate set *)
    match goal with |- context [py_for py_top RC ?c0 _ _] => set (cand := c0) end.
    assert (Hcnd : NoDup cand).
    { unfold cand. apply gp_fold_inter_nodup. apply diff_nodup. apply gp_set_of_nodup. }
    rewrite py_for_loop.
    match goal with |- context [py_loop RC cand ?b] =>
      destruct (@gp_filter_outer _ (fun z c => memb eqb c (py_cg_get_descendants eqb Gp z)) b _
                  (fun _ _ => eq_refl) RC cand Hcnd) as (s' & Hl & _ & Hin)
    end.
    rewrite Hl. unfold py_top, py_list.
    eexists. eexists. split; [reflexivity|]. split; [reflexivity|].
    intros m. rewrite gp_iter_set_in, Hin, filter_In. unfold cand.
    rewrite !gp_fold_inter_all.
    assert (Hstrip : forall p, In m (py_diff eqb (py_set_of eqb p) (py_set_of eqb [s; d])) <->
                               In m (filter (fun v => negb (eqb v s) && negb (eqb v d)) p)).
    { intros p. rewrite gp_diff_in, !gp_set_of_in, filter_In, andb_true_iff, !negb_true_iff.
      simpl. destruct (eqb_spec m s), (eqb_spec m d); intuition congruence. }
    assert (H1 : (forall q, In q (py_diff eqb (py_set_of eqb p0) (py_set_of eqb [s; d])
                              :: map (fun v_path => py_diff eqb v_path (py_set_of eqb [s; d]))
                                   (map (py_set_of eqb) rest)) -> In m q) <->
                 (forall q, In q (filter (fun v => negb (eqb v s) && negb (eqb v d)) q0
                              :: map (filter (fun v => negb (eqb v s) && negb (eqb v d))) qrest) -> In m q)).
    { rewrite map_map.
      change (py_diff eqb (py_set_of eqb p0) (py_set_of eqb [s; d])
                :: map (fun x => py_diff eqb (py_set_of eqb x) (py_set_of eqb [s; d])) rest)
        with (map (fun x => py_diff eqb (py_set_of eqb x) (py_set_of eqb [s; d])) (p0 :: rest)).
      change (filter (fun v => negb (eqb v s) && negb (eqb v d)) q0
                :: map (filter (fun w => negb (eqb w s) && negb (eqb w d))) qrest)
        with (map (filter (fun u => negb (eqb u s) && negb (eqb u d))) (q0 :: qrest)).
      rewrite !gp_forall_map. split.
      - intros H p Hp. apply Hstrip, H, Hlong. exact Hp.
      - intros H p Hp. apply Hstrip, H, Hlong. exact Hp. }
    rewrite H1.
    assert (H2 : (forall z, In z RC -> memb eqb m (py_cg_get_descendants eqb Gp z) = false) <->
                 negb (existsb (fun z => memb eqb m (desc eqb pg z)) C) = true).
    { rewrite (@id_negb_existsb A _ C). unfold py_cg_get_descendants. split.
      - intros H z Hz. rewrite <- (@gp_memb_seteq m _ _ (geq_desc z Hgp Hwfgp)). apply H, HRC. exact Hz.
      - intros H z Hz. rewrite (@gp_memb_seteq m _ _ (geq_desc z Hgp Hwfgp)). apply H, HRC. exact Hz. }
    rewrite H2. tauto.
  Qed.

  (** When the guard fails the Python function raises ValueError (the model ignores the limit). *)
  Theorem gen_mediators_raises (g : digraph A) s d fuel mx ps :
    wf g -> acyclic g -> In s (verts g) -> In d (verts g) -> s <> d -> d <> py_None ->
    length (verts g) + 1 <= fuel ->
    id_all_paths eqb g s d = Some ps ->
    memb eqb d (anc eqb g s) = false -> mx + 1 < length ps ->
    gen_med fuel g s d mx = Exc PyValueError.
  Proof.
    intros Hwf Hac Hs Hd Hsd Hnone Hfuel Eps Ed Hlen.
    unfold gen_identify_mediators.
    rewrite (gen_verify_ok Hwf Hac Hs Hd Hsd Hnone). cbn [py_bind]. unfold py_cg_get_ancestors.
    rewrite Ed.
    destruct (gen_confounders_equiv Hwf Hac Hs Hd Hsd Hnone Hfuel) as (RC & C & HgenC & HC & HRC).
    rewrite HgenC. cbn [py_bind].
    unfold py_cg_get_all_causal_paths. rewrite Eps. cbn [py_bind].
    match goal with |- context [py_enumerate ?l] => set (ps' := l) end.
    assert (Hlen' : length ps' = length ps) by apply gp_ord_length.
    rewrite py_for_loop. unfold py_enumerate.
    rewrite (proj2 (@gp_med_paths_loop _ mx _ (fun _ _ _ => eq_refl) ps' 0 py_list_empty)); [|lia|simpl; lia].
    reflexivity.
  Qed.

  (** * [identify_instruments] *)

  Theorem gen_instruments_equiv (g : digraph A) s d fuel mx :
    wf g -> acyclic g -> In s (verts g) -> In d (verts g) -> s <> d -> d <> py_None ->
    length (verts g) + 1 <= fuel ->
    gp_inst_guard g s d mx ->
    exists R Is, gen_inst fuel g s d mx = Ret R /\ instruments eqb g s d = Some Is /\ seteq R Is.
  Proof.
    intros Hwf Hac Hs Hd Hsd Hnone Hfuel Hguard.
    destruct (@instruments_some A eqb eqb_spec g s d Hwf Hac) as [I HI].
    unfold gen_identify_instruments.
    rewrite (gen_verify_ok Hwf Hac Hs Hd Hsd Hnone). cbn [py_bind]. unfold py_cg_get_ancestors at 1.
    unfold instruments in HI |- *.
    destruct (memb eqb d (anc eqb g s)) eqn:Ed.
    { exists py_list_empty, []. split; [reflexivity|]. split; [reflexivity|]. intros z. tauto. }
    destruct (gen_confounders_equiv Hwf Hac Hs Hd Hsd Hnone Hfuel) as (RC & C & HgenC & HC & HRC).
    specialize (Hguard C).
    rewrite HgenC. rewrite HC in HI |- *. cbn [py_bind]. cbv zeta in HI |- *.
    fold (gp_cand1 g s C) in HI |- *.
    (* facts about candidates *)
    assert (Hanc_v : forall c, In c (anc eqb g s) -> In c (verts g) /\ c <> d).
    { intros c Hc. split; [exact (@anc_in_verts A eqb eqb_spec g s c Hwf Hc)|].
      intros ->. apply gp_memb_false in Ed. exact (Ed Hc). }
    (* phase 1 *)
    match goal with |- context [py_for py_top RC ?c0 _ _] => set (cand := c0) end.
    assert (Hcand : forall y, In y cand <-> In y (diff eqb (anc eqb g s) C)).
    { intros y. unfold cand, py_cg_get_ancestors. rewrite gp_diff_in, gp_set_of_in, (@diff_in A eqb eqb_spec), HRC.
      tauto. }
    assert (Hcnd : NoDup cand) by (unfold cand; apply diff_nodup; apply gp_set_of_nodup).
    rewrite py_for_loop.
    match goal with |- context [py_loop RC cand ?b] =>
      destruct (@gp_filter_outer _
                  (fun z c => memb eqb c (py_cg_get_descendants eqb g z)
                              || memb eqb c (py_cg_get_ancestors eqb g z)) b _
                  (fun _ _ => eq_refl) RC cand Hcnd) as (s1 & Hl1 & Hnd1 & Hin1)
    end.
    rewrite Hl1. clear Hl1.
    assert (Hs1 : forall y, In y s1 <-> In y (gp_cand1 g s C)).
    { intros y. rewrite Hin1, Hcand. unfold gp_cand1. rewrite filter_In, (@id_negb_existsb A _ C).
      unfold py_cg_get_descendants, py_cg_get_ancestors. split.
      - intros [Hy Hall]. split; [exact Hy|]. intros z Hz. apply Hall, HRC. exact Hz.
      - intros [Hy Hall]. split; [exact Hy|]. intros z Hz. apply Hall, HRC. exact Hz. }
    assert (Hs1_anc : forall y, In y s1 -> In y (anc eqb g s)).
    { intros y Hy. apply Hs1 in Hy. unfold gp_cand1 in Hy. apply filter_In in Hy.
      destruct Hy as [Hy _]. apply (@diff_in A eqb eqb_spec) in Hy. tauto. }
    (* phase 2 *)
    rewrite py_for_loop.
    match goal with |- context [py_loop (py_iter_set ord ?k (py_copy s1)) s1 ?b] =>
      destruct (@gp_filter_copy _
                  (fun c => match id_all_paths eqb g c d with
                            | Some ps => negb (forallb (fun p => memb eqb s p) ps)
                            | None => false
                            end) b k s1) as (s2 & Hl2 & Hnd2 & Hin2)
    end.
    { intros c st Hc Hcst.
      destruct (Hanc_v c (Hs1_anc c Hc)) as [Hcv Hcd].
      destruct (@id_all_paths_some A eqb eqb_spec g c d Hwf Hcv) as [ps Eps].
      unfold py_cg_get_all_causal_paths. rewrite Eps. cbn [py_bind]. rewrite py_for_loop.
      unfold py_enumerate.
      match goal with |- context [combine (seq 0 (length ?l)) ?l] => set (ps' := l) end.
      rewrite (proj1 (@gp_inst_paths_loop _ mx c s _ (fun _ _ _ => eq_refl) ps' 0 st Hcst)).
      - unfold ps'. rewrite gp_forallb_ord.
        destruct (forallb (fun p => memb eqb s p) ps); simpl; [reflexivity|].
        unfold py_set_remove. rewrite (proj2 (gp_memb_in c st) Hcst). reflexivity.
      - simpl. unfold ps'. rewrite gp_ord_length.
        apply (Hguard c ps HC); [apply Hs1; exact Hc|exact Eps]. }
    { exact Hnd1. }
    rewrite Hl2. clear Hl2.
    (* phase 3 *)
    rewrite py_for_loop.
    match goal with |- context [py_loop (py_iter_set ord ?k (py_copy s2)) s2 ?b] =>
      destruct (@gp_filter_copy _
                  (fun c => match gen_conf fuel g c d with
                            | Ret t => Nat.ltb 0 (length t)
                            | _ => false
                            end) b k s2) as (s3 & Hl3 & Hnd3 & Hin3)
    end.
    { intros c st Hc Hcst. apply Hin2 in Hc. destruct Hc as [Hc _].
      destruct (Hanc_v c (Hs1_anc c Hc)) as [Hcv Hcd].
      destruct (gen_confounders_equiv Hwf Hac Hcv Hd Hcd Hnone Hfuel) as (Rc & Cc & Hgc & _ & _).
      rewrite Hgc. cbn [py_bind]. reflexivity. }
    { exact Hnd2. }
    rewrite Hl3. clear Hl3. unfold py_top, py_list.
    (* the model *)
    match type of HI with match ?X with _ => _ end = _ =>
      destruct X as [cand2|] eqn:E2; [|discriminate] end.
    eexists. exists I. split; [reflexivity|]. split; [exact HI|].
    intros y. rewrite gp_iter_set_in, Hin3, Hin2, Hs1.
    rewrite (id_filter_opt_in _ _ HI y), (id_filter_opt_in _ _ E2 y).
    split.
    - intros [[Hy H2] H3]. assert (Hy1 : In y s1) by (apply Hs1; exact Hy).
      destruct (Hanc_v y (Hs1_anc y Hy1)) as [Hyv Hyd].
      destruct (@id_all_paths_some A eqb eqb_spec g y d Hwf Hyv) as [ps Eps].
      destruct (gen_confounders_equiv Hwf Hac Hyv Hd Hyd Hnone Hfuel) as (Ry & Cy & Hgy & HCy & HRy).
      rewrite Eps in H2 |- *. rewrite Hgy in H3. rewrite HCy. simpl.
      apply negb_false_iff in H2. rewrite H2.
      split; [split; [exact Hy|reflexivity]|].
      destruct Ry as [|r Ry]; [|simpl in H3; discriminate].
      destruct Cy as [|c Cy]; [reflexivity|]. exfalso. apply (proj2 (HRy c)). left. reflexivity.
    - intros [[Hy H2] H3]. assert (Hy1 : In y s1) by (apply Hs1; exact Hy).
      destruct (Hanc_v y (Hs1_anc y Hy1)) as [Hyv Hyd].
      destruct (@id_all_paths_some A eqb eqb_spec g y d Hwf Hyv) as [ps Eps].
      destruct (gen_confounders_equiv Hwf Hac Hyv Hd Hyd Hnone Hfuel) as (Ry & Cy & Hgy & HCy & HRy).
      rewrite Eps in H2 |- *. rewrite Hgy. rewrite HCy in H3. simpl in H2, H3.
      injection H2 as H2. rewrite H2.
      split; [split; [exact Hy|reflexivity]|].
      destruct Cy as [|c Cy]; [|discriminate].
      destruct Ry as [|r Ry]; [reflexivity|]. exfalso. apply (proj1 (HRy r)). left. reflexivity.
  Qed.

  Theorem gen_instruments_raises (g : digraph A) s d fuel mx C c ps :
    wf g -> acyclic g -> In s (verts g) -> In d (verts g) -> s <> d -> d <> py_None ->
    length (verts g) + 1 <= fuel ->
    memb eqb d (anc eqb g s) = false ->
    confounders eqb g s d = Some C -> In c (gp_cand1 g s C) ->
    id_all_paths eqb g c d = Some ps -> mx + 1 < length ps ->
    gen_inst fuel g s d mx = Exc PyValueError.
  Proof.
    intros Hwf Hac Hs Hd Hsd Hnone Hfuel Ed HC Hc Eps Hlen.
    unfold gen_identify_instruments.
    rewrite (gen_verify_ok Hwf Hac Hs Hd Hsd Hnone). cbn [py_bind]. unfold py_cg_get_ancestors at 1.
    rewrite Ed.
    destruct (gen_confounders_equiv Hwf Hac Hs Hd Hsd Hnone Hfuel) as (RC & C' & HgenC & HC' & HRC).
    rewrite HC in HC'. injection HC' as <-.
    rewrite HgenC. cbn [py_bind].
    assert (Hnds : ~ path g d s).
    { intros Hp. apply (@anc_spec A eqb eqb_spec g s d Hwf), gp_memb_in in Hp. congruence. }
    assert (Hanc_v : forall c, In c (anc eqb g s) -> In c (verts g) /\ c <> d).
    { intros c' Hc'. split; [exact (@anc_in_verts A eqb eqb_spec g s c' Hwf Hc')|].
      intros ->. apply gp_memb_false in Ed. exact (Ed Hc'). }
    match goal with |- context [py_for py_top RC ?c0 _ _] => set (cand := c0) end.
    assert (Hcand : forall y, In y cand <-> In y (diff eqb (anc eqb g s) C)).
    { intros y. unfold cand, py_cg_get_ancestors. rewrite gp_diff_in, gp_set_of_in, (@diff_in A eqb eqb_spec), HRC.
      tauto. }
    assert (Hcnd : NoDup cand) by (unfold cand; apply diff_nodup; apply gp_set_of_nodup).
    rewrite py_for_loop.
    match goal with |- context [py_loop RC cand ?b] =>
      destruct (@gp_filter_outer _
                  (fun z c => memb eqb c (py_cg_get_descendants eqb g z)
                              || memb eqb c (py_cg_get_ancestors eqb g z)) b _
                  (fun _ _ => eq_refl) RC cand Hcnd) as (s1 & Hl1 & Hnd1 & Hin1)
    end.
    rewrite Hl1. clear Hl1.
    assert (Hs1 : forall y, In y s1 <-> In y (gp_cand1 g s C)).
    { intros y. rewrite Hin1, Hcand. unfold gp_cand1. rewrite filter_In, (@id_negb_existsb A _ C).
      unfold py_cg_get_descendants, py_cg_get_ancestors. split.
      - intros [Hy Hall]. split; [exact Hy|]. intros z Hz. apply Hall, HRC. exact Hz.
      - intros [Hy Hall]. split; [exact Hy|]. intros z Hz. apply Hall, HRC. exact Hz. }
    rewrite py_for_loop. unfold py_copy.
    match goal with |- context [py_loop (py_iter_set ord ?k s1) s1 _] =>
      rewrite (@gp_inst_phase2_raises _ g s d mx _ _ (fun _ _ => eq_refl) (py_iter_set ord k s1) s1);
        [reflexivity| |]
    end.
    - intros y Hy. apply gp_iter_set_in in Hy. split; [exact Hy|]. apply Hs1 in Hy. unfold gp_cand1 in Hy.
      apply filter_In in Hy. destruct Hy as [Hy Hz]. apply (@diff_in A eqb eqb_spec) in Hy.
      destruct Hy as [Hya HyC]. destruct (Hanc_v y Hya) as [Hyv Hyd].
      destruct (@id_all_paths_some A eqb eqb_spec g y d Hwf Hyv) as [psy Epsy].
      exists psy. split; [exact Epsy|]. apply forallb_forall. intros p Hp. apply gp_memb_in.
      apply (@id_all_paths_spec A eqb eqb_spec g y d psy Hyd Epsy) in Hp.
      apply (@inst_path_filter_redundant A eqb eqb_spec g s d C y Hwf Hac Hnds HC); [|exact HyC| |exact Hp].
      + apply (@anc_spec A eqb eqb_spec g s y Hwf). exact Hya.
      + intros z Hz' Hpath. apply (@id_negb_existsb A _ C) with (z := z) in Hz; [|exact Hz'].
        apply orb_false_iff in Hz. destruct Hz as [_ Hz]. apply gp_memb_false in Hz. apply Hz.
        apply (@anc_spec A eqb eqb_spec g z y Hwf). exact Hpath.
    - exists c, ps. split; [apply gp_iter_set_in, Hs1; exact Hc|]. split; assumption.
  Qed.
End GenIMProofs.

(** * The statements, closed (vertex type [nat]; the theorems above are generic) *)

(** [max_num_paths]: the model ignores it.  The generated function agrees with the model when
    the enumeration of causal paths has at most [max_num_paths + 1] elements, and raises
    ValueError otherwise (unless the destination is an ancestor of the source, in which case
    both return the empty list before any enumeration). *)
Definition gen_mediators_statement : Prop :=
  forall (ord : pyorder) (g : digraph nat) (none estr s d fuel mx : nat) ps,
    pyorder_ok ord ->
    wf g -> acyclic g -> In s (verts g) -> In d (verts g) -> s <> d -> d <> none ->
    length (verts g) + 1 <= fuel ->
    id_all_paths Nat.eqb g s d = Some ps ->
    ((memb Nat.eqb d (anc Nat.eqb g s) = false -> length ps <= mx + 1) ->
     exists R M, gen_identify_mediators Nat.eqb none estr ord fuel g s d mx = Ret R /\
                 mediators Nat.eqb g s d = Some M /\ gen_seteq R M) /\
    (memb Nat.eqb d (anc Nat.eqb g s) = false -> mx + 1 < length ps ->
     gen_identify_mediators Nat.eqb none estr ord fuel g s d mx = Exc PyValueError).

Theorem gen_mediators_statement_holds : gen_mediators_statement.
Proof.
  intros ord g none estr s d fuel mx ps Hord Hwf Hac Hs Hd Hsd Hnone Hfuel Eps. split.
  - exact (@gen_mediators_equiv nat Nat.eqb Nat.eqb_spec ord Hord none estr g s d fuel mx ps
             Hwf Hac Hs Hd Hsd Hnone Hfuel Eps).
  - exact (@gen_mediators_raises nat Nat.eqb Nat.eqb_spec ord Hord none estr g s d fuel mx ps
             Hwf Hac Hs Hd Hsd Hnone Hfuel Eps).
Qed.

Definition gen_instruments_statement : Prop :=
  forall (ord : pyorder) (g : digraph nat) (none estr s d fuel mx : nat),
    pyorder_ok ord ->
    wf g -> acyclic g -> In s (verts g) -> In d (verts g) -> s <> d -> d <> none ->
    length (verts g) + 1 <= fuel ->
    (gp_inst_guard Nat.eqb g s d mx ->
     exists R Is, gen_identify_instruments Nat.eqb none estr ord fuel g s d mx = Ret R /\
                  instruments Nat.eqb g s d = Some Is /\ gen_seteq R Is) /\
    (forall C c ps,
       memb Nat.eqb d (anc Nat.eqb g s) = false ->
       confounders Nat.eqb g s d = Some C -> In c (gp_cand1 Nat.eqb g s C) ->
       id_all_paths Nat.eqb g c d = Some ps -> mx + 1 < length ps ->
       gen_identify_instruments Nat.eqb none estr ord fuel g s d mx = Exc PyValueError).

Theorem gen_instruments_statement_holds : gen_instruments_statement.
Proof.
  intros ord g none estr s d fuel mx Hord Hwf Hac Hs Hd Hsd Hnone Hfuel. split.
  - exact (@gen_instruments_equiv nat Nat.eqb Nat.eqb_spec ord Hord none estr g s d fuel mx
             Hwf Hac Hs Hd Hsd Hnone Hfuel).
  - intros C c ps.
    exact (@gen_instruments_raises nat Nat.eqb Nat.eqb_spec ord Hord none estr g s d fuel mx C c ps
             Hwf Hac Hs Hd Hsd Hnone Hfuel).
Qed.

(** * BOUNDED theorem: exhaustive computation on every DAG with at most 4 labelled nodes

    Independent of the proofs above (it only runs the two sides): for every acyclic orientation
    of every simple graph on [0 .. n-1], [n <= 4], and every ordered pair of distinct nodes,
    [gen_identify_instruments] and [gen_identify_mediators] (fuel [n + 1], [None] = [n],
    [''] = [n + 1], [max_num_paths] = 25), run with the iteration order [ord], return normally and
    their results are equal AS SETS to the model's.  Checked for the two concrete orders of
    PyRt.v (list order; reversed at the odd observation sites). *)
Definition gen_im_check_pair (ord : pyorder) (n : nat) (g : digraph nat) (x y : nat) : bool :=
  match gen_identify_instruments Nat.eqb n (S n) ord (n + 1) g x y 25, instruments Nat.eqb g x y with
  | Ret R, Some Is => seteqb Nat.eqb R Is
  | _, _ => false
  end
  && match gen_identify_mediators Nat.eqb n (S n) ord (n + 1) g x y 25, mediators Nat.eqb g x y with
     | Ret R, Some M => seteqb Nat.eqb R M
     | _, _ => false
     end.

Definition gen_im_check_graph (ord : pyorder) (n : nat) (arcs : list (nat * nat)) : bool :=
  let g := ds_g n arcs in
  negb (acyclicb Nat.eqb g)
  || forallb (fun x => forallb (fun y => Nat.eqb x y || gen_im_check_pair ord n g x y) (seq 0 n)) (seq 0 n).

Theorem gen_im_equiv_le4 :
  forall n, In n [1; 2; 3; 4] ->
    forallb (gen_im_check_graph pyorder_id n) (ds_orient (ds_upairs n)) = true /\
    forallb (gen_im_check_graph pyorder_alt n) (ds_orient (ds_upairs n)) = true.
Proof.
  intros n H; simpl in H.
  repeat (destruct H as [H|H]; [subst n; split; vm_cast_no_check (eq_refl true)|]); contradiction.
Qed.

(** * Examples: the hypotheses are satisfiable with non-trivial results

    (every value was obtained from the real library: see InstrumentsGen.ig_ex, ig_layers and
    IdentifyProofs.ex_med) *)

(** 8 nodes, source 4, destination 5: identify_instruments = {1, 3}, identify_mediators = {}.
    The iteration order is visible in the returned LIST, not in the returned set. *)
Example gen_ex_run :
  gen_identify_instruments Nat.eqb 8 9 pyorder_id 9 ig_ex 4 5 25 = Ret [1; 3] /\
  gen_identify_instruments Nat.eqb 8 9 pyorder_alt 9 ig_ex 4 5 25 = Ret [3; 1] /\
  gen_identify_mediators Nat.eqb 8 9 pyorder_id 9 ig_ex 4 5 25 = Ret [].
Proof. vm_compute. repeat split; reflexivity. Qed.

Example gen_ex_guard : gp_inst_guard Nat.eqb ig_ex 4 5 25.
Proof.
  intros C c ps HC Hc Eps. vm_compute in HC. injection HC as <-.
  vm_compute in Hc. destruct Hc as [<-|[<-|[<-|[]]]]; vm_compute in Eps; injection Eps as <-; simpl; lia.
Qed.

(** [gen_instruments_equiv] applies to it (and gives a non-empty set). *)
Example gen_ex_instruments_by_theorem :
  exists R Is, gen_identify_instruments Nat.eqb 8 9 pyorder_id 9 ig_ex 4 5 25 = Ret R /\
               instruments Nat.eqb ig_ex 4 5 = Some Is /\ gen_seteq R Is /\ In 1 Is.
Proof.
  destruct ig_ex_ok as [Hwf Hac].
  destruct (@gen_instruments_equiv nat Nat.eqb Nat.eqb_spec pyorder_id pyorder_id_ok 8 9 ig_ex 4 5 9 25 Hwf Hac)
    as (R & I & HR & HI & HRI).
  - vm_compute; auto 10.
  - vm_compute; auto 10.
  - discriminate.
  - discriminate.
  - vm_compute. lia.
  - exact gen_ex_guard.
  - exists R, I. split; [exact HR|]. split; [exact HI|]. split; [exact HRI|].
    apply HRI. rewrite (proj1 gen_ex_run) in HR. injection HR as <-. left. reflexivity.
Qed.

(** docstring of [identify_mediators] (x=0 m=1 y=2 u=3): the mediator m. *)
Example gen_ex_mediators_by_theorem :
  exists R M, gen_identify_mediators Nat.eqb 4 5 pyorder_id 5 ex_med 0 2 25 = Ret R /\
              mediators Nat.eqb ex_med 0 2 = Some M /\ gen_seteq R M /\ In 1 M.
Proof.
  destruct ex_med_ok as [Hwf Hac].
  destruct (@gen_mediators_equiv nat Nat.eqb Nat.eqb_spec pyorder_id pyorder_id_ok 4 5 ex_med 0 2 5 25
              [[0; 1; 2]; [0; 2]] Hwf Hac)
    as (R & M & HR & HM & HRM).
  - vm_compute; auto 10.
  - vm_compute; auto 10.
  - discriminate.
  - discriminate.
  - vm_compute. lia.
  - vm_compute. reflexivity.
  - intros _. simpl. lia.
  - exists R, M. split; [exact HR|]. split; [exact HM|]. split; [exact HRM|].
    rewrite ex_med_run in HM. injection HM as <-. left. reflexivity.
Qed.

(** 27 causal paths from i = 0 to d = 11, all through s = 1: with the default
    [max_num_paths = 25] the Python function raises ValueError; with 26 it returns {i}
    (and [identify_mediators(s, d)] behaves in the same way). *)
Example gen_ex_layers_run :
  gen_identify_instruments Nat.eqb 12 13 pyorder_id 13 ig_layers 1 11 25 = Exc PyValueError /\
  gen_identify_instruments Nat.eqb 12 13 pyorder_id 13 ig_layers 1 11 26 = Ret [0] /\
  gen_identify_mediators Nat.eqb 12 13 pyorder_id 13 ig_layers 1 11 25 = Exc PyValueError /\
  gen_identify_mediators Nat.eqb 12 13 pyorder_id 13 ig_layers 1 11 26 = Ret [] /\
  gen_identify_mediators Nat.eqb 12 13 pyorder_id 13 ig_layers 0 11 26 = Ret [1].
Proof. vm_compute. repeat split; reflexivity. Qed.

(** the hypotheses of [gen_instruments_raises] hold for it *)
Example gen_ex_layers_raises_hyps :
  memb Nat.eqb 11 (anc Nat.eqb ig_layers 1) = false /\
  confounders Nat.eqb ig_layers 1 11 = Some [] /\ In 0 (gp_cand1 Nat.eqb ig_layers 1 []) /\
  option_map (@length _) (id_all_paths Nat.eqb ig_layers 0 11) = Some 27.
Proof. vm_compute. repeat split; auto. Qed.

