(** InstrumentsGen.v — property C19, clause 1, for ALL DAGs (no bound on the number of nodes):

      every node returned by [identify_instruments(graph, source, destination)] is an ancestor
      of the source and is d-separated (given the empty set) from the destination once the
      edges leaving the source are removed.

    IdentifyDSep.v proves the d-separation half by exhaustive computation for DAGs with at most
    4 nodes ([inst_dsep_le4]) and keeps the general statement as [inst_dsep_statement].  This
    file PROVES the general statement ([inst_dsep_all], [inst_dsep_statement_holds]).

    The key fact is about [identify_confounders]: although the set it returns is not a
    sufficient adjustment set (IdentifyDSep.conf_sufficient_refuted, finding F12), it is never
    EMPTY when the two nodes have a common cause:

      [conf_nonempty] : if some node [t] has a directed path to [x] and a directed path to [y]
      in the graph without the arcs leaving [x] and [y], then [confounders g x y] is not empty

    (a deepest such [t] is found by both directional searches).  With the empty conditioning
    set, a path is unblocked iff it has no collider, i.e. iff it is a "trek"
    [i <- ... <- t -> ... -> d] ([ig_trek_or_blocked]); the filters of [identify_instruments]
    exclude the three kinds of trek.

    No executable definition is introduced here (the model is Identify.v); the only new
    definitions are Prop-level auxiliaries used in the proofs. *)
From Coq Require Import Relations.Relation_Operators Arith.
From CG Require Import Base Digraph DigraphProofs DSep DSepProofs Identify IdentifyProofs
  IdentifyDSep.
Set Implicit Arguments.

Section InstrumentsGen.
  Variable A : Type.
  Variable eqb : A -> A -> bool.
  Hypothesis eqb_spec : forall x y, reflect (x = y) (eqb x y).

  Local Notation del := (del_arcs_from eqb).

  (** * 1. Removing the arcs that leave some nodes *)

  Lemma ig_del_arc (g : digraph A) xs a b : arc (del g xs) a b <-> arc g a b /\ ~ In a xs.
  Proof. exact (@id_del_arc A eqb eqb_spec g xs a b). Qed.

  Lemma ig_del_path (g : digraph A) xs x y : path (del g xs) x y -> path g x y.
  Proof. exact (@del_arcs_path A eqb eqb_spec g xs x y). Qed.

  (** A node whose out-arcs were removed has no descendant. *)
  Lemma ig_no_out (g : digraph A) xs v y : In v xs -> ~ path (del g xs) v y.
  Proof.
    intros Hin Hp. apply path_first in Hp. destruct Hp as (z & Hz & _).
    apply ig_del_arc in Hz. tauto.
  Qed.

  (** A path to [y] survives the removal of the out-arcs of nodes that do not reach [y]. *)
  Lemma ig_path_del_keep (g : digraph A) xs x y :
    path g x y -> (forall v, In v xs -> ~ path g v y) -> path (del g xs) x y.
  Proof.
    intros Hp Hxs. revert x Hp.
    apply (@path_ind_left A g y (fun x => path (del g xs) x y)).
    - intros x Hx. apply t_step. apply ig_del_arc. split; [exact Hx|].
      intros Hin. apply (Hxs x Hin). apply t_step. exact Hx.
    - intros x z Hxz Hzy IH. eapply t_trans; [apply t_step|exact IH].
      apply ig_del_arc. split; [exact Hxz|].
      intros Hin. apply (Hxs x Hin). eapply t_trans; [apply t_step; exact Hxz|exact Hzy].
  Qed.

  (** A path to [y] either survives the removal of the out-arcs of [v], or [v] reaches [y]. *)
  Lemma ig_path_del_or (g : digraph A) v x y :
    path g x y -> path g v y \/ path (del g [v]) x y.
  Proof.
    revert x. apply (@path_ind_left A g y (fun x => path g v y \/ path (del g [v]) x y)).
    - intros x Hx. destruct (eqb_spec x v) as [->|Hne].
      + left. apply t_step. exact Hx.
      + right. apply t_step. apply ig_del_arc. split; [exact Hx|].
        intros [Heq|[]]. apply Hne. symmetry. exact Heq.
    - intros x z Hxz Hzy [IH|IH]; [left; exact IH|].
      destruct (eqb_spec x v) as [->|Hne].
      + left. eapply t_trans; [apply t_step; exact Hxz|exact Hzy].
      + right. eapply t_trans; [apply t_step|exact IH].
        apply ig_del_arc. split; [exact Hxz|].
        intros [Heq|[]]. apply Hne. symmetry. exact Heq.
  Qed.

  (** The order of the two nodes in the list is irrelevant (the two graphs are EQUAL). *)
  Lemma ig_del_swap (g : digraph A) x y : del g [x; y] = del g [y; x].
  Proof.
    unfold del_arcs_from. f_equal. apply filter_ext. intros [a b]. simpl.
    rewrite !orb_false_r. rewrite orb_comm. reflexivity.
  Qed.

  (** * 2. What one directional search is guaranteed to return

      [ig_up H n2 c n1]: [c] reaches [n1] by arcs of [H] through nodes that are not ancestors
      of [n2] in [H] — this is the walk performed by the recursion of [conf_search]. *)
  Inductive ig_up (H : digraph A) (n2 c : A) : A -> Prop :=
  | ig_up_base n1 : arc H c n1 -> ig_up H n2 c n1
  | ig_up_step n1 p : arc H p n1 -> ~ path H p n2 -> ig_up H n2 c p -> ig_up H n2 c n1.

  Lemma ig_up_path (H : digraph A) n2 c n1 : ig_up H n2 c n1 -> path H c n1.
  Proof.
    intros Hup. induction Hup as [n1 Harc|n1 p Harc _ _ IH].
    - apply t_step. exact Harc.
    - eapply t_trans; [exact IH|apply t_step; exact Harc].
  Qed.

  Lemma ig_up_del_keep (H : digraph A) n2 c m xs :
    ig_up H n2 c m -> (forall v, In v xs -> ~ path H v m) -> ig_up (del H xs) n2 c m.
  Proof.
    intros Hup. induction Hup as [n1 Harc|n1 p Harc Hnp _ IH]; intros Hxs.
    - apply ig_up_base. apply ig_del_arc. split; [exact Harc|].
      intros Hin. apply (Hxs c Hin). apply t_step. exact Harc.
    - apply ig_up_step with (p := p).
      + apply ig_del_arc. split; [exact Harc|].
        intros Hin. apply (Hxs p Hin). apply t_step. exact Harc.
      + intros Hp. apply Hnp. apply (@ig_del_path H xs p n2 Hp).
      + apply IH. intros v Hin Hp. apply (Hxs v Hin).
        eapply t_trans; [exact Hp|apply t_step; exact Harc].
  Qed.

  (** From a plain path: if [p] reaches [x] but not [y], every parent [c] of [p] walks up to
      [x] through non-ancestors of [y]. *)
  Lemma ig_up_of_path (H : digraph A) y c p x :
    arc H c p -> ~ path H p y -> path H p x -> ig_up H y c x.
  Proof.
    intros Hcp Hnpy. revert x.
    apply (@path_ind_right A H p (fun x => ig_up H y c x)).
    - intros z Hpz. apply ig_up_step with (p := p); [exact Hpz|exact Hnpy|].
      apply ig_up_base. exact Hcp.
    - intros w z Hpw IH Hwz. apply ig_up_step with (p := w); [exact Hwz| |exact IH].
      intros Hwy. apply Hnpy. eapply t_trans; [exact Hpw|exact Hwy].
  Qed.

  (** Completeness of [conf_search]: a node that walks up to [n1] through non-ancestors of
      [n2] and reaches [n2], all in the graph without the out-arcs of [n1] and [n2], is
      returned. *)
  Lemma ig_search_complete fuel : forall (G : digraph A) n1 n2 R c,
    wf G -> acyclic G -> conf_search eqb fuel G n1 n2 = Some R ->
    ig_up (del G [n1; n2]) n2 c n1 -> path (del G [n1; n2]) c n2 -> In c R.
  Proof.
    induction fuel as [|fuel IH]; intros G n1 n2 R c Hwf Hac HR Hup Hpath; [discriminate|].
    rewrite id_conf_search_S in HR.
    set (G1 := del G [n1; n2]) in *.
    assert (Hwf1 : wf G1) by (apply (@id_del_wf A eqb eqb_spec); exact Hwf).
    assert (Hac1 : acyclic G1) by (apply (@id_del_acyclic A eqb eqb_spec); exact Hac).
    set (F := fun p : A => if memb eqb p (anc eqb G1 n2) then Some [p]
                           else conf_search eqb fuel G1 p n2) in *.
    apply (@id_collect_in A eqb eqb_spec _ _ HR).
    inversion Hup as [m Harc Hm|m p Harc Hnp Hup' Hm]; subst m.
    - exists [c]. split; [|left; reflexivity].
      apply in_map_iff. exists c. split.
      + unfold F.
        assert (E : memb eqb c (anc eqb G1 n2) = true).
        { apply (@id_memb_in A eqb eqb_spec). apply (@anc_spec A eqb eqb_spec G1 n2 c Hwf1). exact Hpath. }
        rewrite E. reflexivity.
      + apply (@id_parents_in A eqb eqb_spec). exact Harc.
    - assert (Hpin : In p (parents eqb G1 n1)) by (apply (@id_parents_in A eqb eqb_spec); exact Harc).
      assert (E : memb eqb p (anc eqb G1 n2) = false).
      { apply (@id_memb_false A eqb eqb_spec). intros Hin. apply Hnp.
        apply (@anc_spec A eqb eqb_spec G1 n2 p Hwf1). exact Hin. }
      assert (HFin : In (F p) (map F (parents eqb G1 n1))) by (apply in_map; exact Hpin).
      destruct (@id_collect_all_some A eqb _ _ _ HR HFin) as [s Hs].
      exists s. split; [rewrite <- Hs; exact HFin|].
      unfold F in Hs. rewrite E in Hs.
      apply (IH G1 p n2 s c Hwf1 Hac1 Hs).
      + apply ig_up_del_keep; [exact Hup'|].
        intros v [<-|[<-|[]]].
        * apply Hac1.
        * apply ig_no_out. right. left. reflexivity.
      + apply ig_path_del_keep; [exact Hpath|].
        intros v [<-|[<-|[]]]; [exact Hnp|apply Hac1].
  Qed.

  (** * 3. [identify_confounders] is not empty when there is a common cause

      Induction on the number of descendants of the common ancestor [t]: either a child of [t]
      is again a common ancestor, or [t] itself is found by both searches. *)
  Lemma ig_common_found (g : digraph A) x y R1 R2 :
    wf g -> acyclic g ->
    conf_search eqb (conf_fuel g) g x y = Some R1 ->
    conf_search eqb (conf_fuel g) g y x = Some R2 ->
    forall n t, length (desc eqb (del g [x; y]) t) < n ->
      path (del g [x; y]) t x -> path (del g [x; y]) t y ->
      exists c, In c R1 /\ In c R2 /\ (c = t \/ path (del g [x; y]) t c).
  Proof.
    intros Hwf Hac H1 H2.
    set (h := del g [x; y]).
    assert (Hwfh : wf h) by (apply (@id_del_wf A eqb eqb_spec); exact Hwf).
    assert (Hach : acyclic h) by (apply (@id_del_acyclic A eqb eqb_spec); exact Hac).
    induction n as [|n IH]; intros t Hlen Htx Hty; [lia|].
    (* a child of [t] that is again a common ancestor: induction hypothesis *)
    assert (Hchild : forall p, arc h t p -> path h p x -> path h p y ->
                               exists c, In c R1 /\ In c R2 /\ (c = t \/ path h t c)).
    { intros p Htp Hpx Hpy. destruct (IH p) as (c & Hc1 & Hc2 & Hc); [|exact Hpx|exact Hpy|].
      - pose proof (@desc_rank A eqb eqb_spec h t p Hwfh Hach Htp) as Hlt. lia.
      - exists c. split; [exact Hc1|]. split; [exact Hc2|]. right.
        destruct Hc as [->|Hc]; [apply t_step; exact Htp|].
        eapply t_trans; [apply t_step; exact Htp|exact Hc]. }
    assert (Hup1 : (exists c, In c R1 /\ In c R2 /\ (c = t \/ path h t c)) \/ ig_up h y t x).
    { destruct (@path_first A h t x Htx) as (p & Htp & Hpx). destruct Hpx as [->|Hpx].
      - right. apply ig_up_base. exact Htp.
      - destruct (@path_dec A eqb eqb_spec h p y Hwfh) as [Hpy|Hnpy].
        + left. exact (Hchild p Htp Hpx Hpy).
        + right. exact (@ig_up_of_path h y t p x Htp Hnpy Hpx). }
    assert (Hup2 : (exists c, In c R1 /\ In c R2 /\ (c = t \/ path h t c)) \/ ig_up h x t y).
    { destruct (@path_first A h t y Hty) as (q & Htq & Hqy). destruct Hqy as [->|Hqy].
      - right. apply ig_up_base. exact Htq.
      - destruct (@path_dec A eqb eqb_spec h q x Hwfh) as [Hqx|Hnqx].
        + left. exact (Hchild q Htq Hqx Hqy).
        + right. exact (@ig_up_of_path h x t q y Htq Hnqx Hqy). }
    destruct Hup1 as [Hex|Hup1]; [exact Hex|].
    destruct Hup2 as [Hex|Hup2]; [exact Hex|].
    exists t. split; [|split; [|left; reflexivity]].
    - exact (@ig_search_complete _ g x y R1 t Hwf Hac H1 Hup1 Hty).
    - apply (@ig_search_complete _ g y x R2 t Hwf Hac H2); rewrite <- (ig_del_swap g x y); assumption.
  Qed.

  (** The set returned by [identify_confounders(g, x, y)] contains a node as soon as some [t]
      is a strict ancestor of both [x] and [y] in the graph without the arcs leaving [x], [y];
      moreover a returned node is found at [t] or below [t]. *)
  Theorem conf_below (g : digraph A) x y Z t :
    wf g -> acyclic g -> confounders eqb g x y = Some Z ->
    path (del g [x; y]) t x -> path (del g [x; y]) t y ->
    exists c, In c Z /\ (c = t \/ path (del g [x; y]) t c).
  Proof.
    intros Hwf Hac HZ Htx Hty. unfold confounders in HZ.
    destruct (conf_search eqb (conf_fuel g) g x y) as [R1|] eqn:E1; [|discriminate].
    destruct (conf_search eqb (conf_fuel g) g y x) as [R2|] eqn:E2; [|discriminate].
    injection HZ as <-.
    destruct (@ig_common_found g x y R1 R2 Hwf Hac E1 E2
                (S (length (desc eqb (del g [x; y]) t))) t (Nat.lt_succ_diag_r _) Htx Hty)
      as (c & Hc1 & Hc2 & Hc).
    exists c. split; [|exact Hc]. apply (@id_inter_in A eqb eqb_spec). split; assumption.
  Qed.

  Theorem conf_nonempty (g : digraph A) x y Z t :
    wf g -> acyclic g -> confounders eqb g x y = Some Z ->
    path (del g [x; y]) t x -> path (del g [x; y]) t y ->
    exists c, In c Z.
  Proof.
    intros Hwf Hac HZ Htx Hty.
    destruct (@conf_below g x y Z t Hwf Hac HZ Htx Hty) as (c & Hc & _).
    exists c. exact Hc.
  Qed.

  (** Conversely every returned node is such a common cause (so the criterion is exact). *)
  Lemma ig_search_sound fuel : forall (G : digraph A) n1 n2 R c,
    wf G -> conf_search eqb fuel G n1 n2 = Some R -> In c R ->
    path (del G [n1; n2]) c n1 /\ path (del G [n1; n2]) c n2.
  Proof.
    induction fuel as [|fuel IH]; intros G n1 n2 R c Hwf HR Hc; [discriminate|].
    rewrite id_conf_search_S in HR.
    set (G1 := del G [n1; n2]) in *.
    assert (Hwf1 : wf G1) by (apply (@id_del_wf A eqb eqb_spec); exact Hwf).
    apply (@id_collect_in A eqb eqb_spec _ _ HR) in Hc. destruct Hc as (s & Hs & Hcs).
    apply in_map_iff in Hs. destruct Hs as (p & Hp & Hpin).
    apply (@id_parents_in A eqb eqb_spec) in Hpin.
    destruct (memb eqb p (anc eqb G1 n2)) eqn:E.
    - injection Hp as <-. destruct Hcs as [<-|[]]. split; [apply t_step; exact Hpin|].
      apply (@id_memb_in A eqb eqb_spec) in E. apply (@anc_spec A eqb eqb_spec G1 n2 p Hwf1) in E. exact E.
    - destruct (IH G1 p n2 s c Hwf1 Hp Hcs) as [Hcp Hcn2]. split.
      + eapply t_trans; [exact (@ig_del_path G1 [p; n2] c p Hcp)|apply t_step; exact Hpin].
      + exact (@ig_del_path G1 [p; n2] c n2 Hcn2).
  Qed.

  Theorem conf_nonempty_iff (g : digraph A) x y Z :
    wf g -> acyclic g -> confounders eqb g x y = Some Z ->
    ((exists c, In c Z) <->
     (exists t, path (del g [x; y]) t x /\ path (del g [x; y]) t y)).
  Proof.
    intros Hwf Hac HZ. split.
    - intros (c & Hc). exists c. unfold confounders in HZ.
      destruct (conf_search eqb (conf_fuel g) g x y) as [R1|] eqn:E1; [|discriminate].
      destruct (conf_search eqb (conf_fuel g) g y x) as [R2|] eqn:E2; [|discriminate].
      injection HZ as <-. apply (@id_inter_in A eqb eqb_spec) in Hc. destruct Hc as [Hc _].
      exact (@ig_search_sound _ g x y R1 c Hwf E1 Hc).
    - intros (t & Htx & Hty). exact (@conf_nonempty g x y Z t Hwf Hac HZ Htx Hty).
  Qed.

  (** * 4. d-separation given the empty set: an unblocked path is a trek *)

  (** Reflexive closure of [path]. *)
  Definition ig_rt (G : digraph A) (a b : A) : Prop := a = b \/ path G a b.

  Lemma ig_rt_arc_r (G : digraph A) a b c : ig_rt G a b -> arc G b c -> path G a c.
  Proof.
    intros [->|Hab] Hbc; [apply t_step; exact Hbc|].
    eapply t_trans; [exact Hab|apply t_step; exact Hbc].
  Qed.

  Lemma ig_rt_arc_l (G : digraph A) a b c : arc G a b -> ig_rt G b c -> path G a c.
  Proof.
    intros Hab [<-|Hbc]; [apply t_step; exact Hab|].
    eapply t_trans; [apply t_step; exact Hab|exact Hbc].
  Qed.

  (** A sequence of pairwise adjacent nodes from [x] to [y] is blocked by the empty set (it
      has a collider), or is a directed path from [x] to [y], or starts with an arc INTO [x]
      and both ends descend from a common node. *)
  Lemma ig_trek_or_blocked (G : digraph A) : forall p x y,
    DSep.chain G p -> hd_error p = Some x -> last_error p = Some y ->
    blocked G [] p \/ ig_rt G x y \/
    (exists q r t, p = x :: q :: r /\ arc G q x /\ ig_rt G t q /\ ig_rt G t y).
  Proof.
    induction p as [|a p IH]; intros x y Hch Hhd Hlast; [discriminate|].
    simpl in Hhd. injection Hhd as ->.
    destruct p as [|b r].
    - simpl in Hlast. injection Hlast as ->. right. left. left. reflexivity.
    - destruct Hch as [Hadj Hch]. rewrite ds_last_error_cons in Hlast.
      destruct (IH b y Hch eq_refl Hlast) as [Hb|[Hrt|(q & r' & t & Hp & Hqb & Htq & Hty)]].
      + (* already blocked further on *)
        left. destruct Hb as (l & u & v & w & r' & Hp & Htb).
        exists (x :: l), u, v, w, r'. split; [rewrite Hp; reflexivity|exact Htb].
      + (* b -> ... -> y *)
        destruct Hadj as [Hxb|Hbx].
        * right. left. right. exact (@ig_rt_arc_l G x b y Hxb Hrt).
        * right. right. exists b, r, b. split; [reflexivity|]. split; [exact Hbx|].
          split; [left; reflexivity|exact Hrt].
      + (* b <- q ... *)
        injection Hp as ->. destruct Hadj as [Hxb|Hbx].
        * (* x -> b <- q : a collider, blocked by the empty set *)
          left. exists [], x, b, q, r'. split; [reflexivity|].
          left. split; [split; assumption|]. split; [intros []|intros z []].
        * right. right. exists b, (q :: r'), t. split; [reflexivity|]. split; [exact Hbx|].
          split; [right; exact (@ig_rt_arc_r G t q b Htq Hqb)|exact Hty].
  Qed.

  (** No common "ancestor or self": d-separated by the empty set. *)
  Theorem ig_dsep_empty (G : digraph A) x y :
    (forall t, ig_rt G t x -> ig_rt G t y -> False) -> dsep G [x] [y] [].
  Proof.
    intros Hno x0 y0 p [<-|[]] [<-|[]] (_ & _ & Hch) Hhd Hlast.
    destruct (@ig_trek_or_blocked G p x y Hch Hhd Hlast)
      as [Hb|[Hrt|(q & r & t & _ & Hqx & Htq & Hty)]].
    - exact Hb.
    - exfalso. apply (Hno x); [left; reflexivity|exact Hrt].
    - exfalso. apply (Hno t); [right; exact (@ig_rt_arc_r G t q x Htq Hqx)|exact Hty].
  Qed.

  (** * 5. Directed paths as simple paths *)

  Lemma ig_spath_of_path (G : digraph A) d :
    acyclic G -> forall x, path G x d -> exists p, id_spath G d x p.
  Proof.
    intros Hac.
    apply (@path_ind_left A G d (fun x => exists p, id_spath G d x p)).
    - intros x Hx. exists [x; d]. apply id_sp_step with (y := d); [exact Hx|constructor|].
      intros [Heq|[]]. subst x. apply (Hac d). apply t_step. exact Hx.
    - intros x z Hxz Hzd (p & Hp). exists (x :: p).
      apply id_sp_step with (y := z); [exact Hxz|exact Hp|].
      intros Hin. destruct (@id_spath_between A G d z p Hp x Hin) as [[Heq|Hzx] _].
      + subst z. apply (Hac x). apply t_step. exact Hxz.
      + apply (Hac x). eapply t_trans; [apply t_step; exact Hxz|exact Hzx].
  Qed.

  Lemma ig_spath_mono (G1 G2 : digraph A) d x p :
    (forall a b, arc G1 a b -> arc G2 a b) -> id_spath G1 d x p -> id_spath G2 d x p.
  Proof.
    intros Hsub Hp. induction Hp as [|x z p Harc _ IH Hn]; [constructor|].
    apply id_sp_step with (y := z); [apply Hsub; exact Harc|exact IH|exact Hn].
  Qed.

  (** * 6. The theorem *)

  (** C19, clause 1, d-separation half, for every DAG. *)
  Theorem inst_dsep_all (g : digraph A) s d Is i :
    wf g -> acyclic g -> s <> d ->
    instruments eqb g s d = Some Is -> In i Is ->
    dsep (del g [s]) [i] [d] [].
  Proof.
    intros Hwf Hac Hsd HI Hi.
    destruct (@path_dec A eqb eqb_spec g d s Hwf) as [Hds|Hnds].
    { rewrite (@inst_empty_if_dest_anc A eqb eqb_spec g s d Hwf Hds) in HI. injection HI as <-.
      destruct Hi. }
    destruct (@inst_spec A eqb eqb_spec g s d Is Hwf Hnds HI) as (C & _ & Hspec).
    apply Hspec in Hi. destruct Hi as (His & _ & _ & Hsp & Hconf).
    set (g' := del g [s]).
    assert (Hac' : acyclic g') by (apply (@id_del_acyclic A eqb eqb_spec); exact Hac).
    assert (Hid : i <> d) by (intros ->; exact (Hnds His)).
    (* the instrument has no directed path to the destination that avoids the source *)
    assert (Hnid : ~ path g' i d).
    { intros Hp. destruct (@ig_spath_of_path g' d Hac' i Hp) as (p & Hsp').
      assert (Hin : In s p).
      { apply Hsp. apply (@ig_spath_mono g' g d i p); [|exact Hsp'].
        intros a b Hab. apply ig_del_arc in Hab. tauto. }
      destruct (@id_spath_between A g' d i p Hsp' s Hin) as [_ [Heq|Hsd']]; [exact (Hsd Heq)|].
      apply (@ig_no_out g [s] s d); [left; reflexivity|exact Hsd']. }
    apply ig_dsep_empty. intros t [->|Hti] [Heq|Htd].
    - exact (Hid Heq).
    - exact (Hnid Htd).
    - subst t. apply Hnds. eapply t_trans; [exact (@ig_del_path g [s] d i Hti)|exact His].
    - (* a strict common ancestor: [identify_confounders(i, d)] cannot be empty *)
      assert (Hndi : ~ path g d i).
      { intros Hdi. apply Hnds. eapply t_trans; [exact Hdi|exact His]. }
      assert (H1 : path (del g [i; d]) t i).
      { apply ig_path_del_keep; [exact (@ig_del_path g [s] t i Hti)|].
        intros v [<-|[<-|[]]]; [apply Hac|exact Hndi]. }
      assert (H2 : path (del g [i; d]) t d).
      { destruct (@ig_path_del_or g' i t d Htd) as [Hbad|Hok]; [exfalso; exact (Hnid Hbad)|].
        assert (Hok' : path (del (del g' [i]) [d]) t d).
        { apply ig_path_del_keep; [exact Hok|].
          intros v [<-|[]]. apply (@id_del_acyclic A eqb eqb_spec). exact Hac'. }
        revert Hok'. apply (@path_mono A). intros a b Hab.
        apply ig_del_arc in Hab. destruct Hab as [Hab Hnd].
        apply ig_del_arc in Hab. destruct Hab as [Hab Hni].
        apply ig_del_arc in Hab. destruct Hab as [Hab _].
        apply ig_del_arc. split; [exact Hab|].
        intros [Heq|[Heq|[]]]; [apply Hni|apply Hnd]; left; exact Heq. }
      destruct (@conf_nonempty g i d [] t Hwf Hac Hconf H1 H2) as (c & []).
  Qed.

  (** Both halves of the clause. *)
  Corollary inst_clause1_all (g : digraph A) s d Is i :
    wf g -> acyclic g -> s <> d ->
    instruments eqb g s d = Some Is -> In i Is ->
    path g i s /\ dsep (del g [s]) [i] [d] [].
  Proof.
    intros Hwf Hac Hsd HI Hi. split.
    - exact (@inst_sub_anc A eqb eqb_spec g s d Is Hwf HI i Hi).
    - exact (@inst_dsep_all g s d Is i Hwf Hac Hsd HI Hi).
  Qed.

  (** * 7. A by-product: the causal-path filter of [identify_instruments] never removes anything

      The third step of the Python function enumerates [get_all_causal_paths(candidate,
      destination)] and drops the candidates with a path that avoids the source.  A candidate
      that survived the first two steps (an ancestor of the source that is neither a confounder
      nor an ancestor / descendant of one) never has such a path: it would be a common cause of
      source and destination, so by [conf_below] a confounder would sit at or below it.  Hence
      the enumeration can only have one observable effect: raising [ValueError] when there are
      more than [max_num_paths + 1] paths. *)
  Lemma ig_spath_avoid (g : digraph A) s d x p :
    id_spath g d x p -> ~ In s p -> x = d \/ path (del g [s]) x d.
  Proof.
    intros Hp. induction Hp as [|x z p Harc _ IH _]; intros Hns; [left; reflexivity|].
    right. apply (@ig_rt_arc_l (del g [s]) x z d).
    - apply ig_del_arc. split; [exact Harc|].
      intros [Heq|[]]. apply Hns. left. symmetry. exact Heq.
    - apply IH. intros Hin. apply Hns. right. exact Hin.
  Qed.

  Theorem inst_path_filter_redundant (g : digraph A) s d C i :
    wf g -> acyclic g -> ~ path g d s ->
    confounders eqb g s d = Some C ->
    path g i s -> ~ In i C -> (forall z, In z C -> ~ path g i z) ->
    forall p, id_spath g d i p -> In s p.
  Proof.
    intros Hwf Hac Hnds HC His Hni Hz p Hp.
    destruct (memb eqb s p) eqn:E; [apply (@id_memb_in A eqb eqb_spec); exact E|].
    exfalso. apply (@id_memb_false A eqb eqb_spec) in E.
    assert (Hid : i <> d) by (intros ->; exact (Hnds His)).
    destruct (@ig_spath_avoid g s d i p Hp E) as [Heq|Hpd]; [exact (Hid Heq)|].
    assert (H1 : path (del g [s; d]) i s).
    { apply ig_path_del_keep; [exact His|].
      intros v [<-|[<-|[]]]; [apply Hac|exact Hnds]. }
    assert (H2 : path (del g [s; d]) i d).
    { assert (Hok : path (del (del g [s]) [d]) i d).
      { apply ig_path_del_keep; [exact Hpd|].
        intros v [<-|[]]. apply (@id_del_acyclic A eqb eqb_spec). exact Hac. }
      revert Hok. apply (@path_mono A). intros a b Hab.
      apply ig_del_arc in Hab. destruct Hab as [Hab Hnd].
      apply ig_del_arc in Hab. destruct Hab as [Hab Hnsrc].
      apply ig_del_arc. split; [exact Hab|].
      intros [Heq|[Heq|[]]]; [apply Hnsrc|apply Hnd]; left; exact Heq. }
    destruct (@conf_below g s d C i Hwf Hac HC H1 H2) as (c & Hc & [->|Hic]).
    - exact (Hni Hc).
    - exact (Hz c Hc (@ig_del_path g [s; d] i c Hic)).
  Qed.

  (** [inst_spec] without the clause about causal paths. *)
  Theorem inst_spec_no_paths (g : digraph A) s d I :
    wf g -> acyclic g -> ~ path g d s -> instruments eqb g s d = Some I ->
    exists C, confounders eqb g s d = Some C /\
      forall i, In i I <->
        path g i s /\ ~ In i C /\
        (forall z, In z C -> ~ path g z i /\ ~ path g i z) /\
        confounders eqb g i d = Some [].
  Proof.
    intros Hwf Hac Hnds HI.
    destruct (@inst_spec A eqb eqb_spec g s d I Hwf Hnds HI) as (C & HC & Hspec).
    exists C. split; [exact HC|]. intros i. rewrite (Hspec i). split.
    - intros (H1 & H2 & H3 & _ & H5). tauto.
    - intros (H1 & H2 & H3 & H5). split; [exact H1|]. split; [exact H2|]. split; [exact H3|].
      split; [|exact H5].
      apply (@inst_path_filter_redundant g s d C i Hwf Hac Hnds HC H1 H2).
      intros z Hzc. exact (proj2 (H3 z Hzc)).
  Qed.
End InstrumentsGen.

(** * The statement left open in IdentifyDSep.v holds *)
Theorem inst_dsep_statement_holds : inst_dsep_statement.
Proof.
  intros g s d Is i Hwf Hac _ _ Hsd HI Hi.
  exact (@inst_dsep_all nat Nat.eqb Nat.eqb_spec g s d Is i Hwf Hac Hsd HI Hi).
Qed.

(** * Concrete examples (non-vacuity; every value below was obtained from the real library)

    8 nodes a..h = 0..7, arcs a->h h->g h->c h->e g->f g->e b->d b->c d->e c->e, source e = 4,
    destination f = 5.  Python: identify_confounders(e, f) = {g}; the ancestors of e are
    {a, b, c, d, g, h}; a and h are dropped as ancestors of the confounder g; c is dropped
    because identify_confounders(c, f) = {h}; identify_instruments(e, f) = {b, d}. *)
Definition ig_ex : digraph nat :=
  id_mk 8 [(0, 7); (7, 6); (7, 2); (7, 4); (6, 5); (6, 4); (1, 3); (1, 2); (3, 4); (2, 4)].

Example ig_ex_ok : wf ig_ex /\ acyclic ig_ex.
Proof.
  split.
  - apply (@id_wfb_wf nat Nat.eqb Nat.eqb_spec). vm_compute. reflexivity.
  - apply (@id_rank_acyclic nat ig_ex
             (fun n => match n with 0 => 0 | 1 => 0 | 7 => 1 | 3 => 1 | 6 => 2 | 2 => 2
                                  | 4 => 3 | _ => 4 end)).
    vm_compute. reflexivity.
Qed.

Example ig_ex_run :
  confounders Nat.eqb ig_ex 4 5 = Some [6] /\
  instruments Nat.eqb ig_ex 4 5 = Some [1; 3] /\
  confounders Nat.eqb ig_ex 2 5 = Some [7].
Proof. vm_compute. repeat split; reflexivity. Qed.

(** The hypotheses of [inst_dsep_all] are satisfiable with a non-empty result, and its
    conclusion agrees with the executable checker [dsepb]. *)
Example ig_ex_dsep :
  dsep (del_arcs_from Nat.eqb ig_ex [4]) [1] [5] [] /\
  dsep (del_arcs_from Nat.eqb ig_ex [4]) [3] [5] [].
Proof.
  destruct ig_ex_ok as [Hwf Hac].
  destruct ig_ex_run as (_ & HI & _).
  assert (Hne : 4 <> 5) by discriminate.
  split.
  - apply (@inst_dsep_all nat Nat.eqb Nat.eqb_spec ig_ex 4 5 [1; 3] 1 Hwf Hac Hne HI).
    left. reflexivity.
  - apply (@inst_dsep_all nat Nat.eqb Nat.eqb_spec ig_ex 4 5 [1; 3] 3 Hwf Hac Hne HI).
    right. left. reflexivity.
Qed.

(** Independent run of the checker on the six ancestors a b c d h g of the source: exactly the
    two reported instruments are d-separated from the destination (same answers as the
    brute-force Python oracle and as networkx.d_separated). *)
Example ig_ex_dsepb :
  map (fun i => dsepb Nat.eqb (del_arcs_from Nat.eqb ig_ex [4]) [i] [5] []) [0; 1; 2; 3; 7; 6]
  = [false; true; false; true; false; false].
Proof. vm_compute. reflexivity. Qed.

(** [conf_nonempty_iff] on the rejected candidate c = 2: h = 7 is a common cause of c and f. *)
Example ig_ex_common_cause :
  path (del_arcs_from Nat.eqb ig_ex [2; 5]) 7 2 /\ path (del_arcs_from Nat.eqb ig_ex [2; 5]) 7 5.
Proof.
  split.
  - apply t_step. vm_compute. tauto.
  - eapply t_trans; apply t_step; [instantiate (1 := 6)|]; vm_compute; tauto.
Qed.

(** The causal-path filter cannot change the result, but in Python it can raise: i -> s, then
    three layers of three nodes between s and d (27 causal paths from i to d, all through s).
    identify_instruments(g, 's', 'd') raises ValueError (more than 25 + 1 paths);
    with max_num_paths=100 it returns ['i'], which is what the model (that ignores the limit)
    computes.  i = 0, s = 1, d = 11. *)
Definition ig_layers : digraph nat :=
  id_mk 12 [(0, 1); (1, 2); (1, 3); (1, 4);
            (2, 5); (2, 6); (2, 7); (3, 5); (3, 6); (3, 7); (4, 5); (4, 6); (4, 7);
            (5, 8); (5, 9); (5, 10); (6, 8); (6, 9); (6, 10); (7, 8); (7, 9); (7, 10);
            (8, 11); (9, 11); (10, 11)].
Example ig_layers_run :
  instruments Nat.eqb ig_layers 1 11 = Some [0] /\
  option_map (@length _) (id_all_paths Nat.eqb ig_layers 0 11) = Some 27.
Proof. vm_compute. split; reflexivity. Qed.
