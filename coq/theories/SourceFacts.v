(** SourceFacts.v — side conditions on the tables that tools/extract_facts.py REGENERATES from /repo on every run
    (Extracted.v): the defaults of the public parameters that the model fixes, and the source of the two name-codec
    functions that Names.v models.  This file holds DEFINITIONS only (it always compiles); each fact is a lemma in a file of its own (SF*.v), so that
    a fact that no longer holds breaks only the properties that rely on it; when the source changes one of these facts the
    lemma no longer compiles and the check of the property concerned reports a broken obligation and searches for a
    failing input.

    The model assumes (and the harness also exercises, by leaving the arguments out on every other call):
      validate=True everywhere, edge_type='->', meta=None, variable_type=unspecified, deep=False, include_meta=True,
      return_all=False, respect_time_ordering=True, include_all_parents=True, backward/forward_steps=None,
      construct_minimal=True, max_num_paths=25, unshielded_only=False, get_nodes_at_lag(time_lag=0),
      CausalGraph(fully_connected=True) / TimeSeriesCausalGraph(fully_connected=False). *)
From Coq Require Import String List Bool.
From CG Require Import Extracted.
Import ListNotations.
Local Open Scope string_scope.

Definition row := (string * string * string * string)%type.
Definition param_is (p : string) (r : row) : bool := let '(_, _, q, _) := r in String.eqb p q.
Definition fn_is (o f : string) (r : row) : bool := let '(o', f', _, _) := r in String.eqb o o' && String.eqb f f'.
Definition value_of (r : row) : string := let '(_, _, _, v) := r in v.
Definition owner_fn (r : row) : string * string := let '(o, f, _, _) := r in (o, f).

(** every parameter called [p] has the default [v]; and it occurs in exactly the listed functions *)
Definition all_defaults (p v : string) : bool :=
  forallb (fun r => String.eqb (value_of r) v) (filter (param_is p) public_defaults).
Definition functions_with (p : string) : list (string * string) :=
  map owner_fn (filter (param_is p) public_defaults).
Definition default_of (o f p : string) : option string :=
  match filter (fun r => fn_is o f r && param_is p r) public_defaults with
  | [r] => Some (value_of r)
  | _ => None
  end.

Definition pair_eqb (a b : string * string) : bool := String.eqb (fst a) (fst b) && String.eqb (snd a) (snd b).
Fixpoint list_eqb {A} (e : A -> A -> bool) (l1 l2 : list A) : bool :=
  match l1, l2 with
  | [], [] => true
  | x :: t1, y :: t2 => e x y && list_eqb e t1 t2
  | _, _ => false
  end.
Definition has_default (o f p v : string) : bool :=
  match default_of o f p with Some w => String.eqb v w | None => false end.

(** C02 *)
Definition validate_defaults_ok : bool :=
  all_defaults "validate" "True" &&
  list_eqb pair_eqb (functions_with "validate")
    [("Skeleton", "from_adjacency_matrix"); ("Skeleton", "from_networkx"); ("Skeleton", "from_gml_string");
     ("CausalGraph", "_set_edge"); ("CausalGraph", "add_edge"); ("CausalGraph", "add_edges_from");
     ("CausalGraph", "add_edges_from_paths"); ("CausalGraph", "add_edge_by_pair"); ("CausalGraph", "from_dict");
     ("CausalGraph", "from_networkx"); ("CausalGraph", "from_skeleton"); ("CausalGraph", "from_gml_string");
     ("CausalGraph", "from_adjacency_matrix"); ("TimeSeriesCausalGraph", "add_time_edge");
     ("TimeSeriesCausalGraph", "from_adjacency_matrices")].

(** C01 / C03 *)
Definition mutator_defaults_ok : bool :=
  has_default "CausalGraph" "add_edge" "edge_type" "EdgeType.DIRECTED_EDGE" &&
  has_default "CausalGraph" "add_edge_by_pair" "edge_type" "EdgeType.DIRECTED_EDGE" &&
  has_default "Edge" "__init__" "edge_type" "EdgeType.DIRECTED_EDGE" &&
  has_default "TimeSeriesEdge" "__init__" "edge_type" "EdgeType.DIRECTED_EDGE" &&
  has_default "CausalGraph" "delete_edge" "edge_type" "None" &&
  has_default "CausalGraph" "remove_edge" "edge_type" "None" &&
  has_default "CausalGraph" "remove_edge_by_pair" "edge_type" "None" &&
  has_default "TimeSeriesCausalGraph" "delete_edge" "edge_type" "None" &&
  has_default "CausalGraph" "replace_edge" "edge_type" "None" &&
  has_default "CausalGraph" "replace_edge" "meta" "None" &&
  has_default "CausalGraph" "get_edge" "edge_type" "None" &&
  has_default "CausalGraph" "get_edges" "edge_type" "None" &&
  has_default "CausalGraph" "edge_exists" "edge_type" "None" &&
  all_defaults "meta" "None" &&
  all_defaults "variable_type" "NodeVariableType.UNSPECIFIED" &&
  has_default "CausalGraph" "replace_node" "new_node_id" "None" &&
  has_default "CausalGraph" "__init__" "fully_connected" "True" &&
  has_default "TimeSeriesCausalGraph" "__init__" "fully_connected" "False".

(** C05 / C07 *)
Definition serialisation_and_equality_defaults_ok : bool :=
  all_defaults "include_meta" "True" && all_defaults "deep" "False" &&
  list_eqb pair_eqb (functions_with "deep")
    [("Skeleton", "__eq__"); ("CausalGraph", "__eq__"); ("Node", "__eq__"); ("TimeSeriesNode", "__eq__"); ("Edge", "__eq__")].

(** C08 *)
Definition matrix_constructor_defaults_ok : bool :=
  has_default "TimeSeriesCausalGraph" "from_adjacency_matrices" "construct_minimal" "True" &&
  has_default "TimeSeriesCausalGraph" "from_adjacency_matrices" "variable_names" "None" &&
  all_defaults "node_names" "None" && all_defaults "graph_class" "None".

(** C10 / C13 *)
Definition topological_order_defaults_ok : bool :=
  all_defaults "return_all" "False" && all_defaults "respect_time_ordering" "True" &&
  list_eqb pair_eqb (functions_with "return_all")
    [("CausalGraph", "get_topological_order"); ("TimeSeriesCausalGraph", "get_topological_order")].

(** C11 *)
Definition separation_set_defaults_ok : bool := all_defaults "separation_set" "None".

(** C12 *)
Definition time_series_node_defaults_ok : bool :=
  has_default "TimeSeriesCausalGraph" "get_nodes_at_lag" "time_lag" "0" &&
  has_default "TimeSeriesCausalGraph" "add_node" "time_lag" "None" &&
  has_default "TimeSeriesCausalGraph" "add_node" "variable_name" "None" &&
  has_default "TimeSeriesCausalGraph" "replace_node" "time_lag" "None" &&
  has_default "TimeSeriesCausalGraph" "replace_node" "variable_name" "None" &&
  has_default "TimeSeriesNode" "__init__" "identifier" "None" &&
  has_default "TimeSeriesNode" "__init__" "time_lag" "None" &&
  has_default "TimeSeriesNode" "__init__" "variable_name" "None".

(** C15 *)
Definition extend_graph_defaults_ok : bool :=
  has_default "TimeSeriesCausalGraph" "extend_graph" "backward_steps" "None" &&
  has_default "TimeSeriesCausalGraph" "extend_graph" "forward_steps" "None" &&
  has_default "TimeSeriesCausalGraph" "extend_graph" "include_all_parents" "True".

(** C19 / C20 *)
Definition identify_defaults_ok : bool :=
  all_defaults "max_num_paths" "25" &&
  list_eqb pair_eqb (functions_with "max_num_paths") [("", "identify_instruments"); ("", "identify_mediators")] &&
  has_default "" "identify_colliders" "unshielded_only" "False".
