(** TraversalGenCycProofs.v — the function GENERATED from [CausalGraph._assert_node_does_not_depend_on_itself]
    (TraversalGenCyc.v, tools/translate_traversal.py) equals the hand-written models, for ALL inputs.  This file
    depends on TraversalGenCyc.v only (not on TraversalGenQ.v).

    - [gen_assert_no_self_dependency_equiv]: on a well-formed graph and a node of it, for EVERY fuel the generated
      while loop equals the hand model [Queries.depends_on_itself] ([Exc PyAssertionError] / [Ret tt] / [Fuel] for
      [Some true] / [Some false] / [None]); [gen_assert_no_self_dependency_spec]: fuel [|E| + 2] suffices and it
      raises iff the node lies on a directed cycle; [gen_assert_no_self_dependency_missing]: KeyError otherwise.
    - [gen_dep_loop_graph], [gen_assert_no_self_dependency_cycle_check]: the same generated loop run on the view
      of the full graph model ([Graph.graph], the state of add_edge) inherits [GraphAcyclicProofs.cycle_check].
    The proofs never quote the generated loop body: it is picked out of the goal ([set (body := ..)]), so renaming
    a local or reordering independent assignments in the Python source does not break them. *)
From Coq Require Import Relations.Relation_Operators.
From CG Require Import Base Digraph DigraphProofs Queries QueriesProofs Markov PyRt PyRtLoop TraversalGenLemmas
  TraversalGenCyc.
Set Implicit Arguments.

Section TraversalGenCycProofs.
  Variable A : Type.
  Variable eqb : A -> A -> bool.
  Hypothesis eqb_spec : forall x y, reflect (x = y) (eqb x y).

  Local Notation memb_in := (memb_in eqb eqb_spec).
  Local Notation children_in := (children_in eqb eqb_spec).
  Local Notation parents_in := (parents_in eqb eqb_spec).
  Local Notation pgd_inbound_sources := (@pgd_inbound_sources A eqb).
  Local Notation pgd_outbound_destinations := (@pgd_outbound_destinations A eqb).
  Local Notation pgd_get_node := (@pgd_get_node A eqb eqb_spec).
  Local Notation memb_rev := (@memb_rev A eqb eqb_spec).

  Theorem gen_assert_no_self_dependency_equiv (g : digraph A) :
    wf g -> forall fuel v, In v (verts g) ->
    gen__assert_node_does_not_depend_on_itself eqb fuel (pg_of_digraph eqb g) v
    = dep_out (depends_on_itself eqb fuel g v).
  Proof.
    intros Hwf fuel v Hv. unfold gen__assert_node_does_not_depend_on_itself, depends_on_itself.
    cbv zeta.
    match goal with |- py_while _ _ ?c _ ?b ?k = _ => set (cond := c); set (body := b); set (kk := k) end.
    assert (Hgen : forall fuel stack checked, (forall x, In x stack -> In x (verts g)) ->
              py_while py_top fuel cond (rev stack, rev checked) body kk
              = dep_out (dep_loop eqb fuel g v checked stack)).
    2:{ apply (Hgen fuel [v] []). intros x [<-|[]]; exact Hv. }
    clear fuel. induction fuel as [|f IH]; intros stack checked Hst; [reflexivity|].
    cbn [py_while dep_loop]. destruct stack as [|cur rest].
    - reflexivity.
    - assert (Hc : cond (rev (cur :: rest), rev checked) = true).
      { subst cond. cbv beta iota. rewrite rev_length. reflexivity. }
      rewrite Hc. subst body. cbv beta iota. rewrite py_list_pop_rev. cbn [py_bind].
      rewrite rev_length, memb_rev.
      assert (Hlen : (0 <? length checked) = negb (Nat.eqb (length checked) 0)) by (destruct checked; reflexivity).
      rewrite Hlen.
      destruct (eqb cur v && negb (Nat.eqb (length checked) 0)); [reflexivity|].
      destruct (memb eqb cur checked) eqn:Emem; cbn [negb].
      + apply IH. intros x Hx. apply Hst. right; exact Hx.
      + assert (Hcur : In cur (verts g)) by (apply Hst; left; reflexivity).
        unfold py_pg_nodes_by_identifier_getitem. cbn [pg_of_digraph pg_node_names].
        rewrite (proj2 (memb_in cur (verts g)) Hcur). cbn [py_bind].
        rewrite (@py_for_append (medge A) A).
        rewrite pgd_inbound_sources.
        assert (Hadd : py_set_add eqb (rev checked) cur = rev (cur :: checked)).
        { unfold py_set_add. rewrite memb_rev, Emem. reflexivity. }
        rewrite Hadd.
        assert (Hstk : rev rest ++ parents eqb g cur = rev (rev (parents eqb g cur) ++ rest)).
        { rewrite rev_app_distr, rev_involutive. reflexivity. }
        rewrite Hstk. apply IH.
        intros x Hx. apply in_app_or in Hx. destruct Hx as [Hx|Hx].
        * apply in_rev in Hx. apply parents_in in Hx. apply (proj2 Hwf x cur Hx).
        * apply Hst. right; exact Hx.
  Qed.

  (** [_assert_node_does_not_depend_on_itself]: with fuel [|E| + 2] the generated loop terminates; it raises
      AssertionError iff the node lies on a directed cycle and returns None otherwise. *)
  Corollary gen_assert_no_self_dependency_spec (g : digraph A) v fuel :
    wf g -> In v (verts g) -> fuel >= length (arcs g) + 2 ->
    let r := gen__assert_node_does_not_depend_on_itself eqb fuel (pg_of_digraph eqb g) v in
    (r = Exc PyAssertionError <-> path g v v) /\ (r = Ret tt <-> ~ path g v v).
  Proof.
    intros Hwf Hv Hfuel r. subst r. rewrite (gen_assert_no_self_dependency_equiv Hwf fuel v Hv).
    destruct (@depends_on_itself_correct A eqb eqb_spec g v fuel Hfuel) as (b & Hb & Hiff).
    rewrite Hb. destruct b; cbn [dep_out].
    - split.
      + split; [intros _; apply Hiff; reflexivity|reflexivity].
      + split; [discriminate|intros Hn; exfalso; apply Hn, Hiff; reflexivity].
    - split.
      + split; [discriminate|intros Hp; apply Hiff in Hp; discriminate].
      + split; [intros _ Hp; apply Hiff in Hp; discriminate|reflexivity].
  Qed.

  (** an identifier that is not in the graph: [self._nodes_by_identifier[current]] raises KeyError *)
  Lemma gen_assert_no_self_dependency_missing (g : digraph A) v fuel :
    ~ In v (verts g) -> fuel >= 1 ->
    gen__assert_node_does_not_depend_on_itself eqb fuel (pg_of_digraph eqb g) v = Exc PyKeyError.
  Proof.
    intros Hv Hfuel. destruct fuel as [|f]; [lia|].
    unfold gen__assert_node_does_not_depend_on_itself. cbv zeta. cbn [py_while length Nat.ltb Nat.leb].
    change (py_list_pop [v]) with (Ret (@nil A, v)). cbn [py_bind length Nat.ltb Nat.leb].
    rewrite andb_false_r. cbn [memb existsb negb].
    unfold py_pg_nodes_by_identifier_getitem. cbn [pg_of_digraph pg_node_names].
    rewrite (proj2 (memb_false eqb eqb_spec v (verts g)) Hv). reflexivity.
  Qed.

End TraversalGenCycProofs.

(** * The cycle check on the full graph model (Graph.v): the generated loop inherits [cycle_check] *)
From CG Require Import Graph GraphObs GraphInv GraphAcyclicLemmas GraphAcyclicProofs.

(** The view of a [Graph.graph]: the per-node inbound / outbound identifier lists of the model are the
    sources / destinations of [_inbound_edges] / [_outbound_edges].  [is_dag()] is not used by the cycle
    check; it is a parameter of the view. *)
Definition pg_of_graph (dag : bool) (g : graph) : pygraph name :=
  {| pg_node_names := node_ids g;
     pg_inbound := fun id => match get_node g id with
                             | Some n => map (fun p => (p, id, Dir)) (ninb n)
                             | None => []
                             end;
     pg_outbound := fun id => match get_node g id with
                              | Some n => map (fun c => (id, c, Dir)) (noutb n)
                              | None => []
                              end;
     pg_is_dag := dag |}.

(** whenever the hand-written loop of Graph.v answers, the generated loop gives the same answer *)
Lemma gen_dep_loop_graph (dag : bool) (g : graph) (id : name) :
  forall fuel b,
    Graph.depends_on_itself g id = Some b -> fuel = length (gsrc g) + 2 ->
    gen__assert_node_does_not_depend_on_itself name_eqb fuel (pg_of_graph dag g) id = dep_out (Some b).
Proof.
  intros fuel b Hb ->. unfold Graph.depends_on_itself in Hb.
  unfold gen__assert_node_does_not_depend_on_itself. cbv zeta.
  match goal with |- py_while _ _ ?c _ ?bd ?k = _ => set (cond := c); set (body := bd); set (kk := k) end.
  assert (Hgen : forall fuel stack checked,
            Graph.dep_loop fuel g id checked stack = Some b ->
            py_while py_top fuel cond (rev stack, rev checked) body kk = dep_out (Some b)).
  2:{ apply (Hgen _ [id] []). exact Hb. }
  clear Hb. induction fuel as [|f IH]; intros stack checked Hrun; [discriminate|].
  cbn [py_while]. cbn [Graph.dep_loop] in Hrun. destruct stack as [|cur rest].
  - inversion Hrun; subst b. reflexivity.
  - assert (Hc : cond (rev (cur :: rest), rev checked) = true).
    { subst cond. cbv beta iota. rewrite rev_length. reflexivity. }
    rewrite Hc. subst body. cbv beta iota. rewrite py_list_pop_rev. cbn [py_bind].
    rewrite rev_length, (memb_rev name_eqb name_eqb_spec).
    assert (Hlen : (0 <? length checked) = negb (match checked with [] => true | _ => false end))
      by (destruct checked; reflexivity).
    rewrite Hlen.
    destruct (name_eqb cur id && negb (match checked with [] => true | _ => false end)).
    + inversion Hrun; subst b. reflexivity.
    + change (mem cur checked) with (memb name_eqb cur checked) in Hrun.
      destruct (memb name_eqb cur checked) eqn:Emem; cbn [negb].
      * apply IH, Hrun.
      * unfold inb_of in Hrun. destruct (get_node g cur) as [n|] eqn:En; [|discriminate].
        destruct (get_node_some _ _ _ En) as (Hin & Hnid).
        assert (Hcur : memb name_eqb cur (node_ids g) = true).
        { apply (memb_in name_eqb name_eqb_spec). unfold node_ids. rewrite <- Hnid. apply in_map, Hin. }
        unfold py_pg_nodes_by_identifier_getitem. cbn [pg_of_graph pg_node_names].
        rewrite Hcur. cbn [py_bind].
        rewrite (@py_for_append (medge name) name).
        unfold py_node_get_inbound_edges, pg_of_graph. cbn [pg_inbound]. rewrite En, map_map.
        assert (Hmap : map (fun x : name => py_edge_source_identifier (x, cur, Dir)) (ninb n) = ninb n).
        { rewrite <- (map_id (ninb n)) at 2. apply map_ext. intros x; reflexivity. }
        rewrite Hmap.
        assert (Hadd : py_set_add name_eqb (rev checked) cur = rev (cur :: checked)).
        { unfold py_set_add. rewrite (memb_rev name_eqb name_eqb_spec), Emem. reflexivity. }
        rewrite Hadd.
        assert (Hstk : rev rest ++ ninb n = rev (rev (ninb n) ++ rest)).
        { rewrite rev_app_distr, rev_involutive. reflexivity. }
        rewrite Hstk. apply IH, Hrun.
Qed.

(** The generated cycle check, run with the fuel [|E| + 2] of the hand model on a state that satisfies the
    model invariant, raises AssertionError exactly when the node lies on a directed cycle, and returns
    None otherwise ([cycle_check] transferred to the generated code). *)
Theorem gen_assert_no_self_dependency_cycle_check parse k (g : graph) (d : name) (dag : bool) :
  Inv parse k g -> In d (node_ids g) ->
  let r := gen__assert_node_does_not_depend_on_itself name_eqb (length (gsrc g) + 2) (pg_of_graph dag g) d in
  (r = Exc PyAssertionError <-> path (dgraph g) d d) /\ (r = Ret tt <-> ~ path (dgraph g) d d).
Proof.
  intros HI Hd r. destruct (@cycle_check parse k g d HI Hd) as (b & Hb & Hiff).
  assert (Hr : r = dep_out (Some b)) by (apply (gen_dep_loop_graph dag g d Hb eq_refl)).
  rewrite Hr. destruct b; cbn [dep_out].
  - split.
    + split; [intros _; apply Hiff; reflexivity|reflexivity].
    + split; [discriminate|intros Hn; exfalso; apply Hn, Hiff; reflexivity].
  - split.
    + split; [discriminate|intros Hp; apply Hiff in Hp; discriminate].
    + split; [intros _ Hp; apply Hiff in Hp; discriminate|reflexivity].
Qed.

(** * Non-vacuity and pinned values *)
Example gen_assert_equiv_ex :
  gen__assert_node_does_not_depend_on_itself Nat.eqb 7 (pg_of_digraph Nat.eqb qc) 1
  = dep_out (Queries.depends_on_itself Nat.eqb 7 qc 1).
Proof. apply (gen_assert_no_self_dependency_equiv Nat.eqb Nat.eqb_spec qc_wf). simpl; tauto. Qed.
Example gen_assert_spec_ex :
  let r := gen__assert_node_does_not_depend_on_itself Nat.eqb 7 (pg_of_digraph Nat.eqb qc) 1 in
  (r = Exc PyAssertionError <-> path qc 1 1) /\ (r = Ret tt <-> ~ path qc 1 1).
Proof. apply (gen_assert_no_self_dependency_spec Nat.eqb Nat.eqb_spec 1 qc_wf); simpl; [tauto|lia]. Qed.
(** a -> b -> c -> a, d -> a, c -> e: a, b, c depend on themselves, d and e do not; 3 units of fuel are not enough *)
Example gen_assert_ex_value :
  map (gen__assert_node_does_not_depend_on_itself Nat.eqb 7 (pg_of_digraph Nat.eqb qc)) [0; 1; 2; 3; 4; 9]
  = [Exc PyAssertionError; Exc PyAssertionError; Exc PyAssertionError; Ret tt; Ret tt; Exc PyKeyError] /\
  gen__assert_node_does_not_depend_on_itself Nat.eqb 3 (pg_of_digraph Nat.eqb qc) 1 = Fuel.
Proof. vm_compute. split; reflexivity. Qed.

(** the full graph model: the chain a -> b -> c and the unvalidated 3-cycle *)
Example gen_cycle_check_ex :
  let r := gen__assert_node_does_not_depend_on_itself name_eqb (length (gsrc (ex_chain Plain)) + 2)
             (pg_of_graph true (ex_chain Plain)) nc in
  (r = Exc PyAssertionError <-> path (dgraph (ex_chain Plain)) nc nc) /\
  (r = Ret tt <-> ~ path (dgraph (ex_chain Plain)) nc nc).
Proof. apply (gen_assert_no_self_dependency_cycle_check nc true ex_chain_inv). vm_compute. tauto. Qed.
Example gen_cycle_check_ex_value :
  gen__assert_node_does_not_depend_on_itself name_eqb (length (gsrc (ex_chain Plain)) + 2)
    (pg_of_graph true (ex_chain Plain)) nc = Ret tt /\
  map (gen__assert_node_does_not_depend_on_itself name_eqb (length (gsrc ex_cyc3) + 2) (pg_of_graph false ex_cyc3))
      [na; nb; nc] = [Exc PyAssertionError; Exc PyAssertionError; Exc PyAssertionError] /\
  gen__assert_node_does_not_depend_on_itself name_eqb (length (gsrc (ex_chain Plain)) + 1)
    (pg_of_graph true (ex_chain Plain)) nc = Fuel.
Proof. vm_compute. repeat split; reflexivity. Qed.

Print Assumptions gen_assert_no_self_dependency_equiv.
Print Assumptions gen_assert_no_self_dependency_spec.
Print Assumptions gen_assert_no_self_dependency_missing.
Print Assumptions gen_dep_loop_graph.
Print Assumptions gen_assert_no_self_dependency_cycle_check.
