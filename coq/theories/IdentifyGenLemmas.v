(** IdentifyGenLemmas.v — lemmas shared by the proofs about the functions GENERATED from
    cai_causal_graph/identify_utils.py (IdentifyGenConfProofs.v, IdentifyGenIMProofs.v,
    IdentifyGenMBProofs.v).

    This file depends on the runtime PyRt.v and on hand-written files only, NOT on any generated
    file: it compiles whatever the Python source looks like.  It contains
    - [py_loop]: a [for] loop without its continuation, and the bridge [py_for_loop];
    - facts about the iteration-order oracle ([pyorder_ok]), sets, and graphs with the same nodes
      and edges ([geq]);
    - the loop lemmas, each stated for an ARBITRARY body that satisfies an equation of the shape the
      translator produces (the equation is discharged by [reflexivity] at the point of use):
      edge-removal loops, the in-place filter loops over a snapshot, the loops over
      [enumerate(get_all_causal_paths(..))] of [identify_mediators] and [identify_instruments],
      the loops of [identify_colliders];
    - [conf_search] only depends on the nodes and edges of the graph ([gp_conf_search_geq]);
    - the guard of [identify_instruments] ([gp_cand1], [gp_inst_guard]). *)
From Coq Require Import Relations.Relation_Operators.
From CG Require Import Base Digraph DigraphProofs Identify IdentifyProofs Markov MarkovProofs PyRt.
Set Implicit Arguments.

(** * 0. Loops without their continuation *)

Section Loops.
  Variables X S R Res : Type.
  Variable inj : pyout R -> Res.

  (** The loop alone: [Cont s'] when it ends (normally or by [break]), [Done o] when the body
      returns / raises. *)
  Fixpoint py_loop (xs : list X) (s : S) (body : X -> S -> pyctl S R) : pyctl S R :=
    match xs with
    | [] => Cont s
    | x :: xs' =>
        match body x s with
        | Cont s' => py_loop xs' s' body
        | Brk s' => Cont s'
        | Done o => Done o
        end
    end.

  Lemma py_for_loop (xs : list X) (s : S) (body : X -> S -> pyctl S R) (k : S -> Res) :
    py_for inj xs s body k =
    match py_loop xs s body with
    | Cont s' => k s'
    | Brk s' => k s'
    | Done o => inj o
    end.
  Proof.
    revert s. induction xs as [|x xs IH]; intros s; simpl; [reflexivity|].
    destruct (body x s) as [s'|s'|o]; [apply IH|reflexivity|reflexivity].
  Qed.

  Lemma py_loop_ext (xs : list X) (s : S) (b1 b2 : X -> S -> pyctl S R) :
    (forall x s, b1 x s = b2 x s) -> py_loop xs s b1 = py_loop xs s b2.
  Proof.
    intros Hext. revert s. induction xs as [|x xs IH]; intros s; simpl; [reflexivity|].
    rewrite Hext. destruct (b2 x s); [apply IH|reflexivity|reflexivity].
  Qed.

  (** A body that never breaks, returns or raises is a fold. *)
  Lemma py_loop_fold (step : X -> S -> S) (xs : list X) (s : S) (body : X -> S -> pyctl S R) :
    (forall x s, body x s = Cont (step x s)) ->
    py_loop xs s body = Cont (fold_left (fun s x => step x s) xs s).
  Proof.
    intros Hb. revert s. induction xs as [|x xs IH]; intros s; simpl; [reflexivity|].
    rewrite Hb. apply IH.
  Qed.
End Loops.
Section GenLemmas.
  Variable A : Type.
  Variable eqb : A -> A -> bool.
  Hypothesis eqb_spec : forall x y, reflect (x = y) (eqb x y).
  (** the iteration-order oracle: ANY function that returns a permutation of its argument *)
  Variable ord : pyorder.
  Hypothesis ord_ok : pyorder_ok ord.

  Lemma gp_ord_in (X : Type) k (l : list X) x : In x (@ord X k l) <-> In x l.
  Proof.
    split; apply Permutation_in; [apply ord_ok|apply Permutation_sym, ord_ok].
  Qed.

  Lemma gp_ord_nodup (X : Type) k (l : list X) : NoDup l -> NoDup (@ord X k l).
  Proof. intros H. apply (Permutation_NoDup (Permutation_sym (@ord_ok X k l)) H). Qed.

  Lemma gp_ord_length (X : Type) k (l : list X) : length (@ord X k l) = length l.
  Proof. apply Permutation_length, ord_ok. Qed.

  Lemma gp_iter_set_in (X : Type) k (l : list X) x : In x (py_iter_set ord k l) <-> In x l.
  Proof. apply gp_ord_in. Qed.

  Lemma gp_iter_set_nodup (X : Type) k (l : list X) : NoDup l -> NoDup (py_iter_set ord k l).
  Proof. apply gp_ord_nodup. Qed.

  Local Notation seteq l1 l2 := (forall z : A, In z l1 <-> In z l2).

  (** * 1. Sets *)

  Lemma gp_memb_in x l : memb eqb x l = true <-> In x l.
  Proof. exact (@memb_in A eqb eqb_spec x l). Qed.

  Lemma gp_memb_false x l : memb eqb x l = false <-> ~ In x l.
  Proof. exact (@memb_false A eqb eqb_spec x l). Qed.

  Lemma gp_memb_seteq x l1 l2 : seteq l1 l2 -> memb eqb x l1 = memb eqb x l2.
  Proof.
    intros H. destruct (memb eqb x l2) eqn:E.
    - apply gp_memb_in, H, gp_memb_in. exact E.
    - apply gp_memb_false. intros Hin. apply gp_memb_false in E. apply E, H. exact Hin.
  Qed.

  Lemma gp_set_of_in x l : In x (py_set_of eqb l) <-> In x l.
  Proof. unfold py_set_of. rewrite (@union_in A eqb eqb_spec). simpl. tauto. Qed.

  Lemma gp_set_of_nodup l : NoDup (py_set_of eqb l).
  Proof. apply (@union_nil_nodup A eqb eqb_spec). Qed.

  Lemma gp_set_add_in x s a : In x (py_set_add eqb s a) <-> In x s \/ x = a.
  Proof.
    unfold py_set_add. destruct (memb eqb a s) eqn:E.
    - apply gp_memb_in in E. split; [tauto|]. intros [H| ->]; assumption.
    - rewrite in_app_iff. simpl. split.
      + intros [H|[<-|[]]]; [left; exact H|right; reflexivity].
      + intros [H| ->]; [left; exact H|right; left; reflexivity].
  Qed.

  Lemma gp_union_in x s t : In x (py_union eqb s t) <-> In x s \/ In x t.
  Proof. apply (@union_in A eqb eqb_spec). Qed.

  Lemma gp_inter_in x s t : In x (py_inter eqb s t) <-> In x s /\ In x t.
  Proof. apply (@inter_in A eqb eqb_spec). Qed.

  Lemma gp_diff_in x s t : In x (py_diff eqb s t) <-> In x s /\ ~ In x t.
  Proof. apply (@diff_in A eqb eqb_spec). Qed.

  (** * 2. Graphs with the same nodes and the same edges *)

  Definition geq (g1 g2 : digraph A) : Prop :=
    verts g1 = verts g2 /\ forall a b, arc g1 a b <-> arc g2 a b.

  Lemma geq_refl g : geq g g.
  Proof. split; [reflexivity|tauto]. Qed.

  Lemma geq_sym g1 g2 : geq g1 g2 -> geq g2 g1.
  Proof. intros [Hv Ha]. split; [symmetry; exact Hv|]. intros a b. symmetry. apply Ha. Qed.

  Lemma geq_trans g1 g2 g3 : geq g1 g2 -> geq g2 g3 -> geq g1 g3.
  Proof.
    intros [Hv1 Ha1] [Hv2 Ha2]. split; [congruence|].
    intros a b. rewrite Ha1. apply Ha2.
  Qed.

  Lemma geq_wf g1 g2 : geq g1 g2 -> wf g1 -> wf g2.
  Proof.
    intros [Hv Ha] [Hnd Hin]. split; [rewrite <- Hv; exact Hnd|].
    intros a b Hab. rewrite <- Hv. apply Hin. apply Ha. exact Hab.
  Qed.

  Lemma geq_path g1 g2 x y : geq g1 g2 -> (path g1 x y <-> path g2 x y).
  Proof.
    intros [_ Ha]. split; apply path_mono; intros a b Hab; apply Ha; exact Hab.
  Qed.

  Lemma geq_acyclic g1 g2 : geq g1 g2 -> acyclic g1 -> acyclic g2.
  Proof. intros Hg Hac v Hv. apply (Hac v). apply (geq_path v v Hg). exact Hv. Qed.

  Lemma geq_anc g1 g2 x : geq g1 g2 -> wf g1 -> seteq (anc eqb g1 x) (anc eqb g2 x).
  Proof.
    intros Hg Hwf z. rewrite (@anc_spec A eqb eqb_spec g1 x z Hwf).
    rewrite (@anc_spec A eqb eqb_spec g2 x z (geq_wf Hg Hwf)). apply geq_path. exact Hg.
  Qed.

  Lemma geq_desc g1 g2 x : geq g1 g2 -> wf g1 -> seteq (desc eqb g1 x) (desc eqb g2 x).
  Proof.
    intros Hg Hwf z. rewrite (@desc_spec A eqb eqb_spec g1 x z Hwf).
    rewrite (@desc_spec A eqb eqb_spec g2 x z (geq_wf Hg Hwf)). apply geq_path. exact Hg.
  Qed.

  Lemma geq_del g1 g2 xs : geq g1 g2 -> geq (del_arcs_from eqb g1 xs) (del_arcs_from eqb g2 xs).
  Proof.
    intros [Hv Ha]. split; [exact Hv|]. intros a b.
    rewrite !(@del_arcs_arc A eqb eqb_spec). rewrite Ha. tauto.
  Qed.

  Lemma geq_parents g1 g2 x : geq g1 g2 -> seteq (parents eqb g1 x) (parents eqb g2 x).
  Proof. intros [_ Ha] z. rewrite !(@parents_in A eqb eqb_spec). apply Ha. Qed.

  (** Removing one edge, adding one edge. *)
  Lemma gp_del_arc_arc (g : digraph A) u v a b :
    arc (py_del_arc eqb g u v) a b <-> arc g a b /\ ~ (a = u /\ b = v).
  Proof.
    unfold arc, py_del_arc; simpl. rewrite filter_In. simpl.
    rewrite negb_true_iff, andb_false_iff.
    destruct (eqb_spec a u) as [->|Hau], (eqb_spec b v) as [->|Hbv]; intuition congruence.
  Qed.

  Lemma gp_add_edge_arc (g : digraph A) u v a b :
    arc (py_nx_add_edge eqb g u v) a b <-> arc g a b \/ (a = u /\ b = v).
  Proof.
    unfold py_nx_add_edge. destruct (has_arc eqb g u v) eqn:E.
    - apply (@has_arc_spec A eqb eqb_spec) in E. split; [tauto|].
      intros [H|[-> ->]]; assumption.
    - apply add_arc_arc.
  Qed.

  Lemma gp_add_edge_verts (g : digraph A) u v : verts (py_nx_add_edge eqb g u v) = verts g.
  Proof. unfold py_nx_add_edge. destruct (has_arc eqb g u v); reflexivity. Qed.

  (** Removing the edges [n -> c] for [c] in [cs], one after the other. *)
  Fixpoint del_list (g : digraph A) (n : A) (cs : list A) : digraph A :=
    match cs with
    | [] => g
    | c :: cs' => del_list (py_del_arc eqb g n c) n cs'
    end.

  Lemma del_list_verts cs : forall g n, verts (del_list g n cs) = verts g.
  Proof. induction cs as [|c cs IH]; intros g n; simpl; [reflexivity|]. rewrite IH. reflexivity. Qed.

  Lemma del_list_arc cs : forall g n a b,
    arc (del_list g n cs) a b <-> arc g a b /\ ~ (a = n /\ In b cs).
  Proof.
    induction cs as [|c cs IH]; intros g n a b; simpl; [tauto|].
    rewrite IH, gp_del_arc_arc. intuition congruence.
  Qed.

  (** All the edges leaving [n]: the graph obtained is [del_arcs_from g [n]] up to [geq]. *)
  Lemma del_list_children (g : digraph A) n cs a b :
    (forall c, In c cs <-> arc g n c) ->
    (arc (del_list g n cs) a b <-> arc g a b /\ a <> n).
  Proof.
    intros Hcs. rewrite del_list_arc. split.
    - intros [Hab Hn]. split; [exact Hab|]. intros ->. apply Hn. split; [reflexivity|].
      apply Hcs. exact Hab.
    - intros [Hab Hn]. split; [exact Hab|]. intros [Heq _]. exact (Hn Heq).
  Qed.

  (** * 3. The two removal loops of the generated code *)

  (** the loop of the nested helper: state = (graph, removed_edges) *)
  Lemma gp_rm_loop_nx (n : A) (R : Type)
        (body : A -> digraph A * list (A * A) -> pyctl (digraph A * list (A * A)) R) :
    (forall c g re, body c (g, re) =
       py_bind py_in (py_nx_remove_edge eqb g n c)
         (fun g' => Cont (g', py_list_append re (n, c)))) ->
    forall cs g re, NoDup cs -> (forall c, In c cs -> arc g n c) ->
    py_loop cs (g, re) body = Cont (del_list g n cs, re ++ map (pair n) cs).
  Proof.
    intros Hb. induction cs as [|c cs IH]; intros g re Hnd Harc; simpl.
    - rewrite app_nil_r. reflexivity.
    - rewrite Hb. unfold py_nx_remove_edge.
      assert (E : has_arc eqb g n c = true).
      { apply (@has_arc_spec A eqb eqb_spec). apply Harc. left. reflexivity. }
      rewrite E. simpl. inversion Hnd as [|? ? Hnin Hnd']; subst.
      rewrite IH; [|exact Hnd'|].
      + unfold py_list_append. rewrite <- app_assoc. reflexivity.
      + intros c' Hc'. apply gp_del_arc_arc. split; [apply Harc; right; exact Hc'|].
        intros [_ ->]. exact (Hnin Hc').
  Qed.

  (** the loop of [identify_mediators]: state = the pruned CausalGraph *)
  Lemma gp_rm_loop_cg (n : A) (R : Type) (body : A -> digraph A -> pyctl (digraph A) R) :
    (forall c g, body c g = py_bind py_in (py_cg_remove_edge eqb g n c) (fun g' => Cont g')) ->
    forall cs g, NoDup cs -> (forall c, In c cs -> arc g n c) ->
    py_loop cs g body = Cont (del_list g n cs).
  Proof.
    intros Hb. induction cs as [|c cs IH]; intros g Hnd Harc; simpl; [reflexivity|].
    rewrite Hb. unfold py_cg_remove_edge.
    assert (E : has_arc eqb g n c = true).
    { apply (@has_arc_spec A eqb eqb_spec). apply Harc. left. reflexivity. }
    rewrite E. simpl. inversion Hnd as [|? ? Hnin Hnd']; subst.
    apply IH; [exact Hnd'|].
    intros c' Hc'. apply gp_del_arc_arc. split; [apply Harc; right; exact Hc'|].
    intros [_ ->]. exact (Hnin Hc').
  Qed.

  Lemma gp_succ_nodup k (g : digraph A) n : NoDup (py_nx_successors eqb ord k g n).
  Proof. apply gp_ord_nodup. apply (@union_nil_nodup A eqb eqb_spec). Qed.

  Lemma gp_succ_in k (g : digraph A) n c : In c (py_nx_successors eqb ord k g n) <-> arc g n c.
  Proof.
    unfold py_nx_successors. rewrite gp_ord_in, (@union_in A eqb eqb_spec), (@children_in A eqb eqb_spec).
    simpl. tauto.
  Qed.

  Lemma gp_pred_in k (g : digraph A) n p : In p (py_nx_predecessors eqb ord k g n) <-> arc g p n.
  Proof.
    unfold py_nx_predecessors. rewrite gp_ord_in, (@union_in A eqb eqb_spec), (@parents_in A eqb eqb_spec).
    simpl. tauto.
  Qed.

  Lemma gp_children_nodup k (g : digraph A) n : NoDup (py_cg_get_children eqb ord k g n).
  Proof. apply gp_ord_nodup. apply (@union_nil_nodup A eqb eqb_spec). Qed.

  Lemma gp_children_in k (g : digraph A) n c : In c (py_cg_get_children eqb ord k g n) <-> arc g n c.
  Proof.
    unfold py_cg_get_children. rewrite gp_ord_in, (@union_in A eqb eqb_spec), (@children_in A eqb eqb_spec).
    simpl. tauto.
  Qed.

  Lemma gp_parents_in k (g : digraph A) n p : In p (py_cg_get_parents eqb ord k g n) <-> arc g p n.
  Proof.
    unfold py_cg_get_parents. rewrite gp_ord_in, (@union_in A eqb eqb_spec), (@parents_in A eqb eqb_spec).
    simpl. tauto.
  Qed.

  (** the restore loop: a fold of [add_edge] *)
  Definition add_all (g : digraph A) (es : list (A * A)) : digraph A :=
    fold_left (fun g e => py_nx_add_edge eqb g (fst e) (snd e)) es g.

  Lemma add_all_verts es : forall g, verts (add_all g es) = verts g.
  Proof.
    induction es as [|e es IH]; intros g; [reflexivity|].
    unfold add_all in *. simpl. rewrite IH. apply gp_add_edge_verts.
  Qed.

  Lemma add_all_arc es : forall g a b, arc (add_all g es) a b <-> arc g a b \/ In (a, b) es.
  Proof.
    induction es as [|[u v] es IH]; intros g a b; [simpl; tauto|].
    unfold add_all in *. simpl. rewrite IH, gp_add_edge_arc. simpl.
    split.
    - intros [[H|[-> ->]]|H]; auto.
    - intros [H|[H|H]]; auto. injection H as -> ->. auto.
  Qed.

  (** * 4. [conf_search] only depends on the nodes and edges of the graph *)

  Lemma gp_collect_equiv (F F' : A -> option (list A)) l l' C :
    id_collect eqb (map F l) = Some C ->
    seteq l l' ->
    (forall p s, In p l -> F p = Some s -> exists s', F' p = Some s' /\ seteq s s') ->
    exists C', id_collect eqb (map F' l') = Some C' /\ seteq C C'.
  Proof.
    intros HC Hl HF.
    assert (Hsome : forall p, In p l -> exists s, F p = Some s).
    { intros p Hp. apply (@id_collect_all_some A eqb _ _ (F p) HC). apply in_map. exact Hp. }
    destruct (@id_collect_some A eqb (map F' l')) as [C' HC'].
    { intros o Ho. apply in_map_iff in Ho. destruct Ho as (p & <- & Hp).
      apply Hl in Hp. destruct (Hsome p Hp) as [s Hs].
      destruct (HF p s Hp Hs) as (s' & Hs' & _). rewrite Hs'. discriminate. }
    exists C'. split; [exact HC'|]. intros z.
    rewrite (@id_collect_in A eqb eqb_spec _ _ HC z), (@id_collect_in A eqb eqb_spec _ _ HC' z). split.
    - intros (s & Hs & Hz). apply in_map_iff in Hs. destruct Hs as (p & Hp & Hpl).
      destruct (HF p s Hpl Hp) as (s' & Hs' & Hss'). exists s'. split.
      + apply in_map_iff. exists p. split; [exact Hs'|apply Hl; exact Hpl].
      + apply Hss'. exact Hz.
    - intros (s' & Hs' & Hz). apply in_map_iff in Hs'. destruct Hs' as (p & Hp & Hpl').
      apply Hl in Hpl'. destruct (Hsome p Hpl') as [s Hs].
      destruct (HF p s Hpl' Hs) as (s'' & Hs'' & Hss'). exists s. split.
      + apply in_map_iff. exists p. split; [exact Hs|exact Hpl'].
      + apply Hss'. congruence.
  Qed.

  Lemma gp_conf_search_geq fuel : forall (G G' : digraph A) n1 n2 C,
    wf G -> geq G G' -> conf_search eqb fuel G n1 n2 = Some C ->
    exists C', conf_search eqb fuel G' n1 n2 = Some C' /\ seteq C C'.
  Proof.
    induction fuel as [|fuel IH]; intros G G' n1 n2 C Hwf Hg HC; [discriminate|].
    rewrite id_conf_search_S in HC. rewrite id_conf_search_S.
    set (G1 := del_arcs_from eqb G [n1; n2]) in *.
    set (G1' := del_arcs_from eqb G' [n1; n2]).
    assert (Hg1 : geq G1 G1') by (apply geq_del; exact Hg).
    assert (Hwf1 : wf G1) by (apply (@del_arcs_wf A eqb eqb_spec); exact Hwf).
    eapply gp_collect_equiv; [exact HC|apply geq_parents; exact Hg1|].
    intros p s _ Hs. cbv beta in Hs |- *.
    rewrite <- (@gp_memb_seteq p _ _ (geq_anc n2 Hg1 Hwf1)).
    destruct (memb eqb p (anc eqb G1 n2)).
    - exists s. split; [exact Hs|tauto].
    - exact (IH G1 G1' p n2 s Hwf1 Hg1 Hs).
  Qed.

  (** * 7. Loops that filter a set in place while iterating over a snapshot of it *)

  Lemma gp_filter_neq_in (c y : A) s : In y (filter (fun y => negb (eqb y c)) s) <-> In y s /\ y <> c.
  Proof.
    rewrite filter_In, negb_true_iff. destruct (eqb_spec y c); intuition congruence.
  Qed.

  (** [for c in snapshot: if cond(c): s.remove(c)]: never a KeyError, and the result is the
      filtered set.  The shape of the body is only required for the items of the snapshot that
      are still in the set (which is all the loop ever evaluates it on). *)
  Lemma gp_filter_loop (R : Type) (cond : A -> bool) (body : A -> list A -> pyctl (list A) R) :
    forall snap s,
      (forall c s, In c snap -> In c s ->
         body c s = if cond c then py_bind py_in (py_set_remove eqb s c) (fun s' => Cont s')
                    else Cont s) ->
      NoDup snap -> incl snap s ->
      exists s', py_loop snap s body = Cont s' /\
                 (NoDup s -> NoDup s') /\
                 forall y, In y s' <-> In y s /\ ~ (In y snap /\ cond y = true).
  Proof.
    induction snap as [|c snap IH]; intros s Hb Hnd Hincl.
    - exists s. simpl. split; [reflexivity|]. split; [auto|]. intros y. tauto.
    - inversion Hnd as [|? ? Hnin Hnd']; subst.
      assert (Hcs : In c s) by (apply Hincl; left; reflexivity).
      simpl. rewrite (Hb c s (or_introl eq_refl) Hcs).
      destruct (cond c) eqn:Ec.
      + unfold py_set_remove. rewrite (proj2 (gp_memb_in c s) Hcs). cbn [py_bind].
        destruct (IH (filter (fun y => negb (eqb y c)) s)) as (s' & Hl & Hnd1 & Hin).
        * intros c' s0 Hc' Hs0. apply Hb; [right; exact Hc'|exact Hs0].
        * exact Hnd'.
        * intros y Hy. apply gp_filter_neq_in. split; [apply Hincl; right; exact Hy|].
          intros ->. exact (Hnin Hy).
        * exists s'. split; [exact Hl|]. split.
          -- intros Hs. apply Hnd1. apply NoDup_filter. exact Hs.
          -- intros y. rewrite Hin, gp_filter_neq_in. split.
             ++ intros [[Hy Hne] Hn]. split; [exact Hy|].
                intros [[Heq|Hys] Hc]; [congruence|]. apply Hn. split; assumption.
             ++ intros [Hy Hn]. split; [split; [exact Hy|]|].
                ** intros ->. apply Hn. split; [left; reflexivity|exact Ec].
                ** intros [Hys Hc]. apply Hn. split; [right; exact Hys|exact Hc].
      + destruct (IH s) as (s' & Hl & Hnd1 & Hin).
        * intros c' s0 Hc' Hs0. apply Hb; [right; exact Hc'|exact Hs0].
        * exact Hnd'.
        * intros y Hy. apply Hincl. right. exact Hy.
        * exists s'. split; [exact Hl|]. split; [exact Hnd1|].
          intros y. rewrite Hin. split.
          -- intros [Hy Hn]. split; [exact Hy|].
             intros [[Heq|Hys] Hc]; [congruence|]. apply Hn. split; assumption.
          -- intros [Hy Hn]. split; [exact Hy|].
             intros [Hys Hc]. apply Hn. split; [right; exact Hys|exact Hc].
  Qed.

  (** The snapshot is a copy of the set itself, iterated in the order chosen by the oracle. *)
  Lemma gp_filter_copy (R : Type) (cond : A -> bool) (body : A -> list A -> pyctl (list A) R) k s :
    (forall c s', In c s -> In c s' ->
       body c s' = if cond c then py_bind py_in (py_set_remove eqb s' c) (fun s'' => Cont s'')
                   else Cont s') ->
    NoDup s ->
    exists s', py_loop (py_iter_set ord k (py_copy s)) s body = Cont s' /\ NoDup s' /\
               forall y, In y s' <-> In y s /\ cond y = false.
  Proof.
    intros Hb Hnd. unfold py_copy.
    destruct (@gp_filter_loop R cond body (py_iter_set ord k s) s) as (s' & Hl & Hnd' & Hin).
    - intros c s' Hc Hcs'. apply Hb; [apply (gp_iter_set_in k s c); exact Hc|exact Hcs'].
    - apply gp_iter_set_nodup. exact Hnd.
    - intros y Hy. apply (gp_iter_set_in k s y). exact Hy.
    - exists s'. split; [exact Hl|]. split; [exact (Hnd' Hnd)|].
      intros y. rewrite Hin, gp_iter_set_in. destruct (cond y); intuition congruence.
  Qed.

  (** [for z in zs: for c in s.copy(): if cond(z, c): s.remove(c)] *)
  Lemma gp_filter_outer (R : Type) (cond : A -> A -> bool) (body : A -> list A -> pyctl (list A) R) k :
    (forall z s, body z s =
       py_for py_in (py_iter_set ord k (py_copy s)) s
         (fun c s' => if cond z c then py_bind py_in (py_set_remove eqb s' c) (fun s'' => Cont s'')
                      else Cont s')
         (fun s' => Cont s')) ->
    forall zs s, NoDup s ->
      exists s', py_loop zs s body = Cont s' /\ NoDup s' /\
                 forall y, In y s' <-> In y s /\ forall z, In z zs -> cond z y = false.
  Proof.
    intros Hb. induction zs as [|z zs IH]; intros s Hnd.
    - exists s. simpl. split; [reflexivity|]. split; [exact Hnd|].
      intros y. split; [intros H; split; [exact H|intros z []]|tauto].
    - simpl. rewrite Hb, py_for_loop.
      destruct (@gp_filter_copy R (cond z) _ k s (fun c s' _ _ => eq_refl) Hnd) as (s1 & Hl & Hnd1 & Hin1).
      rewrite Hl.
      destruct (IH s1 Hnd1) as (s' & Hl' & Hnd' & Hin').
      exists s'. split; [exact Hl'|]. split; [exact Hnd'|].
      intros y. rewrite Hin', Hin1. split.
      + intros [[Hy Hz] Hall]. split; [exact Hy|]. intros z' [<-|Hz']; [exact Hz|apply Hall; exact Hz'].
      + intros [Hy Hall]. split; [split; [exact Hy|apply Hall; left; reflexivity]|].
        intros z' Hz'. apply Hall. right. exact Hz'.
  Qed.

  Lemma gp_forallb_ord (X : Type) (f : X -> bool) k (l : list X) :
    forallb f (@ord X k l) = forallb f l.
  Proof.
    destruct (forallb f l) eqn:E.
    - apply forallb_forall. intros x Hx. apply gp_ord_in in Hx.
      exact (proj1 (forallb_forall f l) E x Hx).
    - destruct (forallb f (@ord X k l)) eqn:E'; [|reflexivity]. exfalso.
      assert (Hall : forallb f l = true).
      { apply forallb_forall. intros x Hx. apply (proj1 (forallb_forall f _) E').
        apply gp_ord_in. exact Hx. }
      congruence.
  Qed.

  Lemma gp_forall_map (X Y : Type) (f : X -> Y) (P : Y -> Prop) (l : list X) :
    (forall y, In y (map f l) -> P y) <-> (forall x, In x l -> P (f x)).
  Proof.
    split.
    - intros H x Hx. apply H. apply in_map. exact Hx.
    - intros H y Hy. apply in_map_iff in Hy. destruct Hy as (x & <- & Hx). apply H. exact Hx.
  Qed.

  (** * 8. [identify_mediators] *)

  (** the loop over [enumerate(get_all_causal_paths(source, destination))] *)
  Lemma gp_med_paths_loop (R : Type) (mx : nat)
        (body : nat * list A -> list (list A) -> pyctl (list (list A)) R) :
    (forall i p cps, body (i, p) cps =
       if Nat.ltb mx i then py_in (Exc PyValueError)
       else if Nat.ltb 2 (length p) then Cont (py_list_append cps (py_set_of eqb p))
       else Cont cps) ->
    forall l i cps,
      (i + length l <= mx + 1 ->
       py_loop (combine (seq i (length l)) l) cps body =
       Cont (cps ++ map (py_set_of eqb) (filter (fun p => Nat.ltb 2 (length p)) l))) /\
      (i <= mx + 1 -> mx + 1 < i + length l ->
       py_loop (combine (seq i (length l)) l) cps body = Done (Exc PyValueError)).
  Proof.
    intros Hb. induction l as [|p l IH]; intros i cps; simpl.
    - split; [intros _; rewrite app_nil_r; reflexivity|intros H1 H2; lia].
    - rewrite Hb. split.
      + intros Hle. assert (E : Nat.ltb mx i = false) by (apply Nat.ltb_ge; lia). rewrite E.
        destruct (Nat.ltb 2 (length p)).
        * rewrite (proj1 (IH (S i) _)); [|lia]. unfold py_list_append. simpl.
          rewrite <- app_assoc. reflexivity.
        * apply (proj1 (IH (S i) cps)). lia.
      + intros H1 H2. destruct (Nat.ltb mx i) eqn:E; [reflexivity|].
        apply Nat.ltb_ge in E.
        destruct (Nat.ltb 2 (length p)); apply (proj2 (IH (S i) _)); lia.
  Qed.

  Lemma gp_fold_inter_all (rest : list (list A)) p0 m :
    In m (fold_left (inter eqb) rest p0) <-> forall q, In q (p0 :: rest) -> In m q.
  Proof.
    rewrite (@id_fold_inter_in A eqb eqb_spec). split.
    - intros [H0 Hr] q [<-|Hq]; [exact H0|apply Hr; exact Hq].
    - intros H. split; [apply H; left; reflexivity|]. intros q Hq. apply H. right. exact Hq.
  Qed.

  Lemma gp_fold_inter_nodup (rest : list (list A)) : forall p0, NoDup p0 -> NoDup (fold_left (inter eqb) rest p0).
  Proof.
    induction rest as [|q rest IH]; intros p0 Hnd; simpl; [exact Hnd|].
    apply IH. apply inter_nodup. exact Hnd.
  Qed.

  (** the loop over [enumerate(get_all_causal_paths(candidate, destination))], which removes the
      candidate and breaks at the first path that avoids the source *)
  Lemma gp_inst_paths_loop (R : Type) (mx : nat) (c src : A)
        (body : nat * list A -> list A -> pyctl (list A) R) :
    (forall i p st, body (i, p) st =
       if Nat.ltb mx i then py_in (Exc PyValueError)
       else if negb (memb eqb src p)
            then py_bind py_in (py_set_remove eqb st c) (fun st' => Brk st')
            else Cont st) ->
    forall l i st, In c st ->
      (i + length l <= mx + 1 ->
       py_loop (combine (seq i (length l)) l) st body =
       Cont (if forallb (fun p => memb eqb src p) l then st
             else filter (fun y => negb (eqb y c)) st)) /\
      (forallb (fun p => memb eqb src p) l = true -> i <= mx + 1 -> mx + 1 < i + length l ->
       py_loop (combine (seq i (length l)) l) st body = Done (Exc PyValueError)).
  Proof.
    intros Hb. induction l as [|p l IH]; intros i st Hc; simpl.
    - split; [reflexivity|intros _ H1 H2; lia].
    - rewrite Hb. split.
      + intros Hle. assert (E : Nat.ltb mx i = false) by (apply Nat.ltb_ge; lia). rewrite E.
        destruct (memb eqb src p); simpl.
        * apply (proj1 (IH (S i) st Hc)). lia.
        * unfold py_set_remove. rewrite (proj2 (gp_memb_in c st) Hc). reflexivity.
      + intros Hall H1 H2. apply andb_true_iff in Hall. destruct Hall as [Hp Hall].
        destruct (Nat.ltb mx i) eqn:E; [reflexivity|]. apply Nat.ltb_ge in E.
        rewrite Hp. simpl. apply (proj2 (IH (S i) st Hc)); [exact Hall|lia|lia].
  Qed.

  (** The candidates that reach the enumeration of causal paths (the model's [cand1]). *)
  Definition gp_cand1 (g : digraph A) (s : A) (C : list A) : list A :=
    filter (fun c => negb (existsb (fun z => memb eqb c (desc eqb g z) || memb eqb c (anc eqb g z)) C))
           (diff eqb (anc eqb g s) C).

  (** The guard: no candidate that reaches the enumeration of causal paths has more than
      [max_num_paths + 1] causal paths to the destination. *)
  Definition gp_inst_guard (g : digraph A) (s d : A) (mx : nat) : Prop :=
    forall C c ps, confounders eqb g s d = Some C -> In c (gp_cand1 g s C) ->
                   id_all_paths eqb g c d = Some ps -> length ps <= mx + 1.

  (** ** When the guard fails, [identify_instruments] raises ValueError

      A candidate that reaches the enumeration of causal paths never has a causal path to the
      destination that avoids the source (InstrumentsGen.inst_path_filter_redundant), so the
      [break] is never taken and the enumeration runs until the index exceeds [max_num_paths]. *)
  Lemma gp_inst_phase2_raises (R : Type) (g : digraph A) (s d : A) (mx k : nat)
        (body : A -> list A -> pyctl (list A) R) :
    (forall c st, body c st =
       py_bind py_in (py_cg_get_all_causal_paths eqb ord k g c d)
         (fun ps => py_for py_in (py_enumerate ps) st
            (fun '(i, p) st' =>
               if Nat.ltb mx i then py_in (Exc PyValueError)
               else if negb (memb eqb s p)
                    then py_bind py_in (py_set_remove eqb st' c) (fun st'' => Brk st'')
                    else Cont st')
            (fun st' => Cont st'))) ->
    forall snap st,
      (forall c, In c snap -> In c st /\
         exists ps, id_all_paths eqb g c d = Some ps /\ forallb (fun p => memb eqb s p) ps = true) ->
      (exists c ps, In c snap /\ id_all_paths eqb g c d = Some ps /\ mx + 1 < length ps) ->
      py_loop snap st body = Done (Exc PyValueError).
  Proof.
    intros Hb. induction snap as [|c snap IH]; intros st Hall (c0 & ps0 & Hc0 & Eps0 & Hlen0).
    - destruct Hc0.
    - simpl. rewrite Hb.
      destruct (Hall c (or_introl eq_refl)) as (Hcst & ps & Eps & Hthru).
      unfold py_cg_get_all_causal_paths. rewrite Eps. cbn [py_bind]. rewrite py_for_loop.
      unfold py_enumerate.
      match goal with |- context [combine (seq 0 (length ?l)) ?l] => set (ps' := l) end.
      assert (Hlen' : length ps' = length ps) by apply gp_ord_length.
      assert (Hthru' : forallb (fun p => memb eqb s p) ps' = true)
        by (unfold ps'; rewrite gp_forallb_ord; exact Hthru).
      destruct (Nat.leb (length ps) (mx + 1)) eqn:Ele.
      + apply Nat.leb_le in Ele.
        rewrite (proj1 (@gp_inst_paths_loop _ mx c s _ (fun _ _ _ => eq_refl) ps' 0 st Hcst)); [|simpl; lia].
        rewrite Hthru'. apply IH.
        * intros c' Hc'. apply Hall. right. exact Hc'.
        * destruct Hc0 as [<-|Hc0]; [|exists c0, ps0; split; [exact Hc0|split; assumption]].
          rewrite Eps in Eps0. injection Eps0 as <-. lia.
      + apply Nat.leb_gt in Ele.
        rewrite (proj2 (@gp_inst_paths_loop _ mx c s _ (fun _ _ _ => eq_refl) ps' 0 st Hcst));
          [reflexivity|exact Hthru'|lia|simpl; lia].
  Qed.
End GenLemmas.

(** * 9c. [identify_colliders] (graphs with arbitrary edge types) *)
Section GenCollidersLemmas.
  Variable A : Type.
  Variable eqb : A -> A -> bool.
  Hypothesis eqb_spec : forall x y, reflect (x = y) (eqb x y).
  Variable ord : pyorder.
  Hypothesis ord_ok : pyorder_ok ord.

  (** the list of pairs built from [get_bidirected_edges()] *)
  Lemma gc_pair_memb_bi (mg : list (medge A)) a b :
    py_pair_memb eqb (a, b)
      (map (fun e => (py_edge_source_identifier e, py_edge_destination_identifier e))
           (filter (fun e => etype_eqb (mty e) Bi) mg))
    = mg_bi_stored eqb mg a b.
  Proof.
    unfold py_pair_memb, mg_bi_stored, py_edge_source_identifier, py_edge_destination_identifier.
    cbn [fst snd].
    induction mg as [|e mg IH]; [reflexivity|].
    cbn [filter map existsb]. destruct (etype_eqb (mty e) Bi); cbn [map existsb fst snd].
    - rewrite IH, andb_true_r. reflexivity.
    - rewrite IH, andb_false_r. reflexivity.
  Qed.

  (** adding distinct new elements to a set one by one appends them *)
  Lemma gc_fold_add (f : A -> bool) l : forall acc,
    NoDup l -> (forall x, In x l -> ~ In x acc) ->
    fold_left (fun pp x => if f x then py_set_add eqb pp x else pp) l acc = acc ++ filter f l.
  Proof.
    induction l as [|x l IH]; intros acc Hnd Hnin; simpl; [rewrite app_nil_r; reflexivity|].
    inversion Hnd as [|? ? Hx Hnd']; subst.
    destruct (f x).
    - unfold py_set_add at 2.
      rewrite (proj2 (@memb_false A eqb eqb_spec x acc) (Hnin x (or_introl eq_refl))).
      rewrite IH; [rewrite <- app_assoc; reflexivity|exact Hnd'|].
      intros y Hy Hin. apply in_app_iff in Hin. destruct Hin as [Hin|[<-|[]]].
      + exact (Hnin y (or_intror Hy) Hin).
      + exact (Hx Hy).
    - apply IH; [exact Hnd'|]. intros y Hy. apply Hnin. right. exact Hy.
  Qed.

  (** the loop over [combinations(potential_parents, 2)] *)
  Lemma gc_unshielded_loop (R : Type) (mg : list (medge A))
        (body : A * A -> bool -> pyctl bool R) :
    (forall p q st, body (p, q) st =
       if mg_edge_exists eqb mg p q || mg_edge_exists eqb mg q p then Brk false else Cont st) ->
    forall l,
      py_loop l true body =
      Cont (forallb (fun pq => negb (mg_edge_exists eqb mg (fst pq) (snd pq)
                                     || mg_edge_exists eqb mg (snd pq) (fst pq))) l).
  Proof.
    intros Hb. induction l as [|[p q] l IH]; simpl; [reflexivity|].
    rewrite Hb. destruct (mg_edge_exists eqb mg p q || mg_edge_exists eqb mg q p); simpl;
      [reflexivity|exact IH].
  Qed.

  (** the test on the potential parents only depends on them as a SET *)
  Lemma gc_unshieldedb_seteq (mg : list (medge A)) l1 l2 :
    NoDup l1 -> NoDup l2 -> (forall x, In x l1 <-> In x l2) ->
    unshieldedb eqb mg l1 = unshieldedb eqb mg l2.
  Proof.
    intros H1 H2 Heq.
    destruct (unshieldedb eqb mg l2) eqn:E2.
    - apply (@unshieldedb_spec A eqb eqb_spec mg l1 H1).
      intros p q Hp Hq. apply (proj1 (@unshieldedb_spec A eqb eqb_spec mg l2 H2) E2); apply Heq; assumption.
    - destruct (unshieldedb eqb mg l1) eqn:E1; [|reflexivity]. exfalso.
      assert (E : unshieldedb eqb mg l2 = true).
      { apply (@unshieldedb_spec A eqb eqb_spec mg l2 H2).
        intros p q Hp Hq. apply (proj1 (@unshieldedb_spec A eqb eqb_spec mg l1 H1) E1); apply Heq; assumption. }
      congruence.
  Qed.
End GenCollidersLemmas.

Definition gen_seteq (l1 l2 : list nat) : Prop := forall z, In z l1 <-> In z l2.

(** The two concrete iteration orders of PyRt.v are permutations. *)
Lemma pyorder_id_ok : pyorder_ok pyorder_id.
Proof. intros X k l. apply Permutation_refl. Qed.

Lemma pyorder_alt_ok : pyorder_ok pyorder_alt.
Proof.
  intros X k l. unfold pyorder_alt. destruct (Nat.odd k); [|apply Permutation_refl].
  apply Permutation_sym, Permutation_rev.
Qed.

