(** Spec.v — the ABSTRACT REFERENCE MODEL of CausalGraph / TimeSeriesCausalGraph (property C01)
    and the abstraction function from the concrete model of Graph.v (DEFINITIONS ONLY; the
    refinement theorems are in SpecProofs.v).

    An abstract state is a MIXED GRAPH:
      [a_nodes] : the nodes, a finite map  name -> (variable type, metadata)  kept as an
                  association list with unique keys, in insertion order (the order is observable
                  only through the time-series lookups get_nodes_at_lag / get_nodes_for_variable);
      [a_edges] : the edges [{esrc; edst; ety; emeta}], a finite set with AT MOST ONE edge between
                  two nodes whatever the orientation, no self loop, endpoints among the nodes;
                  kept sorted by (source, destination) so that equal sets are equal lists.
    Nothing else: no mirrored by-destination index, no per-node parent/child lists, no lag /
    variable indexes, no edge insertion order.

    Every public mutator is a small function [aspec -> ... -> res aspec]: either the new state
    or the documented error, the state being unchanged on error BY DEFINITION ([s_lift]).  The
    bulk adders are folds that stop at the first error and keep what was done. *)
From CG Require Import Base Digraph Graph GraphObs.
Set Implicit Arguments.

Record aspec := {
  a_nodes : list (name * (vtype * meta));
  a_edges : list edge
}.

Definition a_empty : aspec := {| a_nodes := []; a_edges := [] |}.

(** * The abstraction function: forget the index duplication, the per-node directed lists,
    the lag / variable indexes and the insertion order of the edges. *)
Definition abs_node (n : node) : name * (vtype * meta) := (nid n, (nvt n, nmeta n)).
Definition abs (g : graph) : aspec :=
  {| a_nodes := map abs_node (gnodes g); a_edges := sorted_edges g |}.

(** * Lookups *)
Definition a_ids (a : aspec) : list name := map fst (a_nodes a).
Definition a_has_node (a : aspec) (id : name) : bool :=
  match lookup id (a_nodes a) with Some _ => true | None => false end.
Definition a_edge_at (a : aspec) (s d : name) : option edge := find_edge s d (a_edges a).
(** the time lag of a node: its reserved metadata tag (= the lag parsed from its name, [spec_wf]) *)
Definition a_lag (a : aspec) (id : name) : option Z :=
  match lookup id (a_nodes a) with Some (_, m) => meta_lag m | None => None end.

(** the directed part, as a Digraph.digraph *)
Definition a_dgraph (a : aspec) : digraph name :=
  {| verts := a_ids a;
     arcs := map edge_key (filter (fun e => etype_eqb (ety e) Dir) (a_edges a)) |}.

Definition incident (id : name) (e : edge) : bool := name_eqb id (esrc e) || name_eqb id (edst e).

(** elementary state changes *)
Definition a_push_node (a : aspec) (id : name) (vt : vtype) (m : meta) : aspec :=
  {| a_nodes := a_nodes a ++ [(id, (vt, m))]; a_edges := a_edges a |}.
Definition a_set_node (a : aspec) (id : name) (vt : vtype) (m : meta) : aspec :=
  {| a_nodes := map (fun p => if name_eqb id (fst p) then (id, (vt, m)) else p) (a_nodes a);
     a_edges := a_edges a |}.
Definition a_remove_node (a : aspec) (id : name) : aspec :=
  {| a_nodes := remove_key id (a_nodes a);
     a_edges := filter (fun e => negb (incident id e)) (a_edges a) |}.
Definition a_insert_edge (a : aspec) (e : edge) : aspec :=
  {| a_nodes := a_nodes a; a_edges := insert pair_leb_e e (a_edges a) |}.
Definition a_remove_edge (a : aspec) (s d : name) : aspec :=
  {| a_nodes := a_nodes a; a_edges := drop_edge s d (a_edges a) |}.

Definition dflt (m : option meta) : meta := match m with Some x => x | None => [] end.

Definition s_lift (a : aspec) (r : res aspec) : res aspec * aspec :=
  match r with Ok a' => (Ok a', a') | Err x => (Err x, a) end.

(** sequential composition stopping at the first error, remembering the state reached *)
Definition s_okstep {X} (F : aspec -> X -> res aspec * aspec) (acc : res aspec * aspec) (x : X)
  : res aspec * aspec :=
  match acc with
  | (Ok a', _) => F a' x
  | (Err e, al) => (Err e, al)
  end.
Definition s_seq {X} (F : aspec -> X -> res aspec * aspec) (a : aspec) (xs : list X)
  : res aspec * aspec :=
  fold_left (s_okstep F) xs (Ok a, a).

Section Spec.
  (** the name codec of the time-series class: [None] = ValueError *)
  Variable parse : name -> option (name * Z).
  Variable fmt : name -> Z -> option name.
  Variable k : kind.

  (** * Well-formed abstract states *)
  Record spec_wf (a : aspec) : Prop := {
    wf_nodes : NoDup (a_ids a);
    wf_sorted : StronglySorted (Base.le pair_leb_e) (a_edges a);
    wf_keys : NoDup (map edge_key (a_edges a));
    wf_endpoints : forall e, In e (a_edges a) -> In (esrc e) (a_ids a) /\ In (edst e) (a_ids a);
    wf_noloop : forall e, In e (a_edges a) -> esrc e <> edst e;
    wf_one_per_pair : forall e, In e (a_edges a) ->
      ~ In (edst e, esrc e) (map edge_key (a_edges a));
    (** time-series class: the reserved tags of a node are the parse of its name, and no
        edge points backwards in time *)
    wf_ts_nodes : k = TS -> forall id vt m, In (id, (vt, m)) (a_nodes a) ->
      exists v l, parse id = Some (v, l) /\ meta_var m = Some v /\ meta_lag m = Some l;
    wf_ts_time : k = TS -> forall e, In e (a_edges a) ->
      exists ls ld, a_lag a (esrc e) = Some ls /\ a_lag a (edst e) = Some ld /\ (ls <= ld)%Z
  }.

  (** * add_node *)

  (** the metadata a new node gets: the time-series class derives the reserved tags from the
      name and rejects a name it cannot parse *)
  Definition s_node_meta (id : name) (m : meta) : res meta :=
    match k with
    | Plain => Ok m
    | TS => match parse id with
            | None => Err EValue
            | Some (v, l) => Ok (set_tags v l m)
            end
    end.

  Definition s_add_node (a : aspec) (id : name) (vt : vtype) (m : meta) : res aspec :=
    bind (s_node_meta id m) (fun m' =>
      if a_has_node a id then Err ENodeDup else Ok (a_push_node a id vt m')).

  Definition s_add_node_vl (a : aspec) (v : name) (l : Z) (vt : vtype) (m : meta) : res aspec :=
    match k with
    | Plain => Err EType
    | TS => match fmt v l with
            | None => Err EValue
            | Some id => s_add_node a id vt m
            end
    end.

  (** * delete_edge / delete_node *)
  Definition s_delete_edge (a : aspec) (s d : name) (oty : option etype) : res aspec :=
    if negb (a_has_node a s) then Err ENodeMissing
    else if negb (a_has_node a d) then Err ENodeMissing
    else match a_edge_at a s d with
         | None => Err EEdgeMissing
         | Some e =>
             if match oty with Some t => negb (etype_eqb t (ety e)) | None => false end
             then Err EEdgeMissing
             else Ok (a_remove_edge a s d)
         end.

  Definition s_delete_node (a : aspec) (id : name) : res aspec :=
    if a_has_node a id then Ok (a_remove_node a id) else Err EKey.

  (** * add_edge: the decision table, in the order of the checks of the implementation *)

  (** an endpoint that is not a node yet is created (a string gets the defaults) *)
  Definition s_add_endpoint (a : aspec) (p : endpoint) : res aspec :=
    if a_has_node a (fst p) then Ok a
    else match snd p with
         | None => s_add_node a (fst p) VUnspec []
         | Some (vt, m) => s_add_node a (fst p) vt m
         end.

  (** time-series orientation: a non-directed edge given later -> earlier is swapped, a
      directed one against time is refused *)
  Definition s_orient (a : aspec) (s d : name) (ty : etype) : res (name * name) :=
    match k with
    | Plain => Ok (s, d)
    | TS =>
        match a_lag a s, a_lag a d with
        | Some ls, Some ld =>
            if (ld <? ls)%Z then
              if etype_eqb ty Dir then Err EValue else Ok (d, s)
            else Ok (s, d)
        | _, _ => Err EValue
        end
    end.

  (** after the tentative insertion of the edge [.. -> d], [d] lies on a directed cycle
      ([reachb] = reachability by a directed path of length >= 1, Digraph.v) *)
  Definition s_closes_cycle (a : aspec) (d : name) : bool := reachb name_eqb (a_dgraph a) d d.

  (** the oriented edge [s -> d] between two existing nodes *)
  Definition s_set_edge (a : aspec) (s d : name) (ty : etype) (m : meta) (validate : bool)
    : res aspec :=
    match a_edge_at a s d with
    | Some _ => Err EEdgeDup                                            (* duplicate *)
    | None =>
        match a_edge_at a d s with
        | Some _ => Err EReverse                                        (* the reverse edge *)
        | None =>
            let a3 := a_insert_edge a {| esrc := s; edst := d; ety := ty; emeta := m |} in
            if validate && s_closes_cycle a3 d then Err ECyclic         (* cycle *)
            else Ok a3
        end
    end.

  Definition s_add_edge (a : aspec) (sp dp : endpoint) (ty : etype) (m : meta) (validate : bool)
    : res aspec :=
    let s := fst sp in
    let d := fst dp in
    if name_eqb s d then Err ECyclic                                   (* self loop *)
    else
      bind (s_add_endpoint a sp) (fun a1 =>                             (* implicit nodes *)
      bind (s_add_endpoint a1 dp) (fun a2 =>
        match a_edge_at a s d with
        | Some _ => Err EEdgeDup                                        (* the edge as given *)
        | None =>
            bind (s_orient a2 s d ty) (fun sd =>                        (* against time *)
              s_set_edge a2 (fst sd) (snd sd) ty m validate)
        end)).

  Definition s_add_time_edge (a : aspec) (sv : name) (st : Z) (dv : name) (dt : Z) (m : meta)
    (validate : bool) : res aspec :=
    match k with
    | Plain => Err EType
    | TS =>
        match fmt sv st with
        | None => Err EValue
        | Some s =>
            match fmt dv dt with
            | None => Err EValue
            | Some d => s_add_edge a (str_ep s) (str_ep d) Dir m validate
            end
        end
    end.

  (** * change_edge_type / replace_edge: remove the edge, add the new one with validation *)
  Definition s_change_edge_type (a : aspec) (s d : name) (ty : etype) : res aspec :=
    match a_edge_at a s d with
    | None => Err EEdgeMissing
    | Some e =>
        if etype_eqb (ety e) ty then Ok a
        else bind (s_delete_edge a s d (Some (ety e))) (fun a1 =>
               s_add_edge a1 (str_ep s) (str_ep d) ty (emeta e) true)
    end.

  Definition s_replace_edge (a : aspec) (s d s' d' : name) (oty : option etype) (om : option meta)
    : res aspec :=
    match a_edge_at a s d with
    | None => Err EEdgeMissing
    | Some e =>
        match a_edge_at a s' d' with
        | Some _ => Err EEdgeExists
        | None =>
            let ty := match oty with Some t => t | None => ety e end in
            let m := match om with Some x => x | None => emeta e end in
            bind (s_delete_edge a s d None) (fun a1 =>
              s_add_edge a1 (str_ep s') (str_ep d') ty m true)
        end
    end.

  (** * replace_node *)
  Definition s_edge_call (a : aspec) (c : endpoint * endpoint * etype * meta) : res aspec * aspec :=
    let '(sp, dp, ty, m) := c in s_lift a (s_add_edge a sp dp ty m true).

  (** [vt] / [m] = [None]: keep the old variable type / metadata.  In place: the node is
      updated.  Renaming: the new node is added, every edge into / out of the old node is
      copied onto it (validated adds, by (source, destination)), the old node is deleted. *)
  Definition s_replace_node_base (a : aspec) (id : name) (new_id : option name)
    (vt : option vtype) (m : option meta) : res aspec :=
    match lookup id (a_nodes a) with
    | None => Err EAssert
    | Some (vt0, m0) =>
        let vt' := match vt with Some t => t | None => vt0 end in
        let m' := match m with Some x => x | None => m0 end in
        match new_id with
        | None => Ok (a_set_node a id vt' m')
        | Some id' =>
            if a_has_node a id' then Err EAssert
            else
              bind (s_add_node a id' vt' m') (fun a1 =>
                let calls :=
                  map (fun e => (str_ep (esrc e), str_ep id', ety e, emeta e))
                    (filter (fun e => name_eqb id (edst e)) (a_edges a1))
                  ++ map (fun e => (str_ep id', str_ep (edst e), ety e, emeta e))
                       (filter (fun e => name_eqb id (esrc e)) (a_edges a1)) in
                bind (fst (s_seq s_edge_call a1 calls)) (fun a2 => s_delete_node a2 id))
        end
    end.

  (** the arguments of the time-series override: the re-lagging form computes the new name;
      metadata given for an in-place update gets the reserved tags back *)
  Definition ts_new_id (id : name) (new_id : option name) (lag : option Z) (var : option name)
    : res (option name) :=
    match new_id with
    | Some x =>
        match lag, var with
        | None, None => Ok (Some x)
        | _, _ => Err EAssert
        end
    | None =>
        match lag, var with
        | None, None => Ok None
        | _, _ =>
            match parse id with
            | None => Err EValue
            | Some (dv, dl) =>
                let l := match lag with Some x => x | None => dl end in
                let v := match var with Some x => x | None => dv end in
                match fmt v l with
                | None => Err EValue
                | Some x => Ok (Some x)
                end
            end
        end
    end.
  Definition ts_new_meta (id : name) (nid' : option name) (m : option meta) : res (option meta) :=
    match nid', m with
    | None, Some mm =>
        match parse id with
        | None => Err EValue
        | Some (cv, cl) => Ok (Some (set_tags cv cl mm))
        end
    | _, _ => Ok m
    end.

  Definition s_replace_node (a : aspec) (id : name) (new_id : option name)
    (lag : option Z) (var : option name) (vt : option vtype) (m : option meta) : res aspec :=
    match k with
    | Plain =>
        match lag, var with
        | None, None => s_replace_node_base a id new_id vt m
        | _, _ => Err EType
        end
    | TS =>
        bind (ts_new_id id new_id lag var) (fun nid' =>
          bind (ts_new_meta id nid' m) (fun m' => s_replace_node_base a id nid' vt m'))
    end.

  (** * Bulk adders *)
  Definition s_add_nodes_from (a : aspec) (ids : list name) : res aspec * aspec :=
    s_seq (fun a' id => s_lift a' (s_add_node a' id VUnspec [])) a ids.

  Definition s_add_edges_from (a : aspec) (pairs : list (name * name)) (validate : bool)
    : res aspec * aspec :=
    s_seq (fun a' p => s_lift a' (s_add_edge a' (str_ep (fst p)) (str_ep (snd p)) Dir [] validate))
      a pairs.

  Definition s_add_fully_connected (a : aspec) (ins outs : list name) : res aspec * aspec :=
    s_add_edges_from a (flat_map (fun i => map (fun o => (i, o)) outs) ins) true.

  (** an edge of the path that exists already (in the direction of the path) is skipped *)
  Definition s_add_path (a : aspec) (path : list name) (validate : bool) : res aspec * aspec :=
    match path with
    | [] => (Err EAssert, a)
    | _ =>
        s_seq (fun a' p =>
                 match a_edge_at a' (fst p) (snd p) with
                 | Some _ => (Ok a', a')
                 | None => s_lift a' (s_add_edge a' (str_ep (fst p)) (str_ep (snd p)) Dir []
                                        validate)
                 end) a (pairwise path)
    end.

  Definition s_add_paths (a : aspec) (paths : list (list name)) : res aspec * aspec :=
    match paths with
    | [] => (Err EAssert, a)
    | _ => s_seq (fun a' p => s_add_path a' p true) a paths
    end.

  (** * Whole calls: (outcome, state left behind) *)
  Definition s_run_op (a : aspec) (o : op) : res aspec * aspec :=
    match o with
    | OAddNode id vt m => s_lift a (s_add_node a id vt (dflt m))
    | OAddNodeObj id vt m => s_lift a (s_add_node a id vt m)
    | OAddNodeVL v l vt m => s_lift a (s_add_node_vl a v l vt (dflt m))
    | OAddNodesFrom ids => s_add_nodes_from a ids
    | OAddFullyConnected ins outs => s_add_fully_connected a ins outs
    | ODeleteNode id => s_lift a (s_delete_node a id)
    | OReplaceNode id new_id lag var vt m => s_lift a (s_replace_node a id new_id lag var vt m)
    | OAddEdge sp dp ty m validate => s_lift a (s_add_edge a sp dp ty (dflt m) validate)
    | OAddEdgesFrom pairs validate => s_add_edges_from a pairs validate
    | OAddPath path validate => s_add_path a path validate
    | OAddPaths paths => s_add_paths a paths
    | OAddTimeEdge sv st dv dt m validate =>
        s_lift a (s_add_time_edge a sv st dv dt (dflt m) validate)
    | ODeleteEdge s d oty => s_lift a (s_delete_edge a s d oty)
    | OChangeEdgeType s d ty => s_lift a (s_change_edge_type a s d ty)
    | OReplaceEdge s d s' d' oty om => s_lift a (s_replace_edge a s d s' d' oty om)
    end.

  Definition s_step (a : aspec) (o : op) : aspec := snd (s_run_op a o).
  Definition s_outcome (a : aspec) (o : op) : option err :=
    match fst (s_run_op a o) with Ok _ => None | Err x => Some x end.
  Definition s_run (ops : list op) (a : aspec) : aspec := fold_left s_step ops a.

  (** the outcomes of a history, concrete and abstract *)
  Fixpoint outcomes (g : graph) (ops : list op) : list (option err) :=
    match ops with
    | [] => []
    | o :: r => outcome parse fmt k g o :: outcomes (step parse fmt k g o) r
    end.
  Fixpoint s_outcomes (a : aspec) (ops : list op) : list (option err) :=
    match ops with
    | [] => []
    | o :: r => s_outcome a o :: s_outcomes (s_step a o) r
    end.
End Spec.

(** * The read views as functions of the abstract state alone *)

Definition a_node_leb (p q : name * (vtype * meta)) : bool := name_leb (fst p) (fst q).
Definition a_nodes_sorted (a : aspec) : list (name * (vtype * meta)) := isort a_node_leb (a_nodes a).

Definition a_node_list (a : aspec) : list (name * vtype * meta) :=
  map (fun p => (fst p, fst (snd p), snd (snd p))) (a_nodes_sorted a).
Definition a_node_names (a : aspec) : list name := map fst (a_nodes_sorted a).

Definition a_edge_list (a : aspec) : list edge := a_edges a.
Definition a_edges_from (a : aspec) (n : name) : list edge :=
  filter (fun e => name_eqb n (esrc e)) (a_edges a).
Definition a_edges_into (a : aspec) (n : name) : list edge :=
  filter (fun e => name_eqb n (edst e)) (a_edges a).

Definition a_get_edge (a : aspec) (s d : name) (oty : option etype) : res edge :=
  match a_edge_at a s d with
  | None => Err EEdgeMissing
  | Some e =>
      match oty with
      | Some t => if etype_eqb t (ety e) then Ok e else Err EEdgeMissing
      | None => Ok e
      end
  end.
Definition a_edge_exists (a : aspec) (s d : name) (oty : option etype) : bool :=
  match a_edge_at a s d with
  | None => false
  | Some e => match oty with Some t => etype_eqb t (ety e) | None => true end
  end.

Definition a_parents (a : aspec) (n : name) : res (list name) :=
  if a_has_node a n then
    Ok (sort_names (map esrc (filter (fun e => etype_eqb (ety e) Dir && name_eqb n (edst e))
                                (a_edges a))))
  else Err EAssert.
Definition a_children (a : aspec) (n : name) : res (list name) :=
  if a_has_node a n then
    Ok (sort_names (map edst (filter (fun e => etype_eqb (ety e) Dir && name_eqb n (esrc e))
                                (a_edges a))))
  else Err EAssert.
Definition a_neighbors (a : aspec) (n : name) : res (list name) :=
  if a_has_node a n then
    Ok (sort_names (dedup (filter (fun x => negb (name_eqb x n))
                             (map edst (a_edges_from a n) ++ map esrc (a_edges_into a n)))))
  else Err EAssert.

Definition a_inputs (a : aspec) : list name :=
  filter (fun n => match a_edges_into a n with [] => true | _ => false end) (a_node_names a).
Definition a_outputs (a : aspec) : list name :=
  filter (fun n => match a_edges_from a n with [] => true | _ => false end) (a_node_names a).

Definition a_edges_of_type (a : aspec) (t : etype) : list edge :=
  filter (fun e => etype_eqb (ety e) t) (a_edges a).
Definition a_nondirected (a : aspec) : list edge :=
  filter (fun e => negb (etype_eqb (ety e) Dir)) (a_edges a).

(** time-series lookups: scans of the nodes in insertion order *)
Definition a_nodes_at_lag (a : aspec) (l : Z) : list name :=
  map fst (filter (fun p => match meta_lag (snd (snd p)) with
                            | Some l' => Z.eqb l' l | None => false end) (a_nodes a)).
Definition a_nodes_for_var (a : aspec) (v : name) : list name :=
  map fst (filter (fun p => match meta_var (snd (snd p)) with
                            | Some v' => name_eqb v' v | None => false end) (a_nodes a)).
Definition a_contemporaneous (a : aspec) (n : name) : res (list name) :=
  match lookup n (a_nodes a) with
  | None => Err EKey
  | Some (_, m) =>
      match meta_lag m with
      | None => Err EValue
      | Some l => Ok (filter (fun y => negb (name_eqb y n)) (a_nodes_at_lag a l))
      end
  end.
Definition a_variables (a : aspec) : res (list name) :=
  match all_some (map (fun p => meta_var (snd (snd p))) (a_nodes_sorted a)) with
  | None => Err EValue
  | Some vs => Ok (sort_names (dedup vs))
  end.
Definition a_node_lags (a : aspec) : res (list Z) :=
  match all_some (map (fun p => meta_lag (snd (snd p))) (a_nodes_sorted a)) with
  | None => Err EValue
  | Some ls => Ok ls
  end.
Definition a_max_backward (a : aspec) : res (option Z) :=
  bind (a_node_lags a) (fun ls =>
    Ok (match zmin_list (filter (fun z => (z <=? 0)%Z) ls) with
        | Some m => Some (Z.abs m) | None => None end)).
Definition a_max_forward (a : aspec) : res (option Z) :=
  bind (a_node_lags a) (fun ls => Ok (zmax_list (filter (fun z => (0 <=? z)%Z) ls))).
Definition a_all_variable_names (parse : name -> option (name * Z)) (a : aspec) : res (list name) :=
  match all_some (map (fun n => match parse n with Some (v, _) => Some v | None => None end)
                    (a_node_names a)) with
  | None => Err EValue
  | Some vs => Ok (sort_names (dedup vs))
  end.
