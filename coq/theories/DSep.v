(** DSep.v — d-separation on finite directed graphs: the TEXTBOOK (path based) definition,
    at the Prop level and as an executable checker.

    DEFINITIONS ONLY; the proofs are in DSepProofs.v.

    Python side: [CausalGraph.is_d_separated], [get_d_separation_set] and
    [is_minimally_d_separated] (cai_causal_graph/causal_graph.py) delegate to networkx 3.2.1
    ([d_separated], [minimal_d_separator], [is_minimal_d_separator]).  networkx decides
    d-separation through the ancestral graph / removal of the edges leaving the conditioning
    set / weak connectivity; we do NOT model that algorithm.  We model its documented meaning
    (every path between the two sets is blocked) and validate the executable checker below
    against the real library on all DAGs with <= 4 labelled nodes (see DSepProofs.v).

    The agreement is for pairwise DISJOINT X, Y, Z only: networkx also removes the edges
    leaving an END POINT that lies in Z, whereas in the textbook definition only interior
    vertices of a path can block it. *)
From CG Require Import Base Digraph.
Set Implicit Arguments.

Section DSep.
  Variable A : Type.
  Variable eqb : A -> A -> bool.

  (** * Prop level *)

  (** Adjacent in the skeleton: an arc in either direction. *)
  Definition adj (g : digraph A) (a b : A) : Prop := arc g a b \/ arc g b a.

  (** Consecutive vertices are adjacent. *)
  Fixpoint chain (g : digraph A) (p : list A) : Prop :=
    match p with
    | [] => True
    | a :: t => match t with [] => True | b :: _ => adj g a b /\ chain g t end
    end.

  Fixpoint last_error (p : list A) : option A :=
    match p with
    | [] => None
    | a :: t => match t with [] => Some a | _ :: _ => last_error t end
    end.

  (** An undirected path: repeat-free, at least two vertices, consecutive ones adjacent. *)
  Definition upath (g : digraph A) (p : list A) : Prop :=
    NoDup p /\ 2 <= length p /\ chain g p.

  Definition collider_at (g : digraph A) (a b c : A) : Prop := arc g a b /\ arc g c b.

  (** The consecutive triple [a, b, c] blocks, given the conditioning set [Z]: either [b] is a
      collider and neither [b] nor any strict descendant of [b] is in [Z], or [b] is not a
      collider and is in [Z]. *)
  Definition triple_blocks (g : digraph A) (Z : list A) (a b c : A) : Prop :=
    (collider_at g a b c /\ ~ In b Z /\ forall z, In z Z -> ~ path g b z)
    \/ (~ collider_at g a b c /\ In b Z).

  Definition blocked (g : digraph A) (Z p : list A) : Prop :=
    exists l a b c r, p = l ++ a :: b :: c :: r /\ triple_blocks g Z a b c.

  Definition dsep (g : digraph A) (X Y Z : list A) : Prop :=
    forall x y p, In x X -> In y Y -> upath g p ->
      hd_error p = Some x -> last_error p = Some y -> blocked g Z p.

  (** [Z] with every copy of [z] removed. *)
  Definition rem (z : A) (Z : list A) : list A := filter (fun w => negb (eqb z w)) Z.

  (** A separating set from which no single node can be removed. *)
  Definition min_sep (g : digraph A) (x y : A) (Z : list A) : Prop :=
    dsep g [x] [y] Z /\ forall z, In z Z -> ~ dsep g [x] [y] (rem z Z).

  (** * Executable *)

  Definition nbrs (g : digraph A) (x : A) : list A := children eqb g x ++ parents eqb g x.

  (** All repeat-free sequences from [x] to [y] avoiding [vis] (DFS; one unit of fuel per
      vertex on the path). *)
  Fixpoint upaths_from (fuel : nat) (g : digraph A) (vis : list A) (x y : A) : list (list A) :=
    match fuel with
    | O => []
    | S f =>
        if eqb x y then [[x]]
        else flat_map
               (fun n => if memb eqb n (x :: vis) then []
                         else map (cons x) (upaths_from f g (x :: vis) n y))
               (nbrs g x)
    end.

  Definition upaths (fuel : nat) (g : digraph A) (x y : A) : list (list A) :=
    if eqb x y then [] else upaths_from fuel g [] x y.

  Definition triple_blocksb (g : digraph A) (Z : list A) (a b c : A) : bool :=
    if has_arc eqb g a b && has_arc eqb g c b
    then negb (memb eqb b Z) && negb (existsb (fun d => memb eqb d Z) (desc eqb g b))
    else memb eqb b Z.

  Fixpoint blockedb (g : digraph A) (Z p : list A) : bool :=
    match p with
    | [] => false
    | a :: t =>
        match t with
        | b :: c :: _ => triple_blocksb g Z a b c || blockedb g Z t
        | _ => false
        end
    end.

  Definition dsepb (g : digraph A) (X Y Z : list A) : bool :=
    forallb (fun x => forallb (fun y =>
      forallb (blockedb g Z) (upaths (length (verts g)) g x y)) Y) X.

  Definition min_sepb (g : digraph A) (x y : A) (Z : list A) : bool :=
    dsepb g [x] [y] Z && forallb (fun z => negb (dsepb g [x] [y] (rem z Z))) Z.

  (** * [get_d_separation_set] = [networkx.minimal_d_separator(G, u, v)] (Tian & Paz)

      Python (networkx 3.2.1), after the library asserted that the graph is a DAG, that both
      nodes exist and that there is no edge between them:
<<
      D_anc_xy = ancestors(u) | ancestors(v) | {u, v}
      moral_G  = moral_graph(G.subgraph(D_anc_xy))
      Z_prime  = predecessors(u) | predecessors(v)
      Z_dprime = _bfs_with_marks(moral_G, u, Z_prime)
      Z        = _bfs_with_marks(moral_G, v, Z_dprime)
>>
      [_bfs_with_marks(G, s, check)] explores from [s]; a neighbour in [check] is marked and
      not expanded; the marked nodes are returned.  The result is a Python set. *)

  (** Adjacency in the moral graph of the subgraph induced by [D]. *)
  Definition moral_adjb (g : digraph A) (D : list A) (a b : A) : bool :=
    memb eqb a D && memb eqb b D && negb (eqb a b)
    && (has_arc eqb g a b || has_arc eqb g b a
        || existsb (fun c => memb eqb c D && has_arc eqb g b c) (children eqb g a)).

  Definition moral_nbrs (g : digraph A) (D : list A) (a : A) : list A :=
    filter (moral_adjb g D a) D.

  (** [n] rounds of "add the neighbours of the region that are not in [check]". *)
  Fixpoint grow (n : nat) (g : digraph A) (D check R : list A) : list A :=
    match n with
    | O => R
    | S n' =>
        grow n' g D check
          (union eqb (filter (fun x => negb (memb eqb x check)) (flat_map (moral_nbrs g D) R)) R)
    end.

  Definition bfs_marks (g : digraph A) (D : list A) (start : A) (check : list A) : list A :=
    let R := grow (length D) g D check [start] in
    filter (fun c => existsb (fun r => moral_adjb g D r c) R) check.

  Definition min_dsep_set (g : digraph A) (u v : A) : list A :=
    let D := union eqb (anc eqb g u) (union eqb (anc eqb g v) (union eqb [u; v] [])) in
    let Z1 := union eqb (parents eqb g u) (union eqb (parents eqb g v) []) in
    bfs_marks g D v (bfs_marks g D u Z1).

  (** * [is_minimally_d_separated], following the algorithm

      [networkx.is_minimal_d_separator(G, u, v, z)] (3.2.1) first calls [d_separated] (here:
      [dsepb]), rejects a [z] with a node outside ancestors(u) | ancestors(v), and then
      requires every node of [z] to be marked by [_bfs_with_marks] from [u] and from [v] in the
      moralised ancestral graph.  The library ANDs the result with [is_d_separated]. *)
  Definition nx_min_sepb (g : digraph A) (u v : A) (Z : list A) : bool :=
    let xy_anc := union eqb (anc eqb g u) (union eqb (anc eqb g v) []) in
    let D := union eqb (anc eqb g u) (union eqb (anc eqb g v) (union eqb [u; v] [])) in
    dsepb g [u] [v] Z
    && forallb (fun z => memb eqb z xy_anc) Z
    && forallb (fun z => memb eqb z (bfs_marks g D u Z)) Z
    && forallb (fun z => memb eqb z (bfs_marks g D v Z)) Z
    && dsepb g [u] [v] Z.
End DSep.
