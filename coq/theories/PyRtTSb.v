(** PyRtTSb.v — the runtime targeted by /verif/tools/translate_ts_extend.py
    (DEFINITIONS and pinned [Example]s only).

    The translator reads three methods of class [TimeSeriesCausalGraph]
    (cai_causal_graph/time_series_causal_graph.py) with the Python [ast] module and writes, independently of
    each other,
      TSGenMinimal.v   get_minimal_graph, is_minimal_graph     (C14; proofs TSGenMinimalProofs.v)
      TSGenExtend.v    extend_graph                            (C15; proofs TSGenExtendProofs.v)
    one Gallina definition per Python method, statement by statement.  Everything the generated code calls is
    defined HERE, each as a one-line wrapper of a primitive of TSGraph.v.

    ** Conventions
    - OUTCOME of a call: the model's own [res]: [Ok v] = normal return of [v], [Err e] = a Python exception
      of the class [e] was raised (Base.v [err]; the harness maps exception classes to the same codes).  The
      translated methods have no [while] loop and no recursion, so there is no fuel.
    - A [TimeSeriesCausalGraph] is a [tsg] (TSGraph.v).  A graph that a method CREATES and then mutates in place
      ([minimal_cg.add_edge(..)], [extended_graph.add_node(..)]) is threaded through as state: the statement
      rebinds the variable that holds it.  [self] and graphs obtained from [self] are never mutated (refused).
    - A [TimeSeriesNode] OBJECT is a [tnode] (variable name, lag, variable type, user metadata).  An
      IDENTIFIER (a string naming a node) is a [key] = (variable name, lag): [tident] (Dec.v) is the string.
      A VARIABLE NAME is a [name]; used where the library expects an identifier it names the node of that
      variable at lag 0 ([ts_ident_of_name]).
    - A [TimeSeriesEdge] OBJECT is a [pyedge]: its two node objects, its type and its metadata.  The edge
      objects of a graph carry the node objects of that graph ([ts_get_edges]).  On an ill-formed state (an edge
      whose endpoint is not a node of the graph, which the library cannot reach) [ts_get_edges] raises the
      model's [ENodeMissing] BEFORE the loop, the hand model only when it needs the node: the equivalence
      theorems of the first file therefore assume [ends_closed g] (one of the clauses of [wf]).
    - The two reserved metadata tags 'time_lag' / 'variable_name' are not part of [tm] (TSGraph.v: every
      [TimeSeriesNode] constructor recomputes them from the identifier): [n.meta[TIME_LAG] = k] is the identity.
    - [for x in xs: body] is [ts_for inj xs s body k] as in PyRt.v ([xs] evaluated once; [s] the tuple of the
      variables that exist before the loop and that the body rebinds; [TCont] = fell through or [continue],
      [TBrk] = [break], [TDone o] = [return] / [raise]); [inj] is [ts_top] in a method body, [ts_in] in a loop.
    - [if c: A] followed by more statements, where both branches can fall through: the rest becomes a local
      function [join_k] of the variables the branches rebind, called at the end of each branch.

    ** THE TRUSTED TABLE: Python construct |-> Coq term emitted by the translator
       -- control ----------------------------------------------------------------------------------------------
       return e                          |-> inj (Ok e)
       raise E(..)                       |-> inj (Err E')
       assert c [, msg]                  |-> if c then .. else inj (Err EAssert)
       x = <call that can raise>         |-> ts_bind inj <call> (fun x => ..)
       for x in xs: body                 |-> ts_for inj xs s (fun x s => body) (fun s => rest)
       continue                          |-> TCont s
       logger.warning(<effect-free args>)|-> (nothing)
       x: T = e                          |-> as x = e
       -- integers, lists ---------------------------------------------------------------------------------------
       a + b , a - b , -a , abs(a) , int(a)   |-> a + b , a - b , - a , Z.abs a , a          (Z)
       a == b , a < b , a > b , a <= b , a >= b |-> a =? b , a <? b , b <? a , a <=? b , b <=? a
       range(a, b)                       |-> ts_range a b                  (a, a+1, .., b-1)
       [] , l.append(x)                  |-> ts_list_empty , l := ts_list_append l x
       l[0]                              |-> ts_list_getitem0 l            (Err EIndex on [])
       len(l)                            |-> Z.of_nat (length l)
       x in l , x not in l   (names)     |-> mem x l , negb (mem x l)
       x is None , x is not None         |-> false , true   when x cannot be None (node attribute, list, ..);
                                             on an Optional[int] parameter / property, as the whole test of an
                                             [if] / [assert]: match x with Some x' => .. | None => .. end
       isinstance(x, T)                  |-> true           (the translator checks that x has the kind T)
       deepcopy(x)                       |-> ts_deepcopy x                 (values are immutable here: x)
       -- node and edge objects ---------------------------------------------------------------------------------
       n.variable_name , n.time_lag , n.identifier , n.meta , n.variable_type
                                         |-> tv n , tl n , nkey n , tm n , tvt n
       n.meta[TIME_LAG] = k              |-> n := ts_node_set_time_lag_tag n k   (n: the tag is not in [tm])
       e.source , e.destination , e.edge_type , e.get_edge_type() , e.meta
                                         |-> pe_src e , pe_dst e , pe_ty e , pe_ty e , pe_meta e
       self._EdgeCls.from_dict(e.to_dict(include_meta=True))   |-> ts_edge_copy e   (an equal, independent edge)
       <variable name> used as identifier|-> ts_ident_of_name v            ((v, 0))
       get_name_with_lag(i, k)           |-> ts_get_name_with_lag i k      ((variable of i, k))
       self._NodeCls(identifier=i, meta=m, variable_type=t)   |-> ts_new_node i m t
       self._EdgeCls(source=s, destination=d, edge_type=t, meta=m)   |-> ts_new_edge s d t m
                                             (the lag-order normalisation of the TimeSeriesEdge constructor --
                                              swap of a non-directed edge given later->earlier, ValueError for a
                                              directed one -- is performed by [add_edge], as in TSGraph.v)
       self._get_lagged_node(node=n, lag=k)   |-> ts_get_lagged_node n k   (relag n k)
       -- graphs ------------------------------------------------------------------------------------------------
       self.__class__(meta=m)            |-> ts_new_graph m                (empty_tsg m)
       g.meta                            |-> ts_graph_meta g               (tgmeta g)
       g.get_edges()                     |-> ts_get_edges g                (sorted by (source id, destination id))
       g.get_nodes()                     |-> ts_get_nodes g                (sorted by identifier)
       g.variables                       |-> ts_variables g                (sorted, no duplicates; never None)
       g.get_nodes_for_variable_name(v)  |-> ts_get_nodes_for_variable_name g v   (insertion order)
       g.edge_exists(a, b)               |-> ts_edge_exists g a b          (ONE orientation)
       g.node_exists(a)                  |-> ts_node_exists g a
       g.get_node(a)                     |-> ts_get_node g a               (Err EKey if absent)
       g.is_empty()                      |-> ts_is_empty g
       g.copy()                          |-> ts_copy g                     (copy_g)
       g.max_backward_lag                |-> ts_max_backward_lag g         (option Z)
       g.add_node(node=n)                |-> g := ts_add_node g n          (Err ENodeDup if present)
       g.add_edge(edge=e, validate=False)|-> g := ts_add_edge_obj g e      (TSGraph.add_edge)
       g.add_edge(source=s, destination=d, edge_type=t, meta=m, validate=False)
                                         |-> g := ts_add_edge g s d t m    (TSGraph.add_edge)
       a == b   (graphs)                 |-> ts_graph_eq a b               (ts_graph_eqb a b)
       self.get_minimal_graph()          |-> gen_get_minimal_graph self    in TSGenMinimal.v (the translated method),
                                             ts_get_minimal_graph self     in TSGenExtend.v  (TSGraph.minimal)
       self._is_minimal_graph            |-> the parameter [v_self__is_minimal_graph : option bool] (the cache;
                                             [self._is_minimal_graph = e] rebinds it) *)
From CG Require Import Base Dec Digraph TSGraph.
Set Implicit Arguments.
Local Open Scope Z_scope.

(** * Control *)
Inductive tsctl (S R : Type) : Type :=
| TCont (s : S)
| TBrk (s : S)
| TDone (o : res R).
Arguments TCont {S R} s.
Arguments TBrk {S R} s.
Arguments TDone {S R} o.

Definition ts_top {R : Type} (o : res R) : res R := o.
Definition ts_in {S R : Type} (o : res R) : tsctl S R := TDone o.

Definition ts_bind {T R Res : Type} (inj : res R -> Res) (o : res T) (k : T -> Res) : Res :=
  match o with
  | Ok t => k t
  | Err e => inj (Err e)
  end.

Fixpoint ts_for {X S R Res : Type} (inj : res R -> Res) (xs : list X) (s : S)
         (body : X -> S -> tsctl S R) (k : S -> Res) {struct xs} : Res :=
  match xs with
  | [] => k s
  | x :: xs' =>
      match body x s with
      | TCont s' => ts_for inj xs' s' body k
      | TBrk s' => k s'
      | TDone o => inj o
      end
  end.

(** * Integers and lists *)
Definition ts_range (a b : Z) : list Z := zrange a (b - 1).
Definition ts_list_empty {X : Type} : list X := [].
Definition ts_list_append {X : Type} (l : list X) (x : X) : list X := l ++ [x].
Definition ts_list_getitem0 {X : Type} (l : list X) : res X :=
  match l with
  | [] => Err EIndex
  | x :: _ => Ok x
  end.
Definition ts_deepcopy {X : Type} (x : X) : X := x.

(** * Node and edge objects *)
Record pyedge := { pe_src : tnode; pe_dst : tnode; pe_ty : etype; pe_meta : meta }.

Definition ts_node_set_time_lag_tag (n : tnode) (k : Z) : tnode := n.
Definition ts_edge_copy (e : pyedge) : pyedge := e.
Definition ts_ident_of_name (v : name) : key := (v, 0).
Definition ts_get_name_with_lag (i : key) (k : Z) : key := (fst i, k).
Definition ts_new_node (i : key) (m : meta) (t : vtype) : tnode :=
  {| tv := fst i; tl := snd i; tvt := t; tm := m |}.
Definition ts_new_edge (s d : tnode) (t : etype) (m : meta) : pyedge :=
  {| pe_src := s; pe_dst := d; pe_ty := t; pe_meta := m |}.
Definition ts_get_lagged_node (n : tnode) (k : Z) : tnode := relag n k.

(** * Graphs *)
Definition ts_new_graph (m : meta) : tsg := empty_tsg m.
Definition ts_graph_meta (g : tsg) : meta := tgmeta g.

(** the edge object of a stored edge: its endpoints are the node objects of the graph *)
Definition ts_edge_obj (g : tsg) (e : tedge) : res pyedge :=
  match find_node g (esrc e), find_node g (edst e) with
  | Some a, Some b => Ok {| pe_src := a; pe_dst := b; pe_ty := ety e; pe_meta := em e |}
  | _, _ => Err ENodeMissing
  end.
Fixpoint ts_all {X Y : Type} (f : X -> res Y) (l : list X) : res (list Y) :=
  match l with
  | [] => Ok []
  | x :: l' =>
      match f x with
      | Err e => Err e
      | Ok y => match ts_all f l' with Ok ys => Ok (y :: ys) | Err e => Err e end
      end
  end.
Definition ts_get_edges (g : tsg) : res (list pyedge) := ts_all (ts_edge_obj g) (sorted_edges g).
Definition ts_get_nodes (g : tsg) : list tnode := sorted_nodes g.
Definition ts_variables (g : tsg) : list name := variables g.
Definition ts_get_nodes_for_variable_name (g : tsg) (v : name) : list tnode :=
  filter (fun n => name_eqb (tv n) v) (tnodes g).
Definition ts_edge_exists (g : tsg) (a b : key) : bool := edge_exists g a b.
Definition ts_node_exists (g : tsg) (a : key) : bool := node_exists g a.
Definition ts_get_node (g : tsg) (a : key) : res tnode :=
  match find_node g a with
  | Some n => Ok n
  | None => Err EKey
  end.
Definition ts_is_empty (g : tsg) : bool := is_empty g.
Definition ts_copy (g : tsg) : tsg := copy_g g.
Definition ts_max_backward_lag (g : tsg) : option Z := max_backward_lag g.
Definition ts_add_node (g : tsg) (n : tnode) : res tsg :=
  if node_exists g (nkey n) then Err ENodeDup else Ok (add_node g n).
Definition ts_add_edge (g : tsg) (s d : tnode) (t : etype) (m : meta) : res tsg := add_edge g s d t m.
Definition ts_add_edge_obj (g : tsg) (e : pyedge) : res tsg :=
  add_edge g (pe_src e) (pe_dst e) (pe_ty e) (pe_meta e).
Definition ts_graph_eq (a b : tsg) : bool := ts_graph_eqb a b.
Definition ts_get_minimal_graph (g : tsg) : res tsg := minimal g.

(** the clause of [wf] under which [ts_get_edges] does not raise *)
Definition ends_closed (g : tsg) : Prop :=
  forall e, In e (tedges g) -> In (esrc e) (map nkey (tnodes g)) /\ In (edst e) (map nkey (tnodes g)).
Definition ends_closed_b (g : tsg) : bool :=
  forallb (fun e => node_exists g (esrc e) && node_exists g (edst e)) (tedges g).

(** * Pinned rows

    Every right-hand side below is what the real interpreter / library printed for the same expression
    (PYTHONPATH=/repo /venv/bin/python).  The probe graph [pg] is
      g = TimeSeriesCausalGraph(meta={'g': 1}); g.add_edge('y lag(n=1)', 'y', meta={'e': 1});
      g.add_edge('x lag(n=2)', 'y lag(n=1)'); g.add_edge('x', 'y', edge_type=EdgeType.UNDIRECTED_EDGE);
      g.add_node('z lag(n=3)', meta={'u': 1}, variable_type=NodeVariableType.BINARY)
    extracted by /verif/harness/tsprops.py (nodes in dict order; x y z u e g k = 120 121 122 117 101 103 107). *)
Module PyRtTSbExamples.
  Local Open Scope N_scope.
  Definition X : name := [120]. Definition Y : name := [121]. Definition ZZ : name := [122].
  Definition nd (v : name) (k : Z) : tnode := {| tv := v; tl := k; tvt := VUnspec; tm := [] |}.
  Definition zn : tnode := {| tv := ZZ; tl := (-3)%Z; tvt := VBin; tm := [([117], JInt 1%Z)] |}.
  Definition pg : tsg :=
    {| tnodes := [nd Y (-1)%Z; nd Y 0%Z; nd X (-2)%Z; nd X 0%Z; zn];
       tedges := [ {| es := Y; esl := (-1)%Z; ed := Y; edl := 0%Z; ety := Dir; em := [([101], JInt 1%Z)] |};
                   {| es := X; esl := (-2)%Z; ed := Y; edl := (-1)%Z; ety := Dir; em := [] |};
                   {| es := X; esl := 0%Z; ed := Y; edl := 0%Z; ety := Und; em := [] |} ];
       tgmeta := [([103], JInt 1%Z)] |}.

  (* list(range(0, 2 + 1)) = [0, 1, 2]; list(range(1, 0 + 1)) = []; list(range(1, 1)) = [] *)
  Example ex_range : ts_range 0 (2 + 1) = [0; 1; 2]%Z /\ ts_range 1 (0 + 1) = [] /\ ts_range 1 1 = [].
  Proof. vm_compute. repeat split; reflexivity. Qed.
  (* [5, 6][0] = 5; [][0] raises IndexError; l = []; l.append(1); l.append(2) -> [1, 2] *)
  Example ex_lists :
    ts_list_getitem0 [5; 6] = Ok 5 /\ ts_list_getitem0 (@nil N) = Err EIndex
    /\ ts_list_append (ts_list_append ts_list_empty 1) 2 = [1; 2].
  Proof. vm_compute. repeat split; reflexivity. Qed.
  (* get_name_with_lag('x lag(n=2)', 0) = 'x'; get_name_with_lag('x', -3) = 'x lag(n=3)';
     get_name_with_lag('x lag(n=1)', 2) = 'x future(n=2)'; the node named by the variable name 'x' is x at lag 0 *)
  Example ex_names :
    kident (ts_get_name_with_lag (X, (-2)%Z) 0) = [120]
    /\ kident (ts_get_name_with_lag (ts_ident_of_name X) (-3)) = [120; 32; 108; 97; 103; 40; 110; 61; 51; 41]
    /\ kident (ts_get_name_with_lag (X, (-1)%Z) 2) = [120; 32; 102; 117; 116; 117; 114; 101; 40; 110; 61; 50; 41]
    /\ ts_ident_of_name X = nkey (nd X 0%Z).
  Proof. vm_compute. repeat split; reflexivity. Qed.
  (* [(e.source.identifier, e.destination.identifier) for e in g.get_edges()]
       = [('x', 'y'), ('x lag(n=2)', 'y lag(n=1)'), ('y lag(n=1)', 'y')];
     e = g.get_edges()[2]: e.source.time_lag = -1, e.source.variable_name = 'y', e.edge_type = e.get_edge_type() = '->',
     e.meta = {'e': 1};  e2 = from_dict(e.to_dict(include_meta=True)): e2 == e, e2 is not e, same metadata *)
  Example ex_get_edges :
    match ts_get_edges pg with
    | Ok l => map (fun e => (nkey (pe_src e), nkey (pe_dst e))) l
              = [((X, 0%Z), (Y, 0%Z)); ((X, (-2)%Z), (Y, (-1)%Z)); ((Y, (-1)%Z), (Y, 0%Z))]
              /\ map pe_ty l = [Und; Dir; Dir] /\ map pe_meta l = [[]; []; [([101], JInt 1%Z)]]
              /\ map ts_edge_copy l = l
    | Err _ => False
    end.
  Proof. vm_compute. repeat split; reflexivity. Qed.
  (* [n.identifier for n in g.get_nodes()] = ['x', 'x lag(n=2)', 'y', 'y lag(n=1)', 'z lag(n=3)'];
     g.variables = ['x', 'y', 'z']; [n.identifier for n in g.get_nodes_for_variable_name('x')] = ['x lag(n=2)', 'x'];
     g.get_nodes_for_variable_name('q') = []; g.max_backward_lag = 3; g.is_empty() = False; g.meta = {'g': 1};
     TimeSeriesCausalGraph(): variables = [], max_backward_lag = None, is_empty() = True *)
  Example ex_queries :
    map nkey (ts_get_nodes pg) = [(X, 0%Z); (X, (-2)%Z); (Y, 0%Z); (Y, (-1)%Z); (ZZ, (-3)%Z)]
    /\ ts_variables pg = [X; Y; ZZ]
    /\ map nkey (ts_get_nodes_for_variable_name pg X) = [(X, (-2)%Z); (X, 0%Z)]
    /\ ts_get_nodes_for_variable_name pg [113] = []
    /\ ts_max_backward_lag pg = Some 3%Z /\ ts_is_empty pg = false /\ ts_graph_meta pg = [([103], JInt 1%Z)]
    /\ ts_variables (ts_new_graph []) = [] /\ ts_max_backward_lag (ts_new_graph []) = None
    /\ ts_is_empty (ts_new_graph []) = true.
  Proof. vm_compute. repeat split; reflexivity. Qed.
  (* g.edge_exists('x', 'y') = True, g.edge_exists('y', 'x') = False (one orientation, also for '--');
     g.edge_exists('y lag(n=1)', 'y') = True; g.node_exists('z lag(n=3)') = True; g.node_exists('z') = False;
     g.get_node('q') raises KeyError; g.add_node(node=<a node named 'x'>) raises NodeDuplicatedError;
     list(g.copy()._nodes_by_identifier) = ['x', 'x lag(n=2)', 'y', 'y lag(n=1)', 'z lag(n=3)'] (sorted), g == g.copy() *)
  Example ex_exists :
    ts_edge_exists pg (ts_ident_of_name X) (ts_ident_of_name Y) = true
    /\ ts_edge_exists pg (ts_ident_of_name Y) (ts_ident_of_name X) = false
    /\ ts_edge_exists pg (Y, (-1)%Z) (Y, 0%Z) = true
    /\ ts_node_exists pg (ZZ, (-3)%Z) = true /\ ts_node_exists pg (ts_ident_of_name ZZ) = false
    /\ ts_get_node pg ([113], 0%Z) = Err EKey /\ ts_get_node pg (ZZ, (-3)%Z) = Ok zn
    /\ ts_add_node pg (nd X 0%Z) = Err ENodeDup
    /\ map nkey (tnodes (ts_copy pg)) = [(X, 0%Z); (X, (-2)%Z); (Y, 0%Z); (Y, (-1)%Z); (ZZ, (-3)%Z)]
    /\ ts_graph_eq pg (ts_copy pg) = true.
  Proof. vm_compute. repeat split; reflexivity. Qed.
  (* n = g._get_lagged_node(node=g.get_node('z lag(n=3)'), lag=-1): 'z lag(n=1)', user metadata {'u': 1}, binary;
     self._NodeCls(identifier='x', meta={'time_lag': 5, 'u': 2}, variable_type=..).meta
       = {'time_lag': 0, 'u': 2, 'variable_name': 'x'}: the reserved tags are recomputed, so
     n.meta[TIME_LAG] = k has no effect on the node that is built from n.meta afterwards *)
  Example ex_nodes :
    ts_get_lagged_node zn (-1) = {| tv := ZZ; tl := (-1)%Z; tvt := VBin; tm := [([117], JInt 1%Z)] |}
    /\ ts_new_node (ts_ident_of_name X) (tm (ts_node_set_time_lag_tag {| tv := X; tl := 5%Z; tvt := VUnspec; tm := [([117], JInt 2%Z)] |} 5)) VUnspec
       = {| tv := X; tl := 0%Z; tvt := VUnspec; tm := [([117], JInt 2%Z)] |}.
  Proof. vm_compute. split; reflexivity. Qed.
  (* h = TimeSeriesCausalGraph(); every call with validate=False, Node objects taken from g:
     h.add_edge(source=x, destination=x, ..)                       raises CyclicConnectionError
     h.add_edge(source=x lag 2, destination=y, '->', meta={'k': 1}) creates both nodes, source first:
                                                                    nodes ['x lag(n=2)', 'y'], edge ('x lag(n=2)', 'y', {'k': 1})
     then h.add_edge(source=x lag 2, destination=y)                raises EdgeDuplicatedError
          h.add_edge(source=y, destination=x lag 2, '->')          raises ValueError
          h.add_edge(source=y, destination=x lag 2, '--')          raises EdgeDuplicatedError (swapped by the edge class)
          h.add_edge(source=z lag 3, destination=y, '--')          nodes [.., 'z lag(n=3)'], edges [.., ('z lag(n=3)', 'y')] *)
  Example ex_add_edge :
    let x2 := nd X (-2)%Z in let y0 := nd Y 0%Z in
    ts_add_edge (ts_new_graph []) (nd X 0%Z) (nd X 0%Z) Dir [] = Err ECyclic
    /\ match ts_add_edge (ts_new_graph []) x2 y0 Dir [([107], JInt 1%Z)] with
       | Ok h =>
           map nkey (tnodes h) = [(X, (-2)%Z); (Y, 0%Z)]
           /\ map (fun e => (esrc e, edst e, em e)) (tedges h) = [((X, (-2)%Z), (Y, 0%Z), [([107], JInt 1%Z)])]
           /\ ts_add_edge h x2 y0 Dir [] = Err EEdgeDup
           /\ ts_add_edge h y0 x2 Dir [] = Err EValue
           /\ ts_add_edge h y0 x2 Und [] = Err EEdgeDup
           /\ match ts_add_edge_obj h (ts_new_edge zn y0 Und []) with
              | Ok h' => map nkey (tnodes h') = [(X, (-2)%Z); (Y, 0%Z); (ZZ, (-3)%Z)]
                         /\ map (fun e => (esrc e, edst e)) (tedges h') = [((X, (-2)%Z), (Y, 0%Z)); ((ZZ, (-3)%Z), (Y, 0%Z))]
              | Err _ => False
              end
       | Err _ => False
       end.
  Proof. vm_compute. repeat split; reflexivity. Qed.
  (* m = g.get_minimal_graph(): nodes ['x', 'y', 'x lag(n=1)', 'y lag(n=1)', 'z'], edges
     [('x', 'y', '--'), ('x lag(n=1)', 'y', '->'), ('y lag(n=1)', 'y', '->')]; g == m is False; m == m' is True *)
  Example ex_minimal_row :
    match ts_get_minimal_graph pg with
    | Ok m => map nkey (tnodes m) = [(X, 0%Z); (Y, 0%Z); (X, (-1)%Z); (Y, (-1)%Z); (ZZ, 0%Z)]
              /\ map (fun e => (esrc e, edst e, ety e)) (sorted_edges m)
                 = [((X, 0%Z), (Y, 0%Z), Und); ((X, (-1)%Z), (Y, 0%Z), Dir); ((Y, (-1)%Z), (Y, 0%Z), Dir)]
              /\ ts_graph_eq pg m = false /\ ts_graph_eq m m = true
    | Err _ => False
    end.
  Proof. vm_compute. repeat split; reflexivity. Qed.
End PyRtTSbExamples.
