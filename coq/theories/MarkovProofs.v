(** MarkovProofs.v — the Markov boundary shields its node and is minimal; the collider
    queries return exactly the nodes with two arrowheads pointing in. *)
From CG Require Import Base Digraph DSep DSepProofs Markov.
From Coq Require Import Relations.Relation_Operators Arith.
Set Implicit Arguments.

Section MarkovProofs.
  Variable A : Type.
  Variable eqb : A -> A -> bool.
  Hypothesis eqb_spec : forall x y, reflect (x = y) (eqb x y).

  Local Notation memb_in := (ds_memb_in eqb eqb_spec).
  Local Notation memb_false := (ds_memb_false eqb eqb_spec).
  Local Notation children_in := (ds_children_in eqb eqb_spec).
  Local Notation parents_in := (ds_parents_in eqb eqb_spec).
  Local Notation union_in := (ds_union_in eqb eqb_spec).
  Local Notation union_nodup := (ds_union_nodup eqb eqb_spec).
  Local Notation mb := (markov_boundary eqb).

  Lemma mk_eqb_refl x : eqb x x = true.
  Proof. destruct (eqb_spec x x); [reflexivity|contradiction]. Qed.

  (** * Markov boundary: membership *)

  Lemma mk_coparents_in (g : digraph A) a m :
    In m (coparents eqb g a) <-> exists c, arc g a c /\ arc g m c /\ m <> a.
  Proof.
    unfold coparents; rewrite in_flat_map; split.
    - intros (c & Hc & Hm). apply filter_In in Hm; destruct Hm as [Hm Hne].
      exists c; repeat split; [apply children_in, Hc|apply parents_in, Hm|].
      intros ->; rewrite mk_eqb_refl in Hne; discriminate.
    - intros (c & Hac & Hmc & Hne). exists c; split; [apply children_in, Hac|].
      apply filter_In; split; [apply parents_in, Hmc|].
      destruct (eqb_spec m a); [contradiction|reflexivity].
  Qed.

  Theorem mb_spec (g : digraph A) a m :
    In m (mb g a) <->
    arc g m a \/ arc g a m \/ exists c, arc g a c /\ arc g m c /\ m <> a.
  Proof.
    unfold markov_boundary; rewrite !union_in, parents_in, children_in, mk_coparents_in.
    simpl; tauto.
  Qed.

  Lemma mb_nodup (g : digraph A) a : NoDup (mb g a).
  Proof. unfold markov_boundary; repeat apply union_nodup; constructor. Qed.

  Lemma mb_incl (g : digraph A) a : wf g -> incl (mb g a) (verts g).
  Proof.
    intros [_ Hwf] m Hm; apply mb_spec in Hm.
    destruct Hm as [H|[H|(c & _ & H & _)]]; apply Hwf in H; tauto.
  Qed.

  (** * Markov boundary: shielding and minimality *)

  Definition no2cyc (g : digraph A) : Prop := forall u v, arc g u v -> ~ arc g v u.

  Lemma mk_acyclic_no2cyc (g : digraph A) : acyclic g -> no2cyc g.
  Proof.
    intros Hac u v Huv Hvu; apply (Hac u).
    eapply t_trans; apply t_step; eassumption.
  Qed.

  Lemma mk_acyclic_noloop (g : digraph A) : acyclic g -> forall u, ~ arc g u u.
  Proof. intros Hac u Hu; apply (Hac u), t_step, Hu. Qed.

  Lemma mb_not_self (g : digraph A) a : acyclic g -> ~ In a (mb g a).
  Proof.
    intros Hac H; apply mb_spec in H.
    destruct H as [H|[H|(c & _ & _ & H)]]; [| |congruence]; exact (mk_acyclic_noloop Hac _ H).
  Qed.

  (** Every path from [a] to a node outside [{a}] + boundary is blocked by the boundary. *)
  Lemma mb_shields_no2cyc (g : digraph A) a w :
    no2cyc g -> w <> a -> ~ In w (mb g a) -> dsep g [a] [w] (mb g a).
  Proof.
    intros H2 Hwa Hw x y p [<-|[]] [<-|[]] (Hnd & Hlen & Hch) Hhd Hlast.
    destruct p as [|a0 [|v1 rest]]; simpl in Hlen; try lia.
    injection Hhd as ->. destruct Hch as [Hav1 Hch].
    assert (HM1 : In v1 (mb g a)).
    { apply mb_spec; destruct Hav1 as [H|H]; [right; left; exact H|left; exact H]. }
    destruct rest as [|v2 rest].
    { simpl in Hlast; injection Hlast as <-; contradiction. }
    destruct Hch as [Hv12 Hch].
    destruct Hav1 as [Ha1|H1a].
    - destruct Hv12 as [H12|H21].
      + exists [], a, v1, v2, rest; split; [reflexivity|right; split; [|exact HM1]].
        intros [_ H]; exact (H2 _ _ H12 H).
      + assert (Hv2a : v2 <> a).
        { intros ->; inversion Hnd as [|? ? Hnin _]; subst; apply Hnin; right; left; reflexivity. }
        assert (HM2 : In v2 (mb g a)).
        { apply mb_spec; right; right; exists v1; repeat split; assumption. }
        destruct rest as [|v3 rest].
        { simpl in Hlast; injection Hlast as <-; contradiction. }
        exists [a], v1, v2, v3, rest; split; [reflexivity|right; split; [|exact HM2]].
        intros [H _]; exact (H2 _ _ H21 H).
    - exists [], a, v1, v2, rest; split; [reflexivity|right; split; [|exact HM1]].
      intros [H _]; exact (H2 _ _ H1a H).
  Qed.

  Theorem mb_shields (g : digraph A) a w :
    acyclic g -> w <> a -> ~ In w (mb g a) -> dsep g [a] [w] (mb g a).
  Proof. intros Hac; apply mb_shields_no2cyc, mk_acyclic_no2cyc, Hac. Qed.

  Lemma mk_diff_in (l1 l2 : list A) w : In w (diff eqb l1 l2) <-> In w l1 /\ ~ In w l2.
  Proof. unfold diff; rewrite filter_In, negb_true_iff, memb_false; reflexivity. Qed.

  (** Conditioning on the boundary separates [a] from ALL the remaining nodes at once. *)
  Theorem mb_shields_all (g : digraph A) a :
    acyclic g -> dsep g [a] (diff eqb (verts g) (a :: mb g a)) (mb g a).
  Proof.
    intros Hac x y p Hx Hy. apply mk_diff_in in Hy; destruct Hy as [_ Hy].
    apply (@mb_shields g a y Hac); [| |exact Hx|left; reflexivity].
    - intros ->; apply Hy; left; reflexivity.
    - intros H; apply Hy; right; exact H.
  Qed.

  (** No member can be dropped: dropping [m] leaves an open path from [a] to [m]. *)
  Theorem mb_minimal (g : digraph A) a m :
    acyclic g -> In m (mb g a) -> ~ dsep g [a] [m] (rem eqb m (mb g a)).
  Proof.
    intros Hac Hm. pose proof (mk_acyclic_noloop Hac) as Hnl.
    apply mb_spec in Hm; destruct Hm as [H|[H|(c & Hac' & Hmc & Hne)]].
    - apply adjacent_never_separated; [right; exact H|intros ->; exact (Hnl _ H)].
    - apply adjacent_never_separated; [left; exact H|intros ->; exact (Hnl _ H)].
    - intros Hd.
      assert (Hxc : a <> c) by (intros ->; exact (Hnl _ Hac')).
      assert (Hcm : c <> m) by (intros ->; exact (Hnl _ Hmc)).
      destruct (Hd a m [a; c; m]) as (l & a' & b' & c' & r & E & Hb);
        [left; reflexivity|left; reflexivity| |reflexivity|reflexivity|].
      + repeat split; [|simpl; lia|left; exact Hac'|right; exact Hmc].
        constructor; [intros [E|[E|[]]]; congruence|].
        constructor; [intros [E|[]]; congruence|].
        constructor; [intros []|constructor].
      + destruct l as [|z l].
        * simpl in E; injection E as <- <- <- _.
          destruct Hb as [(_ & Hnin & _)|[Hncol _]].
          -- apply Hnin, (ds_rem_in eqb eqb_spec); split; [|exact Hcm].
             apply mb_spec; right; left; exact Hac'.
          -- apply Hncol; split; assumption.
        * apply (f_equal (@length A)) in E; simpl in E; rewrite app_length in E; simpl in E; lia.
  Qed.

  (** The executable checker confirms both facts on every well-formed DAG. *)
  Corollary mb_shieldsb (g : digraph A) a w :
    wf g -> acyclic g -> w <> a -> ~ In w (mb g a) -> dsepb eqb g [a] [w] (mb g a) = true.
  Proof. intros Hwf Hac H1 H2; apply (dsepb_correct eqb eqb_spec _ _ _ Hwf), mb_shields; assumption. Qed.

  Corollary mb_minimalb (g : digraph A) a m :
    wf g -> acyclic g -> In m (mb g a) -> dsepb eqb g [a] [m] (rem eqb m (mb g a)) = false.
  Proof.
    intros Hwf Hac Hm; destruct (dsepb eqb g [a] [m] (rem eqb m (mb g a))) eqn:E; [|reflexivity].
    apply (dsepb_correct eqb eqb_spec _ _ _ Hwf) in E; exfalso; exact (mb_minimal Hac Hm E).
  Qed.

  (** * Mixed graphs: neighbours, potential parents *)

  Local Notation mg_neighbors := (mg_neighbors eqb).
  Local Notation mg_get_edge := (mg_get_edge eqb).
  Local Notation mg_edge_exists := (mg_edge_exists eqb).
  Local Notation mg_bi_stored := (mg_bi_stored eqb).
  Local Notation is_potential_parent := (is_potential_parent eqb).
  Local Notation potential_parents := (potential_parents eqb).

  Lemma mk_get_edge_some (mg : list (medge A)) a b e :
    mg_get_edge mg a b = Some e -> exists t, e = (a, b, t) /\ In (a, b, t) mg.
  Proof.
    unfold Markov.mg_get_edge; intros H; apply find_some in H; destruct H as [Hin H].
    destruct e as [[a' b'] t]; unfold msrc, mdst in H; simpl in H.
    apply andb_true_iff in H; destruct H as [H1 H2].
    destruct (eqb_spec a' a); [|discriminate]. destruct (eqb_spec b' b); [|discriminate].
    subst; exists t; split; [reflexivity|exact Hin].
  Qed.

  Lemma mk_get_edge_none (mg : list (medge A)) a b t :
    mg_get_edge mg a b = None -> ~ In (a, b, t) mg.
  Proof.
    unfold Markov.mg_get_edge; intros H Hin.
    apply (find_none _ _ H) in Hin; unfold msrc, mdst in Hin; simpl in Hin.
    rewrite !mk_eqb_refl in Hin; discriminate.
  Qed.

  Lemma mk_edge_exists (mg : list (medge A)) a b :
    mg_edge_exists mg a b = true <-> exists t, In (a, b, t) mg.
  Proof.
    unfold Markov.mg_edge_exists; destruct (mg_get_edge mg a b) as [e|] eqn:E; split.
    - intros _; apply mk_get_edge_some in E; destruct E as (t & _ & H); exists t; exact H.
    - reflexivity.
    - discriminate.
    - intros (t & H); exfalso; eapply mk_get_edge_none; eassumption.
  Qed.

  Lemma mk_bi_stored (mg : list (medge A)) a b : mg_bi_stored mg a b = true <-> In (a, b, Bi) mg.
  Proof.
    unfold Markov.mg_bi_stored; rewrite existsb_exists; split.
    - intros ([[a' b'] t] & Hin & H); unfold msrc, mdst, mty in H; simpl in H.
      apply andb_true_iff in H; destruct H as [H H3].
      apply andb_true_iff in H; destruct H as [H1 H2].
      destruct (eqb_spec a' a); [|discriminate]. destruct (eqb_spec b' b); [|discriminate].
      destruct (etype_eqb_spec t Bi); [|discriminate]. subst; exact Hin.
    - intros H; exists (a, b, Bi); split; [exact H|].
      unfold msrc, mdst, mty; simpl; rewrite !mk_eqb_refl; reflexivity.
  Qed.

  Lemma mk_adjacent_sym (mg : list (medge A)) a b : mg_adjacent mg a b <-> mg_adjacent mg b a.
  Proof. unfold mg_adjacent; split; intros (t & H); exists t; tauto. Qed.

  Lemma mk_neighbors_in (mg : list (medge A)) n m :
    In m (mg_neighbors mg n) <-> m <> n /\ mg_adjacent mg n m.
  Proof.
    unfold Markov.mg_neighbors, mg_adjacent.
    rewrite filter_In, !union_in, !in_map_iff, negb_true_iff. split.
    - intros [H Hne]. split; [intros ->; rewrite mk_eqb_refl in Hne; discriminate|].
      destruct H as [([[a b] t] & E & H)|[([[a b] t] & E & H)|[]]];
        unfold msrc, mdst in *; simpl in *; subst; apply filter_In in H; destruct H as [H E];
        simpl in E; exists t.
      + destruct (eqb_spec a n); [subst; left; exact H|discriminate].
      + destruct (eqb_spec b n); [subst; right; exact H|discriminate].
    - intros [Hne (t & H)]. split; [|destruct (eqb_spec m n); [contradiction|reflexivity]].
      destruct H as [H|H]; [left; exists (n, m, t)|right; left; exists (m, n, t)];
        (split; [reflexivity|]); apply filter_In; (split; [exact H|]);
        unfold msrc, mdst; simpl; apply mk_eqb_refl.
  Qed.

  Lemma mk_neighbors_nodup (mg : list (medge A)) n : NoDup (mg_neighbors mg n).
  Proof. unfold Markov.mg_neighbors; apply NoDup_filter; repeat apply union_nodup; constructor. Qed.

  (** [identify_markov_boundary] on a skeleton: exactly the neighbours. *)
  Theorem skeleton_mb_spec (mg : list (medge A)) a m :
    In m (skeleton_markov_boundary eqb mg a) <-> m <> a /\ mg_adjacent mg a m.
  Proof. apply mk_neighbors_in. Qed.

  Lemma mk_pp_sound (mg : list (medge A)) n m : is_potential_parent mg n m = true -> arrow_into mg m n.
  Proof.
    unfold Markov.is_potential_parent, arrow_into; intros H.
    apply orb_true_iff in H; destruct H as [H|H].
    - apply andb_true_iff in H; destruct H as [_ H].
      destruct (mg_get_edge mg m n) as [e|] eqn:E; [|discriminate].
      apply mk_get_edge_some in E; destruct E as (t & -> & Hin).
      unfold mty in H; simpl in H. destruct (etype_eqb_spec t Dir); [|discriminate].
      subst; left; exact Hin.
    - apply orb_true_iff in H; destruct H as [H|H]; apply mk_bi_stored in H; tauto.
  Qed.

  Lemma mk_pp_complete (mg : list (medge A)) n m :
    mg_wf mg -> arrow_into mg m n -> is_potential_parent mg n m = true.
  Proof.
    intros [_ Huniq] H; unfold Markov.is_potential_parent.
    destruct H as [H|[H|H]].
    - apply orb_true_iff; left.
      assert (Hex : mg_edge_exists mg m n = true) by (apply mk_edge_exists; exists Dir; exact H).
      rewrite Hex; simpl. unfold Markov.mg_edge_exists in Hex.
      destruct (mg_get_edge mg m n) as [e|] eqn:E; [|discriminate].
      apply mk_get_edge_some in E; destruct E as (t & -> & Hin).
      assert (Eq : (m, n, t) = (m, n, Dir)) by (apply Huniq; auto).
      injection Eq as ->; reflexivity.
    - apply orb_true_iff; right; apply orb_true_iff; left; apply mk_bi_stored; exact H.
    - apply orb_true_iff; right; apply orb_true_iff; right; apply mk_bi_stored; exact H.
  Qed.

  Lemma mk_arrow_adjacent (mg : list (medge A)) m n : arrow_into mg m n -> mg_adjacent mg n m.
  Proof. intros [H|[H|H]]; [exists Dir|exists Bi|exists Bi]; tauto. Qed.

  Lemma mk_arrow_neq (mg : list (medge A)) m n : mg_wf mg -> arrow_into mg m n -> m <> n.
  Proof.
    intros [Hnl _] [H|[H|H]]; apply Hnl in H; congruence.
  Qed.

  Lemma potential_parents_in (mg : list (medge A)) n m :
    mg_wf mg -> (In m (potential_parents mg n) <-> arrow_into mg m n).
  Proof.
    intros Hwf; unfold Markov.potential_parents; rewrite filter_In, mk_neighbors_in; split.
    - intros [_ H]; apply mk_pp_sound; exact H.
    - intros H; repeat split.
      + apply (mk_arrow_neq Hwf H).
      + apply mk_arrow_adjacent; exact H.
      + apply mk_pp_complete; assumption.
  Qed.

  Lemma potential_parents_nodup (mg : list (medge A)) n : NoDup (potential_parents mg n).
  Proof. apply NoDup_filter, mk_neighbors_nodup. Qed.

  Lemma mk_two_distinct (l : list A) :
    NoDup l -> (2 <= length l <-> exists m1 m2, m1 <> m2 /\ In m1 l /\ In m2 l).
  Proof.
    intros Hnd; split.
    - destruct l as [|a [|b l]]; simpl; try lia. intros _.
      exists a, b; repeat split; [|left; reflexivity|right; left; reflexivity].
      inversion Hnd as [|? ? Hnin _]; subst; intros ->; apply Hnin; left; reflexivity.
    - intros (m1 & m2 & Hne & H1 & H2).
      destruct l as [|a [|b l]]; simpl; try lia; [contradiction|].
      destruct H1 as [<-|[]]; destruct H2 as [<-|[]]; contradiction.
  Qed.

  (** * [identify_colliders] *)

  Theorem colliders_spec (mg : list (medge A)) nodes n :
    mg_wf mg ->
    (In n (colliders eqb mg nodes) <->
     In n nodes /\ exists m1 m2, m1 <> m2 /\ arrow_into mg m1 n /\ arrow_into mg m2 n).
  Proof.
    intros Hwf; unfold colliders, identify_colliders; rewrite filter_In.
    simpl negb; rewrite orb_true_l, andb_true_r, Nat.leb_le.
    rewrite (mk_two_distinct (potential_parents_nodup mg n)).
    split; intros [Hn (m1 & m2 & Hne & H1 & H2)]; (split; [exact Hn|]);
      exists m1, m2; (split; [exact Hne|]); split; apply (potential_parents_in n _ Hwf); assumption.
  Qed.

  Lemma mk_pairs2_in (l : list A) p q : In (p, q) (pairs2 l) -> In p l /\ In q l.
  Proof.
    induction l as [|x t IH]; [intros []|]. simpl; rewrite in_app_iff, in_map_iff.
    intros [(y & E & Hy)|H]; [injection E as <- <-; auto|]. destruct (IH H); auto.
  Qed.

  Lemma mk_pairs2_neq (l : list A) p q : NoDup l -> In (p, q) (pairs2 l) -> p <> q.
  Proof.
    induction l as [|x t IH]; [intros _ []|]. intros Hnd; inversion Hnd as [|? ? Hnin Hnd']; subst.
    simpl; rewrite in_app_iff, in_map_iff.
    intros [(y & E & Hy)|H]; [injection E as <- <-; intros ->; contradiction|apply IH; assumption].
  Qed.

  Lemma mk_pairs2_complete (l : list A) p q :
    In p l -> In q l -> p <> q -> In (p, q) (pairs2 l) \/ In (q, p) (pairs2 l).
  Proof.
    induction l as [|x t IH]; [intros []|]. intros Hp Hq Hne; simpl; rewrite !in_app_iff.
    destruct Hp as [->|Hp]; destruct Hq as [->|Hq].
    - contradiction.
    - left; left; apply in_map; exact Hq.
    - right; left; apply in_map; exact Hp.
    - destruct (IH Hp Hq Hne); auto.
  Qed.

  Lemma unshieldedb_spec (mg : list (medge A)) pp : NoDup pp ->
    (unshieldedb eqb mg pp = true <->
     forall p q, In p pp -> In q pp -> p <> q -> ~ mg_adjacent mg p q).
  Proof.
    intros Hnd; unfold unshieldedb; rewrite forallb_forall.
    assert (Hadj : forall p q, (mg_edge_exists mg p q || mg_edge_exists mg q p = true)
                               <-> mg_adjacent mg p q).
    { intros p q; rewrite orb_true_iff, !mk_edge_exists; unfold mg_adjacent; split.
      - intros [(t & H)|(t & H)]; exists t; tauto.
      - intros (t & [H|H]); [left|right]; exists t; exact H. }
    split.
    - intros H p q Hp Hq Hne Ha.
      destruct (mk_pairs2_complete pp Hp Hq Hne) as [Hin|Hin]; apply H in Hin; simpl in Hin;
        apply negb_true_iff in Hin.
      + apply Hadj in Ha; congruence.
      + apply mk_adjacent_sym, Hadj in Ha; congruence.
    - intros H [p q] Hin; simpl. apply negb_true_iff.
      destruct (mg_edge_exists mg p q || mg_edge_exists mg q p) eqn:E; [|reflexivity].
      apply Hadj in E. destruct (mk_pairs2_in _ _ _ Hin) as [Hp Hq].
      exfalso; exact (H p q Hp Hq (mk_pairs2_neq Hnd Hin) E).
  Qed.

  Theorem unshielded_spec (mg : list (medge A)) nodes n :
    mg_wf mg ->
    (In n (colliders_unshielded eqb mg nodes) <->
     In n (colliders eqb mg nodes)
     /\ forall m1 m2, m1 <> m2 -> arrow_into mg m1 n -> arrow_into mg m2 n -> ~ mg_adjacent mg m1 m2).
  Proof.
    intros Hwf; unfold colliders_unshielded, colliders, identify_colliders; rewrite !filter_In.
    simpl negb; rewrite orb_true_l, orb_false_l, andb_true_r, andb_true_iff.
    rewrite (unshieldedb_spec mg (potential_parents_nodup mg n)).
    split.
    - intros (Hn & Hlen & H); repeat split; try assumption.
      intros m1 m2 Hne H1 H2; apply H; [| |exact Hne]; apply (potential_parents_in n _ Hwf); assumption.
    - intros ((Hn & Hlen) & H); repeat split; try assumption.
      intros p q Hp Hq Hne; apply H; [exact Hne| |]; apply (potential_parents_in n _ Hwf); assumption.
  Qed.

  (** * Skeleton: the neighbours shield the node and none can be dropped *)

  Theorem skeleton_mb_shields (mg : list (medge A)) a w :
    w <> a -> ~ In w (skeleton_markov_boundary eqb mg a) ->
    mg_sep mg a w (skeleton_markov_boundary eqb mg a).
  Proof.
    intros Hwa Hw p Hnd Hch Hhd Hlast.
    destruct p as [|a0 t]; [discriminate|]. injection Hhd as ->.
    destruct t as [|v1 rest]; [simpl in Hlast; injection Hlast as <-; contradiction|].
    destruct Hch as [Hav1 _].
    assert (HN : In v1 (skeleton_markov_boundary eqb mg a)).
    { apply skeleton_mb_spec; split; [|exact Hav1].
      intros ->; inversion Hnd as [|? ? Hnin _]; subst; apply Hnin; left; reflexivity. }
    destruct rest as [|v2 rest]; [simpl in Hlast; injection Hlast as <-; contradiction|].
    exists [a], v1, (v2 :: rest); repeat split; [discriminate|discriminate|exact HN].
  Qed.

  Theorem skeleton_mb_minimal (mg : list (medge A)) a m :
    In m (skeleton_markov_boundary eqb mg a) ->
    ~ mg_sep mg a m (rem eqb m (skeleton_markov_boundary eqb mg a)).
  Proof.
    intros Hm Hsep. apply skeleton_mb_spec in Hm; destruct Hm as [Hne Hadj].
    destruct (Hsep [a; m]) as (l & s & r & E & Hl & Hr & _); try reflexivity.
    - constructor; [intros [E|[]]; congruence|constructor; [intros []|constructor]].
    - split; [exact Hadj|exact I].
    - destruct l as [|x l]; [congruence|]. destruct r as [|y r]; [congruence|].
      apply (f_equal (@length A)) in E; simpl in E; rewrite app_length in E; simpl in E; lia.
  Qed.
End MarkovProofs.

(** * Non-vacuity and behaviour pinned to the real library *)

(** The graph of the docstring of [identify_markov_boundary]; a node name is one letter. *)
Definition mk_n (c : N) : name := [c].
Definition mk_a := mk_n 97.  Definition mk_b := mk_n 98.  Definition mk_c := mk_n 99.
Definition mk_d := mk_n 100. Definition mk_e := mk_n 101. Definition mk_f := mk_n 102.
Definition mk_g := mk_n 103. Definition mk_u := mk_n 117. Definition mk_v := mk_n 118.
Definition mk_w := mk_n 119. Definition mk_x := mk_n 120. Definition mk_y := mk_n 121.
Definition mk_z := mk_n 122.

Definition mk_doc : digraph name :=
  {| verts := [mk_u; mk_b; mk_v; mk_c; mk_a; mk_d; mk_e; mk_w; mk_f; mk_x; mk_y; mk_g; mk_z];
     arcs := [(mk_u, mk_b); (mk_v, mk_c); (mk_b, mk_a); (mk_c, mk_a); (mk_a, mk_d); (mk_a, mk_e);
              (mk_w, mk_f); (mk_f, mk_d); (mk_d, mk_x); (mk_d, mk_y); (mk_g, mk_e); (mk_g, mk_z)] |}.

Example mk_doc_wf : wf mk_doc.
Proof.
  split.
  - repeat constructor; simpl; intuition discriminate.
  - intros a b H; unfold arc in H; simpl in H.
    repeat (destruct H as [H|H]; [injection H as <- <-; simpl; auto 20|]); contradiction.
Qed.

Example mk_doc_acyclic : acyclic mk_doc.
Proof. apply (ds_acyclicb_sound name_eqb name_eqb_spec mk_doc_wf); vm_compute; reflexivity. Qed.

(** Python: sorted(identify_markov_boundary(cg, 'a')) = ['b','c','d','e','f','g'];
    for 'd': ['a','f','x','y']; for 'g': ['a','e','z']; on cg.skeleton for 'a': ['b','c','d','e']. *)
Example mk_doc_run :
  sort_names (markov_boundary name_eqb mk_doc mk_a) = [mk_b; mk_c; mk_d; mk_e; mk_f; mk_g]
  /\ sort_names (markov_boundary name_eqb mk_doc mk_d) = [mk_a; mk_f; mk_x; mk_y]
  /\ sort_names (markov_boundary name_eqb mk_doc mk_g) = [mk_a; mk_e; mk_z]
  /\ sort_names (skeleton_markov_boundary name_eqb (map (fun e => (e, Dir)) (arcs mk_doc)) mk_a)
     = [mk_b; mk_c; mk_d; mk_e].
Proof. vm_compute; auto. Qed.

(** Python: is_d_separated('a', {'u','v','w','x','y','z'}, mb) = True and, for every member m,
    is_d_separated('a', m, mb - {m}) = False. *)
Example mk_doc_dsep_run :
  let M := markov_boundary name_eqb mk_doc mk_a in
  dsepb name_eqb mk_doc [mk_a] (diff name_eqb (verts mk_doc) (mk_a :: M)) M = true
  /\ map (fun m => dsepb name_eqb mk_doc [mk_a] [m] (rem name_eqb m M)) M
     = [false; false; false; false; false; false].
Proof. vm_compute; auto. Qed.

(** The theorems apply to it. *)
Example mk_doc_shields :
  dsep mk_doc [mk_a] [mk_u; mk_v; mk_w; mk_x; mk_y; mk_z] (markov_boundary name_eqb mk_doc mk_a)
  /\ ~ dsep mk_doc [mk_a] [mk_f]
         (rem name_eqb mk_f (markov_boundary name_eqb mk_doc mk_a)).
Proof.
  split.
  - intros x y p Hx Hy.
    apply (@mb_shields name name_eqb name_eqb_spec mk_doc mk_a y mk_doc_acyclic);
      [| |exact Hx|left; reflexivity].
    + simpl in Hy; intuition (subst; discriminate).
    + intros H; apply (ds_memb_in name_eqb name_eqb_spec) in H.
      simpl in Hy; intuition (subst; vm_compute in H; discriminate).
  - apply (@mb_minimal name name_eqb name_eqb_spec mk_doc mk_a mk_f mk_doc_acyclic).
    apply (ds_memb_in name_eqb name_eqb_spec); vm_compute; reflexivity.
Qed.

(** Colliders.  Nodes are [nat]; observed on the real library with nodes 'a'..'f' = 0..5:
    a -> c <- b, c -> d              : colliders ['c'], unshielded ['c']
    the same plus a -- b             : colliders ['c'], unshielded []
    c <> a, b -> c, c -- d, e o> d, f -> d : colliders ['c'], unshielded ['c']  (o> does not count) *)
Definition mk_col1 : list (medge nat) := [(0, 2, Dir); (1, 2, Dir); (2, 3, Dir)].
Definition mk_col2 : list (medge nat) := [(0, 2, Dir); (1, 2, Dir); (2, 3, Dir); (0, 1, Und)].
Definition mk_col3 : list (medge nat) :=
  [(2, 0, Bi); (1, 2, Dir); (2, 3, Und); (4, 3, UnkDir); (5, 3, Dir)].

Example mk_col_run :
  (colliders Nat.eqb mk_col1 (seq 0 4), colliders_unshielded Nat.eqb mk_col1 (seq 0 4)) = ([2], [2])
  /\ (colliders Nat.eqb mk_col2 (seq 0 4), colliders_unshielded Nat.eqb mk_col2 (seq 0 4)) = ([2], [])
  /\ (colliders Nat.eqb mk_col3 (seq 0 6), colliders_unshielded Nat.eqb mk_col3 (seq 0 6)) = ([2], [2]).
Proof. vm_compute; auto. Qed.

Ltac mk_mg_wf_tac :=
  split;
  [ intros a b t H; simpl in H;
    repeat (destruct H as [H|H]; [injection H as <- <- <-; discriminate|]); contradiction
  | intros a b t a' b' t' H H' Hor; simpl in H, H';
    repeat (destruct H as [H|H]; [injection H as <- <- <-|]); try contradiction;
    repeat (destruct H' as [H'|H']; [injection H' as <- <- <-|]); try contradiction;
    try reflexivity; exfalso; destruct Hor as [[? ?]|[? ?]]; discriminate ].

Example mk_col2_wf : mg_wf mk_col2. Proof. mk_mg_wf_tac. Qed.
Example mk_col3_wf : mg_wf mk_col3. Proof. mk_mg_wf_tac. Qed.

Example mk_col3_collider :
  In 2 (colliders Nat.eqb mk_col3 (seq 0 6)) /\ ~ In 3 (colliders Nat.eqb mk_col3 (seq 0 6)).
Proof.
  split.
  - apply (@colliders_spec nat Nat.eqb Nat.eqb_spec mk_col3 (seq 0 6) 2 mk_col3_wf); split; [simpl; auto|].
    exists 0, 1; split; [discriminate|]; split; [right; right|left]; simpl; auto.
  - vm_compute; intuition discriminate.
Qed.
