(** ExtendProofs.v — property C15: [extend] (extend_graph). *)
From CG Require Import Base Dec Digraph TSGraph TSGraphProofs MinimalProofs.
Local Open Scope Z_scope.

(** * Generic loop lemmas *)

Lemma rfold_map (S A B : Type) (f : S -> B -> res S) (g : A -> B) l x :
  rfold f (map g l) x = rfold (fun x a => f x (g a)) l x.
Proof.
  revert x; induction l as [|a l IH]; intros x; simpl; [reflexivity|].
  destruct (f x (g a)); [apply IH|reflexivity].
Qed.

(** A nested loop is a loop over the pairs, outer index first. *)
Lemma rfold_nested (S A B : Type) (f : A -> S -> B -> res S) la lb x :
  rfold (fun x a => rfold (f a) lb x) la x
  = rfold (fun x p => f (fst p) x (snd p)) (list_prod la lb) x.
Proof.
  revert x; induction la as [|a la IH]; intros x; simpl; [reflexivity|].
  rewrite rfold_app, rfold_map; simpl.
  destruct (rfold (f a) lb x); [apply IH|reflexivity].
Qed.

(** Total correctness where the step may use that the current element was not processed before. *)
Lemma rfold_total_nd (S A : Type) (f : S -> A -> res S) (Q : A -> Prop) (I : list A -> S -> Prop) :
  (forall done a x, Q a -> ~ In a done -> I done x ->
                    exists x', f x a = Ok x' /\ I (done ++ [a]) x') ->
  forall l done x, Forall Q l -> NoDup (done ++ l) -> I done x ->
    exists x', rfold f l x = Ok x' /\ I (done ++ l) x'.
Proof.
  intros Hstep; induction l as [|a l IH]; intros done x HQ ND HI; simpl.
  - exists x; rewrite app_nil_r; auto.
  - inversion HQ as [|? ? Qa HQ']; subst.
    assert (Hn : ~ In a done).
    { apply NoDup_remove_2 in ND; intros H; apply ND; apply in_or_app; auto. }
    destruct (Hstep done a x Qa Hn HI) as (x' & E & HI'); rewrite E.
    replace (done ++ a :: l) with ((done ++ [a]) ++ l) in * by (rewrite <- app_assoc; reflexivity).
    destruct (IH (done ++ [a]) x' HQ' ND HI') as (x'' & E' & HI''). eauto.
Qed.
Arguments rfold_total_nd {S A} f Q I _ l done x _ _ _.

Lemma fold_left_map (S A B : Type) (f : S -> B -> S) (g : A -> B) l x :
  fold_left f (map g l) x = fold_left (fun x a => f x (g a)) l x.
Proof. revert x; induction l as [|a l IH]; intros x; simpl; auto. Qed.

Lemma fold_left_nested (S A B : Type) (f : S -> B -> S) (h : A -> list B) la x :
  fold_left (fun x a => fold_left f (h a) x) la x = fold_left f (flat_map h la) x.
Proof.
  revert x; induction la as [|a la IH]; intros x; simpl; [reflexivity|].
  rewrite fold_left_app; apply IH.
Qed.

Arguments rfold_map {S A B} f g l x.
Arguments rfold_nested {S A B} f la lb x.
Arguments fold_left_map {S A B} f g l x.
Arguments fold_left_nested {S A B} f h la x.

Lemma zrange_in lo hi k : In k (zrange lo hi) <-> lo <= k <= hi.
Proof.
  unfold zrange; rewrite in_map_iff; split.
  - intros (i & <- & Hi); apply in_seq in Hi; lia.
  - intros H; exists (Z.to_nat (k - lo)); split; [lia|apply in_seq; lia].
Qed.

Lemma zrange_nodup lo hi : NoDup (zrange lo hi).
Proof.
  unfold zrange; apply FinFun.Injective_map_NoDup; [|apply seq_NoDup].
  intros i j H; lia.
Qed.

Lemma NoDup_app_intro (A : Type) (l1 l2 : list A) :
  NoDup l1 -> NoDup l2 -> (forall x, In x l1 -> ~ In x l2) -> NoDup (l1 ++ l2).
Proof.
  induction l1 as [|a l1 IH]; simpl; intros N1 N2 H; [exact N2|].
  inversion N1 as [|? ? Ha N1']; subst. constructor.
  - rewrite in_app_iff; intros [H1|H2]; [contradiction|exact (H a (or_introl eq_refl) H2)].
  - apply IH; auto.
Qed.

Lemma NoDup_list_prod (A B : Type) (la : list A) (lb : list B) :
  NoDup la -> NoDup lb -> NoDup (list_prod la lb).
Proof.
  intros Ha Hb; induction Ha as [|a la Hn Ha IH]; simpl; [constructor|].
  apply NoDup_app_intro; [|exact IH|].
  - apply FinFun.Injective_map_NoDup; [|exact Hb]. intros b1 b2 E; congruence.
  - intros [a' b'] H1 H2; apply in_map_iff in H1; destruct H1 as (b & E & _).
    apply in_prod_iff in H2; destruct H2 as [H2 _]. congruence.
Qed.

(** * Minimal graphs and time-shifted copies *)

(** What [extend] needs from the minimal graph: well formed, every edge ends at lag 0. *)
Definition mwf (m : tsg) : Prop := wf m /\ forall e, In e (tedges m) -> edl e = 0.

Definition is_copyP (e e' : tedge) : Prop :=
  es e' = es e /\ ed e' = ed e /\ delta e' = delta e /\ ety e' = ety e /\ em e' = em e.

(** Key of the copy of [e] that ends at time [t]. *)
Definition shiftk (e : tedge) (t : Z) : key * key := ((es e, t - delta e), (ed e, t)).

Record xinv (m x : tsg) : Prop := {
  xi_wf : wf x;
  xi_copy : forall e', In e' (tedges x) -> exists e, In e (tedges m) /\ is_copyP e e';
  xi_node : forall n', In n' (tnodes x) -> exists n, In n (tnodes m) /\ n' = relag n (tl n');
  xi_meta : tgmeta x = tgmeta m
}.

Lemma mwf_delta m e : mwf m -> In e (tedges m) -> 0 <= delta e /\ esl e = - delta e.
Proof.
  intros [W Z0] He; pose proof (wf_time m W e He); pose proof (Z0 e He); unfold delta; lia.
Qed.

(** Adding the copy of the minimal edge [e] ending at [t], when it is not there yet, succeeds
    (no CyclicConnectionError, no ReverseEdgeExistsError, no swap) and keeps the invariant. *)
Lemma try_add m x e ns nd t :
  mwf m -> xinv m x -> In e (tedges m) ->
  find_node m (esrc e) = Some ns -> find_node m (edst e) = Some nd ->
  ~ In (shiftk e t) (map ekey (tedges x)) ->
  let sn := relag ns (t - delta e) in
  let dn := relag nd t in
  add_edge x sn dn (ety e) (em e) = Ok (added x sn dn (ety e) (em e))
  /\ xinv m (added x sn dn (ety e) (em e))
  /\ nkey sn = fst (shiftk e t) /\ nkey dn = snd (shiftk e t).
Proof.
  intros Hm [Xw Xc Xn Xm] He Fs Fd Hnew sn dn.
  destruct (mwf_delta m e Hm He) as [Dp Dl]. destruct Hm as [Wm Z0].
  apply find_node_some in Fs, Fd. destruct Fs as [Hns Ks0], Fd as [Hnd Kd0].
  assert (Ks : nkey sn = (es e, t - delta e)).
  { unfold nkey, esrc in *; simpl; inversion Ks0; reflexivity. }
  assert (Kd : nkey dn = (ed e, t)).
  { unfold nkey, edst in *; simpl; inversion Kd0; reflexivity. }
  assert (Hle : tl sn <= tl dn) by (simpl; lia).
  assert (Hne : nkey sn <> nkey dn).
  { rewrite Ks, Kd; intros E; inversion E as [[E1 E2]].
    apply (wf_noself m e Wm He); unfold esrc, edst; f_equal; [exact E1|].
    pose proof (Z0 e He); lia. }
  assert (Hf : ~ In (nkey sn, nkey dn) (map ekey (tedges x))) by (rewrite Ks, Kd; exact Hnew).
  assert (Hr : ~ In (nkey dn, nkey sn) (map ekey (tedges x))).
  { rewrite Ks, Kd; intros Hin; apply in_map_iff in Hin; destruct Hin as (e'' & K & H'').
    apply ekey_inv in K; destruct K as [K1 K2].
    destruct (Xc e'' H'') as (e2 & H2 & C1 & C2 & C3 & _).
    destruct (mwf_delta m e2 (conj Wm Z0) H2) as [Dp2 Dl2].
    unfold esrc in K1; unfold edst in K2; inversion K1; inversion K2.
    assert (delta e2 = 0 /\ delta e = 0) as [D2 D0] by (unfold delta in C3 |- *; unfold delta in *; lia).
    apply (wf_norev m Wm e e2 He H2); unfold esrc, edst; f_equal; try congruence.
    - pose proof (Z0 e2 H2); lia.
    - pose proof (Z0 e He); lia. }
  split; [|split; [|split; [rewrite Ks|rewrite Kd]; reflexivity]].
  - rewrite add_edge_noswap by exact Hle.
    destruct (key_eqb_spec (nkey sn) (nkey dn)) as [|_]; [contradiction|].
    apply edge_exists_false in Hf, Hr; rewrite Hf, Hr; reflexivity.
  - constructor.
    + apply added_wf; assumption.
    + simpl; intros e' He'; apply in_app_iff in He'; simpl in He'.
      destruct He' as [He'|[<-|[]]]; [auto|].
      exists e; split; [exact He|]. unfold is_copyP, delta; simpl.
      unfold nkey, esrc, edst in Ks0, Kd0; inversion Ks0; inversion Kd0.
      repeat split; auto; unfold delta; lia.
    + simpl; intros n' Hn'. apply ensure_node_in in Hn'. destruct Hn' as [Hn'|[-> _]].
      * apply ensure_node_in in Hn'. destruct Hn' as [Hn'|[-> _]]; [auto|].
        exists ns; split; [exact Hns|reflexivity].
      * exists nd; split; [exact Hnd|reflexivity].
    + exact Xm.
Qed.

(** * Node loops *)

Definition ens_all (x : tsg) (l : list tnode) : tsg := fold_left ensure_node l x.

Lemma ens_all_spec l : forall x,
  let x' := ens_all x l in
  tedges x' = tedges x /\ tgmeta x' = tgmeta x
  /\ (NoDup (map nkey (tnodes x)) -> NoDup (map nkey (tnodes x')))
  /\ (forall n', In n' (tnodes x') -> In n' (tnodes x) \/ In n' l)
  /\ (forall n', In n' (tnodes x) -> In n' (tnodes x'))
  /\ (forall n, In n l -> In (nkey n) (map nkey (tnodes x'))).
Proof.
  induction l as [|a l IH]; intros x; simpl.
  - repeat split; auto. intros n [].
  - destruct (IH (ensure_node x a)) as (E1 & E2 & E3 & E4 & E5 & E6).
    unfold ens_all in *. rewrite ensure_node_edges in E1; rewrite ensure_node_meta in E2.
    repeat split; auto.
    + intros ND; apply E3, ensure_node_nodup, ND.
    + intros n' Hn'; destruct (E4 n' Hn') as [H|H]; [|auto].
      apply ensure_node_in in H; destruct H as [H|[-> _]]; auto.
    + intros n' Hn'; apply E5, ensure_node_incl, Hn'.
    + intros n [<-|Hn]; [|auto].
      assert (K : In (nkey a) (map nkey (tnodes (ensure_node x a)))) by (apply ensure_node_keys; auto).
      apply in_map_iff in K; destruct K as (n0 & K & H0); rewrite <- K; apply in_map, E5, H0.
Qed.

Lemma nodes_loop_eq m x (h : Z -> Z) lags :
  fold_left (fun x lag => ensure_nodes_at m x (h lag)) lags x
  = ens_all x (flat_map (fun lag => map (fun n => relag n (h lag)) (sorted_nodes m)) lags).
Proof.
  unfold ens_all, ensure_nodes_at.
  rewrite <- (fold_left_nested ensure_node
                (fun lag => map (fun n => relag n (h lag)) (sorted_nodes m))).
  revert x; induction lags as [|a lags IH]; intros x; simpl; [reflexivity|].
  rewrite fold_left_map; apply IH.
Qed.

Lemma ens_all_xinv m x l :
  xinv m x -> (forall n', In n' l -> exists n, In n (tnodes m) /\ n' = relag n (tl n')) ->
  xinv m (ens_all x l).
Proof.
  intros [Xw Xc Xn Xm] Hl; destruct (ens_all_spec l x) as (E1 & E2 & E3 & E4 & E5 & E6).
  destruct Xw as [W1 W2 W3 W4 W5]. constructor; [constructor|..]; rewrite ?E1, ?E2; auto.
  - intros e He; destruct (W4 e He) as [H1 H2]. split.
    + apply in_map_iff in H1; destruct H1 as (n & K & Hn); rewrite <- K; apply in_map, E5, Hn.
    + apply in_map_iff in H2; destruct H2 as (n & K & Hn); rewrite <- K; apply in_map, E5, Hn.
  - intros n' Hn'; destruct (E4 n' Hn'); auto.
Qed.
